// Drop-in replacement of /repo/pkg/dict/dict.go (injected with `go build -overlay`, never committed to
// /repo) whose Keys / Values / KVs return the entries in an adversarial order chosen by the
// environment variable FOLANG_DICT_SEED: 0 = sorted by printed key, 1 = reverse of that, n>=2 = a
// pseudo-random permutation derived from (n, number of entries, call counter).  Everything else is
// identical to the original.
package dict

import (
	"fmt"
	"math/rand"
	"os"
	"sort"
	"strconv"

	"github.com/karino2/folang/pkg/frt"
)

type Dict[K comparable, V any] struct {
	Fdict map[K]V
}

func New[K comparable, V any]() Dict[K, V] {
	res := Dict[K, V]{}
	res.Fdict = make(map[K]V)
	return res
}

func Add[K comparable, V any](d Dict[K, V], key K, v V) {
	d.Fdict[key] = v
}

func ContainsKey[K comparable, V any](d Dict[K, V], key K) bool {
	_, ok := d.Fdict[key]
	return ok
}

func TryFind[K comparable, V any](d Dict[K, V], key K) frt.Tuple2[V, bool] {
	e, ok := d.Fdict[key]
	return frt.NewTuple2(e, ok)
}

func Item[K comparable, V any](d Dict[K, V], key K) V {
	e := d.Fdict[key]
	return e
}

var permSeed = func() int { n, _ := strconv.Atoi(os.Getenv("FOLANG_DICT_SEED")); return n }()
var permCalls = 0

func orderedKeys[K comparable, V any](d Dict[K, V]) []K {
	keys := make([]K, 0, len(d.Fdict))
	for k := range d.Fdict {
		keys = append(keys, k)
	}
	sort.Slice(keys, func(i, j int) bool { return fmt.Sprint(keys[i]) < fmt.Sprint(keys[j]) })
	permCalls++
	switch {
	case permSeed == 1:
		for i, j := 0, len(keys)-1; i < j; i, j = i+1, j-1 {
			keys[i], keys[j] = keys[j], keys[i]
		}
	case permSeed >= 2:
		r := rand.New(rand.NewSource(int64(permSeed)*1000003 + int64(len(keys))*7919 + int64(permCalls)))
		r.Shuffle(len(keys), func(i, j int) { keys[i], keys[j] = keys[j], keys[i] })
	}
	return keys
}

func KVs[K comparable, V any](d Dict[K, V]) []frt.Tuple2[K, V] {
	var res []frt.Tuple2[K, V]
	for _, k := range orderedKeys(d) {
		res = append(res, frt.NewTuple2(k, d.Fdict[k]))
	}
	return res
}

func Keys[K comparable, V any](d Dict[K, V]) []K {
	var res []K
	for _, k := range orderedKeys(d) {
		res = append(res, k)
	}
	return res
}

func Values[K comparable, V any](d Dict[K, V]) []V {
	var res []V
	for _, k := range orderedKeys(d) {
		res = append(res, d.Fdict[k])
	}
	return res
}

func ToDict[K comparable, V any](ss []frt.Tuple2[K, V]) Dict[K, V] {
	dic := New[K, V]()
	for _, tp := range ss {
		k, v := frt.Destr2(tp)
		Add(dic, k, v)
	}
	return dic
}
