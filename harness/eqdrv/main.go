// eqdrv: value pairs of real fc-emitted types (gen_eqtypes.go is produced by the real fc from
// eqtypes.fo at check time) through the emitted `=` / `<>` functions, i.e. frt.OpEqual/OpNotEqual.
// Each value is printed as the Go value it is (nil-ness of slices included) for the oracle.
package main

import (
	"bufio"
	"encoding/hex"
	"encoding/json"
	"fmt"
	"math/rand"
	"os"
	"sort"
	"strconv"
	"strings"

	"github.com/karino2/folang/pkg/frt"
	"github.com/karino2/folang/pkg/slice"
)

var out = bufio.NewWriterSize(os.Stdout, 1<<20)
var stats = map[string]int{}

func sxList(items ...string) string { return "(" + strings.Join(items, " ") + ")" }
func sxStr(s string) string         { return "x" + hex.EncodeToString([]byte(s)) }

type rngs struct{ st, path *rand.Rand }

// ---- generators: (value, S-expression of the Go value)

func gInt(r rngs) (int, string) { v := r.st.Intn(3); return v, sxList("i", strconv.Itoa(v)) }
func gStr(r rngs) (string, string) {
	v := []string{"", "a", "B"}[r.st.Intn(3)]
	return v, sxList("s", sxStr(v))
}
func gBool(r rngs) (bool, string) {
	v := r.st.Intn(2) == 0
	if v {
		return v, "(b true)"
	}
	return v, "(b false)"
}

// a slice with given elements produced through a randomly chosen library path
func gSlice[T any](r rngs, ge func(rngs) (T, string)) ([]T, string) {
	n := r.st.Intn(3)
	if r.st.Intn(3) == 0 {
		n = 0
	}
	var elems []T
	parts := []string{}
	for i := 0; i < n; i++ {
		e, s := ge(r)
		elems = append(elems, e)
		parts = append(parts, s)
	}
	var res []T
	switch r.path.Intn(6) {
	case 0: // literal / make
		res = make([]T, 0, n)
		res = append(res, elems...)
	case 1: // append-built (nil when empty)
		for _, e := range elems {
			res = append(res, e)
		}
	case 2: // slice.New + PushLast
		res = slice.New[T]()
		for _, e := range elems {
			res = slice.PushLast(e, res)
		}
	case 3: // Filter result
		res = slice.Filter(func(T) bool { return true }, elems)
	case 4: // Take of a longer slice
		var extra T
		res = slice.Take(n, append(append([]T{}, elems...), extra))
	default: // Skip of a longer slice
		var extra T
		res = slice.Skip(1, append([]T{extra}, elems...))
	}
	stats[fmt.Sprintf("slice.len%d.nil=%v", n, res == nil)]++
	if res == nil {
		return res, "(nsl)"
	}
	return res, sxList(append([]string{"sl"}, parts...)...)
}

func gPoint(r rngs) (point, string) {
	x, sx := gInt(r)
	y, sy := gInt(r)
	return mkPoint(x, y), sxList("st", "(point)", sxList("x", sx), sxList("y", sy))
}
func gNamed(r rngs) (Named, string) {
	n, sn := gStr(r)
	p, sp := gPoint(r)
	t, st := gSlice(r, gStr)
	return Named{Name: n, pos: p, Tags: t}, sxList("st", "(Named)", sxList("Name", sn), sxList("pos", sp), sxList("Tags", st))
}
func gShape(r rngs) (Shape, string) {
	switch r.st.Intn(4) {
	case 0:
		v, s := gInt(r)
		return New_Shape_Circle(v), sxList("if", sxList("st", "(Shape Circle)", sxList("Value", s)))
	case 1:
		v, s := gPoint(r)
		return New_Shape_Rect(v), sxList("if", sxList("st", "(Shape Rect)", sxList("Value", s)))
	case 2:
		v, s := gSlice(r, gPoint)
		return New_Shape_Poly(v), sxList("if", sxList("st", "(Shape Poly)", sxList("Value", s)))
	}
	return New_Shape_Empty, sxList("if", sxList("st", "(Shape Empty)"))
}
func gPair(r rngs) (frt.Tuple2[int, string], string) {
	a, sa := gInt(r)
	b, sb := gStr(r)
	return frt.NewTuple2(a, b), sxList("st", "(frt.Tuple2)", sxList("E0", sa), sxList("E1", sb))
}
func gBoxInt(r rngs) (Box[int], string) {
	v, sv := gInt(r)
	it, si := gSlice(r, gInt)
	return Box[int]{Val: v, items: it}, sxList("st", "(Box)", sxList("Val", sv), sxList("items", si))
}
func gOptPoint(r rngs) (Opt[point], string) {
	if r.st.Intn(3) == 0 {
		return New_Opt_None[point](), sxList("if", sxList("st", "(Opt None)"))
	}
	v, s := gPoint(r)
	return New_Opt_Some(v), sxList("if", sxList("st", "(Opt Some)", sxList("Value", s)))
}
func gHolder(r rngs) (Holder, string) {
	i, si := gInt(r)
	sh, ss := gShape(r)
	return Holder{Id: i, shape: sh}, sxList("st", "(Holder)", sxList("Id", si), sxList("shape", ss))
}
func gWrap(r rngs) (Wrap, string) {
	switch r.st.Intn(3) {
	case 0:
		v, s := gHolder(r)
		return New_Wrap_W(v), sxList("if", sxList("st", "(Wrap W)", sxList("Value", s)))
	case 1:
		v, s := gSlice(r, gHolder)
		return New_Wrap_WS(v), sxList("if", sxList("st", "(Wrap WS)", sxList("Value", s)))
	}
	return New_Wrap_N, sxList("if", sxList("st", "(Wrap N)"))
}
func gShapeInt(r rngs) (frt.Tuple2[Shape, int], string) {
	a, sa := gShape(r)
	b, sb := gInt(r)
	return frt.NewTuple2(a, b), sxList("st", "(frt.Tuple2)", sxList("E0", sa), sxList("E1", sb))
}
func gShapes(r rngs) ([]Shape, string) { return gSlice(r, gShape) }
func gOptShape(r rngs) (Opt[Shape], string) {
	if r.st.Intn(3) == 0 {
		return New_Opt_None[Shape](), sxList("if", sxList("st", "(Opt None)"))
	}
	v, s := gShape(r)
	return New_Opt_Some(v), sxList("if", sxList("st", "(Opt Some)", sxList("Value", s)))
}
func gBoxShape(r rngs) (Box[Shape], string) {
	v, sv := gShape(r)
	it, si := gSlice(r, gShape)
	return Box[Shape]{Val: v, items: it}, sxList("st", "(Box)", sxList("Val", sv), sxList("items", si))
}
func gInts(r rngs) ([]int, string)     { return gSlice(r, gInt) }
func gPoints(r rngs) ([]point, string) { return gSlice(r, gPoint) }
func gIntss(r rngs) ([][]int, string)  { return gSlice(r, gInts) }
func gTriple(r rngs) (frt.Tuple3[point, []int, bool], string) {
	a, sa := gPoint(r)
	b, sb := gInts(r)
	c, sc := gBool(r)
	return frt.NewTuple3(a, b, c), sxList("st", "(frt.Tuple3)", sxList("E0", sa), sxList("E1", sb), sxList("E2", sc))
}

func call(f func() bool) (res string) {
	defer func() {
		if r := recover(); r != nil {
			res = "panic"
		}
	}()
	if f() {
		return "true"
	}
	return "false"
}

// two VIEWS of one backing array, cut by the library (PopLast from the right, Tail from the left):
// equal exactly when their elements are, wherever they start and however much storage they share
func views[T any](r *rand.Rand, ge func(rngs) (T, string)) (a, b []T, sa, sb string) {
	n := 1 + r.Intn(4)
	base := make([]T, 0, n+2)
	parts := []string{}
	g := rngs{rand.New(rand.NewSource(r.Int63())), rand.New(rand.NewSource(r.Int63()))}
	for i := 0; i < n; i++ {
		e, s := ge(g)
		base = append(base, e)
		parts = append(parts, s)
	}
	cut := func(i, j int) ([]T, string) {
		v := base
		for k := n; k > j; k-- {
			v = slice.PopLast(v)
		}
		for k := 0; k < i; k++ {
			v = slice.Tail(v)
		}
		return v, sxList(append([]string{"sl"}, parts[i:j]...)...)
	}
	i1 := r.Intn(n + 1)
	j1 := i1 + r.Intn(n-i1+1)
	i2, j2 := i1, i1+r.Intn(n-i1+1) // same start, usually another length
	if r.Intn(3) == 0 {
		i2 = r.Intn(n + 1)
		j2 = i2 + r.Intn(n-i2+1)
	}
	a, sa = cut(i1, j1)
	b, sb = cut(i2, j2)
	stats[fmt.Sprintf("views.samestart=%v.samelen=%v", i1 == i2, j1-i1 == j2-i2)]++
	return
}

func emitPair(name, va, vb string, eq, neq func() bool) {
	e, n := call(eq), call(neq)
	fmt.Fprintf(out, "I %s\nO %s\n", sxList("eq.pair", va, vb), sxList(sxList("eq", e), sxList("neq", n)))
	stats["type."+name]++
	stats["result."+e]++
	if e == "panic" || n == "panic" {
		b, _ := json.Marshal(map[string]any{"kind": "= or <> panicked", "type": name, "a": va, "b": vb})
		fmt.Fprintf(out, "V %s\n", b)
	}
}

type tcase struct {
	name string
	run  func(seedA, seedB, pa, pb int64) (sa, sb, eq, neq string)
}

func mk[T any](name string, g func(rngs) (T, string), eq func(T, T) bool, neq func(T, T) bool) tcase {
	return tcase{name, func(seedA, seedB, pa, pb int64) (string, string, string, string) {
		a, sa := g(rngs{rand.New(rand.NewSource(seedA)), rand.New(rand.NewSource(pa))})
		b, sb := g(rngs{rand.New(rand.NewSource(seedB)), rand.New(rand.NewSource(pb))})
		e := call(func() bool { return eq(a, b) })
		n := call(func() bool { return neq(a, b) })
		return sa, sb, e, n
	}}
}

func main() {
	seed, _ := strconv.ParseInt(os.Args[1], 10, 64)
	count, _ := strconv.Atoi(os.Args[2])
	cases := []tcase{
		mk("int", gInt, eqInt, func(a, b int) bool { return frt.OpNotEqual(a, b) }),
		mk("string", gStr, eqStr, func(a, b string) bool { return frt.OpNotEqual(a, b) }),
		mk("point", gPoint, eqPoint, neqPoint),
		mk("Named", gNamed, eqNamed, func(a, b Named) bool { return frt.OpNotEqual(a, b) }),
		mk("Shape", gShape, eqShape, func(a, b Shape) bool { return frt.OpNotEqual(a, b) }),
		mk("[]int", gInts, eqInts, neqInts),
		mk("[]point", gPoints, eqPoints, func(a, b []point) bool { return frt.OpNotEqual(a, b) }),
		mk("int*string", gPair, eqPair, func(a, b frt.Tuple2[int, string]) bool { return frt.OpNotEqual(a, b) }),
		mk("Box<int>", gBoxInt, eqBoxInt, func(a, b Box[int]) bool { return frt.OpNotEqual(a, b) }),
		mk("Opt<point>", gOptPoint, eqOptPoint, func(a, b Opt[point]) bool { return frt.OpNotEqual(a, b) }),
		mk("[][]int", gIntss, eqIntss, func(a, b [][]int) bool { return frt.OpNotEqual(a, b) }),
		mk("Holder", gHolder, eqHolder, func(a, b Holder) bool { return frt.OpNotEqual(a, b) }),
		mk("Wrap", gWrap, eqWrap, func(a, b Wrap) bool { return frt.OpNotEqual(a, b) }),
		mk("Shape*int", gShapeInt, eqShapeInt, func(a, b frt.Tuple2[Shape, int]) bool { return frt.OpNotEqual(a, b) }),
		mk("[]Shape", gShapes, eqShapes, func(a, b []Shape) bool { return frt.OpNotEqual(a, b) }),
		mk("Opt<Shape>", gOptShape, eqOptShape, func(a, b Opt[Shape]) bool { return frt.OpNotEqual(a, b) }),
		mk("Box<Shape>", gBoxShape, eqBoxShape, func(a, b Box[Shape]) bool { return frt.OpNotEqual(a, b) }),
		mk("point*[]int*bool", gTriple, eqTriple, func(a, b frt.Tuple3[point, []int, bool]) bool { return frt.OpNotEqual(a, b) }),
	}
	r := rand.New(rand.NewSource(seed))
	for i := 0; i < count; i++ {
		for _, c := range cases {
			sa := r.Int63()
			sb := sa // equal by construction, different production paths
			if i%2 == 1 {
				sb = r.Int63()
			}
			va, vb, eq, neq := c.run(sa, sb, r.Int63(), r.Int63())
			fmt.Fprintf(out, "I %s\nO %s\n", sxList("eq.pair", va, vb), sxList(sxList("eq", eq), sxList("neq", neq)))
			stats["type."+c.name]++
			stats["result."+eq]++
			if eq == "panic" || neq == "panic" {
				b, _ := json.Marshal(map[string]any{"kind": "= or <> panicked", "type": c.name, "a": va, "b": vb})
				fmt.Fprintf(out, "V %s\n", b)
			}
		}
	}
	// values that SHARE storage (views of one array), bare and inside tuples / outer slices
	for i := 0; i < count/2; i++ {
		{
			a, b, sa, sb := views(r, gInt)
			emitPair("views []int", sa, sb, func() bool { return eqInts(a, b) }, func() bool { return neqInts(a, b) })
			p, sp := gPoint(rngs{rand.New(rand.NewSource(r.Int63())), rand.New(rand.NewSource(1))})
			ta, tb := frt.NewTuple3(p, a, true), frt.NewTuple3(p, b, true)
			tx := func(sv string) string {
				return sxList("st", "(frt.Tuple3)", sxList("E0", sp), sxList("E1", sv), sxList("E2", "(b true)"))
			}
			emitPair("views point*[]int*bool", tx(sa), tx(sb), func() bool { return eqTriple(ta, tb) }, func() bool { return frt.OpNotEqual(ta, tb) })
			oa, ob := [][]int{a, b}, [][]int{b, a}
			emitPair("views [][]int", sxList("sl", sa, sb), sxList("sl", sb, sa), func() bool { return eqIntss(oa, ob) }, func() bool { return frt.OpNotEqual(oa, ob) })
		}
		{
			a, b, sa, sb := views(r, gPoint)
			emitPair("views []point", sa, sb, func() bool { return eqPoints(a, b) }, func() bool { return frt.OpNotEqual(a, b) })
		}
		{
			a, b, sa, sb := views(r, gShape)
			emitPair("views []Shape", sa, sb, func() bool { return eqShapes(a, b) }, func() bool { return frt.OpNotEqual(a, b) })
		}
	}
	// the three library paths to the empty int slice, end to end through emitted Folang code
	for _, p := range [][2]func() []int{{emptyByNew, emptyByFilter}, {emptyByFilter, emptyByTake}, {emptyByNew, emptyByTake}, {emptyByNew, emptyByNew}} {
		a, b := p[0](), p[1]()
		e := call(func() bool { return eqInts(a, b) })
		if e != "true" {
			bs, _ := json.Marshal(map[string]any{"kind": "two empty slices are not equal", "a_nil": a == nil, "b_nil": b == nil, "result": e})
			fmt.Fprintf(out, "V %s\n", bs)
		}
	}
	keys := []string{}
	for k := range stats {
		keys = append(keys, k)
	}
	sort.Strings(keys)
	for _, k := range keys {
		fmt.Fprintf(out, "S %s %d\n", strings.ReplaceAll(k, " ", "_"), stats[k])
	}
	out.Flush()
}
