package main

// kind "offside" (C06): which functions of fc look at a column.  For every function of fc/*.go
// (tests excluded) the mentions of the identifiers psCurCol / psCurOffside and of the fields
// .offsideCol / .col, as "<function>:<what>", sorted.

import (
	"fmt"
	"go/ast"
	"path/filepath"
	"sort"
	"strings"
)

func columnUses(repo string) {
	files, err := filepath.Glob(repo + "/fc/*.go")
	if err != nil {
		die(err)
	}
	seen := map[string]bool{}
	for _, p := range files {
		if strings.HasSuffix(p, "_test.go") {
			continue
		}
		_, f := parseFile(p)
		for _, d := range f.Decls {
			fd, ok := d.(*ast.FuncDecl)
			if !ok || fd.Body == nil {
				continue
			}
			name := fd.Name.Name
			ast.Inspect(fd.Body, func(n ast.Node) bool {
				switch x := n.(type) {
				case *ast.Ident:
					if x.Name == "psCurCol" || x.Name == "psCurOffside" || x.Name == "insideOffside" || x.Name == "isEndOfBlock" || x.Name == "psPushOffside" || x.Name == "psPopOffside" {
						seen[name+":"+x.Name] = true
					}
				case *ast.SelectorExpr:
					if x.Sel.Name == "offsideCol" || x.Sel.Name == "col" {
						seen[name+":."+x.Sel.Name] = true
					}
				case *ast.KeyValueExpr:
					if id, ok := x.Key.(*ast.Ident); ok && (id.Name == "offsideCol" || id.Name == "col") {
						seen[name+":"+id.Name+"="] = true
					}
				}
				return true
			})
		}
	}
	var out []string
	for k := range seen {
		out = append(out, k)
	}
	sort.Strings(out)
	q := make([]string, len(out))
	for i, c := range out {
		q[i] = leanStr(c)
	}
	fmt.Println("/-- every function of fc that mentions a column: \"<function>:<what>\" -/")
	fmt.Printf("def columnUses : List String := [%s]\n", strings.Join(q, ", "))
}
