// extract reads Go sources of /repo with go/ast and prints Lean definitions of the facts the
// proofs depend on (regenerated on every check run into lean/Folang/Generated/*.lean).
package main

import (
	"fmt"
	"go/ast"
	"go/parser"
	"go/printer"
	"regexp"
	"go/token"
	"os"
	"path/filepath"
	"sort"
	"strconv"
	"strings"
)

func die(err error) {
	if err != nil {
		fmt.Fprintln(os.Stderr, "extract:", err)
		os.Exit(1)
	}
}

func leanStr(s string) string {
	s = strings.ReplaceAll(s, "\\", "\\\\")
	s = strings.ReplaceAll(s, "\"", "\\\"")
	s = strings.ReplaceAll(s, "\n", "\\n")
	s = strings.ReplaceAll(s, "\t", "\\t")
	return "\"" + s + "\""
}

func parseFile(path string) (*token.FileSet, *ast.File) {
	fset := token.NewFileSet()
	f, err := parser.ParseFile(fset, path, nil, parser.ParseComments)
	die(err)
	return fset, f
}

// exported functions of a package file: (name, #type params, #params, #results)
func exportedFuncs(path, defName string) {
	_, f := parseFile(path)
	type fn struct {
		name       string
		tp, np, nr int
	}
	var fns []fn
	for _, d := range f.Decls {
		fd, ok := d.(*ast.FuncDecl)
		if !ok || fd.Recv != nil || !fd.Name.IsExported() {
			continue
		}
		cnt := func(fl *ast.FieldList) int {
			if fl == nil {
				return 0
			}
			n := 0
			for _, f := range fl.List {
				if len(f.Names) == 0 {
					n++
				} else {
					n += len(f.Names)
				}
			}
			return n
		}
		fns = append(fns, fn{fd.Name.Name, cnt(fd.Type.TypeParams), cnt(fd.Type.Params), cnt(fd.Type.Results)})
	}
	sort.Slice(fns, func(i, j int) bool { return fns[i].name < fns[j].name })
	fmt.Printf("/-- exported functions of %s: (name, type params, params, results) -/\n", path)
	fmt.Printf("def %s : List (String × Nat × Nat × Nat) := [\n", defName)
	for i, x := range fns {
		sep := ","
		if i == len(fns)-1 {
			sep = ""
		}
		fmt.Printf("  (%s, %d, %d, %d)%s\n", leanStr(x.name), x.tp, x.np, x.nr, sep)
	}
	fmt.Println("]")
}

// aliasing-relevant statements of every exported function, with parameters renamed p0.. and
// locals v0.. (in order of declaration): variable initialisations, append targets, stores through
// an index expression, in-place mutators (slices.Sort*, sort.*, copy), re-slicing expressions.
func sliceShapes(path, defName string) {
	fset, f := parseFile(path)
	type shape struct {
		name  string
		items []string
	}
	var shapes []shape
	for _, d := range f.Decls {
		fd, ok := d.(*ast.FuncDecl)
		if !ok || fd.Recv != nil || !fd.Name.IsExported() || fd.Body == nil {
			continue
		}
		ren := map[string]string{}
		np := 0
		for _, fl := range fd.Type.Params.List {
			for _, n := range fl.Names {
				ren[n.Name] = fmt.Sprintf("p%d", np)
				np++
			}
		}
		nv := 0
		local := func(n string) {
			if n == "_" {
				return
			}
			if _, ok := ren[n]; !ok {
				ren[n] = fmt.Sprintf("v%d", nv)
				nv++
			}
		}
		show := func(e ast.Node) string {
			var sb strings.Builder
			printer.Fprint(&sb, fset, e)
			txt := sb.String()
			return identRe.ReplaceAllStringFunc(txt, func(id string) string {
				if r, ok := ren[id]; ok {
					return r
				}
				return id
			})
		}
		var items []string
		ast.Inspect(fd.Body, func(n ast.Node) bool {
			switch x := n.(type) {
			case *ast.DeclStmt:
				if gd, ok := x.Decl.(*ast.GenDecl); ok {
					for _, sp := range gd.Specs {
						if vs, ok := sp.(*ast.ValueSpec); ok {
							for i, nm := range vs.Names {
								local(nm.Name)
								if i < len(vs.Values) {
									items = append(items, "init:"+ren[nm.Name]+":"+show(vs.Values[i]))
								} else if _, isSlice := vs.Type.(*ast.ArrayType); isSlice {
									items = append(items, "nil:"+ren[nm.Name])
								}
							}
						}
					}
				}
			case *ast.RangeStmt:
				if x.Tok == token.DEFINE {
					if id, ok := x.Key.(*ast.Ident); ok {
						local(id.Name)
					}
					if id, ok := x.Value.(*ast.Ident); ok {
						local(id.Name)
					}
				}
				items = append(items, "range:"+show(x.X))
			case *ast.AssignStmt:
				if x.Tok == token.DEFINE {
					for i, l := range x.Lhs {
						if id, ok := l.(*ast.Ident); ok {
							local(id.Name)
							if len(x.Rhs) == len(x.Lhs) {
								switch x.Rhs[i].(type) {
								case *ast.CallExpr, *ast.SliceExpr, *ast.CompositeLit:
									items = append(items, "init:"+ren[id.Name]+":"+show(x.Rhs[i]))
								}
							}
						}
					}
				}
				for _, l := range x.Lhs {
					if ie, ok := l.(*ast.IndexExpr); ok {
						items = append(items, "store:"+show(ie.X))
					}
				}
			case *ast.CallExpr:
				fn := show(x.Fun)
				switch {
				case fn == "append" && len(x.Args) > 0:
					items = append(items, "append:"+show(x.Args[0]))
				case fn == "copy" && len(x.Args) > 0:
					items = append(items, "mutate:copy:"+show(x.Args[0]))
				case strings.HasPrefix(fn, "slices.") || strings.HasPrefix(fn, "sort."):
					if len(x.Args) > 0 {
						items = append(items, "mutate:"+fn+":"+show(x.Args[0]))
					}
				}
			case *ast.ReturnStmt:
				for _, r := range x.Results {
					switch r.(type) {
					case *ast.SliceExpr:
						items = append(items, "return:"+show(r))
					}
				}
			}
			return true
		})
		shapes = append(shapes, shape{fd.Name.Name, items})
	}
	sort.Slice(shapes, func(i, j int) bool { return shapes[i].name < shapes[j].name })
	fmt.Printf("/-- aliasing-relevant statements of every exported function of %s -/\n", path)
	fmt.Printf("def %s : List (String × List String) := [\n", defName)
	for i, x := range shapes {
		sep := ","
		if i == len(shapes)-1 {
			sep = ""
		}
		q := make([]string, len(x.items))
		for j, it := range x.items {
			q[j] = leanStr(it)
		}
		fmt.Printf("  (%s, [%s])%s\n", leanStr(x.name), strings.Join(q, ", "), sep)
	}
	fmt.Println("]")
}

// the kind switch of frt.toS: for every case clause the reflect kinds it lists and the
// reflect.Value accessor its body calls on rval (Int, Uint, Float, String) or "%v"
func toSArms(path string) {
	fset, f := parseFile(path)
	_ = fset
	type arm struct {
		kinds []string
		acc   string
	}
	var arms []arm
	dflt := "none"
	for _, d := range f.Decls {
		fd, ok := d.(*ast.FuncDecl)
		if !ok || fd.Name.Name != "toS" {
			continue
		}
		ast.Inspect(fd.Body, func(n ast.Node) bool {
			cc, ok := n.(*ast.CaseClause)
			if !ok {
				return true
			}
			acc := "none"
			ast.Inspect(cc, func(m ast.Node) bool {
				if ce, ok := m.(*ast.CallExpr); ok {
					if se, ok := ce.Fun.(*ast.SelectorExpr); ok {
						if id, ok := se.X.(*ast.Ident); ok && id.Name == "rval" {
							acc = se.Sel.Name
						}
						if id, ok := se.X.(*ast.Ident); ok && id.Name == "fmt" && acc == "none" && len(ce.Args) == 2 {
							if bl, ok := ce.Args[0].(*ast.BasicLit); ok && bl.Value == "\"%v\"" {
								if a, ok := ce.Args[1].(*ast.Ident); ok && a.Name == "arg" {
									acc = "%v"
								}
							}
						}
					}
				}
				return true
			})
			if cc.List == nil {
				dflt = acc
				return false
			}
			var ks []string
			for _, e := range cc.List {
				if se, ok := e.(*ast.SelectorExpr); ok {
					ks = append(ks, se.Sel.Name)
				}
			}
			arms = append(arms, arm{ks, acc})
			return false
		})
	}
	fmt.Println("/-- arms of the kind switch in frt.toS: (kinds, accessor called on rval) -/")
	fmt.Println("def toSArms : List (List String × String) := [")
	for i, a := range arms {
		q := make([]string, len(a.kinds))
		for j, k := range a.kinds {
			q[j] = leanStr(k)
		}
		sep := ","
		if i == len(arms)-1 {
			sep = ""
		}
		fmt.Printf("  ([%s], %s)%s\n", strings.Join(q, ", "), leanStr(a.acc), sep)
	}
	fmt.Println("]")
	fmt.Printf("def toSDefault : String := %s\n", leanStr(dflt))
}

// the composite literal of `var binOpMap = map[TokenType]BinOpInfo{...}` in fc/wrapper.go
func binOpTable(path string) {
	_, f := parseFile(path)
	type row struct {
		tok, prec, goName, isBool string
	}
	var rows []row
	for _, d := range f.Decls {
		gd, ok := d.(*ast.GenDecl)
		if !ok {
			continue
		}
		for _, sp := range gd.Specs {
			vs, ok := sp.(*ast.ValueSpec)
			if !ok || len(vs.Names) != 1 || vs.Names[0].Name != "binOpMap" || len(vs.Values) != 1 {
				continue
			}
			cl, ok := vs.Values[0].(*ast.CompositeLit)
			if !ok {
				continue
			}
			for _, el := range cl.Elts {
				kv, ok := el.(*ast.KeyValueExpr)
				if !ok {
					continue
				}
				key := ""
				if id, ok := kv.Key.(*ast.Ident); ok {
					key = strings.TrimPrefix(id.Name, "New_TokenType_")
				}
				v, ok := kv.Value.(*ast.CompositeLit)
				if !ok || len(v.Elts) != 3 {
					rows = append(rows, row{key, "0", "?", "false"})
					continue
				}
				get := func(e ast.Expr) string {
					switch x := e.(type) {
					case *ast.BasicLit:
						return strings.Trim(x.Value, "\"")
					case *ast.Ident:
						return x.Name
					case *ast.KeyValueExpr:
						if bl, ok := x.Value.(*ast.BasicLit); ok {
							return strings.Trim(bl.Value, "\"")
						}
						if id, ok := x.Value.(*ast.Ident); ok {
							return id.Name
						}
					}
					return "?"
				}
				rows = append(rows, row{key, get(v.Elts[0]), get(v.Elts[1]), get(v.Elts[2])})
			}
		}
	}
	sort.Slice(rows, func(i, j int) bool { return rows[i].tok < rows[j].tok })
	fmt.Println("/-- binOpMap of fc/wrapper.go: (token type, precedence, Go name, IsBoolOp), sorted by token type -/")
	fmt.Println("def binOpTable : List (String × Nat × String × Bool) := [")
	for i, r := range rows {
		sep := ","
		if i == len(rows)-1 {
			sep = ""
		}
		fmt.Printf("  (%s, %s, %s, %s)%s\n", leanStr(r.tok), r.prec, leanStr(r.goName), r.isBool, sep)
	}
	fmt.Println("]")
}

// tinyfo's binOpMap: rows {precedence, goFuncName}
func tinyBinOpTable(path string) {
	_, f := parseFile(path)
	var rows [][3]string
	for _, d := range f.Decls {
		gd, ok := d.(*ast.GenDecl)
		if !ok {
			continue
		}
		for _, sp := range gd.Specs {
			vs, ok := sp.(*ast.ValueSpec)
			if !ok || len(vs.Names) != 1 || vs.Names[0].Name != "binOpMap" || len(vs.Values) != 1 {
				continue
			}
			cl, ok := vs.Values[0].(*ast.CompositeLit)
			if !ok {
				continue
			}
			for _, el := range cl.Elts {
				kv, ok := el.(*ast.KeyValueExpr)
				if !ok {
					continue
				}
				key := "?"
				if id, ok := kv.Key.(*ast.Ident); ok {
					key = id.Name
				}
				v, ok := kv.Value.(*ast.CompositeLit)
				if !ok || len(v.Elts) != 2 {
					rows = append(rows, [3]string{key, "0", "?"})
					continue
				}
				get := func(e ast.Expr) string {
					if bl, ok := e.(*ast.BasicLit); ok {
						return strings.Trim(bl.Value, "\"")
					}
					return "?"
				}
				prec := get(v.Elts[0])
				if _, err := strconv.Atoi(prec); err != nil {
					prec = "0"
				}
				rows = append(rows, [3]string{key, prec, get(v.Elts[1])})
			}
		}
	}
	sort.Slice(rows, func(i, j int) bool { return rows[i][0] < rows[j][0] })
	fmt.Println("/-- binOpMap of tinyfo/parser.go: (token type, precedence, Go name), sorted by token type -/")
	fmt.Println("def tinyBinOpTable : List (String × Nat × String) := [")
	for i, r := range rows {
		sep := ","
		if i == len(rows)-1 {
			sep = ""
		}
		fmt.Printf("  (%s, %s, %s)%s\n", leanStr(r[0]), r[1], leanStr(r[2]), sep)
	}
	fmt.Println("]")
}

// every binary expression mentioning `.Precedence` inside the given functions of a file
func precedenceUses(path string, funcs []string, defName string) {
	precedenceUsesOf(path, funcs, defName, ".Precedence")
}

func precedenceUsesOf(path string, funcs []string, defName string, field string) {
	fset, f := parseFile(path)
	var items []string
	for _, d := range f.Decls {
		fd, ok := d.(*ast.FuncDecl)
		if !ok || fd.Body == nil {
			continue
		}
		want := false
		for _, n := range funcs {
			if fd.Name.Name == n {
				want = true
			}
		}
		if !want {
			continue
		}
		ast.Inspect(fd.Body, func(n ast.Node) bool {
			if be, ok := n.(*ast.BinaryExpr); ok {
				var sb strings.Builder
				printer.Fprint(&sb, fset, be)
				if strings.Contains(sb.String(), field) {
					items = append(items, fd.Name.Name+": "+strings.Join(strings.Fields(sb.String()), " "))
					return false
				}
			}
			return true
		})
	}
	q := make([]string, len(items))
	for i, it := range items {
		q[i] = leanStr(it)
	}
	fmt.Printf("/-- uses of BinOpInfo.Precedence in %v of %s -/\n", funcs, path)
	fmt.Printf("def %s : List String := [%s]\n", defName, strings.Join(q, ", "))
}

// every place the code enumerates a dictionary / map, or could otherwise be non-deterministic:
// calls of dict.Keys/Values/KVs, range statements over anything but an obvious slice/string/int,
// go statements, and uses of time / math/rand / os.Environ / %p.
func enumSites(repo string) {
	type site struct{ file, fn, what string }
	var sites []site
	var files []string
	for _, pat := range []string{"fc/*.go", "pkg/*/*.go", "cmd/*/*.go"} {
		ms, _ := filepath.Glob(filepath.Join(repo, pat))
		files = append(files, ms...)
	}
	sort.Strings(files)
	for _, path := range files {
		if strings.HasSuffix(path, "_test.go") {
			continue
		}
		fset, f := parseFile(path)
		rel, _ := filepath.Rel(repo, path)
		for _, imp := range f.Imports {
			switch strings.Trim(imp.Path.Value, "\"") {
			case "time", "math/rand", "math/rand/v2", "crypto/rand", "sync", "unsafe":
				sites = append(sites, site{rel, "-", "import " + imp.Path.Value})
			}
		}
		for _, d := range f.Decls {
			fd, ok := d.(*ast.FuncDecl)
			if !ok || fd.Body == nil {
				continue
			}
			show := func(n ast.Node) string {
				var sb strings.Builder
				printer.Fprint(&sb, fset, n)
				return strings.Join(strings.Fields(sb.String()), " ")
			}
			ast.Inspect(fd.Body, func(n ast.Node) bool {
				switch x := n.(type) {
				case *ast.SelectorExpr:
					// every MENTION counts, called or passed as a function value (emitted pipes pass
					// library functions uncalled: frt.Pipe(xs, dict.Values))
					if id, ok := x.X.(*ast.Ident); ok {
						full := id.Name + "." + x.Sel.Name
						switch full {
						case "dict.Keys", "dict.Values", "dict.KVs":
							sites = append(sites, site{rel, fd.Name.Name, full})
						case "os.Environ", "os.Getenv", "os.Getpid", "time.Now":
							sites = append(sites, site{rel, fd.Name.Name, full})
						}
					}
				case *ast.CallExpr:
					for _, a := range x.Args {
						if bl, ok := a.(*ast.BasicLit); ok && strings.Contains(bl.Value, "%p") {
							sites = append(sites, site{rel, fd.Name.Name, "format %p"})
						}
					}
				case *ast.GoStmt:
					sites = append(sites, site{rel, fd.Name.Name, "go statement"})
				case *ast.SelectStmt:
					sites = append(sites, site{rel, fd.Name.Name, "select statement"})
				case *ast.RangeStmt:
					sites = append(sites, site{rel, fd.Name.Name, "range " + show(x.X)})
				}
				return true
			})
		}
	}
	// one level up: every mention, in fc, of a function of fc that itself enumerates a dictionary (a
	// wrapper such as eqsItems hands the enumeration on to its caller)
	wrappers := map[string]bool{}
	for _, x := range sites {
		if strings.HasPrefix(x.file, "fc/") && strings.HasPrefix(x.what, "dict.") {
			wrappers[x.fn] = true
		}
	}
	var callers []site
	for _, path := range files {
		rel, _ := filepath.Rel(repo, path)
		if strings.HasSuffix(path, "_test.go") || !strings.HasPrefix(rel, "fc/") {
			continue
		}
		_, f := parseFile(path)
		for _, d := range f.Decls {
			fd, ok := d.(*ast.FuncDecl)
			if !ok || fd.Body == nil {
				continue
			}
			seen := map[string]bool{}
			ast.Inspect(fd.Body, func(n ast.Node) bool {
				if id, ok := n.(*ast.Ident); ok && wrappers[id.Name] && id.Name != fd.Name.Name && !seen[id.Name] {
					seen[id.Name] = true
					callers = append(callers, site{rel, fd.Name.Name, id.Name})
				}
				return true
			})
		}
	}
	fmt.Println("/-- who uses the enumerating functions of fc: (file, function, enumerating function) -/")
	fmt.Println("def enumCallers : List (String × String × String) := [")
	for i, x := range callers {
		sep := ","
		if i == len(callers)-1 {
			sep = ""
		}
		fmt.Printf("  (%s, %s, %s)%s\n", leanStr(x.file), leanStr(x.fn), leanStr(x.what), sep)
	}
	fmt.Println("]")
	fmt.Println("/-- enumeration / non-determinism sites: (file, function, what) -/")
	fmt.Println("def enumSites : List (String × String × String) := [")
	for i, x := range sites {
		sep := ","
		if i == len(sites)-1 {
			sep = ""
		}
		fmt.Printf("  (%s, %s, %s)%s\n", leanStr(x.file), leanStr(x.fn), leanStr(x.what), sep)
	}
	fmt.Println("]")
}

// the package-qualified calls (pkg.Func) made inside one function, in source order
func callsIn(path, fn, defName string) {
	_, f := parseFile(path)
	var calls []string
	for _, d := range f.Decls {
		fd, ok := d.(*ast.FuncDecl)
		if !ok || fd.Name.Name != fn || fd.Body == nil {
			continue
		}
		ast.Inspect(fd.Body, func(n ast.Node) bool {
			if ce, ok := n.(*ast.CallExpr); ok {
				if se, ok := ce.Fun.(*ast.SelectorExpr); ok {
					if id, ok := se.X.(*ast.Ident); ok {
						calls = append(calls, id.Name+"."+se.Sel.Name)
					}
				}
			}
			return true
		})
	}
	q := make([]string, len(calls))
	for i, c := range calls {
		q[i] = leanStr(c)
	}
	fmt.Printf("/-- package-qualified calls inside %s of %s, in source order -/\n", fn, path)
	fmt.Printf("def %s : List String := [%s]\n", defName, strings.Join(q, ", "))
}

// package-level variables of a package main directory (excluding the New_* constructor singletons
// that fc emits for payload-less union cases, which are immutable values)
func pkgGlobals(dir, defName string) {
	ms, _ := filepath.Glob(filepath.Join(dir, "*.go"))
	sort.Strings(ms)
	var names []string
	for _, path := range ms {
		if strings.HasSuffix(path, "_test.go") {
			continue
		}
		_, f := parseFile(path)
		for _, d := range f.Decls {
			gd, ok := d.(*ast.GenDecl)
			if !ok || gd.Tok != token.VAR {
				continue
			}
			for _, sp := range gd.Specs {
				if vs, ok := sp.(*ast.ValueSpec); ok {
					for _, n := range vs.Names {
						if !strings.HasPrefix(n.Name, "New_") {
							names = append(names, filepath.Base(path)+":"+n.Name)
						}
					}
				}
			}
		}
	}
	q := make([]string, len(names))
	for i, n := range names {
		q[i] = leanStr(n)
	}
	fmt.Printf("/-- package-level variables of %s (file:name) -/\n", dir)
	fmt.Printf("def %s : List String := [%s]\n", defName, strings.Join(q, ", "))
}

var identRe = regexp.MustCompile(`[A-Za-z_][A-Za-z0-9_]*`)

// the argument lists of every call of `callee` inside function `fn`
func callArgs(path, fn, callee, defName string) {
	fset, f := parseFile(path)
	var items []string
	for _, d := range f.Decls {
		fd, ok := d.(*ast.FuncDecl)
		if !ok || fd.Body == nil || fd.Name.Name != fn {
			continue
		}
		ast.Inspect(fd.Body, func(n ast.Node) bool {
			if ce, ok := n.(*ast.CallExpr); ok {
				name := ""
				switch x := ce.Fun.(type) {
				case *ast.Ident:
					name = x.Name
				case *ast.SelectorExpr:
					name = x.Sel.Name
				}
				if name == callee {
					var as []string
					for _, a := range ce.Args {
						var sb strings.Builder
						printer.Fprint(&sb, fset, a)
						as = append(as, sb.String())
					}
					items = append(items, strings.Join(as, ", "))
				}
			}
			return true
		})
	}
	q := make([]string, len(items))
	for i, it := range items {
		q[i] = leanStr(it)
	}
	fmt.Printf("/-- argument lists of the calls of %s in %s of %s -/\n", callee, fn, path)
	fmt.Printf("def %s : List String := [%s]\n", defName, strings.Join(q, ", "))
}

func main() {
	if len(os.Args) < 2 {
		die(fmt.Errorf("usage: extract <kind> [repo]"))
	}
	repo := "/repo"
	if len(os.Args) > 2 {
		repo = os.Args[2]
	}
	fmt.Println("-- GENERATED by /verif/harness/extract from the working tree of " + repo + "; do not edit")
	switch os.Args[1] {
	case "slice":
		fmt.Println("namespace Folang.Generated")
		exportedFuncs(repo+"/pkg/slice/slice.go", "sliceFuncs")
		sliceShapes(repo+"/pkg/slice/slice.go", "sliceShapes")
		fmt.Println("end Folang.Generated")
	case "fc":
		fmt.Println("namespace Folang.Generated")
		binOpTable(repo + "/fc/wrapper.go")
		precedenceUses(repo+"/fc/gen_parser.go", []string{"parseBinAfter", "parseExprWithPrec", "parseExpr"}, "precedenceUses")
		fmt.Println("end Folang.Generated")
	case "enum":
		fmt.Println("namespace Folang.Generated")
		enumSites(repo)
		callsIn(repo+"/fc/gen_parse_state.go", "scLookupRecFacCur", "lookupRecFacCalls")
		fmt.Println("end Folang.Generated")
	case "tiny":
		fmt.Println("namespace Folang.Generated")
		tinyBinOpTable(repo + "/tinyfo/parser.go")
		precedenceUsesOf(repo+"/tinyfo/parser.go", []string{"parseExprWithPrecedence", "parseExpr"}, "tinyPrecedenceUses", ".precedence")
		callArgs(repo+"/tinyfo/parser.go", "parseExpr", "parseExprWithPrecedence", "tinyParseExprMinPrec")
		fmt.Println("end Folang.Generated")
	case "offside":
		fmt.Println("namespace Folang.Generated")
		columnUses(repo)
		fmt.Println("end Folang.Generated")
	case "recipe":
		fmt.Println("namespace Folang.Generated")
		recipeFacts(repo)
		fmt.Println("end Folang.Generated")
	case "globals":
		fmt.Println("namespace Folang.Generated")
		pkgGlobals(repo+"/fc", "fcGlobals")
		fmt.Println("end Folang.Generated")
	case "lib":
		fmt.Println("namespace Folang.Generated")
		exportedFuncs(repo+"/pkg/dict/dict.go", "dictFuncs")
		exportedFuncs(repo+"/pkg/strings/strings.go", "stringsFuncs")
		exportedFuncs(repo+"/pkg/buf/buf.go", "bufFuncs")
		exportedFuncs(repo+"/pkg/frt/frt.go", "frtFuncs")
		toSArms(repo + "/pkg/frt/frt.go")
		fmt.Println("end Folang.Generated")
	default:
		die(fmt.Errorf("unknown kind %s", os.Args[1]))
	}
}
