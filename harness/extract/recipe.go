package main

// kind "recipe" (C04): the regeneration recipe and the inventory of sources and checked-in generated
// files, read from the working tree: fc/fc_all.sh, fc/, samples/filelist.txt, samples/,
// cmd/build_sample_md/.

import (
	"fmt"
	"os"
	"path/filepath"
	"sort"
	"strings"
)

func leanList(name string, xs []string) {
	q := make([]string, len(xs))
	for i, x := range xs {
		q[i] = leanStr(x)
	}
	fmt.Printf("def %s : List String := [%s]\n", name, strings.Join(q, ", "))
}

func globNames(dir, pat string) []string {
	ms, err := filepath.Glob(filepath.Join(dir, pat))
	if err != nil {
		die(err)
	}
	var out []string
	for _, m := range ms {
		out = append(out, filepath.Base(m))
	}
	sort.Strings(out)
	return out
}

// the arguments of the `./fc …` line of a recipe script, shell variables assigned in the script
// substituted
func fcLineArgs(path string) []string {
	b, err := os.ReadFile(path)
	if err != nil {
		die(err)
	}
	vars := map[string]string{}
	var args []string
	for _, ln := range strings.Split(string(b), "\n") {
		ln = strings.TrimSpace(ln)
		if i := strings.Index(ln, "="); i > 0 && !strings.ContainsAny(ln[:i], " \t") && !strings.HasPrefix(ln, "#") {
			vars[ln[:i]] = ln[i+1:]
		}
		if strings.HasPrefix(ln, "./fc ") {
			for _, a := range strings.Fields(ln)[1:] {
				if strings.HasPrefix(a, "$") {
					if v, ok := vars[a[1:]]; ok {
						a = v
					}
				}
				args = append(args, a)
			}
		}
	}
	return args
}

// name -> (base, extension): split at the last dot
func leanPairs(name string, xs []string) {
	q := make([]string, len(xs))
	for i, x := range xs {
		j := strings.LastIndex(x, ".")
		if j < 0 {
			q[i] = "(" + leanStr(x) + ", \"\")"
		} else {
			q[i] = "(" + leanStr(x[:j]) + ", " + leanStr(x[j+1:]) + ")"
		}
	}
	fmt.Printf("def %s : List (String × String) := [%s]\n", name, strings.Join(q, ", "))
}

// gen_<base>.go -> base
func genBases(xs []string) []string {
	var out []string
	for _, x := range xs {
		out = append(out, strings.TrimSuffix(strings.TrimPrefix(x, "gen_"), ".go"))
	}
	return out
}

func foBases(xs []string) []string {
	var out []string
	for _, x := range xs {
		out = append(out, strings.TrimSuffix(x, ".fo"))
	}
	return out
}

func recipeFacts(repo string) {
	leanPairs("fcRecipe", fcLineArgs(repo+"/fc/fc_all.sh"))
	leanList("fcGenBases", genBases(globNames(repo+"/fc", "gen_*.go")))
	leanList("fcFoBases", foBases(globNames(repo+"/fc", "*.fo")))
	b, err := os.ReadFile(repo + "/samples/filelist.txt")
	if err != nil {
		die(err)
	}
	var samples []string
	for _, ln := range strings.Split(string(b), "\n") {
		if f := strings.Fields(ln); len(f) > 0 {
			samples = append(samples, f[0])
		}
	}
	leanPairs("sampleList", samples)
	leanPairs("sampleRecipe", fcLineArgs(repo+"/samples/myfc.sh"))
	leanList("sampleGenBases", genBases(globNames(repo+"/samples", "gen_*.go")))
	leanList("sampleFoBases", foBases(globNames(repo+"/samples", "*.fo")))
	leanPairs("toolRecipe", fcLineArgs(repo+"/cmd/build_sample_md/fc.sh"))
	leanList("toolGenBases", genBases(globNames(repo+"/cmd/build_sample_md", "gen_*.go")))
	leanList("toolFoBases", foBases(globNames(repo+"/cmd/build_sample_md", "*.fo")))
}
