package main

// C01 stream: batches of generated programs through the real pipeline (parse, infer, emit), compiled
// with the Go toolchain and run; the stdout of every program is compared with the reference
// evaluator (stream c01.prog).  go build diagnostics and rejections of valid programs are failures.

import (
	"fmt"
	"os"
	"os/exec"
	"path/filepath"
	"strconv"
	"strings"
	"time"
)

const c01End = "@@END-OF-PROGRAM@@"

type c01Prog struct {
	name  string
	funcs []*gfunc
	src   string
	plain bool
}

// the same program for the formal semantics (Folang/Sem): stream sem.prog
func semProgSx(p c01Prog) string {
	name := "(sem.prog"
	if gTiny {
		name = "(sem.progT" // tinyfo keeps every given argument of a partial application inside the closure
	}
	return name + c01ProgSx(p)[len("(c01.prog"):]
}

func c01ProgSx(p c01Prog) string {
	var fs []string
	for _, f := range gHelperFuncs() {
		fs = append(fs, f.sx())
	}
	for _, f := range p.funcs {
		fs = append(fs, f.sx())
	}
	return vsx("c01.prog", vsx(fs...), p.name)
}

func c01Source(progs []c01Prog) string {
	var sb strings.Builder
	sb.WriteString(gPrelude)
	sb.WriteString(gHelperSrc())
	for _, p := range progs {
		sb.WriteString(p.src)
	}
	sb.WriteString("let main () =\n")
	for _, p := range progs {
		sb.WriteString("  " + p.name + " ()\n  frt.Println \"" + c01End + "\"\n")
	}
	return sb.String()
}

// build and run the emitted Go; returns stdout or an error description
func c01BuildRun(workdir, goSrc string) (string, string) {
	os.WriteFile(filepath.Join(workdir, "gen_main.go"), []byte(goSrc), 0o644)
	bin := filepath.Join(workdir, "prog")
	os.Remove(bin)
	cmd := exec.Command("go", "build", "-o", bin, ".")
	cmd.Dir = workdir
	if outB, e := cmd.CombinedOutput(); e != nil {
		return "", "go build: " + string(outB)
	}
	run := exec.Command(bin)
	done := make(chan struct{})
	var stdout []byte
	var rerr error
	go func() { stdout, rerr = run.Output(); close(done) }()
	select {
	case <-done:
	case <-time.After(60 * time.Second):
		run.Process.Kill()
		return "", "program hangs"
	}
	if rerr != nil {
		msg := rerr.Error()
		if ee, ok := rerr.(*exec.ExitError); ok {
			msg += " " + string(ee.Stderr)
		}
		return string(stdout), "program failed: " + msg
	}
	return string(stdout), ""
}

func c01Batch(workdir string, progs []c01Prog, depth int) {
	if len(progs) == 0 {
		return
	}
	src := c01Source(progs)
	goSrc, err := vTranspilePkg(src)
	split := func(why, detail string) {
		if len(progs) == 1 {
			p := progs[0]
			vEmitIO(c01ProgSx(p), vsx("failed", vsxStr(why)))
			vViolation(map[string]any{"kind": why, "detail": detail, "program": gPrelude + gHelperSrc() + p.src + "let main () =\n  " + p.name + " ()\n"})
			return
		}
		h := len(progs) / 2
		c01Batch(workdir, progs[:h], depth+1)
		c01Batch(workdir, progs[h:], depth+1)
	}
	if err != "" {
		split("fc rejected a valid program", err)
		return
	}
	stdout, berr := c01BuildRun(workdir, goSrc)
	if berr != "" {
		if len(berr) > 1500 {
			berr = berr[:1500]
		}
		split("emitted Go does not compile or run", berr)
		return
	}
	// structural tie of the lowering model: Go-core of what was really emitted, per function
	if depth == 0 {
		gcEmitLowering(goSrc, gHelperFuncs())
	}
	for _, p := range progs {
		gcEmitLowering(goSrc, p.funcs)
	}
	chunks := strings.Split(stdout, c01End+"\n")
	for i, p := range progs {
		got := "(missing)"
		if i < len(chunks) {
			got = vsxStr(chunks[i])
		}
		vEmitIO(c01ProgSx(p), got)
		vEmitIO(semProgSx(p), got)
		vstat("programs")
	}
}

func vC01(seed int64, count int, extra []string) {
	workdir := ""
	if len(extra) > 0 {
		workdir = extra[0]
	}
	batch := 40
	if len(extra) > 1 {
		batch, _ = strconv.Atoi(extra[1])
	}
	var progs []c01Prog
	for i := 0; i < count; i++ {
		g := newGen(seed*1000003 + int64(i))
		name := "p" + strconv.Itoa(i)
		fs := g.program(name)
		l := &glayout{r: g.r, plain: i%2 == 0, minParens: i%3 == 1} // a third of the programs carry only the parentheses the operator table requires
		var sb strings.Builder
		for _, f := range fs {
			sb.WriteString(f.src(l, nil) + "\n")
		}
		progs = append(progs, c01Prog{name: name, funcs: fs, src: sb.String(), plain: l.plain})
		for k, v := range g.feat {
			vstats["feature."+k] += v
		}
		if len(progs) == batch || i == count-1 {
			c01Batch(workdir, progs, 0)
			progs = nil
		}
	}
}

var _ = fmt.Sprint
