package main

// C02 stream: functions whose parameter types are determined by the body through the constructs the
// documentation promises inference for.  For every subset of erased (redundant) annotations the
// emitted Go of the function must not change; parameters the body leaves undetermined must become
// type parameters T0, T1, … in order of first occurrence; every generic function is used at two
// different instantiations and the whole package is compiled and run.

import (
	"fmt"
	"go/ast"
	"go/parser"
	"go/token"
	"math/rand"
	"strings"
)

const c02Prelude = `package main

import frt
import slice

type Pt = {x: int; y: int}

type Person = {Name: string; Age: int}

type Opt =
  | Some of int
  | None

let trI (tag:string) (v:int) =
  frt.Println tag
  v

let trS (tag:string) (v:string) =
  frt.Println tag
  v

let trB (tag:string) (v:bool) =
  frt.Println tag
  v

let ptSum (p: Pt) =
  p.x + p.y

let optVal (o: Opt) =
  match o with
  | Some v -> v
  | None -> 0 - 1

let strLen (s: string) =
  slice.Length [s; s]

`

type c02Param struct {
	name  string
	kind  string // int str bool pt ints pair fn opt poly
	fo    string // annotation text
	uses  []string
	argFo string // a Folang argument expression
	val   int    // what the uses contribute given argFo (sum over uses)
}

// usage expressions (int valued) that determine the parameter's type, with their value for the
// argument the caller passes
func c02MakeParam(r *rand.Rand, name string, kind string, tagN *int) c02Param {
	p := c02Param{name: name, kind: kind}
	tag := func() string { *tagN++; return fmt.Sprintf("\"u%d\"", *tagN) }
	type use struct {
		e string
		v int
	}
	var cands []use
	switch kind {
	case "int":
		p.fo, p.argFo = "int", "5"
		cands = []use{{"(" + name + " + 1)", 6}, {"(" + name + " * 2)", 10}, {"(trI " + tag() + " " + name + ")", 5},
			{"(slice.Length [" + name + "; 1])", 2}, {"(ptSum {x=" + name + "; y=0})", 5}, {"(if " + name + " < 3 then 1 else 0)", 0},
			{"(optVal (Some " + name + "))", 5}}
	case "str":
		p.fo, p.argFo = "string", "\"ab\""
		cands = []use{{"(strLen " + name + ")", 2}, {"(slice.Length [" + name + "; \"s\"])", 2}, {"(if " + name + " = \"ab\" then 1 else 0)", 1},
			{"(strLen (trS " + tag() + " " + name + "))", 2}, {"(strLen (" + name + " + \"x\"))", 2}, {"(if {Name=" + name + "; Age=1} = {Name=\"q\"; Age=1} then 1 else 0)", 0}}
	case "bool":
		p.fo, p.argFo = "bool", "true"
		cands = []use{{"(if " + name + " then 1 else 0)", 1}, {"(if trB " + tag() + " " + name + " then 2 else 0)", 2}, {"(if " + name + " && true then 1 else 0)", 1},
			{"(if not " + name + " then 1 else 0)", 0}}
	case "pt":
		p.fo, p.argFo = "Pt", "{x=2; y=3}"
		cands = []use{{"(ptSum " + name + ")", 5}, {"(if " + name + " = {x=2; y=3} then 1 else 0)", 1}}
	case "ints":
		p.fo, p.argFo = "[]int", "[4; 6]"
		cands = []use{{"(trI " + tag() + " (slice.Head " + name + "))", 4}, {"((slice.Head " + name + ") + 1)", 5},
			{"(slice.Length (slice.Map (fun (k:int) -> k + 1) " + name + "))", 2}, {"(slice.Fold (fun (acc:int) (k:int) -> acc + k) 0 " + name + ")", 10}}
	case "fn":
		p.fo, p.argFo = "int->int", "(fun (k:int) -> k * 10)"
		cands = []use{{"((" + name + " 3) + 1)", 31}, {"(trI " + tag() + " (" + name + " 2))", 20}}
	case "opt":
		p.fo, p.argFo = "Opt", "(Some 8)"
		cands = []use{{"(optVal " + name + ")", 8}, {"(if " + name + " = None then 1 else 0)", 0}}
	}
	n := 1 + r.Intn(2)
	for i := 0; i < n && len(cands) > 0; i++ {
		u := cands[r.Intn(len(cands))]
		p.uses = append(p.uses, u.e)
		p.val += u.v
	}
	return p
}

type c02Func struct {
	name   string
	params []c02Param
	polys  []int // indices of undetermined parameters
	pair   *c02Param
	cross  []string // uses relating TWO parameters, written BEFORE the uses that pin their types
	crossV int
}

func (f *c02Func) src(erase map[int]bool) string {
	var sb strings.Builder
	sb.WriteString("let " + f.name)
	for i, p := range f.params {
		if p.kind == "poly" || erase[i] {
			sb.WriteString(" " + p.name)
		} else {
			sb.WriteString(" (" + p.name + ": " + p.fo + ")")
		}
	}
	sb.WriteString(" =\n")
	var terms []string
	terms = append(terms, f.cross...)
	for _, p := range f.params {
		if p.kind == "pair" {
			sb.WriteString("  let (" + p.name + "a, " + p.name + "b) = " + p.name + "\n")
			terms = append(terms, "("+p.name+"a + 1)", "(strLen "+p.name+"b)")
			continue
		}
		terms = append(terms, p.uses...)
	}
	if len(terms) == 0 {
		terms = []string{"0"}
	}
	sum := strings.Join(terms, " + ")
	switch len(f.polys) {
	case 0:
		sb.WriteString("  " + sum + "\n")
	case 1:
		sb.WriteString("  (" + sum + ", " + f.params[f.polys[0]].name + ")\n")
	default:
		sb.WriteString("  ((" + sum + ", " + f.params[f.polys[0]].name + "), " + f.params[f.polys[1]].name + ")\n")
	}
	return sb.String()
}

func (f *c02Func) value() int {
	v := f.crossV
	for _, p := range f.params {
		if p.kind == "pair" {
			v += 7 + 1 + 2 // a=7, b="zz": (a+1) + strLen b
		} else {
			v += p.val
		}
	}
	return v
}

func c02GenFunc(r *rand.Rand, name string, tagN *int) *c02Func {
	f := &c02Func{name: name}
	np := 1 + r.Intn(4)
	kinds := []string{"int", "int", "str", "bool", "pt", "ints", "fn", "opt", "pair", "poly", "poly"}
	for i := 0; i < np; i++ {
		k := kinds[r.Intn(len(kinds))]
		pn := fmt.Sprintf("a%d", i)
		switch k {
		case "poly":
			if len(f.polys) == 2 {
				k = "int"
			}
		}
		switch k {
		case "poly":
			f.polys = append(f.polys, i)
			f.params = append(f.params, c02Param{name: pn, kind: "poly"})
		case "pair":
			f.params = append(f.params, c02Param{name: pn, kind: "pair", fo: "int*string", argFo: "(7, \"zz\")"})
		default:
			f.params = append(f.params, c02MakeParam(r, pn, k, tagN))
		}
	}
	// comparisons / connectives between two parameters of one kind: when both annotations are erased,
	// both operands are still undetermined where the operator is met; the uses that pin them follow
	for i := range f.params {
		for j := i + 1; j < len(f.params); j++ {
			pi, pj := f.params[i], f.params[j]
			if pi.kind != pj.kind || r.Intn(2) == 0 {
				continue
			}
			type cu struct {
				op string
				v  int
			}
			var ops []cu
			switch pi.kind {
			case "int": // both arguments are 5
				ops = []cu{{"<", 0}, {"<=", 1}, {">", 0}, {">=", 1}, {"=", 1}, {"<>", 0}}
			case "str": // both "ab"
				ops = []cu{{"=", 1}, {"<>", 0}}
			case "bool": // both true
				ops = []cu{{"&&", 1}, {"||", 1}, {"=", 1}}
			default:
				continue
			}
			o := ops[r.Intn(len(ops))]
			f.cross = append(f.cross, "(if "+pi.name+" "+o.op+" "+pj.name+" then 1 else 0)")
			f.crossV += o.v
		}
	}
	return f
}

// the Go declaration text of function `name`
func c02FuncDecl(goSrc, name string) (string, *ast.FuncDecl, *token.FileSet) {
	fset := token.NewFileSet()
	file, err := parser.ParseFile(fset, "gen.go", goSrc, 0)
	if err != nil {
		return "goparse-err: " + err.Error(), nil, fset
	}
	for _, d := range file.Decls {
		if fd, ok := d.(*ast.FuncDecl); ok && fd.Name.Name == name {
			return goSrc[fset.Position(fd.Pos()).Offset:fset.Position(fd.End()).Offset], fd, fset
		}
	}
	return "", nil, fset
}

func vC02(seed int64, count int, extra []string) {
	workdir := ""
	if len(extra) > 0 {
		workdir = extra[0]
	}
	r := rand.New(rand.NewSource(seed))
	var batchSrc strings.Builder
	var batchMain strings.Builder
	var want strings.Builder
	batchSrc.WriteString(c02Prelude)
	nInBatch := 0
	flush := func() {
		if nInBatch == 0 || workdir == "" {
			return
		}
		src := batchSrc.String() + "let main () =\n" + batchMain.String()
		goSrc, err := vTranspilePkg(src)
		if err != "" {
			vViolation(map[string]any{"kind": "fc rejected the batch of inferred functions", "error": err, "program": src})
		} else {
			stdout, berr := c01BuildRun(workdir, goSrc)
			vstat("batches-compiled")
			if berr != "" {
				vViolation(map[string]any{"kind": "the emitted package does not type-check / run", "detail": berr, "program": src})
			} else if stdout != want.String() {
				vViolation(map[string]any{"kind": "a generic function instantiated at two types misbehaves", "expected": want.String(), "observed": stdout, "program": src})
			}
		}
		batchSrc.Reset()
		batchSrc.WriteString(c02Prelude)
		batchMain.Reset()
		want.Reset()
		nInBatch = 0
	}
	for i := 0; i < count; i++ {
		tagN := 0
		f := c02GenFunc(r, fmt.Sprintf("f%d", i), &tagN)
		full := c02Prelude + f.src(nil)
		goFull, err := vTranspilePkg(full)
		if err != "" {
			vViolation(map[string]any{"kind": "fc rejected a fully annotated function", "error": err, "program": full})
			continue
		}
		base, fd, fset := c02FuncDecl(goFull, f.name)
		vstat("functions")
		// 1. expected type parameters: T0, T1 … in order of first occurrence in the parameter list
		if fd != nil {
			var tps []string
			if fd.Type.TypeParams != nil {
				for _, fl := range fd.Type.TypeParams.List {
					for _, n := range fl.Names {
						tps = append(tps, n.Name)
					}
				}
			}
			var wantT []string
			for k := range f.polys {
				wantT = append(wantT, fmt.Sprintf("T%d", k))
			}
			okT := strings.Join(tps, ",") == strings.Join(wantT, ",")
			// each undetermined parameter has the type parameter of its rank
			pi := 0
			for _, fl := range fd.Type.Params.List {
				for range fl.Names {
					if pi < len(f.params) && f.params[pi].kind == "poly" {
						rank := 0
						for k, idx := range f.polys {
							if idx == pi {
								rank = k
							}
						}
						if goFull[fset.Position(fl.Type.Pos()).Offset:fset.Position(fl.Type.End()).Offset] != fmt.Sprintf("T%d", rank) {
							okT = false
						}
					}
					pi++
				}
			}
			if !okT {
				vViolation(map[string]any{"kind": "undetermined types are not hoisted to T0, T1, … in first-occurrence order", "function": f.src(nil), "emitted": base})
			}
		}
		// 2. every subset of erased annotations
		var det []int
		for k, p := range f.params {
			if p.kind != "poly" {
				det = append(det, k)
			}
		}
		for mask := 1; mask < 1<<len(det); mask++ {
			erase := map[int]bool{}
			for b, k := range det {
				if mask&(1<<b) != 0 {
					erase[k] = true
				}
			}
			v := c02Prelude + f.src(erase)
			goV, err := vTranspilePkg(v)
			vstat("erasures")
			if err != "" {
				vViolation(map[string]any{"kind": "erasing a redundant annotation makes fc reject the function", "error": err, "annotated": f.src(nil), "erased": f.src(erase)})
				break
			}
			if got, _, _ := c02FuncDecl(goV, f.name); got != base {
				vViolation(map[string]any{"kind": "erasing a redundant annotation changes the emitted code", "annotated": f.src(nil), "erased": f.src(erase), "emitted_annotated": base, "emitted_erased": got})
				break
			}
		}
		// 3. use the function at two instantiations (compiled in batches)
		args := func(polyArgs []string) string {
			var as []string
			pk := 0
			for _, p := range f.params {
				if p.kind == "poly" {
					as = append(as, polyArgs[pk])
					pk++
				} else {
					as = append(as, p.argFo)
				}
			}
			return strings.Join(as, " ")
		}
		eraseAll := map[int]bool{}
		for _, k := range det {
			if r.Intn(2) == 0 {
				eraseAll[k] = true
			}
		}
		batchSrc.WriteString(f.src(eraseAll) + "\n")
		traces := ""
		for _, p := range f.params {
			for _, u := range p.uses {
				if i := strings.Index(u, "\"u"); i >= 0 {
					j := strings.Index(u[i+1:], "\"")
					traces += u[i+1:i+1+j] + "\n"
				}
			}
		}
		switch len(f.polys) {
		case 0:
			batchMain.WriteString(fmt.Sprintf("  frt.Printf1 \"%%d\\n\" (%s %s)\n", f.name, args(nil)))
			want.WriteString(traces + fmt.Sprintf("%d\n", f.value()))
		case 1:
			batchMain.WriteString(fmt.Sprintf("  frt.Printf1 \"%%v\\n\" (%s %s)\n", f.name, args([]string{"11"})))
			batchMain.WriteString(fmt.Sprintf("  frt.Printf1 \"%%v\\n\" (%s %s)\n", f.name, args([]string{"\"str\""})))
			want.WriteString(traces + fmt.Sprintf("{%d 11}\n", f.value()) + traces + fmt.Sprintf("{%d str}\n", f.value()))
		default:
			batchMain.WriteString(fmt.Sprintf("  frt.Printf1 \"%%v\\n\" (%s %s)\n", f.name, args([]string{"11", "\"s\""})))
			batchMain.WriteString(fmt.Sprintf("  frt.Printf1 \"%%v\\n\" (%s %s)\n", f.name, args([]string{"true", "[1; 2]"})))
			want.WriteString(traces + fmt.Sprintf("{{%d 11} s}\n", f.value()) + traces + fmt.Sprintf("{{%d true} [1 2]}\n", f.value()))
		}
		nInBatch++
		if nInBatch == 25 {
			flush()
		}
	}
	flush()
}
