package main

// C02 stream c02.graph: random CONSTRAINT GRAPHS.  A function with un-annotated parameters whose body
// is made of expressions that each impose type equations (slice literals, tuples, equality,
// slice.Head / slice.Last / frt.Fst / frt.Snd, literals); the equations are collected here,
// independently of fc, while the expression is built.  They are solvable by construction (a hidden
// ground typing of the parameters satisfies them) but the ground typing is usually NOT the most
// general one.  The Lean reference unifier (Model/Unify.lean; proved to return a most general
// unifier) computes the principal signature; the Go signature the real compiler emits, read back
// with go/parser, must be exactly that: concrete where the body determines a type, T0, T1, … by
// first occurrence where it does not.

import (
	"fmt"
	"go/ast"
	"go/parser"
	"math/rand"
	"regexp"
	"strconv"
	"strings"
)

// type terms: variables and constructors, as S-expressions for the oracle
type cgTy struct {
	v    string // variable name, or ""
	head string
	args []*cgTy
}

func (t *cgTy) sx() string {
	if t.v != "" {
		return vsx("v", t.v)
	}
	parts := []string{"c", t.head}
	for _, a := range t.args {
		parts = append(parts, a.sx())
	}
	return vsx(parts...)
}

func cgCon(h string, args ...*cgTy) *cgTy { return &cgTy{head: h, args: args} }
func cgVar(n string) *cgTy                { return &cgTy{v: n} }

// ground types (the hidden typing): g<i> is an opaque generic
func (t *cgTy) eq(u *cgTy) bool {
	if t.v != "" || u.v != "" {
		return t.v == u.v
	}
	if t.head != u.head || len(t.args) != len(u.args) {
		return false
	}
	for i := range t.args {
		if !t.args[i].eq(u.args[i]) {
			return false
		}
	}
	return true
}

type cgExpr struct {
	fo     string
	ty     *cgTy // type term over P<i> and fresh variables
	ground *cgTy
	eqs    [][2]*cgTy // the equations this expression (with its sub-expressions) imposes
	once   bool       // contains the application of a function-typed parameter: may be written once
	isVar  bool       // a plain name (only names can be applied in Folang)
}

func cgHasFunc(t *cgTy) bool {
	if t.v != "" {
		return false
	}
	if t.head == "->" {
		return true
	}
	for _, a := range t.args {
		if cgHasFunc(a) {
			return true
		}
	}
	return false
}

func cgJoin(parts ...[][2]*cgTy) [][2]*cgTy {
	var out [][2]*cgTy
	for _, p := range parts {
		out = append(out, p...)
	}
	return out
}

type cgGraph struct {
	r      *rand.Rand
	params []*cgExpr
	eqs    [][2]*cgTy
	fresh  int
	pool   []*cgExpr // expressions built so far
	pre    []string  // destructuring lets and let-bound expressions, in order
	lets   []*cgExpr // the let-bound names (all of them are part of the result)
	bases  []*cgTy
	used   map[*cgExpr]bool // function-typed parameters already applied (they are applied once)
}

// an expression that may be written once leaves the pool when it is written
func (g *cgGraph) take(e *cgExpr) {
	if !e.once {
		return
	}
	for i, x := range g.pool {
		if x == e {
			g.pool = append(g.pool[:i:i], g.pool[i+1:]...)
			return
		}
	}
}

func (g *cgGraph) add(e *cgExpr, from ...*cgExpr) {
	for _, f := range from {
		if f.once {
			e.once = true
		}
		g.take(f)
	}
	if g.r.Intn(3) == 0 && !cgHasFunc(e.ground) {
		// bind it: every let is its own batch of relations for the resolver; the relations of the
		// right-hand side hold whether or not the name is used again
		n := len(g.lets)
		name := fmt.Sprintf("m%d", n)
		g.pre = append(g.pre, "let "+name+" = "+e.fo)
		g.eqs = append(g.eqs, e.eqs...)
		v := &cgExpr{fo: name, ty: e.ty, ground: e.ground, isVar: true}
		g.lets = append(g.lets, v)
		g.pool = append(g.pool, v)
		return
	}
	g.pool = append(g.pool, e)
}

// an expression as the target of a field access: a name stays, anything else is parenthesised
func (g *cgGraph) atomFo(e *cgExpr) string {
	if e.isVar {
		return e.fo
	}
	return "(" + e.fo + ")"
}

func (g *cgGraph) newVar() *cgTy { g.fresh++; return cgVar("F" + strconv.Itoa(g.fresh)) }

// ground types are drawn from few bases per graph, so that parameters of related types
// (X, []X, [][]X, X*Y) meet often: constraint graphs with chains need such coincidences
func (g *cgGraph) groundType(depth int) *cgTy {
	if g.bases == nil {
		all := []*cgTy{cgCon("int"), cgCon("string"), cgCon("bool"), cgVar("g0"), cgVar("g1"), cgVar("g2")}
		g.r.Shuffle(len(all), func(i, j int) { all[i], all[j] = all[j], all[i] })
		g.bases = all[:2]
	}
	base := g.bases[g.r.Intn(len(g.bases))]
	k := g.r.Intn(20)
	switch {
	case depth <= 0 || k < 8:
		return base
	case k < 15:
		return cgCon("[]", base)
	case k < 17:
		return cgCon("[]", cgCon("[]", base))
	default:
		return cgCon("*", base, g.bases[g.r.Intn(len(g.bases))])
	}
}

// candidates of a given ground type among the pool
func (g *cgGraph) ofGround(t *cgTy) []*cgExpr {
	var out []*cgExpr
	for _, e := range g.pool {
		if e.ground.eq(t) {
			out = append(out, e)
		}
	}
	return out
}

func cgSlice2(e, o *cgExpr) *cgExpr {
	return &cgExpr{fo: "[" + e.fo + "; " + o.fo + "]", ty: cgCon("[]", e.ty), ground: cgCon("[]", e.ground), eqs: cgJoin(e.eqs, o.eqs, [][2]*cgTy{{e.ty, o.ty}})}
}

func cgSingle(e *cgExpr) *cgExpr {
	return &cgExpr{fo: "[" + e.fo + "]", ty: cgCon("[]", e.ty), ground: cgCon("[]", e.ground), eqs: e.eqs}
}

func cgPair(e, o *cgExpr) *cgExpr {
	return &cgExpr{fo: "(" + e.fo + ", " + o.fo + ")", ty: cgCon("*", e.ty, o.ty), ground: cgCon("*", e.ground, o.ground), eqs: cgJoin(e.eqs, o.eqs)}
}

// let-bind an expression (its relations are imposed where the let stands)
func (g *cgGraph) bind(e *cgExpr) *cgExpr {
	n := len(g.lets)
	name := fmt.Sprintf("m%d", n)
	g.pre = append(g.pre, "let "+name+" = "+e.fo)
	g.eqs = append(g.eqs, e.eqs...)
	v := &cgExpr{fo: name, ty: e.ty, ground: e.ground, isVar: true}
	g.lets = append(g.lets, v)
	g.pool = append(g.pool, v)
	return v
}

// CHAIN shape: two (three) parameters are each related to a structured type in their own let - one
// with an inner parameter, one with inner knowledge (a literal or another parameter) - and are
// unified with each other in another let; the inner types are determined only through that link.
// The order of the lets is random (link last, first or in the middle).
func (g *cgGraph) chain() {
	if len(g.params) < 3 {
		return
	}
	r, s, a := g.params[0], g.params[1], g.params[2]
	x := g.bases[0]
	form := g.r.Intn(3)
	wrapT := func(t *cgTy) *cgTy {
		switch form {
		case 0:
			return cgCon("[]", t)
		case 1:
			return cgCon("[]", cgCon("[]", t))
		}
		return cgCon("*", t, cgCon("string"))
	}
	wrapE := func(e *cgExpr) *cgExpr {
		switch form {
		case 0:
			return cgSingle(e)
		case 1:
			return cgSingle(cgSingle(e))
		}
		return cgPair(e, &cgExpr{fo: "\"s\"", ty: cgCon("string"), ground: cgCon("string")})
	}
	r.ground, s.ground, a.ground = wrapT(x), wrapT(x), x
	var know *cgExpr
	switch {
	case x.v == "" && x.head == "int":
		know = &cgExpr{fo: "1", ty: cgCon("int"), ground: x}
	case x.v == "" && x.head == "string":
		know = &cgExpr{fo: "\"k\"", ty: cgCon("string"), ground: x}
	case x.v == "" && x.head == "bool":
		know = &cgExpr{fo: "true", ty: cgCon("bool"), ground: x}
	default:
		if len(g.params) >= 4 {
			g.params[3].ground = x
			know = g.params[3]
		} else {
			know = a
		}
	}
	steps := []func(){
		func() { g.bind(cgSlice2(r, wrapE(a))) },
		func() { g.bind(cgSlice2(s, wrapE(know))) },
	}
	link := func() {
		if g.r.Intn(2) == 0 {
			g.bind(cgSlice2(r, s))
		} else {
			g.bind(cgPair(cgSlice2(s, r), &cgExpr{fo: "1", ty: cgCon("int"), ground: cgCon("int")}))
		}
	}
	g.r.Shuffle(len(steps), func(i, j int) { steps[i], steps[j] = steps[j], steps[i] })
	switch g.r.Intn(4) {
	case 0:
		link()
		steps[0]()
		steps[1]()
	case 1:
		steps[0]()
		link()
		steps[1]()
	default:
		steps[0]()
		steps[1]()
		link()
	}
}

// grow the pool by one derived expression; returns false when nothing applied
func (g *cgGraph) derive() bool {
	e := g.pool[g.r.Intn(len(g.pool))]
	isG := func(t *cgTy, h string) bool { return t.v == "" && t.head == h && len(t.args) == 0 }
	switch g.r.Intn(21) { // 21, 22 (match on the generic union) are not drawn: the arms of a match are not unified by fc - outside the constructs the documentation promises inference for, see DESIGN 0.9
	case 19, 20: // field of a generic record value whose type is already known to be a Pr instance
		if e.ty.v != "" || e.ty.head != "Pr" || !e.isVar {
			return false // only a name can be followed by .Field
		}
		if g.r.Intn(2) == 0 {
			g.add(&cgExpr{fo: g.atomFo(e) + ".PA", ty: e.ty.args[0], ground: e.ground.args[0], eqs: e.eqs}, e)
		} else {
			g.add(&cgExpr{fo: g.atomFo(e) + ".PB", ty: e.ty.args[1], ground: e.ground.args[1], eqs: e.eqs}, e)
		}
	case 21, 22: // match on a value of the generic union, bound by a let: the payload and the other arm have one type
		if e.ground.v != "" || e.ground.head != "Opt" || cgHasFunc(e.ground) {
			return false
		}
		c := g.ofGround(e.ground.args[0])
		if len(c) == 0 {
			return false
		}
		o := c[g.r.Intn(len(c))]
		if o == e {
			return false
		}
		f := g.newVar()
		n := len(g.lets)
		name := fmt.Sprintf("m%d", n)
		g.take(e)
		g.take(o)
		g.pre = append(g.pre, fmt.Sprintf("let %s = match %s with\n           | Som w%d -> w%d\n           | Non -> %s", name, e.fo, n, n, o.fo))
		g.eqs = append(g.eqs, cgJoin(e.eqs, o.eqs, [][2]*cgTy{{e.ty, cgCon("Opt", f)}, {f, o.ty}})...)
		v := &cgExpr{fo: name, ty: f, ground: e.ground.args[0], isVar: true}
		g.lets = append(g.lets, v)
		g.pool = append(g.pool, v)
	case 12: // arithmetic / concatenation / comparison with a typed (literal) operand
		switch {
		case isG(e.ground, "int") && g.r.Intn(2) == 0:
			g.add(&cgExpr{fo: "(" + e.fo + " + 1)", ty: cgCon("int"), ground: cgCon("int"), eqs: cgJoin(e.eqs, [][2]*cgTy{{e.ty, cgCon("int")}})}, e)
		case isG(e.ground, "int"):
			g.add(&cgExpr{fo: "(" + e.fo + " < 3)", ty: cgCon("bool"), ground: cgCon("bool"), eqs: cgJoin(e.eqs, [][2]*cgTy{{e.ty, cgCon("int")}})}, e)
		case isG(e.ground, "string"):
			g.add(&cgExpr{fo: "(" + e.fo + " + \"z\")", ty: cgCon("string"), ground: cgCon("string"), eqs: cgJoin(e.eqs, [][2]*cgTy{{e.ty, cgCon("string")}})}, e)
		default:
			return false
		}
	case 13: // union construction (generic union)
		g.add(&cgExpr{fo: "(Som " + e.fo + ")", ty: cgCon("Opt", e.ty), ground: cgCon("Opt", e.ground), eqs: e.eqs}, e)
	case 14: // the payload-less case of the generic union: a fresh instance, pinned by what it meets
		c := g.ofGround(cgCon("Opt", e.ground))
		if len(c) == 0 || cgHasFunc(e.ground) {
			return false
		}
		o := c[g.r.Intn(len(c))]
		f := g.newVar()
		g.add(&cgExpr{fo: "[(Non ()); " + o.fo + "]", ty: cgCon("[]", cgCon("Opt", f)), ground: cgCon("[]", cgCon("Opt", e.ground)), eqs: cgJoin(o.eqs, [][2]*cgTy{{cgCon("Opt", f), o.ty}})}, o)
	case 15: // calls of user functions: annotated (idInt, tagStr) and generic, inferred (dup, pick):
		// every use of a generic function is instantiated on its own
		switch g.r.Intn(5) {
		case 4: // a generic user function called with a PARTIAL explicit type-argument list
			if !isG(e.ground, "int") {
				return false
			}
			o := g.pool[g.r.Intn(len(g.pool))]
			if o == e && e.once {
				return false
			}
			g.add(&cgExpr{fo: "(tagAny<int> " + e.fo + " " + o.fo + ")", ty: cgCon("*", cgCon("int"), o.ty), ground: cgCon("*", cgCon("int"), o.ground),
				eqs: cgJoin(e.eqs, o.eqs, [][2]*cgTy{{e.ty, cgCon("int")}})}, e, o)
		case 0:
			if !isG(e.ground, "int") {
				return false
			}
			g.add(&cgExpr{fo: "(idInt " + e.fo + ")", ty: cgCon("int"), ground: cgCon("int"), eqs: cgJoin(e.eqs, [][2]*cgTy{{e.ty, cgCon("int")}})}, e)
		case 1:
			if !isG(e.ground, "string") {
				return false
			}
			g.add(&cgExpr{fo: "(tagStr 1 " + e.fo + ")", ty: cgCon("*", cgCon("int"), cgCon("string")), ground: cgCon("*", cgCon("int"), cgCon("string")), eqs: cgJoin(e.eqs, [][2]*cgTy{{e.ty, cgCon("string")}})}, e)
		case 2:
			g.add(&cgExpr{fo: "(dup " + e.fo + ")", ty: cgCon("*", e.ty, e.ty), ground: cgCon("*", e.ground, e.ground), eqs: e.eqs}, e)
		default:
			c := g.ofGround(e.ground)
			o := c[g.r.Intn(len(c))]
			if (o == e && e.once) || cgHasFunc(e.ground) {
				return false
			}
			g.add(&cgExpr{fo: "(pick true " + e.fo + " " + o.fo + ")", ty: e.ty, ground: e.ground, eqs: cgJoin(e.eqs, o.eqs, [][2]*cgTy{{e.ty, o.ty}})}, e, o)
		}
	case 16, 17, 18: // if / else as an expression: the branches have one type, the condition is bool
		cs := g.ofGround(cgCon("bool"))
		c := g.ofGround(e.ground)
		if len(cs) == 0 || cgHasFunc(e.ground) {
			return false
		}
		cd, o := cs[g.r.Intn(len(cs))], c[g.r.Intn(len(c))]
		if cd == e || cd == o || (o == e && e.once) {
			return false
		}
		g.add(&cgExpr{fo: "(if " + cd.fo + " then " + e.fo + " else " + o.fo + ")", ty: e.ty, ground: e.ground,
			eqs: cgJoin(cd.eqs, e.eqs, o.eqs, [][2]*cgTy{{cd.ty, cgCon("bool")}, {e.ty, o.ty}})}, cd, e, o)
	case 10, 11: // record literal of a generic record with two type parameters
		o := g.pool[g.r.Intn(len(g.pool))]
		if o == e && e.once {
			return false
		}
		lit := "{PA=" + e.fo + "; PB=" + o.fo + "}"
		if g.r.Intn(2) == 0 {
			lit = "{PB=" + o.fo + "; PA=" + e.fo + "}" // fields are matched by NAME, in any order
		}
		g.add(&cgExpr{fo: lit, ty: cgCon("Pr", e.ty, o.ty), ground: cgCon("Pr", e.ground, o.ground), eqs: cgJoin(e.eqs, o.eqs)}, e, o)
	case 7: // destructuring let of something that is (ground) a pair
		if e.ground.v != "" || e.ground.head != "*" {
			return false
		}
		a, b := g.newVar(), g.newVar()
		n := len(g.pre)
		g.pre = append(g.pre, fmt.Sprintf("let (d%da, d%db) = %s", n, n, e.fo))
		g.eqs = append(g.eqs, cgJoin(e.eqs, [][2]*cgTy{{e.ty, cgCon("*", a, b)}})...)
		g.take(e)
		g.pool = append(g.pool, &cgExpr{fo: fmt.Sprintf("d%da", n), ty: a, ground: e.ground.args[0], isVar: true}, &cgExpr{fo: fmt.Sprintf("d%db", n), ty: b, ground: e.ground.args[1], isVar: true})
	case 8, 9: // application of a function-typed parameter (once)
		if e.ground.v != "" || e.ground.head != "->" || g.used[e] || !e.isVar {
			return false
		}
		c := g.ofGround(e.ground.args[0])
		if len(c) == 0 {
			return false
		}
		o := c[g.r.Intn(len(c))]
		g.used[e] = true
		f := g.newVar()
		g.add(&cgExpr{fo: "(" + e.fo + " " + o.fo + ")", ty: f, ground: e.ground.args[1], eqs: cgJoin(e.eqs, o.eqs, [][2]*cgTy{{e.ty, cgCon("->", o.ty, f)}}), once: true}, o)
	case 0: // slice literal of two expressions with the same ground type
		c := g.ofGround(e.ground)
		o := c[g.r.Intn(len(c))]
		if o == e && e.once {
			return false
		}
		g.add(&cgExpr{fo: "[" + e.fo + "; " + o.fo + "]", ty: cgCon("[]", e.ty), ground: cgCon("[]", e.ground), eqs: cgJoin(e.eqs, o.eqs, [][2]*cgTy{{e.ty, o.ty}})}, e, o)
	case 1: // singleton slice
		g.add(&cgExpr{fo: "[" + e.fo + "]", ty: cgCon("[]", e.ty), ground: cgCon("[]", e.ground), eqs: e.eqs}, e)
	case 2: // pair
		o := g.pool[g.r.Intn(len(g.pool))]
		if o == e && e.once {
			return false
		}
		g.add(&cgExpr{fo: "(" + e.fo + ", " + o.fo + ")", ty: cgCon("*", e.ty, o.ty), ground: cgCon("*", e.ground, o.ground), eqs: cgJoin(e.eqs, o.eqs)}, e, o)
	case 3, 4: // slice.Head / slice.Last of something that is (ground) a slice
		if e.ground.v != "" || e.ground.head != "[]" {
			return false
		}
		f := g.newVar()
		fn := []string{"slice.Head", "slice.Last"}[g.r.Intn(2)]
		g.add(&cgExpr{fo: "(" + fn + " " + e.fo + ")", ty: f, ground: e.ground.args[0], eqs: cgJoin(e.eqs, [][2]*cgTy{{e.ty, cgCon("[]", f)}})}, e)
	case 5, 6: // frt.Fst / frt.Snd of something that is (ground) a pair
		if e.ground.v != "" || e.ground.head != "*" {
			return false
		}
		a, b := g.newVar(), g.newVar()
		qs := cgJoin(e.eqs, [][2]*cgTy{{e.ty, cgCon("*", a, b)}})
		if g.r.Intn(2) == 0 {
			g.add(&cgExpr{fo: "(frt.Fst " + e.fo + ")", ty: a, ground: e.ground.args[0], eqs: qs}, e)
		} else {
			g.add(&cgExpr{fo: "(frt.Snd " + e.fo + ")", ty: b, ground: e.ground.args[1], eqs: qs}, e)
		}
	}
	return true
}

// an equality between two pool expressions of one ground type
func (g *cgGraph) equality() (string, bool) {
	for try := 0; try < 20; try++ {
		e := g.pool[g.r.Intn(len(g.pool))]
		if cgHasFunc(e.ground) {
			continue
		}
		c := g.ofGround(e.ground)
		o := c[g.r.Intn(len(c))]
		if o == e && (len(c) > 1 || e.once) {
			continue
		}
		g.take(e)
		g.take(o)
		g.eqs = append(g.eqs, cgJoin(e.eqs, o.eqs, [][2]*cgTy{{e.ty, o.ty}})...)
		return "(" + e.fo + " = " + o.fo + ")", true
	}
	return "", false
}

// a ground type written as a Folang type expression (false when it holds an opaque generic, a record
// or a union: those are not annotated)
func cgFoType(t *cgTy) (string, bool) {
	if t.v != "" {
		return "", false
	}
	switch {
	case len(t.args) == 0 && (t.head == "int" || t.head == "string" || t.head == "bool"):
		return t.head, true
	case t.head == "[]" && len(t.args) == 1:
		if a, ok := cgFoType(t.args[0]); ok {
			if t.args[0].head == "*" || t.args[0].head == "->" {
				a = "(" + a + ")"
			}
			return "[]" + a, true
		}
	case (t.head == "*" || t.head == "->") && len(t.args) == 2:
		a, ok1 := cgFoType(t.args[0])
		b, ok2 := cgFoType(t.args[1])
		if ok1 && ok2 {
			if t.args[0].head == "*" || t.args[0].head == "->" {
				a = "(" + a + ")"
			}
			if t.args[1].head == "*" || t.args[1].head == "->" {
				b = "(" + b + ")"
			}
			return a + t.head + b, true
		}
	}
	return "", false
}

func c02GraphGen(r *rand.Rand, name string) (fo string, oracleIn string, nparams int) {
	g := &cgGraph{r: r, used: map[*cgExpr]bool{}}
	np := 1 + r.Intn(5)
	var pnames []string
	for i := 0; i < np; i++ {
		p := &cgExpr{fo: fmt.Sprintf("p%d", i), ty: cgVar("P" + strconv.Itoa(i)), ground: g.groundType(2), isVar: true}
		if r.Intn(3) == 0 {
			p.ground = cgCon("->", g.groundType(1), g.groundType(1))
		}
		g.params = append(g.params, p)
		g.pool = append(g.pool, p)
		pnames = append(pnames, p.fo)
	}
	if r.Intn(3) == 0 {
		g.chain()
	}
	// literals join the pool so that ground-int parameters can be pinned (or not)
	g.pool = append(g.pool, &cgExpr{fo: "1", ty: cgCon("int"), ground: cgCon("int")}, &cgExpr{fo: "\"s\"", ty: cgCon("string"), ground: cgCon("string")}, &cgExpr{fo: "true", ty: cgCon("bool"), ground: cgCon("bool")})
	for i := r.Intn(18); i > 0; i-- {
		g.derive()
	}
	var conj []string
	for i := 1 + r.Intn(4); i > 0; i-- {
		if s, ok := g.equality(); ok {
			conj = append(conj, s)
		}
	}
	if len(conj) == 0 {
		conj = []string{"true"}
	}
	res := g.pool[r.Intn(len(g.pool))]
	g.eqs = append(g.eqs, res.eqs...)
	var sb strings.Builder
	// a RESULT annotation (a quarter of the graphs whose hidden result type can be written): it enters
	// unification like any other relation and may be the only thing that determines a parameter
	resGround := res.ground
	for i := len(g.lets) - 1; i >= 0; i-- {
		resGround = cgCon("*", g.lets[i].ground, resGround)
	}
	resGround = cgCon("*", cgCon("bool"), resGround)
	annot := ""
	if ft, ok := cgFoType(resGround); ok && r.Intn(4) == 0 {
		annot = " : " + ft
		vstat("graph.result-annotation")
	}
	sb.WriteString("let " + name + " " + strings.Join(pnames, " ") + annot + " =\n")
	for _, p := range g.pre {
		sb.WriteString("  " + p + "\n")
	}
	sb.WriteString("  let ok = " + strings.Join(conj, " && ") + "\n")
	// result: (ok, (m0, (m1, … res))) - every let-bound name is used
	resFo, resT := res.fo, res.ty
	for i := len(g.lets) - 1; i >= 0; i-- {
		resFo, resT = "("+g.lets[i].fo+", "+resFo+")", cgCon("*", g.lets[i].ty, resT)
	}
	sb.WriteString("  (ok, " + resFo + ")\n")
	var eqs []string
	for _, e := range g.eqs {
		eqs = append(eqs, vsx(e[0].sx(), e[1].sx()))
	}
	resTy := cgCon("*", cgCon("bool"), resT)
	if annot != "" {
		eqs = append(eqs, vsx(resTy.sx(), resGround.sx()))
	}
	return sb.String(), vsx("c02.graph", strconv.Itoa(np), vsx(eqs...), resTy.sx(), vsxStr(sb.String())), np
}

var c02TParam = regexp.MustCompile(`^T(\d+)$`)

// a Go type expression as a type term
func c02GoTy(e ast.Expr) string {
	switch x := e.(type) {
	case *ast.Ident:
		if m := c02TParam.FindStringSubmatch(x.Name); m != nil {
			return vsx("v", m[1])
		}
		return vsx("c", x.Name)
	case *ast.ArrayType:
		return vsx("c", "[]", c02GoTy(x.Elt))
	case *ast.IndexListExpr:
		if id, ok := x.X.(*ast.Ident); ok {
			parts := []string{"c", id.Name}
			for _, a := range x.Indices {
				parts = append(parts, c02GoTy(a))
			}
			return vsx(parts...)
		}
		if se, ok := x.X.(*ast.SelectorExpr); ok && strings.HasPrefix(se.Sel.Name, "Tuple") {
			parts := []string{"c", "*"}
			for _, a := range x.Indices {
				parts = append(parts, c02GoTy(a))
			}
			return vsx(parts...)
		}
	case *ast.IndexExpr:
		if id, ok := x.X.(*ast.Ident); ok {
			return vsx("c", id.Name, c02GoTy(x.Index))
		}
		if se, ok := x.X.(*ast.SelectorExpr); ok && strings.HasPrefix(se.Sel.Name, "Tuple") {
			return vsx("c", "*", c02GoTy(x.Index))
		}
	case *ast.ParenExpr:
		return c02GoTy(x.X)
	case *ast.FuncType:
		parts := []string{"c", "->"}
		for _, fl := range x.Params.List {
			k := len(fl.Names)
			if k == 0 {
				k = 1
			}
			for i := 0; i < k; i++ {
				parts = append(parts, c02GoTy(fl.Type))
			}
		}
		if x.Results != nil {
			for _, fl := range x.Results.List {
				parts = append(parts, c02GoTy(fl.Type))
			}
		}
		return vsx(parts...)
	}
	return "(unreadable)"
}

// (sig n (p ty…) (r ty)) of a function of the emitted Go
func c02GoSig(goSrc string, name string) string {
	f, err := parser.ParseFile(tokenFset(), "gen.go", goSrc, parser.SkipObjectResolution)
	if err != nil {
		return "(go-syntax-error)"
	}
	for _, d := range f.Decls {
		fd, ok := d.(*ast.FuncDecl)
		if !ok || fd.Name.Name != name {
			continue
		}
		n := 0
		if fd.Type.TypeParams != nil {
			for _, fl := range fd.Type.TypeParams.List {
				n += len(fl.Names)
			}
		}
		ps := []string{"p"}
		for _, fl := range fd.Type.Params.List {
			k := len(fl.Names)
			if k == 0 {
				k = 1
			}
			for i := 0; i < k; i++ {
				ps = append(ps, c02GoTy(fl.Type))
			}
		}
		rs := []string{"r"}
		if fd.Type.Results != nil {
			for _, fl := range fd.Type.Results.List {
				rs = append(rs, c02GoTy(fl.Type))
			}
		}
		return vsx("sig", strconv.Itoa(n), vsx(ps...), vsx(rs...))
	}
	return "(no-such-function)"
}

func vC02Graph(seed int64, count int, extra []string) {
	if vFoiSrc == "" {
		vTranspilePkg("package main\n")
	}
	for i := 0; i < count; i++ {
		r := rand.New(rand.NewSource(seed*7919 + int64(i)))
		name := fmt.Sprintf("g%d", i)
		body, oin, np := c02GraphGen(r, name)
		src := "package main\n\nimport frt\nimport slice\n\ntype Pr<A, B> = {PA: A; PB: B}\n\ntype Opt<T> =\n  | Som of T\n  | Non\n\nlet idInt (a:int) =\n  a\n\nlet tagStr (n:int) (s:string) =\n  (n, s)\n\nlet dup x =\n  (x, x)\n\nlet tagAny a b =\n  (a, b)\n\nlet pick (c:bool) a b =\n  if c then a else b\n\n" + body
		goSrc, err := vTranspilePkg(src)
		vstat("graphs")
		vstat("params." + strconv.Itoa(np))
		if err != "" {
			// solvable by construction: a rejection is reported against the oracle's answer too
			vEmitIO(oin, vsx("rejected", vsxStr(err)))
			continue
		}
		vEmitIO(oin, c02GoSig(goSrc, name))
	}
}
