package main

// C02 stream c02.graph: random CONSTRAINT GRAPHS.  A function with un-annotated parameters whose body
// is made of expressions that each impose type equations (slice literals, tuples, equality,
// slice.Head / slice.Last / frt.Fst / frt.Snd, literals); the equations are collected here,
// independently of fc, while the expression is built.  They are solvable by construction (a hidden
// ground typing of the parameters satisfies them) but the ground typing is usually NOT the most
// general one.  The Lean reference unifier (Model/Unify.lean; proved to return a most general
// unifier) computes the principal signature; the Go signature the real compiler emits, read back
// with go/parser, must be exactly that: concrete where the body determines a type, T0, T1, … by
// first occurrence where it does not.

import (
	"fmt"
	"go/ast"
	"go/parser"
	"math/rand"
	"regexp"
	"strconv"
	"strings"
)

// type terms: variables and constructors, as S-expressions for the oracle
type cgTy struct {
	v    string // variable name, or ""
	head string
	args []*cgTy
}

func (t *cgTy) sx() string {
	if t.v != "" {
		return vsx("v", t.v)
	}
	parts := []string{"c", t.head}
	for _, a := range t.args {
		parts = append(parts, a.sx())
	}
	return vsx(parts...)
}

func cgCon(h string, args ...*cgTy) *cgTy { return &cgTy{head: h, args: args} }
func cgVar(n string) *cgTy               { return &cgTy{v: n} }

// ground types (the hidden typing): g<i> is an opaque generic
func (t *cgTy) eq(u *cgTy) bool {
	if t.v != "" || u.v != "" {
		return t.v == u.v
	}
	if t.head != u.head || len(t.args) != len(u.args) {
		return false
	}
	for i := range t.args {
		if !t.args[i].eq(u.args[i]) {
			return false
		}
	}
	return true
}

type cgExpr struct {
	fo     string
	ty     *cgTy // type term over P<i> and fresh variables
	ground *cgTy
	eqs    [][2]*cgTy // the equations this expression (with its sub-expressions) imposes
	once   bool       // contains the application of a function-typed parameter: may be written once
}

func cgHasFunc(t *cgTy) bool {
	if t.v != "" {
		return false
	}
	if t.head == "->" {
		return true
	}
	for _, a := range t.args {
		if cgHasFunc(a) {
			return true
		}
	}
	return false
}

func cgJoin(parts ...[][2]*cgTy) [][2]*cgTy {
	var out [][2]*cgTy
	for _, p := range parts {
		out = append(out, p...)
	}
	return out
}

type cgGraph struct {
	r      *rand.Rand
	params []*cgExpr
	eqs    [][2]*cgTy
	fresh  int
	pool   []*cgExpr // expressions built so far
	pre    []string  // destructuring lets, in order
	used   map[*cgExpr]bool // function-typed parameters already applied (they are applied once)
}

// an expression that may be written once leaves the pool when it is written
func (g *cgGraph) take(e *cgExpr) {
	if !e.once {
		return
	}
	for i, x := range g.pool {
		if x == e {
			g.pool = append(g.pool[:i:i], g.pool[i+1:]...)
			return
		}
	}
}

func (g *cgGraph) add(e *cgExpr, from ...*cgExpr) {
	for _, f := range from {
		if f.once {
			e.once = true
		}
		g.take(f)
	}
	g.pool = append(g.pool, e)
}

func (g *cgGraph) newVar() *cgTy { g.fresh++; return cgVar("F" + strconv.Itoa(g.fresh)) }

func (g *cgGraph) groundType(depth int) *cgTy {
	k := g.r.Intn(10)
	switch {
	case depth <= 0 || k < 5:
		switch g.r.Intn(6) {
		case 0:
			return cgCon("int")
		case 1:
			return cgCon("string")
		case 2:
			return cgCon("bool")
		default:
			return cgVar("g" + strconv.Itoa(g.r.Intn(3)))
		}
	case k < 8:
		return cgCon("[]", g.groundType(depth-1))
	default:
		return cgCon("*", g.groundType(depth-1), g.groundType(depth-1))
	}
}

// candidates of a given ground type among the pool
func (g *cgGraph) ofGround(t *cgTy) []*cgExpr {
	var out []*cgExpr
	for _, e := range g.pool {
		if e.ground.eq(t) {
			out = append(out, e)
		}
	}
	return out
}

// grow the pool by one derived expression; returns false when nothing applied
func (g *cgGraph) derive() bool {
	e := g.pool[g.r.Intn(len(g.pool))]
	switch g.r.Intn(10) {
	case 7: // destructuring let of something that is (ground) a pair
		if e.ground.v != "" || e.ground.head != "*" {
			return false
		}
		a, b := g.newVar(), g.newVar()
		n := len(g.pre)
		g.pre = append(g.pre, fmt.Sprintf("let (d%da, d%db) = %s", n, n, e.fo))
		g.eqs = append(g.eqs, cgJoin(e.eqs, [][2]*cgTy{{e.ty, cgCon("*", a, b)}})...)
		g.take(e)
		g.pool = append(g.pool, &cgExpr{fo: fmt.Sprintf("d%da", n), ty: a, ground: e.ground.args[0]}, &cgExpr{fo: fmt.Sprintf("d%db", n), ty: b, ground: e.ground.args[1]})
	case 8, 9: // application of a function-typed parameter (once)
		if e.ground.v != "" || e.ground.head != "->" || g.used[e] {
			return false
		}
		c := g.ofGround(e.ground.args[0])
		if len(c) == 0 {
			return false
		}
		o := c[g.r.Intn(len(c))]
		g.used[e] = true
		f := g.newVar()
		g.add(&cgExpr{fo: "(" + e.fo + " " + o.fo + ")", ty: f, ground: e.ground.args[1], eqs: cgJoin(e.eqs, o.eqs, [][2]*cgTy{{e.ty, cgCon("->", o.ty, f)}}), once: true}, o)
	case 0: // slice literal of two expressions with the same ground type
		c := g.ofGround(e.ground)
		o := c[g.r.Intn(len(c))]
		if o == e && e.once {
			return false
		}
		g.add(&cgExpr{fo: "[" + e.fo + "; " + o.fo + "]", ty: cgCon("[]", e.ty), ground: cgCon("[]", e.ground), eqs: cgJoin(e.eqs, o.eqs, [][2]*cgTy{{e.ty, o.ty}})}, e, o)
	case 1: // singleton slice
		g.add(&cgExpr{fo: "[" + e.fo + "]", ty: cgCon("[]", e.ty), ground: cgCon("[]", e.ground), eqs: e.eqs}, e)
	case 2: // pair
		o := g.pool[g.r.Intn(len(g.pool))]
		if o == e && e.once {
			return false
		}
		g.add(&cgExpr{fo: "(" + e.fo + ", " + o.fo + ")", ty: cgCon("*", e.ty, o.ty), ground: cgCon("*", e.ground, o.ground), eqs: cgJoin(e.eqs, o.eqs)}, e, o)
	case 3, 4: // slice.Head / slice.Last of something that is (ground) a slice
		if e.ground.v != "" || e.ground.head != "[]" {
			return false
		}
		f := g.newVar()
		fn := []string{"slice.Head", "slice.Last"}[g.r.Intn(2)]
		g.add(&cgExpr{fo: "(" + fn + " " + e.fo + ")", ty: f, ground: e.ground.args[0], eqs: cgJoin(e.eqs, [][2]*cgTy{{e.ty, cgCon("[]", f)}})}, e)
	case 5, 6: // frt.Fst / frt.Snd of something that is (ground) a pair
		if e.ground.v != "" || e.ground.head != "*" {
			return false
		}
		a, b := g.newVar(), g.newVar()
		qs := cgJoin(e.eqs, [][2]*cgTy{{e.ty, cgCon("*", a, b)}})
		if g.r.Intn(2) == 0 {
			g.add(&cgExpr{fo: "(frt.Fst " + e.fo + ")", ty: a, ground: e.ground.args[0], eqs: qs}, e)
		} else {
			g.add(&cgExpr{fo: "(frt.Snd " + e.fo + ")", ty: b, ground: e.ground.args[1], eqs: qs}, e)
		}
	}
	return true
}

// an equality between two pool expressions of one ground type
func (g *cgGraph) equality() (string, bool) {
	for try := 0; try < 20; try++ {
		e := g.pool[g.r.Intn(len(g.pool))]
		if cgHasFunc(e.ground) {
			continue
		}
		c := g.ofGround(e.ground)
		o := c[g.r.Intn(len(c))]
		if o == e && (len(c) > 1 || e.once) {
			continue
		}
		g.take(e)
		g.take(o)
		g.eqs = append(g.eqs, cgJoin(e.eqs, o.eqs, [][2]*cgTy{{e.ty, o.ty}})...)
		return "(" + e.fo + " = " + o.fo + ")", true
	}
	return "", false
}

func c02GraphGen(r *rand.Rand, name string) (fo string, oracleIn string, nparams int) {
	g := &cgGraph{r: r, used: map[*cgExpr]bool{}}
	np := 1 + r.Intn(5)
	var pnames []string
	for i := 0; i < np; i++ {
		p := &cgExpr{fo: fmt.Sprintf("p%d", i), ty: cgVar("P" + strconv.Itoa(i)), ground: g.groundType(2)}
		if r.Intn(3) == 0 {
			p.ground = cgCon("->", g.groundType(1), g.groundType(1))
		}
		g.params = append(g.params, p)
		g.pool = append(g.pool, p)
		pnames = append(pnames, p.fo)
	}
	// literals join the pool so that ground-int parameters can be pinned (or not)
	g.pool = append(g.pool, &cgExpr{fo: "1", ty: cgCon("int"), ground: cgCon("int")}, &cgExpr{fo: "\"s\"", ty: cgCon("string"), ground: cgCon("string")}, &cgExpr{fo: "true", ty: cgCon("bool"), ground: cgCon("bool")})
	for i := r.Intn(10); i > 0; i-- {
		g.derive()
	}
	var conj []string
	for i := 1 + r.Intn(4); i > 0; i-- {
		if s, ok := g.equality(); ok {
			conj = append(conj, s)
		}
	}
	if len(conj) == 0 {
		conj = []string{"true"}
	}
	res := g.pool[r.Intn(len(g.pool))]
	g.eqs = append(g.eqs, res.eqs...)
	var sb strings.Builder
	sb.WriteString("let " + name + " " + strings.Join(pnames, " ") + " =\n")
	for _, p := range g.pre {
		sb.WriteString("  " + p + "\n")
	}
	sb.WriteString("  let ok = " + strings.Join(conj, " && ") + "\n")
	sb.WriteString("  (ok, " + res.fo + ")\n")
	var eqs []string
	for _, e := range g.eqs {
		eqs = append(eqs, vsx(e[0].sx(), e[1].sx()))
	}
	resTy := cgCon("*", cgCon("bool"), res.ty)
	return sb.String(), vsx("c02.graph", strconv.Itoa(np), vsx(eqs...), resTy.sx(), vsxStr(sb.String())), np
}

var c02TParam = regexp.MustCompile(`^T(\d+)$`)

// a Go type expression as a type term
func c02GoTy(e ast.Expr) string {
	switch x := e.(type) {
	case *ast.Ident:
		if m := c02TParam.FindStringSubmatch(x.Name); m != nil {
			return vsx("v", m[1])
		}
		return vsx("c", x.Name)
	case *ast.ArrayType:
		return vsx("c", "[]", c02GoTy(x.Elt))
	case *ast.IndexListExpr:
		if se, ok := x.X.(*ast.SelectorExpr); ok && strings.HasPrefix(se.Sel.Name, "Tuple") {
			parts := []string{"c", "*"}
			for _, a := range x.Indices {
				parts = append(parts, c02GoTy(a))
			}
			return vsx(parts...)
		}
	case *ast.IndexExpr:
		if se, ok := x.X.(*ast.SelectorExpr); ok && strings.HasPrefix(se.Sel.Name, "Tuple") {
			return vsx("c", "*", c02GoTy(x.Index))
		}
	case *ast.ParenExpr:
		return c02GoTy(x.X)
	case *ast.FuncType:
		parts := []string{"c", "->"}
		for _, fl := range x.Params.List {
			k := len(fl.Names)
			if k == 0 {
				k = 1
			}
			for i := 0; i < k; i++ {
				parts = append(parts, c02GoTy(fl.Type))
			}
		}
		if x.Results != nil {
			for _, fl := range x.Results.List {
				parts = append(parts, c02GoTy(fl.Type))
			}
		}
		return vsx(parts...)
	}
	return "(unreadable)"
}

// (sig n (p ty…) (r ty)) of a function of the emitted Go
func c02GoSig(goSrc string, name string) string {
	f, err := parser.ParseFile(tokenFset(), "gen.go", goSrc, parser.SkipObjectResolution)
	if err != nil {
		return "(go-syntax-error)"
	}
	for _, d := range f.Decls {
		fd, ok := d.(*ast.FuncDecl)
		if !ok || fd.Name.Name != name {
			continue
		}
		n := 0
		if fd.Type.TypeParams != nil {
			for _, fl := range fd.Type.TypeParams.List {
				n += len(fl.Names)
			}
		}
		ps := []string{"p"}
		for _, fl := range fd.Type.Params.List {
			k := len(fl.Names)
			if k == 0 {
				k = 1
			}
			for i := 0; i < k; i++ {
				ps = append(ps, c02GoTy(fl.Type))
			}
		}
		rs := []string{"r"}
		if fd.Type.Results != nil {
			for _, fl := range fd.Type.Results.List {
				rs = append(rs, c02GoTy(fl.Type))
			}
		}
		return vsx("sig", strconv.Itoa(n), vsx(ps...), vsx(rs...))
	}
	return "(no-such-function)"
}

func vC02Graph(seed int64, count int, extra []string) {
	if vFoiSrc == "" {
		vTranspilePkg("package main\n")
	}
	for i := 0; i < count; i++ {
		r := rand.New(rand.NewSource(seed*7919 + int64(i)))
		name := fmt.Sprintf("g%d", i)
		body, oin, np := c02GraphGen(r, name)
		src := "package main\n\nimport frt\nimport slice\n\n" + body
		goSrc, err := vTranspilePkg(src)
		vstat("graphs")
		vstat("params." + strconv.Itoa(np))
		if err != "" {
			// solvable by construction: a rejection is reported against the oracle's answer too
			vEmitIO(oin, vsx("rejected", vsxStr(err)))
			continue
		}
		vEmitIO(oin, c02GoSig(goSrc, name))
	}
}
