package main

// C03 stream: generated record / union / function / variable declarations and package_info calls,
// transpiled by the real pipeline and compiled TOGETHER with generated hand-style Go: a client that
// uses the declarations by their documented names (struct fields, U / U_C / Value / New_U_C as
// function or variable, frt.TupleN, package funcs and vars) and implementations of the package_info
// functions.  The program's stdout is compared with what the documented representation implies.

import (
	"fmt"
	"go/ast"
	"go/parser"
	"go/token"
	"math/rand"
	"os"
	"path/filepath"
	"strconv"
	"strings"
)

type c03Ty struct {
	fo, goT string // Folang and Go spelling
	lit     string // a Go literal of that type
	show    string // fmt %v of that literal
	foLit   string // a Folang literal expression of that type
}

var c03Base = []c03Ty{
	{"int", "int", "7", "7", "7"},
	{"string", "string", `"s"`, "s", `"s"`},
	{"bool", "bool", "true", "true", "true"},
	{"[]int", "[]int", "[]int{1, 2}", "[1 2]", "[1; 2]"},
	{"int*string", "frt.Tuple2[int, string]", `frt.NewTuple2(3, "t")`, "{3 t}", `(3, "t")`},
	{"[]string", "[]string", `[]string{"a"}`, "[a]", `["a"]`},
}

type c03Rec struct {
	name    string
	generic bool
	fields  []string
	tys     []c03Ty
}
type c03Case struct {
	name    string
	payload *c03Ty
}
type c03Uni struct {
	name    string
	generic bool
	cases   []c03Case
}

func c03Gen(r *rand.Rand, k int) (fo string, client string, want string, unions []c03Uni, records []c03Rec) {
	var foB, cl, exp strings.Builder
	foB.WriteString(`package main

import frt
import "genprog/extpkg"

package_info _ =
  let ExtAdd: int->int->string
  let ExtShow<T>: T->string
  let ExtUnit: ()->int
  let ExtProc: string->()
  let ExtTriple: int->string->bool->string
  let ExtZero<T>: int->string->[]T
  let ExtConv<T, U>: int->string->T*U
  let ExtTag<L, T>: T->int->[]L
  let ExtLogger: string->string->(string->())
  let ExtPrinter: string->(string->())
  let ExtAdder: int->(int->int)
  let ExtNest: int->(int->(string->()))

package_info extpkg =
  type Counter
  let Twice: int->int
  let Join3: string->string->string->string
  let NewCounter: ()->Counter
  let Bump: Counter->int->int
  let Mk<T>: int->int->[]T
  let ExtAdd: int->string

`)
	cl.WriteString("package main\n\nimport (\n\t\"fmt\"\n\t\"genprog/extpkg\"\n\n\t\"github.com/karino2/folang/pkg/frt\"\n)\n\nvar _ = frt.Println\nvar _ = extpkg.Twice\n\nfunc main() {\n")
	// ---- records
	var recs []c03Rec
	types := append([]c03Ty{}, c03Base...)
	nrec := 1 + r.Intn(2)
	for i := 0; i < nrec; i++ {
		rc := c03Rec{name: fmt.Sprintf("Rec%d_%d", k, i), generic: r.Intn(3) == 0}
		nf := 1 + r.Intn(4)
		for j := 0; j < nf; j++ {
			fname := []string{"Alpha", "beta", "Gamma", "delta", "Eps"}[j] + strconv.Itoa(i) // distinct field sets per record
			rc.fields = append(rc.fields, fname)
			if rc.generic && j == 0 {
				rc.tys = append(rc.tys, c03Ty{"T", "T", "", "", ""})
			} else {
				rc.tys = append(rc.tys, types[r.Intn(len(types))])
			}
		}
		recs = append(recs, rc)
		// Folang declaration
		hdr := rc.name
		if rc.generic {
			hdr += "<T>"
		}
		var fs []string
		for j := range rc.fields {
			fs = append(fs, rc.fields[j]+": "+rc.tys[j].fo)
		}
		foB.WriteString("type " + hdr + " = {" + strings.Join(fs, "; ") + "}\n\n")
		// Go client: composite literal by the documented shape
		goName := rc.name
		if rc.generic {
			goName += "[string]"
		}
		var lits, shows []string
		for j := range rc.fields {
			t := rc.tys[j]
			if t.fo == "T" {
				t = c03Base[1]
			}
			lits = append(lits, rc.fields[j]+": "+t.lit)
			shows = append(shows, t.show)
		}
		cl.WriteString(fmt.Sprintf("\tr%d := %s{%s}\n\tfmt.Printf(\"%%v\\n\", r%d)\n", i, goName, strings.Join(lits, ", "), i))
		exp.WriteString("{" + strings.Join(shows, " ") + "}\n")
		if !rc.generic {
			// usable as a field / payload type of later declarations
			types = append(types, c03Ty{rc.name, rc.name, goName + "{" + strings.Join(lits, ", ") + "}", "{" + strings.Join(shows, " ") + "}", ""})
			// a Folang function building the record from parameters, in order
			var ps, inits, args []string
			for j := range rc.fields {
				ps = append(ps, fmt.Sprintf("(a%d: %s)", j, rc.tys[j].fo))
				inits = append(inits, fmt.Sprintf("%s=a%d", rc.fields[j], j))
				args = append(args, rc.tys[j].lit)
			}
			foB.WriteString(fmt.Sprintf("let mk%s %s =\n  {%s}\n\n", rc.name, strings.Join(ps, " "), strings.Join(inits, "; ")))
			cl.WriteString(fmt.Sprintf("\tfmt.Printf(\"%%v\\n\", mk%s(%s))\n", rc.name, strings.Join(args, ", ")))
			exp.WriteString("{" + strings.Join(shows, " ") + "}\n")
		}
	}
	// ---- generic records with several type parameters, built by Folang record literals: every type
	// parameter is instantiated on its own (concrete literal, generic let, inside a function body)
	foB.WriteString(`type GPair<A, B> = {GFst: A; GSnd: B}

type GTrip<A, B, C> = {GT1: A; GT2: B; GT3: C}

let mkGPair () =
  {GFst=7; GSnd="seven"}

let mkGGen a b =
  {GSnd=b; GFst=a}

let mkGTrip (x:int) =
  {GT3=true; GT1=x; GT2="t"}

let useGPair () =
  let p = {GFst="k"; GSnd=3}
  p.GSnd + 1

let swapGPair (p: GPair<int, string>) =
  {GFst=p.GSnd; GSnd=p.GFst}

`)
	// ---- a generic union with several type parameters: interface GRes[T, E], case structs
	// GRes_GOk[T, E] / GRes_GErr[T, E], constructors New_GRes_GOk[T, E] (functions: the union is generic)
	foB.WriteString(`type GRes<T, E> =
  | GOk of T
  | GErr of E
  | GNone

let mkGOk () =
  GOk<int, string> 5

let resToInt (r: GRes<int, string>) =
  match r with
  | GOk n -> n
  | GErr _ -> 0 - 1
  | GNone -> 0

`)
	cl.WriteString("\tvar gr GRes[int, string] = New_GRes_GErr[int, string](\"bad\")\n\tswitch v := gr.(type) {\n\tcase GRes_GOk[int, string]:\n\t\tfmt.Println(\"ok\", v.Value)\n\tcase GRes_GErr[int, string]:\n\t\tfmt.Println(\"err\", v.Value)\n\tcase GRes_GNone[int, string]:\n\t\tfmt.Println(\"none\")\n\t}\n")
	cl.WriteString("\tfmt.Println(resToInt(mkGOk()), resToInt(gr), resToInt(New_GRes_GNone[int, string]()))\n")
	exp.WriteString("err bad\n5 -1 0\n")
	cl.WriteString("\tvar gp GPair[int, string] = mkGPair()\n\tfmt.Println(gp.GFst, gp.GSnd)\n")
	cl.WriteString("\tvar gg GPair[string, bool] = mkGGen[string, bool](\"x\", true)\n\tfmt.Println(gg.GFst, gg.GSnd)\n")
	cl.WriteString("\tvar gt GTrip[int, string, bool] = mkGTrip(5)\n\tfmt.Println(gt.GT1, gt.GT2, gt.GT3, useGPair())\n")
	cl.WriteString("\tvar gs GPair[string, int] = swapGPair(gp)\n\tfmt.Println(gs.GFst, gs.GSnd)\n")
	exp.WriteString("7 seven\nx true\n5 t true 4\nseven 7\n")
	// ---- unions
	nun := 1 + r.Intn(2)
	for i := 0; i < nun; i++ {
		u := c03Uni{name: fmt.Sprintf("Uni%d_%d", k, i), generic: r.Intn(3) == 0}
		nc := 1 + r.Intn(4)
		for j := 0; j < nc; j++ {
			c := c03Case{name: []string{"Aa", "Bb", "Cc", "Dd"}[j]}
			switch r.Intn(3) {
			case 0: // no payload
			default:
				if u.generic && r.Intn(2) == 0 {
					c.payload = &c03Ty{"T", "T", "", "", ""}
				} else {
					t := types[r.Intn(len(types))]
					c.payload = &t
				}
			}
			u.cases = append(u.cases, c)
		}
		unions = append(unions, u)
		hdr := u.name
		if u.generic {
			hdr += "<T>"
		}
		foB.WriteString("type " + hdr + " =\n")
		for _, c := range u.cases {
			if c.payload == nil {
				foB.WriteString("  | " + c.name + "\n")
			} else {
				foB.WriteString("  | " + c.name + " of " + c.payload.fo + "\n")
			}
		}
		foB.WriteString("\n")
		inst := ""
		if u.generic {
			inst = "[string]"
		}
		for _, c := range u.cases {
			ctor := "New_" + u.name + "_" + c.name
			var expr string
			pl := c.payload
			if pl != nil && pl.fo == "T" {
				pl = &c03Base[1]
			}
			switch {
			case pl != nil && u.generic:
				if c.payload.fo == "T" {
					expr = ctor + "(" + pl.lit + ")" // T inferred as string
				} else {
					expr = ctor + "[string](" + pl.lit + ")"
				}
			case pl != nil:
				expr = ctor + "(" + pl.lit + ")"
			case u.generic:
				expr = ctor + "[string]()" // generic: a function even without payload
			default:
				expr = ctor // a package variable
			}
			cl.WriteString(fmt.Sprintf("\t{\n\t\tvar u %s%s = %s\n\t\tswitch v := u.(type) {\n", u.name, inst, expr))
			for _, c2 := range u.cases {
				cl.WriteString(fmt.Sprintf("\t\tcase %s_%s%s:\n", u.name, c2.name, inst))
				if c2.payload != nil {
					cl.WriteString(fmt.Sprintf("\t\t\tfmt.Printf(\"%s %%v\\n\", v.Value)\n", c2.name))
				} else {
					cl.WriteString(fmt.Sprintf("\t\t\t_ = v\n\t\t\tfmt.Println(\"%s\")\n", c2.name))
				}
			}
			cl.WriteString("\t\t}\n\t}\n")
			if pl != nil {
				exp.WriteString(c.name + " " + pl.show + "\n")
			} else {
				exp.WriteString(c.name + "\n")
			}
		}
	}
	// ---- top-level lets
	foB.WriteString(fmt.Sprintf("let topVar%d = %d\n\nlet topStr%d = \"hello\"\n\n", k, 40+k, k))
	foB.WriteString("let unitIn () =\n  7\n\nlet unitOut (s:string) =\n  frt.Println s\n\n")
	foB.WriteString("let add3 (a:int) (b:string) (c:bool) =\n  if c then\n    frt.Sprintf1 \"%d\" a + b\n  else\n    b\n\n")
	cl.WriteString(fmt.Sprintf("\tfmt.Println(topVar%d, topStr%d, unitIn(), add3(1, \"b\", true), add3(1, \"b\", false))\n\tunitOut(\"z\")\n", k, k))
	exp.WriteString(fmt.Sprintf("%d hello 7 1b b\nz\n", 40+k))
	// ---- package_info calls: every arity / piped / partial / explicitly instantiated
	foB.WriteString(`let callsFull () =
  ExtAdd 1 2

let callsPartial () =
  let f = ExtAdd 10
  f 5

let callsPiped () =
  3 |> ExtAdd 4

let callsComputed () =
  let f = ExtAdd (unitIn ())
  (f 5) + "/" + (8 |> ExtAdd (unitIn ()))

let callsExplicit () =
  ExtShow<int> 7

let callsInferred () =
  ExtShow "s"

let callsUnit () =
  ExtUnit ()

let callsProc () =
  ExtProc "p"

let callsTriple0 () =
  ExtTriple 1 "w" true

let callsTriple1 () =
  let g = ExtTriple 1
  g "x" true

let callsTriple2 () =
  let g = ExtTriple 2 "y"
  g false

let callsTriplePipe () =
  true |> ExtTriple 3 "z"

let callsPkg () =
  extpkg.Twice 21

let callsPkgSame () =
  extpkg.ExtAdd 6

let callsPkgPartial () =
  let j = extpkg.Join3 "a" "b"
  j "c"

let callsPkgPipe () =
  "r" |> extpkg.Join3 "p" "q"

let counter () =
  let c = extpkg.NewCounter ()
  extpkg.Bump c 5

let trip3 () =
  (7, "t", true)

let pair2 (a:int) =
  (a, "p")

let tagFull () =
  ExtTag<string> true 2

let tagPartial () =
  let t = ExtTag<bool> "x"
  t 3

let tagPiped () =
  1 |> ExtTag<int> 5

let fnFull () =
  ExtLogger "A" "b"

let fnPartialPiped () =
  ":" |> ExtLogger "B"

let fnBarePiped () =
  "C" |> ExtPrinter

let fnAdderPiped () =
  3 |> ExtAdder

let fnNestPiped () =
  4 |> ExtNest

let fnUse () =
  let l = "d" |> ExtPrinter
  l "e"
  let a = 5 |> ExtAdder
  a 6
`)
	// explicitly instantiated calls of generic package functions whose type parameter occurs only in
	// the RESULT (Go cannot infer it: the emitted call must carry the type arguments), in every call
	// form: full, partial (bound and called later), piped; unqualified and package-qualified; one and
	// two type parameters.  The type arguments are drawn per program.
	targs := []c03Ty{c03Base[0], c03Base[1], c03Base[2], c03Base[3], c03Base[5]}
	pick := func() c03Ty { return targs[r.Intn(len(targs))] }
	t1, t2, t3, t4, t5, t6, t7 := pick(), pick(), pick(), pick(), pick(), pick(), pick()
	foB.WriteString(fmt.Sprintf(`let xFull () =
  ExtZero<%s> 2 "a"

let xPartial () =
  let z = ExtZero<%s> 3
  z "b"

let xPiped () =
  "c" |> ExtZero<%s> 1

let xPkgFull () =
  extpkg.Mk<%s> 1 2

let xPkgPartial () =
  let m = extpkg.Mk<%s> 2
  m 3

let xPkgPiped () =
  4 |> extpkg.Mk<%s> 0

let xTwoPartial () =
  let q = ExtConv<%s, %s> 5
  q "k"

let xTwoPiped () =
  "v" |> ExtConv<%s, %s> 6

`, t1.fo, t2.fo, t3.fo, t4.fo, t5.fo, t6.fo, t7.fo, t1.fo, t2.fo, t7.fo))
	cl.WriteString("\tfmt.Printf(\"%T/%d %T/%d %T/%d\\n\", xFull(), len(xFull()), xPartial(), len(xPartial()), xPiped(), len(xPiped()))\n")
	cl.WriteString("\tfmt.Printf(\"%T/%d %T/%d %T/%d\\n\", xPkgFull(), len(xPkgFull()), xPkgPartial(), len(xPkgPartial()), xPkgPiped(), len(xPkgPiped()))\n")
	cl.WriteString("\tfmt.Printf(\"%T %T\\n\", xTwoPartial(), xTwoPiped())\n")
	exp.WriteString(fmt.Sprintf("[]%s/2 []%s/3 []%s/1\n", t1.goT, t2.goT, t3.goT))
	exp.WriteString(fmt.Sprintf("[]%s/3 []%s/5 []%s/4\n", t4.goT, t5.goT, t6.goT))
	exp.WriteString(fmt.Sprintf("frt.Tuple2[%s,%s] frt.Tuple2[%s,%s]\n", strings.ReplaceAll(t7.goT, " ", ""), strings.ReplaceAll(t1.goT, " ", ""), strings.ReplaceAll(t2.goT, " ", ""), strings.ReplaceAll(t7.goT, " ", "")))
	cl.WriteString("\tfmt.Println(callsFull(), callsPartial(), callsPiped(), callsExplicit(), callsInferred(), callsUnit())\n\tcallsProc()\n")
	cl.WriteString("\tfmt.Println(callsTriple0(), callsTriple1(), callsTriple2(), callsTriplePipe())\n")
	cl.WriteString("\tfmt.Println(callsPkg(), callsPkgPartial(), callsPkgPipe(), counter(), callsComputed(), callsPkgSame())\n")
	// tuples are frt.Tuple2 / frt.Tuple3 values with fields E0, E1, E2
	cl.WriteString("\tvar t3 frt.Tuple3[int, string, bool] = trip3()\n\tvar t2 frt.Tuple2[int, string] = pair2(9)\n\tfmt.Println(t3.E0, t3.E1, t3.E2, t2.E0, t2.E1)\n")
	// a PARTIAL explicit type-argument list: the leading type parameters are given, the rest is inferred by Go
	cl.WriteString("\tfmt.Printf(\"%T/%d %T/%d %T/%d\\n\", tagFull(), len(tagFull()), tagPartial(), len(tagPartial()), tagPiped(), len(tagPiped()))\n")
	// results that are functions (a parenthesised function type at the end of a signature is a Go func
	// VALUE that is returned): used from Go by the documented shape
	cl.WriteString("\tfnFull()(\"1\")\n\tfnPartialPiped()(\"2\")\n\tfnBarePiped()(\"3\")\n\tfmt.Println(fnAdderPiped()(10), fnUse())\n\tfnNestPiped()(1)(\"n\")\n}\n")
	exp.WriteString("ExtAdd(1,2) ExtAdd(10,5) ExtAdd(4,3) ExtShow(7) ExtShow(s) 99\nExtProc(p)\n")
	exp.WriteString("1/w/true 1/x/true 2/y/false 3/z/true\n")
	exp.WriteString("42 a+b+c p+q+r 105 ExtAdd(7,5)/ExtAdd(7,8) pkg.ExtAdd(6)\n")
	exp.WriteString("7 t true 9 p\n[]string/2 []bool/3 []int/1\n")
	exp.WriteString("log A b 1\nlog B : 2\nprint C 3\nprint d e\n13 11\nnest 4 1 n\n")
	return foB.String(), cl.String(), exp.String(), unions, recs
}

const c03Impl = `package main

import (
	"fmt"

	"github.com/karino2/folang/pkg/frt"
)

func ExtAdd(a int, b int) string       { return fmt.Sprintf("ExtAdd(%d,%d)", a, b) }
func ExtShow[T any](v T) string        { return fmt.Sprintf("ExtShow(%v)", v) }
func ExtUnit() int                     { return 99 }
func ExtProc(s string)                 { fmt.Printf("ExtProc(%s)\n", s) }
func ExtTriple(a int, b string, c bool) string { return fmt.Sprintf("%d/%s/%v", a, b, c) }
func ExtZero[T any](n int, s string) []T { return make([]T, n) }
func ExtConv[T any, U any](n int, s string) frt.Tuple2[T, U] { var t T; var u U; return frt.NewTuple2(t, u) }
func ExtTag[L any, T any](v T, n int) []L { return make([]L, n) }
func ExtLogger(a string, b string) func(string) { return func(c string) { fmt.Println("log", a, b, c) } }
func ExtPrinter(a string) func(string) { return func(c string) { fmt.Println("print", a, c) } }
func ExtAdder(a int) func(int) int     { return func(b int) int { return a + b } }
func ExtNest(a int) func(int) func(string) { return func(b int) func(string) { return func(c string) { fmt.Println("nest", a, b, c) } } }
`

const c03Pkg = `package extpkg

import "fmt"

// the same short name as the unprefixed ExtAdd of package main, another arity: a call is resolved by
// the name as written (qualified or not), whatever other package_info blocks declare
func ExtAdd(a int) string              { return fmt.Sprintf("pkg.ExtAdd(%d)", a) }

type Counter struct{ n *int }

func Twice(a int) int                  { return 2 * a }
func Join3(a, b, c string) string      { return a + "+" + b + "+" + c }
func NewCounter() Counter              { n := 100; return Counter{&n} }
func Bump(c Counter, k int) int        { *c.n += k; return *c.n }
func Mk[T any](a int, b int) []T       { return make([]T, a+b) }
`

// the declarations emitted for a union, read back with go/parser (same shape as Oracle.Decl.declSx)
func c03UnionDecls(goSrc string, u c03Uni) string {
	fset := token.NewFileSet()
	f, err := parser.ParseFile(fset, "gen.go", goSrc, 0)
	if err != nil {
		return vsx("goparse-err", vsxStr(err.Error()))
	}
	cut := func(n ast.Node) string { return goSrc[fset.Position(n.Pos()).Offset:fset.Position(n.End()).Offset] }
	found := map[string]string{}
	for _, d := range f.Decls {
		switch x := d.(type) {
		case *ast.GenDecl:
			for _, sp := range x.Specs {
				switch y := sp.(type) {
				case *ast.TypeSpec:
					switch t := y.Type.(type) {
					case *ast.InterfaceType:
						found[y.Name.Name] = vsx("iface", y.Name.Name)
					case *ast.StructType:
						parts := []string{"struct", y.Name.Name}
						for _, fl := range t.Fields.List {
							for _, n := range fl.Names {
								parts = append(parts, vsx(n.Name, vsxStr(cut(fl.Type))))
							}
						}
						found[y.Name.Name] = vsx(parts...)
					}
				case *ast.ValueSpec:
					if y.Type != nil {
						found[y.Names[0].Name] = vsx("var", y.Names[0].Name, cut(y.Type))
					}
				}
			}
		case *ast.FuncDecl:
			if x.Recv == nil {
				np := 0
				for _, p := range x.Type.Params.List {
					np += len(p.Names)
				}
				res := ""
				if x.Type.Results != nil && len(x.Type.Results.List) == 1 {
					res = cut(x.Type.Results.List[0].Type)
				}
				found[x.Name.Name] = vsx("func", x.Name.Name, strconv.Itoa(np), vsxStr(res))
			}
		}
	}
	parts := []string{found[u.name]}
	for _, c := range u.cases {
		parts = append(parts, found[u.name+"_"+c.name], found["New_"+u.name+"_"+c.name])
	}
	return vsx(parts...)
}

func vC03(seed int64, count int, extra []string) {
	workdir := extra[0]
	os.MkdirAll(filepath.Join(workdir, "extpkg"), 0o755)
	os.WriteFile(filepath.Join(workdir, "extpkg", "extpkg.go"), []byte(c03Pkg), 0o644)
	os.WriteFile(filepath.Join(workdir, "impl.go"), []byte(c03Impl), 0o644)
	r := rand.New(rand.NewSource(seed))
	for i := 0; i < count; i++ {
		fo, client, want, unions, records := c03Gen(r, i)
		goSrc, err := vTranspilePkg(fo)
		if err != "" {
			vViolation(map[string]any{"kind": "fc rejected valid declarations", "error": err, "program": fo})
			continue
		}
		// model correspondence: the struct declared for every record
		for _, rc := range records {
			tps := "()"
			if rc.generic {
				tps = "(T)"
			}
			var fs []string
			for j := range rc.fields {
				fs = append(fs, vsx(rc.fields[j], vsx("ty", vsxStr(rc.tys[j].goT))))
			}
			found := "(missing)"
			fset := token.NewFileSet()
			if f, err := parser.ParseFile(fset, "gen.go", goSrc, 0); err == nil {
				for _, d := range f.Decls {
					gd, ok := d.(*ast.GenDecl)
					if !ok {
						continue
					}
					for _, sp := range gd.Specs {
						ts, ok := sp.(*ast.TypeSpec)
						if !ok || ts.Name.Name != rc.name {
							continue
						}
						if st, ok := ts.Type.(*ast.StructType); ok {
							parts := []string{"struct", ts.Name.Name}
							ntp := 0
							if ts.TypeParams != nil {
								for _, fl := range ts.TypeParams.List {
									ntp += len(fl.Names)
								}
							}
							parts = append(parts, strconv.Itoa(ntp))
							for _, fl := range st.Fields.List {
								for _, n := range fl.Names {
									parts = append(parts, vsx(n.Name, vsxStr(goSrc[fset.Position(fl.Type.Pos()).Offset:fset.Position(fl.Type.End()).Offset])))
								}
							}
							found = vsx(parts...)
						}
					}
				}
			}
			vEmitIO(vsx("c03.record", rc.name, tps, vsx(fs...)), found)
			vstat("record-decls")
		}
		// model correspondence: declarations of every union
		for _, u := range unions {
			tps := "()"
			goTps := ""
			if u.generic {
				tps = "(T)"
				goTps = "[T]"
			}
			_ = goTps
			var cs []string
			for _, c := range u.cases {
				if c.payload == nil {
					cs = append(cs, vsx(c.name, "unit"))
				} else {
					cs = append(cs, vsx(c.name, vsx("ty", vsxStr(c.payload.goT))))
				}
			}
			vEmitIO(vsx("c03.union", u.name, tps, vsx(cs...)), c03UnionDecls(goSrc, u))
			vstat("union-decls")
		}
		os.WriteFile(filepath.Join(workdir, "client.go"), []byte(client), 0o644)
		stdout, berr := c01BuildRun(workdir, goSrc)
		vstat("programs")
		if berr != "" {
			vViolation(map[string]any{"kind": "hand-written Go relying on the documented representation does not compile or run", "detail": berr, "folang": fo, "client_go": client})
			continue
		}
		if stdout != want {
			vViolation(map[string]any{"kind": "program output differs from what the documented representation implies", "expected": want, "observed": stdout, "folang": fo, "client_go": client})
		}
	}
}
