package main

// C06 stream: one abstract program rendered under many layouts (independent random choices at every
// block, statement, arm and operator) must give byte-identical Go; and a statement indented less
// than its block must end that block (dedent test).

import (
	"math/rand"
	"strconv"
	"strings"
)

func c06Render(fs []*gfunc, l *glayout) string {
	var sb strings.Builder
	sb.WriteString(gPrelude)
	sb.WriteString(gHelperSrc())
	for _, f := range fs {
		sb.WriteString(l.between(""))
		sb.WriteString(f.src(l, nil) + "\n")
	}
	return sb.String()
}

// find a unit if-only statement with a multi-statement body directly inside a function body and
// return (function index, statement index)
func c06FindIfOnly(fs []*gfunc) (int, int) {
	for fi, f := range fs {
		if f.body.op != "block" {
			continue
		}
		for si, s := range f.body.stmts {
			if s.kind == "do" && s.e.op == "ifonly" && s.e.kids[1].op == "block" && len(s.e.kids[1].stmts) >= 1 {
				return fi, si
			}
		}
	}
	return -1, -1
}

func vC06(seed int64, count int, extra []string) {
	nlay := 8
	if len(extra) > 0 {
		nlay, _ = strconv.Atoi(extra[0])
	}
	for i := 0; i < count; i++ {
		g := newGen(seed*7000003 + int64(i))
		fs := g.program("p" + strconv.Itoa(i))
		base := c06Render(fs, &glayout{plain: true})
		want, err := vTranspilePkg(base)
		if err != "" {
			vViolation(map[string]any{"kind": "fc rejected a valid program (canonical layout)", "error": err, "program": base})
			continue
		}
		vstat("programs")
		for k := 0; k < nlay; k++ {
			l := &glayout{r: rand.New(rand.NewSource(seed*31 + int64(i)*1009 + int64(k)))}
			src := c06Render(fs, l)
			got, err := vTranspilePkg(src)
			vstat("layouts")
			if err != "" {
				vViolation(map[string]any{"kind": "a re-layout that keeps the block structure is rejected", "error": err, "relayout": src, "canonical": base})
				break
			}
			if got != want {
				vViolation(map[string]any{"kind": "emitted Go changes under a re-layout that keeps the block structure", "relayout": src, "canonical": base})
				break
			}
		}
		// the file without its final end of line (and with blanks after the last token): same program
		for _, tail := range []string{"", "  ", "\n\n\n", " // end", "\n// end"} {
			src := strings.TrimRight(base, "\n") + tail
			got, err := vTranspilePkg(src)
			vstat("layouts.eof")
			if err != "" || got != want {
				vViolation(map[string]any{"kind": "the emitted Go depends on how the file ends (final end of line, blanks, comment)", "error": err, "ending": tail, "relayout": src})
				break
			}
		}
		// converse: dedent the last statement of an if-only body to the enclosing block's column
		if fi, si := c06FindIfOnly(fs); fi >= 0 {
			f := fs[fi]
			inner := f.body.stmts[si].e.kids[1]
			// text A: canonical rendering, then dedent the line(s) of the body's final expression
			marker := "frt.Println \"@dedent-marker@\""
			saveFinal := inner.kids[0]
			inner.kids[0] = &gnode{op: "println", t: tUnit, kids: []*gnode{{op: "str", s: "@dedent-marker@", t: tStr}}}
			inner.stmts = append(inner.stmts, &gstmt{kind: "do", e: saveFinal})
			// now inner = [...stmts, saveFinal] ; final = marker.  Dedent the marker line.
			txt := c06Render(fs, &glayout{plain: true})
			lines := strings.Split(txt, "\n")
			for j, ln := range lines {
				if strings.TrimSpace(ln) == marker {
					lines[j] = "  " + marker // the function body's column
				}
			}
			textA := strings.Join(lines, "\n")
			// abstract B: the marker moved out of the if-only body, right after the if statement
			inner.kids[0] = inner.stmts[len(inner.stmts)-1].e
			inner.stmts = inner.stmts[:len(inner.stmts)-1]
			moved := &gstmt{kind: "do", e: &gnode{op: "println", t: tUnit, kids: []*gnode{{op: "str", s: "@dedent-marker@", t: tStr}}}}
			ns := append(append(append([]*gstmt{}, f.body.stmts[:si+1]...), moved), f.body.stmts[si+1:]...)
			old := f.body.stmts
			f.body.stmts = ns
			textB := c06Render(fs, &glayout{plain: true})
			f.body.stmts = old
			ga, ea := vTranspilePkg(textA)
			gb, eb := vTranspilePkg(textB)
			vstat("dedent")
			if ea != "" || eb != "" || ga != gb {
				vViolation(map[string]any{"kind": "a line indented less than its block does not end that block", "dedented": textA, "moved_out": textB, "errors": []string{ea, eb}})
			}
		}
	}
}
