package main

// C06 stream c06.block: the offside scheme.  Random block structures are rendered as real Folang
// under random layouts (a different indentation for every block, blank lines, comment lines at any
// column, trailing blanks, arm bodies on the same or the next line).  For every layout
//   * the REAL tokenizer's tokens (kind abstracted to word / opener / eol / eof, column as computed by
//     tkzNext) go to the Lean offside model (Model/Offside.lean), whose reading must equal
//   * the block structure of the REAL parser's AST (every Block value, found by reflection), and
//   * both must equal the structure that was rendered (otherwise a direct violation: a layout of the
//     block structure is read differently).
// Dedent variants: the last statement of a nested block is moved left to the column of an enclosing
// block; it must then belong to that block.

import (
	"fmt"
	"math/rand"
	"reflect"
	"strconv"
	"strings"
)

type bItem struct {
	kind string // line | if | ifelse | matchU | matchS
	text string
	arms [][]*bItem // bodies, in order
}

type bGen struct {
	r *rand.Rand
	n int
}

func (g *bGen) line() *bItem {
	g.n++
	switch g.r.Intn(4) {
	case 0:
		return &bItem{kind: "line", text: fmt.Sprintf("let v%d = %d + %d", g.n, g.r.Intn(9), g.r.Intn(9))}
	case 1:
		return &bItem{kind: "line", text: fmt.Sprintf("frt.Printf1 \"%%d\\n\" %d", g.n)}
	default:
		return &bItem{kind: "line", text: fmt.Sprintf("frt.Println \"s%d\"", g.n)}
	}
}

// a unit-typed block: the last item is never a `let`
func (g *bGen) block(depth int) []*bItem {
	n := 1 + g.r.Intn(3)
	var out []*bItem
	for i := 0; i < n; i++ {
		var it *bItem
		k := g.r.Intn(10)
		switch {
		case depth <= 0 || k < 4:
			it = g.line()
		case k < 6:
			it = &bItem{kind: "if", text: g.cond(), arms: [][]*bItem{g.block(depth - 1)}}
		case k < 8:
			it = &bItem{kind: "ifelse", text: g.cond(), arms: [][]*bItem{g.block(depth - 1), g.block(depth - 1)}}
			if bEndsWithIfOnly(it.arms[0]) {
				g.n++
				it.arms[0] = append(it.arms[0], &bItem{kind: "line", text: fmt.Sprintf("frt.Println \"t%d\"", g.n)})
			}
		case k < 9 && g.r.Intn(2) == 0:
			// a union match that names every case (no default) / one case and a default; in a third of
			// the defaulted ones the last statement of the case arm is again an exhaustive union match,
			// directly followed by the OUTER default arm
			if g.r.Intn(2) == 0 {
				it = &bItem{kind: "matchU2", arms: [][]*bItem{g.block(depth - 1), g.block(depth - 1)}}
			} else {
				first := g.block(depth - 1)
				if g.r.Intn(3) == 0 {
					first = append(first, &bItem{kind: "matchU2", arms: [][]*bItem{g.block(depth - 2), g.block(depth - 2)}})
				}
				it = &bItem{kind: "matchUD", arms: [][]*bItem{first, g.block(depth - 1)}}
			}
		case k < 9:
			it = &bItem{kind: "matchU", arms: [][]*bItem{g.block(depth - 1), g.block(depth - 1), g.block(depth - 1)}}
		default:
			it = &bItem{kind: "matchS", arms: [][]*bItem{g.block(depth - 1), g.block(depth - 1)}}
		}
		out = append(out, it)
	}
	last := out[len(out)-1]
	if last.kind == "line" && strings.HasPrefix(last.text, "let ") {
		g.n++
		out = append(out, &bItem{kind: "line", text: fmt.Sprintf("frt.Println \"e%d\"", g.n)})
	}
	return out
}

// known finding D21: an `else` left of the enclosing block is taken by an inner if-without-else in
// tail position of the then-block (dangling else); the generator closes such a then-block with a line
func bEndsWithIfOnly(items []*bItem) bool {
	last := items[len(items)-1]
	if last.kind == "if" {
		return true
	}
	if len(last.arms) > 0 {
		return bEndsWithIfOnly(last.arms[len(last.arms)-1])
	}
	return false
}

func (g *bGen) cond() string {
	return []string{"true", "1 < 2", "s = \"a\"", "3 > 1 && true"}[g.r.Intn(4)]
}

func bShape(items []*bItem) string {
	var sb []string
	for _, it := range items {
		switch it.kind {
		case "line":
			sb = append(sb, "L")
		case "if", "ifelse":
			for _, a := range it.arms {
				sb = append(sb, "(B "+bShape(a)+")")
			}
		default:
			sb = append(sb, "L")
			for _, a := range it.arms {
				sb = append(sb, "(B "+bShape(a)+")")
			}
		}
	}
	return strings.Join(sb, " ")
}

type bLayout struct {
	r     *rand.Rand
	plain bool
}

func (l *bLayout) indent() int {
	if l.plain {
		return 2
	}
	return 1 + l.r.Intn(6)
}

// noise between two lines: blank lines, comment lines at any column
func (l *bLayout) between(out *[]string) {
	if l.plain {
		return
	}
	for l.r.Intn(4) == 0 {
		switch l.r.Intn(3) {
		case 0:
			*out = append(*out, "")
		case 1:
			*out = append(*out, strings.Repeat(" ", l.r.Intn(12)))
		default:
			*out = append(*out, strings.Repeat(" ", l.r.Intn(12))+"// note")
		}
	}
}

func (l *bLayout) trail() string {
	if l.plain {
		return ""
	}
	switch l.r.Intn(6) {
	case 0:
		return "  "
	case 1:
		return " // c"
	case 2:
		return " /* c */"
	}
	return ""
}

func (l *bLayout) emit(out *[]string, col int, text string) {
	*out = append(*out, strings.Repeat(" ", col)+text+l.trail())
}

// an opener line `head` at column col followed by its body; a single-line body may stay on the line
func (l *bLayout) opener(out *[]string, col int, head string, body []*bItem, sameLineOK bool) {
	if sameLineOK && !l.plain && len(body) == 1 && body[0].kind == "line" && l.r.Intn(3) == 0 {
		*out = append(*out, strings.Repeat(" ", col)+head+strings.Repeat(" ", 1+l.r.Intn(3))+body[0].text+l.trail())
		return
	}
	l.emit(out, col, head)
	l.block(out, col+l.indent(), body)
}

func (l *bLayout) block(out *[]string, col int, items []*bItem) {
	for _, it := range items {
		l.between(out)
		switch it.kind {
		case "line":
			l.emit(out, col, it.text)
		case "if":
			l.opener(out, col, "if "+it.text+" then", it.arms[0], false)
		case "ifelse":
			l.opener(out, col, "if "+it.text+" then", it.arms[0], false)
			l.between(out)
			l.opener(out, col, "else", it.arms[1], true)
		case "matchU":
			l.emit(out, col, "match s with")
			l.between(out)
			l.opener(out, col, "| \"x\" ->", it.arms[0], true)
			l.between(out)
			l.opener(out, col, "| \"y\" ->", it.arms[1], true)
			l.between(out)
			l.opener(out, col, "| other ->", it.arms[2], true)
		case "matchU2":
			l.emit(out, col, "match u with")
			l.between(out)
			l.opener(out, col, "| Ua ->", it.arms[0], true)
			l.between(out)
			l.opener(out, col, "| Ub n ->", it.arms[1], true)
		case "matchUD":
			l.emit(out, col, "match u with")
			l.between(out)
			l.opener(out, col, "| Ub _ ->", it.arms[0], true)
			l.between(out)
			l.opener(out, col, "| _ ->", it.arms[1], true)
		case "matchS":
			l.emit(out, col, "match s with")
			l.between(out)
			l.opener(out, col, "| \"a\" ->", it.arms[0], true)
			l.between(out)
			l.opener(out, col, "| _ ->", it.arms[1], true)
		}
	}
}

func bRender(funcs [][]*bItem, l *bLayout) string {
	out := []string{"package main", "", "import frt", ""}
	for i, f := range funcs {
		l.between(&out)
		l.emit(&out, 0, fmt.Sprintf("let f%d (u:U) (s:string) =", i))
		l.block(&out, l.indent(), f)
		out = append(out, "")
	}
	return strings.Join(out, "\n") + "\n"
}

func bWantShape(funcs [][]*bItem) string {
	sb := []string{"L", "L"}
	for _, f := range funcs {
		sb = append(sb, "(B "+bShape(f)+")")
	}
	return "(" + strings.Join(sb, " ") + ")"
}

// the real tokenizer's tokens, abstracted
func bTokens(src string) (string, bool) {
	var parts []string
	ok := true
	func() {
		defer func() {
			if r := recover(); r != nil {
				ok = false
			}
		}()
		type tk struct {
			kind string
			col  int
		}
		var toks []tk
		tkz := newTkz(src)
		toks = append(toks, tk{c11TokType(tkz.current.ttype), tkz.col})
		for i := 0; i < len(src)+2; i++ {
			if _, e := tkz.current.ttype.(TokenType_EOF); e {
				break
			}
			tkz = tkzNext(tkz)
			toks = append(toks, tk{c11TokType(tkz.current.ttype), tkz.col})
		}
		lineFirst := ""
		for i, t := range toks {
			if i == 0 || toks[i-1].kind == "EOL" {
				lineFirst = t.kind
			}
			k := "w"
			switch t.kind {
			case "EOL":
				k = "n"
			case "EOF":
				k = "e"
			case "THEN", "ELSE", "RARROW":
				k = "o"
			case "EQ":
				// the `=` of a function definition (last token of its line) opens a block; the `=` of a
				// one-line `let v = e` does not
				if i+1 < len(toks) && toks[i+1].kind == "EOL" && lineFirst == "LET" {
					k = "o"
				}
			}
			parts = append(parts, vsx(k, strconv.Itoa(t.col)))
		}
	}()
	return vsx(parts...), ok
}

var bBlockType = reflect.TypeOf(Block{})
var bMatchType = reflect.TypeOf(MatchExpr{})
var bFTypeType = reflect.TypeOf((*FType)(nil)).Elem()

// the blocks below v, in field order, as shape items
func bWalk(v reflect.Value, depth int, out *[]string) {
	if depth > 80 || !v.IsValid() {
		return
	}
	t := v.Type()
	if t == bFTypeType {
		return
	}
	if t == bBlockType {
		*out = append(*out, "(B "+bBlockShape(v.Interface().(Block))+")")
		return
	}
	if t == bMatchType {
		*out = append(*out, "L")
	}
	switch v.Kind() {
	case reflect.Interface, reflect.Pointer:
		if !v.IsNil() {
			bWalk(v.Elem(), depth+1, out)
		}
	case reflect.Struct:
		for i := 0; i < v.NumField(); i++ {
			bWalk(v.Field(i), depth+1, out)
		}
	case reflect.Slice, reflect.Array:
		for i := 0; i < v.Len(); i++ {
			bWalk(v.Index(i), depth+1, out)
		}
	}
}

func bStmtShape(v reflect.Value) string {
	var items []string
	bWalk(v, 0, &items)
	if len(items) == 0 {
		return "L"
	}
	return strings.Join(items, " ")
}

func bBlockShape(b Block) string {
	var sb []string
	for _, s := range b.Stmts {
		sb = append(sb, bStmtShape(reflect.ValueOf(&s).Elem()))
	}
	sb = append(sb, bStmtShape(reflect.ValueOf(&b.FinalExpr).Elem()))
	return strings.Join(sb, " ")
}

func bRealShape(src string) (shape string, err string) {
	defer func() {
		if r := recover(); r != nil {
			err = fmt.Sprint(r)
			if err == "" {
				err = "panic"
			}
		}
	}()
	ps := vPkgState()
	// the union type comes from an earlier file of the same invocation (a type definition spans several
	// lines without being a block)
	psT, _ := parseAll(psSetNewSrc("package main\n\ntype U =\n| Ua\n| Ub of int\n\n", ps))
	ps3 := psSetNewSrc(src, psT)
	_, stmts := parseAll(ps3)
	var sb []string
	for _, s := range stmts {
		sb = append(sb, bStmtShape(reflect.ValueOf(&s).Elem()))
	}
	return "(" + strings.Join(sb, " ") + ")", ""
}

// candidates for the dedent variant: a nested block (last block of a compound statement) with >= 2
// items whose last two items are plain non-let lines, the compound statement not being the last item
// of its own block.  Returns the owner block, the index of the compound statement and the body.
func bDedentSites(items []*bItem, acc *[][3]any) {
	for i, it := range items {
		if len(it.arms) == 0 {
			continue
		}
		body := it.arms[len(it.arms)-1]
		n := len(body)
		if n >= 2 && body[n-1].kind == "line" && body[n-2].kind == "line" && !strings.HasPrefix(body[n-2].text, "let ") {
			*acc = append(*acc, [3]any{items, i, it})
		}
		for _, a := range it.arms {
			bDedentSites(a, acc)
		}
	}
}

func vC06Block(seed int64, count int, extra []string) {
	nlay := 6
	if len(extra) > 0 {
		nlay, _ = strconv.Atoi(extra[0])
	}
	if vFoiSrc == "" {
		vTranspilePkg("package main\n")
	}
	for i := 0; i < count; i++ {
		g := &bGen{r: rand.New(rand.NewSource(seed*9000011 + int64(i)))}
		nf := 1 + g.r.Intn(2)
		var funcs [][]*bItem
		for k := 0; k < nf; k++ {
			funcs = append(funcs, g.block(1+g.r.Intn(3)))
		}
		want := bWantShape(funcs)
		vstat("structures")
		for k := 0; k <= nlay; k++ {
			l := &bLayout{r: rand.New(rand.NewSource(seed*131 + int64(i)*977 + int64(k))), plain: k == 0}
			src := bRender(funcs, l)
			real, err := bRealShape(src)
			vstat("layouts")
			if err != "" {
				vViolation(map[string]any{"kind": "a layout of a block structure is rejected", "error": err, "source": src})
				break
			}
			if real != want {
				vViolation(map[string]any{"kind": "a layout of a block structure is read as a different structure", "rendered_structure": want, "parser_structure": real, "source": src})
				break
			}
			toks, ok := bTokens(src)
			if !ok {
				vViolation(map[string]any{"kind": "tokenizer panics on a layout", "source": src})
				break
			}
			vEmitIO(vsx("c06.block", toks), real)
		}
		// dedent: move the last line of a nested block left, to the column of the enclosing block
		var sites [][3]any
		for _, f := range funcs {
			bDedentSites(f, &sites)
		}
		if len(sites) > 0 {
			s := sites[g.r.Intn(len(sites))]
			it := s[2].(*bItem)
			body := it.arms[len(it.arms)-1]
			moved := body[len(body)-1]
			marker := "frt.Println \"@moved@\""
			saved := moved.text
			moved.text = marker
			// text A: canonical layout, the marker line dedented to the column of the compound statement
			txt := bRender(funcs, &bLayout{plain: true})
			lines := strings.Split(txt, "\n")
			ownerCol := -1
			for j, ln := range lines {
				if strings.TrimSpace(ln) == marker {
					// the compound statement's column = this line's column - 2 (plain layout indents by 2)
					ownerCol = len(ln) - len(strings.TrimLeft(ln, " ")) - 2
					lines[j] = strings.Repeat(" ", ownerCol) + marker
				}
			}
			textA := strings.Join(lines, "\n")
			// structure B: the marker is the statement after the compound statement in the owner block
			it.arms[len(it.arms)-1] = body[:len(body)-1]
			// expected shape: computed on a copy of the owner block with the marker inserted
			wantB := bWantShapeWithInsert(funcs, it)
			realA, errA := bRealShape(textA)
			it.arms[len(it.arms)-1] = body
			moved.text = saved
			vstat("dedent")
			if errA != "" || realA != wantB {
				vViolation(map[string]any{"kind": "a line indented less than its block does not end that block", "source": textA, "parser_structure": realA, "expected_structure": wantB, "error": errA})
			} else if toks, ok := bTokens(textA); ok {
				vEmitIO(vsx("c06.block", toks), realA)
			}
		}
	}
}

// shape of the program where one extra line statement follows the compound statement `after`
func bWantShapeWithInsert(funcs [][]*bItem, after *bItem) string {
	var shape func(items []*bItem) string
	shape = func(items []*bItem) string {
		var sb []string
		for _, it := range items {
			switch it.kind {
			case "line":
				sb = append(sb, "L")
			case "if", "ifelse":
				for _, a := range it.arms {
					sb = append(sb, "(B "+shape(a)+")")
				}
			default:
				sb = append(sb, "L")
				for _, a := range it.arms {
					sb = append(sb, "(B "+shape(a)+")")
				}
			}
			if it == after {
				sb = append(sb, "L")
			}
		}
		return strings.Join(sb, " ")
	}
	sb := []string{"L", "L"}
	for _, f := range funcs {
		sb = append(sb, "(B "+shape(f)+")")
	}
	return "(" + strings.Join(sb, " ") + ")"
}
