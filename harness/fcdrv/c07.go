package main

// C07 stream: metamorphic runs of the real compiler (in-process, one long-lived parse state per
// invocation as transpileFiles keeps it): permute independent definitions, drop unreferenced ones,
// cut the sequence into files; the Go of every top-level definition must stay the same up to the
// numbering of compiler temporaries _vN.

import (
	"fmt"
	"go/ast"
	"go/parser"
	"go/token"
	"math/rand"
	"regexp"
	"sort"
	"strconv"
	"strings"
)

// transpile several files with ONE parse state (pkg_all.foi first), like `fc pkg_all.foi a.fo b.fo`
func vTranspileFiles(srcs []string) (outs []string, err string) {
	return vTranspileFilesOpt(srcs, true)
}

// the same without pkg_all.foi (programs that use no library package)
func vTranspileFilesOpt(srcs []string, withFoi bool) (outs []string, err string) {
	defer func() {
		if r := recover(); r != nil {
			err = fmt.Sprint(r)
		}
	}()
	if _, e := vTranspilePkg("package main\n"); e != "" { // makes sure vFoiSrc is loaded
		return nil, e
	}
	resetUniqueTmpCounter()
	ps := initParse("")
	if withFoi {
		ps = vPkgState()
	}
	for _, s := range srcs {
		ps = psSetNewSrc(s, ps)
		var stmts []RootStmt
		ps, stmts = parseAll(ps)
		outs = append(outs, RootStmtsToGo(stmts))
	}
	return outs, ""
}

var c07Tmp = regexp.MustCompile(`_v[0-9]+`)

// per-declaration source text, temporaries renumbered by first occurrence
func c07Decls(goSrc string) map[string]string {
	res := map[string]string{}
	fset := token.NewFileSet()
	f, err := parser.ParseFile(fset, "gen.go", goSrc, 0)
	if err != nil {
		res["<parse-error>"] = err.Error()
		return res
	}
	for _, d := range f.Decls {
		name := ""
		switch x := d.(type) {
		case *ast.FuncDecl:
			name = "func " + x.Name.Name
			if x.Recv != nil && len(x.Recv.List) > 0 {
				name = "method " + x.Name.Name + fmt.Sprint(fset.Position(x.Pos()).Line) // methods of union cases: keyed below by text
			}
		case *ast.GenDecl:
			if x.Tok == token.IMPORT {
				continue
			}
			for _, sp := range x.Specs {
				switch y := sp.(type) {
				case *ast.TypeSpec:
					name = "type " + y.Name.Name
				case *ast.ValueSpec:
					name = "var " + y.Names[0].Name
				}
			}
		}
		txt := goSrc[fset.Position(d.Pos()).Offset:fset.Position(d.End()).Offset]
		seen := map[string]string{}
		txt = c07Tmp.ReplaceAllStringFunc(txt, func(m string) string {
			if _, ok := seen[m]; !ok {
				seen[m] = "_v#" + strconv.Itoa(len(seen)+1)
			}
			return seen[m]
		})
		if strings.HasPrefix(name, "method ") {
			name = "method " + txt
		}
		res[name] = txt
	}
	return res
}

func c07Merge(ms ...map[string]string) map[string]string {
	r := map[string]string{}
	for _, m := range ms {
		for k, v := range m {
			r[k] = v
		}
	}
	return r
}

func c07Compare(kind string, base, other map[string]string, only func(string) bool, srcBase, srcOther string) bool {
	keys := []string{}
	for k := range base {
		keys = append(keys, k)
	}
	sort.Strings(keys)
	for _, k := range keys {
		if only != nil && !only(k) {
			continue
		}
		if other[k] != base[k] {
			vViolation(map[string]any{"kind": kind, "declaration": k, "baseline_go": base[k], "variant_go": other[k], "baseline_source": srcBase, "variant_source": srcOther})
			return false
		}
	}
	return true
}

// ---- scoping units: declarations whose BOUND names (type parameters, type names declared inside a
// package_info block) are drawn from the same small pool as the names of user types.  A unit never
// references another unit, so every arrangement must leave each unit's Go unchanged.
type c07Unit struct {
	src    string
	decls  []string // Go declarations it owns ("type X", "func f")
	after  int      // index of the unit this one must follow (its only reference), or -1
	deps   []int    // further units it refers to (must follow them; part of its minimal program)
	before []int    // units it must precede (ordering only: what it means depends on what stands before it)
}

var c07Pool = []string{"T", "U", "V", "K", "S", "Dict", "Buffer", "Item"}

func c07Units(g *ggen, i int) []c07Unit {
	var us []c07Unit
	perm := g.r.Perm(len(c07Pool))
	nUser := 1 + g.r.Intn(2)
	for j := 0; j < nUser; j++ {
		n := c07Pool[perm[j]]
		id := fmt.Sprintf("%d_%d", i, j)
		us = append(us, c07Unit{
			src:   fmt.Sprintf("type %s = {X%s: int; Y%s: int}\n\n", n, id, id),
			decls: []string{"type " + n}, after: -1,
		})
		// the use of the type is a separate unit: other declarations may stand between the two
		us = append(us, c07Unit{
			src:   fmt.Sprintf("let norm%s (v:%s) =\n  v.X%s + v.Y%s\n\n", id, n, id, id),
			decls: []string{"func norm" + id}, after: len(us) - 1,
		})
	}
	if g.r.Intn(2) == 0 {
		// two record types with ONE field-name set and unqualified literals of that shape: a literal
		// means the alphabetically first such type declared BEFORE it, so each literal keeps its place
		// relative to the two types while everything else moves around it
		id := fmt.Sprintf("%d", i)
		t1 := len(us)
		us = append(us, c07Unit{src: fmt.Sprintf("type Zed%s = {P%s: int; Q%s: int}\n\n", id, id, id), decls: []string{"type Zed" + id}, after: -1})
		f1 := len(us)
		us = append(us, c07Unit{src: fmt.Sprintf("let mkFirst%s () =\n  {P%s=1; Q%s=2}\n\n", id, id, id), decls: []string{"func mkFirst" + id}, after: t1})
		t2 := len(us)
		us = append(us, c07Unit{src: fmt.Sprintf("type Abe%s = {P%s: int; Q%s: int}\n\n", id, id, id), decls: []string{"type Abe" + id}, after: -1})
		us[f1].before = []int{t2}
		us = append(us, c07Unit{src: fmt.Sprintf("let mkSecond%s () =\n  {P%s=3; Q%s=4}\n\n", id, id, id), decls: []string{"func mkSecond" + id}, after: t1, deps: []int{t2}})
	}
	pick := func() string { return c07Pool[g.r.Intn(len(c07Pool))] }
	nOther := 1 + g.r.Intn(3)
	for j := 0; j < nOther; j++ {
		id := fmt.Sprintf("%d_%d", i, j)
		switch g.r.Intn(5) {
		case 3: // UNPREFIXED package_info with generic declarations: their type parameters are bound names
			p1 := pick()
			p2 := pick()
			for p2 == p1 {
				p2 = pick()
			}
			us = append(us, c07Unit{
				src:   fmt.Sprintf("package_info _ =\n  let Lookup%s<%s, %s>: %s->%s->int\n  let Wrap%s<%s>: %s->[]%s\n\nlet useLookup%s () =\n  Lookup%s 1 \"a\"\n\n", id, p1, p2, p1, p2, id, p1, p1, p1, id, id),
				decls: []string{"func useLookup" + id}, after: -1,
			})
		case 4: // the same in a named package
			p1 := pick()
			us = append(us, c07Unit{
				src:   fmt.Sprintf("package_info gen%s =\n  let Conv%s<%s>: %s->int\n\nlet useConv%s () =\n  gen%s.Conv%s \"c\"\n\n", id, id, p1, p1, id, id, id),
				decls: []string{"func useConv" + id}, after: -1,
			})
		case 0: // generic record
			p1 := pick()
			p2 := pick()
			for p2 == p1 {
				p2 = pick()
			}
			us = append(us, c07Unit{
				src:   fmt.Sprintf("type Entry%s<%s, %s> = {Key%s: %s; Val%s: %s}\n\nlet mkEntry%s (a:int) (b:string) =\n  {Key%s=a; Val%s=b}\n\n", id, p1, p2, id, p1, id, p2, id, id, id),
				decls: []string{"type Entry" + id, "func mkEntry" + id}, after: -1,
			})
		case 1: // generic union
			p1 := pick()
			us = append(us, c07Unit{
				src:   fmt.Sprintf("type Opt%s<%s> =\n  | Som%s of %s\n  | Non%s\n\nlet mkOpt%s (a:int) =\n  Som%s a\n\n", id, p1, id, p1, id, id, id),
				decls: []string{"type Opt" + id, "type Opt" + id + "_Som" + id, "type Opt" + id + "_Non" + id, "func mkOpt" + id, "func New_Opt" + id + "_Som" + id, "func New_Opt" + id + "_Non" + id}, after: -1,
			})
		default: // package_info declaring a type name of the pool
			p1 := pick()
			us = append(us, c07Unit{
				// keepExt shows the type the signatures resolved to (the package's, whatever else is called p1)
				src: fmt.Sprintf("package_info ext%s =\n  type %s\n  let Mk%s: ()->%s\n  let Use%s: %s->int\n\nlet useExt%s () =\n  ext%s.Use%s (ext%s.Mk%s ())\n\n", id, p1, id, p1, id, p1, id, id, id, id, id) +
					fmt.Sprintf("let keepExt%s () =\n  ext%s.Mk%s ()\n\n", id, id, id),
				decls: []string{"func useExt" + id, "func keepExt" + id}, after: -1,
			})
			if g.r.Intn(2) == 0 {
				// a root VALUE that is a lambda whose parameter is spelled like that package: the
				// parameter is bound inside the lambda only, wherever the definition stands
				us = append(us, c07Unit{
					src:   fmt.Sprintf("let shadow%s = fun ext%s -> ext%s + 1\n\n", id, id, id),
					decls: []string{"var shadow" + id}, after: -1,
				})
			}
		}
	}
	return us
}

func c07Scoping(g *ggen, i int) {
	us := c07Units(g, i)
	head := "package main\n\n"
	render := func(order []int) string {
		var sb strings.Builder
		sb.WriteString(head)
		for _, k := range order {
			sb.WriteString(us[k].src)
		}
		return sb.String()
	}
	owner := map[string]int{}
	for k, u := range us {
		for _, d := range u.decls {
			owner[d] = k
		}
	}
	// reference: every unit translated ALONE
	alone := map[string]string{}
	for k := range us {
		minimal := []int{k}
		if us[k].after >= 0 {
			minimal = []int{us[k].after, k}
		}
		if len(us[k].deps) > 0 {
			minimal = append(append([]int{us[k].after}, us[k].deps...), k)
		}
		o, e := vTranspileFilesOpt([]string{render(minimal)}, false)
		if e != "" {
			vViolation(map[string]any{"kind": "fc rejected a valid program", "error": e, "program": render(minimal)})
			return
		}
		for d, txt := range c07Decls(o[0]) {
			if _, ok := owner[d]; ok {
				alone[d] = txt
			}
		}
	}
	vstat("scoping.programs")
	for v := 0; v < 4; v++ {
		order := g.r.Perm(len(us))
		// a unit follows the unit it refers to
		for changed := true; changed; {
			changed = false
			pos := map[int]int{}
			for p, k := range order {
				pos[k] = p
			}
			for k, u := range us {
				var must []int // units that have to stand before k
				if u.after >= 0 {
					must = append(must, u.after)
				}
				must = append(must, u.deps...)
				for _, d := range must {
					if pos[d] > pos[k] {
						order[pos[d]], order[pos[k]] = order[pos[k]], order[pos[d]]
						changed = true
						break
					}
				}
				if changed {
					break
				}
				for _, b := range u.before {
					if pos[b] < pos[k] {
						order[pos[b]], order[pos[k]] = order[pos[k]], order[pos[b]]
						changed = true
						break
					}
				}
				if changed {
					break
				}
			}
		}
		var srcs []string
		desc := ""
		if v == 3 && len(order) > 1 {
			// cut into two files
			cut := 1 + g.r.Intn(len(order)-1)
			srcs = []string{render(order[:cut]), render(order[cut:])}
			desc = "files"
		} else {
			srcs = []string{render(order)}
			desc = "one file"
		}
		outs, e := vTranspileFilesOpt(srcs, v == 2)
		if e != "" {
			vViolation(map[string]any{"kind": "an arrangement of independent definitions is rejected although each is accepted alone", "error": e, "arrangement": desc, "files": srcs})
			continue
		}
		got := map[string]string{}
		for _, o := range outs {
			for d, txt := range c07Decls(o) {
				got[d] = txt
			}
		}
		keys := make([]string, 0, len(alone))
		for d := range alone {
			keys = append(keys, d)
		}
		sort.Strings(keys)
		for _, d := range keys {
			if got[d] != alone[d] {
				vViolation(map[string]any{"kind": "a definition's Go depends on unrelated definitions around it (state left by other declarations leaks)", "declaration": d,
					"alone_go": alone[d], "arranged_go": got[d], "arrangement": desc, "files": srcs})
				break
			}
		}
		vstat("scoping.variant")
	}
}

func vC07(seed int64, count int, extra []string) {
	for i := 0; i < count*4; i++ {
		c07Scoping(newGen(seed*7000003+int64(i)), i)
	}
	head := gPrelude + gHelperSrc()
	for i := 0; i < count; i++ {
		g := newGen(seed*9000011 + int64(i))
		l := &glayout{plain: true}
		render := func(fs []*gfunc) string {
			var sb strings.Builder
			for _, f := range fs {
				sb.WriteString(f.src(l, nil) + "\n")
			}
			return sb.String()
		}
		fa := g.program("pa" + strconv.Itoa(i))
		fb := g.program("pb" + strconv.Itoa(i))
		a, b := render(fa), render(fb)
		ofA := func(k string) bool { return strings.HasPrefix(k, "func pa") }
		ofB := func(k string) bool { return strings.HasPrefix(k, "func pb") }
		s1 := head + a + b
		o1, e1 := vTranspileFiles([]string{s1})
		if e1 != "" {
			vViolation(map[string]any{"kind": "fc rejected a valid program", "error": e1, "program": s1})
			continue
		}
		base := c07Decls(o1[0])
		vstat("programs")
		// (a) swap two independent groups of definitions
		s2 := head + b + a
		if o2, e2 := vTranspileFiles([]string{s2}); e2 != "" {
			vViolation(map[string]any{"kind": "reordering independent definitions makes fc reject the program", "error": e2, "program": s2})
		} else {
			c07Compare("reordering unrelated definitions changes a definition's Go", base, c07Decls(o2[0]), nil, s1, s2)
		}
		vstat("variant.swap")
		// (b) drop the unreferenced group
		s3 := head + a
		if o3, e3 := vTranspileFiles([]string{s3}); e3 != "" {
			vViolation(map[string]any{"kind": "deleting unrelated definitions makes fc reject the program", "error": e3, "program": s3})
		} else {
			c07Compare("deleting unrelated definitions changes a definition's Go", base, c07Decls(o3[0]), ofA, s1, s3)
		}
		s3b := head + b
		if o3, e3 := vTranspileFiles([]string{s3b}); e3 == "" {
			c07Compare("deleting unrelated definitions changes a definition's Go", base, c07Decls(o3[0]), ofB, s1, s3b)
		}
		vstat("variant.drop")
		// (c) cut into files in dependency order: [types+helpers] [A] [B]
		imports := "package main\n\nimport frt\nimport slice\nimport strings\n\n"
		files := []string{head, imports + a, imports + b}
		if o4, e4 := vTranspileFiles(files); e4 != "" {
			vViolation(map[string]any{"kind": "splitting into files makes fc reject the program", "error": e4, "files": files})
		} else {
			c07Compare("splitting the package into files changes a definition's Go", base, c07Merge(c07Decls(o4[0]), c07Decls(o4[1]), c07Decls(o4[2])), nil, s1, strings.Join(files, "\n// ---- next file ----\n"))
		}
		vstat("variant.split")
		// (d) insert an unrelated type + function between the prelude and A
		ins := "type Extra" + strconv.Itoa(i) + " = {ea: int; eb: string}\n\nlet extraFn" + strconv.Itoa(i) + " (e: Extra" + strconv.Itoa(i) + ") =\n  e.ea + 1\n\n"
		s5 := head + ins + a + b
		if o5, e5 := vTranspileFiles([]string{s5}); e5 != "" {
			vViolation(map[string]any{"kind": "inserting an unrelated definition makes fc reject the program", "error": e5, "program": s5})
		} else {
			c07Compare("inserting an unrelated definition changes a definition's Go", base, c07Decls(o5[0]), nil, s1, s5)
		}
		vstat("variant.insert")
		// (e) a LONG unrelated history before A: the one parse state has processed many type groups with
		// forward references, many generic functions and many matches (every per-definition counter /
		// allocator has been used far more often than any single definition needs)
		if i < 2 {
			hist := c07LongHistory(g, i)
			s6 := head + hist + a + b
			if o6, e6 := vTranspileFiles([]string{s6}); e6 != "" {
				vViolation(map[string]any{"kind": "a long history of unrelated definitions makes fc reject a definition that is accepted without it", "error": e6, "program": s6})
			} else {
				c07Compare("a long history of unrelated definitions changes a definition's Go", base, c07Decls(o6[0]), func(k string) bool { return ofA(k) || ofB(k) }, s1, s6)
			}
			// the same history as a separate earlier file of the invocation
			files := []string{head, imports + hist, imports + a + b}
			if o7, e7 := vTranspileFiles(files); e7 != "" {
				vViolation(map[string]any{"kind": "a long earlier file of unrelated definitions makes fc reject a later file", "error": e7, "files": files})
			} else {
				c07Compare("a long earlier file of unrelated definitions changes a definition's Go", base, c07Decls(o7[2]), func(k string) bool { return ofA(k) || ofB(k) }, s1, strings.Join(files, "\n// ---- next file ----\n"))
			}
			vstat("variant.long-history")
		}
	}
}

// many unrelated definitions: mutually recursive type groups (3 forward references each), generic
// functions (3 undetermined parameters each), functions with matches and nested ifs (temporaries)
func c07LongHistory(g *ggen, i int) string {
	var sb strings.Builder
	ng := 40 + g.r.Intn(25)
	for k := 0; k < ng; k++ {
		p := fmt.Sprintf("L%d_%d", i, k)
		sb.WriteString(fmt.Sprintf("type %sA = {b: %sB; c: %sC; d: []%sD}\nand %sB = {x: int}\nand %sC =\n  | %sC0\n  | %sC1 of %sD\nand %sD = {y: string}\n\n", p, p, p, p, p, p, p, p, p, p))
	}
	nf := 40 + g.r.Intn(25)
	for k := 0; k < nf; k++ {
		sb.WriteString(fmt.Sprintf("let lgen%d_%d a b c =\n  (a, (b, c))\n\n", i, k))
	}
	// root-level VALUE definitions in a row (no function definition between them)
	nv := 30 + g.r.Intn(20)
	for k := 0; k < nv; k++ {
		sb.WriteString(fmt.Sprintf("let lval%d_%d = slice.Length (slice.Map (fun x -> x + %d) [%d; 2; 3])\n\n", i, k, k, k))
	}
	nm := 30 + g.r.Intn(20)
	for k := 0; k < nm; k++ {
		p := fmt.Sprintf("L%d_%d", i, k%ng)
		sb.WriteString(fmt.Sprintf("let lmat%d_%d (v: %sC) (n: int) =\n  let r = match v with\n          | %sC0 -> if n > 1 then n else 0\n          | %sC1 d -> n + 1\n  r + 1\n\n", i, k, p, p, p))
	}
	return sb.String()
}

// ---- the type-info key (stream c07.key)

func c07ParseFType(text string) (ft FType, ok bool) {
	defer func() {
		if r := recover(); r != nil {
			ok = false
		}
	}()
	if c15PS == nil {
		ps := initParse(c15Prelude)
		ps2, _ := parseAll(ps)
		c15PS = &ps2
	}
	r := parseType(psSetNewSrc(text, *c15PS))
	return r.E1, true
}

// generic instances name<arg…> with random type arguments (tuples, function types, nested generic
// instances, slices, unit): the real encodedKey vs the model's, and whether the Go texts of the
// arguments are in the class for which the key is PROVED injective (encodedKey_inj_balanced);
// directly: two different instances never share a key
func vC07Key(seed int64, count int, extra []string) {
	r := rand.New(rand.NewSource(seed))
	names := []string{"Pair", "Entry", "Res_x", "A_B", "A", "Opt", "frt.Tuple2", "Dict"}
	arity := map[string]int{}
	seen := map[string]string{}
	for i := 0; i < count; i++ {
		name := names[r.Intn(len(names))]
		n, fixed := arity[name]
		if !fixed {
			n = r.Intn(4)
			arity[name] = n // a type name has one arity
		}
		var targs []FType
		var hexes []string
		var texts []string
		for j := 0; j < n; j++ {
			t := c15Rand(r, 1+r.Intn(3), true)
			var o c15Out
			t.render(&o, 0, r, 2)
			ft, ok := c07ParseFType(o.text.String())
			if !ok {
				ft = New_FType_FInt
			}
			targs = append(targs, ft)
			texts = append(texts, FTypeToGo(ft))
			hexes = append(hexes, vsxStr(FTypeToGo(ft)))
			vstat("key.arg." + t.kind)
		}
		key := encodedKey(name, targs)
		vEmitIO(vsx("c07.key", vsxStr(name), vsx(hexes...)), vsx("key", vsxStr(key), "items"))
		vstat("key.arity" + strconv.Itoa(n))
		inst := name + "\x00" + strings.Join(texts, "\x00")
		if prev, ok := seen[key]; ok && prev != inst {
			vViolation(map[string]any{"kind": "two different generic instances share one type-info key", "key": key, "instance1": strings.Split(prev, "\x00"), "instance2": strings.Split(inst, "\x00")})
		}
		seen[key] = inst
	}
}
