package main

// C08 stream: chains of binary operators (with applied / parenthesised / negated operands and line
// breaks before operators) through the real parser and emitter; the grouping is read back from the
// emitted Go with go/parser and printed as a tree.

import (
	"fmt"
	"go/ast"
	"go/parser"
	"math/rand"
	"strconv"
	"strings"
)

// ---- abstract expressions

type c08E struct { // chain
	first c08T
	rest  []c08Item
}
type c08Item struct {
	eols int
	op   string
	t    c08T
}
type c08T struct { // term
	not   *c08T
	atoms []c08A // 1 = atom, >1 = application
}
type c08A struct {
	name  string
	paren *c08E
}

// the published table (property text), loosest first
var c08Rank = map[string]int{"|>": 1, "&&": 2, "||": 2, "<": 2, ">": 2, "<=": 2, ">=": 2, "=": 3, "<>": 3, "+": 4, "-": 4, "*": 5, "/": 5}
var c08Ops12 = []string{"&&", "||", "<", ">", "<=", ">=", "=", "<>", "+", "-", "*", "/"}

func (e c08E) sx() string {
	parts := []string{"chain", e.first.sx()}
	for _, it := range e.rest {
		parts = append(parts, vsx(strconv.Itoa(it.eols), it.op, it.t.sx()))
	}
	return vsx(parts...)
}
func (t c08T) sx() string {
	if t.not != nil {
		return vsx("not", t.not.sx())
	}
	if len(t.atoms) == 1 {
		return t.atoms[0].sx()
	}
	parts := []string{"app"}
	for _, a := range t.atoms {
		parts = append(parts, a.sx())
	}
	return vsx(parts...)
}
func (a c08A) sx() string {
	if a.paren != nil {
		return vsx("paren", a.paren.sx())
	}
	return a.name
}

// source text; `indent` is the column continuation lines are put at
func (e c08E) src(indent string) string {
	var sb strings.Builder
	sb.WriteString(e.first.src(indent))
	for _, it := range e.rest {
		if it.eols > 0 {
			sb.WriteString(strings.Repeat("\n", it.eols))
			sb.WriteString(indent)
		} else {
			sb.WriteString(" ")
		}
		sb.WriteString(it.op + " " + it.t.src(indent))
	}
	return sb.String()
}
func (t c08T) src(indent string) string {
	if t.not != nil {
		return "not " + t.not.src(indent)
	}
	parts := make([]string, len(t.atoms))
	for i, a := range t.atoms {
		parts[i] = a.src(indent)
	}
	return strings.Join(parts, " ")
}
func (a c08A) src(indent string) string {
	if a.paren != nil {
		return "(" + a.paren.src(indent) + ")"
	}
	return a.name
}

// ---- reference grouping straight from the published table (independent of the Lean model)

type c08Tree struct {
	op   string // "" for leaves
	l, r *c08Tree
	leaf string
}

func (t *c08Tree) sx() string {
	if t.op == "" {
		return t.leaf
	}
	return vsx("bin", t.op, t.l.sx(), t.r.sx())
}

// split at the LAST operator of minimal rank (left-associative), recursively
func c08RefGroup(operands []string, ops []string) *c08Tree {
	if len(ops) == 0 {
		return &c08Tree{leaf: operands[0]}
	}
	k := 0
	for i, o := range ops {
		if c08Rank[o] <= c08Rank[ops[k]] {
			k = i
		}
	}
	return &c08Tree{op: ops[k], l: c08RefGroup(operands[:k+1], ops[:k]), r: c08RefGroup(operands[k+1:], ops[k+1:])}
}

func (e c08E) ref() string {
	var operands, ops []string
	operands = append(operands, e.first.ref())
	for _, it := range e.rest {
		ops = append(ops, it.op)
		operands = append(operands, it.t.ref())
	}
	return c08RefGroup(operands, ops).sx()
}
func (t c08T) ref() string {
	if t.not != nil {
		return vsx("not", t.not.ref())
	}
	if len(t.atoms) == 1 {
		return t.atoms[0].ref()
	}
	parts := []string{"app"}
	for _, a := range t.atoms {
		parts = append(parts, a.ref())
	}
	return vsx(parts...)
}
func (a c08A) ref() string {
	if a.paren != nil {
		return a.paren.ref()
	}
	return a.name
}

// ---- reading the grouping back from emitted Go

func c08GoTree(e ast.Expr) string {
	switch x := e.(type) {
	case *ast.ParenExpr:
		return c08GoTree(x.X)
	case *ast.BinaryExpr:
		op := x.Op.String()
		return vsx("bin", op, c08GoTree(x.X), c08GoTree(x.Y))
	case *ast.Ident:
		return x.Name
	case *ast.BasicLit:
		return x.Value
	case *ast.CallExpr:
		fn := ""
		if se, ok := x.Fun.(*ast.SelectorExpr); ok {
			if id, ok := se.X.(*ast.Ident); ok {
				fn = id.Name + "." + se.Sel.Name
			}
		}
		switch {
		case fn == "frt.OpEqual" && len(x.Args) == 2:
			return vsx("bin", "=", c08GoTree(x.Args[0]), c08GoTree(x.Args[1]))
		case fn == "frt.OpNotEqual" && len(x.Args) == 2:
			return vsx("bin", "<>", c08GoTree(x.Args[0]), c08GoTree(x.Args[1]))
		case (fn == "frt.Pipe" || fn == "frt.PipeUnit") && len(x.Args) == 2:
			return vsx("bin", "|>", c08GoTree(x.Args[0]), c08GoTree(x.Args[1]))
		case fn == "frt.OpNot" && len(x.Args) == 1:
			return vsx("not", c08GoTree(x.Args[0]))
		}
		parts := []string{"app", c08GoTree(x.Fun)}
		for _, a := range x.Args {
			parts = append(parts, c08GoTree(a))
		}
		return vsx(parts...)
	case *ast.SelectorExpr:
		return c08GoTree(x.X) + "." + x.Sel.Name
	case *ast.IndexExpr: // explicit instantiation f[int]
		return c08GoTree(x.X)
	case *ast.FuncLit:
		// partial application: func (_r0 T) R { return h(a, _r0) }  ->  (app h a)
		if len(x.Body.List) == 1 {
			var call *ast.CallExpr
			switch st := x.Body.List[0].(type) {
			case *ast.ReturnStmt:
				if len(st.Results) == 1 {
					call, _ = st.Results[0].(*ast.CallExpr)
				}
			case *ast.ExprStmt:
				call, _ = st.X.(*ast.CallExpr)
			}
			if call != nil {
				parts := []string{"app", c08GoTree(call.Fun)}
				for _, a := range call.Args {
					if id, ok := a.(*ast.Ident); ok && strings.HasPrefix(id.Name, "_r") {
						continue
					}
					parts = append(parts, c08GoTree(a))
				}
				return vsx(parts...)
			}
		}
		return "(funclit)"
	}
	return fmt.Sprintf("(unknown %T)", e)
}

const c08Prelude = `package main

let f (a:int) (b:int) (c:int) (d:int) (e:int) (g:int->int) (h:int->int->int) =
  `

// run one chain through the real compiler; returns the tree read from the emitted Go
func c08Run(e c08E) string {
	src := c08Prelude + e.src("    ") + "\n"
	goSrc, err := vTranspile(src)
	if err != "" {
		return vsx("err", vsxStr(err))
	}
	f, perr := parser.ParseFile(tokenFset(), "gen.go", goSrc, 0)
	if perr != nil {
		return vsx("goparse-err", vsxStr(perr.Error()))
	}
	for _, d := range f.Decls {
		if fd, ok := d.(*ast.FuncDecl); ok && fd.Name.Name == "f" && fd.Body != nil && len(fd.Body.List) > 0 {
			if rs, ok := fd.Body.List[len(fd.Body.List)-1].(*ast.ReturnStmt); ok && len(rs.Results) == 1 {
				return c08GoTree(rs.Results[0])
			}
		}
	}
	return "(no-return)"
}

func c08Check(e c08E) {
	got := c08Run(e)
	in := vsx("c08.chain", e.sx())
	vEmitIO(in, got)
	vstat("chain.ops." + strconv.Itoa(len(e.rest)))
	if want := e.ref(); got != want {
		vViolation(map[string]any{"kind": "grouping differs from the published table", "source": c08Prelude + e.src("    "), "chain": e.sx(), "emitted": got, "table": want})
	}
}

func c08Atom(n string) c08T { return c08T{atoms: []c08A{{name: n}}} }

var c08Names = []string{"a", "b", "c", "d", "e"}

// exhaustive: every sequence of up to maxOps of the 12 non-pipe operators, in three operand shapes
func c08Exhaustive(maxOps int) {
	var rec func(ops []string)
	shapes := func(ops []string) {
		for shape := 0; shape < 3; shape++ {
			e := c08E{}
			mkOperand := func(i int) c08T {
				n := c08Names[i%len(c08Names)]
				switch shape {
				case 1: // applied operands
					if i%2 == 1 {
						return c08T{atoms: []c08A{{name: "g"}, {name: n}}}
					}
				case 2: // parenthesised operands
					if i%2 == 0 {
						inner := c08E{first: c08Atom(n), rest: []c08Item{{0, "+", c08Atom("1")}}}
						return c08T{atoms: []c08A{{paren: &inner}}}
					}
				}
				return c08Atom(n)
			}
			e.first = mkOperand(0)
			for i, o := range ops {
				e.rest = append(e.rest, c08Item{0, o, mkOperand(i + 1)})
			}
			c08Check(e)
		}
	}
	rec = func(ops []string) {
		if len(ops) > 0 {
			shapes(ops)
		}
		if len(ops) == maxOps {
			return
		}
		for _, o := range c08Ops12 {
			rec(append(append([]string{}, ops...), o))
		}
	}
	rec(nil)
}

func c08RandE(r *rand.Rand, depth int, maxOps int) c08E {
	e := c08E{first: c08RandT(r, depth)}
	n := r.Intn(maxOps + 1)
	eol := func() int {
		if r.Intn(5) == 0 {
			return 1 + r.Intn(2)
		}
		return 0
	}
	for i := 0; i < n; i++ {
		e.rest = append(e.rest, c08Item{eol(), c08Ops12[r.Intn(12)], c08RandT(r, depth)})
	}
	// pipes: the right-hand side must be function typed (fc rejects anything else), so pipe
	// segments come last and their operands are `g` or the partial application `h x`
	for r.Intn(3) == 0 {
		f := c08T{atoms: []c08A{{name: "g"}}}
		if r.Intn(2) == 0 {
			f = c08T{atoms: []c08A{{name: "h"}, {name: c08Names[r.Intn(len(c08Names))]}}}
		}
		e.rest = append(e.rest, c08Item{eol(), "|>", f})
	}
	return e
}
func c08RandT(r *rand.Rand, depth int) c08T {
	if depth > 0 && r.Intn(8) == 0 {
		t := c08RandT(r, depth-1)
		return c08T{not: &t}
	}
	switch r.Intn(6) {
	case 0:
		return c08T{atoms: []c08A{{name: "g"}, c08RandA(r, depth)}}
	case 1:
		return c08T{atoms: []c08A{{name: "h"}, c08RandA(r, depth), c08RandA(r, depth)}}
	}
	return c08T{atoms: []c08A{c08RandA(r, depth)}}
}
func c08RandA(r *rand.Rand, depth int) c08A {
	if depth > 0 && r.Intn(4) == 0 {
		inner := c08RandE(r, depth-1, 3)
		return c08A{paren: &inner}
	}
	if r.Intn(5) == 0 {
		return c08A{name: strconv.Itoa(r.Intn(10))}
	}
	return c08A{name: c08Names[r.Intn(len(c08Names))]}
}

func vC08(seed int64, count int, extra []string) {
	maxOps := 3
	if len(extra) > 0 {
		maxOps, _ = strconv.Atoi(extra[0])
	}
	if maxOps > 0 {
		c08Exhaustive(maxOps)
	}
	r := rand.New(rand.NewSource(seed))
	for i := 0; i < count; i++ {
		c08Check(c08RandE(r, 2, 12))
	}
}
