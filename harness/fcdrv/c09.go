package main

// C09 stream: unions x ordered arm subsets x default x arm forms x nesting contexts through the real
// parser: accept / reject and the case the diagnostic names.

import (
	"math/rand"
	"strconv"
	"strings"
)

type c09Case struct {
	name    string
	payload string // "" | "int" | "string"
}

// case names of which some are proper prefixes of others (in both declaration orders): coverage is
// by the exact name
var c09CaseNames = []string{"Aa", "Aab", "Cc", "C", "Ee"}

// c09Foreign: 0 = none; 1 / 2 = an arm naming a case of ANOTHER union (payload-less / payload
// ignored) is inserted before arm c09ForeignPos.  Such an arm covers nothing of U.
var c09Foreign, c09ForeignPos int

func c09Program(cases []c09Case, arms []int, forms []int, dflt bool, ctx int) string {
	var sb strings.Builder
	sb.WriteString("package main\n\n")
	if c09Foreign != 0 {
		sb.WriteString("type W =\n  | Fx\n  | Fy of int\n\n")
	}
	if ctx == 8 || ctx == 9 {
		// a GENERIC union; the payload of the first case is the type parameter
		sb.WriteString("type U<T> =\n")
	} else {
		sb.WriteString("type U =\n")
	}
	for i, c := range cases {
		pl := c.payload
		if (ctx == 8 || ctx == 9) && i == 0 {
			pl = "T"
		}
		if pl == "" {
			sb.WriteString("  | " + c.name + "\n")
		} else {
			sb.WriteString("  | " + c.name + " of " + pl + "\n")
		}
	}
	sb.WriteString("\n")
	ind := "  "
	switch ctx {
	case 8: // the matched value's type argument is still undetermined when the match is parsed
		sb.WriteString("let f x0 =\n  let u = " + cases[0].name + " x0\n")
	case 9: // a concrete instance of the generic union
		sb.WriteString("let f (u: U<int>) =\n")
	case 0:
		sb.WriteString("let f (u: U) =\n")
	case 1: // after a let, inside an if branch
		sb.WriteString("let f (u: U) (b: bool) =\n  let k = 5\n  if b then\n    k\n  else\n")
		ind = "    "
	case 2: // inside a lambda
		sb.WriteString("let f (u: U) =\n  let g = fun (w: U) ->\n")
		ind = "          "
	case 3: // inside the arm of an outer match
		sb.WriteString("let f (u: U) (v: U) =\n  match v with\n  | _ ->\n")
		ind = "    "
	case 5, 6: // in the LAST CASE arm of an outer match whose default arm follows (5: union outer, 6: string outer)
		if ctx == 5 {
			sb.WriteString("let f (u: U) (v: U) =\n  match v with\n  | OUTERFIRST ->\n")
		} else {
			sb.WriteString("let f (u: U) (s: string) =\n  match s with\n  | \"k\" ->\n")
		}
		ind = "    "
	case 4: // after an earlier, exhaustive match on the same union (no state may leak between matches)
		sb.WriteString("let g0 (u: U) =\n  match u with\n")
		for i, c := range cases {
			pat := c.name
			if c.payload != "" {
				pat += " _"
			}
			sb.WriteString("  | " + pat + " -> " + strconv.Itoa(i) + "\n")
		}
		sb.WriteString("\nlet f (u: U) =\n")
	}
	tgt := "u"
	if ctx == 2 {
		tgt = "w"
	}
	sb.WriteString(ind + "match " + tgt + " with\n")
	for i, a := range arms {
		if c09Foreign != 0 && i == c09ForeignPos {
			sb.WriteString(ind + "| " + []string{"", "Fx", "Fy _"}[c09Foreign] + " -> 77\n")
		}
		c := cases[a]
		pat := c.name
		if (ctx == 8 || ctx == 9) && a == 0 && c.payload == "" {
			pat += " _" // the first case of the generic union carries the type parameter
		}
		if c.payload != "" {
			switch forms[i] % 3 {
			case 0:
				pat += " x" + strconv.Itoa(i)
			case 1:
				pat += " _"
			}
		}
		sb.WriteString(ind + "| " + pat + " -> " + strconv.Itoa(i+1) + "\n")
	}
	if dflt {
		sb.WriteString(ind + "| _ -> 0\n")
	}
	switch ctx {
	case 5, 6:
		// the arm that follows belongs to the OUTER match (it stands at the outer arms' column)
		sb.WriteString("  | _ -> 9\n")
	case 2:
		sb.WriteString("  g u\n")
	case 3:
		// the outer match has only a default arm: make it legal by adding a first arm
	}
	return sb.String()
}

func c09Check(cases []c09Case, arms []int, forms []int, dflt bool, ctx int) {
	src := c09Program(cases, arms, forms, dflt, ctx)
	if ctx == 3 {
		// outer match must not be default-only: match v with | <first case> -> 7 | _ -> inner
		first := cases[0].name
		if cases[0].payload != "" {
			first += " _"
		}
		src = strings.Replace(src, "  match v with\n  | _ ->\n", "  match v with\n  | "+first+" -> 7\n  | _ ->\n", 1)
	}
	if ctx == 5 {
		first := cases[0].name
		if cases[0].payload != "" {
			first += " _"
		}
		src = strings.Replace(src, "OUTERFIRST", first, 1)
	}
	_, err := vTranspile(src)
	var cs, as []string
	for _, c := range cases {
		cs = append(cs, c.name)
	}
	for _, a := range arms {
		as = append(as, cases[a].name)
	}
	named := "-"
	out := "(accept)"
	if err != "" {
		const marker = "Can't find case: "
		switch {
		case strings.Contains(err, marker):
			rest := err[strings.Index(err, marker)+len(marker):]
			named = strings.TrimSuffix(strings.TrimSpace(rest), ".")
			out = "(reject ok)"
		case strings.Contains(err, "Only default case"):
			out = "(reject only-default)"
		default:
			out = vsx("err", vsxStr(err))
		}
	}
	vEmitIO(vsx("c09.match", vsx(cs...), vsx(as...), strconv.FormatBool(dflt), named), out)
	vstat("c09.cases" + strconv.Itoa(len(cases)) + ".ctx" + strconv.Itoa(ctx))
	// the property itself, directly: accepted iff (some arm) and (default or all cases covered)
	covered := map[string]bool{}
	for _, a := range as {
		covered[a] = true
	}
	all := true
	for _, c := range cs {
		if !covered[c] {
			all = false
		}
	}
	want := len(as) > 0 && (dflt || all)
	if (err == "") != want {
		vViolation(map[string]any{"kind": "accept/reject differs from 'exhaustive or defaulted'", "source": src, "accepted": err == "", "error": err})
	} else if err != "" && len(as) > 0 && (named == "-" || covered[named]) {
		vViolation(map[string]any{"kind": "diagnostic does not name an uncovered case", "source": src, "error": err})
	}
}

// the match target is a lambda parameter WITHOUT annotation, whose union type is only found later by
// inference.  fc today rejects every such match when it parses it (it cannot tell the kind of match),
// which the property does not speak about; what the property does demand in every context is checked
// one-sidedly: a match without default that omits a case is never accepted.
func c09CheckUntyped(cases []c09Case, arms []int, forms []int, dflt bool) {
	var sb strings.Builder
	sb.WriteString("package main\n\npackage_info _ =\n  let MapU<T, R>: (T->R)->[]T->[]R\n\ntype U =\n")
	for _, c := range cases {
		if c.payload == "" {
			sb.WriteString("  | " + c.name + "\n")
		} else {
			sb.WriteString("  | " + c.name + " of " + c.payload + "\n")
		}
	}
	sb.WriteString("\nlet f (us: []U) =\n  MapU (fun x ->\n    match x with\n")
	covered := map[int]bool{}
	for i, a := range arms {
		c := cases[a]
		covered[a] = true
		pat := c.name
		if c.payload != "" {
			if forms[i]%3 == 0 {
				pat += " x" + strconv.Itoa(i)
			} else {
				pat += " _"
			}
		}
		sb.WriteString("    | " + pat + " -> " + strconv.Itoa(i+1) + "\n")
	}
	if dflt {
		sb.WriteString("    | _ -> 0\n")
	}
	src := strings.TrimSuffix(sb.String(), "\n") + ") us\n"
	_, err := vTranspile(src)
	vstat("c09.untyped-target")
	if err == "" {
		vstat("c09.untyped-target.accepted")
	}
	if !dflt && len(covered) < len(cases) && err == "" {
		vViolation(map[string]any{"kind": "a match without default that omits a case is accepted (target: a lambda parameter whose union type is inferred later)", "source": src, "accepted": true})
	}
}

// every non-empty sequence without repetition of indices 0..n-1
func c09Sequences(n int, f func([]int)) {
	var rec func(cur []int, used int)
	rec = func(cur []int, used int) {
		if len(cur) > 0 {
			f(append([]int{}, cur...))
		}
		for i := 0; i < n; i++ {
			if used&(1<<i) == 0 {
				rec(append(cur, i), used|1<<i)
			}
		}
	}
	rec(nil, 0)
}

func vC09(seed int64, count int, extra []string) {
	maxCases := 4
	if len(extra) > 0 {
		maxCases, _ = strconv.Atoi(extra[0])
	}
	r := rand.New(rand.NewSource(seed))
	payloads := []string{"", "int", "string"}
	for n := 1; n <= maxCases; n++ {
		// payload mixes: all-without, all-with, and two random mixes
		for mix := 0; mix < 4; mix++ {
			cases := make([]c09Case, n)
			for i := range cases {
				p := ""
				switch mix {
				case 1:
					p = "int"
				case 2, 3:
					p = payloads[r.Intn(3)]
				}
				cases[i] = c09Case{c09CaseNames[i], p}
			}
			c09Sequences(n, func(arms []int) {
				for _, dflt := range []bool{false, true} {
					forms := make([]int, len(arms))
					for i := range forms {
						forms[i] = r.Intn(3)
					}
					c09Check(cases, arms, forms, dflt, 0)
					if r.Intn(3) == 0 {
						c09Check(cases, arms, forms, dflt, 8+r.Intn(2))
						vstat("c09.generic-union")
					}
					if r.Intn(4) == 0 {
						// a repeated arm covers nothing new
						k := r.Intn(len(arms))
						arms2 := append(append(append([]int{}, arms[:k+1]...), arms[r.Intn(len(arms))]), arms[k+1:]...)
						forms2 := make([]int, len(arms2))
						for i := range forms2 {
							forms2[i] = r.Intn(3)
						}
						c09Check(cases, arms2, forms2, dflt, []int{0, 1, 3}[r.Intn(3)])
						vstat("c09.repeated-arm")
					}
					if r.Intn(3) == 0 {
						c09Foreign, c09ForeignPos = 1+r.Intn(2), r.Intn(len(arms))
						c09Check(cases, arms, forms, dflt, []int{0, 1, 4}[r.Intn(3)])
						c09Foreign = 0
						vstat("c09.foreign-arm")
					}
					if mix >= 2 || n <= 3 {
						c09Check(cases, arms, forms, dflt, 1+r.Intn(6))
					}
					if r.Intn(4) == 0 {
						c09CheckUntyped(cases, arms, forms, dflt)
					}
				}
			})
			// default-only
			c09Check(cases, nil, nil, true, 0)
		}
	}
	// random: 5 cases, repeated arms allowed
	for i := 0; i < count; i++ {
		n := 2 + r.Intn(4)
		cases := make([]c09Case, n)
		for j := range cases {
			cases[j] = c09Case{c09CaseNames[j], payloads[r.Intn(3)]}
		}
		k := 1 + r.Intn(n+1)
		arms := make([]int, k)
		forms := make([]int, k)
		for j := range arms {
			arms[j] = r.Intn(n)
			forms[j] = r.Intn(3)
		}
		c09Check(cases, arms, forms, r.Intn(3) == 0, r.Intn(7))
	}
}
