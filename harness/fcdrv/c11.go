package main

// C11 streams: literal scanners, ParseSInterP, the assumed Go semantics, and end-to-end programs that
// print generated literals (transpiled by the real pipeline, compiled and run).

import (
	"encoding/hex"
	"fmt"
	"math/rand"
	"os"
	"os/exec"
	"path/filepath"
	"strconv"
	"strings"
	"time"
)

func c11Hex(b []byte) string { return "x" + hex.EncodeToString(b) }

func c11TokType(t TokenType) string {
	s := fmt.Sprintf("%T", t)
	return strings.TrimPrefix(s, "main.TokenType_")
}

func c11Scan(src []byte) string {
	res := "(panic)"
	func() {
		defer func() { recover() }()
		tk := scanTokenAt(string(src), 0)
		res = vsx("tok", c11TokType(tk.ttype), strconv.Itoa(tk.begin), strconv.Itoa(tk.len), c11Hex([]byte(tk.stringVal)))
	}()
	return res
}

func c11Interp(text []byte) string {
	res := "(panic)"
	func() {
		defer func() { recover() }()
		r := ParseSInterP(string(text))
		vs := []string{}
		for _, v := range r.E1 {
			vs = append(vs, c11Hex([]byte(v)))
		}
		res = vsx("ok", c11Hex([]byte(r.E0)), vsx(vs...))
	}()
	return res
}

// ---- segments

type c11Seg struct {
	kind string // lit esc brace hole
	b    byte
	name string
}

func (s c11Seg) sx() string {
	if s.kind == "hole" {
		return vsx("hole", vsxStr(s.name))
	}
	return vsx(s.kind, strconv.Itoa(int(s.b)))
}
func (s c11Seg) src() []byte {
	switch s.kind {
	case "lit":
		return []byte{s.b}
	case "esc", "brace":
		return []byte{'\\', s.b}
	}
	return []byte("{" + s.name + "}")
}

var c11Multi = []string{"é", "ß", "λ", "ж", "あ", "漢", "€", "😀", "ü", "ñ", "Ω", "→"}
var c11Holes = []string{"n", "s", "b", "longName_1"}

const c11EnvSx = "((x6e x3432) (x73 x77c3b6726c6420257321) (x62 x74727565) (x6c6f6e674e616d655f31 x2d37))"

// the bytes of one random "ordinary" character for the given form
func c11RandLit(r *rand.Rand, form int) []byte {
	for {
		var bs []byte
		switch x := r.Intn(20); {
		case x == 0:
			bs = []byte{'\n'}
		case x == 1:
			bs = []byte{'\t'}
		case x == 2:
			bs = []byte(c11Multi[r.Intn(len(c11Multi))])
		case x == 3:
			bs = []byte{"%{}\"\\`$"[r.Intn(7)]}
		case x == 4:
			// a run of one special character (adjacent %, braces, quotes …)
			c := "%}%$%"[r.Intn(5)]
			for k := 2 + r.Intn(3); k > 0; k-- {
				bs = append(bs, c)
			}
		default:
			bs = []byte{byte(32 + r.Intn(95))}
		}
		ok := true
		for _, b := range bs {
			switch form {
			case 0: // "..."
				ok = ok && b != '"' && b != '\\'
			case 1: // `...`
				ok = ok && b != '`'
			case 2: // $"..."
				ok = ok && b != '"' && b != '\\' && b != '{'
			case 3: // $`...`
				ok = ok && b != '`' && b != '{'
			}
		}
		if ok {
			return bs
		}
	}
}

func c11RandSegs(r *rand.Rand, form int, n int) []c11Seg {
	var segs []c11Seg
	for i := 0; i < n; i++ {
		x := r.Intn(12)
		switch {
		case x == 0 && (form == 0 || form == 2):
			segs = append(segs, c11Seg{kind: "esc", b: "nt\\\""[r.Intn(4)]})
		case x == 1 && form == 2:
			segs = append(segs, c11Seg{kind: "brace", b: "{}"[r.Intn(2)]})
		case x <= 3 && form >= 2:
			segs = append(segs, c11Seg{kind: "hole", name: c11Holes[r.Intn(len(c11Holes))]})
		default:
			for _, b := range c11RandLit(r, form) {
				segs = append(segs, c11Seg{kind: "lit", b: b})
			}
		}
	}
	return segs
}

func c11Literal(form int, segs []c11Seg) []byte {
	open := []string{"\"", "`", "$\"", "$`"}[form]
	cl := []string{"\"", "`", "\"", "`"}[form]
	out := []byte(open)
	for _, s := range segs {
		out = append(out, s.src()...)
	}
	return append(out, cl...)
}

// ---- end to end: a program printing the literals

const c11End = "@@END-OF-LITERAL@@"

func c11EndToEnd(r *rand.Rand, workdir string, lits [][]c11Seg, forms []int) {
	var sb strings.Builder
	sb.WriteString("package main\n\nimport frt\n\npackage_info frt =\n  let Println: string->()\n\nlet main () =\n  let n = 42\n  let s = \"wörld %s!\"\n  let b = true\n  let longName_1 = 0 - 7\n")
	for i, segs := range lits {
		sb.WriteString("  frt.Println " + string(c11Literal(forms[i], segs)) + "\n")
		sb.WriteString("  frt.Println \"" + c11End + "\"\n")
	}
	src := sb.String()
	goSrc, err := vTranspile(src)
	fail := func(kind, detail string) {
		for i, segs := range lits {
			parts := make([]string, len(segs))
			for j, s := range segs {
				parts[j] = s.sx()
			}
			vEmitIO(vsx("c11.lit", vsx(parts...), c11EnvSx), vsx(kind, strconv.Itoa(forms[i])))
		}
		vViolation(map[string]any{"kind": kind, "detail": detail, "program": src})
	}
	if err != "" {
		fail("fc-rejected-valid-literals", err)
		return
	}
	os.WriteFile(filepath.Join(workdir, "gen_main.go"), []byte(goSrc), 0o644)
	bin := filepath.Join(workdir, "litprog")
	cmd := exec.Command("go", "build", "-o", bin, ".")
	cmd.Dir = workdir
	if outB, e := cmd.CombinedOutput(); e != nil {
		fail("emitted-go-does-not-compile", string(outB))
		return
	}
	run := exec.Command(bin)
	done := make(chan struct{})
	var stdout []byte
	var rerr error
	go func() { stdout, rerr = run.Output(); close(done) }()
	select {
	case <-done:
	case <-time.After(60 * time.Second):
		run.Process.Kill()
		fail("program-hangs", "")
		return
	}
	if rerr != nil {
		fail("program-failed", rerr.Error())
		return
	}
	chunks := strings.Split(string(stdout), "\n"+c11End+"\n")
	for i, segs := range lits {
		parts := make([]string, len(segs))
		for j, s := range segs {
			parts[j] = s.sx()
		}
		got := "(missing)"
		if i < len(chunks) {
			got = vsx("ok", vsxStr(chunks[i]))
		}
		vEmitIO(vsx("c11.lit", vsx(parts...), c11EnvSx), got)
		vstat("e2e.form" + strconv.Itoa(forms[i]))
	}
}

func vC11(seed int64, count int, extra []string) {
	r := rand.New(rand.NewSource(seed))
	workdir := ""
	if len(extra) > 0 {
		workdir = extra[0]
	}
	// 1. scanners: every single byte, alone and after a backslash, in each form (valid or not)
	quotes := [][2]string{{"\"", "\""}, {"`", "`"}, {"$\"", "\""}, {"$`", "`"}}
	for _, q := range quotes {
		for b := 0; b < 256; b++ {
			for _, pre := range []string{"", "\\"} {
				src := []byte(q[0] + "a" + pre + string([]byte{byte(b)}) + "z" + q[1] + " rest")
				vEmitIO(vsx("c11.scan", c11Hex(src)), c11Scan(src))
				vstat("scan.single")
			}
		}
	}
	for i := 0; i < count; i++ {
		form := r.Intn(4)
		segs := c11RandSegs(r, form, r.Intn(14))
		src := c11Literal(form, segs)
		switch r.Intn(6) {
		case 0: // unterminated
			src = src[:len(src)-1]
		case 1: // truncated somewhere
			if len(src) > 2 {
				src = src[:1+r.Intn(len(src)-1)]
			}
		default:
			src = append(src, []byte(" tail")...)
		}
		vEmitIO(vsx("c11.scan", c11Hex(src)), c11Scan(src))
		vstat("scan.random")
	}
	// 2. ParseSInterP on arbitrary token texts
	alpha := []byte("ab{}\\%n\" x_1")
	for i := 0; i < count; i++ {
		n := r.Intn(10)
		t := make([]byte, n)
		for j := range t {
			t[j] = alpha[r.Intn(len(alpha))]
		}
		vEmitIO(vsx("c11.interp", c11Hex(t)), c11Interp(t))
		vstat("interp.random")
	}
	// 3. the assumed Go semantics against the real thing
	ualpha := []byte("ab\\nt\"{}% \n\t")
	for i := 0; i < count; i++ {
		n := r.Intn(8)
		t := make([]byte, n)
		for j := range t {
			t[j] = ualpha[r.Intn(len(ualpha))]
		}
		// keep to the escapes the pipeline can emit: a backslash is followed by one of n t \ " { or ends the text
		okDomain := true
		for j := 0; j < len(t); j++ {
			if t[j] == '\\' {
				if j+1 < len(t) && !strings.ContainsRune("nt\\\"{", rune(t[j+1])) {
					okDomain = false
				}
				j++
			}
		}
		if okDomain {
			got := "(none)"
			if v, err := strconv.Unquote("\"" + string(t) + "\""); err == nil {
				got = vsx("ok", c11Hex([]byte(v)))
			}
			vEmitIO(vsx("c11.unquote", c11Hex(t)), got)
			vstat("go.unquote")
		}
		// Sprintf over byte | %% | %s | stray %
		var f []byte
		nargs := 0
		for j := r.Intn(7); j > 0; j-- {
			switch r.Intn(6) {
			case 0:
				f = append(f, '%', '%')
			case 1:
				f = append(f, '%', 's')
				nargs++
			case 2:
				if r.Intn(4) == 0 {
					f = append(f, '%', "dz!"[r.Intn(3)])
				} else {
					f = append(f, 'z')
				}
			default:
				f = append(f, "ab {}"[r.Intn(5)])
			}
		}
		if r.Intn(8) == 0 {
			nargs += r.Intn(3) - 1
			if nargs < 0 {
				nargs = 0
			}
		}
		args := make([]any, nargs)
		sargs := make([]string, nargs)
		for j := range args {
			a := []string{"", "x", "42", "%d", "wörld"}[r.Intn(5)]
			args[j] = a
			sargs[j] = vsxStr(a)
		}
		gotS := fmt.Sprintf(string(f), args...)
		got := vsx("ok", c11Hex([]byte(gotS)))
		if strings.Contains(gotS, "%!") {
			got = "(none)"
		}
		vEmitIO(vsx("c11.sprintf", c11Hex(f), vsx(sargs...)), got)
		vstat("go.sprintf")
	}
	// 4. end to end
	if workdir != "" {
		nlit := count / 4
		if nlit > 400 {
			nlit = 400
		}
		var lits [][]c11Seg
		var forms []int
		// every single character in each form first (a rotating slice of them per run)
		for form := 0; form < 4; form++ {
			for b := 32; b < 127; b++ {
				if (b+int(seed))%4 != 0 {
					continue
				}
				ok := !(form%2 == 0 && (b == '"' || b == '\\')) && !(form%2 == 1 && b == '`') && !(form >= 2 && b == '{')
				if ok {
					lits = append(lits, []c11Seg{{kind: "lit", b: 'a'}, {kind: "lit", b: byte(b)}, {kind: "lit", b: 'z'}})
					forms = append(forms, form)
				}
			}
		}
		for i := 0; i < nlit; i++ {
			form := r.Intn(4)
			lits = append(lits, c11RandSegs(r, form, 1+r.Intn(16)))
			forms = append(forms, form)
		}
		c11EndToEnd(r, workdir, lits, forms)
	}
}
