package main

// C15 streams: type expressions through the real parseType + FTypeToGo (in-process) and, placed in
// the five syntactic positions, through the whole pipeline (Go type text cut out of the emitted file
// with go/parser positions).

import (
	"fmt"
	"go/ast"
	"go/parser"
	"go/token"
	"math/rand"
	"strconv"
	"strings"
)

const c15Prelude = `package main

package_info buf =
  type Buffer

package_info dict =
  type Dict<K, V>

package_info box =
  type Box<T>

package_info _ =
  type Loc

package_info slice =
  let New<T>: ()->[]T

type Rec = {X: int}

type GRec<T> = {V: T}

type Uni =
  | UA
  | UB of int

type GUni<T> =
  | GA of T
  | GB

`

const c15Env = "((buf.Buffer ext buf.Buffer 0) (dict.Dict ext dict.Dict 2) (box.Box ext box.Box 1) (Loc ext Loc 0) (Rec record Rec 0) (GRec record GRec 1) (Uni union Uni 0) (GUni union GUni 1))"

type c15Ty struct {
	kind  string // base unit slice tuple func named
	name  string
	elems []*c15Ty
}

type c15Named struct {
	name  string
	arity int
}

var c15Bases = []string{"int", "string", "bool", "float", "any"}
var c15Nameds = []c15Named{{"buf.Buffer", 0}, {"dict.Dict", 2}, {"box.Box", 1}, {"Loc", 0}, {"Rec", 0}, {"GRec", 1}, {"Uni", 0}, {"GUni", 1}}

// precedence level of the outermost constructor: 0 func, 1 tuple, 2 slice, 3 atom
func (t *c15Ty) level() int {
	switch t.kind {
	case "func":
		return 0
	case "tuple":
		return 1
	case "slice":
		return 2
	}
	return 3
}

type c15Out struct {
	text strings.Builder
	toks []string
}

func (o *c15Out) tok(text, sx string) {
	if o.text.Len() > 0 && text != ")" && text != "]" && text != "," && text != ">" && text != "." && !strings.HasSuffix(o.text.String(), "(") && !strings.HasSuffix(o.text.String(), "[") && !strings.HasSuffix(o.text.String(), "]") && !strings.HasSuffix(o.text.String(), "<") && !strings.HasSuffix(o.text.String(), ".") && text != "<" {
		o.text.WriteString(" ")
	}
	o.text.WriteString(text)
	o.toks = append(o.toks, sx)
}

// render `t` in a context that requires at least level `need`; `extra` adds redundant parentheses
func (t *c15Ty) render(o *c15Out, need int, r *rand.Rand, extra int) {
	parens := 0
	if t.level() < need {
		parens = 1
	}
	if extra > 0 && r != nil && r.Intn(extra) == 0 && t.kind != "unit" {
		parens++
	}
	for i := 0; i < parens; i++ {
		o.tok("(", "lp")
	}
	if parens > 0 {
		need = 0
	}
	switch t.kind {
	case "base":
		o.tok(t.name, vsx("id", t.name))
	case "unit":
		o.tok("(", "lp")
		o.tok(")", "rp")
	case "named":
		parts := strings.Split(t.name, ".")
		for i, p := range parts {
			if i > 0 {
				o.tok(".", "dot")
			}
			o.tok(p, vsx("id", p))
		}
		if len(t.elems) > 0 {
			o.tok("<", "lt")
			for i, e := range t.elems {
				if i > 0 {
					o.tok(",", "comma")
				}
				e.render(o, 0, r, extra)
			}
			o.tok(">", "gt")
		}
	case "slice":
		o.tok("[", "lb")
		o.tok("]", "rb")
		t.elems[0].render(o, 2, r, extra)
	case "tuple":
		for i, e := range t.elems {
			if i > 0 {
				o.tok("*", "star")
			}
			e.render(o, 2, r, extra)
		}
	case "func":
		for i, e := range t.elems {
			if i > 0 {
				o.tok("->", "arrow")
			}
			e.render(o, 1, r, extra)
		}
	}
	for i := 0; i < parens; i++ {
		o.tok(")", "rp")
	}
}

func c15Rand(r *rand.Rand, depth int, allowUnit bool) *c15Ty {
	if depth == 0 || r.Intn(3) == 0 {
		if allowUnit && r.Intn(5) == 0 {
			return &c15Ty{kind: "unit"}
		}
		if r.Intn(3) == 0 {
			n := c15Nameds[r.Intn(len(c15Nameds))]
			if n.arity == 0 || depth == 0 {
				if n.arity > 0 {
					return &c15Ty{kind: "base", name: "int"}
				}
				return &c15Ty{kind: "named", name: n.name}
			}
		}
		return &c15Ty{kind: "base", name: c15Bases[r.Intn(len(c15Bases))]}
	}
	switch r.Intn(5) {
	case 0:
		return &c15Ty{kind: "slice", elems: []*c15Ty{c15Rand(r, depth-1, false)}}
	case 1:
		n := 2 + r.Intn(2)
		t := &c15Ty{kind: "tuple"}
		for i := 0; i < n; i++ {
			t.elems = append(t.elems, c15Rand(r, depth-1, false))
		}
		return t
	case 2:
		n := 2 + r.Intn(2)
		t := &c15Ty{kind: "func"}
		for i := 0; i < n; i++ {
			// unit only as the single argument or as the result
			au := (i == n-1) || (n == 2 && i == 0)
			t.elems = append(t.elems, c15Rand(r, depth-1, au))
		}
		return t
	case 3:
		n := c15Nameds[r.Intn(len(c15Nameds))]
		t := &c15Ty{kind: "named", name: n.name}
		for i := 0; i < n.arity; i++ {
			t.elems = append(t.elems, c15Rand(r, depth-1, false))
		}
		return t
	}
	return &c15Ty{kind: "base", name: c15Bases[r.Intn(len(c15Bases))]}
}

// the documented mapping, written independently of the Lean model (for the direct check)
func (t *c15Ty) goOf() string {
	switch t.kind {
	case "base":
		if t.name == "float" {
			return "float64"
		}
		return t.name
	case "unit":
		return ""
	case "named":
		if len(t.elems) == 0 {
			return t.name
		}
		var ps []string
		for _, e := range t.elems {
			ps = append(ps, e.goOf())
		}
		return t.name + "[" + strings.Join(ps, ", ") + "]"
	case "slice":
		return "[]" + t.elems[0].goOf()
	case "tuple":
		var ps []string
		for _, e := range t.elems {
			ps = append(ps, e.goOf())
		}
		return fmt.Sprintf("frt.Tuple%d[%s]", len(t.elems), strings.Join(ps, ", "))
	case "func":
		var ps []string
		for _, e := range t.elems[:len(t.elems)-1] {
			ps = append(ps, e.goOf())
		}
		ret := t.elems[len(t.elems)-1].goOf()
		if ret != "" {
			ret = " " + ret
		}
		return "func (" + strings.Join(ps, ",") + ")" + ret
	}
	return "?"
}

var c15PS *ParseState

// real parseType + FTypeToGo on a type expression text, with the prelude's types registered
func c15Parse(text string) (res string) {
	defer func() {
		if r := recover(); r != nil {
			res = "(err)"
		}
	}()
	if c15PS == nil {
		ps := initParse(c15Prelude)
		ps2, _ := parseAll(ps)
		c15PS = &ps2
	}
	ps := psSetNewSrc(text, *c15PS)
	r := parseType(ps)
	ps2, ft := r.E0, r.E1
	goText := FTypeToGo(ft)
	n := 0
	tkz := ps2.tkz
	for {
		if _, ok := tkz.current.ttype.(TokenType_EOF); ok {
			break
		}
		n++
		tkz = tkzNext(tkz)
	}
	if n > 0 {
		return vsx("ok-partial", vsxStr(goText), strconv.Itoa(n))
	}
	return vsx("ok", vsxStr(goText))
}

func c15CheckType(t *c15Ty, r *rand.Rand, extra int) {
	var o c15Out
	t.render(&o, 0, r, extra)
	text := o.text.String()
	got := c15Parse(text)
	vEmitIO(vsx("c15.type", c15Env, vsx(o.toks...)), got)
	vstat("type.kind." + t.kind)
	if want := vsx("ok", vsxStr(t.goOf())); got != want {
		vViolation(map[string]any{"kind": "Go type differs from the documented mapping", "type_expr": text, "emitted": got, "documented": t.goOf()})
	}
}

// ---- positions

func c15Cut(src string, fset *token.FileSet, n ast.Node) string {
	return src[fset.Position(n.Pos()).Offset:fset.Position(n.End()).Offset]
}

func c15CheckPositions(t *c15Ty, r *rand.Rand) {
	var o c15Out
	t.render(&o, 0, r, 6)
	text := o.text.String()
	prog := c15Prelude +
		"package_info _ =\n  let ext2: int -> " + parenIfFunc(t, text) + " -> int\n\n" +
		"type R1 = {F: " + text + "}\n\n" +
		"type U1 =\n  | C1 of " + text + "\n  | C2\n\n" +
		"let f1 (x: " + text + ") =\n  7\n\n" +
		"let f4 () =\n  ext2 1\n\n" +
		"let f5 () =\n  slice.New<" + text + "> ()\n"
	goSrc, err := vTranspile(prog)
	in := vsx("c15.type", c15Env, vsx(o.toks...))
	if err != "" {
		for i := 0; i < 5; i++ {
			vEmitIO(in, vsx("err", vsxStr(err)))
		}
		vViolation(map[string]any{"kind": "valid type expression rejected in a program", "type_expr": text, "error": err})
		return
	}
	fset := token.NewFileSet()
	f, perr := parser.ParseFile(fset, "gen.go", goSrc, 0)
	found := map[string]string{}
	if perr == nil {
		ast.Inspect(f, func(n ast.Node) bool {
			switch x := n.(type) {
			case *ast.TypeSpec:
				if st, ok := x.Type.(*ast.StructType); ok {
					if x.Name.Name == "R1" && len(st.Fields.List) == 1 {
						found["record-field"] = c15Cut(goSrc, fset, st.Fields.List[0].Type)
					}
					if x.Name.Name == "U1_C1" && len(st.Fields.List) == 1 {
						found["union-payload"] = c15Cut(goSrc, fset, st.Fields.List[0].Type)
					}
				}
			case *ast.FuncDecl:
				if x.Name.Name == "f1" && len(x.Type.Params.List) == 1 {
					found["param"] = c15Cut(goSrc, fset, x.Type.Params.List[0].Type)
				}
				if x.Name.Name == "f4" {
					ast.Inspect(x.Body, func(m ast.Node) bool {
						if fl, ok := m.(*ast.FuncLit); ok && len(fl.Type.Params.List) == 1 {
							found["package_info"] = c15Cut(goSrc, fset, fl.Type.Params.List[0].Type)
							return false
						}
						return true
					})
				}
				if x.Name.Name == "f5" {
					ast.Inspect(x.Body, func(m ast.Node) bool {
						if ie, ok := m.(*ast.IndexExpr); ok {
							found["type-arg"] = c15Cut(goSrc, fset, ie.Index)
							return false
						}
						return true
					})
				}
			}
			return true
		})
	}
	for _, pos := range []string{"param", "record-field", "union-payload", "package_info", "type-arg"} {
		got, ok := found[pos]
		outS := vsx("ok", vsxStr(got))
		if !ok {
			outS = vsx("not-found", pos)
			if perr != nil {
				outS = vsx("goparse-err", vsxStr(perr.Error()))
			}
		}
		vEmitIO(in, outS)
		vstat("pos." + pos)
		if want := t.goOf(); !ok || got != want {
			vViolation(map[string]any{"kind": "Go type in position differs from the documented mapping", "position": pos, "type_expr": text, "emitted": got, "documented": want, "found": ok})
		}
	}
}

func parenIfFunc(t *c15Ty, text string) string {
	if t.kind == "func" {
		return "(" + text + ")"
	}
	return text
}

// ---- exhaustive enumeration up to a depth (minimal parentheses)

func c15Enum(depth int, allowUnit bool, f func(*c15Ty)) {
	for _, b := range []string{"int", "string", "float"} {
		f(&c15Ty{kind: "base", name: b})
	}
	f(&c15Ty{kind: "named", name: "Loc"})
	f(&c15Ty{kind: "named", name: "buf.Buffer"})
	if allowUnit {
		f(&c15Ty{kind: "unit"})
	}
	if depth == 0 {
		return
	}
	var subs, subsU []*c15Ty
	c15Enum(depth-1, false, func(t *c15Ty) { subs = append(subs, t) })
	c15Enum(depth-1, true, func(t *c15Ty) { subsU = append(subsU, t) })
	for _, a := range subs {
		f(&c15Ty{kind: "slice", elems: []*c15Ty{a}})
		f(&c15Ty{kind: "named", name: "GRec", elems: []*c15Ty{a}})
		f(&c15Ty{kind: "named", name: "box.Box", elems: []*c15Ty{a}}) // an EXTERNAL generic with one argument
		for _, b := range subs {
			f(&c15Ty{kind: "tuple", elems: []*c15Ty{a, b}})
			f(&c15Ty{kind: "named", name: "dict.Dict", elems: []*c15Ty{a, b}})
		}
	}
	for _, a := range subsU {
		for _, b := range subsU {
			f(&c15Ty{kind: "func", elems: []*c15Ty{a, b}})
		}
	}
	// 3-tuples and 3-ary functions over a smaller base
	small := subs
	if len(small) > 6 {
		small = small[:6]
	}
	for _, a := range small {
		for _, b := range small {
			for _, c := range small {
				f(&c15Ty{kind: "tuple", elems: []*c15Ty{a, b, c}})
				f(&c15Ty{kind: "func", elems: []*c15Ty{a, b, c}})
			}
		}
	}
}

// an external type named INSIDE its own package_info block (unqualified there) is the package's type,
// whether or not the file also has a type of its own with that name, before or after the block
func c15OwnBlock() {
	local := "type Buffer = {Own: int}\n\ntype Dict<K, V> = {OwnK: K; OwnV: V}\n\n"
	blocks := "package_info buf =\n  type Buffer\n  let New: ()->Buffer\n  let Many: int->[]Buffer\n\n" +
		"package_info dict =\n  type Dict<K, V>\n  let New<K, V>: ()->Dict<K, V>\n  let Pair<K, V>: K->V->Dict<K, V>*int\n\n"
	uses := "let k1 () =\n  buf.New ()\n\nlet k2 () =\n  buf.Many 3\n\nlet k3 () =\n  dict.New<string, int> ()\n\nlet k4 () =\n  dict.Pair \"a\" 1\n"
	want := map[string]string{"k1": "buf.Buffer", "k2": "[]buf.Buffer", "k3": "dict.Dict[string, int]", "k4": "frt.Tuple2[dict.Dict[string, int], int]"}
	for v, prog := range []string{"package main\n\n" + blocks + uses, "package main\n\n" + local + blocks + uses, "package main\n\n" + blocks + local + uses} {
		goSrc, err := vTranspile(prog)
		vstat("pos.own-block")
		if err != "" {
			vViolation(map[string]any{"kind": "valid program rejected (external types named in their own package_info block)", "program": prog, "error": err, "variant": v})
			continue
		}
		fset := token.NewFileSet()
		f, perr := parser.ParseFile(fset, "gen.go", goSrc, 0)
		if perr != nil {
			vViolation(map[string]any{"kind": "emitted Go does not parse", "program": prog, "error": perr.Error()})
			continue
		}
		for _, d := range f.Decls {
			fd, ok := d.(*ast.FuncDecl)
			if !ok || want[fd.Name.Name] == "" {
				continue
			}
			got := ""
			if fd.Type.Results != nil && len(fd.Type.Results.List) == 1 {
				got = c15Cut(goSrc, fset, fd.Type.Results.List[0].Type)
			}
			if got != want[fd.Name.Name] {
				vViolation(map[string]any{"kind": "Go type in position differs from the documented mapping", "position": "signature inside the type's own package_info block",
					"function": fd.Name.Name, "emitted": got, "documented": want[fd.Name.Name], "program": prog, "variant": v})
			}
		}
	}
}

func vC15(seed int64, count int, extra []string) {
	depth := 1
	if len(extra) > 0 {
		depth, _ = strconv.Atoi(extra[0])
	}
	npos := count / 10
	if len(extra) > 1 {
		npos, _ = strconv.Atoi(extra[1])
	}
	r := rand.New(rand.NewSource(seed))
	n := 0
	c15Enum(depth, true, func(t *c15Ty) {
		n++
		if depth >= 2 && n%4 != int(seed)%4 && n > 2000 {
			return // depth-2 space is large: each run takes a quarter of the tail, by seed
		}
		c15CheckType(t, nil, 0)
	})
	for i := 0; i < count; i++ {
		c15CheckType(c15Rand(r, 3, true), r, 4)
	}
	for i := 0; i < npos; i++ {
		c15CheckPositions(c15Rand(r, 3, false), r)
	}
	c15OwnBlock()
	// malformed: drop or duplicate one token of a valid expression; model and parser must agree
	for i := 0; i < count/4; i++ {
		var o c15Out
		c15Rand(r, 2, true).render(&o, 0, r, 5)
		words := strings.Fields(strings.NewReplacer("(", " ( ", ")", " ) ", "[", " [ ", "]", " ] ", "<", " < ", ">", " > ", ",", " , ", "*", " * ", "->", " -> ", ".", " . ").Replace(o.text.String()))
		if len(words) != len(o.toks) || len(words) < 2 {
			continue
		}
		k := r.Intn(len(words))
		var w2, t2 []string
		if r.Intn(2) == 0 {
			w2 = append(append([]string{}, words[:k]...), words[k+1:]...)
			t2 = append(append([]string{}, o.toks[:k]...), o.toks[k+1:]...)
		} else {
			w2 = append(append(append([]string{}, words[:k+1]...), words[k]), words[k+1:]...)
			t2 = append(append(append([]string{}, o.toks[:k+1]...), o.toks[k]), o.toks[k+1:]...)
		}
		text := strings.Join(w2, " ")
		text = strings.ReplaceAll(text, " . ", ".")
		vEmitIO(vsx("c15.type", c15Env, vsx(t2...)), c15Parse(text))
		vstat("type.malformed")
	}
}
