package main

// C17 stream: programs of the tinyfo profile through the real tinyfo binary (built from the working
// tree by the check) AND through fc in-process; both outputs are compiled in one `go build` and run.
// The stdout of tinyfo's translation is compared with the reference evaluator (stream c01.prog) and,
// directly, with the stdout of fc's translation of the same text.

import (
	"os"
	"os/exec"
	"path/filepath"
	"strconv"
	"strings"
	"time"
)

type c17Cfg struct {
	workdir string
	tinyfo  string
}

func c17Source(progs []c01Prog) string {
	var sb strings.Builder
	sb.WriteString(gPreludeSrc())
	sb.WriteString(gHelperSrc())
	for _, p := range progs {
		sb.WriteString(p.src)
	}
	sb.WriteString("let main () =\n")
	for _, p := range progs {
		sb.WriteString("  " + p.name + " ()\n  frt.Println \"" + c01End + "\"\n")
	}
	return sb.String()
}

// run the tinyfo binary on one source text; returns the emitted Go or an error description
func c17Tinyfo(cfg c17Cfg, src string) (string, string) {
	dir := filepath.Join(cfg.workdir, "tsrc")
	os.MkdirAll(dir, 0o755)
	in := filepath.Join(dir, "batch.fo")
	out := filepath.Join(dir, "gen_batch.go")
	os.Remove(out)
	os.WriteFile(in, []byte(src), 0o644)
	cmd := exec.Command(cfg.tinyfo, "batch.fo")
	cmd.Dir = dir
	done := make(chan struct{})
	var ob []byte
	var err error
	go func() { ob, err = cmd.CombinedOutput(); close(done) }()
	select {
	case <-done:
	case <-time.After(60 * time.Second):
		cmd.Process.Kill()
		return "", "tinyfo hangs"
	}
	if err != nil {
		msg := string(ob)
		if i := strings.Index(msg, "panic:"); i >= 0 {
			msg = msg[i:]
		}
		if j := strings.Index(msg, "\n\ngoroutine"); j >= 0 {
			msg = msg[:j]
		}
		return "", "tinyfo failed: " + msg
	}
	b, e := os.ReadFile(out)
	if e != nil {
		return "", "tinyfo wrote no output file"
	}
	return string(b), ""
}

func c17Run(bin string) (string, string) {
	run := exec.Command(bin)
	done := make(chan struct{})
	var stdout []byte
	var rerr error
	go func() { stdout, rerr = run.Output(); close(done) }()
	select {
	case <-done:
	case <-time.After(60 * time.Second):
		run.Process.Kill()
		return "", "program hangs"
	}
	if rerr != nil {
		msg := rerr.Error()
		if ee, ok := rerr.(*exec.ExitError); ok {
			msg += " " + string(ee.Stderr)
		}
		return string(stdout), "program failed: " + msg
	}
	return string(stdout), ""
}

// build the packages ./t (tinyfo's Go) and ./f (fc's Go, optional) in one go build
func c17Build(cfg c17Cfg, tgo, fgo string) string {
	for _, d := range []string{"t", "f", "bin"} {
		os.RemoveAll(filepath.Join(cfg.workdir, d))
	}
	os.MkdirAll(filepath.Join(cfg.workdir, "bin"), 0o755)
	pk := []string{}
	if tgo != "" {
		os.MkdirAll(filepath.Join(cfg.workdir, "t"), 0o755)
		os.WriteFile(filepath.Join(cfg.workdir, "t", "gen_main.go"), []byte(tgo), 0o644)
		pk = append(pk, "./t")
	}
	if fgo != "" {
		os.MkdirAll(filepath.Join(cfg.workdir, "f"), 0o755)
		os.WriteFile(filepath.Join(cfg.workdir, "f", "gen_main.go"), []byte(fgo), 0o644)
		pk = append(pk, "./f")
	}
	cmd := exec.Command("go", append([]string{"build", "-o", "bin/"}, pk...)...)
	cmd.Dir = cfg.workdir
	if outB, e := cmd.CombinedOutput(); e != nil {
		return "go build: " + string(outB)
	}
	return ""
}

func c17Batch(cfg c17Cfg, progs []c01Prog) {
	if len(progs) == 0 {
		return
	}
	src := c17Source(progs)
	split := func(why, detail string) {
		if len(progs) == 1 {
			p := progs[0]
			if len(detail) > 1500 {
				detail = detail[:1500]
			}
			vEmitIO(c01ProgSx(p), vsx("failed", vsxStr(why)))
			vViolation(map[string]any{"kind": why, "detail": detail, "program": c17Source(progs)})
			return
		}
		h := len(progs) / 2
		c17Batch(cfg, progs[:h])
		c17Batch(cfg, progs[h:])
	}
	tgo, terr := c17Tinyfo(cfg, src)
	if terr != "" {
		if len(progs) == 1 && !progs[0].plain {
			// decorated layouts (comment lines, blank lines, deep indentation) are outside the
			// calibrated subset: tinyfo refusing one is counted, not reported
			vstat("rejected-under-decorated-layout")
			return
		}
		split("tinyfo rejected a program of its subset", terr)
		return
	}
	fgo, ferr := vTranspile(src)
	if ferr != "" {
		// not tinyfo's fault; the comparison with fc is skipped for this batch
		vstat("fc-rejected-batch")
		fgo = ""
	}
	if berr := c17Build(cfg, tgo, ""); berr != "" {
		split("the Go tinyfo emitted does not compile", berr)
		return
	}
	tout, rerr := c17Run(filepath.Join(cfg.workdir, "bin", "t"))
	if rerr != "" {
		split("the program tinyfo emitted fails at run time", rerr)
		return
	}
	fout := ""
	if fgo != "" {
		if berr := c17Build(cfg, "", fgo); berr != "" {
			vstat("fc-output-does-not-build")
			fgo = ""
		} else if o, e := c17Run(filepath.Join(cfg.workdir, "bin", "f")); e != "" {
			vstat("fc-output-fails")
			fgo = ""
		} else {
			fout = o
		}
	}
	// structural tie of the lowering model to what tinyfo really emitted, per function
	if len(progs) > 1 {
		gcEmitLowering(tgo, gHelperFuncs())
	}
	for _, p := range progs {
		gcEmitLowering(tgo, p.funcs)
	}
	chunks := strings.Split(tout, c01End+"\n")
	fchunks := strings.Split(fout, c01End+"\n")
	for i, p := range progs {
		got := "(missing)"
		if i < len(chunks) {
			got = vsxStr(chunks[i])
		}
		vEmitIO(c01ProgSx(p), got)
		vEmitIO(semProgSx(p), got)
		vstat("programs")
		if fgo != "" && i < len(chunks) && i < len(fchunks) {
			vstat("compared-with-fc")
			if chunks[i] != fchunks[i] {
				vViolation(map[string]any{"kind": "tinyfo's translation and fc's translation of the same program print different output",
					"tinyfo": chunks[i], "fc": fchunks[i],
					"program": c17Source([]c01Prog{p})})
			}
		}
	}
}

// boundary corpus of the tinyfo subset (FC_VERIF_CORPUS = directory of X.fo + X.expected): the real
// tinyfo binary -> go build -> run; stdout must be the expected text and equal that of fc's translation
func c17Corpus(cfg c17Cfg, dir string) {
	paths, _ := filepath.Glob(filepath.Join(dir, "*.fo"))
	for _, p := range paths {
		b, err := os.ReadFile(p)
		if err != nil {
			continue
		}
		want, _ := os.ReadFile(strings.TrimSuffix(p, ".fo") + ".expected")
		src := string(b)
		vstat("corpus")
		fail := func(why, detail string) {
			if len(detail) > 1500 {
				detail = detail[:1500]
			}
			vViolation(map[string]any{"kind": "corpus program: " + why, "detail": detail, "file": filepath.Base(p), "program": src})
		}
		tgo, terr := c17Tinyfo(cfg, src)
		if terr != "" {
			fail("tinyfo rejected a program of its subset", terr)
			continue
		}
		if berr := c17Build(cfg, tgo, ""); berr != "" {
			fail("the Go tinyfo emitted does not compile", berr)
			continue
		}
		tout, rerr := c17Run(filepath.Join(cfg.workdir, "bin", "t"))
		if rerr != "" {
			fail("the program tinyfo emitted fails at run time", rerr)
			continue
		}
		if tout != string(want) {
			fail("stdout of tinyfo's translation differs from the expected output", "expected:\n"+string(want)+"\nobserved:\n"+tout)
			continue
		}
		if fgo, ferr := vTranspile(src); ferr == "" {
			if berr := c17Build(cfg, "", fgo); berr == "" {
				if fout, e := c17Run(filepath.Join(cfg.workdir, "bin", "f")); e == "" && fout != tout {
					fail("tinyfo's translation and fc's translation print different output", "fc:\n"+fout+"\ntinyfo:\n"+tout)
				}
			}
		}
	}
}

func vC17(seed int64, count int, extra []string) {
	gTiny = true
	cfg := c17Cfg{workdir: extra[0], tinyfo: extra[2]}
	batch, _ := strconv.Atoi(extra[1])
	layouts := len(extra) > 3 && extra[3] == "layouts"
	if dir := os.Getenv("FC_VERIF_CORPUS"); dir != "" {
		c17Corpus(cfg, dir)
	}
	var progs []c01Prog
	for i := 0; i < count; i++ {
		g := newGen(seed*1000003 + int64(i))
		name := "p" + strconv.Itoa(i)
		fs := g.program(name)
		l := &glayout{r: g.r, plain: !layouts || i%2 == 0, minParens: i%3 != 0}
		if l.minParens {
			vstat("minimal-parentheses")
		}
		var sb strings.Builder
		for _, f := range fs {
			sb.WriteString(f.src(l, nil) + "\n")
		}
		progs = append(progs, c01Prog{name: name, funcs: fs, src: sb.String(), plain: l.plain})
		for k, v := range g.feat {
			vstats["feature."+k] += v
		}
		if len(progs) == batch || i == count-1 {
			c17Batch(cfg, progs)
			progs = nil
		}
	}
}
