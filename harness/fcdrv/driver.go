// Injected into /repo/fc (package main) by `go build -overlay` as zz_verif_driver.go; never part of
// the repository. With FC_VERIF unset the binary behaves exactly like fc.
//
// FC_VERIF=<mode> selects a stream; arguments come from FC_VERIF_ARGS ("seed count extra...").
// Output protocol (see /verif/lib/vlib.py): I/O correspondence pairs, V violations, S statistics.
package main

import (
	"bufio"
	"encoding/hex"
	"encoding/json"
	"fmt"
	"os"
	"sort"
	"strconv"
	"strings"
	"sync/atomic"
	"time"
)

// watchdog of the tokenizer stream: the input being scanned is published before the real scanner is
// called; when one input makes no progress for vWatchLimit the process reports that input as a
// violation (a hang is what property C16 excludes) and ends normally, so that the cases before it
// are still compared.  A scan takes microseconds; the limit is far from any load effect.
var vWatchCur atomic.Pointer[[]byte]
var vWatchSeq atomic.Int64
var vWatchOff atomic.Bool

const vWatchLimit = 45 * time.Second

func vWatch(src []byte) {
	vWatchCur.Store(&src)
	if vWatchSeq.Add(1) == 1 {
		go func() {
			last, since := int64(0), time.Now()
			for {
				time.Sleep(time.Second)
				if vWatchOff.Load() {
					return
				}
				if n := vWatchSeq.Load(); n != last {
					last, since = n, time.Now()
				} else if time.Since(since) > vWatchLimit {
					cur := vWatchCur.Load()
					vViolation(map[string]any{"kind": "the tokenizer does not terminate on this input (no progress for 45 s; in-process, real scanners)",
						"source": string(*cur), "source_hex": hex.EncodeToString(*cur),
						"replay": "write the bytes of source_hex to x.fo and run fc x.fo under a timeout"})
					fmt.Fprintf(vout, "S hang 1\n")
					vout.Flush()
					os.Exit(0)
				}
			}
		}()
	}
}

var vout = bufio.NewWriterSize(os.Stdout, 1<<20)
var vstats = map[string]int{}

func vstat(k string) { vstats[k]++ }

func vEmitIO(in, o string) { fmt.Fprintf(vout, "I %s\nO %s\n", in, o) }

func vViolation(v map[string]any) {
	b, _ := json.Marshal(v)
	fmt.Fprintf(vout, "V %s\n", b)
}

func vsx(items ...string) string { return "(" + strings.Join(items, " ") + ")" }
func vsxStr(s string) string     { return "x" + hex.EncodeToString([]byte(s)) }

// transpile one source text with a fresh parse state; panics become an error value
func vTranspile(src string) (res string, err string) {
	defer func() {
		if r := recover(); r != nil {
			err = fmt.Sprint(r)
			if err == "" {
				err = "panic"
			}
		}
	}()
	resetUniqueTmpCounter()
	ps := initParse(src)
	_, stmts := parseAll(ps)
	return RootStmtsToGo(stmts), ""
}

var vFoiSrc string

// transpile with pkg/pkg_all.foi loaded first (as `fc pkg_all.foi file.fo` does)
func vTranspilePkg(src string) (res string, err string) {
	defer func() {
		if r := recover(); r != nil {
			err = fmt.Sprint(r)
			if err == "" {
				err = "panic"
			}
		}
	}()
	if vFoiSrc == "" {
		repo := os.Getenv("FC_VERIF_REPO")
		if repo == "" {
			repo = "/repo"
		}
		b, e := os.ReadFile(repo + "/pkg/pkg_all.foi")
		if e != nil {
			return "", "cannot read pkg_all.foi"
		}
		vFoiSrc = string(b)
	}
	ps := vPkgState()
	ps3 := psSetNewSrc(src, ps)
	_, stmts := parseAll(ps3)
	return RootStmtsToGo(stmts), ""
}

var vFoiScope Scope

// a parse state as it is after `fc pkg_all.foi`: pkg_all.foi is parsed once per process; every call
// starts from a copy of the root scope it produced (the scope dictionaries are mutated in place by
// later definitions).  vFoiSrc must be loaded.
func vPkgState() ParseState {
	if vFoiScope == nil {
		ps0 := initParse(vFoiSrc)
		ps1, _ := parseAll(ps0)
		vFoiScope = ps1.scope
	}
	resetUniqueTmpCounter()
	ps := initParse("")
	sd := NewScopeDict()
	for k, v := range vFoiScope.SDict.VarFacMap.Fdict {
		sd.VarFacMap.Fdict[k] = v
	}
	for k, v := range vFoiScope.SDict.RecFacMap.Fdict {
		sd.RecFacMap.Fdict[k] = v
	}
	for k, v := range vFoiScope.SDict.TypeFacMap.Fdict {
		sd.TypeFacMap.Fdict[k] = v
	}
	ps.scope = NewScopeImpl0(sd)
	return ps
}

func init() {
	mode := os.Getenv("FC_VERIF")
	if mode == "" {
		return
	}
	args := strings.Fields(os.Getenv("FC_VERIF_ARGS"))
	seed, count := int64(1), 100
	if len(args) > 0 {
		seed, _ = strconv.ParseInt(args[0], 10, 64)
	}
	if len(args) > 1 {
		count, _ = strconv.Atoi(args[1])
	}
	extra := []string{}
	if len(args) > 2 {
		extra = args[2:]
	}
	switch mode {
	case "c08":
		vC08(seed, count, extra)
	case "c09":
		vC09(seed, count, extra)
	case "c15":
		vC15(seed, count, extra)
	case "c11":
		vC11(seed, count, extra)
	case "tok":
		vTok(seed, count, extra)
	case "gentry":
		vGenTry(seed, count, extra)
	case "c01":
		vC01(seed, count, extra)
	case "runsrc":
		vRunSrc(extra[0], extra[1:])
	case "c06":
		vC06(seed, count, extra)
	case "c02graph":
		vC02Graph(seed, count, extra)
	case "c06block":
		vC06Block(seed, count, extra)
	case "tsrc":
		vTSrc(extra)
	case "c07":
		vC07(seed, count, extra)
	case "c07key":
		vC07Key(seed, count, extra)
	case "c03":
		vC03(seed, count, extra)
	case "c02":
		vC02(seed, count, extra)
	case "c17":
		vC17(seed, count, extra)
	case "resolve":
		vResolve(seed, count)
	case "transpile-stdin":
		// one hex-encoded source per line -> "ok <hex go>" | "err <hex msg>"
		sc := bufio.NewScanner(os.Stdin)
		sc.Buffer(make([]byte, 1<<20), 1<<26)
		for sc.Scan() {
			b, _ := hex.DecodeString(strings.TrimSpace(sc.Text()))
			res, err := vTranspile(string(b))
			if err != "" {
				fmt.Fprintf(vout, "err %s\n", hex.EncodeToString([]byte(err)))
			} else {
				fmt.Fprintf(vout, "ok %s\n", hex.EncodeToString([]byte(res)))
			}
		}
	default:
		fmt.Fprintln(os.Stderr, "unknown FC_VERIF mode", mode)
		os.Exit(2)
	}
	keys := make([]string, 0, len(vstats))
	for k := range vstats {
		keys = append(keys, k)
	}
	sort.Strings(keys)
	for _, k := range keys {
		fmt.Fprintf(vout, "S %s %d\n", k, vstats[k])
	}
	vout.Flush()
	os.Exit(0)
}
