package main

// Type-directed generator of abstract Folang programs over the documented subset, their rendering to
// source text under a layout (independent random choices at every block, statement, arm and
// operator) and to the S-expression the Lean reference evaluator reads.  Used by C01 (behaviour),
// C06 (layout invariance), C02 (annotation erasure), C07 (independence), C05 (determinism).

import (
	"fmt"
	"math/rand"
	"strconv"
	"strings"
)

// ---------- types

type gty struct {
	k    string // int str bool unit tup slice rec uni fun
	a, b *gty   // tup: a,b ; slice: a
	name string // rec / uni
	ps   []*gty // fun params
	ret  *gty
}

var (
	tInt  = &gty{k: "int"}
	tStr  = &gty{k: "str"}
	tBool = &gty{k: "bool"}
	tUnit = &gty{k: "unit"}
)

func tTup(a, b *gty) *gty         { return &gty{k: "tup", a: a, b: b} }
func tSlice(a *gty) *gty          { return &gty{k: "slice", a: a} }
func tFun(ps []*gty, r *gty) *gty { return &gty{k: "fun", ps: ps, ret: r} }

func (t *gty) eq(u *gty) bool {
	if t.k != u.k {
		return false
	}
	switch t.k {
	case "tup":
		return t.a.eq(u.a) && t.b.eq(u.b)
	case "slice":
		return t.a.eq(u.a)
	case "rec", "uni":
		return t.name == u.name
	case "fun":
		if len(t.ps) != len(u.ps) || !t.ret.eq(u.ret) {
			return false
		}
		for i := range t.ps {
			if !t.ps[i].eq(u.ps[i]) {
				return false
			}
		}
	}
	return true
}

// Folang type expression
func (t *gty) fo() string {
	switch t.k {
	case "int":
		return "int"
	case "str":
		return "string"
	case "bool":
		return "bool"
	case "unit":
		return "()"
	case "tup":
		return t.a.foIn(2) + "*" + t.b.foIn(2)
	case "slice":
		return "[]" + t.a.foIn(2)
	case "rec", "uni":
		return t.name
	case "fun":
		var ps []string
		for _, p := range t.ps {
			ps = append(ps, p.foIn(1))
		}
		return strings.Join(ps, "->") + "->" + t.ret.foIn(1)
	}
	return "?"
}
func (t *gty) foIn(level int) string {
	my := 3
	switch t.k {
	case "fun":
		my = 0
	case "tup":
		my = 1
	}
	if my < level {
		return "(" + t.fo() + ")"
	}
	return t.fo()
}

// ---------- declared types (fixed prelude)

type gField struct {
	name string
	t    *gty
}
type gRecord struct {
	name   string
	fields []gField
}
type gCase struct {
	name    string
	payload *gty // nil = none
}
type gUnion struct {
	name  string
	cases []gCase
}

var gRecords = []gRecord{
	{"Pt", []gField{{"x", tInt}, {"y", tInt}}},
	{"Person", []gField{{"Name", tStr}, {"Age", tInt}}},
	{"Holder", []gField{{"tag", tInt}, {"shape", &gty{k: "uni", name: "Poly"}}}},
}
var gUnions = []gUnion{
	{"Shape", []gCase{{"Circle", tInt}, {"Rect", &gty{k: "rec", name: "Pt"}}, {"Named", tStr}, {"Blank", nil}}},
	{"Opt", []gCase{{"Some", tInt}, {"None", nil}}},
	{"Poly", []gCase{{"Pts", tSlice(tInt)}, {"Nop", nil}}},
}

func gRecOf(name string) *gRecord {
	for i := range gRecords {
		if gRecords[i].name == name {
			return &gRecords[i]
		}
	}
	return nil
}
func gUniOf(name string) *gUnion {
	for i := range gUnions {
		if gUnions[i].name == name {
			return &gUnions[i]
		}
	}
	return nil
}

const gPrelude = `package main

import frt
import slice
import strings

type Pt = {x: int; y: int}

type Person = {Name: string; Age: int}

type Shape =
  | Circle of int
  | Rect of Pt
  | Named of string
  | Blank

type Opt =
  | Some of int
  | None

type Poly =
  | Pts of []int
  | Nop

type Holder = {tag: int; shape: Poly}

let trI (tag:string) (v:int) =
  frt.Println tag
  v

let trS (tag:string) (v:string) =
  frt.Println tag
  v

let trB (tag:string) (v:bool) =
  frt.Println tag
  v

let useLibs () =
  strings.Concat "" (slice.New<string> ())

`

// ---------- abstract syntax

type gnode struct {
	op    string
	s     string   // literal text / name / operator / tag
	n     int      // int literal, arity
	kids  []*gnode // sub-expressions
	names []string // bound names (lam params, let names, arm binders)
	t     *gty
	arms  []*garm
	stmts []*gstmt // block
	parts []gpart  // interp
	fty   []*gty   // lam param types
}
type garm struct {
	pat  string // case name / string literal / "_" default / "$var" variable rule
	bind string // "" none, "_" ignore, else variable
	body *gnode
}
type gstmt struct {
	kind  string // let let2 do
	names []string
	e     *gnode
}
type gpart struct {
	text string
	hole string
}

type gfunc struct {
	name   string
	params []string
	ptys   []*gty
	ret    *gty
	body   *gnode
	annot  []bool // which parameters carry a type annotation
	rec    bool   // recursive on its first (int) parameter: callers pass a small literal there
	retAnn bool   // the result type is annotated (needed for recursion)
}

// ---------- S-expression (for the reference evaluator)

func (e *gnode) sx() string {
	kids := func() []string {
		var r []string
		for _, k := range e.kids {
			r = append(r, k.sx())
		}
		return r
	}
	switch e.op {
	case "int":
		return vsx("int", strconv.Itoa(e.n))
	case "str":
		return vsx("str", vsxStr(e.s))
	case "bool":
		return vsx("bool", e.s)
	case "unit":
		return "(unit)"
	case "var":
		return vsx("var", e.s)
	case "bin":
		return vsx(append([]string{"bin", e.s}, kids()...)...)
	case "call":
		return vsx(append([]string{"call", e.s, strconv.Itoa(e.n)}, kids()...)...)
	case "lam":
		return vsx("lam", vsx(e.names...), e.kids[0].sx())
	case "block":
		var ss []string
		for _, s := range e.stmts {
			ss = append(ss, vsx(append(append([]string{s.kind}, s.names...), s.e.sx())...))
		}
		return vsx("block", vsx(ss...), e.kids[0].sx())
	case "rec":
		parts := []string{"rec", e.s}
		for i, k := range e.kids {
			parts = append(parts, vsx(e.names[i], k.sx()))
		}
		return vsx(parts...)
	case "fld":
		return vsx("fld", e.kids[0].sx(), e.s)
	case "ctor":
		return vsx(append([]string{"ctor", e.s}, kids()...)...)
	case "matchu", "matchs":
		parts := []string{e.op, e.kids[0].sx()}
		for _, a := range e.arms {
			p := a.pat
			if e.op == "matchs" && !strings.HasPrefix(p, "_") && !strings.HasPrefix(p, "$") {
				p = vsxStr(p)
			}
			b := a.bind
			if b == "" {
				b = "-"
			}
			parts = append(parts, vsx(p, b, a.body.sx()))
		}
		return vsx(parts...)
	case "interp":
		parts := []string{"interp"}
		for _, p := range e.parts {
			if p.hole != "" {
				parts = append(parts, vsx("h", p.hole))
			} else {
				parts = append(parts, vsx("t", vsxStr(p.text)))
			}
		}
		return vsx(parts...)
	case "printf1", "sprintf1":
		return vsx(e.op, vsxStr(e.s), e.kids[0].sx())
	case "tr":
		return vsx("tr", vsxStr(e.s), e.kids[0].sx())
	default: // not if ifonly callv pipe tup fst snd slice len map filter head concat println fold
		return vsx(append([]string{e.op}, kids()...)...)
	}
}

func (f *gfunc) sx() string {
	return vsx("fun", f.name, vsx(f.params...), f.body.sx())
}

// ---------- layout

type glayout struct {
	r         *rand.Rand
	plain     bool // canonical layout: indent 2, no decoration, multi-line forms
	comment   int
	minParens bool // binary operands carry only the parentheses the operator table requires
}

var gOpRank = map[string]int{"&&": 2, "||": 2, "<": 2, ">": 2, "<=": 2, ">=": 2, "=": 3, "<>": 3, "+": 4, "-": 4, "*": 5, "/": 5}

func (l *glayout) indentDelta() int {
	if l.plain {
		return 2
	}
	return 1 + l.r.Intn(7)
}
func (l *glayout) flip(n int) bool {
	if l.plain {
		return false
	}
	return l.r.Intn(n) == 0
}

// decoration after a complete line: trailing blanks, comments
func (l *glayout) eol() string {
	if l.plain {
		return ""
	}
	switch l.r.Intn(9) {
	case 0:
		return "  "
	case 1:
		return " // c" + strconv.Itoa(l.r.Intn(9))
	case 2:
		return " /* b */"
	case 3:
		return "\t"
	}
	return ""
}

// extra lines between statements / arms / definitions: blank lines, comment-only lines
func (l *glayout) between(ind string) string {
	if l.plain {
		return ""
	}
	switch l.r.Intn(10) {
	case 0:
		return "\n"
	case 1:
		return ind + "// note\n"
	case 2:
		return "\n" + strings.Repeat(" ", l.r.Intn(6)) + "// unaligned comment\n\n"
	case 3:
		return ind + "/* block\n   comment */\n"
	}
	return ""
}

// ---------- rendering

func gIsAtomic(e *gnode) bool {
	switch e.op {
	case "int":
		return e.n >= 0
	case "slice":
		return len(e.kids) > 0 && !gTiny // tinyfo: a slice literal is a term, not an atom
	case "str", "bool", "unit", "var", "rec", "interp", "tup":
		return true
	case "fld":
		return e.kids[0].op == "var"
	}
	return false
}

// inline (single line) rendering; used for operands, arguments, one-line forms
func (e *gnode) inline(l *glayout) string {
	arg := func(k *gnode) string {
		if gIsAtomic(k) {
			return k.inline(l)
		}
		return "(" + k.inline(l) + ")"
	}
	switch e.op {
	case "int":
		if e.n < 0 {
			return "0 - " + strconv.Itoa(-e.n)
		}
		return strconv.Itoa(e.n)
	case "str":
		return strconv.Quote(e.s)
	case "bool":
		return e.s
	case "unit":
		return "()"
	case "var":
		return e.s
	case "bin":
		if l.minParens {
			// only the parentheses the operator table requires (ranks as published; equal ranks
			// associate to the left; application binds tighter than every operator)
			my := gOpRank[e.s]
			opnd := func(k *gnode, right bool) string {
				switch k.op {
				case "bin":
					r := gOpRank[k.s]
					if r > my || (r == my && !right) {
						return k.inline(l)
					}
				case "call", "tr", "len", "fst", "snd", "sprintf1", "concat":
					if len(k.kids) > 0 {
						return k.inline(l)
					}
				case "not":
					// `not` takes one TERM: not a && b is (not a) && b
					return k.inline(l)
				}
				return arg(k)
			}
			return opnd(e.kids[0], false) + " " + e.s + " " + opnd(e.kids[1], true)
		}
		return arg(e.kids[0]) + " " + e.s + " " + arg(e.kids[1])
	case "not":
		return "not " + arg(e.kids[0])
	case "if":
		return "if " + e.kids[0].inline(l) + " then " + e.kids[1].inline(l) + " else " + e.kids[2].inline(l)
	case "call":
		parts := []string{e.s}
		for _, k := range e.kids {
			parts = append(parts, arg(k))
		}
		if len(e.kids) == 0 {
			parts = append(parts, "()")
		}
		return strings.Join(parts, " ")
	case "callv":
		parts := []string{}
		for _, k := range e.kids {
			parts = append(parts, arg(k))
		}
		return strings.Join(parts, " ")
	case "lam":
		var ps []string
		for i, n := range e.names {
			ps = append(ps, "("+n+":"+e.fty[i].fo()+")")
		}
		return "fun " + strings.Join(ps, " ") + " -> " + e.kids[0].inline(l)
	case "pipe":
		return arg(e.kids[0]) + " |> " + e.kids[1].pipeRhs(l)
	case "tup":
		return "(" + e.kids[0].inline(l) + ", " + e.kids[1].inline(l) + ")"
	case "fst":
		return "frt.Fst " + arg(e.kids[0])
	case "snd":
		return "frt.Snd " + arg(e.kids[0])
	case "rec":
		var fs []string
		for i, k := range e.kids {
			fs = append(fs, e.names[i]+"="+k.inline(l))
		}
		return "{" + strings.Join(fs, "; ") + "}"
	case "fld":
		return arg(e.kids[0]) + "." + e.s
	case "slice":
		if len(e.kids) == 0 {
			return "slice.New<" + e.t.a.fo() + "> ()"
		}
		var es []string
		for _, k := range e.kids {
			es = append(es, k.inline(l))
		}
		return "[" + strings.Join(es, "; ") + "]"
	case "ctor":
		if len(e.kids) == 0 {
			return e.s
		}
		return e.s + " " + arg(e.kids[0])
	case "interp":
		var sb strings.Builder
		sb.WriteString("$\"")
		for _, p := range e.parts {
			if p.hole != "" {
				sb.WriteString("{" + p.hole + "}")
			} else {
				sb.WriteString(p.text)
			}
		}
		sb.WriteString("\"")
		return sb.String()
	case "len":
		return "slice.Length " + arg(e.kids[0])
	case "head":
		return "slice.Head " + arg(e.kids[0])
	case "map":
		return "slice.Map " + arg(e.kids[0]) + " " + arg(e.kids[1])
	case "filter":
		return "slice.Filter " + arg(e.kids[0]) + " " + arg(e.kids[1])
	case "fold":
		return "slice.Fold " + arg(e.kids[0]) + " " + arg(e.kids[1]) + " " + arg(e.kids[2])
	case "concat":
		return "strings.Concat " + arg(e.kids[0]) + " " + arg(e.kids[1])
	case "println":
		return "frt.Println " + arg(e.kids[0])
	case "printf1":
		return "frt.Printf1 " + strconv.Quote(e.s) + " " + arg(e.kids[0])
	case "sprintf1":
		return "frt.Sprintf1 " + strconv.Quote(e.s) + " " + arg(e.kids[0])
	case "tr":
		fn := map[string]string{"int": "trI", "str": "trS", "bool": "trB"}[e.t.k]
		return fn + " " + strconv.Quote(e.s) + " " + arg(e.kids[0])
	}
	return "/*?" + e.op + "*/"
}

// right-hand side of a pipe: a function-valued expression without surrounding parentheses when it is
// a partial application
func (e *gnode) pipeRhs(l *glayout) string {
	if e.op == "lam" {
		return "(" + e.inline(l) + ")"
	}
	return e.inline(l)
}

func (e *gnode) isInlineable() bool {
	switch e.op {
	case "block", "matchu", "matchs", "ifonly":
		return false
	case "if":
		for _, k := range e.kids {
			if !k.isInlineable() || k.op == "if" {
				return false
			}
		}
		return true
	case "lam":
		return e.kids[0].isInlineable() && e.kids[0].op != "if"
	}
	for _, k := range e.kids {
		if !k.isInlineable() {
			return false
		}
	}
	return true
}

// statement-level rendering: the expression starts at the current position (column `col` of the
// first line is where the caller put it); continuation lines are indented relative to `ind`
// (the column of the enclosing block).  Returns text without a trailing newline.
func (e *gnode) stmt(l *glayout, ind string) string {
	switch e.op {
	case "block":
		// a block is rendered by its owner (needs its own line structure)
		return e.blockLines(l, ind)
	case "if":
		if e.isInlineable() && l.flip(2) {
			return e.inline(l)
		}
		return e.ifLines(l, ind, "if ")
	case "ifonly":
		in2 := ind + strings.Repeat(" ", l.indentDelta())
		return "if " + e.kids[0].inline(l) + " then" + l.eol() + "\n" + e.kids[1].asBlock(l, in2)
	case "matchu", "matchs":
		var sb strings.Builder
		sb.WriteString("match " + e.kids[0].inline(l) + " with" + l.eol() + "\n")
		for i, a := range e.arms {
			sb.WriteString(l.between(ind))
			pat := a.pat
			switch {
			case e.op == "matchs" && strings.HasPrefix(pat, "$"):
				pat = pat[1:]
			case e.op == "matchs" && pat != "_":
				pat = strconv.Quote(pat)
			}
			if a.bind != "" {
				pat += " " + a.bind
			}
			sb.WriteString(ind + "| " + pat + " ->")
			if a.body.isInlineable() && a.body.op != "if" && !l.flip(3) {
				sb.WriteString(" " + a.body.inline(l) + l.eol())
			} else {
				in2 := ind + strings.Repeat(" ", 1+l.indentDelta())
				sb.WriteString(l.eol() + "\n" + a.body.asBlock(l, in2))
			}
			if i < len(e.arms)-1 {
				sb.WriteString("\n")
			}
		}
		return sb.String()
	case "pipe":
		// break the pipeline before any |> (continuation lines at the block column or deeper)
		if l.flip(2) || l.plain {
			return e.inline(l)
		}
		var stages []*gnode
		cur := e
		for cur.op == "pipe" {
			stages = append([]*gnode{cur.kids[1]}, stages...)
			cur = cur.kids[0]
		}
		var sb strings.Builder
		if gIsAtomic(cur) {
			sb.WriteString(cur.inline(l))
		} else {
			sb.WriteString("(" + cur.inline(l) + ")")
		}
		for _, s := range stages {
			if l.flip(3) {
				sb.WriteString(" |> " + s.pipeRhs(l))
			} else {
				sb.WriteString(l.eol() + "\n" + ind + strings.Repeat(" ", l.r.Intn(4)) + "|> " + s.pipeRhs(l))
			}
		}
		return sb.String()
	}
	return e.inline(l)
}

func (e *gnode) ifLines(l *glayout, ind string, kw string) string {
	in2 := ind + strings.Repeat(" ", l.indentDelta())
	var sb strings.Builder
	sb.WriteString(kw + e.kids[0].inline(l) + " then" + l.eol() + "\n")
	sb.WriteString(e.kids[1].asBlock(l, in2) + "\n")
	sb.WriteString(l.between(ind))
	el := e.kids[2]
	if el.op == "if" && !(el.isInlineable() && l.flip(3)) {
		sb.WriteString(ind + el.ifLines(l, ind, "elif "))
	} else {
		in3 := ind + strings.Repeat(" ", l.indentDelta())
		sb.WriteString(ind + "else" + l.eol() + "\n" + el.asBlock(l, in3))
	}
	return sb.String()
}

// render `e` as the lines of a block whose statements sit at column `ind` (text includes the
// indentation of every line, no trailing newline)
func (e *gnode) asBlock(l *glayout, ind string) string {
	if e.op == "block" {
		return e.blockLines(l, ind)
	}
	return ind + gNoLeadInterp(e.stmt(l, ind)) + l.eol()
}

// a line must not START with an interpolated literal: its token begins one byte late (known finding
// D13), which moves the statement into a block that is one column deeper.  The literal is
// parenthesised instead.
func gNoLeadInterp(txt string) string {
	if !strings.HasPrefix(txt, "$\"") {
		return txt
	}
	end := strings.Index(txt[2:], "\"")
	if end < 0 {
		return txt
	}
	end += 3
	return "(" + txt[:end] + ")" + txt[end:]
}

func (e *gnode) blockLines(l *glayout, ind string) string {
	var sb strings.Builder
	for _, s := range e.stmts {
		sb.WriteString(l.between(ind))
		sb.WriteString(ind)
		switch s.kind {
		case "let", "let2":
			if s.kind == "let" {
				sb.WriteString("let " + s.names[0] + " =")
			} else {
				sb.WriteString("let (" + s.names[0] + ", " + s.names[1] + ") =")
			}
			switch {
			case gTiny && s.e.isInlineable():
				// tinyfo: the right-hand side starts on the line of the `let`
				sb.WriteString(" " + s.e.inline(l) + l.eol())
			case gTiny:
				in2 := ind + strings.Repeat(" ", l.indentDelta())
				sb.WriteString(" " + s.e.stmt(l, in2) + l.eol())
			case s.e.op == "lam" && !s.e.kids[0].isInlineable():
				// a local function with a block body
				var ps []string
				for i, n := range s.e.names {
					ps = append(ps, "("+n+":"+s.e.fty[i].fo()+")")
				}
				in2 := ind + strings.Repeat(" ", l.indentDelta())
				sb.WriteString(" fun " + strings.Join(ps, " ") + " ->" + l.eol() + "\n" + s.e.kids[0].asBlock(l, in2))
			case s.e.isInlineable() && s.e.op != "pipe" && (s.e.op != "if" || true) && !l.flip(4):
				sb.WriteString(" " + s.e.inline(l) + l.eol())
			case s.e.isInlineable() && s.e.op != "pipe":
				// right-hand side on the next line
				in2 := ind + strings.Repeat(" ", l.indentDelta())
				// (blank or comment-only lines may stand between the `=` and the right-hand side)
				sb.WriteString(l.eol() + "\n" + l.between(in2) + in2 + gNoLeadInterp(s.e.inline(l)) + l.eol())
			default:
				// multi-line right-hand side starts on the next line, as a block of its own
				in2 := ind + strings.Repeat(" ", l.indentDelta())
				sb.WriteString(l.eol() + "\n" + s.e.asBlock(l, in2))
			}
		case "do":
			sb.WriteString(gNoLeadInterp(s.e.stmt(l, ind)) + l.eol())
		}
		sb.WriteString("\n")
	}
	sb.WriteString(l.between(ind))
	sb.WriteString(ind + gNoLeadInterp(e.kids[0].stmt(l, ind)) + l.eol())
	return sb.String()
}

func (f *gfunc) src(l *glayout, erase []bool) string {
	var sb strings.Builder
	sb.WriteString("let " + f.name)
	if len(f.params) == 0 {
		sb.WriteString(" ()")
	}
	for i, p := range f.params {
		if erase != nil && erase[i] {
			sb.WriteString(" " + p)
		} else {
			sb.WriteString(" (" + p + ":" + f.ptys[i].fo() + ")")
		}
	}
	if f.retAnn {
		sb.WriteString(" : " + f.ret.fo())
	}
	sb.WriteString(" =" + l.eol() + "\n")
	ind := strings.Repeat(" ", l.indentDelta())
	sb.WriteString(f.body.asBlock(l, ind))
	sb.WriteString("\n")
	return sb.String()
}

// ---------- generation

type genv struct {
	vars  []gvar
	funcs []*gfunc // callable top-level functions (defined earlier)
}
type gvar struct {
	name string
	t    *gty
}

type ggen struct {
	r     *rand.Rand
	seq   int
	tags  int
	funcs []*gfunc
	feat  map[string]int
	nest  int  // depth of nested partial applications being generated
	noMul bool // inside a recursive function: no multiplication (integers must stay small: the models do not wrap)
}

// bound names run through the whole identifier alphabet: a first letter a-z, prefix, number, one more letter
const gAlphabet = "abcdefghijklmnopqrstuvwxyzABCDEFGHIJKLMNOPQRSTUVWXYZ_"

func (g *ggen) fresh(p string) string {
	g.seq++
	return string(gAlphabet[(g.seq*5+len(p))%26]) + p + strconv.Itoa(g.seq) + string(gAlphabet[(g.seq*7+len(p))%len(gAlphabet)])
}
func (g *ggen) tag() string  { g.tags++; return "t" + strconv.Itoa(g.tags) }
func (g *ggen) hit(f string) { g.feat[f]++ }

func (env genv) with(name string, t *gty) genv {
	nv := append(append([]gvar{}, env.vars...), gvar{name, t})
	return genv{nv, env.funcs}
}
func (env genv) varsOf(t *gty) []gvar {
	var r []gvar
	for _, v := range env.vars {
		if v.t.eq(t) {
			r = append(r, v)
		}
	}
	return r
}

var gWords = []string{"a", "bb", "", "x y", "Q", "100%"}

func (g *ggen) lit(t *gty) *gnode {
	switch t.k {
	case "int":
		return &gnode{op: "int", n: g.r.Intn(12) - 3, t: t}
	case "str":
		return &gnode{op: "str", s: gWords[g.r.Intn(len(gWords))], t: t}
	case "bool":
		return &gnode{op: "bool", s: []string{"true", "false"}[g.r.Intn(2)], t: t}
	case "unit":
		return &gnode{op: "unit", t: t}
	case "tup":
		return &gnode{op: "tup", kids: []*gnode{g.lit(t.a), g.lit(t.b)}, t: t}
	case "slice":
		n := g.r.Intn(4)
		if gTiny && n == 0 {
			n = 1
		}
		e := &gnode{op: "slice", t: t}
		for i := 0; i < n; i++ {
			e.kids = append(e.kids, g.lit(t.a))
		}
		return e
	case "rec":
		rd := gRecOf(t.name)
		e := &gnode{op: "rec", s: t.name, t: t}
		for _, f := range rd.fields {
			e.names = append(e.names, f.name)
			e.kids = append(e.kids, g.lit(f.t))
		}
		return e
	case "uni":
		ud := gUniOf(t.name)
		c := ud.cases[g.r.Intn(len(ud.cases))]
		e := &gnode{op: "ctor", s: c.name, t: t}
		if c.payload != nil {
			e.kids = []*gnode{g.lit(c.payload)}
		}
		return e
	case "fun":
		return g.lambda(genv{funcs: gHelperFuncs()}, t, 1)
	}
	return &gnode{op: "unit", t: tUnit}
}

func (g *ggen) lambda(env genv, t *gty, d int) *gnode {
	if gTiny {
		// the tinyfo profile has no `fun`: every function value is a partial application
		if e := g.partialOf(env, t); e != nil {
			return e
		}
		panic("tiny profile: no partial application of type " + t.fo())
	}
	e := &gnode{op: "lam", t: t, fty: t.ps}
	env2 := env
	for _, p := range t.ps {
		n := g.fresh("p")
		e.names = append(e.names, n)
		env2 = env2.with(n, p)
	}
	e.kids = []*gnode{g.inline(env2, t.ret, d-1)}
	g.hit("lambda")
	return e
}

// inline expression of type t
func (g *ggen) inline(env genv, t *gty, d int) *gnode {
	vs := env.varsOf(t)
	if d <= 0 || g.r.Intn(5) == 0 {
		if len(vs) > 0 && g.r.Intn(3) != 0 {
			return &gnode{op: "var", s: vs[g.r.Intn(len(vs))].name, t: t}
		}
		return g.lit(t)
	}
	// calls of earlier top-level functions returning t (full application)
	var cands []*gfunc
	for _, f := range env.funcs {
		if f.ret.eq(t) {
			cands = append(cands, f)
		}
	}
	if len(cands) > 0 && g.r.Intn(4) == 0 {
		f := cands[g.r.Intn(len(cands))]
		e := &gnode{op: "call", s: f.name, n: len(f.params), t: t}
		for i, pt := range f.ptys {
			if f.rec && i == 0 {
				e.kids = append(e.kids, &gnode{op: "int", n: g.r.Intn(5), t: tInt})
				g.hit("recursive-call")
				continue
			}
			e.kids = append(e.kids, g.inline(env, pt, d-1))
		}
		g.hit("call-full")
		return e
	}
	// field of a record variable / tuple projections giving t
	for _, v := range env.vars {
		if v.t.k == "rec" && g.r.Intn(4) == 0 {
			for _, f := range gRecOf(v.t.name).fields {
				if f.t.eq(t) {
					g.hit("field-access")
					return &gnode{op: "fld", s: f.name, kids: []*gnode{{op: "var", s: v.name, t: v.t}}, t: t}
				}
			}
		}
		if v.t.k == "tup" && g.r.Intn(4) == 0 {
			if v.t.a.eq(t) {
				g.hit("fst")
				return &gnode{op: "fst", kids: []*gnode{{op: "var", s: v.name, t: v.t}}, t: t}
			}
			if v.t.b.eq(t) {
				g.hit("snd")
				return &gnode{op: "snd", kids: []*gnode{{op: "var", s: v.name, t: v.t}}, t: t}
			}
		}
		if v.t.k == "fun" && v.t.ret.eq(t) && g.r.Intn(3) == 0 {
			e := &gnode{op: "callv", t: t, kids: []*gnode{{op: "var", s: v.name, t: v.t}}}
			for _, pt := range v.t.ps {
				e.kids = append(e.kids, g.inline(env, pt, d-1))
			}
			g.hit("call-value")
			return e
		}
	}
	switch t.k {
	case "int":
		switch g.r.Intn(9) {
		case 0, 1:
			op := []string{"+", "-", "*"}[g.r.Intn(3)]
			if (gTiny || g.noMul) && op == "*" {
				op = "-"
			}
			if !gTiny && g.r.Intn(6) == 0 {
				// integer division by a positive literal (Go truncates toward zero; no division by zero)
				g.hit("division")
				return &gnode{op: "bin", s: "/", kids: []*gnode{g.inline(env, tInt, d-1), {op: "int", n: 1 + g.r.Intn(4), t: tInt}}, t: t}
			}
			if !gTiny && op == "*" && g.r.Intn(2) == 0 {
				// a / k * b: division and multiplication share one rank and associate to the left
				g.hit("division")
				l := &gnode{op: "bin", s: "/", kids: []*gnode{g.inline(env, tInt, d-1), {op: "int", n: 1 + g.r.Intn(4), t: tInt}}, t: t}
				return &gnode{op: "bin", s: "*", kids: []*gnode{l, g.inline(env, tInt, d-1)}, t: t}
			}
			return &gnode{op: "bin", s: op, kids: []*gnode{g.inline(env, tInt, d-1), g.inline(env, tInt, d-1)}, t: t}
		case 2:
			g.hit("trace")
			return &gnode{op: "tr", s: g.tag(), kids: []*gnode{g.inline(env, tInt, d-1)}, t: t}
		case 3:
			g.hit("if-inline")
			return &gnode{op: "if", kids: []*gnode{g.inline(env, tBool, d-1), g.inline(env, tInt, d-1), g.inline(env, tInt, d-1)}, t: t}
		case 4:
			g.hit("slice-length")
			return &gnode{op: "len", kids: []*gnode{g.inline(env, tSlice(tInt), d-1)}, t: t}
		case 5:
			// pipe into a partial application or a lambda
			g.hit("pipe")
			f := g.funcValue(env, tFun([]*gty{tInt}, tInt), d-1)
			return &gnode{op: "pipe", kids: []*gnode{g.inline(env, tInt, d-1), f}, t: t}
		case 6:
			g.hit("fold")
			f := g.lambda(env, tFun([]*gty{tInt, tInt}, tInt), d-1)
			return &gnode{op: "fold", kids: []*gnode{f, g.inline(env, tInt, 0), g.inline(env, tSlice(tInt), d-1)}, t: t}
		}
	case "str":
		switch g.r.Intn(8) {
		case 0:
			return &gnode{op: "bin", s: "+", kids: []*gnode{g.inline(env, tStr, d-1), g.inline(env, tStr, d-1)}, t: t}
		case 1:
			g.hit("trace")
			return &gnode{op: "tr", s: g.tag(), kids: []*gnode{g.inline(env, tStr, d-1)}, t: t}
		case 2:
			g.hit("sprintf1")
			return &gnode{op: "sprintf1", s: "<%d>", kids: []*gnode{g.inline(env, tInt, d-1)}, t: t}
		case 3:
			if gTiny {
				break
			}
			// interpolation over variables in scope
			e := &gnode{op: "interp", t: t}
			for i := 0; i < 1+g.r.Intn(3); i++ {
				e.parts = append(e.parts, gpart{text: []string{"v=", " ", "[", "] ", "100% "}[g.r.Intn(5)]})
				var hs []gvar
				for _, v := range env.vars {
					if v.t.k == "int" || v.t.k == "str" || v.t.k == "bool" {
						hs = append(hs, v)
					}
				}
				if len(hs) > 0 {
					e.parts = append(e.parts, gpart{hole: hs[g.r.Intn(len(hs))].name})
				}
			}
			g.hit("interpolation")
			return e
		case 4:
			g.hit("strings-concat")
			return &gnode{op: "concat", kids: []*gnode{g.lit(tStr), g.inline(env, tSlice(tStr), d-1)}, t: t}
		case 5:
			g.hit("if-inline")
			return &gnode{op: "if", kids: []*gnode{g.inline(env, tBool, d-1), g.inline(env, tStr, d-1), g.inline(env, tStr, d-1)}, t: t}
		}
	case "bool":
		switch g.r.Intn(8) {
		case 0, 1:
			op := []string{"<", ">", "<=", ">="}[g.r.Intn(4)]
			return &gnode{op: "bin", s: op, kids: []*gnode{g.inline(env, tInt, d-1), g.inline(env, tInt, d-1)}, t: t}
		case 2:
			op := []string{"&&", "||"}[g.r.Intn(2)]
			g.hit("short-circuit")
			return &gnode{op: "bin", s: op, kids: []*gnode{g.inline(env, tBool, d-1), g.inline(env, tBool, d-1)}, t: t}
		case 3:
			g.hit("not")
			return &gnode{op: "not", kids: []*gnode{g.inline(env, tBool, d-1)}, t: t}
		case 4:
			g.hit("trace")
			return &gnode{op: "tr", s: g.tag(), kids: []*gnode{g.inline(env, tBool, d-1)}, t: t}
		case 5:
			// structural equality on a first-order type
			et := []*gty{tInt, tStr, {k: "rec", name: "Pt"}, tSlice(tInt), tTup(tInt, tStr), {k: "uni", name: "Opt"},
				{k: "rec", name: "Holder"}, {k: "uni", name: "Poly"}}[g.r.Intn(8)]
			g.hit("equality-" + et.k)
			lhs := g.inline(env, et, d-1)
			rhs := lhs // half of the comparisons are between equal values (the same expression twice)
			if g.r.Intn(2) == 0 {
				rhs = g.inline(env, et, d-1)
			} else {
				g.hit("equality-of-equal-values")
			}
			return &gnode{op: "bin", s: []string{"=", "<>"}[g.r.Intn(2)], kids: []*gnode{lhs, rhs}, t: t}
		}
	case "slice":
		switch g.r.Intn(5) {
		case 0:
			if t.a.k == "int" || t.a.k == "str" {
				g.hit("slice-map")
				f := g.funcValue(env, tFun([]*gty{tInt}, t.a), d-1)
				return &gnode{op: "map", kids: []*gnode{f, g.inline(env, tSlice(tInt), d-1)}, t: t}
			}
		case 1:
			if gTiny && t.a.k != "int" && t.a.k != "str" {
				break
			}
			g.hit("slice-filter")
			f := g.funcValue(env, tFun([]*gty{t.a}, tBool), d-1)
			return &gnode{op: "filter", kids: []*gnode{f, g.inline(env, t, d-1)}, t: t}
		case 2:
			e := &gnode{op: "slice", t: t}
			for i := 0; i < 1+g.r.Intn(3); i++ {
				e.kids = append(e.kids, g.inline(env, t.a, d-1))
			}
			return e
		}
	case "tup":
		return &gnode{op: "tup", kids: []*gnode{g.inline(env, t.a, d-1), g.inline(env, t.b, d-1)}, t: t}
	case "rec":
		rd := gRecOf(t.name)
		e := &gnode{op: "rec", s: t.name, t: t}
		for _, f := range rd.fields {
			e.names = append(e.names, f.name)
			e.kids = append(e.kids, g.inline(env, f.t, d-1))
		}
		g.hit("record-literal")
		return e
	case "uni":
		ud := gUniOf(t.name)
		c := ud.cases[g.r.Intn(len(ud.cases))]
		e := &gnode{op: "ctor", s: c.name, t: t}
		if c.payload != nil {
			e.kids = []*gnode{g.inline(env, c.payload, d-1)}
		}
		g.hit("union-ctor")
		return e
	case "fun":
		return g.funcValue(env, t, d)
	}
	if len(vs) > 0 {
		return &gnode{op: "var", s: vs[g.r.Intn(len(vs))].name, t: t}
	}
	return g.lit(t)
}

// a function-valued expression of type t: variable, partial application of a top-level function,
// or a lambda
func (g *ggen) funcValue(env genv, t *gty, d int) *gnode {
	vs := env.varsOf(t)
	if len(vs) > 0 && g.r.Intn(3) == 0 {
		return &gnode{op: "var", s: vs[g.r.Intn(len(vs))].name, t: t}
	}
	if g.r.Intn(3) != 0 {
		if e := g.partialOf(env, t); e != nil {
			return e
		}
	}
	return g.lambda(env, t, d)
}

// partial application: f with params ps ++ t.ps returning t.ret, applied to effect-free arguments
// (known finding D9); nil when no function in scope fits
func (g *ggen) partialOf(env genv, t *gty) *gnode {
	var cands []*gfunc
	for _, f := range env.funcs {
		k := len(f.ptys) - len(t.ps)
		if k >= 1 && f.ret.eq(t.ret) {
			ok := true
			for i := range t.ps {
				if !f.ptys[k+i].eq(t.ps[i]) {
					ok = false
				}
			}
			if ok {
				cands = append(cands, f)
			}
		}
	}
	if len(cands) == 0 {
		return nil
	}
	f := cands[g.r.Intn(len(cands))]
	if !gTiny && g.nest == 0 && g.r.Intn(3) == 0 {
		// favour a function-typed given argument (nested partial applications)
		for _, c := range cands {
			if c.ptys[0].k == "fun" {
				f = c
			}
		}
	}
	k := len(f.ptys) - len(t.ps)
	e := &gnode{op: "call", s: f.name, n: len(f.params), t: t}
	for i := 0; i < k; i++ {
		if f.rec && i == 0 {
			e.kids = append(e.kids, &gnode{op: "int", n: g.r.Intn(5), t: tInt})
			continue
		}
		// fc evaluates the given arguments where the partial application stands (fix of D9): any
		// expression of a first-order type may be given.  tinyfo keeps them inside the closure:
		// its profile stays with effect-free arguments.
		if !gTiny && g.nest > 0 && f.ptys[i].k == "int" && g.r.Intn(3) != 0 {
			// inside a nested partial application: an argument whose evaluation is visible
			e.kids = append(e.kids, &gnode{op: "tr", s: g.tag(), kids: []*gnode{g.inline(env, tInt, 1)}, t: tInt})
			g.hit("partial-application-nested-traced-argument")
			continue
		}
		if !gTiny && f.ptys[i].k != "fun" && g.r.Intn(2) == 0 {
			e.kids = append(e.kids, g.inline(env, f.ptys[i], 1))
			g.hit("partial-application-computed-argument")
			continue
		}
		if !gTiny && f.ptys[i].k == "fun" && g.nest < 2 && g.r.Intn(4) != 0 {
			// a partial application as the given argument of a partial application; its own given
			// arguments may be computed (evaluated once, where the outer partial application stands)
			g.nest++
			in := g.partialOf(env, f.ptys[i])
			g.nest--
			if in != nil {
				e.kids = append(e.kids, in)
				g.hit("partial-application-nested")
				continue
			}
		}
		e.kids = append(e.kids, g.pure(env, f.ptys[i]))
	}
	g.hit("partial-application")
	return e
}

// effect-free expression: variable or literal
func (g *ggen) pure(env genv, t *gty) *gnode {
	vs := env.varsOf(t)
	if len(vs) > 0 && g.r.Intn(2) == 0 {
		return &gnode{op: "var", s: vs[g.r.Intn(len(vs))].name, t: t}
	}
	return g.lit(t)
}

// statement-level expression of type t (may be multi-line: block-if, match, nested block)
func (g *ggen) stmtExpr(env genv, t *gty, d int) *gnode {
	if d <= 0 {
		return g.inline(env, t, 1)
	}
	switch g.r.Intn(7) {
	case 0: // if / elif / else with block branches
		g.hit("if-block")
		e := &gnode{op: "if", t: t, kids: []*gnode{g.inline(env, tBool, 2), g.block(env, t, d-1), nil}}
		if g.r.Intn(3) == 0 {
			g.hit("elif")
			e.kids[2] = &gnode{op: "if", t: t, kids: []*gnode{g.inline(env, tBool, 2), g.block(env, t, d-1), g.block(env, t, d-1)}}
		} else {
			e.kids[2] = g.block(env, t, d-1)
		}
		return e
	case 1: // match on a union
		ut := []*gty{{k: "uni", name: "Shape"}, {k: "uni", name: "Opt"}}[g.r.Intn(2)]
		ud := gUniOf(ut.name)
		e := &gnode{op: "matchu", t: t, kids: []*gnode{g.inline(env, ut, 2)}}
		perm := g.r.Perm(len(ud.cases))
		useDefault := g.r.Intn(3) == 0
		n := len(perm)
		if useDefault {
			n = 1 + g.r.Intn(len(perm))
		}
		for _, ci := range perm[:n] {
			c := ud.cases[ci]
			a := &garm{pat: c.name}
			env2 := env
			if c.payload != nil {
				switch g.r.Intn(3) {
				case 0:
					a.bind = "_"
				case 1:
					a.bind = ""
				default:
					a.bind = g.fresh("m")
					env2 = env.with(a.bind, c.payload)
				}
			}
			a.body = g.armBody(env2, t, d-1)
			if a.bind != "" && a.bind != "_" {
				a.body = g.ensureUsed(a.body, a.bind, c.payload)
			}
			e.arms = append(e.arms, a)
		}
		if useDefault {
			e.arms = append(e.arms, &garm{pat: "_", body: g.armBody(env, t, d-1)})
			g.hit("match-default")
		}
		g.hit("match-union")
		return e
	case 2: // match on a string
		if gTiny {
			break
		}
		e := &gnode{op: "matchs", t: t, kids: []*gnode{g.inline(env, tStr, 2)}}
		used := map[string]bool{}
		for i := 0; i < 1+g.r.Intn(3); i++ {
			w := gWords[g.r.Intn(len(gWords))]
			if used[w] || w == "100%" {
				continue
			}
			used[w] = true
			e.arms = append(e.arms, &garm{pat: w, body: g.armBody(env, t, d-1)})
		}
		if len(e.arms) == 0 {
			e.arms = append(e.arms, &garm{pat: "zz", body: g.armBody(env, t, d-1)})
		}
		if g.r.Intn(2) == 0 {
			e.arms = append(e.arms, &garm{pat: "_", body: g.armBody(env, t, d-1)})
		} else {
			v := g.fresh("sv")
			e.arms = append(e.arms, &garm{pat: "$" + v, body: g.ensureUsed(g.armBody(env.with(v, tStr), t, d-1), v, tStr)})
		}
		g.hit("match-string")
		return e
	case 3:
		return g.block(env, t, d-1)
	}
	return g.inline(env, t, 2)
}

// make sure `body` mentions `name` (prepend an effect statement that does otherwise)
func (g *ggen) ensureUsed(body *gnode, name string, t *gty) *gnode {
	if body.mentions(name) {
		return body
	}
	if body.op == "block" {
		body.stmts = append([]*gstmt{g.useStmt(name, t)}, body.stmts...)
		return body
	}
	return &gnode{op: "block", t: body.t, stmts: []*gstmt{g.useStmt(name, t)}, kids: []*gnode{body}}
}

func (g *ggen) armBody(env genv, t *gty, d int) *gnode {
	if g.r.Intn(3) == 0 {
		return g.block(env, t, d)
	}
	return g.inline(env, t, 2)
}

// does the expression mention variable `name`?
func (e *gnode) mentions(name string) bool {
	if e == nil {
		return false
	}
	if e.op == "var" && e.s == name {
		return true
	}
	for _, p := range e.parts {
		if p.hole == name {
			return true
		}
	}
	for _, k := range e.kids {
		if k.mentions(name) {
			return true
		}
	}
	for _, a := range e.arms {
		if a.body.mentions(name) {
			return true
		}
	}
	for _, s := range e.stmts {
		if s.e.mentions(name) {
			return true
		}
	}
	return false
}

// an effect statement that uses variable `name` of type t (Go rejects unused variables: known
// finding D17, the generator stays inside "every binding is used")
func (g *ggen) useStmt(name string, t *gty) *gstmt {
	v := &gnode{op: "var", s: name, t: t}
	pf := func(f string, e *gnode) *gstmt {
		return &gstmt{kind: "do", e: &gnode{op: "printf1", s: f, t: tUnit, kids: []*gnode{e}}}
	}
	switch t.k {
	case "int":
		return pf("%d;\n", v)
	case "str":
		return &gstmt{kind: "do", e: &gnode{op: "println", t: tUnit, kids: []*gnode{v}}}
	case "bool":
		return pf("%v;\n", v)
	case "slice":
		return pf("%d;\n", &gnode{op: "len", t: tInt, kids: []*gnode{v}})
	case "rec":
		f := gRecOf(t.name).fields[0]
		return g.useStmtExpr(&gnode{op: "fld", s: f.name, kids: []*gnode{v}, t: f.t})
	case "tup":
		return g.useStmtExpr(&gnode{op: "fst", kids: []*gnode{v}, t: t.a})
	case "fun":
		e := &gnode{op: "callv", t: t.ret, kids: []*gnode{v}}
		for _, p := range t.ps {
			e.kids = append(e.kids, g.lit(p))
		}
		return g.useStmtExpr(e)
	}
	// unions and anything else: structural equality with itself
	return pf("%v;\n", &gnode{op: "bin", s: "=", t: tBool, kids: []*gnode{v, v}})
}

func (g *ggen) useStmtExpr(e *gnode) *gstmt {
	switch e.t.k {
	case "int":
		return &gstmt{kind: "do", e: &gnode{op: "printf1", s: "%d;\n", t: tUnit, kids: []*gnode{e}}}
	case "str":
		return &gstmt{kind: "do", e: &gnode{op: "println", t: tUnit, kids: []*gnode{e}}}
	}
	return &gstmt{kind: "do", e: &gnode{op: "printf1", s: "%v;\n", t: tUnit, kids: []*gnode{e}}}
}

// append uses for every name bound in the block that nothing after its binding mentions
func (g *ggen) useAll(b *gnode, types map[string]*gty) {
	var out []*gstmt
	for i, s := range b.stmts {
		out = append(out, s)
		if s.kind != "let" && s.kind != "let2" {
			continue
		}
		for _, n := range s.names {
			used := b.kids[0].mentions(n)
			for _, later := range b.stmts[i+1:] {
				if later.e.mentions(n) {
					used = true
				}
			}
			if !used {
				out = append(out, g.useStmt(n, types[n]))
			}
		}
	}
	b.stmts = out
}

// a block: some statements then a final expression of type t
func (g *ggen) block(env genv, t *gty, d int) *gnode {
	b := &gnode{op: "block", t: t}
	types := map[string]*gty{}
	defer func() {
		for _, v := range env.vars {
			types[v.name] = v.t
		}
		g.useAll(b, types)
	}()
	n := g.r.Intn(3)
	if d <= 0 {
		n = g.r.Intn(2)
	}
	for i := 0; i < n; i++ {
		switch g.r.Intn(6) {
		case 0: // effect statement
			b.stmts = append(b.stmts, &gstmt{kind: "do", e: &gnode{op: "println", t: tUnit, kids: []*gnode{g.inline(env, tStr, 2)}}})
			g.hit("println")
		case 1:
			b.stmts = append(b.stmts, &gstmt{kind: "do", e: &gnode{op: "printf1", s: "%d;\n", t: tUnit, kids: []*gnode{g.inline(env, tInt, 2)}}})
			g.hit("printf1")
		case 2: // destructuring let
			tt := tTup([]*gty{tInt, tStr}[g.r.Intn(2)], []*gty{tInt, tStr, tBool}[g.r.Intn(3)])
			a, c := g.fresh("a"), g.fresh("b")
			b.stmts = append(b.stmts, &gstmt{kind: "let2", names: []string{a, c}, e: g.inline(env, tt, 2)})
			env = env.with(a, tt.a).with(c, tt.b)
			g.hit("destructuring-let")
		case 3: // local function (closure over the environment)
			ft := tFun([]*gty{tInt}, []*gty{tInt, tStr, tBool}[g.r.Intn(3)])
			f := g.fresh("lf")
			lam := g.lambda(env, ft, 2)
			if g.r.Intn(3) == 0 && d > 0 && !gTiny {
				// block body
				env2 := env
				for i, p := range lam.names {
					env2 = env2.with(p, ft.ps[i])
				}
				lam.kids[0] = g.block(env2, ft.ret, 0)
			}
			b.stmts = append(b.stmts, &gstmt{kind: "let", names: []string{f}, e: lam})
			env = env.with(f, ft)
			g.hit("closure")
		case 4: // if-only statement
			if d > 0 {
				body := g.block(env, tUnit, 0)
				b.stmts = append(b.stmts, &gstmt{kind: "do", e: &gnode{op: "ifonly", t: tUnit, kids: []*gnode{g.inline(env, tBool, 2), body}}})
				g.hit("if-only")
			}
		default: // plain let of a random type
			lt := []*gty{tInt, tInt, tStr, tBool, {k: "rec", name: "Pt"}, {k: "rec", name: "Person"}, tSlice(tInt), tSlice(tStr), tTup(tInt, tStr),
				{k: "uni", name: "Shape"}, {k: "uni", name: "Opt"}}[g.r.Intn(11)]
			v := g.fresh("v")
			var rhs *gnode
			if d > 0 && g.r.Intn(3) == 0 {
				// the right-hand side of a let is an expression (if / match / pipeline), never a
				// statement block
				rhs = g.stmtExpr(env, lt, d-1)
				if rhs.op == "block" {
					rhs = g.inline(env, lt, 2)
				}
			} else {
				rhs = g.inline(env, lt, 2)
			}
			b.stmts = append(b.stmts, &gstmt{kind: "let", names: []string{v}, e: rhs})
			env = env.with(v, lt)
			g.hit("let")
		}
	}
	if t.k == "unit" {
		// a unit block ends with an effect
		b.kids = []*gnode{{op: "println", t: tUnit, kids: []*gnode{g.inline(env, tStr, 2)}}}
		return b
	}
	if d > 0 && g.r.Intn(2) == 0 {
		b.kids = []*gnode{g.stmtExpr(env, t, d-1)}
	} else {
		b.kids = []*gnode{g.inline(env, t, 2)}
	}
	if b.kids[0].op == "block" {
		// a block directly as the final expression of a block is just that block
		inner := b.kids[0]
		b.stmts = append(b.stmts, inner.stmts...)
		b.kids = inner.kids
	}
	return b
}

// one program: a few helper functions and an entry function `name` () that prints its result
func (g *ggen) program(name string) []*gfunc {
	var fs []*gfunc
	env := genv{funcs: gHelperFuncs()}
	if g.r.Intn(3) == 0 {
		// a recursive function: counts its first parameter down to 0, threading an accumulator
		rt := []*gty{tInt, tStr}[g.r.Intn(2)]
		f := &gfunc{name: name + "_r", params: []string{"n", "acc"}, ptys: []*gty{tInt, rt}, ret: rt,
			annot: []bool{true, true}, rec: true, retAnn: true}
		envr := env.with("n", tInt).with("acc", rt)
		// the accumulator must not grow multiplicatively (no `*`, no mulAdd)
		envr.funcs = nil
		for _, hf := range env.funcs {
			if hf.name != "mulAdd" {
				envr.funcs = append(envr.funcs, hf)
			}
		}
		g.noMul = true
		nv := &gnode{op: "var", s: "n", t: tInt}
		base := &gnode{op: "block", t: rt, kids: []*gnode{g.inline(envr, rt, 1)}}
		next := &gnode{op: "call", s: f.name, n: 2, t: rt, kids: []*gnode{
			{op: "bin", s: "-", t: tInt, kids: []*gnode{nv, {op: "int", n: 1, t: tInt}}},
			g.inline(envr, rt, 2)}}
		step := &gnode{op: "block", t: rt, kids: []*gnode{next},
			stmts: []*gstmt{{kind: "do", e: &gnode{op: "printf1", s: "r%d;\n", t: tUnit, kids: []*gnode{nv}}}}}
		cond := &gnode{op: "bin", s: "<=", t: tBool, kids: []*gnode{nv, {op: "int", n: 0, t: tInt}}}
		f.body = &gnode{op: "block", t: rt, kids: []*gnode{{op: "if", t: rt, kids: []*gnode{cond, base, step}}}}
		g.noMul = false
		fs = append(fs, f)
		env.funcs = append(env.funcs, f)
		g.hit("recursive-function")
	}
	nh := g.r.Intn(3)
	for i := 0; i < nh; i++ {
		f := &gfunc{name: name + "_h" + strconv.Itoa(i)}
		np := 1 + g.r.Intn(3)
		env2 := env
		for j := 0; j < np; j++ {
			pt := []*gty{tInt, tInt, tStr, tBool, {k: "rec", name: "Pt"}, tSlice(tInt), {k: "uni", name: "Opt"}, tTup(tInt, tStr)}[g.r.Intn(8)]
			pn := g.fresh("q")
			f.params = append(f.params, pn)
			f.ptys = append(f.ptys, pt)
			f.annot = append(f.annot, true)
			env2 = env2.with(pn, pt)
		}
		f.ret = []*gty{tInt, tInt, tStr, tBool}[g.r.Intn(4)]
		f.body = g.block(env2, f.ret, 2)
		fs = append(fs, f)
		env.funcs = append(env.funcs, f)
	}
	rt := []*gty{tInt, tStr, tBool}[g.r.Intn(3)]
	body := g.block(env, rt, 3)
	// print the result
	fin := body.kids[0]
	v := g.fresh("res")
	body.stmts = append(body.stmts, &gstmt{kind: "let", names: []string{v}, e: fin})
	switch rt.k {
	case "int":
		body.kids = []*gnode{{op: "printf1", s: "=%d\n", t: tUnit, kids: []*gnode{{op: "var", s: v, t: rt}}}}
	case "str":
		body.kids = []*gnode{{op: "println", t: tUnit, kids: []*gnode{{op: "var", s: v, t: rt}}}}
	default:
		body.kids = []*gnode{{op: "printf1", s: "=%v\n", t: tUnit, kids: []*gnode{{op: "var", s: v, t: rt}}}}
	}
	body.t = tUnit
	fs = append(fs, &gfunc{name: name, ret: tUnit, body: body})
	return fs
}

// curried helpers available to every program (targets of partial application and pipes); they are
// ordinary generated-language functions: rendered into the batch source and sent to the evaluator
func gHelperFuncs() []*gfunc {
	if gTiny {
		return gTinyHelperFuncs()
	}
	v := func(n string, t *gty) *gnode { return &gnode{op: "var", s: n, t: t} }
	blk := func(t *gty, stmts []*gstmt, fin *gnode) *gnode {
		return &gnode{op: "block", t: t, stmts: stmts, kids: []*gnode{fin}}
	}
	say := func(e *gnode) *gstmt {
		return &gstmt{kind: "do", e: &gnode{op: "println", t: tUnit, kids: []*gnode{e}}}
	}
	return []*gfunc{
		{name: "addT", params: []string{"tag", "a", "b"}, ptys: []*gty{tStr, tInt, tInt}, ret: tInt, annot: []bool{true, true, true},
			body: blk(tInt, []*gstmt{say(v("tag", tStr))}, &gnode{op: "bin", s: "+", t: tInt, kids: []*gnode{v("a", tInt), v("b", tInt)}})},
		{name: "mulAdd", params: []string{"k", "a", "b"}, ptys: []*gty{tInt, tInt, tInt}, ret: tInt, annot: []bool{true, true, true},
			body: blk(tInt, nil, &gnode{op: "bin", s: "+", t: tInt, kids: []*gnode{{op: "bin", s: "*", t: tInt, kids: []*gnode{v("k", tInt), v("a", tInt)}}, v("b", tInt)}})},
		{name: "showN", params: []string{"pre", "n"}, ptys: []*gty{tStr, tInt}, ret: tStr, annot: []bool{true, true},
			body: blk(tStr, nil, &gnode{op: "bin", s: "+", t: tStr, kids: []*gnode{v("pre", tStr), {op: "sprintf1", s: "%d", t: tStr, kids: []*gnode{v("n", tInt)}}}})},
		{name: "gtT", params: []string{"lim", "n"}, ptys: []*gty{tInt, tInt}, ret: tBool, annot: []bool{true, true},
			body: blk(tBool, []*gstmt{say(&gnode{op: "sprintf1", s: "gt%d", t: tStr, kids: []*gnode{v("n", tInt)}})}, &gnode{op: "bin", s: ">", t: tBool, kids: []*gnode{v("n", tInt), v("lim", tInt)}})},
		{name: "join2", params: []string{"sep", "a", "b"}, ptys: []*gty{tStr, tStr, tStr}, ret: tStr, annot: []bool{true, true, true},
			body: blk(tStr, nil, &gnode{op: "bin", s: "+", t: tStr, kids: []*gnode{{op: "bin", s: "+", t: tStr, kids: []*gnode{v("a", tStr), v("sep", tStr)}}, v("b", tStr)}})},
		// a function-typed parameter: `applyI g` is a partial application whose given argument is a
		// function value (a variable, a lambda, or again a partial application - nested)
		{name: "applyI", params: []string{"fn", "x"}, ptys: []*gty{tFun([]*gty{tInt}, tInt), tInt}, ret: tInt, annot: []bool{true, true},
			body: blk(tInt, nil, &gnode{op: "callv", t: tInt, kids: []*gnode{v("fn", tFun([]*gty{tInt}, tInt)), v("x", tInt)}})},
	}
}

func gHelperSrc() string {
	l := &glayout{plain: true}
	var sb strings.Builder
	for _, f := range gHelperFuncs() {
		sb.WriteString(f.src(l, nil) + "\n")
	}
	return sb.String()
}

func newGen(seed int64) *ggen {
	return &ggen{r: rand.New(rand.NewSource(seed)), feat: map[string]int{}}
}

var _ = fmt.Sprint
