package main

import (
	"fmt"
	"sort"
)

// development aid: how many generated programs does fc accept, and why not
func vGenTry(seed int64, count int, extra []string) {
	errs := map[string]int{}
	ok := 0
	var firstBad = map[string]string{}
	for i := 0; i < count; i++ {
		g := newGen(seed*100000 + int64(i))
		fs := g.program("p" + fmt.Sprint(i))
		l := &glayout{r: g.r, plain: len(extra) == 0}
		src := gPrelude + gHelperSrc()
		for _, f := range fs {
			src += f.src(l, nil) + "\n"
		}
		_, err := vTranspilePkg(src)
		if err == "" {
			ok++
			continue
		}
		key := err
		if len(key) > 8 {
			// drop the position
			for j := 0; j < len(key); j++ {
				if key[j] == ' ' {
					key = key[j:]
					break
				}
			}
		}
		errs[key]++
		if _, seen := firstBad[key]; !seen {
			firstBad[key] = err + "\n" + src[len(gPrelude):]
		}
	}
	fmt.Fprintf(vout, "accepted %d of %d\n", ok, count)
	keys := []string{}
	for k := range errs {
		keys = append(keys, k)
	}
	sort.Slice(keys, func(i, j int) bool { return errs[keys[i]] > errs[keys[j]] })
	for _, k := range keys {
		fmt.Fprintf(vout, "%5d %s\n", errs[k], k)
	}
	for n, k := range keys {
		if n < 4 {
			fmt.Fprintf(vout, "---- example for%s\n%s\n", k, firstBad[k])
		}
	}
}
