package main

// Read-back of emitted Go as a Go-core S-expression (types erased), in the format the oracle prints
// for `lowerB` of the formal lowering model (lean/Folang/Sem/Lower.lean, lean/Oracle/Sem.lean):
//
//   expr  = (int N) | (str x<hex>) | (bool b) | (var x) | (bin op a b) | (and a b) | (or a b)
//         | (call NAME args…) | (callv f args…) | (func (params…) body) | (rec Name (f e)…) | (fld e f)
//         | (slice e…) | (ctor Case args…)
//   body  = (body (stmt…) tail)      stmt = (def x e) | (def2 x y e) | (exec e)
//   tail  = (ret e) | (switch t (case Case bind body)…) | (switchS t (case x<hex> body)… (default body))
//
// Canonicalisation: parentheses, types, type arguments and the temporaries of type switches are
// dropped; New_U_C / U_C are written by their case name; frt.PipeUnit = frt.Pipe, frt.Destr = frt.Destr2;
// the format string of frt.SInterP is dropped (C11 is about it); a `default: panic("Union pattern
// fail…")` clause added by the compiler is dropped; trI/trS/trB are written tr$.

import (
	"go/ast"
	"go/parser"
	"go/token"
	"strconv"
	"strings"
)

type gcReader struct {
	top map[string]bool // package-level functions
}

func gcParse(goSrc string) (*gcReader, map[string]*ast.FuncDecl, string) {
	fset := token.NewFileSet()
	f, err := parser.ParseFile(fset, "gen.go", goSrc, 0)
	if err != nil {
		return nil, nil, err.Error()
	}
	r := &gcReader{top: map[string]bool{}}
	fns := map[string]*ast.FuncDecl{}
	for _, d := range f.Decls {
		if fd, ok := d.(*ast.FuncDecl); ok && fd.Recv == nil {
			r.top[fd.Name.Name] = true
			fns[fd.Name.Name] = fd
		}
	}
	return r, fns, ""
}

func gcCase(name string) string {
	if i := strings.LastIndex(name, "_"); i >= 0 {
		return name[i+1:]
	}
	return name
}

func gcCallee(name string) string {
	switch name {
	case "trI", "trS", "trB":
		return "tr$"
	case "frt.PipeUnit":
		return "frt.Pipe"
	case "frt.Destr":
		return "frt.Destr2"
	}
	return name
}

func (r *gcReader) exprs(es []ast.Expr) []string {
	var out []string
	for _, e := range es {
		out = append(out, r.expr(e))
	}
	return out
}

func (r *gcReader) expr(e ast.Expr) string {
	switch x := e.(type) {
	case *ast.ParenExpr:
		return r.expr(x.X)
	case *ast.BasicLit:
		switch x.Kind {
		case token.INT:
			return vsx("int", x.Value)
		case token.STRING:
			s, err := strconv.Unquote(x.Value)
			if err != nil {
				return vsx("badstr")
			}
			return vsx("str", vsxStr(s))
		}
		return vsx("lit?", x.Value)
	case *ast.Ident:
		switch {
		case x.Name == "true" || x.Name == "false":
			return vsx("bool", x.Name)
		case strings.HasPrefix(x.Name, "New_"):
			return vsx("ctor", gcCase(x.Name))
		}
		return vsx("var", x.Name)
	case *ast.BinaryExpr:
		switch x.Op {
		case token.LAND:
			return vsx("and", r.expr(x.X), r.expr(x.Y))
		case token.LOR:
			return vsx("or", r.expr(x.X), r.expr(x.Y))
		}
		return vsx("bin", x.Op.String(), r.expr(x.X), r.expr(x.Y))
	case *ast.SelectorExpr:
		return vsx("fld", r.expr(x.X), x.Sel.Name)
	case *ast.FuncLit:
		return r.funcLit(x.Type, x.Body)
	case *ast.CompositeLit:
		if _, ok := x.Type.(*ast.ArrayType); ok {
			return vsx(append([]string{"slice"}, r.exprs(x.Elts)...)...)
		}
		name := "?"
		switch t := x.Type.(type) {
		case *ast.Ident:
			name = t.Name
		case *ast.IndexExpr:
			if id, ok := t.X.(*ast.Ident); ok {
				name = id.Name
			}
		}
		parts := []string{"rec", name}
		for _, el := range x.Elts {
			if kv, ok := el.(*ast.KeyValueExpr); ok {
				parts = append(parts, vsx(r.plainName(kv.Key), r.expr(kv.Value)))
			} else {
				parts = append(parts, vsx("?", r.expr(el)))
			}
		}
		return vsx(parts...)
	case *ast.CallExpr:
		fun := x.Fun
		for {
			switch f := fun.(type) {
			case *ast.ParenExpr:
				fun = f.X
				continue
			case *ast.IndexExpr: // explicit instantiation f[T](…)
				fun = f.X
				continue
			case *ast.IndexListExpr:
				fun = f.X
				continue
			}
			break
		}
		args := r.exprs(x.Args)
		switch f := fun.(type) {
		case *ast.Ident:
			if strings.HasPrefix(f.Name, "New_") {
				return vsx(append([]string{"ctor", gcCase(f.Name)}, args...)...)
			}
			if r.top[f.Name] {
				return vsx(append([]string{"call", gcCallee(f.Name)}, args...)...)
			}
			return vsx(append([]string{"callv", vsx("var", f.Name)}, args...)...)
		case *ast.SelectorExpr:
			if pk, ok := f.X.(*ast.Ident); ok {
				name := gcCallee(pk.Name + "." + f.Sel.Name)
				switch name {
				case "frt.SInterP":
					if len(args) > 0 {
						args = args[1:]
					}
				case "slice.New":
					return vsx("slice")
				}
				return vsx(append([]string{"call", name}, args...)...)
			}
		}
		return vsx(append([]string{"callv", r.expr(fun)}, args...)...)
	}
	return vsx("expr?")
}

func (r *gcReader) plainName(e ast.Expr) string {
	if id, ok := e.(*ast.Ident); ok {
		return id.Name
	}
	return "?"
}

func (r *gcReader) funcLit(t *ast.FuncType, body *ast.BlockStmt) string {
	var ps []string
	if t.Params != nil {
		for _, f := range t.Params.List {
			for _, n := range f.Names {
				ps = append(ps, n.Name)
			}
		}
	}
	return vsx("func", vsx(ps...), r.body(body.List))
}

func gcIsUnionPanic(stmts []ast.Stmt) bool {
	if len(stmts) != 1 {
		return false
	}
	es, ok := stmts[0].(*ast.ExprStmt)
	if !ok {
		return false
	}
	ce, ok := es.X.(*ast.CallExpr)
	if !ok {
		return false
	}
	id, ok := ce.Fun.(*ast.Ident)
	return ok && id.Name == "panic"
}

func (r *gcReader) body(stmts []ast.Stmt) string {
	var ss []string
	tail := vsx("ret", vsx("unit"))
	for i, s := range stmts {
		last := i == len(stmts)-1
		switch x := s.(type) {
		case *ast.AssignStmt:
			if x.Tok == token.DEFINE && len(x.Lhs) == 1 && len(x.Rhs) == 1 {
				ss = append(ss, vsx("def", r.plainName(x.Lhs[0]), r.expr(x.Rhs[0])))
			} else if x.Tok == token.DEFINE && len(x.Lhs) == 2 && len(x.Rhs) == 1 {
				rhs := x.Rhs[0]
				if ce, ok := rhs.(*ast.CallExpr); ok && len(ce.Args) == 1 {
					rhs = ce.Args[0] // frt.Destr2(e)
				}
				ss = append(ss, vsx("def2", r.plainName(x.Lhs[0]), r.plainName(x.Lhs[1]), r.expr(rhs)))
			} else {
				ss = append(ss, vsx("stmt?"))
			}
		case *ast.ExprStmt:
			if last {
				tail = vsx("ret", r.expr(x.X))
			} else {
				ss = append(ss, vsx("exec", r.expr(x.X)))
			}
		case *ast.ReturnStmt:
			if len(x.Results) == 1 {
				tail = vsx("ret", r.expr(x.Results[0]))
			} else {
				tail = vsx("ret?")
			}
		case *ast.TypeSwitchStmt:
			tmp := ""
			var target ast.Expr
			switch a := x.Assign.(type) {
			case *ast.AssignStmt:
				tmp = r.plainName(a.Lhs[0])
				target = a.Rhs[0].(*ast.TypeAssertExpr).X
			case *ast.ExprStmt:
				target = a.X.(*ast.TypeAssertExpr).X
			}
			parts := []string{"switch", r.expr(target)}
			for _, c := range x.Body.List {
				cc := c.(*ast.CaseClause)
				body := cc.Body
				if cc.List == nil {
					if gcIsUnionPanic(body) {
						continue
					}
					parts = append(parts, vsx("case", "_", "-", r.body(body)))
					continue
				}
				name := "?"
				switch t := cc.List[0].(type) {
				case *ast.Ident:
					name = gcCase(t.Name)
				case *ast.IndexExpr:
					if id, ok := t.X.(*ast.Ident); ok {
						name = gcCase(id.Name)
					}
				}
				bind := "-"
				if len(body) > 0 && tmp != "" {
					if as, ok := body[0].(*ast.AssignStmt); ok && as.Tok == token.DEFINE && len(as.Rhs) == 1 {
						if se, ok := as.Rhs[0].(*ast.SelectorExpr); ok && se.Sel.Name == "Value" && r.plainName(se.X) == tmp {
							bind = r.plainName(as.Lhs[0])
							body = body[1:]
						}
					}
				}
				parts = append(parts, vsx("case", name, bind, r.body(body)))
			}
			tail = vsx(parts...)
		case *ast.SwitchStmt:
			tag := x.Tag
			parts := []string{"switchS", r.expr(tag)}
			if x.Init != nil {
				// switch v := (s); v { … }: the variable arm of a string match
				if as, ok := x.Init.(*ast.AssignStmt); ok && len(as.Rhs) == 1 {
					parts = []string{"switchS-bind", r.plainName(as.Lhs[0]), r.expr(as.Rhs[0])}
				}
			}
			for _, c := range x.Body.List {
				cc := c.(*ast.CaseClause)
				if cc.List == nil {
					parts = append(parts, vsx("default", r.body(cc.Body)))
					continue
				}
				parts = append(parts, vsx("case", r.expr(cc.List[0]), r.body(cc.Body)))
			}
			tail = vsx(parts...)
		default:
			ss = append(ss, vsx("stmt?"))
		}
	}
	return vsx("body", vsx(ss...), tail)
}

// the Go-core of one package-level function: (gfun name (params…) body)
func (r *gcReader) fun(fd *ast.FuncDecl) string {
	var ps []string
	if fd.Type.Params != nil {
		for _, f := range fd.Type.Params.List {
			for _, n := range f.Names {
				ps = append(ps, n.Name)
			}
		}
	}
	return vsx("gfun", fd.Name.Name, vsx(ps...), r.body(fd.Body.List))
}

// emit one correspondence pair per function: abstract function -> Go-core of what was really emitted
func gcEmitLowering(goSrc string, funcs []*gfunc) {
	r, fns, err := gcParse(goSrc)
	if err != "" {
		return
	}
	stream := "sem.lower"
	if gTiny {
		stream = "sem.lowerT"
	}
	for _, f := range funcs {
		fd := fns[f.name]
		if fd == nil {
			vEmitIO(vsx(stream, f.sx()), "(missing-function)")
			continue
		}
		vEmitIO(vsx(stream, f.sx()), r.fun(fd))
		vstat("lowering-readback")
	}
}
