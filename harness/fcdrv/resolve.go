package main

// c16.resolve stream: the real resolveType on hand-built resolvers (any bindings, cyclic ones
// included) vs the model Folang.Resolve.resolveType (Props/C16Resolve.lean proves it terminates).
//   I: (c16.resolve ((name ty)…) ty)     ty = (v name) | (c head ty…)   heads: int string bool [] -> *
//   O: (ok ty) | (cyclic name) | (panic x<msg>)

import (
	"fmt"
	"math/rand"
	"strings"

	"github.com/karino2/folang/pkg/dict"
)

type rvTy struct {
	v    string // variable name, or ""
	head string
	args []*rvTy
}

func (t *rvTy) sx() string {
	if t.v != "" {
		return vsx("v", t.v)
	}
	parts := []string{"c", t.head}
	for _, a := range t.args {
		parts = append(parts, a.sx())
	}
	return vsx(parts...)
}

func (t *rvTy) ft() FType {
	if t.v != "" {
		return New_FType_FTypeVar(TypeVar{Name: t.v})
	}
	var as []FType
	for _, a := range t.args {
		as = append(as, a.ft())
	}
	switch t.head {
	case "int":
		return New_FType_FInt
	case "string":
		return New_FType_FString
	case "bool":
		return New_FType_FBool
	case "[]":
		return New_FType_FSlice(SliceType{ElemType: as[0]})
	case "->":
		return newFFunc(as)
	default:
		return New_FType_FTuple(TupleType{ElemTypes: as})
	}
}

func rvOfFT(f FType) string {
	switch x := f.(type) {
	case FType_FTypeVar:
		return vsx("v", x.Value.Name)
	case FType_FInt:
		return vsx("c", "int")
	case FType_FString:
		return vsx("c", "string")
	case FType_FBool:
		return vsx("c", "bool")
	case FType_FSlice:
		return vsx("c", "[]", rvOfFT(x.Value.ElemType))
	case FType_FFunc:
		parts := []string{"c", "->"}
		for _, t := range x.Value.Targets {
			parts = append(parts, rvOfFT(t))
		}
		return vsx(parts...)
	case FType_FTuple:
		parts := []string{"c", "*"}
		for _, t := range x.Value.ElemTypes {
			parts = append(parts, rvOfFT(t))
		}
		return vsx(parts...)
	}
	return vsx("other")
}

func rvGen(r *rand.Rand, vars []string, d int) *rvTy {
	if d <= 0 || r.Intn(3) == 0 {
		if r.Intn(3) != 0 {
			return &rvTy{v: vars[r.Intn(len(vars))]}
		}
		return &rvTy{head: []string{"int", "string", "bool"}[r.Intn(3)]}
	}
	switch r.Intn(3) {
	case 0:
		return &rvTy{head: "[]", args: []*rvTy{rvGen(r, vars, d-1)}}
	case 1:
		return &rvTy{head: "->", args: []*rvTy{rvGen(r, vars, d-1), rvGen(r, vars, d-1)}}
	}
	return &rvTy{head: "*", args: []*rvTy{rvGen(r, vars, d-1), rvGen(r, vars, d-1)}}
}

func vResolve(seed int64, count int) {
	r := rand.New(rand.NewSource(seed))
	all := []string{"_T0", "_T1", "_T2", "_T3", "_T4", "_T5"}
	for i := 0; i < count; i++ {
		vars := all[:2+r.Intn(5)]
		rsv := newResolver()
		var bs []string
		seen := map[string]bool{}
		for _, v := range vars {
			if r.Intn(4) == 0 || seen[v] {
				continue // unbound
			}
			seen[v] = true
			t := rvGen(r, vars, 2)
			dict.Add(rsv.eid, v, EquivInfo{eset: NewEquivSet(TypeVar{Name: v}), resType: t.ft()})
			bs = append(bs, vsx(v, t.sx()))
		}
		q := rvGen(r, vars, 2)
		in := vsx("c16.resolve", vsx(bs...), q.sx())
		out := func() (res string) {
			defer func() {
				if e := recover(); e != nil {
					msg := fmt.Sprint(e)
					const m = "Recursive type found while resolving type variable: "
					if k := strings.Index(msg, m); k >= 0 {
						name := strings.TrimSuffix(strings.TrimSpace(msg[k+len(m):]), ".")
						res = vsx("cyclic", name)
						vstat("resolve.cyclic")
						return
					}
					res = vsx("panic", vsxStr(msg))
				}
			}()
			t := resolveType(rsv, q.ft())
			vstat("resolve.ok")
			return vsx("ok", rvOfFT(t))
		}()
		vEmitIO(in, out)
	}
}
