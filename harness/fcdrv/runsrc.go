package main

// runsrc: transpile (with pkg_all.foi), compile and run given source files; prints one line per file:
//   R <path> x<hex stdout> | E <path> x<hex error>
import (
	"fmt"
	"os"
)

func vRunSrc(workdir string, paths []string) {
	for _, p := range paths {
		b, err := os.ReadFile(p)
		if err != nil {
			fmt.Fprintf(vout, "E %s %s\n", p, vsxStr(err.Error()))
			continue
		}
		goSrc, terr := vTranspilePkg(string(b))
		if terr != "" {
			fmt.Fprintf(vout, "E %s %s\n", p, vsxStr("fc: "+terr))
			continue
		}
		stdout, berr := c01BuildRun(workdir, goSrc)
		if berr != "" {
			fmt.Fprintf(vout, "E %s %s\n", p, vsxStr(berr))
			continue
		}
		fmt.Fprintf(vout, "R %s %s\n", p, vsxStr(stdout))
	}
}
