package main

// The tinyfo profile of the program generator (C17): the early-Folang subset tinyfo/README and the
// property text describe.  No `fun`, no `*`, no interpolation, no string match, no .foi file: library
// functions are declared by package_info blocks, every function value is a partial application,
// slice literals are never empty and are parenthesised in argument position.

var gTiny = false

const gTinyPrelude = `package main

import frt
import slice
import strings

package_info frt =
  let Println: string->()
  let Printf1<T>: string->T->()
  let Sprintf1<T>: string->T->string
  let Fst<T, U>: T*U->T
  let Snd<T, U>: T*U->U

package_info slice =
  let Length<T>: []T->int
  let Map<T, U>: (T->U)->[]T->[]U
  let Filter<T>: (T->bool)->[]T->[]T
  let Fold<T, S>: (S->T->S)->S->[]T->S

package_info strings =
  let Concat: string->[]string->string

type Pt = {x: int; y: int}

type Person = {Name: string; Age: int}

type Shape =
  | Circle of int
  | Rect of Pt
  | Named of string
  | Blank

type Opt =
  | Some of int
  | None

type Poly =
  | Pts of []int
  | Nop

type Holder = {tag: int; shape: Poly}

let trI (tag:string) (v:int) =
  frt.Println tag
  v

let trS (tag:string) (v:string) =
  frt.Println tag
  v

let trB (tag:string) (v:bool) =
  frt.Println tag
  v

let useLibs () =
  let n = slice.Length ([1])
  frt.Printf1 "%d" n
  strings.Concat "" (["a"])

`

func gPreludeSrc() string {
	if gTiny {
		return gTinyPrelude
	}
	return gPrelude
}

func gTinyHelperFuncs() []*gfunc {
	v := func(n string, t *gty) *gnode { return &gnode{op: "var", s: n, t: t} }
	blk := func(t *gty, stmts []*gstmt, fin *gnode) *gnode {
		return &gnode{op: "block", t: t, stmts: stmts, kids: []*gnode{fin}}
	}
	say := func(e *gnode) *gstmt {
		return &gstmt{kind: "do", e: &gnode{op: "println", t: tUnit, kids: []*gnode{e}}}
	}
	bin := func(op string, t *gty, a, b *gnode) *gnode {
		return &gnode{op: "bin", s: op, t: t, kids: []*gnode{a, b}}
	}
	t3 := []bool{true, true, true}
	t2 := []bool{true, true}
	return []*gfunc{
		{name: "addT", params: []string{"tag", "a", "b"}, ptys: []*gty{tStr, tInt, tInt}, ret: tInt, annot: t3,
			body: blk(tInt, []*gstmt{say(v("tag", tStr))}, bin("+", tInt, v("a", tInt), v("b", tInt)))},
		{name: "subAdd", params: []string{"k", "a", "b"}, ptys: []*gty{tInt, tInt, tInt}, ret: tInt, annot: t3,
			body: blk(tInt, nil, bin("+", tInt, bin("-", tInt, v("k", tInt), v("a", tInt)), v("b", tInt)))},
		{name: "showN", params: []string{"pre", "n"}, ptys: []*gty{tStr, tInt}, ret: tStr, annot: t2,
			body: blk(tStr, nil, bin("+", tStr, v("pre", tStr), &gnode{op: "sprintf1", s: "%d", t: tStr, kids: []*gnode{v("n", tInt)}}))},
		{name: "gtT", params: []string{"lim", "n"}, ptys: []*gty{tInt, tInt}, ret: tBool, annot: t2,
			body: blk(tBool, []*gstmt{say(&gnode{op: "sprintf1", s: "gt%d", t: tStr, kids: []*gnode{v("n", tInt)}})}, bin(">", tBool, v("n", tInt), v("lim", tInt)))},
		{name: "neS", params: []string{"a", "b"}, ptys: []*gty{tStr, tStr}, ret: tBool, annot: t2,
			body: blk(tBool, nil, bin("<>", tBool, v("a", tStr), v("b", tStr)))},
		{name: "join2", params: []string{"sep", "a", "b"}, ptys: []*gty{tStr, tStr, tStr}, ret: tStr, annot: t3,
			body: blk(tStr, nil, bin("+", tStr, bin("+", tStr, v("a", tStr), v("sep", tStr)), v("b", tStr)))},
	}
}
