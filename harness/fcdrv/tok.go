package main

// Tokenizer streams (C16 scanner totality, C06 column tracking): arbitrary and adversarial byte
// strings, corpus files and mutated programs through the real scanTokenAt / newTkz / tkzNext.

import (
	"math/rand"
	"os"
	"path/filepath"
	"strconv"
	"strings"
)

func tokScan(src []byte) string {
	vWatch(src)
	res := "(panic)"
	func() {
		defer func() { recover() }()
		tk := scanTokenAt(string(src), 0)
		kind := c11TokType(tk.ttype)
		sv := ""
		if kind == "STRING" || kind == "SINTERP" || kind == "IDENTIFIER" {
			sv = tk.stringVal
		}
		res = vsx(kind, strconv.Itoa(tk.begin), strconv.Itoa(tk.len), c11Hex([]byte(sv)), strconv.Itoa(tk.intVal))
	}()
	return res
}

func tokStream(src []byte) string {
	vWatch(src)
	var parts []string
	func() {
		defer func() {
			if r := recover(); r != nil {
				parts = append(parts, "panic")
			}
		}()
		tkz := newTkz(string(src))
		one := func(t Tokenizer) string {
			return vsx(c11TokType(t.current.ttype), strconv.Itoa(t.current.begin), strconv.Itoa(t.current.len), strconv.Itoa(t.col))
		}
		parts = append(parts, one(tkz))
		for i := 0; i < len(src)+2; i++ {
			if _, ok := tkz.current.ttype.(TokenType_EOF); ok {
				return
			}
			tkz = tkzNext(tkz)
			parts = append(parts, one(tkz))
		}
		parts = append(parts, "out-of-fuel")
	}()
	return vsx(parts...)
}

var tokFragments = []string{" ", "  ", "\t", "\n", "//", "// c", "/*", "*/", "/* x */", "/*\n*/", "\"", "\\", "`", "$", "$\"", "$`", "{", "}",
	"a", "_", "_x1", "let", "package_info", "match", "0", "42", "007", "(", ")", "[", "]", "<", ">", "<>", "<=", ">=", "|", "||", "|>", "&", "&&",
	"-", "->", "+", "*", "/", "=", ":", ",", ".", ";", "é", "#", "@", "\x00", "\xff", "\"s\"", "`r`", "$\"{a}\"", "\"\\\"\"", "\"a\nb\""}

func tokRandom(r *rand.Rand) []byte {
	var sb strings.Builder
	for i := r.Intn(9); i >= 0; i-- {
		sb.WriteString(tokFragments[r.Intn(len(tokFragments))])
	}
	return []byte(sb.String())
}

func tokCorpus() [][]byte {
	var res [][]byte
	for _, pat := range []string{"../samples/*.fo", "*.fo", "../pkg/*.foi", "../cmd/build_sample_md/*.fo"} {
		ms, _ := filepath.Glob(filepath.Join(os.Getenv("FC_VERIF_REPO"), "fc", pat))
		for _, m := range ms {
			if b, err := os.ReadFile(m); err == nil {
				res = append(res, b)
			}
		}
	}
	return res
}

func vTok(seed int64, count int, extra []string) {
	r := rand.New(rand.NewSource(seed))
	// every single byte and every pair of "interesting" bytes at position 0
	for b := 0; b < 256; b++ {
		for _, tail := range []string{"", "x", " ", "\n", "/", "*", ">", "=", "|", "&", "\"", "`"} {
			src := append([]byte{byte(b)}, tail...)
			vEmitIO(vsx("tok.scan", c11Hex(src)), tokScan(src))
			vstat("scan.exh")
		}
	}
	for i := 0; i < count; i++ {
		src := tokRandom(r)
		vEmitIO(vsx("tok.scan", c11Hex(src)), tokScan(src))
		vEmitIO(vsx("tok.stream", c11Hex(src)), tokStream(src))
		vstat("random")
	}
	corpus := tokCorpus()
	for _, c := range corpus {
		vEmitIO(vsx("tok.stream", c11Hex(c)), tokStream(c))
		vstat("corpus.file")
	}
	// truncations and single-byte damage of corpus files
	for i := 0; i < count/4 && len(corpus) > 0; i++ {
		c := corpus[r.Intn(len(corpus))]
		if len(c) > 1500 {
			off := r.Intn(len(c) - 1500)
			c = c[off : off+1500]
		}
		m := append([]byte{}, c...)
		switch r.Intn(3) {
		case 0:
			m = m[:r.Intn(len(m)+1)]
		case 1:
			if len(m) > 0 {
				m[r.Intn(len(m))] = tokFragments[r.Intn(len(tokFragments))][0]
			}
		default:
			k := r.Intn(len(m) + 1)
			m = append(append(append([]byte{}, m[:k]...), tokFragments[r.Intn(len(tokFragments))]...), m[k:]...)
		}
		vEmitIO(vsx("tok.stream", c11Hex(m)), tokStream(m))
		vstat("corpus.mutant")
	}
	// sources that end inside or right after a token of every kind, without a final newline
	for _, end := range []string{"12", "7", "x1", "abc", "\"s\"", "$\"a{b}\"", "'c'", "`r`", "1.5", "->", "|>", "=", ")", "]", "}", "<", ">", "_", "()", "/", "//c", "/* c */", "-3", "a.b", ";"} {
		for _, head := range []string{"", "package main\n\nlet a = ", "let f x =\n  x + "} {
			src := []byte(head + end)
			vEmitIO(vsx("tok.stream", c11Hex(src)), tokStream(src))
			vstat("eof.in-token")
		}
	}
	vWatchOff.Store(true)
}
