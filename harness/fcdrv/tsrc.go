package main

// tsrc: transpile the given source files (each alone, with pkg_all.foi): "T <path> ok x<hex go>" | "T <path> err x<hex msg>"
import (
	"fmt"
	"os"
)

func vTSrc(paths []string) {
	for _, p := range paths {
		b, err := os.ReadFile(p)
		if err != nil {
			fmt.Fprintf(vout, "T %s err %s\n", p, vsxStr(err.Error()))
			continue
		}
		goSrc, terr := vTranspilePkg(string(b))
		if terr != "" {
			fmt.Fprintf(vout, "T %s err %s\n", p, vsxStr(terr))
		} else {
			fmt.Fprintf(vout, "T %s ok %s\n", p, vsxStr(goSrc))
		}
	}
}
