package main

import "go/token"

func tokenFset() *token.FileSet { return token.NewFileSet() }
