module verif/libdrv

go 1.23.4

toolchain go1.23.5

require (
	github.com/karino2/folang/pkg/buf v0.0.0
	github.com/karino2/folang/pkg/dict v0.0.0
	github.com/karino2/folang/pkg/frt v0.0.0
	github.com/karino2/folang/pkg/slice v0.0.0
	github.com/karino2/folang/pkg/strings v0.0.0
	github.com/karino2/folang/pkg/sys v0.0.0
)

require github.com/google/go-cmp v0.6.0 // indirect

replace github.com/karino2/folang/pkg/buf => /repo/pkg/buf

replace github.com/karino2/folang/pkg/dict => /repo/pkg/dict

replace github.com/karino2/folang/pkg/frt => /repo/pkg/frt

replace github.com/karino2/folang/pkg/slice => /repo/pkg/slice

replace github.com/karino2/folang/pkg/strings => /repo/pkg/strings

replace github.com/karino2/folang/pkg/sys => /repo/pkg/sys
