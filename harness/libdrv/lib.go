package main

import (
	"math"
	"encoding/json"
	"fmt"
	"math/rand"
	"sort"
	"strconv"

	"github.com/karino2/folang/pkg/buf"
	"github.com/karino2/folang/pkg/dict"
	"github.com/karino2/folang/pkg/frt"
	fstrings "github.com/karino2/folang/pkg/strings"
)

func violation(v map[string]any) {
	b, _ := json.Marshal(v)
	fmt.Fprintf(out, "V %s\n", b)
}

func sortedSx(items []string) string {
	sort.Strings(items)
	return sxList(items...)
}

// ---- dict: operation sequences on one dictionary (int keys, string values)

func libDict(seed int64, count int) {
	r := rand.New(rand.NewSource(seed))
	vals := []string{"", "a", "b", "zz", "q"}
	for h := 0; h < count; h++ {
		d := dict.New[int, string]()
		var ops, outs []string
		n := 5 + r.Intn(25)
		for i := 0; i < n; i++ {
			k := r.Intn(7)
			ks := strconv.Itoa(k)
			switch x := r.Intn(20); {
			case x < 7:
				v := vals[r.Intn(len(vals))]
				dict.Add(d, k, v)
				ops = append(ops, sxList("add", ks, sxStr(v)))
				outs = append(outs, "ok")
			case x < 9:
				ops = append(ops, sxList("contains", ks))
				outs = append(outs, sxBool(dict.ContainsKey(d, k)))
			case x < 11:
				t := dict.TryFind(d, k)
				ops = append(ops, sxList("tryfind", ks))
				outs = append(outs, sxList(sxStr(frt.Fst(t)), sxBool(frt.Snd(t))))
			case x < 13:
				ops = append(ops, sxList("item", ks))
				outs = append(outs, sxStr(dict.Item(d, k)))
			case x < 15:
				var items []string
				ks := dict.Keys(d)
				for _, k := range ks {
					items = append(items, strconv.Itoa(k))
				}
				ops = append(ops, "(keys)")
				outs = append(outs, sortedSx(items))
			case x < 16:
				var items []string
				for _, v := range dict.Values(d) {
					items = append(items, sxStr(v))
				}
				ops = append(ops, "(values)")
				outs = append(outs, sortedSx(items))
			case x < 18:
				var items []string
				for _, kv := range dict.KVs(d) {
					items = append(items, sxList(strconv.Itoa(frt.Fst(kv)), sxStr(frt.Snd(kv))))
				}
				ops = append(ops, "(kvs)")
				outs = append(outs, sortedSx(items))
			case x < 19:
				m := r.Intn(6)
				var ss []frt.Tuple2[int, string]
				parts := []string{"todict"}
				for j := 0; j < m; j++ {
					kk, vv := r.Intn(4), vals[r.Intn(len(vals))]
					ss = append(ss, frt.NewTuple2(kk, vv))
					parts = append(parts, sxList(strconv.Itoa(kk), sxStr(vv)))
				}
				d = dict.ToDict(ss)
				ops = append(ops, sxList(parts...))
				outs = append(outs, "ok")
			default:
				d = dict.New[int, string]()
				ops = append(ops, "(new)")
				outs = append(outs, "ok")
			}
		}
		emitIO(sxList(append([]string{"lib.dict"}, ops...)...), sxList(outs...))
		stat("dict.seq")
	}
}

// ---- strings: every function on every pair of small strings

func strList(ss []string) string {
	parts := make([]string, len(ss))
	for i, s := range ss {
		parts[i] = sxStr(s)
	}
	return sxList(parts...)
}

func allStrings(alpha []string, maxLen int) []string {
	res := []string{""}
	cur := []string{""}
	for l := 0; l < maxLen; l++ {
		var next []string
		for _, s := range cur {
			for _, a := range alpha {
				next = append(next, s+a)
			}
		}
		res = append(res, next...)
		cur = next
	}
	return res
}

func libStr(maxLen int, seed int64, nrand int) {
	ss := allStrings([]string{"a", "b", ","}, maxLen)
	seps := []string{"", ",", "a", "ab", "aa", ",,", "b,"}
	call := func(args []string, res string) {
		emitIO(sxList(append([]string{"lib.str"}, args...)...), res)
		stat("str." + args[0])
	}
	one := func(s, p string) {
		call([]string{"Split", sxStr(p), sxStr(s)}, strList(fstrings.Split(p, s)))
		for n := -1; n <= 4; n++ {
			call([]string{"SplitN", strconv.Itoa(n), sxStr(p), sxStr(s)}, strList(fstrings.SplitN(n, p, s)))
		}
		call([]string{"HasPrefix", sxStr(p), sxStr(s)}, sxBool(fstrings.HasPrefix(p, s)))
		call([]string{"HasSuffix", sxStr(p), sxStr(s)}, sxBool(fstrings.HasSuffix(p, s)))
		call([]string{"TrimSuffix", sxStr(p), sxStr(s)}, sxStr(fstrings.TrimSuffix(p, s)))
		call([]string{"AppendHead", sxStr(p), sxStr(s)}, sxStr(fstrings.AppendHead(p, s)))
		call([]string{"AppendTail", sxStr(p), sxStr(s)}, sxStr(fstrings.AppendTail(p, s)))
		call([]string{"EncloseWith", sxStr(p), sxStr("]" + p), sxStr(s)}, sxStr(fstrings.EncloseWith(p, "]"+p, s)))
		// the property's own laws, checked directly on the implementation
		if got := fstrings.Concat(p, fstrings.Split(p, s)); got != s {
			violation(map[string]any{"kind": "Concat sep (Split sep s) != s", "sep": p, "s": s, "got": got})
		}
		if fstrings.HasPrefix(p, p+s) != true || fstrings.HasSuffix(p, s+p) != true || fstrings.TrimSuffix(p, s+p) != s && p != "" {
			violation(map[string]any{"kind": "prefix/suffix law", "p": p, "s": s})
		}
	}
	for _, s := range ss {
		for _, p := range seps {
			one(s, p)
		}
		call([]string{"Length", sxStr(s)}, strconv.Itoa(fstrings.Length(s)))
		call([]string{"IsEmpty", sxStr(s)}, sxBool(fstrings.IsEmpty(s)))
		call([]string{"IsNotEmpty", sxStr(s)}, sxBool(fstrings.IsNotEmpty(s)))
	}
	r := rand.New(rand.NewSource(seed))
	alpha := []string{"a", "b", ",", " ", "ab", "\n", "é", "x"}
	rs := func(n int) string {
		s := ""
		for i := r.Intn(n + 1); i > 0; i-- {
			s += alpha[r.Intn(len(alpha))]
		}
		return s
	}
	for i := 0; i < nrand; i++ {
		s, p := rs(12), rs(2)
		if p == "" && i%4 != 0 {
			p = ","
		}
		hasMulti := false
		for _, c := range s {
			if c > 127 {
				hasMulti = true
			}
		}
		if p == "" && hasMulti {
			continue // explode on multi-byte characters is outside the model (stated in DESIGN)
		}
		one(s, p)
		// Length is the number of BYTES (Go's len), also for multi-byte and invalid UTF-8
		call([]string{"Length", sxStr(s)}, strconv.Itoa(fstrings.Length(s)))
		call([]string{"IsEmpty", sxStr(s)}, sxBool(fstrings.IsEmpty(s)))
		if i < 8 {
			u := []string{"café", "x→y", "こんにちは", "\xff\xfe", "a\x00b", "é", "\xc3", "𝄞 clef"}[i]
			call([]string{"Length", sxStr(u)}, strconv.Itoa(fstrings.Length(u)))
			call([]string{"IsNotEmpty", sxStr(u)}, sxBool(fstrings.IsNotEmpty(u)))
		}
		k := r.Intn(5)
		var parts []string
		args := []string{"Concat", sxStr(p)}
		for j := 0; j < k; j++ {
			x := rs(4)
			parts = append(parts, x)
			args = append(args, sxStr(x))
		}
		call(args, sxStr(fstrings.Concat(p, parts)))
	}
}

// ---- buf

func libBuf(seed int64, count int) {
	r := rand.New(rand.NewSource(seed))
	words := []string{"", "a", "bc", "\n", "é", "%s", "long-ish text "}
	for h := 0; h < count; h++ {
		b := buf.New()
		var ops, outs []string
		for i := r.Intn(12); i >= 0; i-- {
			switch r.Intn(6) {
			case 0:
				ops = append(ops, "(string)")
				outs = append(outs, sxStr(buf.String(b)))
			case 1:
				if r.Intn(4) == 0 {
					b = buf.New()
					ops = append(ops, "(new)")
					outs = append(outs, "ok")
				}
			default:
				w := words[r.Intn(len(words))]
				buf.Write(b, w)
				ops = append(ops, sxList("write", sxStr(w)))
				outs = append(outs, "ok")
			}
		}
		ops = append(ops, "(string)")
		outs = append(outs, sxStr(buf.String(b)))
		emitIO(sxList(append([]string{"lib.buf"}, ops...)...), sxList(outs...))
		stat("buf.seq")
	}
}

// ---- frt: toS / SInterP on every basic kind, thunk discipline, tuples

func tosOne(kind string, v any, repr string) {
	res := "nocmp"
	func() {
		defer func() {
			if r := recover(); r != nil {
				res = "(panic)"
				violation(map[string]any{"kind": "SInterP panics", "reflect_kind": kind, "value": fmt.Sprintf("%v", v), "panic": fmt.Sprint(r)})
			}
		}()
		s := frt.SInterP("%s", v)
		switch kind {
		case "Float32", "Float64", "Complex64", "Complex128", "Slice", "Struct", "Map", "Pointer":
			res = "nocmp"
		case "String":
			res = sxStr(s)
		default:
			res = s
		}
		// Sprintf1 must not fail either
		_ = frt.Sprintf1("%v", v)
	}()
	emitIO(sxList("lib.tos", kind, repr), res)
	stat("tos." + kind)
}

func libFrt(seed int64, count int) {
	r := rand.New(rand.NewSource(seed))
	for i := 0; i < count; i++ {
		n := r.Int63n(1<<40) - (1 << 39)
		if i%3 == 1 {
			n = int64(r.Uint64()) // the whole 64-bit range
		}
		if i < 14 {
			n = []int64{0, 1, -1, 127, -128, 255, 65535, 1 << 31, math.MaxInt64, math.MinInt64, math.MaxInt32, math.MinInt32, math.MaxInt64 - 1, -(1 << 62)}[i]
		}
		u := uint64(n)
		if n < 0 && i%2 == 0 {
			u = uint64(-n)
		}
		if i >= 14 && i < 22 {
			// unsigned boundaries: values above MaxInt64 are where a signed conversion shows
			u = []uint64{math.MaxUint64, 1 << 63, 1<<63 - 1, 1<<63 + 1, math.MaxUint32, math.MaxUint32 + 1, math.MaxUint64 - 1, 1 << 62}[i-14]
		}
		tosOne("Int", int(n), strconv.FormatInt(n, 10))
		tosOne("Int8", int8(n), strconv.FormatInt(int64(int8(n)), 10))
		tosOne("Int16", int16(n), strconv.FormatInt(int64(int16(n)), 10))
		tosOne("Int32", int32(n), strconv.FormatInt(int64(int32(n)), 10))
		tosOne("Int64", n, strconv.FormatInt(n, 10))
		tosOne("Uint", uint(u), strconv.FormatUint(u, 10))
		tosOne("Uint8", uint8(u), strconv.FormatUint(uint64(uint8(u)), 10))
		tosOne("Uint16", uint16(u), strconv.FormatUint(uint64(uint16(u)), 10))
		tosOne("Uint32", uint32(u), strconv.FormatUint(uint64(uint32(u)), 10))
		tosOne("Uint64", u, strconv.FormatUint(u, 10))
		tosOne("Uintptr", uintptr(u), strconv.FormatUint(u, 10))
		tosOne("Float32", float32(n)/3, "0")
		tosOne("Float64", float64(n)/3, "0")
		tosOne("Bool", n%2 == 0, sxBool(n%2 == 0))
		s := []string{"", "a%b", "héllo", "{x}", "line\nbreak"}[i%5]
		tosOne("String", s, sxStr(s))
		tosOne("Slice", []int{int(n)}, "0")
		tosOne("Struct", frt.NewTuple2(int(n), s), "0")
		tosOne("Map", map[int]int{1: 2}, "0")
		tosOne("Pointer", &n, "0")
		tosOne("Complex128", complex(float64(n), 1), "0")
		// thunk discipline and tuple laws, directly on the implementation
		for _, c := range []bool{true, false} {
			var tr []string
			v := frt.IfElse(c, func() int { tr = append(tr, "t"); return 1 }, func() int { tr = append(tr, "f"); return 2 })
			if (c && (v != 1 || len(tr) != 1 || tr[0] != "t")) || (!c && (v != 2 || len(tr) != 1 || tr[0] != "f")) {
				violation(map[string]any{"kind": "IfElse ran the wrong thunks", "cond": c, "trace": tr, "value": v})
			}
			tr = nil
			frt.IfElseUnit(c, func() { tr = append(tr, "t") }, func() { tr = append(tr, "f") })
			if len(tr) != 1 || (c && tr[0] != "t") || (!c && tr[0] != "f") {
				violation(map[string]any{"kind": "IfElseUnit ran the wrong thunks", "cond": c, "trace": tr})
			}
			tr = nil
			frt.IfOnly(c, func() { tr = append(tr, "t") })
			if (c && len(tr) != 1) || (!c && len(tr) != 0) {
				violation(map[string]any{"kind": "IfOnly ran the wrong thunks", "cond": c, "trace": tr})
			}
		}
		if frt.Pipe(int(n), func(x int) int { return x*2 + 1 }) != int(n)*2+1 {
			violation(map[string]any{"kind": "Pipe x f != f x"})
		}
		got := 0
		frt.PipeUnit(int(n), func(x int) { got = x })
		t2 := frt.NewTuple2(int(n), s)
		a, b := frt.Destr2(t2)
		t3 := frt.NewTuple3(int(n), s, c3(n))
		x, y, z := frt.Destr3(t3)
		if got != int(n) || frt.Fst(t2) != int(n) || frt.Snd(t2) != s || a != int(n) || b != s || x != int(n) || y != s || z != c3(n) || frt.NewTuple2(frt.Fst(t2), frt.Snd(t2)) != t2 {
			violation(map[string]any{"kind": "tuple / PipeUnit law", "n": n})
		}
		if frt.OpNot(n%2 == 0) != (n%2 != 0) || frt.OpAnd(n%2 == 0, n%3 == 0) != (n%2 == 0 && n%3 == 0) {
			violation(map[string]any{"kind": "OpNot/OpAnd"})
		}
		stat("frt.laws")
	}
}

func c3(n int64) bool { return n%3 == 0 }
