// libdrv drives the real pkg/* code in-process and prints correspondence lines.
//
//	I <sexp>   an oracle input line            (followed by)
//	O <sexp>   what the implementation did on it
//	V <json>   a property violation observed directly on the implementation
//	S <key> <n> distribution statistics
package main

import (
	"bufio"

	"fmt"
	"github.com/karino2/folang/pkg/frt"
	"os"
	"sort"
	"strconv"
)

var out = bufio.NewWriterSize(os.Stdout, 1<<20)
var stats = map[string]int{}

func stat(k string) { stats[k]++ }

func emitIO(in, o string) {
	fmt.Fprintf(out, "I %s\nO %s\n", in, o)
}

func flushStats() {
	keys := make([]string, 0, len(stats))
	for k := range stats {
		keys = append(keys, k)
	}
	sort.Strings(keys)
	for _, k := range keys {
		fmt.Fprintf(out, "S %s %d\n", k, stats[k])
	}
	out.Flush()
}

func main() {
	if len(os.Args) < 4 {
		fmt.Fprintln(os.Stderr, "usage: libdrv <stream> <seed> <count> [extra]")
		os.Exit(2)
	}
	stream := os.Args[1]
	seed, _ := strconv.ParseInt(os.Args[2], 10, 64)
	count, _ := strconv.Atoi(os.Args[3])
	extra := os.Args[4:]
	switch stream {
	case "slice.hist":
		sliceHist(seed, count, extra)
	case "slice.exh":
		sliceExhaustive(count)
	case "slice.replay":
		sliceReplay(extra)
	case "lib.dict":
		libDict(seed, count)
	case "lib.str":
		n := 200
		if len(extra) > 0 {
			n = atoi(extra[0])
		}
		libStr(count, seed, n)
	case "lib.buf":
		libBuf(seed, count)
	case "lib.frt":
		libFrt(seed, count)
	case "lib.floathole":
		// known finding D11 (C11): what a float-typed hole renders as
		fmt.Fprintf(out, "R %s\n", frt.SInterP("%s", 1.5))
	default:
		fmt.Fprintln(os.Stderr, "unknown stream", stream)
		os.Exit(2)
	}
	flushStats()
}
