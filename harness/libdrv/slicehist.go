package main

import (
	"cmp"
	"encoding/hex"
	"encoding/json"
	"fmt"
	"math/rand"
	"runtime"
	"sort"
	"strconv"
	"strings"
	"unsafe"

	"github.com/karino2/folang/pkg/frt"
	"github.com/karino2/folang/pkg/slice"
)

// ---- element-type families (the oracle implements the same functions under the same names)

type fam[E comparable] struct {
	name    string
	enc     func(E) string
	dec     func(string) E
	zero    E
	mapFns  map[string]func(E) E
	mapiFns map[string]func(int, E) E
	predFns map[string]func(E) bool
	keyFns  map[string]func(E) int
	foldFns map[string]func(E, E) E
	foldIni map[string]E
	rnd     func(*rand.Rand) E
	sortFn  func([]E) []E
	alpha   []E
}

func keys[V any](m map[string]V) []string {
	ks := make([]string, 0, len(m))
	for k := range m {
		ks = append(ks, k)
	}
	sort.Strings(ks)
	return ks
}

func intFam() *fam[int] {
	return &fam[int]{
		name: "int",
		enc:  func(i int) string { return strconv.Itoa(i) },
		dec:  func(s string) int { i, _ := strconv.Atoi(s); return i },
		mapFns: map[string]func(int) int{
			"inc": func(x int) int { return x + 1 }, "dbl": func(x int) int { return 2 * x },
			"neg": func(x int) int { return -x }, "sq": func(x int) int { return x * x },
			"const7": func(int) int { return 7 }},
		mapiFns: map[string]func(int, int) int{
			"addi": func(i, x int) int { return x + i }, "idx": func(i, _ int) int { return i },
			"muli": func(i, x int) int { return x * i }},
		predFns: map[string]func(int) bool{
			"even": func(x int) bool { return x%2 == 0 }, "pos": func(x int) bool { return x > 0 },
			"lt3": func(x int) bool { return x < 3 }, "all": func(int) bool { return true },
			"none": func(int) bool { return false }},
		keyFns: map[string]func(int) int{
			"id": func(x int) int { return x }, "neg": func(x int) int { return -x },
			"mod3": func(x int) int { return emod(x, 3) }},
		foldFns: map[string]func(int, int) int{
			"sum": func(a, x int) int { return a + x }, "cnt": func(a, _ int) int { return a + 1 },
			"last": func(_, x int) int { return x }, "sub": func(a, x int) int { return a - x }},
		foldIni: map[string]int{"sum": 0, "cnt": 0, "last": -1, "sub": 0},
		rnd:     func(r *rand.Rand) int { return r.Intn(10) - 3 },
		sortFn:  func(s []int) []int { return slice.Sort(s) },
		alpha:   []int{0, 1, 2},
	}
}

// Lean's Int `%` is the Euclidean-style T-rounding? The oracle uses Int.emod (`%`), non-negative for positive modulus.
func emod(x, m int) int {
	r := x % m
	if r < 0 {
		r += m
	}
	return r
}

func strFam() *fam[string] {
	words := []string{"", "a", "b", "ab", "ba", "abc", "c"}
	return &fam[string]{
		name: "str",
		enc:  sxStr,
		dec:  func(s string) string { b, _ := hex.DecodeString(strings.TrimPrefix(s, "x")); return string(b) },
		mapFns: map[string]func(string) string{
			"appx": func(s string) string { return s + "x" }, "dup": func(s string) string { return s + s },
			"first": func(s string) string {
				if s == "" {
					return ""
				}
				return s[:1]
			},
			"constq": func(string) string { return "q" }},
		mapiFns: map[string]func(int, string) string{
			"tagi": func(i int, s string) string { return s + strconv.Itoa(i) },
			"idxs": func(i int, _ string) string { return strconv.Itoa(i) }},
		predFns: map[string]func(string) bool{
			"nonempty": func(s string) bool { return s != "" }, "hasa": func(s string) bool { return strings.Contains(s, "a") },
			"lenlt2": func(s string) bool { return len(s) < 2 }, "all": func(string) bool { return true },
			"none": func(string) bool { return false }},
		keyFns:  map[string]func(string) int{"len": func(s string) int { return len(s) }},
		foldFns: map[string]func(string, string) string{"cat": func(a, s string) string { return a + s }, "rcat": func(a, s string) string { return s + a }},
		foldIni: map[string]string{"cat": "", "rcat": ""},
		rnd:     func(r *rand.Rand) string { return words[r.Intn(len(words))] },
		sortFn:  func(s []string) []string { return slice.Sort(s) },
		alpha:   []string{"", "a", "ab"},
	}
}

// ---- world

type op struct {
	name string
	args []string
}

func (o op) sx(obs string) string { return sxList(o.name, sxList(o.args...), obs) }

type world[E comparable] struct {
	f     *fam[E]
	pool  [][]E
	snaps [][]E
	hist  []string // ops so far, with observations (oracle input)
	outs  []string
}

func newWorld[E comparable](f *fam[E]) *world[E] { return &world[E]{f: f} }

func (w *world[E]) encList(s []E) string {
	parts := make([]string, len(s))
	for i, e := range s {
		parts[i] = w.f.enc(e)
	}
	return sxList(parts...)
}

func (w *world[E]) get(i int) []E {
	if i < 0 || i >= len(w.pool) {
		return nil
	}
	return w.pool[i]
}

func atoi(s string) int { i, _ := strconv.Atoi(s); return i }

func panicSx(r any) string {
	if _, ok := r.(runtime.Error); ok {
		return "(panic index)"
	}
	return "(panic msg)"
}

// exec runs one op against the real package; returns the ret expression and the observation
func (w *world[E]) exec(o op) (ret string, obs string) {
	f := w.f
	a := o.args
	obs = "(0)"
	var res []E
	pushed := false
	isSort := false
	func() {
		defer func() {
			if r := recover(); r != nil {
				ret = panicSx(r)
				pushed = false
			}
		}()
		val := func(v string) string { return sxList("v", v) }
		switch o.name {
		case "new":
			res, pushed = slice.New[E](), true
		case "nil":
			res, pushed = nil, true
		case "lit":
			if len(a) == 0 {
				res = slice.New[E]()
			} else {
				res = make([]E, len(a))
				for i, s := range a {
					res[i] = f.dec(s)
				}
			}
			pushed = true
		case "tail":
			res, pushed = slice.Tail(w.get(atoi(a[0]))), true
		case "poplast":
			res, pushed = slice.PopLast(w.get(atoi(a[0]))), true
		case "take":
			res, pushed = slice.Take(atoi(a[0]), w.get(atoi(a[1]))), true
		case "skip":
			res, pushed = slice.Skip(atoi(a[0]), w.get(atoi(a[1]))), true
		case "map":
			res, pushed = slice.Map(f.mapFns[a[0]], w.get(atoi(a[1]))), true
		case "mapi":
			res, pushed = slice.Mapi(f.mapiFns[a[0]], w.get(atoi(a[1]))), true
		case "filter":
			res, pushed = slice.Filter(f.predFns[a[0]], w.get(atoi(a[1]))), true
		case "sort":
			res, pushed, isSort = f.sortFn(w.get(atoi(a[0]))), true, true
		case "sortby":
			res, pushed, isSort = slice.SortBy(f.keyFns[a[0]], w.get(atoi(a[1]))), true, true
		case "pushlast":
			res, pushed = slice.PushLast(f.dec(a[0]), w.get(atoi(a[1]))), true
		case "pushhead":
			res, pushed = slice.PushHead(f.dec(a[0]), w.get(atoi(a[1]))), true
		case "collect":
			k := atoi(a[1])
			n := len(w.pool)
			var cf func(E) []E
			if a[0] == "const" {
				cf = func(E) []E { return w.get(k) }
			} else {
				cf = func(e E) []E {
					if n == 0 {
						return w.get(0)
					}
					return w.get((abs(f.keyOf(e)) + k) % n)
				}
			}
			res, pushed = slice.Collect(cf, w.get(atoi(a[2]))), true
		case "concat":
			ss := make([][]E, len(a))
			for i, s := range a {
				ss[i] = w.get(atoi(s))
			}
			res, pushed = slice.Concat(ss), true
		case "append":
			res, pushed = slice.Append(w.get(atoi(a[0])), w.get(atoi(a[1]))), true
		case "distinct":
			res, pushed = slice.Distinct(w.get(atoi(a[0]))), true
		case "zip":
			z := slice.Zip(w.get(atoi(a[0])), w.get(atoi(a[1])))
			parts := []string{"s"}
			for _, t := range z {
				parts = append(parts, sxList("t", f.enc(frt.Fst(t)), f.enc(frt.Snd(t))))
			}
			ret = sxList(parts...)
		case "length":
			ret = val(strconv.Itoa(slice.Length(w.get(atoi(a[0])))))
		case "len":
			ret = val(strconv.Itoa(slice.Len(w.get(atoi(a[0])))))
		case "isempty":
			ret = val(sxBool(slice.IsEmpty(w.get(atoi(a[0])))))
		case "isnotempty":
			ret = val(sxBool(slice.IsNotEmpty(w.get(atoi(a[0])))))
		case "item":
			ret = val(f.enc(slice.Item(atoi(a[0]), w.get(atoi(a[1])))))
		case "head":
			ret = val(f.enc(slice.Head(w.get(atoi(a[0])))))
		case "last":
			ret = val(f.enc(slice.Last(w.get(atoi(a[0])))))
		case "forall":
			ret = val(sxBool(slice.Forall(f.predFns[a[0]], w.get(atoi(a[1])))))
		case "forany":
			ret = val(sxBool(slice.Forany(f.predFns[a[0]], w.get(atoi(a[1])))))
		case "tryfind":
			t := slice.TryFind(f.predFns[a[0]], w.get(atoi(a[1])))
			ret = val(sxList(f.enc(frt.Fst(t)), sxBool(frt.Snd(t))))
		case "fold":
			ret = val(f.enc(slice.Fold(f.foldFns[a[0]], f.foldIni[a[0]], w.get(atoi(a[1])))))
		case "iter":
			var tr []string
			slice.Iter(func(e E) { tr = append(tr, f.enc(e)) }, w.get(atoi(a[0])))
			ret = val(sxList(tr...))
		default:
			ret = "(bad-op)"
		}
	}()
	if pushed {
		w.pool = append(w.pool, res)
		w.snaps = append(w.snaps, append([]E(nil), res...))
		parts := []string{"s"}
		for _, e := range res {
			parts = append(parts, f.enc(e))
		}
		ret = sxList(parts...)
		if isSort {
			obs = sxList(strconv.Itoa(cap(res)), w.encList(res))
		} else {
			obs = sxList(strconv.Itoa(cap(res)))
		}
	}
	return
}

func abs(x int) int {
	if x < 0 {
		return -x
	}
	return x
}

// keyOf: integer view of an element, as the oracle's Val.asInt (ints: value; strings: byte length)
func (f *fam[E]) keyOf(e E) int {
	switch v := any(e).(type) {
	case int:
		return v
	case string:
		return len(v)
	}
	return 0
}

// canonical aliasing signature (same algorithm as Oracle.Slice.sigOf)
func (w *world[E]) sig() string {
	var z E
	size := unsafe.Sizeof(z)
	type rng struct{ lo, hi uintptr }
	var rs []rng
	los := make([]uintptr, len(w.pool))
	for i, s := range w.pool {
		if s != nil && cap(s) > 0 {
			lo := uintptr(unsafe.Pointer(unsafe.SliceData(s)))
			los[i] = lo
			rs = append(rs, rng{lo, lo + uintptr(cap(s))*size})
		}
	}
	sort.SliceStable(rs, func(i, j int) bool { return rs[i].lo < rs[j].lo })
	var comps []rng
	for _, r := range rs {
		if n := len(comps); n > 0 && r.lo < comps[n-1].hi {
			if r.hi > comps[n-1].hi {
				comps[n-1].hi = r.hi
			}
		} else {
			comps = append(comps, r)
		}
	}
	var seen []uintptr
	parts := make([]string, len(w.pool))
	for i, s := range w.pool {
		switch {
		case s == nil:
			parts[i] = "nil"
		case cap(s) == 0:
			parts[i] = "z:" + strconv.Itoa(len(s))
		default:
			lo := los[i]
			var c rng
			for _, cc := range comps {
				if cc.lo <= lo && lo < cc.hi {
					c = cc
					break
				}
			}
			k := -1
			for j, sl := range seen {
				if sl == c.lo {
					k = j
				}
			}
			if k < 0 {
				seen = append(seen, c.lo)
				k = len(seen) - 1
			}
			parts[i] = fmt.Sprintf("c%d+%d:%d:%d", k, (lo-c.lo)/size, len(s), cap(s))
		}
	}
	return sxList(parts...)
}

func (w *world[E]) poolSx() string {
	parts := make([]string, len(w.pool))
	for i, s := range w.pool {
		parts[i] = w.encList(s)
	}
	return sxList(parts...)
}

// step executes an op, records oracle input/output, and checks the property directly
func (w *world[E]) step(o op) {
	ret, obs := w.exec(o)
	w.hist = append(w.hist, o.sx(obs))
	w.outs = append(w.outs, sxList(ret, w.poolSx(), w.sig()))
	stat("op." + o.name)
	if strings.HasPrefix(ret, "(panic") {
		stat("panic." + o.name)
	}
	for i, s := range w.pool {
		if !equalSlices(s, w.snaps[i]) {
			v := map[string]any{
				"kind":    "slice-value-changed",
				"history": w.inputLine(),
				"index":   i,
				"was":     w.encList(w.snaps[i]),
				"now":     w.encList(s),
				"after":   o.sx(obs),
			}
			b, _ := json.Marshal(v)
			fmt.Fprintf(out, "V %s\n", b)
			w.snaps[i] = append([]E(nil), s...) // report each change once
		}
	}
}

func equalSlices[E comparable](a, b []E) bool {
	if len(a) != len(b) {
		return false
	}
	for i := range a {
		if a[i] != b[i] {
			return false
		}
	}
	return true
}

func (w *world[E]) inputLine() string {
	return sxList(append([]string{"slice.hist", w.f.name}, w.hist...)...)
}

func (w *world[E]) finish() {
	emitIO(w.inputLine(), sxList(w.outs...))
	stat("hist.poolsize." + strconv.Itoa(len(w.pool)/4*4))
}

// ---- random histories

type wop struct {
	name string
	w    int
}

var opWeights = []wop{
	{"lit", 8}, {"new", 1}, {"nil", 1}, {"tail", 6}, {"poplast", 7}, {"take", 5}, {"skip", 5}, {"map", 4},
	{"mapi", 2}, {"filter", 4}, {"sort", 3}, {"sortby", 3}, {"zip", 2}, {"pushlast", 14}, {"pushhead", 5},
	{"collect", 3}, {"concat", 3}, {"append", 5}, {"distinct", 3}, {"length", 1}, {"len", 1}, {"isempty", 1},
	{"isnotempty", 1}, {"item", 1}, {"head", 1}, {"last", 1}, {"forall", 1}, {"forany", 1}, {"tryfind", 1},
	{"fold", 1}, {"iter", 1},
}

func pick(r *rand.Rand, ks []string) string { return ks[r.Intn(len(ks))] }

func (w *world[E]) randomOp(r *rand.Rand, prevSrc *int) op {
	f := w.f
	n := len(w.pool)
	if n == 0 {
		k := r.Intn(10)
		if k == 0 {
			return op{"new", nil}
		}
		if k == 1 {
			return op{"nil", nil}
		}
		return w.litOp(r)
	}
	idx := func() string {
		var i int
		switch r.Intn(4) {
		case 0, 1:
			i = n - 1
		case 2:
			i = r.Intn(n)
		default:
			i = *prevSrc
			if i >= n {
				i = n - 1
			}
		}
		*prevSrc = i
		return strconv.Itoa(i)
	}
	total := 0
	for _, o := range opWeights {
		total += o.w
	}
	x := r.Intn(total)
	name := ""
	for _, o := range opWeights {
		if x < o.w {
			name = o.name
			break
		}
		x -= o.w
	}
	cnt := func(i string) string {
		l := len(w.get(atoi(i)))
		return strconv.Itoa(r.Intn(l+3) - 1)
	}
	switch name {
	case "lit":
		return w.litOp(r)
	case "new", "nil":
		return op{name, nil}
	case "tail", "poplast", "sort", "distinct", "length", "len", "isempty", "isnotempty", "head", "last", "iter":
		return op{name, []string{idx()}}
	case "take", "skip", "item":
		i := idx()
		return op{name, []string{cnt(i), i}}
	case "map":
		return op{name, []string{pick(r, keys(f.mapFns)), idx()}}
	case "mapi":
		return op{name, []string{pick(r, keys(f.mapiFns)), idx()}}
	case "filter", "forall", "forany", "tryfind":
		return op{name, []string{pick(r, keys(f.predFns)), idx()}}
	case "sortby":
		return op{name, []string{pick(r, keys(f.keyFns)), idx()}}
	case "fold":
		return op{name, []string{pick(r, keys(f.foldFns)), idx()}}
	case "pushlast", "pushhead":
		return op{name, []string{f.enc(f.rnd(r)), idx()}}
	case "collect":
		// keep results small: the callback returns whole pool values, so sizes multiply
		mx := 0
		for _, s := range w.pool {
			if len(s) > mx {
				mx = len(s)
			}
		}
		i := idx()
		if mx*len(w.get(atoi(i))) > 300 {
			return op{"distinct", []string{i}}
		}
		return op{name, []string{pick(r, []string{"const", "mod"}), strconv.Itoa(r.Intn(n)), i}}
	case "concat":
		k := r.Intn(4)
		var a []string
		tot := 0
		for i := 0; i < k; i++ {
			j := idx()
			tot += len(w.get(atoi(j)))
			if tot > 300 {
				break
			}
			a = append(a, j)
		}
		return op{name, a}
	case "append", "zip":
		i, j := idx(), idx()
		if name == "append" && len(w.get(atoi(i)))+len(w.get(atoi(j))) > 300 {
			return op{"take", []string{"3", i}}
		}
		return op{name, []string{i, j}}
	}
	return op{"new", nil}
}

func (w *world[E]) litOp(r *rand.Rand) op {
	l := r.Intn(10)
	a := make([]string, l)
	for i := range a {
		a[i] = w.f.enc(w.f.rnd(r))
	}
	return op{"lit", a}
}

func runRandom[E comparable](f *fam[E], r *rand.Rand, nops int) {
	w := newWorld(f)
	prev := 0
	for i := 0; i < nops; i++ {
		w.step(w.randomOp(r, &prev))
	}
	w.finish()
}

func sliceHist(seed int64, count int, extra []string) {
	nops := 12
	if len(extra) > 0 {
		nops = atoi(extra[0])
	}
	r := rand.New(rand.NewSource(seed))
	fi, fs := intFam(), strFam()
	for i := 0; i < count; i++ {
		if i%3 == 2 {
			runRandom(fs, r, nops)
		} else {
			runRandom(fi, r, nops)
		}
	}
}

// ---- exhaustive small slices x every function x every parameter

func exhaustOne[E comparable](f *fam[E], base []E) {
	w := newWorld(f)
	a := make([]string, len(base))
	for i, e := range base {
		a[i] = f.enc(e)
	}
	w.step(op{"lit", a}) // pool[0]
	rev := make([]string, len(a))
	for i := range a {
		rev[i] = a[len(a)-1-i]
	}
	w.step(op{"lit", rev})                      // pool[1] same length
	w.step(op{"lit", append([]string{}, a[:len(a)/2]...)}) // pool[2] shorter (or equal when empty)
	w.step(op{"nil", nil})                      // pool[3]
	for _, name := range []string{"tail", "poplast", "sort", "distinct", "length", "len", "isempty", "isnotempty", "head", "last", "iter"} {
		w.step(op{name, []string{"0"}})
	}
	for n := -1; n <= len(base)+1; n++ {
		for _, name := range []string{"take", "skip", "item"} {
			w.step(op{name, []string{strconv.Itoa(n), "0"}})
		}
	}
	for _, fn := range keys(f.mapFns) {
		w.step(op{"map", []string{fn, "0"}})
	}
	for _, fn := range keys(f.mapiFns) {
		w.step(op{"mapi", []string{fn, "0"}})
	}
	for _, fn := range keys(f.predFns) {
		for _, name := range []string{"filter", "forall", "forany", "tryfind"} {
			w.step(op{name, []string{fn, "0"}})
		}
	}
	for _, fn := range keys(f.keyFns) {
		w.step(op{"sortby", []string{fn, "0"}})
	}
	for _, fn := range keys(f.foldFns) {
		w.step(op{"fold", []string{fn, "0"}})
	}
	for _, e := range f.alpha {
		w.step(op{"pushlast", []string{f.enc(e), "0"}})
		w.step(op{"pushhead", []string{f.enc(e), "0"}})
	}
	for _, j := range []string{"0", "1", "2", "3"} {
		w.step(op{"append", []string{"0", j}})
		w.step(op{"append", []string{j, "0"}})
		w.step(op{"zip", []string{"0", j}})
		w.step(op{"collect", []string{"const", j, "0"}})
	}
	w.step(op{"collect", []string{"mod", "0", "0"}})
	w.step(op{"concat", []string{"0", "1", "0"}})
	w.step(op{"concat", nil})
	w.step(op{"concat", []string{"3", "2"}})
	// the same on the nil slice
	for _, name := range []string{"tail", "poplast", "sort", "distinct", "head", "last", "length"} {
		w.step(op{name, []string{"3"}})
	}
	w.finish()
}

func enumLists[E any](alpha []E, maxLen int, f func([]E)) {
	var rec func(cur []E)
	rec = func(cur []E) {
		f(cur)
		if len(cur) == maxLen {
			return
		}
		for _, e := range alpha {
			rec(append(append([]E{}, cur...), e))
		}
	}
	rec(nil)
}

func sliceExhaustive(maxLen int) {
	fi, fs := intFam(), strFam()
	enumLists(fi.alpha, maxLen, func(l []int) { exhaustOne(fi, l) })
	enumLists([]int{-1, 3}, maxLen, func(l []int) { exhaustOne(fi, l) })
	enumLists(fs.alpha, maxLen, func(l []string) { exhaustOne(fs, l) })
}

// ---- replay of one oracle input line

func replayWorld[E comparable](f *fam[E], ops []sx) {
	w := newWorld(f)
	for _, o := range ops {
		if !o.isL || len(o.list) < 2 {
			continue
		}
		var a []string
		for _, x := range o.list[1].list {
			a = append(a, x.String())
		}
		w.step(op{o.list[0].atom, a})
	}
	w.finish()
}

func sliceReplay(extra []string) {
	if len(extra) == 0 {
		return
	}
	x, ok := parseSx(extra[0])
	if !ok || !x.isL || len(x.list) < 2 {
		fmt.Fprintln(out, "bad replay line")
		return
	}
	if x.list[1].atom == "str" {
		replayWorld(strFam(), x.list[2:])
	} else {
		replayWorld(intFam(), x.list[2:])
	}
}

var _ = cmp.Compare[int]
