package main

import (
	"encoding/hex"
	"strings"
)

func sxList(items ...string) string { return "(" + strings.Join(items, " ") + ")" }

func sxStr(s string) string { return "x" + hex.EncodeToString([]byte(s)) }

func sxBool(b bool) string {
	if b {
		return "true"
	}
	return "false"
}

// minimal S-expression reader (for replays)
type sx struct {
	atom string
	list []sx
	isL  bool
}

func parseSx(s string) (sx, bool) {
	toks := []string{}
	cur := ""
	for _, c := range s {
		switch c {
		case '(', ')':
			if cur != "" {
				toks = append(toks, cur)
				cur = ""
			}
			toks = append(toks, string(c))
		case ' ', '\t', '\n', '\r':
			if cur != "" {
				toks = append(toks, cur)
				cur = ""
			}
		default:
			cur += string(c)
		}
	}
	if cur != "" {
		toks = append(toks, cur)
	}
	pos := 0
	var rec func() (sx, bool)
	rec = func() (sx, bool) {
		if pos >= len(toks) {
			return sx{}, false
		}
		t := toks[pos]
		pos++
		if t == "(" {
			l := sx{isL: true}
			for {
				if pos >= len(toks) {
					return sx{}, false
				}
				if toks[pos] == ")" {
					pos++
					return l, true
				}
				e, ok := rec()
				if !ok {
					return sx{}, false
				}
				l.list = append(l.list, e)
			}
		}
		if t == ")" {
			return sx{}, false
		}
		return sx{atom: t}, true
	}
	r, ok := rec()
	return r, ok && pos == len(toks)
}

func (x sx) String() string {
	if !x.isL {
		return x.atom
	}
	parts := make([]string, len(x.list))
	for i, e := range x.list {
		parts[i] = e.String()
	}
	return sxList(parts...)
}
