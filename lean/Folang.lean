import Folang.Model.GoSlice
import Folang.Lemmas.GoSlice
import Folang.Lemmas.SliceFuncs
