import Folang.Props.C08
/-
A canonical grouping tree is determined by its flattening: grouping the chain of a canonical tree
gives the tree back.
-/
set_option linter.unusedSectionVars false
namespace Folang.Props.C08
open Folang.Prec
variable {α : Type} (prec : Nat → Nat)

def opsOfG : G α → List Nat
  | .atom _ => []
  | .bin op l r => op :: (opsOfG l ++ opsOfG r)

/-- in a canonical tree no operator is looser than the root -/
theorem canon_ops_ge : ∀ (t : G α), Canon prec t → ∀ (op : Nat) (l r : G α), t = .bin op l r →
    ∀ k ∈ opsOfG t, prec op ≤ prec k := by
  intro t
  induction t with
  | atom a => intro _ op l r h; cases h
  | bin op0 l0 r0 ihl ihr =>
    intro hc op l r h k hk
    cases h
    obtain ⟨hl, hr, hlo, hro⟩ := hc
    simp only [opsOfG, List.mem_cons, List.mem_append] at hk
    rcases hk with rfl | hk | hk
    · exact Nat.le_refl _
    · cases l0 with
      | atom a => simp [opsOfG] at hk
      | bin opl ll lr =>
        have := ihl hl opl ll lr rfl k hk
        simp only [rootOK] at hlo
        omega
    · cases r0 with
      | atom a => simp [opsOfG] at hk
      | bin opr rl rr =>
        have := ihr hr opr rl rr rfl k hk
        simp only at hro
        omega

theorem mem_flatten_ops : ∀ (t : G α) (e : Nat × α), e ∈ (flatten t).2 → e.1 ∈ opsOfG t := by
  intro t
  induction t with
  | atom a => intro e he; simp [flatten] at he
  | bin op l r ihl ihr =>
    intro e he
    simp only [flatten, List.mem_append, List.mem_cons, List.not_mem_nil, or_false] at he
    simp only [opsOfG, List.mem_cons, List.mem_append]
    rcases he with (he | rfl) | he
    · exact Or.inr (Or.inl (ihl e he))
    · exact Or.inl rfl
    · exact Or.inr (Or.inr (ihr e he))

/-- **a canonical tree is the grouping of its own chain** -/
theorem group_of_canon : ∀ (t : G α), Canon prec t → group prec (.atom (flatten t).1) (flatten t).2 = t := by
  intro t
  induction t with
  | atom a => intro _; simp [flatten, group]
  | bin op l r ihl ihr =>
    intro hc
    obtain ⟨hl, hr, hlo, hro⟩ := hc
    simp only [flatten]
    rw [group_append, group_append, ihl hl]
    -- the operator becomes the parent of the left tree
    have h1 : group prec l [(op, (flatten r).1)] = .bin op l (.atom (flatten r).1) := by
      cases l with
      | atom x => rfl
      | bin op' ll lr =>
        have : ¬ prec op' < prec op := by simp only [rootOK] at hlo; omega
        simp [group, Prec.insert, this]
    rw [h1]
    -- everything in the right tree is strictly tighter
    have hall : ∀ e ∈ (flatten r).2, prec op < prec e.1 := by
      intro e he
      have hmem := mem_flatten_ops r e he
      cases r with
      | atom x => simp [opsOfG] at hmem
      | bin opr rl rr =>
        have := canon_ops_ge prec (.bin opr rl rr) hr opr rl rr rfl e.1 hmem
        simp only at hro
        omega
    rw [group_bin_tighter prec op l (.atom (flatten r).1) (flatten r).2 hall, ihr hr]

end Folang.Props.C08
