import Folang.Model.GoSlice
/-
Helper lemmas for the Go slice heap model: validity, frame (`Ext`), freshness, and a
Hoare-style rule for the index loops.
-/
namespace Folang.GoSlice
variable {α : Type}

/-- the slice header points into the heap and is within its array -/
def Valid (h : Heap α) : Slice → Prop
  | .nil => True
  | .mk a o l c => a < h.length ∧ l ≤ c ∧ o + c ≤ (arrOf h a).length

/-- `h'` extends `h`: at least as many arrays, and arrays below `n` are unchanged -/
def AgreeBelow (n : Nat) (h h' : Heap α) : Prop :=
  h.length ≤ h'.length ∧ ∀ a, a < n → arrOf h' a = arrOf h a

/-- `h'` is `h` plus new arrays; no existing array changed -/
def Ext (h h' : Heap α) : Prop := AgreeBelow h.length h h'

/-- the slice is nil or lives in an array allocated at or after `n` -/
def Fresh (n : Nat) : Slice → Prop
  | .nil => True
  | .mk a _ _ _ => n ≤ a

theorem AgreeBelow.refl (n : Nat) (h : Heap α) : AgreeBelow n h h := ⟨Nat.le_refl _, fun _ _ => rfl⟩

theorem AgreeBelow.trans {n : Nat} {h1 h2 h3 : Heap α} (a : AgreeBelow n h1 h2) (b : AgreeBelow n h2 h3) :
    AgreeBelow n h1 h3 :=
  ⟨Nat.le_trans a.1 b.1, fun x hx => (b.2 x hx).trans (a.2 x hx)⟩

theorem Ext.refl (h : Heap α) : Ext h h := AgreeBelow.refl _ _

theorem AgreeBelow.mono {n m : Nat} {h h' : Heap α} (a : AgreeBelow n h h') (hm : m ≤ n) : AgreeBelow m h h' :=
  ⟨a.1, fun x hx => a.2 x (Nat.lt_of_lt_of_le hx hm)⟩

theorem Ext.trans {h1 h2 h3 : Heap α} (a : Ext h1 h2) (b : Ext h2 h3) : Ext h1 h3 :=
  AgreeBelow.trans a (b.mono a.1)

theorem arrOf_append_left (h : Heap α) (x : List (List α)) {a : Nat} (ha : a < h.length) :
    arrOf (h ++ x) a = arrOf h a := by
  simp [arrOf, List.getD, List.getElem?_append_left ha]

theorem arrOf_append_length (h : Heap α) (x : List α) : arrOf (h ++ [x]) h.length = x := by
  simp [arrOf, List.getD]

theorem arrOf_set_ne (h : Heap α) {a b : Nat} (x : List α) (hab : a ≠ b) : arrOf (h.set a x) b = arrOf h b := by
  simp [arrOf, List.getD, List.getElem?_set_ne hab]

theorem arrOf_set_eq (h : Heap α) {a : Nat} (x : List α) (ha : a < h.length) : arrOf (h.set a x) a = x := by
  simp [arrOf, List.getD, List.getElem?_set_self ha]

theorem read_agree {n : Nat} {h h' : Heap α} (ag : AgreeBelow n h h') {s : Slice}
    (hs : match s with | .nil => True | .mk a _ _ _ => a < n) : read h' s = read h s := by
  cases s with
  | nil => rfl
  | mk a o l c => simp only [read]; rw [ag.2 a hs]

theorem Valid.arr_lt {h : Heap α} {a o l c : Nat} (v : Valid h (.mk a o l c)) : a < h.length := v.1

theorem read_ext {h h' : Heap α} (e : Ext h h') {s : Slice} (v : Valid h s) : read h' s = read h s := by
  apply read_agree e
  cases s with
  | nil => trivial
  | mk a o l c => exact v.1

theorem valid_ext {h h' : Heap α} (e : Ext h h') {s : Slice} (v : Valid h s) : Valid h' s := by
  cases s with
  | nil => trivial
  | mk a o l c =>
    refine ⟨Nat.lt_of_lt_of_le v.1 e.1, v.2.1, ?_⟩
    rw [e.2 a v.1]; exact v.2.2

theorem read_length {h : Heap α} {s : Slice} (v : Valid h s) : (read h s).length = s.len := by
  cases s with
  | nil => rfl
  | mk a o l c =>
    simp only [read, Slice.len, List.length_take, List.length_drop]
    have := v.2.2; have := v.2.1; omega

theorem getAt_some_of_lt {h : Heap α} {s : Slice} (v : Valid h s) {i : Nat} (hi : i < s.len) :
    ∃ e, getAt h s i = some e ∧ (read h s)[i]? = some e := by
  have : i < (read h s).length := by rw [read_length v]; exact hi
  exact ⟨(read h s)[i], by simp [getAt, this], by simp [this]⟩

theorem getAt_none_of_ge {h : Heap α} {s : Slice} (v : Valid h s) {i : Nat} (hi : s.len ≤ i) :
    getAt h s i = none := by
  simp [getAt, read_length v, hi]

theorem writeAt_length (arr : List α) (pos : Nat) (xs : List α) (hp : pos + xs.length ≤ arr.length) :
    (writeAt arr pos xs).length = arr.length := by
  simp [writeAt]; omega

theorem writeAt_take (arr : List α) (pos : Nat) (xs : List α) (hp : pos ≤ arr.length) :
    (writeAt arr pos xs).take pos = arr.take pos := by
  simp only [writeAt, List.append_assoc]
  rw [List.take_append_of_le_length (by simp; omega)]
  simp [List.take_take]

theorem writeAt_drop_take (arr : List α) (o l : Nat) (xs : List α) (hp : o + l + xs.length ≤ arr.length) :
    ((writeAt arr (o + l) xs).drop o).take (l + xs.length) = ((arr.drop o).take l) ++ xs := by
  simp only [writeAt, List.append_assoc]
  have h1 : (arr.take (o + l)).length = o + l := by simp; omega
  rw [List.drop_append_of_le_length (by omega)]
  rw [List.take_append]
  simp only [List.length_drop, List.length_take]
  have : min (o + l) arr.length - o = l := by omega
  rw [this]
  have h2 : l + xs.length - l = xs.length := by omega
  rw [h2]
  simp only [List.take_left']
  congr 1
  rw [List.take_of_length_le (by simp; omega)]
  rw [List.drop_take]
  congr 1; omega

theorem writeCells_agree (n : Nat) (h : Heap α) (a pos : Nat) (xs : List α) (ha : xs ≠ [] → n ≤ a) :
    AgreeBelow n h (writeCells h a pos xs) := by
  unfold writeCells
  split
  · exact AgreeBelow.refl _ _
  · rename_i hx
    refine ⟨by simp, fun b hb => ?_⟩
    have : n ≤ a := ha (by intro h'; simp [h'] at hx)
    exact arrOf_set_ne _ _ (by omega)

theorem writeCells_length (h : Heap α) (a pos : Nat) (xs : List α) : (writeCells h a pos xs).length = h.length := by
  unfold writeCells; split <;> simp

theorem writeCells_arrOf (h : Heap α) (a pos : Nat) (xs : List α) (ha : a < h.length) :
    arrOf (writeCells h a pos xs) a = writeAt (arrOf h a) pos xs := by
  unfold writeCells
  split
  · rename_i hx; simp at hx; subst hx; simp [writeAt]
  · exact arrOf_set_eq _ _ ha

section append
variable [Inhabited α]

theorem allocWith_spec (h : Heap α) (xs : List α) (cap : Nat) :
    Ext h (allocWith h xs cap).2 ∧ Valid (allocWith h xs cap).2 (allocWith h xs cap).1 ∧
    read (allocWith h xs cap).2 (allocWith h xs cap).1 = xs ∧ Fresh h.length (allocWith h xs cap).1 ∧
    (allocWith h xs cap).1.len = xs.length := by
  refine ⟨⟨by simp [allocWith], fun a ha => ?_⟩, ?_, ?_, ?_, rfl⟩
  · exact arrOf_append_left h _ ha
  · simp only [allocWith, Valid, arrOf_append_length]
    simp; omega
  · simp only [allocWith, read, arrOf_append_length]
    simp
  · simp [allocWith, Fresh]

/-- `append` on a valid slice: the result holds the old contents followed by `xs` -/
theorem appendN_read (g : Growth) (h : Heap α) (s : Slice) (xs : List α) (v : Valid h s) :
    Valid (appendN g h s xs).2 (appendN g h s xs).1 ∧
    read (appendN g h s xs).2 (appendN g h s xs).1 = read h s ++ xs := by
  cases s with
  | nil =>
    simp only [appendN]
    split
    · rename_i hx; simp at hx; subst hx; exact ⟨trivial, rfl⟩
    · have := allocWith_spec h xs (g 0 xs.length)
      exact ⟨this.2.1, by simpa [read] using this.2.2.1⟩
  | mk a o l c =>
    simp only [appendN]
    split
    · rename_i hle
      have hlen := v.2.2
      constructor
      · refine ⟨by rw [writeCells_length]; exact v.1, hle, ?_⟩
        rw [writeCells_arrOf _ _ _ _ v.1, writeAt_length _ _ _ (by omega)]; exact hlen
      · simp only [read]
        rw [writeCells_arrOf _ _ _ _ v.1]
        exact writeAt_drop_take _ _ _ _ (by omega)
    · have := allocWith_spec h (read h (.mk a o l c) ++ xs) (g c (l + xs.length))
      exact ⟨this.2.1, this.2.2.1⟩

/-- `append` on a slice that is fresh w.r.t. `n` leaves arrays below `n` alone and returns a fresh slice -/
theorem appendN_frame (g : Growth) (n : Nat) (h : Heap α) (s : Slice) (xs : List α)
    (hn : n ≤ h.length) (fr : Fresh n s) :
    AgreeBelow n h (appendN g h s xs).2 ∧ Fresh n (appendN g h s xs).1 := by
  cases s with
  | nil =>
    simp only [appendN]
    split
    · exact ⟨AgreeBelow.refl _ _, trivial⟩
    · have := allocWith_spec h xs (g 0 xs.length)
      exact ⟨this.1.mono hn, by simp [allocWith, Fresh]; exact hn⟩
  | mk a o l c =>
    simp only [appendN]
    split
    · exact ⟨writeCells_agree n h a _ xs (fun _ => fr), fr⟩
    · have := allocWith_spec h (read h (.mk a o l c) ++ xs) (g c (l + xs.length))
      exact ⟨this.1.mono hn, by simp [allocWith, Fresh]; exact hn⟩

end append

/-- Hoare rule for the index loop, success case: `P i st` is the invariant before iteration `i` -/
theorem idxLoop_ok {τ : Type} (hp : τ → Heap α) (s : Slice) (body : Nat → α → τ → Except Panic τ)
    (h0 : Heap α) (v : Valid h0 s) (P : Nat → τ → Prop)
    (hread : ∀ i st, P i st → getAt (hp st) s i = getAt h0 s i)
    (hbody : ∀ i e st, P i st → (read h0 s)[i]? = some e → ∃ st', body i e st = .ok st' ∧ P (i + 1) st') :
    ∀ (fuel i : Nat) (st : τ), P i st → i + fuel ≤ s.len →
      ∃ st', idxLoop hp s body fuel i st = .ok st' ∧ P (i + fuel) st' := by
  intro fuel
  induction fuel with
  | zero => intro i st hP _; exact ⟨st, rfl, hP⟩
  | succ k ih =>
    intro i st hP hle
    obtain ⟨e, he, he'⟩ := getAt_some_of_lt v (i := i) (by omega)
    obtain ⟨st', hb, hP'⟩ := hbody i e st hP he'
    obtain ⟨st'', hl, hP''⟩ := ih (i + 1) st' hP' (by omega)
    refine ⟨st'', ?_, by rw [show i + (k + 1) = i + 1 + k by omega]; exact hP''⟩
    simp only [idxLoop, hread i st hP, he, hb]; exact hl

/-- Hoare rule for the index loop, failure case: running past the end is an index panic -/
theorem idxLoop_overrun {τ : Type} (hp : τ → Heap α) (s : Slice) (body : Nat → α → τ → Except Panic τ)
    (h0 : Heap α) (v : Valid h0 s) (P : Nat → τ → Prop)
    (hread : ∀ i st, P i st → getAt (hp st) s i = getAt h0 s i)
    (hbody : ∀ i e st, P i st → (read h0 s)[i]? = some e → ∃ st', body i e st = .ok st' ∧ P (i + 1) st') :
    ∀ (fuel i : Nat) (st : τ), P i st → s.len < i + fuel → i ≤ s.len →
      idxLoop hp s body fuel i st = .error .index := by
  intro fuel
  induction fuel with
  | zero => intro i st _ hlt hle; omega
  | succ k ih =>
    intro i st hP hlt hle
    by_cases hi : i < s.len
    · obtain ⟨e, he, he'⟩ := getAt_some_of_lt v (i := i) hi
      obtain ⟨st', hb, hP'⟩ := hbody i e st hP he'
      simp only [idxLoop, hread i st hP, he, hb]
      exact ih (i + 1) st' hP' (by omega) (by omega)
    · have : getAt h0 s i = none := getAt_none_of_ge v (by omega)
      simp only [idxLoop, hread i st hP, this]

end Folang.GoSlice
