import Folang.Model.Literal
/-
Per-piece lemmas: every stage of the pipeline (fc scanner, ParseSInterP, Go unquote, Sprintf) maps
the image of one well-formed piece followed by ANY tail to its next image followed by the stage
applied to the tail.
-/
namespace Folang.Literal

def identByte (b : UInt8) : Bool :=
  (97 ≤ b && b ≤ 122) || (65 ≤ b && b ≤ 90) || (48 ≤ b && b ≤ 57) || b == 95

/-- prepend to the value of a scanner result -/
def pre (x : Bytes) (r : Except Err (Bytes × Bytes)) : Except Err (Bytes × Bytes) :=
  match r with
  | .ok (v, t) => .ok (x ++ v, t)
  | .error e => .error e

def pre2 (x : Bytes) (ns : List Bytes) (r : Except Err (Bytes × List Bytes)) : Except Err (Bytes × List Bytes) :=
  match r with
  | .ok (f, vs) => .ok (x ++ f, ns ++ vs)
  | .error e => .error e

/-- pieces of a "..." / $"..." body -/
def WFdq (interp : Bool) : Seg → Prop
  | .lit c => c ≠ DQ ∧ c ≠ BS ∧ (interp = true → c ≠ LBR)
  | .esc c => c = Ln ∨ c = Lt ∨ c = BS ∨ c = DQ
  | .brace c => interp = true ∧ (c = LBR ∨ c = RBR)
  | .hole n => interp = true ∧ ∀ b ∈ n, identByte b = true

/-- pieces of a `...` / $`...` body -/
def WFraw (interp : Bool) : Seg → Prop
  | .lit c => c ≠ BT ∧ (interp = true → c ≠ LBR)
  | .hole n => interp = true ∧ ∀ b ∈ n, identByte b = true
  | _ => False

/-- image after the fc scanner of a "..." body -/
def i1dq : Seg → Bytes
  | .lit c => if c = NL then [BS, Ln] else [c]
  | .esc c => [BS, c]
  | .brace c => [BS, c]
  | .hole n => LBR :: n ++ [RBR]

/-- image after the fc scanner of a raw body -/
def i1raw : Seg → Bytes
  | .lit c => if c = BS then [BS, BS] else if c = DQ then [BS, DQ] else if c = NL then [BS, Ln] else [c]
  | .hole n => LBR :: n ++ [RBR]
  | s => s.src

theorem ident_ne {b : UInt8} (h : identByte b = true) :
    b ≠ DQ ∧ b ≠ BS ∧ b ≠ NL ∧ b ≠ BT ∧ b ≠ RBR ∧ b ≠ LBR ∧ b ≠ PC := by
  simp only [identByte, Bool.or_eq_true, Bool.and_eq_true, decide_eq_true_eq, beq_iff_eq] at h
  refine ⟨?_, ?_, ?_, ?_, ?_, ?_, ?_⟩ <;> intro he <;> subst he <;> revert h <;> decide

/-! ### one-step unfoldings (the definitions use nested patterns, so their equation lemmas are split) -/

theorem scanStr_other (c : UInt8) (t : Bytes) (h1 : c ≠ DQ) (h2 : c ≠ BS) (h3 : c ≠ NL) :
    scanStr (c :: t) = pre [c] (scanStr t) := by
  cases t <;> simp [scanStr, pre, h1, h2, h3] <;> split <;> simp_all
theorem scanStr_nl (t : Bytes) : scanStr (NL :: t) = pre [BS, Ln] (scanStr t) := by
  cases t <;> simp [scanStr, pre, show NL ≠ DQ by decide, show NL ≠ BS by decide] <;> split <;> simp_all
theorem scanStr_bs (c2 : UInt8) (t : Bytes) : scanStr (BS :: c2 :: t) = pre [BS, c2] (scanStr t) := by
  simp [scanStr, pre, show BS ≠ DQ by decide]; split <;> simp_all
theorem scanStr_dq (t : Bytes) : scanStr (DQ :: t) = .ok ([], t) := by
  cases t <;> simp [scanStr]

theorem scanRaw_cons (c : UInt8) (t : Bytes) (h : c ≠ BT) :
    scanRaw (c :: t) = pre (if c = BS then [BS, BS] else if c = DQ then [BS, DQ] else if c = NL then [BS, Ln] else [c])
      (scanRaw t) := by
  simp only [scanRaw, h, if_false]
  cases scanRaw t with
  | error e => rfl
  | ok p =>
    obtain ⟨v, r⟩ := p
    by_cases hb : c = BS
    · simp [pre, hb]
    · by_cases hd : c = DQ
      · subst hd; simp [pre, show DQ ≠ BS by decide]
      · by_cases hn : c = NL
        · subst hn; simp [pre, show NL ≠ BS by decide, show NL ≠ DQ by decide]
        · simp [pre, hb, hd, hn]
theorem scanRaw_bt (t : Bytes) : scanRaw (BT :: t) = .ok ([], t) := by simp [scanRaw]

theorem pre_pre (x y : Bytes) (r : Except Err (Bytes × Bytes)) : pre x (pre y r) = pre (x ++ y) r := by
  cases r with
  | error e => rfl
  | ok p => obtain ⟨v, t⟩ := p; simp [pre]

theorem pre_nil (r : Except Err (Bytes × Bytes)) : pre [] r = r := by
  cases r with
  | error e => rfl
  | ok p => obtain ⟨v, t⟩ := p; simp [pre]

theorem scanStr_ident (n : Bytes) (hn : ∀ b ∈ n, identByte b = true) (tail : Bytes) :
    scanStr (n ++ tail) = pre n (scanStr tail) := by
  induction n with
  | nil => simp [pre_nil]
  | cons b rest ih =>
    have hb := ident_ne (hn b List.mem_cons_self)
    rw [List.cons_append, scanStr_other b _ hb.1 hb.2.1 hb.2.2.1, ih (fun x hx => hn x (List.mem_cons_of_mem _ hx)), pre_pre]
    rfl

theorem L1dq (interp : Bool) (s : Seg) (wf : WFdq interp s) (tail : Bytes) :
    scanStr (s.src ++ tail) = pre (i1dq s) (scanStr tail) := by
  cases s with
  | lit c =>
    obtain ⟨h1, h2, _⟩ := wf
    by_cases hn : c = NL
    · subst hn; simp only [Seg.src, List.cons_append, List.nil_append, i1dq, if_true]; exact scanStr_nl tail
    · simp only [Seg.src, List.cons_append, List.nil_append, i1dq, hn, if_false]; exact scanStr_other c tail h1 h2 hn
  | esc c => exact scanStr_bs c tail
  | brace c => exact scanStr_bs c tail
  | hole n =>
    obtain ⟨_, hn⟩ := wf
    simp only [Seg.src, List.cons_append, List.append_assoc, i1dq]
    rw [scanStr_other LBR _ (by decide) (by decide) (by decide), scanStr_ident n hn]
    simp only [List.cons_append, List.nil_append]
    rw [scanStr_other RBR _ (by decide) (by decide) (by decide), pre_pre, pre_pre]
    simp

theorem scanRaw_ident (n : Bytes) (hn : ∀ b ∈ n, identByte b = true) (tail : Bytes) :
    scanRaw (n ++ tail) = pre n (scanRaw tail) := by
  induction n with
  | nil => simp [pre_nil]
  | cons b rest ih =>
    have hb := ident_ne (hn b List.mem_cons_self)
    rw [List.cons_append, scanRaw_cons b _ hb.2.2.2.1, ih (fun x hx => hn x (List.mem_cons_of_mem _ hx)), pre_pre]
    simp [hb.1, hb.2.1, hb.2.2.1]

theorem L1raw (interp : Bool) (s : Seg) (wf : WFraw interp s) (tail : Bytes) :
    scanRaw (s.src ++ tail) = pre (i1raw s) (scanRaw tail) := by
  cases s with
  | lit c =>
    obtain ⟨h1, _⟩ := wf
    simp only [Seg.src, List.cons_append, List.nil_append, i1raw]
    exact scanRaw_cons c tail h1
  | esc c => exact wf.elim
  | brace c => exact wf.elim
  | hole n =>
    obtain ⟨_, hn⟩ := wf
    simp only [Seg.src, List.cons_append, List.append_assoc, i1raw]
    rw [scanRaw_cons LBR _ (by decide), scanRaw_ident n hn]
    simp only [List.cons_append, List.nil_append]
    rw [scanRaw_cons RBR _ (by decide), pre_pre, pre_pre]
    simp [show LBR ≠ BS by decide, show LBR ≠ DQ by decide, show LBR ≠ NL by decide,
      show RBR ≠ BS by decide, show RBR ≠ DQ by decide, show RBR ≠ NL by decide]

/-! ### stage 2: ParseSInterP -/

def i2dq : Seg → Bytes
  | .lit c => if c = NL then [BS, Ln] else if c = PC then [PC, PC] else [c]
  | .esc c => [BS, c]
  | .brace c => [c]
  | .hole _ => [PC, Ls]

def i2raw : Seg → Bytes
  | .lit c => if c = BS then [BS, BS] else if c = DQ then [BS, DQ] else if c = NL then [BS, Ln]
      else if c = PC then [PC, PC] else [c]
  | .hole _ => [PC, Ls]
  | s => s.src

def holesOf : Seg → List Bytes
  | .hole n => [n]
  | _ => []

theorem pi_bs (f : Nat) (c2 : UInt8) (t : Bytes) :
    parseInterp (f + 1) (BS :: c2 :: t) =
      pre2 (if c2 = LBR ∨ c2 = RBR then [c2] else [BS, c2]) [] (parseInterp f t) := by
  simp only [parseInterp, if_true]
  cases parseInterp f t with
  | error e => rfl
  | ok p => obtain ⟨x, vs⟩ := p; by_cases h : c2 = LBR ∨ c2 = RBR <;> simp [pre2, h]

theorem pi_pc (f : Nat) (t : Bytes) : parseInterp (f + 1) (PC :: t) = pre2 [PC, PC] [] (parseInterp f t) := by
  simp only [parseInterp, show PC ≠ BS by decide, if_false, if_true]
  cases parseInterp f t with
  | error e => rfl
  | ok p => obtain ⟨x, vs⟩ := p; simp [pre2]

theorem pi_other (f : Nat) (c : UInt8) (t : Bytes) (h1 : c ≠ BS) (h2 : c ≠ PC) (h3 : c ≠ LBR) :
    parseInterp (f + 1) (c :: t) = pre2 [c] [] (parseInterp f t) := by
  simp only [parseInterp, h1, h2, h3, if_false]
  cases parseInterp f t with
  | error e => rfl
  | ok p => obtain ⟨x, vs⟩ := p; simp [pre2]

theorem takeName_cons (c : UInt8) (r : Bytes) (h : c ≠ RBR) (hr : r ≠ []) :
    takeName (c :: r) = (match takeName r with
      | .ok (n, r') => .ok (c :: n, r')
      | .error e => .error e) := by
  cases r with
  | nil => exact absurd rfl hr
  | cons y ys => simp only [takeName, h, if_false]; rfl

theorem takeName_ident (n : Bytes) (hn : ∀ b ∈ n, identByte b = true) (t : Bytes) :
    takeName (n ++ RBR :: t) = .ok (n, t) := by
  induction n with
  | nil => cases t <;> simp [takeName]
  | cons b rest ih =>
    have hb := ident_ne (hn b List.mem_cons_self)
    have := ih (fun x hx => hn x (List.mem_cons_of_mem _ hx))
    rw [List.cons_append, takeName_cons b _ hb.2.2.2.2.1 (by simp), this]

theorem pi_hole (f : Nat) (n : Bytes) (hn : ∀ b ∈ n, identByte b = true) (t : Bytes) :
    parseInterp (f + 1) (LBR :: n ++ RBR :: t) = pre2 [PC, Ls] [n] (parseInterp f t) := by
  simp only [List.cons_append, parseInterp, show LBR ≠ BS by decide, show LBR ≠ PC by decide, if_false, if_true,
    takeName_ident n hn t]
  cases parseInterp f t with
  | error e => rfl
  | ok p => obtain ⟨x, vs⟩ := p; simp [pre2]

theorem L2dq (s : Seg) (wf : WFdq true s) (f : Nat) (tail : Bytes) :
    parseInterp (f + 1) (i1dq s ++ tail) = pre2 (i2dq s) (holesOf s) (parseInterp f tail) := by
  cases s with
  | lit c =>
    obtain ⟨h1, h2, h3⟩ := wf
    have h3 := h3 rfl
    by_cases hn : c = NL
    · subst hn
      simp only [i1dq, i2dq, holesOf, if_true, List.cons_append, List.nil_append]
      rw [pi_bs]; simp [show Ln ≠ LBR by decide, show Ln ≠ RBR by decide]
    · by_cases hp : c = PC
      · subst hp; simp only [i1dq, i2dq, holesOf, hn, if_false, if_true, List.cons_append, List.nil_append]; exact pi_pc f tail
      · simp only [i1dq, i2dq, holesOf, hn, hp, if_false, List.cons_append, List.nil_append]
        exact pi_other f c tail h2 hp h3
  | esc c =>
    have hc : ¬ (c = LBR ∨ c = RBR) := by
      rcases wf with h | h | h | h <;> subst h <;> decide
    simp only [i1dq, i2dq, holesOf, List.cons_append, List.nil_append]
    rw [pi_bs]; simp [hc]
  | brace c =>
    obtain ⟨_, hc⟩ := wf
    simp only [i1dq, i2dq, holesOf, List.cons_append, List.nil_append]
    rw [pi_bs]; simp [hc]
  | hole n =>
    obtain ⟨_, hn⟩ := wf
    simp only [i1dq, i2dq, holesOf, List.cons_append, List.append_assoc, List.nil_append]
    exact pi_hole f n hn tail

theorem L2raw (s : Seg) (wf : WFraw true s) (f : Nat) (tail : Bytes) :
    parseInterp (f + 1) (i1raw s ++ tail) = pre2 (i2raw s) (holesOf s) (parseInterp f tail) := by
  cases s with
  | lit c =>
    obtain ⟨h1, h3⟩ := wf
    have h3 := h3 rfl
    by_cases hb : c = BS
    · subst hb; simp only [i1raw, i2raw, holesOf, if_true, List.cons_append, List.nil_append]
      rw [pi_bs]; simp [show BS ≠ LBR by decide, show BS ≠ RBR by decide]
    · by_cases hd : c = DQ
      · subst hd; simp only [i1raw, i2raw, holesOf, hb, if_false, if_true, List.cons_append, List.nil_append]
        rw [pi_bs]; simp [show DQ ≠ LBR by decide, show DQ ≠ RBR by decide]
      · by_cases hn : c = NL
        · subst hn; simp only [i1raw, i2raw, holesOf, hb, hd, if_false, if_true, List.cons_append, List.nil_append]
          rw [pi_bs]; simp [show Ln ≠ LBR by decide, show Ln ≠ RBR by decide]
        · by_cases hp : c = PC
          · subst hp; simp only [i1raw, i2raw, holesOf, hb, hd, hn, if_false, if_true, List.cons_append, List.nil_append]
            exact pi_pc f tail
          · simp only [i1raw, i2raw, holesOf, hb, hd, hn, hp, if_false, List.cons_append, List.nil_append]
            exact pi_other f c tail hb hp h3
  | esc c => exact wf.elim
  | brace c => exact wf.elim
  | hole n =>
    obtain ⟨_, hn⟩ := wf
    simp only [i1raw, i2raw, holesOf, List.cons_append, List.append_assoc, List.nil_append]
    exact pi_hole f n hn tail

/-! ### stage 3: Go's interpretation of the emitted string literal -/

def i3 : Seg → Bytes
  | .lit c => if c = PC then [PC, PC] else [c]
  | .esc c => [escValue c]
  | .brace c => [c]
  | .hole _ => [PC, Ls]

theorem gu_esc (c2 : UInt8) (t : Bytes) (h : c2 = Ln ∨ c2 = Lt ∨ c2 = BS ∨ c2 = DQ) :
    goUnquote (BS :: c2 :: t) = (goUnquote t).map (escValue c2 :: ·) := by
  rcases h with h | h | h | h <;> subst h
  · cases hg : goUnquote t <;> simp [goUnquote, escValue, hg]
  · cases hg : goUnquote t <;> simp [goUnquote, escValue, hg, show Lt ≠ Ln by decide]
  · cases hg : goUnquote t <;>
      simp [goUnquote, escValue, hg, show BS ≠ Ln by decide, show BS ≠ Lt by decide]
  · cases hg : goUnquote t <;>
      simp [goUnquote, escValue, hg, show DQ ≠ Ln by decide, show DQ ≠ Lt by decide, show DQ ≠ BS by decide]

theorem gu_other (c : UInt8) (t : Bytes) (h1 : c ≠ BS) (h2 : c ≠ DQ) (h3 : c ≠ NL) :
    goUnquote (c :: t) = (goUnquote t).map (c :: ·) := by
  cases t <;> simp [goUnquote, h1, h2, h3]

theorem map_map_cons (o : Option Bytes) (a b : UInt8) :
    (o.map (b :: ·)).map (a :: ·) = o.map ([a, b] ++ ·) := by cases o <;> rfl

theorem gu_two (a b : UInt8) (t : Bytes) (ha : a ≠ BS ∧ a ≠ DQ ∧ a ≠ NL) (hb : b ≠ BS ∧ b ≠ DQ ∧ b ≠ NL) :
    goUnquote (a :: b :: t) = (goUnquote t).map ([a, b] ++ ·) := by
  rw [gu_other a _ ha.1 ha.2.1 ha.2.2, gu_other b _ hb.1 hb.2.1 hb.2.2, map_map_cons]

theorem gu_one (a : UInt8) (t : Bytes) (ha : a ≠ BS ∧ a ≠ DQ ∧ a ≠ NL) :
    goUnquote (a :: t) = (goUnquote t).map ([a] ++ ·) := gu_other a t ha.1 ha.2.1 ha.2.2

theorem gu_esc' (c2 : UInt8) (t : Bytes) (h : c2 = Ln ∨ c2 = Lt ∨ c2 = BS ∨ c2 = DQ) :
    goUnquote (BS :: c2 :: t) = (goUnquote t).map ([escValue c2] ++ ·) := gu_esc c2 t h

/-- interpolated "...": format pieces after Go unquoting -/
theorem L3dq (s : Seg) (wf : WFdq true s) (tail : Bytes) :
    goUnquote (i2dq s ++ tail) = (goUnquote tail).map (i3 s ++ ·) := by
  cases s with
  | lit c =>
    obtain ⟨h1, h2, _⟩ := wf
    by_cases hn : c = NL
    · subst hn
      simp only [i2dq, i3, if_true, show NL ≠ PC by decide, if_false, List.cons_append, List.nil_append]
      exact gu_esc' Ln tail (Or.inl rfl)
    · by_cases hp : c = PC
      · subst hp
        simp only [i2dq, i3, hn, if_false, if_true, List.cons_append, List.nil_append]
        exact gu_two PC PC tail (by decide) (by decide)
      · simp only [i2dq, i3, hn, hp, if_false, List.cons_append, List.nil_append]
        exact gu_one c tail ⟨h2, h1, hn⟩
  | esc c => simp only [i2dq, i3, List.cons_append, List.nil_append]; exact gu_esc' c tail wf
  | brace c =>
    obtain ⟨_, hc⟩ := wf
    simp only [i2dq, i3, List.cons_append, List.nil_append]
    rcases hc with hc | hc <;> subst hc <;> exact gu_one _ tail (by decide)
  | hole n =>
    simp only [i2dq, i3, List.cons_append, List.nil_append]
    exact gu_two PC Ls tail (by decide) (by decide)

theorem L3raw (s : Seg) (wf : WFraw true s) (tail : Bytes) :
    goUnquote (i2raw s ++ tail) = (goUnquote tail).map (i3 s ++ ·) := by
  cases s with
  | lit c =>
    by_cases hb : c = BS
    · subst hb
      simp only [i2raw, i3, if_true, show BS ≠ PC by decide, if_false, List.cons_append, List.nil_append]
      exact gu_esc' BS tail (Or.inr (Or.inr (Or.inl rfl)))
    · by_cases hd : c = DQ
      · subst hd
        simp only [i2raw, i3, hb, if_true, show DQ ≠ PC by decide, if_false, List.cons_append, List.nil_append]
        exact gu_esc' DQ tail (Or.inr (Or.inr (Or.inr rfl)))
      · by_cases hn : c = NL
        · subst hn
          simp only [i2raw, i3, hb, hd, if_true, show NL ≠ PC by decide, if_false, List.cons_append, List.nil_append]
          exact gu_esc' Ln tail (Or.inl rfl)
        · by_cases hp : c = PC
          · subst hp
            simp only [i2raw, i3, hb, hd, hn, if_false, if_true, List.cons_append, List.nil_append]
            exact gu_two PC PC tail (by decide) (by decide)
          · simp only [i2raw, i3, hb, hd, hn, hp, if_false, List.cons_append, List.nil_append]
            exact gu_one c tail ⟨hb, hd, hn⟩
  | esc c => exact wf.elim
  | brace c => exact wf.elim
  | hole n =>
    simp only [i2raw, i3, List.cons_append, List.nil_append]
    exact gu_two PC Ls tail (by decide) (by decide)

/-- plain "...": the token text itself is what Go unquotes -/
theorem L3plain_dq (env : Bytes → Bytes) (s : Seg) (wf : WFdq false s) (tail : Bytes) :
    goUnquote (i1dq s ++ tail) = (goUnquote tail).map (s.denote env ++ ·) := by
  cases s with
  | lit c =>
    obtain ⟨h1, h2, _⟩ := wf
    by_cases hn : c = NL
    · subst hn
      simp only [i1dq, Seg.denote, if_true, List.cons_append, List.nil_append]
      exact gu_esc' Ln tail (Or.inl rfl)
    · simp only [i1dq, Seg.denote, hn, if_false, List.cons_append, List.nil_append]
      exact gu_one c tail ⟨h2, h1, hn⟩
  | esc c => simp only [i1dq, Seg.denote, List.cons_append, List.nil_append]; exact gu_esc' c tail wf
  | brace c => exact absurd wf.1 (by decide)
  | hole n => exact absurd wf.1 (by decide)

/-- plain `...` -/
theorem L3plain_raw (env : Bytes → Bytes) (s : Seg) (wf : WFraw false s) (tail : Bytes) :
    goUnquote (i1raw s ++ tail) = (goUnquote tail).map (s.denote env ++ ·) := by
  cases s with
  | lit c =>
    by_cases hb : c = BS
    · subst hb
      simp only [i1raw, Seg.denote, if_true, List.cons_append, List.nil_append]
      exact gu_esc' BS tail (Or.inr (Or.inr (Or.inl rfl)))
    · by_cases hd : c = DQ
      · subst hd
        simp only [i1raw, Seg.denote, hb, if_true, if_false, List.cons_append, List.nil_append]
        exact gu_esc' DQ tail (Or.inr (Or.inr (Or.inr rfl)))
      · by_cases hn : c = NL
        · subst hn
          simp only [i1raw, Seg.denote, hb, hd, if_true, if_false, List.cons_append, List.nil_append]
          exact gu_esc' Ln tail (Or.inl rfl)
        · simp only [i1raw, Seg.denote, hb, hd, hn, if_false, List.cons_append, List.nil_append]
          exact gu_one c tail ⟨hb, hd, hn⟩
  | esc c => exact wf.elim
  | brace c => exact wf.elim
  | hole n => exact absurd wf.1 (by decide)

/-! ### stage 4: fmt.Sprintf -/

theorem sp_other (c : UInt8) (t : Bytes) (args : List Bytes) (h : c ≠ PC) :
    sprintf (c :: t) args = (sprintf t args).map ([c] ++ ·) := by
  cases t <;> simp [sprintf, h]

theorem sp_pcpc (t : Bytes) (args : List Bytes) :
    sprintf (PC :: PC :: t) args = (sprintf t args).map ([PC] ++ ·) := by
  simp [sprintf]

theorem sp_hole (t : Bytes) (a : Bytes) (args : List Bytes) :
    sprintf (PC :: Ls :: t) (a :: args) = (sprintf t args).map (a ++ ·) := by
  simp [sprintf, show Ls ≠ PC by decide]

theorem L4 (env : Bytes → Bytes) (s : Seg) (wf : WFdq true s ∨ WFraw true s) (tail : Bytes) (args : List Bytes) :
    sprintf (i3 s ++ tail) ((holesOf s).map env ++ args) = (sprintf tail args).map (s.denote env ++ ·) := by
  cases s with
  | lit c =>
    by_cases hp : c = PC
    · subst hp; simp only [i3, Seg.denote, holesOf, if_true, List.cons_append, List.nil_append, List.map_nil]
      exact sp_pcpc tail args
    · simp only [i3, Seg.denote, holesOf, hp, if_false, List.cons_append, List.nil_append, List.map_nil]
      exact sp_other c tail args hp
  | esc c =>
    have hc : c = Ln ∨ c = Lt ∨ c = BS ∨ c = DQ := by
      rcases wf with wf | wf
      · exact wf
      · exact wf.elim
    have : escValue c ≠ PC := by
      rcases hc with h | h | h | h <;> subst h <;> decide
    simp only [i3, Seg.denote, holesOf, List.cons_append, List.nil_append, List.map_nil]
    exact sp_other _ tail args this
  | brace c =>
    have hc : c = LBR ∨ c = RBR := by
      rcases wf with wf | wf
      · exact wf.2
      · exact wf.elim
    have : c ≠ PC := by rcases hc with h | h <;> subst h <;> decide
    simp only [i3, Seg.denote, holesOf, List.cons_append, List.nil_append, List.map_nil]
    exact sp_other _ tail args this
  | hole n =>
    simp only [i3, Seg.denote, holesOf, List.cons_append, List.nil_append, List.map_cons, List.map_nil]
    exact sp_hole tail (env n) args

end Folang.Literal
