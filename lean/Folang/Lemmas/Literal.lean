import Folang.Model.Literal
/-
Per-piece lemmas: every stage of the pipeline (fc scanner, ParseSInterP, Go unquote, Sprintf) maps
the image of one well-formed piece followed by ANY tail to its next image followed by the stage
applied to the tail.
-/
namespace Folang.Literal

def identByte (b : UInt8) : Bool :=
  (97 ≤ b && b ≤ 122) || (65 ≤ b && b ≤ 90) || (48 ≤ b && b ≤ 57) || b == 95

/-- prepend to the value of a scanner result -/
def pre (x : Bytes) (r : Except Err (Bytes × Bytes)) : Except Err (Bytes × Bytes) :=
  match r with
  | .ok (v, t) => .ok (x ++ v, t)
  | .error e => .error e

def pre2 (x : Bytes) (ns : List Bytes) (r : Except Err (Bytes × List Bytes)) : Except Err (Bytes × List Bytes) :=
  match r with
  | .ok (f, vs) => .ok (x ++ f, ns ++ vs)
  | .error e => .error e

/-- pieces of a "..." / $"..." body -/
def WFdq (interp : Bool) : Seg → Prop
  | .lit c => c ≠ DQ ∧ c ≠ BS ∧ (interp = true → c ≠ LBR)
  | .esc c => c = Ln ∨ c = Lt ∨ c = BS ∨ c = DQ
  | .brace c => interp = true ∧ (c = LBR ∨ c = RBR)
  | .hole n => interp = true ∧ ∀ b ∈ n, identByte b = true

/-- pieces of a `...` / $`...` body -/
def WFraw (interp : Bool) : Seg → Prop
  | .lit c => c ≠ BT ∧ (interp = true → c ≠ LBR)
  | .hole n => interp = true ∧ ∀ b ∈ n, identByte b = true
  | _ => False

/-- image after the fc scanner of a "..." body -/
def i1dq : Seg → Bytes
  | .lit c => if c = NL then [BS, Ln] else [c]
  | .esc c => [BS, c]
  | .brace c => [BS, c]
  | .hole n => LBR :: n ++ [RBR]

/-- image after the fc scanner of a raw body -/
def i1raw : Seg → Bytes
  | .lit c => if c = BS then [BS, BS] else if c = DQ then [BS, DQ] else if c = NL then [BS, Ln] else [c]
  | .hole n => LBR :: n ++ [RBR]
  | s => s.src

theorem ident_ne {b : UInt8} (h : identByte b = true) :
    b ≠ DQ ∧ b ≠ BS ∧ b ≠ NL ∧ b ≠ BT ∧ b ≠ RBR ∧ b ≠ LBR ∧ b ≠ PC := by
  simp only [identByte, Bool.or_eq_true, Bool.and_eq_true, decide_eq_true_eq, beq_iff_eq] at h
  refine ⟨?_, ?_, ?_, ?_, ?_, ?_, ?_⟩ <;> intro he <;> subst he <;> revert h <;> decide

/-! ### one-step unfoldings (the definitions use nested patterns, so their equation lemmas are split) -/

theorem scanStr_other (c : UInt8) (t : Bytes) (h1 : c ≠ DQ) (h2 : c ≠ BS) (h3 : c ≠ NL) :
    scanStr (c :: t) = pre [c] (scanStr t) := by
  cases t <;> simp [scanStr, pre, h1, h2, h3] <;> split <;> simp_all
theorem scanStr_nl (t : Bytes) : scanStr (NL :: t) = pre [BS, Ln] (scanStr t) := by
  cases t <;> simp [scanStr, pre, show NL ≠ DQ by decide, show NL ≠ BS by decide] <;> split <;> simp_all
theorem scanStr_bs (c2 : UInt8) (t : Bytes) : scanStr (BS :: c2 :: t) = pre [BS, c2] (scanStr t) := by
  simp [scanStr, pre, show BS ≠ DQ by decide]; split <;> simp_all
theorem scanStr_dq (t : Bytes) : scanStr (DQ :: t) = .ok ([], t) := by
  cases t <;> simp [scanStr]

theorem scanRaw_cons (c : UInt8) (t : Bytes) (h : c ≠ BT) :
    scanRaw (c :: t) = pre (if c = BS then [BS, BS] else if c = DQ then [BS, DQ] else if c = NL then [BS, Ln] else [c])
      (scanRaw t) := by
  simp only [scanRaw, h, if_false]
  cases scanRaw t with
  | error e => rfl
  | ok p =>
    obtain ⟨v, r⟩ := p
    by_cases hb : c = BS
    · simp [pre, hb]
    · by_cases hd : c = DQ
      · subst hd; simp [pre, show DQ ≠ BS by decide]
      · by_cases hn : c = NL
        · subst hn; simp [pre, show NL ≠ BS by decide, show NL ≠ DQ by decide]
        · simp [pre, hb, hd, hn]
theorem scanRaw_bt (t : Bytes) : scanRaw (BT :: t) = .ok ([], t) := by simp [scanRaw]

theorem pre_pre (x y : Bytes) (r : Except Err (Bytes × Bytes)) : pre x (pre y r) = pre (x ++ y) r := by
  cases r with
  | error e => rfl
  | ok p => obtain ⟨v, t⟩ := p; simp [pre]

theorem pre_nil (r : Except Err (Bytes × Bytes)) : pre [] r = r := by
  cases r with
  | error e => rfl
  | ok p => obtain ⟨v, t⟩ := p; simp [pre]

theorem scanStr_ident (n : Bytes) (hn : ∀ b ∈ n, identByte b = true) (tail : Bytes) :
    scanStr (n ++ tail) = pre n (scanStr tail) := by
  induction n with
  | nil => simp [pre_nil]
  | cons b rest ih =>
    have hb := ident_ne (hn b List.mem_cons_self)
    rw [List.cons_append, scanStr_other b _ hb.1 hb.2.1 hb.2.2.1, ih (fun x hx => hn x (List.mem_cons_of_mem _ hx)), pre_pre]
    rfl

theorem L1dq (interp : Bool) (s : Seg) (wf : WFdq interp s) (tail : Bytes) :
    scanStr (s.src ++ tail) = pre (i1dq s) (scanStr tail) := by
  cases s with
  | lit c =>
    obtain ⟨h1, h2, _⟩ := wf
    by_cases hn : c = NL
    · subst hn; simp only [Seg.src, List.cons_append, List.nil_append, i1dq, if_true]; exact scanStr_nl tail
    · simp only [Seg.src, List.cons_append, List.nil_append, i1dq, hn, if_false]; exact scanStr_other c tail h1 h2 hn
  | esc c => exact scanStr_bs c tail
  | brace c => exact scanStr_bs c tail
  | hole n =>
    obtain ⟨_, hn⟩ := wf
    simp only [Seg.src, List.cons_append, List.append_assoc, i1dq]
    rw [scanStr_other LBR _ (by decide) (by decide) (by decide), scanStr_ident n hn]
    simp only [List.cons_append, List.nil_append]
    rw [scanStr_other RBR _ (by decide) (by decide) (by decide), pre_pre, pre_pre]
    simp

theorem scanRaw_ident (n : Bytes) (hn : ∀ b ∈ n, identByte b = true) (tail : Bytes) :
    scanRaw (n ++ tail) = pre n (scanRaw tail) := by
  induction n with
  | nil => simp [pre_nil]
  | cons b rest ih =>
    have hb := ident_ne (hn b List.mem_cons_self)
    rw [List.cons_append, scanRaw_cons b _ hb.2.2.2.1, ih (fun x hx => hn x (List.mem_cons_of_mem _ hx)), pre_pre]
    simp [hb.1, hb.2.1, hb.2.2.1]

theorem L1raw (interp : Bool) (s : Seg) (wf : WFraw interp s) (tail : Bytes) :
    scanRaw (s.src ++ tail) = pre (i1raw s) (scanRaw tail) := by
  cases s with
  | lit c =>
    obtain ⟨h1, _⟩ := wf
    simp only [Seg.src, List.cons_append, List.nil_append, i1raw]
    exact scanRaw_cons c tail h1
  | esc c => exact wf.elim
  | brace c => exact wf.elim
  | hole n =>
    obtain ⟨_, hn⟩ := wf
    simp only [Seg.src, List.cons_append, List.append_assoc, i1raw]
    rw [scanRaw_cons LBR _ (by decide), scanRaw_ident n hn]
    simp only [List.cons_append, List.nil_append]
    rw [scanRaw_cons RBR _ (by decide), pre_pre, pre_pre]
    simp [show LBR ≠ BS by decide, show LBR ≠ DQ by decide, show LBR ≠ NL by decide,
      show RBR ≠ BS by decide, show RBR ≠ DQ by decide, show RBR ≠ NL by decide]

end Folang.Literal
