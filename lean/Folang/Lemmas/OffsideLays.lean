import Folang.Model.Offside
/-
C06: every layout of a block structure is read back as that block structure (helper lemmas and the
mutual induction; the property theorems are in Props/C06Block.lean)
-/
namespace Folang.Offside

theorem skipEOL_allEol {es : List Tok} (h : AllEol es) (r : List Tok) : skipEOL (es ++ r) = skipEOL r := by
  induction es with
  | nil => rfl
  | cons t es ih =>
    have ht : t.k = .eol := h t (List.mem_cons_self ..)
    obtain ⟨k, col⟩ := t
    simp only at ht
    subst ht
    simp only [List.cons_append, skipEOL]
    exact ih (fun x hx => h x (List.mem_cons_of_mem _ hx))

theorem skipEOL_noneol {t : Tok} (h : t.k ≠ .eol) (r : List Tok) : skipEOL (t :: r) = t :: r := by
  obtain ⟨k, col⟩ := t
  cases k <;> simp_all [skipEOL]

/-- a token that stops the word run -/
def StopsWords (r : List Tok) : Prop := ∀ t r', r = t :: r' → ∀ n, t.k ≠ .word n

theorem takeWords_words : ∀ (ws : List Nat) (ws' : List Tok), Words ws ws' → ∀ r, StopsWords r →
    takeWords (ws' ++ r) = (ws, r)
  | [], [], _, r, hr => by
    cases r with
    | nil => rfl
    | cons t r' =>
      obtain ⟨k, col⟩ := t
      cases k with
      | word n => exact absurd rfl (hr _ _ rfl n)
      | _ => rfl
  | w :: ws, t :: ts, h, r, hr => by
    obtain ⟨k, col⟩ := t
    have hk : k = .word w := h.1
    subst hk
    have ih := takeWords_words ws ts h.2 r hr
    simp only [List.cons_append, takeWords, ih]
  | [], _ :: _, h, _, _ => h.elim
  | _ :: _, [], h, _, _ => h.elim

theorem stops_eol {t : Tok} {r : List Tok} (h : t.k = .eol) : StopsWords (t :: r) := by
  intro t' r' e n
  cases e
  rw [h]; intro hc; cases hc

theorem stops_opener {c : Nat} {r : List Tok} : StopsWords (⟨.opener, c⟩ :: r) := by
  intro t' r' e n
  cases e
  intro hc; cases hc

/-- what may follow a statement of a block at column `c`: end of input, or a token that is not an
end of line at column `c` (the next statement) or left of it (the block ends) -/
def Follow (c : Nat) (rest : List Tok) : Prop :=
  ∃ t r, rest = t :: r ∧ t.k ≠ .eol ∧ (t.k = .eof ∨ t.col ≤ c)

theorem Ends.follow {c : Nat} {rest : List Tok} (h : Ends c rest) : Follow c rest := by
  obtain ⟨t, r, e, hk, hc⟩ := h
  exact ⟨t, r, e, hk, hc.imp id Nat.le_of_lt⟩

theorem Follow.ends {c c' : Nat} {rest : List Tok} (h : Follow c rest) (hc : c < c') : Ends c' rest := by
  obtain ⟨t, r, e, hk, h2⟩ := h
  exact ⟨t, r, e, hk, h2.imp id (fun h => Nat.lt_of_le_of_lt h hc)⟩

theorem Follow.skip {c : Nat} {rest : List Tok} (h : Follow c rest) : skipEOL rest = rest := by
  obtain ⟨t, r, e, hk, _⟩ := h
  subst e
  exact skipEOL_noneol hk r

theorem Ends.isEnd {c : Nat} {rest : List Tok} (h : Ends c rest) : isEndOfBlock c rest = true := by
  obtain ⟨t, r, e, _, h2⟩ := h
  subst e
  obtain ⟨k, col⟩ := t
  rcases h2 with h2 | h2
  · simp only at h2; subst h2; simp [isEndOfBlock, isEOF]
  · simp only at h2; simp [isEndOfBlock, curCol, h2]

/-- the first token of a word run / head / statement / block -/
def StartsAt (c : Nat) (toks : List Tok) : Prop :=
  ∃ t r, toks = t :: r ∧ t.col = c ∧ ((∃ n, t.k = .word n) ∨ t.k = .opener)

theorem StartsAt.append {c : Nat} {a : List Tok} (h : StartsAt c a) (b : List Tok) : StartsAt c (a ++ b) := by
  obtain ⟨t, r, e, h1, h2⟩ := h
  exact ⟨t, r ++ b, by rw [e]; rfl, h1, h2⟩

theorem words_starts {c : Nat} : ∀ {ws : List Nat} {ws' : List Tok}, ws ≠ [] → Words ws ws' → curCol ws' = c →
    StartsAt c ws'
  | [], _, h, _, _ => absurd rfl h
  | w :: ws, t :: ts, _, hw, hc => ⟨t, ts, rfl, hc, Or.inl ⟨w, hw.1⟩⟩
  | _ :: _, [], _, hw, _ => hw.elim

theorem head_starts {c : Nat} {ws : List Nat} {hd : List Tok} (h : Head c ws hd) : StartsAt c hd := by
  obtain ⟨ws', oc, hw, e, hc⟩ := h
  cases ws with
  | nil =>
    cases ws' with
    | nil => subst e; exact ⟨_, [], rfl, hc, Or.inr rfl⟩
    | cons _ _ => exact hw.elim
  | cons w ws =>
    cases ws' with
    | nil => exact hw.elim
    | cons t ts =>
      subst e
      exact ⟨t, ts ++ [⟨.opener, oc⟩], rfl, hc, Or.inl ⟨w, hw.1⟩⟩

theorem lstmt_starts {c : Nat} : ∀ (t : T) {toks : List Tok}, LStmt c t toks → StartsAt c toks
  | .line ws, toks, h => by
    simp only [LStmt] at h
    obtain ⟨ws', es, hne, hw, hc, _, _, e⟩ := h
    subst e
    exact (words_starts hne hw hc).append es
  | .opn _ body, toks, h => by
    simp only [LStmt] at h
    obtain ⟨hd, es, c', bt, hh, _, _, _, e⟩ := h
    subst e
    rw [List.append_assoc]
    exact (head_starts hh).append _

theorem lblock_starts {c : Nat} : ∀ (ts : List T) {toks : List Tok}, LBlock c ts toks → StartsAt c toks
  | [], _, h => by simp [LBlock] at h
  | [t], _, h => by simp only [LBlock] at h; exact lstmt_starts t h
  | t :: t2 :: ts, _, h => by
    simp only [LBlock] at h
    obtain ⟨a, b, ha, _, e⟩ := h
    subst e
    exact (lstmt_starts t ha).append b

theorem StartsAt.follow {c : Nat} {toks : List Tok} (h : StartsAt c toks) : Follow c toks := by
  obtain ⟨t, r, e, h1, h2⟩ := h
  refine ⟨t, r, e, ?_, Or.inr (Nat.le_of_eq h1)⟩
  rcases h2 with ⟨n, h2⟩ | h2 <;> rw [h2] <;> intro hc <;> cases hc

theorem StartsAt.notEnd {c : Nat} {toks : List Tok} (h : StartsAt c toks) : isEndOfBlock c toks = false := by
  obtain ⟨t, r, e, h1, h2⟩ := h
  subst e
  obtain ⟨k, col⟩ := t
  simp only at h1 h2
  subst h1
  rcases h2 with ⟨n, h2⟩ | h2 <;> subst h2 <;> simp [isEndOfBlock, curCol, isEOF]

theorem StartsAt.curCol {c : Nat} {toks : List Tok} (h : StartsAt c toks) : curCol toks = c := by
  obtain ⟨t, r, e, h1, _⟩ := h
  subst e; exact h1

theorem StartsAt.skip {c : Nat} {toks : List Tok} (h : StartsAt c toks) : skipEOL toks = toks := h.follow.skip

mutual
theorem pStmt_lays : ∀ (t : T) (c : Nat) (toks rest : List Tok), LStmt c t toks → Follow c rest →
    ∃ N, ∀ f, N ≤ f → ∃ r, pStmt f c (toks ++ rest) = .ok t r ∧ skipEOL r = rest
  | .line ws, c, toks, rest, h, hf => by
    simp only [LStmt] at h
    obtain ⟨ws', es, hne, hw, _, hes, hesne, e⟩ := h
    subst e
    refine ⟨1, fun f hf1 => ?_⟩
    obtain ⟨f, rfl⟩ : ∃ g, f = g + 1 := ⟨f - 1, by omega⟩
    cases es with
    | nil => exact absurd rfl hesne
    | cons e0 es =>
      have he0 : e0.k = .eol := hes e0 (List.mem_cons_self ..)
      have htw : takeWords (ws' ++ (e0 :: es ++ rest)) = (ws, e0 :: es ++ rest) :=
        takeWords_words ws ws' hw _ (stops_eol he0)
      refine ⟨e0 :: es ++ rest, ?_, ?_⟩
      · obtain ⟨k0, c0⟩ := e0
        simp only at he0
        subst he0
        have hemp : ws.isEmpty = false := by cases ws with
          | nil => exact absurd rfl hne
          | cons _ _ => rfl
        simp only [pStmt, List.append_assoc, htw, hemp]
        rfl
      · rw [skipEOL_allEol hes, hf.skip]
  | .opn ws body, c, toks, rest, h, hf => by
    simp only [LStmt] at h
    obtain ⟨hd, es, c', bt, hh, hes, hcc, hb, e⟩ := h
    subst e
    obtain ⟨ws', oc, hw, ehd, _⟩ := hh
    subst ehd
    obtain ⟨N, hN⟩ := pList_lays body c' bt rest hb (hf.ends hcc)
    refine ⟨N + 2, fun f hf2 => ?_⟩
    obtain ⟨f, rfl⟩ : ∃ g, f = g + 2 := ⟨f - 2, by omega⟩
    have hst := lblock_starts body hb
    have htw : takeWords (ws' ++ (⟨.opener, oc⟩ :: (es ++ (bt ++ rest)))) = (ws, ⟨.opener, oc⟩ :: (es ++ (bt ++ rest))) :=
      takeWords_words ws ws' hw _ stops_opener
    have hsk : skipEOL (es ++ (bt ++ rest)) = bt ++ rest := by
      rw [skipEOL_allEol hes, (hst.append rest).skip]
    have hcol : curCol (bt ++ rest) = c' := (hst.append rest).curCol
    have hnot : ¬ (c ≥ c') := by omega
    refine ⟨rest, ?_, hf.skip⟩
    have e1 : ws' ++ [⟨.opener, oc⟩] ++ es ++ bt ++ rest = ws' ++ (⟨.opener, oc⟩ :: (es ++ (bt ++ rest))) := by
      simp [List.append_assoc]
    rw [e1]
    simp only [pStmt, htw, hsk, pBlock, hcol, hnot, if_false, hN f (by omega)]
theorem pList_lays : ∀ (ts : List T) (c : Nat) (toks rest : List Tok), LBlock c ts toks → Ends c rest →
    ∃ N, ∀ f, N ≤ f → pList f c (toks ++ rest) = .ok ts rest
  | [], _, _, _, h, _ => by simp [LBlock] at h
  | [t], c, toks, rest, h, he => by
    simp only [LBlock] at h
    obtain ⟨N, hN⟩ := pStmt_lays t c toks rest h he.follow
    refine ⟨N + 1, fun f hf1 => ?_⟩
    obtain ⟨f, rfl⟩ : ∃ g, f = g + 1 := ⟨f - 1, by omega⟩
    obtain ⟨r, hr, hs⟩ := hN f (by omega)
    simp only [pList, hr, hs, he.isEnd, if_true]
  | t :: t2 :: ts, c, toks, rest, h, he => by
    simp only [LBlock] at h
    obtain ⟨a, b, ha, hb, e⟩ := h
    subst e
    have hst := (lblock_starts (t2 :: ts) hb).append rest
    obtain ⟨N1, hN1⟩ := pStmt_lays t c a (b ++ rest) ha hst.follow
    obtain ⟨N2, hN2⟩ := pList_lays (t2 :: ts) c b rest hb he
    refine ⟨N1 + N2 + 1, fun f hf1 => ?_⟩
    obtain ⟨f, rfl⟩ : ∃ g, f = g + 1 := ⟨f - 1, by omega⟩
    obtain ⟨r, hr, hs⟩ := hN1 f (by omega)
    rw [List.append_assoc]
    simp only [pList, hr, hs, hst.notEnd, hN2 f (by omega)]
    rfl
end

end Folang.Offside
