import Folang.Lemmas.SimRules
import Std.Data.String.ToNat
/-
Auxiliary facts for the simulation proof: evalList, environments of closures for partial applications,
arm selection under lowering, function lookup under lowering.
-/
namespace Folang.Sem
variable {md : Bool}

theorem evalList_length {ε α β : Type} {f : ε → α → Res β} {env : ε} {es : List α} {t : Trace} {vs : List β}
    (h : evalList f env es = some (t, vs)) : vs.length = es.length := by
  induction es generalizing t vs with
  | nil => simp [evalList, Res.pure] at h; simp [h.2]
  | cons e es ih =>
    simp only [evalList] at h
    obtain ⟨t1, v, t2, _, h2, _⟩ := Res.bind_eq_some.mp h
    obtain ⟨t3, vs', t4, h3, h4, _⟩ := Res.bind_eq_some.mp h2
    obtain ⟨_, rfl⟩ := Res.pure_eq_some.mp h4
    simp [ih h3]

theorem evalList_append {ε α β : Type} {f : ε → α → Res β} {env : ε} {as bs : List α} {t1 t2 : Trace} {v1 v2 : List β}
    (h1 : evalList f env as = some (t1, v1)) (h2 : evalList f env bs = some (t2, v2)) :
    evalList f env (as ++ bs) = some (t1 ++ t2, v1 ++ v2) := by
  induction as generalizing t1 v1 with
  | nil =>
    simp [evalList, Res.pure] at h1
    obtain ⟨rfl, rfl⟩ := h1
    simpa using h2
  | cons a as ih =>
    simp only [evalList] at h1
    obtain ⟨ta, v, tb, ha, hb, rfl⟩ := Res.bind_eq_some.mp h1
    obtain ⟨tc, vs', td, hc, hd, rfl⟩ := Res.bind_eq_some.mp hb
    obtain ⟨rfl, rfl⟩ := Res.pure_eq_some.mp hd
    simp only [List.cons_append, evalList]
    refine Res.bind_eq_some.mpr ⟨ta, v, tc ++ t2, ha, ?_, by simp⟩
    exact Res.bind_eq_some.mpr ⟨tc ++ t2, vs' ++ v2, [], ih hc, rfl, by simp⟩

/-! ### lookups in the environment of a call -/

theorem lookup_append_left_none {α : Type} {l1 l2 : List (String × α)} {x : String}
    (h : ∀ p ∈ l1, p.1 ≠ x) : lookup (l1 ++ l2) x = lookup l2 x := by
  induction l1 with
  | nil => rfl
  | cons p l1 ih =>
    have hp : (p.1 == x) = false := by simpa using h p List.mem_cons_self
    simp only [lookup, List.cons_append, List.find?_cons, hp] at ih ⊢
    exact ih (fun q hq => h q (List.mem_cons_of_mem _ hq))

theorem zip_keys {α : Type} {rs : List String} {vs : List α} {p : String × α} (h : p ∈ rs.zip vs) : p.1 ∈ rs :=
  (List.of_mem_zip h).1

theorem lookup_call_env_other {α : Type} {rs : List String} {vs : List α} {genv : List (String × α)} {x : String}
    (hx : rs.contains x = false) : lookup ((rs.zip vs).reverse ++ genv) x = lookup genv x := by
  apply lookup_append_left_none
  intro p hp heq
  have : p.1 ∈ rs := zip_keys (List.mem_reverse.mp hp)
  rw [heq] at this
  simp [this] at hx

theorem restNames_length (n : Nat) : (restNames n).length = n := by simp [restNames]

theorem restName_inj {i j : Nat} (h : "_r" ++ toString i = "_r" ++ toString j) : i = j := by
  have h2 : toString i = toString j := by
    have := congrArg String.toList h
    simp only [String.toList_append] at this
    exact String.ext (List.append_cancel_left this)
  exact Nat.repr_inj.mp h2

theorem restNames_nodup (n : Nat) : (restNames n).Nodup := by
  unfold restNames
  refine List.Pairwise.map _ ?_ List.nodup_range
  intro i j hij h
  exact hij (restName_inj h)

/-- the closure parameters evaluate to the arguments of the call -/
theorem evalList_rest_vars (GP : GProg) (m : Nat) :
    ∀ (rs : List String) (gargs : List GVal) (genv : GEnv), rs.Nodup → rs.length = gargs.length →
      evalList (gevalN GP (m + 1)).expr ((rs.zip gargs).reverse ++ genv) (rs.map GExpr.var) = some ([], gargs) := by
  intro rs
  induction rs with
  | nil => intro gargs genv _ hl; cases gargs with
    | nil => rfl
    | cons _ _ => simp at hl
  | cons r rs ih =>
    intro gargs genv hnd hl
    cases gargs with
    | nil => simp at hl
    | cons a as =>
      have hr : r ∉ rs := (List.nodup_cons.mp hnd).1
      simp only [List.zip_cons_cons, List.reverse_cons, List.append_assoc, List.singleton_append, List.map_cons, evalList]
      have h1 : (gevalN GP (m + 1)).expr ((rs.zip as).reverse ++ (r, a) :: genv) (.var r) = some ([], a) := by
        apply g_var
        rw [lookup_append_left_none]
        · simp [lookup]
        · intro p hp heq
          have : p.1 ∈ rs := zip_keys (List.mem_reverse.mp hp)
          exact hr (heq ▸ this)
      have h2 := ih as ((r, a) :: genv) (List.nodup_cons.mp hnd).2 (by simpa using hl)
      exact Res.bind_eq_some.mpr ⟨[], a, [], h1, Res.bind_eq_some.mpr ⟨[], as, [], h2, rfl, rfl⟩, rfl⟩

theorem primFO_silent {p : Prim} (hs : isSilentPrim p = true) {fos : List FO} {t : Trace} {v : FO}
    (h : primFO p fos = some (t, v)) : t = [] := by
  unfold primFO at h
  split at h <;> simp_all [isSilentPrim]
  obtain ⟨_, _, ht, _⟩ := h
  exact ht

/-- the given (pure) arguments of a partial application evaluate, inside the closure, to the values
they had when the closure was built, without output -/
theorem geval_pure (GP : GProg) (rs : List String) (gargs : List GVal) (genv : GEnv) :
    ∀ (k : Nat) (e : GExpr) (gv : GVal), gpureEvalN k genv e = some gv → isGPureFor rs e = true →
      (gevalN GP k).expr ((rs.zip gargs).reverse ++ genv) e = some ([], gv) := by
  intro k
  induction k with
  | zero => intro e gv h; simp [gpureEvalN] at h
  | succ k ih =>
    -- argument lists, by the induction hypothesis
    have hlist : ∀ (es : List GExpr) (gvs : List GVal), optList (gpureEvalN k genv) es = some gvs → isGPureForL rs es = true →
        evalList (gevalN GP k).expr ((rs.zip gargs).reverse ++ genv) es = some ([], gvs) := by
      intro es
      induction es with
      | nil => intro gvs h _; simp [optList] at h; subst h; rfl
      | cons e es ihl =>
        intro gvs h hp
        simp only [isGPureForL, Bool.and_eq_true] at hp
        simp only [optList] at h
        cases he : gpureEvalN k genv e with
        | none => simp [he] at h
        | some gv =>
          cases hes : optList (gpureEvalN k genv) es with
          | none => simp [he, hes] at h
          | some gvs' =>
            simp [he, hes] at h
            subst h
            simp only [evalList]
            exact Res.bind_eq_some.mpr ⟨[], gv, [], ih e gv he hp.1,
              Res.bind_eq_some.mpr ⟨[], gvs', [], ihl gvs' hes hp.2, rfl, rfl⟩, rfl⟩
    intro e gv h hp
    cases e with
    | lit l => simp [gpureEvalN] at h; subst h; rfl
    | var x =>
      have hx : rs.contains x = false := by
        simp only [isGPureFor, Bool.and_eq_true, Bool.not_eq_true'] at hp
        exact hp.1
      apply g_var
      rw [lookup_call_env_other hx]
      simpa [gpureEvalN] using h
    | prim p args =>
      simp only [isGPureFor, Bool.and_eq_true] at hp
      simp only [gpureEvalN] at h
      split at h
      · rename_i vs hvs
        split at h
        · rename_i fos hfos
          cases hprim : primFO p fos with
          | none => simp [hprim] at h
          | some r =>
            obtain ⟨t, v⟩ := r
            simp [hprim] at h
            subst h
            have ht := primFO_silent hp.1 hprim
            subst ht
            have := g_prim GP (hlist args vs hvs hp.2) hfos hprim
            simpa using this
        · cases h
      · cases h
    | funcLit ps b => simp [isGPureFor] at hp
    | _ => simp [gpureEvalN] at h

theorem geval_pures (GP : GProg) (rs : List String) (gargs : List GVal) (genv : GEnv) (k : Nat) :
    ∀ (es : List GExpr) (gvs : List GVal), optList (gpureEvalN k genv) es = some gvs → isGPureForL rs es = true →
      evalList (gevalN GP k).expr ((rs.zip gargs).reverse ++ genv) es = some ([], gvs) := by
  intro es
  induction es with
  | nil => intro gvs h _; simp [optList] at h; subst h; rfl
  | cons e es ihl =>
    intro gvs h hp
    simp only [isGPureForL, Bool.and_eq_true] at hp
    simp only [optList] at h
    cases he : gpureEvalN k genv e with
    | none => simp [he] at h
    | some gv =>
      cases hes : optList (gpureEvalN k genv) es with
      | none => simp [he, hes] at h
      | some gvs' =>
        simp [he, hes] at h
        subst h
        simp only [evalList]
        exact Res.bind_eq_some.mpr ⟨[], gv, [], geval_pure GP rs gargs genv k e gv he hp.1,
          Res.bind_eq_some.mpr ⟨[], gvs', [], ihl gvs' hes hp.2, rfl, rfl⟩, rfl⟩

/-! ### arm selection and function lookup commute with lowering -/

theorem pickArm_lower {arms : List Arm} {c : String} {bind : Option String} {b : Body}
    (h : pickArm arms c = some (bind, b)) (hwf : wfArms md arms = true) :
    pickCase (lowerArms md arms) c = some (bind, lowerB md b) ∧ wfB md b = true := by
  induction arms with
  | nil => simp [pickArm] at h
  | cons a arms ih =>
    obtain ⟨c', bind', b'⟩ := a
    simp only [wfArms, Bool.and_eq_true] at hwf
    simp only [pickArm] at h
    simp only [lowerArms, pickCase]
    split at h
    · rename_i hc
      simp only [Option.some.injEq, Prod.mk.injEq] at h
      simp only [hc, if_true]
      exact ⟨by rw [← h.1, ← h.2], h.2 ▸ hwf.1⟩
    · rename_i hc
      simp only [hc]
      exact ih h hwf.2

theorem pickSArm_lower {arms : List SArm} {s : String} {b : Body}
    (h : pickSArm arms s = some b) (hwf : wfSArms md arms = true) :
    pickSCase (lowerSArms md arms) s = some (lowerB md b) ∧ wfB md b = true := by
  induction arms with
  | nil => simp [pickSArm] at h
  | cons a arms ih =>
    obtain ⟨p, b'⟩ := a
    simp only [wfSArms, Bool.and_eq_true] at hwf
    cases p with
    | none =>
      simp only [pickSArm, Option.some.injEq] at h
      simp only [lowerSArms, pickSCase]
      exact ⟨by rw [h], h ▸ hwf.1⟩
    | some p =>
      simp only [pickSArm] at h
      simp only [lowerSArms, pickSCase]
      split at h
      · rename_i hp
        simp only [Option.some.injEq] at h
        simp only [hp, if_true]
        exact ⟨by rw [h], h ▸ hwf.1⟩
      · rename_i hp
        simp only [hp]
        exact ih h hwf.2

theorem bindArm_rel {env : Env} {genv : GEnv} (he : ERel md env genv) {bind : Option String} {payload : Option FO} {env' : Env}
    (h : bindArm SVal.fo env bind payload = some env') :
    ∃ genv', bindArm GVal.fo genv bind payload = some genv' ∧ ERel md env' genv' := by
  cases bind with
  | none => simp [bindArm] at h; subst h; exact ⟨genv, rfl, he⟩
  | some x =>
    cases payload with
    | none => simp [bindArm] at h
    | some v => simp [bindArm] at h; subst h; exact ⟨(x, .fo v) :: genv, rfl, .cons (.fo v) he⟩

theorem find_lower {P : Prog} {f : String} {d : FunDef} (h : P.find f = some d) :
    (lowerProg md P).find f = some (lowerFun md d) := by
  induction P with
  | nil => simp [Prog.find] at h
  | cons d' P ih =>
    simp only [Prog.find, List.find?_cons] at h
    simp only [lowerProg, List.map_cons, GProg.find, List.find?_cons]
    have hn : (lowerFun md d').name = d'.name := rfl
    rw [hn]
    cases hd : (d'.name == f) with
    | true =>
      simp only [hd, Option.some.injEq] at h
      simp [h]
    | false =>
      simp only [hd] at h
      exact ih h

theorem find_mem {P : Prog} {f : String} {d : FunDef} (h : P.find f = some d) : d ∈ P :=
  List.mem_of_find?_eq_some h

end Folang.Sem
