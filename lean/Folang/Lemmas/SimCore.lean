import Folang.Lemmas.SimWeaken
/-
The simulation, one fuel level at a time.  `SimAt md P n`: every evaluation the source evaluator completes
with fuel n is matched by the Go-core evaluator on the lowered term (with some fuel), with the same
output and related values.
-/
namespace Folang.Sem

structure SimAt (md : Bool) (P : Prog) (n : Nat) : Prop where
  expr : ∀ {env : Env} {e : Expr} {tr : Trace} {v : SVal}, (evalN P n).expr env e = some (tr, v) → wfE md e = true →
    ∀ {genv : GEnv}, ERel md env genv →
      ∃ m gv, (gevalN (lowerProg md P) m).expr genv (lowerE md e) = some (tr, gv) ∧ VRel md v gv
  body : ∀ {env : Env} {b : Body} {tr : Trace} {v : SVal}, (evalN P n).body env b = some (tr, v) → wfB md b = true →
    ∀ {genv : GEnv}, ERel md env genv →
      ∃ m gv, (gevalN (lowerProg md P) m).body genv (lowerB md b) = some (tr, gv) ∧ VRel md v gv
  app : ∀ {f : SVal} {args : List SVal} {tr : Trace} {v : SVal}, (evalN P n).app f args = some (tr, v) →
    ∀ {gf : GVal} {gargs : List GVal}, VRel md f gf → VRels md args gargs →
      ∃ m gv, (gevalN (lowerProg md P) m).app gf gargs = some (tr, gv) ∧ VRel md v gv

variable {md : Bool} {P : Prog} {n : Nat}

/-- argument lists -/
theorem sim_list (ih : SimAt md P n) : ∀ {es : List Expr} {env : Env} {t : Trace} {vs : List SVal},
    evalList (evalN P n).expr env es = some (t, vs) → wfL md es = true → ∀ {genv : GEnv}, ERel md env genv →
      ∃ m gvs, evalList (gevalN (lowerProg md P) m).expr genv (lowerL md es) = some (t, gvs) ∧ VRels md vs gvs := by
  intro es
  induction es with
  | nil =>
    intro env t vs h _ genv _
    simp [evalList, Res.pure] at h
    obtain ⟨rfl, rfl⟩ := h
    exact ⟨0, [], rfl, .nil⟩
  | cons e es ihl =>
    intro env t vs h hwf genv he
    simp only [wfL, Bool.and_eq_true] at hwf
    simp only [evalList] at h
    obtain ⟨t1, v, t2, h1, h2, rfl⟩ := Res.bind_eq_some.mp h
    obtain ⟨t3, vs', t4, h3, h4, rfl⟩ := Res.bind_eq_some.mp h2
    obtain ⟨rfl, rfl⟩ := Res.pure_eq_some.mp h4
    obtain ⟨m1, gv, hg1, hr1⟩ := ih.expr h1 hwf.1 he
    obtain ⟨m2, gvs, hg2, hr2⟩ := ihl h3 hwf.2 he
    refine ⟨m1 + m2, gv :: gvs, ?_, .cons hr1 hr2⟩
    simp only [lowerL, evalList]
    refine Res.bind_eq_some.mpr ⟨t1, gv, t3 ++ [], g_lift_expr _ (by omega) hg1, ?_, rfl⟩
    exact Res.bind_eq_some.mpr ⟨t3, gvs, [], g_lift_list _ (by omega) hg2, rfl, rfl⟩

/-- a pure expression evaluates without output, and its lowering evaluates (as a pure Go-core
expression, within the same depth) to a related value in any related environment -/
theorem sim_pure (rs : List String) : ∀ (n : Nat) {e : Expr} {env : Env} {t : Trace} {v : SVal},
    (evalN P n).expr env e = some (t, v) → isPureFor rs e = true → wfE md e = true → ∀ {genv : GEnv}, ERel md env genv →
      t = [] ∧ ∃ gv, gpureEvalN n genv (lowerE md e) = some gv ∧ VRel md v gv ∧ isGPureFor rs (lowerE md e) = true := by
  intro n
  induction n with
  | zero => intro e env t v h; simp [evalN] at h
  | succ k ih =>
    have hlist : ∀ {es : List Expr} {env : Env} {t : Trace} {vs : List SVal},
        evalList (evalN P k).expr env es = some (t, vs) → isPureForL rs es = true → wfL md es = true → ∀ {genv : GEnv}, ERel md env genv →
          t = [] ∧ ∃ gvs, optList (gpureEvalN k genv) (lowerL md es) = some gvs ∧ VRels md vs gvs ∧
            isGPureForL rs (lowerL md es) = true := by
      intro es
      induction es with
      | nil =>
        intro env t vs h _ _ genv _
        simp [evalList, Res.pure] at h
        obtain ⟨rfl, rfl⟩ := h
        exact ⟨rfl, [], rfl, .nil, rfl⟩
      | cons e es ihl =>
        intro env t vs h hp hw genv he
        simp only [isPureForL, Bool.and_eq_true] at hp
        simp only [wfL, Bool.and_eq_true] at hw
        simp only [evalList] at h
        obtain ⟨t1, v, t2, h1, h2, rfl⟩ := Res.bind_eq_some.mp h
        obtain ⟨t3, vs', t4, h3, h4, rfl⟩ := Res.bind_eq_some.mp h2
        obtain ⟨rfl, rfl⟩ := Res.pure_eq_some.mp h4
        obtain ⟨rfl, gv, hg1, hr1, hp1⟩ := ih h1 hp.1 hw.1 he
        obtain ⟨rfl, gvs, hg2, hr2, hp2⟩ := ihl h3 hp.2 hw.2 he
        refine ⟨rfl, gv :: gvs, ?_, .cons hr1 hr2, ?_⟩
        · simp [lowerL, optList, hg1, hg2]
        · simp [lowerL, isGPureForL, hp1, hp2]
    intro e env t v h hp hw genv he
    have hstep : stepExpr (evalN P k) P env e = some (t, v) := h
    cases e with
    | lit l =>
      simp [stepExpr, Res.pure] at hstep
      obtain ⟨rfl, rfl⟩ := hstep
      exact ⟨rfl, .fo (.lit l), by simp [lowerE, gpureEvalN], .fo _, by simp [lowerE, isGPureFor]⟩
    | var x =>
      simp only [stepExpr, ofOpt] at hstep
      cases hl : lookup env x with
      | none => simp [hl] at hstep
      | some v' =>
        simp [hl] at hstep
        obtain ⟨rfl, rfl⟩ := hstep
        obtain ⟨gv, hgl, hrv⟩ := he.lookup (by simpa [wfE] using hw) hl
        have hnr : isReserved x = false := by simpa [wfE] using hw
        refine ⟨rfl, gv, by simp [lowerE, gpureEvalN, hgl], hrv, ?_⟩
        simp only [lowerE, isGPureFor, isRName_of_not_reserved hnr, Bool.not_false, Bool.and_true]
        simpa [isPureFor] using hp
    | prim p args =>
      simp only [isPureFor, Bool.and_eq_true] at hp
      simp only [stepExpr] at hstep
      obtain ⟨t1, vs, t2, h1, h2, rfl⟩ := Res.bind_eq_some.mp hstep
      obtain ⟨rfl, gvs, hg, hr, hpl⟩ := hlist h1 hp.2 (by simpa [wfE] using hw) he
      split at h2
      · rename_i fos hfos
        obtain ⟨t3, v', t4, h3, h4, rfl⟩ := Res.bind_eq_some.mp h2
        obtain ⟨rfl, rfl⟩ := Res.pure_eq_some.mp h4
        have ht3 := primFO_silent hp.1 h3
        subst ht3
        refine ⟨rfl, .fo v', ?_, .fo _, ?_⟩
        · simp [lowerE, gpureEvalN, hg, ← hr.toFOs, hfos, h3]
        · simp [lowerE, isGPureFor, hp.1, hpl]
      · cases h2
    | _ => simp [isPureFor] at hp

/-- the pure given arguments of a partial application -/
theorem sim_pures (rs : List String) (n : Nat) : ∀ {es : List Expr} {env : Env} {t : Trace} {vs : List SVal},
    evalList (evalN P n).expr env es = some (t, vs) → isPureForL rs es = true → wfL md es = true → ∀ {genv : GEnv}, ERel md env genv →
      t = [] ∧ ∃ gvs, optList (gpureEvalN n genv) (lowerL md es) = some gvs ∧ VRels md vs gvs ∧
        isGPureForL rs (lowerL md es) = true := by
  intro es
  induction es with
  | nil =>
    intro env t vs h _ _ genv _
    simp [evalList, Res.pure] at h
    obtain ⟨rfl, rfl⟩ := h
    exact ⟨rfl, [], rfl, .nil, rfl⟩
  | cons e es ihl =>
    intro env t vs h hp hw genv he
    simp only [isPureForL, Bool.and_eq_true] at hp
    simp only [wfL, Bool.and_eq_true] at hw
    simp only [evalList] at h
    obtain ⟨t1, v, t2, h1, h2, rfl⟩ := Res.bind_eq_some.mp h
    obtain ⟨t3, vs', t4, h3, h4, rfl⟩ := Res.bind_eq_some.mp h2
    obtain ⟨rfl, rfl⟩ := Res.pure_eq_some.mp h4
    obtain ⟨rfl, gv, hg1, hr1, hp1⟩ := sim_pure rs n h1 hp.1 hw.1 he
    obtain ⟨rfl, gvs, hg2, hr2, hp2⟩ := ihl h3 hp.2 hw.2 he
    refine ⟨rfl, gv :: gvs, ?_, .cons hr1 hr2, ?_⟩
    · simp [lowerL, optList, hg1, hg2]
    · simp [lowerL, isGPureForL, hp1, hp2]

/-- union match -/
theorem sim_match (ih : SimAt md P n) {env : Env} {t : Expr} {arms : List Arm} {tr : Trace} {v : SVal}
    (h : evalMatch (evalN P n) env t arms = some (tr, v)) (hwt : wfE md t = true) (hwa : wfArms md arms = true)
    {genv : GEnv} (he : ERel md env genv) :
    ∃ m gv, gevalSwitch (gevalN (lowerProg md P) m) genv (lowerE md t) (lowerArms md arms) = some (tr, gv) ∧ VRel md v gv := by
  unfold evalMatch at h
  obtain ⟨t1, vt, t2, h1, h2, rfl⟩ := Res.bind_eq_some.mp h
  obtain ⟨m1, gvt, hg1, hr1⟩ := ih.expr h1 hwt he
  split at h2
  · rename_i c payload
    have hgvt := hr1.fo_left
    subst hgvt
    split at h2
    · rename_i bind b hpick
      obtain ⟨hpc, hwb⟩ := pickArm_lower hpick hwa
      split at h2
      · rename_i env' hbind
        obtain ⟨genv', hgb, he'⟩ := bindArm_rel he hbind
        obtain ⟨m2, gv, hg2, hr2⟩ := ih.body h2 hwb he'
        refine ⟨m1 + m2, gv, ?_, hr2⟩
        unfold gevalSwitch
        refine Res.bind_eq_some.mpr ⟨t1, _, t2, g_lift_expr _ (by omega) hg1, ?_, rfl⟩
        simp only [hpc, hgb]
        exact g_lift_body _ (by omega) hg2
      · cases h2
    · cases h2
  · cases h2

/-- string match -/
theorem sim_matchS (ih : SimAt md P n) {env : Env} {t : Expr} {arms : List SArm} {tr : Trace} {v : SVal}
    (h : evalMatchS (evalN P n) env t arms = some (tr, v)) (hwt : wfE md t = true) (hwa : wfSArms md arms = true)
    {genv : GEnv} (he : ERel md env genv) :
    ∃ m gv, gevalSwitchS (gevalN (lowerProg md P) m) genv (lowerE md t) (lowerSArms md arms) = some (tr, gv) ∧ VRel md v gv := by
  unfold evalMatchS at h
  obtain ⟨t1, vt, t2, h1, h2, rfl⟩ := Res.bind_eq_some.mp h
  obtain ⟨m1, gvt, hg1, hr1⟩ := ih.expr h1 hwt he
  split at h2
  · rename_i s
    have hgvt := hr1.fo_left
    subst hgvt
    split at h2
    · rename_i b hpick
      obtain ⟨hpc, hwb⟩ := pickSArm_lower hpick hwa
      obtain ⟨m2, gv, hg2, hr2⟩ := ih.body h2 hwb he
      refine ⟨m1 + m2, gv, ?_, hr2⟩
      unfold gevalSwitchS
      refine Res.bind_eq_some.mpr ⟨t1, _, t2, g_lift_expr _ (by omega) hg1, ?_, rfl⟩
      simp only [hpc]
      exact g_lift_body _ (by omega) hg2
    · cases h2
  · cases h2

/-- statement sequences -/
theorem sim_stmts (ih : SimAt md P n) : ∀ {ss : List Stmt} {env : Env} {t : Trace} {env' : Env},
    runStmts (evalN P n) env ss = some (t, env') → wfSs md ss = true → ∀ {genv : GEnv}, ERel md env genv →
      ∃ m genv', grunStmts (gevalN (lowerProg md P) m) genv (lowerSs md ss) = some (t, genv') ∧ ERel md env' genv' := by
  intro ss
  induction ss with
  | nil =>
    intro env t env' h _ genv he
    simp [runStmts, Res.pure] at h
    obtain ⟨rfl, rfl⟩ := h
    exact ⟨0, genv, rfl, he⟩
  | cons s ss ihs =>
    intro env t env' h hwf genv he
    simp only [wfSs, Bool.and_eq_true] at hwf
    cases s with
    | let1 x e =>
      simp only [runStmts] at h
      obtain ⟨t1, v, t2, h1, h2, rfl⟩ := Res.bind_eq_some.mp h
      obtain ⟨m1, gv, hg1, hr1⟩ := ih.expr h1 (by simpa [wfS] using hwf.1) he
      obtain ⟨m2, genv', hg2, he'⟩ := ihs h2 hwf.2 (.cons (x := x) hr1 he)
      refine ⟨m1 + m2, genv', ?_, he'⟩
      simp only [lowerSs, lowerS, grunStmts]
      exact Res.bind_eq_some.mpr ⟨t1, gv, t2, g_lift_expr _ (by omega) hg1, grunStmts_le (gevalN_mono _ (by omega)) _ _ _ hg2, rfl⟩
    | let2 x y e =>
      simp only [runStmts] at h
      obtain ⟨t1, v, t2, h1, h2, rfl⟩ := Res.bind_eq_some.mp h
      obtain ⟨m1, gv, hg1, hr1⟩ := ih.expr h1 (by simpa [wfS] using hwf.1) he
      split at h2
      · rename_i a b
        have := hr1.fo_left
        subst this
        obtain ⟨m2, genv', hg2, he'⟩ := ihs h2 hwf.2 (.cons (x := y) (.fo b) (.cons (x := x) (.fo a) he))
        refine ⟨m1 + m2, genv', ?_, he'⟩
        simp only [lowerSs, lowerS, grunStmts]
        exact Res.bind_eq_some.mpr ⟨t1, _, t2, g_lift_expr _ (by omega) hg1, grunStmts_le (gevalN_mono _ (by omega)) _ _ _ hg2, rfl⟩
      · cases h2
    | exec e =>
      simp only [runStmts] at h
      obtain ⟨t1, v, t2, h1, h2, rfl⟩ := Res.bind_eq_some.mp h
      obtain ⟨m1, gv, hg1, _⟩ := ih.expr h1 (by simpa [wfS] using hwf.1) he
      obtain ⟨m2, genv', hg2, he'⟩ := ihs h2 hwf.2 he
      refine ⟨m1 + m2, genv', ?_, he'⟩
      simp only [lowerSs, lowerS, grunStmts]
      exact Res.bind_eq_some.mpr ⟨t1, gv, t2, g_lift_expr _ (by omega) hg1, grunStmts_le (gevalN_mono _ (by omega)) _ _ _ hg2, rfl⟩
    | ifonly c b =>
      have hw : wfE md c = true ∧ wfB md b = true := by simpa [wfS] using hwf.1
      simp only [runStmts] at h
      obtain ⟨t1, vc, t2, h1, h2, rfl⟩ := Res.bind_eq_some.mp h
      obtain ⟨m1, gvc, hg1, hr1⟩ := ih.expr h1 hw.1 he
      split at h2
      · -- condition true: the block runs
        have := hr1.fo_left
        subst this
        obtain ⟨t3, vb, t4, h3, h4, rfl⟩ := Res.bind_eq_some.mp h2
        obtain ⟨m2, gvb, hg2, _⟩ := ih.body h3 hw.2 he
        obtain ⟨m3, genv', hg3, he'⟩ := ihs h4 hwf.2 he
        refine ⟨m1 + m2 + m3 + 2, genv', ?_, he'⟩
        simp only [lowerSs, lowerS, grunStmts]
        have hio := g_ifOnly_true (lowerProg md P) (m := m1 + m2) (tb := lowerB md b)
          (g_lift_expr _ (by omega) hg1) (g_lift_body _ (by omega) hg2)
        refine Res.bind_eq_some.mpr ⟨t1 ++ t3, _, t4, g_lift_expr _ (by omega) hio, grunStmts_le (gevalN_mono _ (by omega)) _ _ _ hg3, by simp⟩
      · have := hr1.fo_left
        subst this
        obtain ⟨m3, genv', hg3, he'⟩ := ihs h2 hwf.2 he
        refine ⟨m1 + m3 + 2, genv', ?_, he'⟩
        simp only [lowerSs, lowerS, grunStmts]
        have hio := g_ifOnly_false (lowerProg md P) (m := m1) (tb := lowerB md b) hg1
        exact Res.bind_eq_some.mpr ⟨t1, _, t2, g_lift_expr _ (by omega) hio, grunStmts_le (gevalN_mono _ (by omega)) _ _ _ hg3, rfl⟩
      · cases h2

/-! ### higher-order library functions -/

theorem sim_mapApp (ih : SimAt md P n) {f : SVal} {gf : GVal} (hf : VRel md f gf) : ∀ {xs : List FO} {t : Trace} {ys : List SVal},
    mapApp (evalN P n).app SVal.fo f xs = some (t, ys) →
      ∃ m gys, mapApp (gevalN (lowerProg md P) m).app GVal.fo gf xs = some (t, gys) ∧ VRels md ys gys := by
  intro xs
  induction xs with
  | nil =>
    intro t ys h
    simp [mapApp, Res.pure] at h
    obtain ⟨rfl, rfl⟩ := h
    exact ⟨0, [], rfl, .nil⟩
  | cons x xs ihx =>
    intro t ys h
    simp only [mapApp] at h
    obtain ⟨t1, y, t2, h1, h2, rfl⟩ := Res.bind_eq_some.mp h
    obtain ⟨t3, ys', t4, h3, h4, rfl⟩ := Res.bind_eq_some.mp h2
    obtain ⟨rfl, rfl⟩ := Res.pure_eq_some.mp h4
    obtain ⟨m1, gy, hg1, hr1⟩ := ih.app h1 hf (.cons (.fo x) .nil)
    obtain ⟨m2, gys, hg2, hr2⟩ := ihx h3
    refine ⟨m1 + m2, gy :: gys, ?_, .cons hr1 hr2⟩
    simp only [mapApp]
    refine Res.bind_eq_some.mpr ⟨t1, gy, t3 ++ [], g_lift_app _ (by omega) hg1, ?_, rfl⟩
    exact Res.bind_eq_some.mpr ⟨t3, gys, [], mapApp_le (gevalN_mono _ (by omega)).app _ _ _ _ hg2, rfl, rfl⟩

theorem sim_filterApp (ih : SimAt md P n) {f : SVal} {gf : GVal} (hf : VRel md f gf) : ∀ {xs : List FO} {t : Trace} {ys : List FO},
    filterApp (evalN P n).app SVal.fo SVal.toFO f xs = some (t, ys) →
      ∃ m, filterApp (gevalN (lowerProg md P) m).app GVal.fo GVal.toFO gf xs = some (t, ys) := by
  intro xs
  induction xs with
  | nil =>
    intro t ys h
    exact ⟨0, h⟩
  | cons x xs ihx =>
    intro t ys h
    simp only [filterApp] at h
    obtain ⟨t1, y, t2, h1, h2, rfl⟩ := Res.bind_eq_some.mp h
    obtain ⟨m1, gy, hg1, hr1⟩ := ih.app h1 hf (.cons (.fo x) .nil)
    have hfo := hr1.toFO
    split at h2
    · rename_i keep hk
      obtain ⟨t3, ys', t4, h3, h4, rfl⟩ := Res.bind_eq_some.mp h2
      obtain ⟨rfl, rfl⟩ := Res.pure_eq_some.mp h4
      obtain ⟨m2, hg2⟩ := ihx h3
      refine ⟨m1 + m2, ?_⟩
      simp only [filterApp]
      refine Res.bind_eq_some.mpr ⟨t1, gy, t3 ++ [], g_lift_app _ (by omega) hg1, ?_, rfl⟩
      rw [← hfo, hk]
      exact Res.bind_eq_some.mpr ⟨t3, ys', [], filterApp_le (gevalN_mono _ (by omega)).app _ _ _ _ _ hg2, rfl, rfl⟩
    · cases h2

theorem sim_foldApp (ih : SimAt md P n) {f : SVal} {gf : GVal} (hf : VRel md f gf) : ∀ {xs : List FO} {acc : SVal} {gacc : GVal} {t : Trace} {v : SVal},
    foldApp (evalN P n).app SVal.fo f acc xs = some (t, v) → VRel md acc gacc →
      ∃ m gv, foldApp (gevalN (lowerProg md P) m).app GVal.fo gf gacc xs = some (t, gv) ∧ VRel md v gv := by
  intro xs
  induction xs with
  | nil =>
    intro acc gacc t v h ha
    simp [foldApp, Res.pure] at h
    obtain ⟨rfl, rfl⟩ := h
    exact ⟨0, gacc, rfl, ha⟩
  | cons x xs ihx =>
    intro acc gacc t v h ha
    simp only [foldApp] at h
    obtain ⟨t1, acc', t2, h1, h2, rfl⟩ := Res.bind_eq_some.mp h
    obtain ⟨m1, gacc', hg1, hr1⟩ := ih.app h1 hf (.cons ha (.cons (.fo x) .nil))
    obtain ⟨m2, gv, hg2, hr2⟩ := ihx h2 hr1
    refine ⟨m1 + m2, gv, ?_, hr2⟩
    simp only [foldApp]
    exact Res.bind_eq_some.mpr ⟨t1, gacc', t2, g_lift_app _ (by omega) hg1, foldApp_le (gevalN_mono _ (by omega)).app _ _ _ _ _ hg2, rfl⟩

end Folang.Sem
