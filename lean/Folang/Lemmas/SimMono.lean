import Folang.Sem.Lower
/-
Fuel monotonicity of both evaluators: a result obtained with fuel n is obtained with any larger fuel.
Hence fuel is a definitional device only: results do not depend on it once it suffices.
-/
namespace Folang.Sem

/-- `x ≤ y` on results: whatever `x` yields, `y` yields too -/
def Res.le {α : Type} (x y : Res α) : Prop := ∀ v, x = some v → y = some v

theorem Res.le_refl {α : Type} (x : Res α) : Res.le x x := fun _ h => h

theorem Res.bind_eq_some {α β : Type} {x : Res α} {f : α → Res β} {t : Trace} {b : β} :
    Res.bind x f = some (t, b) ↔ ∃ t1 a t2, x = some (t1, a) ∧ f a = some (t2, b) ∧ t = t1 ++ t2 := by
  unfold Res.bind
  constructor
  · intro h
    split at h
    · cases h
    · rename_i t1 a
      split at h
      · cases h
      · rename_i t2 b' hf
        simp only [Option.some.injEq, Prod.mk.injEq] at h
        exact ⟨t1, a, t2, rfl, by rw [hf, ← h.2], h.1.symm⟩
  · rintro ⟨t1, a, t2, hx, hf, ht⟩
    subst hx
    simp [hf, ht]

theorem Res.pure_eq_some {α : Type} {a b : α} {t : Trace} : (Res.pure a : Res α) = some (t, b) ↔ t = [] ∧ b = a := by
  simp [Res.pure, eq_comm]

theorem Res.bind_le {α β : Type} {x x' : Res α} {f f' : α → Res β} (hx : Res.le x x') (hf : ∀ a, Res.le (f a) (f' a)) :
    Res.le (Res.bind x f) (Res.bind x' f') := by
  rintro ⟨t, b⟩ h
  obtain ⟨t1, a, t2, h1, h2, h3⟩ := Res.bind_eq_some.mp h
  exact Res.bind_eq_some.mpr ⟨t1, a, t2, hx _ h1, hf a _ h2, h3⟩

theorem evalList_le {ε α β : Type} {f f' : ε → α → Res β} (h : ∀ env e, Res.le (f env e) (f' env e)) (env : ε) (es : List α) :
    Res.le (evalList f env es) (evalList f' env es) := by
  induction es with
  | nil => exact Res.le_refl _
  | cons e es ih =>
    simp only [evalList]
    exact Res.bind_le (h env e) (fun v => Res.bind_le ih (fun _ => Res.le_refl _))

theorem mapApp_le {V : Type} {app app' : V → List V → Res V} (h : ∀ f a, Res.le (app f a) (app' f a)) (inj : FO → V) (f : V) (xs : List FO) :
    Res.le (mapApp app inj f xs) (mapApp app' inj f xs) := by
  induction xs with
  | nil => exact Res.le_refl _
  | cons x xs ih =>
    simp only [mapApp]
    exact Res.bind_le (h _ _) (fun _ => Res.bind_le ih (fun _ => Res.le_refl _))

theorem filterApp_le {V : Type} {app app' : V → List V → Res V} (h : ∀ f a, Res.le (app f a) (app' f a)) (inj : FO → V) (prj : V → Option FO) (f : V) (xs : List FO) :
    Res.le (filterApp app inj prj f xs) (filterApp app' inj prj f xs) := by
  induction xs with
  | nil => exact Res.le_refl _
  | cons x xs ih =>
    simp only [filterApp]
    refine Res.bind_le (h _ _) (fun y => ?_)
    split
    · exact Res.bind_le ih (fun _ => Res.le_refl _)
    · exact Res.le_refl _

theorem foldApp_le {V : Type} {app app' : V → List V → Res V} (h : ∀ f a, Res.le (app f a) (app' f a)) (inj : FO → V) (f : V) (acc : V) (xs : List FO) :
    Res.le (foldApp app inj f acc xs) (foldApp app' inj f acc xs) := by
  induction xs generalizing acc with
  | nil => exact Res.le_refl _
  | cons x xs ih =>
    simp only [foldApp]
    exact Res.bind_le (h _ _) (fun acc' => ih acc')

/-! ### Go-core -/

structure GRec.le (r r' : GRec) : Prop where
  expr : ∀ env e, Res.le (r.expr env e) (r'.expr env e)
  body : ∀ env b, Res.le (r.body env b) (r'.body env b)
  app : ∀ f a, Res.le (r.app f a) (r'.app f a)

theorem gevalSwitch_le {r r' : GRec} (h : GRec.le r r') (env : GEnv) (t : GExpr) (cases : List GCase) :
    Res.le (gevalSwitch r env t cases) (gevalSwitch r' env t cases) := by
  unfold gevalSwitch
  refine Res.bind_le (h.expr _ _) (fun vt => ?_)
  split
  · split
    · split
      · exact h.body _ _
      · exact Res.le_refl _
    · exact Res.le_refl _
  · exact Res.le_refl _

theorem gevalSwitchS_le {r r' : GRec} (h : GRec.le r r') (env : GEnv) (t : GExpr) (cases : List GSCase) :
    Res.le (gevalSwitchS r env t cases) (gevalSwitchS r' env t cases) := by
  unfold gevalSwitchS
  refine Res.bind_le (h.expr _ _) (fun vt => ?_)
  split
  · split
    · exact h.body _ _
    · exact Res.le_refl _
  · exact Res.le_refl _

theorem gstepExpr_le {r r' : GRec} (h : GRec.le r r') (P : GProg) (env : GEnv) (e : GExpr) :
    Res.le (gstepExpr r P env e) (gstepExpr r' P env e) := by
  cases e with
  | lit l => exact Res.le_refl _
  | var x => exact Res.le_refl _
  | prim p args =>
    simp only [gstepExpr]
    exact Res.bind_le (evalList_le h.expr env args) (fun _ => Res.le_refl _)
  | and a b =>
    simp only [gstepExpr]
    refine Res.bind_le (h.expr _ _) (fun va => ?_)
    split
    · exact Res.le_refl _
    · exact h.expr _ _
    · exact Res.le_refl _
  | or a b =>
    simp only [gstepExpr]
    refine Res.bind_le (h.expr _ _) (fun va => ?_)
    split
    · exact Res.le_refl _
    · exact h.expr _ _
    · exact Res.le_refl _
  | ifElse c t f =>
    simp only [gstepExpr]
    refine Res.bind_le (h.expr _ _) (fun vc => Res.bind_le (h.expr _ _) (fun vt => Res.bind_le (h.expr _ _) (fun vf => ?_)))
    split
    · exact h.app _ _
    · exact h.app _ _
    · exact Res.le_refl _
  | ifOnly c t =>
    simp only [gstepExpr]
    refine Res.bind_le (h.expr _ _) (fun vc => Res.bind_le (h.expr _ _) (fun vt => ?_))
    split
    · exact Res.bind_le (h.app _ _) (fun _ => Res.le_refl _)
    · exact Res.le_refl _
    · exact Res.le_refl _
  | callFn f args =>
    simp only [gstepExpr]
    refine Res.bind_le (evalList_le h.expr env args) (fun vs => ?_)
    split
    · split
      · exact h.body _ _
      · exact Res.le_refl _
    · exact Res.le_refl _
  | callVal f args =>
    simp only [gstepExpr]
    exact Res.bind_le (h.expr _ _) (fun fv => Res.bind_le (evalList_le h.expr env args) (fun vs => h.app _ _))
  | funcLit ps b => exact Res.le_refl _
  | pipe a f =>
    simp only [gstepExpr]
    exact Res.bind_le (h.expr _ _) (fun va => Res.bind_le (h.expr _ _) (fun vf => h.app _ _))
  | hof hn f args =>
    simp only [gstepExpr]
    refine Res.bind_le (h.expr _ _) (fun vf => Res.bind_le (evalList_le h.expr env args) (fun vs => ?_))
    split
    · exact Res.bind_le (mapApp_le h.app _ _ _) (fun _ => Res.le_refl _)
    · exact Res.bind_le (filterApp_le h.app _ _ _ _) (fun _ => Res.le_refl _)
    · exact foldApp_le h.app _ _ _ _
    · exact Res.le_refl _

theorem grunStmts_le {r r' : GRec} (h : GRec.le r r') (env : GEnv) (ss : List GStmt) :
    Res.le (grunStmts r env ss) (grunStmts r' env ss) := by
  induction ss generalizing env with
  | nil => exact Res.le_refl _
  | cons s ss ih =>
    cases s with
    | define x e =>
      simp only [grunStmts]
      exact Res.bind_le (h.expr _ _) (fun v => ih _)
    | define2 x y e =>
      simp only [grunStmts]
      refine Res.bind_le (h.expr _ _) (fun v => ?_)
      split
      · exact ih _
      · exact Res.le_refl _
    | exec e =>
      simp only [grunStmts]
      exact Res.bind_le (h.expr _ _) (fun v => ih _)

theorem gstepBody_le {r r' : GRec} (h : GRec.le r r') (env : GEnv) (b : GBody) :
    Res.le (gstepBody r env b) (gstepBody r' env b) := by
  cases b with
  | mk ss tail =>
    simp only [gstepBody]
    refine Res.bind_le (grunStmts_le h env ss) (fun env' => ?_)
    cases tail with
    | ret e => exact h.expr _ _
    | switch t cases => exact gevalSwitch_le h _ _ _
    | switchS t cases => exact gevalSwitchS_le h _ _ _

theorem gstepApp_le {r r' : GRec} (h : GRec.le r r') (f : GVal) (args : List GVal) :
    Res.le (gstepApp r f args) (gstepApp r' f args) := by
  cases f with
  | fo v => exact Res.le_refl _
  | clo ps b cenv =>
    simp only [gstepApp]
    split
    · exact h.body _ _
    · exact Res.le_refl _

theorem gevalN_le_succ (P : GProg) (n : Nat) : GRec.le (gevalN P n) (gevalN P (n + 1)) := by
  induction n with
  | zero => exact ⟨fun _ _ _ h => by simp [gevalN] at h, fun _ _ _ h => by simp [gevalN] at h, fun _ _ _ h => by simp [gevalN] at h⟩
  | succ n ih =>
    exact ⟨fun env e => gstepExpr_le ih P env e, fun env b => gstepBody_le ih env b, fun f a => gstepApp_le ih f a⟩

theorem GRec.le_trans {a b c : GRec} (h1 : GRec.le a b) (h2 : GRec.le b c) : GRec.le a c :=
  ⟨fun env e v hv => h2.expr env e v (h1.expr env e v hv), fun env b v hv => h2.body env b v (h1.body env b v hv),
    fun f a v hv => h2.app f a v (h1.app f a v hv)⟩

theorem GRec.le_refl (a : GRec) : GRec.le a a :=
  ⟨fun _ _ => Res.le_refl _, fun _ _ => Res.le_refl _, fun _ _ => Res.le_refl _⟩

theorem gevalN_mono (P : GProg) {n m : Nat} (h : n ≤ m) : GRec.le (gevalN P n) (gevalN P m) := by
  obtain ⟨k, rfl⟩ := Nat.exists_eq_add_of_le h
  induction k with
  | zero => exact GRec.le_refl _
  | succ k ih => exact GRec.le_trans (ih (by omega)) (gevalN_le_succ P (n + k))

end Folang.Sem
