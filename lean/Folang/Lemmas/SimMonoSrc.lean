import Folang.Lemmas.SimMono
/-
Fuel monotonicity of the reference semantics `evalN` (the source side): a result obtained with fuel
n is obtained with any larger fuel.
-/
namespace Folang.Sem

structure Rec.le (r r' : Rec) : Prop where
  expr : ∀ env e, Res.le (r.expr env e) (r'.expr env e)
  body : ∀ env b, Res.le (r.body env b) (r'.body env b)
  app : ∀ f a, Res.le (r.app f a) (r'.app f a)

theorem applyFull_le {r r' : Rec} (h : Rec.le r r') (P : Prog) (f : String) (arity : Nat) (all : List SVal) :
    Res.le (applyFull r P f arity all) (applyFull r' P f arity all) := by
  unfold applyFull
  split
  · split
    · split
      · exact h.body _ _
      · exact Res.le_refl _
    · exact Res.le_refl _
  · exact Res.le_refl _

theorem evalMatch_le {r r' : Rec} (h : Rec.le r r') (env : Env) (t : Expr) (arms : List Arm) :
    Res.le (evalMatch r env t arms) (evalMatch r' env t arms) := by
  unfold evalMatch
  refine Res.bind_le (h.expr _ _) (fun vt => ?_)
  split
  · split
    · split
      · exact h.body _ _
      · exact Res.le_refl _
    · exact Res.le_refl _
  · exact Res.le_refl _

theorem evalMatchS_le {r r' : Rec} (h : Rec.le r r') (env : Env) (t : Expr) (arms : List SArm) :
    Res.le (evalMatchS r env t arms) (evalMatchS r' env t arms) := by
  unfold evalMatchS
  refine Res.bind_le (h.expr _ _) (fun vt => ?_)
  split
  · split
    · exact h.body _ _
    · exact Res.le_refl _
  · exact Res.le_refl _

theorem stepExpr_le {r r' : Rec} (h : Rec.le r r') (P : Prog) (env : Env) (e : Expr) :
    Res.le (stepExpr r P env e) (stepExpr r' P env e) := by
  cases e with
  | lit l => exact Res.le_refl _
  | var x => exact Res.le_refl _
  | prim p args =>
    simp only [stepExpr]
    exact Res.bind_le (evalList_le h.expr env args) (fun _ => Res.le_refl _)
  | and a b =>
    simp only [stepExpr]
    refine Res.bind_le (h.expr _ _) (fun va => ?_)
    split
    · exact Res.le_refl _
    · exact h.expr _ _
    · exact Res.le_refl _
  | or a b =>
    simp only [stepExpr]
    refine Res.bind_le (h.expr _ _) (fun va => ?_)
    split
    · exact Res.le_refl _
    · exact h.expr _ _
    · exact Res.le_refl _
  | ite c t f =>
    simp only [stepExpr]
    refine Res.bind_le (h.expr _ _) (fun vc => ?_)
    split
    · exact h.body _ _
    · exact h.body _ _
    · exact Res.le_refl _
  | call f arity args =>
    simp only [stepExpr]
    refine Res.bind_le (evalList_le h.expr env args) (fun vs => ?_)
    split
    · exact Res.le_refl _
    · exact applyFull_le h P f arity vs
  | callv f args =>
    simp only [stepExpr]
    exact Res.bind_le (h.expr _ _) (fun fv => Res.bind_le (evalList_le h.expr env args) (fun vs => h.app _ _))
  | lam ps b => exact Res.le_refl _
  | pipe a f =>
    simp only [stepExpr]
    exact Res.bind_le (h.expr _ _) (fun va => Res.bind_le (h.expr _ _) (fun vf => h.app _ _))
  | hof hn f args =>
    simp only [stepExpr]
    refine Res.bind_le (h.expr _ _) (fun vf => Res.bind_le (evalList_le h.expr env args) (fun vs => ?_))
    split
    · exact Res.bind_le (mapApp_le h.app _ _ _) (fun _ => Res.le_refl _)
    · exact Res.bind_le (filterApp_le h.app _ _ _ _) (fun _ => Res.le_refl _)
    · exact foldApp_le h.app _ _ _ _
    · exact Res.le_refl _
  | matchE t arms => exact evalMatch_le h env t arms
  | matchSE t arms => exact evalMatchS_le h env t arms

theorem runStmts_le {r r' : Rec} (h : Rec.le r r') (env : Env) (ss : List Stmt) :
    Res.le (runStmts r env ss) (runStmts r' env ss) := by
  induction ss generalizing env with
  | nil => exact Res.le_refl _
  | cons s ss ih =>
    cases s with
    | let1 x e =>
      simp only [runStmts]
      exact Res.bind_le (h.expr _ _) (fun v => ih _)
    | let2 x y e =>
      simp only [runStmts]
      refine Res.bind_le (h.expr _ _) (fun v => ?_)
      split
      · exact ih _
      · exact Res.le_refl _
    | exec e =>
      simp only [runStmts]
      exact Res.bind_le (h.expr _ _) (fun v => ih _)
    | ifonly c b =>
      simp only [runStmts]
      refine Res.bind_le (h.expr _ _) (fun vc => ?_)
      split
      · exact Res.bind_le (h.body _ _) (fun _ => ih _)
      · exact ih _
      · exact Res.le_refl _

theorem stepBody_le {r r' : Rec} (h : Rec.le r r') (env : Env) (b : Body) :
    Res.le (stepBody r env b) (stepBody r' env b) := by
  cases b with
  | mk ss tail =>
    simp only [stepBody]
    refine Res.bind_le (runStmts_le h env ss) (fun env' => ?_)
    cases tail with
    | ret e => exact h.expr _ _
    | matchT t arms => exact evalMatch_le h _ _ _
    | matchST t arms => exact evalMatchS_le h _ _ _

theorem stepApp_le {r r' : Rec} (h : Rec.le r r') (P : Prog) (f : SVal) (args : List SVal) :
    Res.le (stepApp r P f args) (stepApp r' P f args) := by
  cases f with
  | fo v => exact Res.le_refl _
  | clo ps b cenv =>
    simp only [stepApp]
    split
    · exact h.body _ _
    · exact Res.le_refl _
  | pap f arity given => exact applyFull_le h P f arity _

theorem evalN_le_succ (P : Prog) (n : Nat) : Rec.le (evalN P n) (evalN P (n + 1)) := by
  induction n with
  | zero => exact ⟨fun _ _ _ h => by simp [evalN] at h, fun _ _ _ h => by simp [evalN] at h, fun _ _ _ h => by simp [evalN] at h⟩
  | succ n ih =>
    exact ⟨fun env e => stepExpr_le ih P env e, fun env b => stepBody_le ih env b, fun f a => stepApp_le ih P f a⟩

theorem Rec.le_trans {a b c : Rec} (h1 : Rec.le a b) (h2 : Rec.le b c) : Rec.le a c :=
  ⟨fun env e v hv => h2.expr env e v (h1.expr env e v hv), fun env b v hv => h2.body env b v (h1.body env b v hv),
    fun f a v hv => h2.app f a v (h1.app f a v hv)⟩

theorem evalN_mono (P : Prog) {n m : Nat} (h : n ≤ m) : Rec.le (evalN P n) (evalN P m) := by
  obtain ⟨k, rfl⟩ := Nat.exists_eq_add_of_le h
  induction k with
  | zero => exact ⟨fun _ _ => Res.le_refl _, fun _ _ => Res.le_refl _, fun _ _ => Res.le_refl _⟩
  | succ k ih => exact Rec.le_trans (ih (by omega)) (evalN_le_succ P (n + k))

end Folang.Sem
