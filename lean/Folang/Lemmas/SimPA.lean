import Folang.Lemmas.SimCore
/-
Partial application under `bind` (fc after the fix of D9): the given arguments that are not inert are
evaluated first, in order, into `_p…` bindings; the closure then mentions only atoms.
-/
namespace Folang.Sem
variable {P : Prog} {n : Nat}

theorem pName_toList (i : Nat) : (pName i).toList = '_' :: 'p' :: (toString i).toList := by
  simp [pName, String.toList_append]

theorem isReserved_pName (i : Nat) : isReserved (pName i) = true := by
  simp [isReserved, pName_toList]

theorem pName_inj {i j : Nat} (h : pName i = pName j) : i = j := by
  have h2 : toString i = toString j := by
    have := congrArg String.toList h
    simp only [pName_toList, List.cons.injEq, true_and] at this
    exact String.ext this
  exact Nat.repr_inj.mp h2

theorem pName_not_rest (i n : Nat) : (restNames n).contains (pName i) = false := by
  cases h : (restNames n).contains (pName i) with
  | false => rfl
  | true =>
    simp only [restNames, List.contains_iff_mem, List.mem_map, List.mem_range] at h
    obtain ⟨j, _, hj⟩ := h
    have := congrArg String.toList hj
    simp [pName_toList, String.toList_append] at this

/-- the extra bindings made so far: all named `_p j` with j from `i` on -/
def PExtras (i : Nat) (X : GEnv) : Prop := ∀ q ∈ X, ∃ j, i ≤ j ∧ q.1 = pName j

theorem lookup_pName_skip {X genv : GEnv} {i : Nat} (h : PExtras (i + 1) X) :
    lookup (X ++ genv) (pName i) = lookup genv (pName i) := by
  apply lookup_append_left_none
  intro q hq heq
  obtain ⟨j, hj, hqj⟩ := h q hq
  rw [hqj] at heq
  have := pName_inj heq
  omega

/-- extending the Go-core environment by reserved names keeps it related -/
theorem ERel.extras {md : Bool} {env : Env} {genv : GEnv} (he : ERel md env genv) :
    ∀ (X : GEnv) (i : Nat), PExtras i X → ERel md env (X ++ genv) := by
  intro X
  induction X with
  | nil => intro _ _; simpa using he
  | cons q X ih =>
    intro i hX
    obtain ⟨j, _, hq⟩ := hX q List.mem_cons_self
    obtain ⟨y, gv⟩ := q
    simp only at hq
    subst hq
    exact .extra (isReserved_pName j) (ih i (fun q' hq' => hX q' (List.mem_cons_of_mem _ hq')))

theorem isRName_pName (i : Nat) : isRName (pName i) = false := by
  simp [isRName, pName_toList]

theorem restNames_not_contains {x : String} (h : isRName x = false) (m : Nat) : (restNames m).contains x = false := by
  cases hc : (restNames m).contains x with
  | false => rfl
  | true =>
    simp only [restNames, List.contains_iff_mem, List.mem_map, List.mem_range] at hc
    obtain ⟨j, _, hj⟩ := hc
    rw [← hj, isRName_restName] at h
    cases h

theorem isInertL_cons {a : Expr} {as : List Expr} : isInertL (a :: as) = (isInert a && isInertL as) := by
  rw [isInertL]

theorem paArgs_inert : ∀ (i : Nat) (args : List Expr) (gs : List GExpr), isInertL args = true → args.length = gs.length →
    paArgs i args gs = (gs, [])
  | _, [], [], _, _ => rfl
  | _, [], _ :: _, _, h => by simp at h
  | _, _ :: _, [], _, h => by simp at h
  | i, a :: as, g :: gs, hin, hl => by
    rw [isInertL_cons, Bool.and_eq_true] at hin
    have ih := paArgs_inert (i + 1) as gs hin.2 (by simpa using hl)
    simp only [paArgs, hin.1, if_true, ih]

theorem lowerL_length (md : Bool) : ∀ (es : List Expr), (lowerL md es).length = es.length
  | [] => rfl
  | e :: es => by simp [lowerL, lowerL_length md es]

theorem isInert_prim {p : Prim} {args : List Expr} (h : isInert (.prim p args) = true) :
    (∃ f x, p = .fld f ∧ args = [.var x]) ∨ (∃ u c, p = .ctor u c ∧ args = []) := by
  unfold isInert at h
  split at h
  · rename_i heq; cases heq
  · rename_i heq; cases heq
  · rename_i heq; cases heq; exact Or.inl ⟨_, _, rfl, rfl⟩
  · rename_i heq; cases heq; exact Or.inr ⟨_, _, rfl, rfl⟩
  · rename_i heq; cases heq
  · rename_i heq; cases heq
  · cases h

/-- an inert argument evaluates without output, to the value the closure will see whenever it
evaluates the lowered argument again: a literal, a variable, a field of a variable, a lambda (a closure
over the environment), a partial application of inert arguments (again a closure) -/
theorem sim_inert : ∀ (n : Nat) {a : Expr} {env : Env} {t : Trace} {v : SVal},
    (evalN P n).expr env a = some (t, v) → isInert a = true → wfE true a = true →
    ∀ (m : Nat) {genv : GEnv}, ERel true env genv →
      t = [] ∧ ∃ gv, gpureEvalN n genv (lowerE true a) = some gv ∧ VRel true v gv ∧
        isGAtom (restNames m) (lowerE true a) = true := by
  intro n
  induction n with
  | zero => intro a env t v h; simp [evalN] at h
  | succ k ih =>
    have hlist : ∀ {es : List Expr} {env : Env} {t : Trace} {vs : List SVal},
        evalList (evalN P k).expr env es = some (t, vs) → isInertL es = true → wfL true es = true →
        ∀ (m : Nat) {genv : GEnv}, ERel true env genv →
          t = [] ∧ ∃ gvs, optList (gpureEvalN k genv) (lowerL true es) = some gvs ∧ VRels true vs gvs ∧
            isGAtomL (restNames m) (lowerL true es) = true := by
      intro es
      induction es with
      | nil =>
        intro env t vs h _ _ m genv _
        simp [evalList, Res.pure] at h
        obtain ⟨rfl, rfl⟩ := h
        exact ⟨rfl, [], rfl, .nil, rfl⟩
      | cons e es ihl =>
        intro env t vs h hin hw m genv he
        rw [isInertL_cons, Bool.and_eq_true] at hin
        simp only [wfL, Bool.and_eq_true] at hw
        simp only [evalList] at h
        obtain ⟨t1, v, t2, h1, h2, rfl⟩ := Res.bind_eq_some.mp h
        obtain ⟨t3, vs', t4, h3, h4, rfl⟩ := Res.bind_eq_some.mp h2
        obtain ⟨rfl, rfl⟩ := Res.pure_eq_some.mp h4
        obtain ⟨rfl, gv, hg1, hr1, hp1⟩ := ih h1 hin.1 hw.1 m he
        obtain ⟨rfl, gvs, hg2, hr2, hp2⟩ := ihl h3 hin.2 hw.2 m he
        refine ⟨rfl, gv :: gvs, ?_, .cons hr1 hr2, ?_⟩
        · simp [lowerL, optList, hg1, hg2]
        · simp [lowerL, isGAtomL, hp1, hp2]
    intro a env t v h hin hw m genv he
    -- the first-order forms are pure
    have hpureCase : isPureFor (restNames m) a = true →
        t = [] ∧ ∃ gv, gpureEvalN (k + 1) genv (lowerE true a) = some gv ∧ VRel true v gv ∧
          isGPureFor (restNames m) (lowerE true a) = true := fun hp => sim_pure (restNames m) (k + 1) h hp hw he
    have hstep : stepExpr (evalN P k) P env a = some (t, v) := h
    cases a with
    | lit l =>
      obtain ⟨ht, gv, hg, hr, hp⟩ := hpureCase rfl
      exact ⟨ht, gv, hg, hr, by simpa [lowerE, isGAtom] using hp⟩
    | var x =>
      have hnr : isReserved x = false := by simpa [wfE] using hw
      have hc := restNames_not_contains (isRName_of_not_reserved hnr) m
      obtain ⟨ht, gv, hg, hr, hp⟩ := hpureCase (by simpa [isPureFor] using hc)
      exact ⟨ht, gv, hg, hr, by simpa [lowerE, isGAtom] using hp⟩
    | prim p args =>
      rcases isInert_prim hin with ⟨f, x, rfl, rfl⟩ | ⟨u, c, rfl, rfl⟩
      · have hnr : isReserved x = false := by simpa [wfE, wfL] using hw
        have hc := restNames_not_contains (isRName_of_not_reserved hnr) m
        obtain ⟨ht, gv, hg, hr, hp⟩ := hpureCase (by simpa [isPureFor, isPureForL, isSilentPrim] using hc)
        exact ⟨ht, gv, hg, hr, by simpa [lowerE, lowerL, isGAtom] using hp⟩
      · obtain ⟨ht, gv, hg, hr, hp⟩ := hpureCase (by simp [isPureFor, isPureForL, isSilentPrim])
        exact ⟨ht, gv, hg, hr, by simpa [lowerE, lowerL, isGAtom] using hp⟩
    | lam ps b =>
      simp only [stepExpr, Res.pure, Option.some.injEq, Prod.mk.injEq] at hstep
      obtain ⟨rfl, rfl⟩ := hstep
      have hwb : wfB true b = true := by simpa [wfE] using hw
      exact ⟨rfl, .clo ps (lowerB true b) genv, by simp [lowerE, gpureEvalN], .clo hwb he, by simp [lowerE, isGAtom]⟩
    | call f arity args =>
      have hin' : args.length < arity ∧ isInertL args = true := by
        have := hin
        rw [isInert] at this
        simpa using this
      have hwl : wfL true args = true := by
        have := hw
        simp only [wfE, Bool.and_eq_true] at this
        exact this.1
      simp only [stepExpr] at hstep
      obtain ⟨t1, vs, t2, h1, h2, rfl⟩ := Res.bind_eq_some.mp hstep
      have hlen : vs.length = args.length := evalList_length h1
      have hlt : vs.length < arity := by omega
      simp only [hlt, if_true] at h2
      obtain ⟨rfl, rfl⟩ := Res.pure_eq_some.mp h2
      obtain ⟨rfl, gvs, hga, hrv, hall⟩ := hlist h1 hin'.2 hwl (arity - vs.length) he
      have hpa := paArgs_inert 0 args (lowerL true args) hin'.2 (lowerL_length true args).symm
      refine ⟨rfl, .clo (restNames (arity - args.length))
        (.mk [] (.ret (.callFn f (lowerL true args ++ (restNames (arity - args.length)).map GExpr.var)))) genv, ?_, ?_, ?_⟩
      · simp [lowerE, hin'.1, hpa, gpureEvalN]
      · rw [← hlen]
        exact VRel.pap hlt hga hrv hall
      · simp [lowerE, hin'.1, hpa, isGAtom]
    | _ => simp [isInert] at hin

/-- the given arguments of a partial application, from position `i`: running the bindings produces the
output of evaluating the arguments in order, and afterwards the atoms the closure mentions evaluate,
without output, to values related to the arguments' values -/
theorem sim_paArgs (ih : SimAt true P n) (mr : Nat) : ∀ (args : List Expr) (i : Nat) {env : Env} {t : Trace} {vs : List SVal},
    evalList (evalN P n).expr env args = some (t, vs) → wfL true args = true →
    ∀ {genv : GEnv}, ERel true env genv →
      ∃ m X gvs, PExtras i X ∧
        grunStmts (gevalN (lowerProg true P) m) genv (paArgs i args (lowerL true args)).2 = some (t, X ++ genv) ∧
        optList (gpureEvalN n (X ++ genv)) (paArgs i args (lowerL true args)).1 = some gvs ∧ VRels true vs gvs ∧
        isGAtomL (restNames mr) (paArgs i args (lowerL true args)).1 = true := by
  intro args
  induction args with
  | nil =>
    intro i env t vs h _ genv _
    simp [evalList, Res.pure] at h
    obtain ⟨rfl, rfl⟩ := h
    refine ⟨0, [], [], ?_, rfl, rfl, VRels.nil, rfl⟩
    intro q hq; cases hq
  | cons a as iha =>
    intro i env t vs h hw genv he
    simp only [wfL, Bool.and_eq_true] at hw
    simp only [evalList] at h
    obtain ⟨t1, v, t2, h1, h2, rfl⟩ := Res.bind_eq_some.mp h
    obtain ⟨t3, vs', t4, h3, h4, rfl⟩ := Res.bind_eq_some.mp h2
    obtain ⟨rfl, rfl⟩ := Res.pure_eq_some.mp h4
    by_cases hin : isInert a = true
    · -- an inert argument stays inside the closure: no output now, same value later
      obtain ⟨m, X, gvs, hX, hrun, hat, hrel, hgp⟩ := iha (i + 1) h3 hw.2 he
      have heX := ERel.extras he X (i + 1) hX
      obtain ⟨rfl, gv, hg1, hr1, hp1⟩ := sim_inert n h1 hin hw.1 mr heX
      refine ⟨m, X, gv :: gvs, fun q hq => ?_, ?_, ?_, .cons hr1 hrel, ?_⟩
      · obtain ⟨j, hj, hqj⟩ := hX q hq; exact ⟨j, by omega, hqj⟩
      · simpa [lowerL, paArgs, hin] using hrun
      · simp [lowerL, paArgs, hin, optList, hg1, hat]
      · simp [lowerL, paArgs, hin, isGAtomL, hp1, hgp]
    · -- any other argument is evaluated now and bound to `_p i`
      have hin' : isInert a = false := by simpa using hin
      obtain ⟨m1, gv, hg1, hr1⟩ := ih.expr h1 hw.1 he
      have he1 : ERel true env ((pName i, gv) :: genv) := .extra (isReserved_pName i) he
      obtain ⟨m2, X, gvs, hX, hrun, hat, hrel, hgp⟩ := iha (i + 1) h3 hw.2 he1
      have hn : 0 < n := by
        cases n with
        | zero => simp [evalN] at h1
        | succ k => omega
      refine ⟨m1 + m2, X ++ [(pName i, gv)], gv :: gvs, fun q hq => ?_, ?_, ?_, .cons hr1 hrel, ?_⟩
      · simp only [List.mem_append, List.mem_singleton] at hq
        rcases hq with hq | rfl
        · obtain ⟨j, hj, hqj⟩ := hX q hq; exact ⟨j, by omega, hqj⟩
        · exact ⟨i, Nat.le_refl _, rfl⟩
      · simp only [lowerL, paArgs, hin', Bool.false_eq_true, if_false, grunStmts]
        refine Res.bind_eq_some.mpr ⟨t1, gv, t3 ++ [], g_lift_expr _ (by omega) hg1, ?_, rfl⟩
        have := grunStmts_le (gevalN_mono (lowerProg true P) (show m2 ≤ m1 + m2 by omega)) _ _ _ hrun
        simpa [List.append_assoc] using this
      · have hlook : lookup ((X ++ [(pName i, gv)]) ++ genv) (pName i) = some gv := by
          rw [List.append_assoc, lookup_pName_skip hX]
          simp [lookup]
        cases n with
        | zero => omega
        | succ k =>
          simp only [lowerL, paArgs, hin', Bool.false_eq_true, if_false, optList, gpureEvalN, hlook]
          simp only [List.append_assoc, List.singleton_append] at hat ⊢
          rw [hat]
      · simp only [lowerL, paArgs, hin', Bool.false_eq_true, if_false, isGAtomL, isGAtom, isGPureFor,
          pName_not_rest i mr, isRName_pName i, Bool.not_false, Bool.and_self, Bool.true_and]
        exact hgp

end Folang.Sem
