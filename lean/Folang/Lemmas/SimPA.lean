import Folang.Lemmas.SimCore
/-
Partial application under `bind` (fc after the fix of D9): the given arguments that are not inert are
evaluated first, in order, into `_p…` bindings; the closure then mentions only atoms.
-/
namespace Folang.Sem
variable {P : Prog} {n : Nat}

theorem pName_toList (i : Nat) : (pName i).toList = '_' :: 'p' :: (toString i).toList := by
  simp [pName, String.toList_append]

theorem isReserved_pName (i : Nat) : isReserved (pName i) = true := by
  simp [isReserved, pName_toList]

theorem pName_inj {i j : Nat} (h : pName i = pName j) : i = j := by
  have h2 : toString i = toString j := by
    have := congrArg String.toList h
    simp only [pName_toList, List.cons.injEq, true_and] at this
    exact String.ext this
  exact Nat.repr_inj.mp h2

theorem pName_not_rest (i n : Nat) : (restNames n).contains (pName i) = false := by
  cases h : (restNames n).contains (pName i) with
  | false => rfl
  | true =>
    simp only [restNames, List.contains_iff_mem, List.mem_map, List.mem_range] at h
    obtain ⟨j, _, hj⟩ := h
    have := congrArg String.toList hj
    simp [pName_toList, String.toList_append] at this

/-- the extra bindings made so far: all named `_p j` with j from `i` on -/
def PExtras (i : Nat) (X : GEnv) : Prop := ∀ q ∈ X, ∃ j, i ≤ j ∧ q.1 = pName j

theorem lookup_pName_skip {X genv : GEnv} {i : Nat} (h : PExtras (i + 1) X) :
    lookup (X ++ genv) (pName i) = lookup genv (pName i) := by
  apply lookup_append_left_none
  intro q hq heq
  obtain ⟨j, hj, hqj⟩ := h q hq
  rw [hqj] at heq
  have := pName_inj heq
  omega

/-- extending the Go-core environment by reserved names keeps it related -/
theorem ERel.extras {md : Bool} {env : Env} {genv : GEnv} (he : ERel md env genv) :
    ∀ (X : GEnv) (i : Nat), PExtras i X → ERel md env (X ++ genv) := by
  intro X
  induction X with
  | nil => intro _ _; simpa using he
  | cons q X ih =>
    intro i hX
    obtain ⟨j, _, hq⟩ := hX q List.mem_cons_self
    obtain ⟨y, gv⟩ := q
    simp only at hq
    subst hq
    exact .extra (isReserved_pName j) (ih i (fun q' hq' => hX q' (List.mem_cons_of_mem _ hq')))

/-- the given arguments of a partial application, from position `i`: running the bindings produces the
output of evaluating the arguments in order, and afterwards the atoms the closure mentions evaluate,
without output, to values related to the arguments' values -/
theorem sim_paArgs (ih : SimAt true P n) (rs : List String) (hrs : ∀ i, rs.contains (pName i) = false) : ∀ (args : List Expr) (i : Nat) {env : Env} {t : Trace} {vs : List SVal},
    evalList (evalN P n).expr env args = some (t, vs) → wfL true args = true → paOK rs args = true →
    ∀ {genv : GEnv}, ERel true env genv →
      ∃ m X gvs, PExtras i X ∧
        grunStmts (gevalN (lowerProg true P) m) genv (paArgs i args (lowerL true args)).2 = some (t, X ++ genv) ∧
        optList (gpureEvalN n (X ++ genv)) (paArgs i args (lowerL true args)).1 = some gvs ∧ VRels true vs gvs ∧
        isGPureForL rs (paArgs i args (lowerL true args)).1 = true := by
  intro args
  induction args with
  | nil =>
    intro i env t vs h _ _ genv _
    simp [evalList, Res.pure] at h
    obtain ⟨rfl, rfl⟩ := h
    refine ⟨0, [], [], ?_, rfl, rfl, VRels.nil, rfl⟩
    intro q hq; cases hq
  | cons a as iha =>
    intro i env t vs h hw hok genv he
    simp only [wfL, Bool.and_eq_true] at hw
    simp only [paOK, Bool.and_eq_true] at hok
    simp only [evalList] at h
    obtain ⟨t1, v, t2, h1, h2, rfl⟩ := Res.bind_eq_some.mp h
    obtain ⟨t3, vs', t4, h3, h4, rfl⟩ := Res.bind_eq_some.mp h2
    obtain ⟨rfl, rfl⟩ := Res.pure_eq_some.mp h4
    by_cases hin : isInert a = true
    · -- an inert argument stays inside the closure: no output now, same value later
      have hpure : isPureFor rs a = true := by simpa [hin] using hok.1
      obtain ⟨m, X, gvs, hX, hrun, hat, hrel, hgp⟩ := iha (i + 1) h3 hw.2 hok.2 he
      have heX := ERel.extras he X (i + 1) hX
      obtain ⟨rfl, gv, hg1, hr1, hp1⟩ := sim_pure rs n h1 hpure hw.1 heX
      refine ⟨m, X, gv :: gvs, fun q hq => ?_, ?_, ?_, .cons hr1 hrel, ?_⟩
      · obtain ⟨j, hj, hqj⟩ := hX q hq; exact ⟨j, by omega, hqj⟩
      · simpa [lowerL, paArgs, hin] using hrun
      · simp [lowerL, paArgs, hin, optList, hg1, hat]
      · simp [lowerL, paArgs, hin, isGPureForL, hp1, hgp]
    · -- any other argument is evaluated now and bound to `_p i`
      have hin' : isInert a = false := by simpa using hin
      obtain ⟨m1, gv, hg1, hr1⟩ := ih.expr h1 hw.1 he
      have he1 : ERel true env ((pName i, gv) :: genv) := .extra (isReserved_pName i) he
      obtain ⟨m2, X, gvs, hX, hrun, hat, hrel, hgp⟩ := iha (i + 1) h3 hw.2 hok.2 he1
      have hn : 0 < n := by
        cases n with
        | zero => simp [evalN] at h1
        | succ k => omega
      refine ⟨m1 + m2, X ++ [(pName i, gv)], gv :: gvs, fun q hq => ?_, ?_, ?_, .cons hr1 hrel, ?_⟩
      · simp only [List.mem_append, List.mem_singleton] at hq
        rcases hq with hq | rfl
        · obtain ⟨j, hj, hqj⟩ := hX q hq; exact ⟨j, by omega, hqj⟩
        · exact ⟨i, Nat.le_refl _, rfl⟩
      · simp only [lowerL, paArgs, hin', Bool.false_eq_true, if_false, grunStmts]
        refine Res.bind_eq_some.mpr ⟨t1, gv, t3 ++ [], g_lift_expr _ (by omega) hg1, ?_, rfl⟩
        have := grunStmts_le (gevalN_mono (lowerProg true P) (show m2 ≤ m1 + m2 by omega)) _ _ _ hrun
        simpa [List.append_assoc] using this
      · have hlook : lookup ((X ++ [(pName i, gv)]) ++ genv) (pName i) = some gv := by
          rw [List.append_assoc, lookup_pName_skip hX]
          simp [lookup]
        cases n with
        | zero => omega
        | succ k =>
          simp only [lowerL, paArgs, hin', Bool.false_eq_true, if_false, optList, gpureEvalN, hlook]
          simp only [List.append_assoc, List.singleton_append] at hat ⊢
          rw [hat]
      · simp only [lowerL, paArgs, hin', Bool.false_eq_true, if_false, isGPureForL, isGPureFor, hrs i,
          Bool.not_false, Bool.true_and]
        exact hgp

end Folang.Sem
