import Folang.Lemmas.SimMono
/-
The simulation relation between source values / environments and Go-core values / environments, the
well-formedness predicate on source programs, and their basic lemmas.
-/
namespace Folang.Sem

/-! ### well-formedness of source programs (the hypotheses of the theorem) -/

/-- primitives that produce no output -/
def isSilentPrim : Prim → Bool
  | .println => false
  | .printf1 => false
  | _ => true

/- an effect-free argument of a partial application: built from literals, variables that the
closure's parameters `rs` do not capture, and output-free primitives (constructors, operators, …).
(Known finding D9: with an effectful argument expression the lowering is NOT faithful;
Props/C01.papp_effects_late.) -/
mutual
def isPureFor (rs : List String) : Expr → Bool
  | .lit _ => true
  | .var x => !rs.contains x
  | .prim p args => isSilentPrim p && isPureForL rs args
  | _ => false
def isPureForL (rs : List String) : List Expr → Bool
  | [] => true
  | e :: es => isPureFor rs e && isPureForL rs es
end

/-- the parameters the compiler makes up for the closure of a partial application: `_r…` -/
def isRName (x : String) : Bool :=
  match x.toList with
  | '_' :: 'r' :: _ => true
  | _ => false

/-- names the compiler makes up: `_p…` (bindings of evaluated given arguments) and `_r…` -/
def isReserved (x : String) : Bool :=
  match x.toList with
  | '_' :: 'p' :: _ => true
  | '_' :: 'r' :: _ => true
  | _ => false

mutual
def wfE (bind : Bool) : Expr → Bool
  | .lit _ => true
  | .var x => !isReserved x
  | .prim _ args => wfL bind args
  | .and a b => wfE bind a && wfE bind b
  | .or a b => wfE bind a && wfE bind b
  | .ite c t f => wfE bind c && wfB bind t && wfB bind f
  | .call _ arity args =>
    wfL bind args &&
      (if args.length < arity then
        (if bind then true
         else isPureForL (restNames (arity - args.length)) args)
       else true)
  | .callv f args => wfE bind f && wfL bind args
  | .lam _ b => wfB bind b
  | .pipe a f => wfE bind a && wfE bind f
  | .hof _ f args => wfE bind f && wfL bind args
  | .matchE t arms => wfE bind t && wfArms bind arms
  | .matchSE t arms => wfE bind t && wfSArms bind arms
def wfL (bind : Bool) : List Expr → Bool
  | [] => true
  | e :: es => wfE bind e && wfL bind es
def wfB (bind : Bool) : Body → Bool
  | .mk ss tail => wfSs bind ss && wfT bind tail
def wfT (bind : Bool) : Tail → Bool
  | .ret e => wfE bind e
  | .matchT t arms => wfE bind t && wfArms bind arms
  | .matchST t arms => wfE bind t && wfSArms bind arms
def wfSs (bind : Bool) : List Stmt → Bool
  | [] => true
  | s :: ss => wfS bind s && wfSs bind ss
def wfS (bind : Bool) : Stmt → Bool
  | .let1 _ e => wfE bind e
  | .let2 _ _ e => wfE bind e
  | .exec e => wfE bind e
  | .ifonly c b => wfE bind c && wfB bind b
def wfArms (bind : Bool) : List Arm → Bool
  | [] => true
  | .mk _ _ b :: rest => wfB bind b && wfArms bind rest
def wfSArms (bind : Bool) : List SArm → Bool
  | [] => true
  | .mk _ b :: rest => wfB bind b && wfSArms bind rest
end

def wfProg (bind : Bool) (P : Prog) : Prop := ∀ d ∈ P, wfB bind d.body = true

/-- the decision procedure the oracle runs on every program -/
def wfProgB (bind : Bool) (P : Prog) : Bool := P.all (fun d => wfB bind d.body)

theorem wfProgB_iff (bind : Bool) (P : Prog) : wfProgB bind P = true ↔ wfProg bind P := by
  simp [wfProgB, wfProg, List.all_eq_true]

/-! ### the relation -/

/-- a list of optional results -/
def optList {α β : Type} (f : α → Option β) : List α → Option (List β)
  | [] => some []
  | e :: es => match f e, optList f es with
    | some v, some vs => some (v :: vs)
    | _, _ => none

/-- evaluation of the (lowered) inert given arguments of a partial application in the closure's
environment (a function literal evaluates to a closure over it); the fuel `k` bounds the nesting depth -/
def gpureEvalN : Nat → GEnv → GExpr → Option GVal
  | 0, _, _ => none
  | _ + 1, _, .lit l => some (.fo (.lit l))
  | _ + 1, genv, .var x => lookup genv x
  | k + 1, genv, .prim p args =>
    match optList (gpureEvalN k genv) args with
    | some vs =>
      match gtoFOs vs with
      | some fos => (primFO p fos).map (fun r => GVal.fo r.2)
      | none => none
    | none => none
  | _ + 1, genv, .funcLit ps b => some (.clo ps b genv)
  | _ + 1, _, _ => none

mutual
def isGPureFor (rs : List String) : GExpr → Bool
  | .lit _ => true
  | .var x => !rs.contains x && !isRName x
  | .prim p args => isSilentPrim p && isGPureForL rs args
  | _ => false
def isGPureForL (rs : List String) : List GExpr → Bool
  | [] => true
  | e :: es => isGPureFor rs e && isGPureForL rs es
end

/-- what the closure of a partial application mentions for a given argument: a pure first-order
expression (literal, variable, bound `_p…`, field of a variable) or a function literal (a lambda or a
partial application of inert arguments, which only builds a closure) -/
def isGAtom (rs : List String) : GExpr → Bool
  | .funcLit _ _ => true
  | e => isGPureFor rs e
def isGAtomL (rs : List String) : List GExpr → Bool
  | [] => true
  | e :: es => isGAtom rs e && isGAtomL rs es

mutual
inductive VRel (bind : Bool) : SVal → GVal → Prop where
  | fo (v : FO) : VRel bind (.fo v) (.fo v)
  | clo {ps : List String} {b : Body} {env : Env} {genv : GEnv} :
      wfB bind b = true → ERel bind env genv → VRel bind (.clo ps b env) (.clo ps (lowerB bind b) genv)
  | pap {f : String} {arity : Nat} {vs : List SVal} {ges : List GExpr} {gvs : List GVal} {genv : GEnv} :
      {k : Nat} → vs.length < arity → optList (gpureEvalN k genv) ges = some gvs → VRels bind vs gvs →
      isGAtomL (restNames (arity - vs.length)) ges = true →
      VRel bind (.pap f arity vs)
        (.clo (restNames (arity - vs.length))
          (.mk [] (.ret (.callFn f (ges ++ (restNames (arity - vs.length)).map GExpr.var)))) genv)
inductive VRels (bind : Bool) : List SVal → List GVal → Prop where
  | nil : VRels bind [] []
  | cons {v : SVal} {gv : GVal} {vs : List SVal} {gvs : List GVal} : VRel bind v gv → VRels bind vs gvs → VRels bind (v :: vs) (gv :: gvs)
/-- related environments; the Go-core side may hold extra bindings of reserved names (the `_p…` of
evaluated given arguments), which no source variable refers to -/
inductive ERel (bind : Bool) : Env → GEnv → Prop where
  | nil : ERel bind [] []
  | cons {x : String} {v : SVal} {gv : GVal} {env : Env} {genv : GEnv} :
      VRel bind v gv → ERel bind env genv → ERel bind ((x, v) :: env) ((x, gv) :: genv)
  | extra {y : String} {gv : GVal} {env : Env} {genv : GEnv} :
      isReserved y = true → ERel bind env genv → ERel bind env ((y, gv) :: genv)
end

variable {bind : Bool}

theorem VRel.toFO {v : SVal} {gv : GVal} (h : VRel bind v gv) : v.toFO = gv.toFO := by
  cases h <;> rfl

theorem VRel.fo_left {x : FO} {gv : GVal} (h : VRel bind (.fo x) gv) : gv = .fo x := by
  cases h; rfl

theorem VRels.length {vs : List SVal} {gvs : List GVal} (h : VRels bind vs gvs) : vs.length = gvs.length := by
  induction vs generalizing gvs with
  | nil => cases h; rfl
  | cons v vs ih => cases h with | cons _ ht => simp [ih ht]

theorem VRels.toFOs {vs : List SVal} {gvs : List GVal} (h : VRels bind vs gvs) : toFOs vs = gtoFOs gvs := by
  induction vs generalizing gvs with
  | nil => cases h; rfl
  | cons v vs ih =>
    cases h with
    | cons hv ht =>
      rename_i gv gvs
      simp only [Folang.Sem.toFOs, gtoFOs, hv.toFO, ih ht]
      cases gv.toFO <;> cases gtoFOs gvs <;> rfl

theorem VRels.append {as : List SVal} {gas : List GVal} {bs : List SVal} {gbs : List GVal}
    (h1 : VRels bind as gas) (h2 : VRels bind bs gbs) : VRels bind (as ++ bs) (gas ++ gbs) := by
  induction as generalizing gas with
  | nil => cases h1; exact h2
  | cons a as ih => cases h1 with | cons hv ht => exact .cons hv (ih ht)

theorem lookup_cons_ne {α : Type} {y x : String} {a : α} {l : List (String × α)} (h : (y == x) = false) :
    lookup ((y, a) :: l) x = lookup l x := by
  simp [lookup, List.find?_cons, h]

theorem lookup_cons_eq {α : Type} {y x : String} {a : α} {l : List (String × α)} (h : (y == x) = true) :
    lookup ((y, a) :: l) x = some a := by
  simp [lookup, List.find?_cons, h]

/-- a variable that is not a reserved name has related values on both sides -/
theorem ERel.lookup {env : Env} {genv : GEnv} (h : ERel bind env genv) {x : String} {v : SVal}
    (hx : isReserved x = false) (hl : lookup env x = some v) : ∃ gv, lookup genv x = some gv ∧ VRel bind v gv := by
  induction genv generalizing env with
  | nil =>
    cases h
    simp [Folang.Sem.lookup] at hl
  | cons q genv ih =>
    cases h with
    | cons hv he =>
      rename_i y v' gv' env'
      by_cases hxy : (y == x) = true
      · rw [lookup_cons_eq hxy] at hl ⊢
        simp only [Option.some.injEq] at hl
        exact ⟨gv', rfl, hl ▸ hv⟩
      · have hxy' : (y == x) = false := by simpa using hxy
        rw [lookup_cons_ne hxy'] at hl ⊢
        exact ih he hl
    | extra hr he =>
      rename_i y gv'
      have hxy : (y == x) = false := by
        cases hyx : (y == x) with
        | false => rfl
        | true =>
          simp only [beq_iff_eq] at hyx
          subst hyx
          rw [hr] at hx; cases hx
      rw [lookup_cons_ne hxy]
      exact ih he hl

/-- the environment of a call: parameters bound to related arguments, over related closure environments -/
theorem ERel.call : ∀ {ps : List String} {vs : List SVal} {gvs : List GVal} {env : Env} {genv : GEnv},
    VRels bind vs gvs → ERel bind env genv → ERel bind ((ps.zip vs).reverse ++ env) ((ps.zip gvs).reverse ++ genv) := by
  intro ps
  induction ps with
  | nil => intro vs gvs env genv _ he; simpa using he
  | cons p ps ih =>
    intro vs gvs env genv h he
    cases h with
    | nil => simpa using he
    | cons hv ht =>
      simp only [List.zip_cons_cons, List.reverse_cons, List.append_assoc, List.singleton_append]
      exact ih ht (.cons hv he)

theorem VRels.fo (xs : List FO) : VRels bind (xs.map SVal.fo) (xs.map GVal.fo) := by
  induction xs with
  | nil => exact .nil
  | cons x xs ih => exact .cons (.fo x) ih

end Folang.Sem
