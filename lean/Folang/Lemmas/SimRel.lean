import Folang.Lemmas.SimMono
/-
The simulation relation between source values / environments and Go-core values / environments, the
well-formedness predicate on source programs, and their basic lemmas.
-/
namespace Folang.Sem

/-! ### well-formedness of source programs (the hypotheses of the theorem) -/

/-- primitives that produce no output -/
def isSilentPrim : Prim → Bool
  | .println => false
  | .printf1 => false
  | _ => true

/- an effect-free argument of a partial application: built from literals, variables that the
closure's parameters `rs` do not capture, and output-free primitives (constructors, operators, …).
(Known finding D9: with an effectful argument expression the lowering is NOT faithful;
Props/C01.papp_effects_late.) -/
mutual
def isPureFor (rs : List String) : Expr → Bool
  | .lit _ => true
  | .var x => !rs.contains x
  | .prim p args => isSilentPrim p && isPureForL rs args
  | _ => false
def isPureForL (rs : List String) : List Expr → Bool
  | [] => true
  | e :: es => isPureFor rs e && isPureForL rs es
end

mutual
def wfE : Expr → Bool
  | .lit _ => true
  | .var _ => true
  | .prim _ args => wfL args
  | .and a b => wfE a && wfE b
  | .or a b => wfE a && wfE b
  | .ite c t f => wfE c && wfB t && wfB f
  | .call _ arity args =>
    wfL args && (if args.length < arity then isPureForL (restNames (arity - args.length)) args else true)
  | .callv f args => wfE f && wfL args
  | .lam _ b => wfB b
  | .pipe a f => wfE a && wfE f
  | .hof _ f args => wfE f && wfL args
  | .matchE t arms => wfE t && wfArms arms
  | .matchSE t arms => wfE t && wfSArms arms
def wfL : List Expr → Bool
  | [] => true
  | e :: es => wfE e && wfL es
def wfB : Body → Bool
  | .mk ss tail => wfSs ss && wfT tail
def wfT : Tail → Bool
  | .ret e => wfE e
  | .matchT t arms => wfE t && wfArms arms
  | .matchST t arms => wfE t && wfSArms arms
def wfSs : List Stmt → Bool
  | [] => true
  | s :: ss => wfS s && wfSs ss
def wfS : Stmt → Bool
  | .let1 _ e => wfE e
  | .let2 _ _ e => wfE e
  | .exec e => wfE e
  | .ifonly c b => wfE c && wfB b
def wfArms : List Arm → Bool
  | [] => true
  | .mk _ _ b :: rest => wfB b && wfArms rest
def wfSArms : List SArm → Bool
  | [] => true
  | .mk _ b :: rest => wfB b && wfSArms rest
end

def wfProg (P : Prog) : Prop := ∀ d ∈ P, wfB d.body = true

/-- the decision procedure the oracle runs on every program -/
def wfProgB (P : Prog) : Bool := P.all (fun d => wfB d.body)

theorem wfProgB_iff (P : Prog) : wfProgB P = true ↔ wfProg P := by
  simp [wfProgB, wfProg, List.all_eq_true]

/-! ### the relation -/

/-- a list of optional results -/
def optList {α β : Type} (f : α → Option β) : List α → Option (List β)
  | [] => some []
  | e :: es => match f e, optList f es with
    | some v, some vs => some (v :: vs)
    | _, _ => none

/-- evaluation of the (lowered) pure given arguments of a partial application in the closure's
environment; the fuel `k` bounds the nesting depth -/
def gpureEvalN : Nat → GEnv → GExpr → Option GVal
  | 0, _, _ => none
  | _ + 1, _, .lit l => some (.fo (.lit l))
  | _ + 1, genv, .var x => lookup genv x
  | k + 1, genv, .prim p args =>
    match optList (gpureEvalN k genv) args with
    | some vs =>
      match gtoFOs vs with
      | some fos => (primFO p fos).map (fun r => GVal.fo r.2)
      | none => none
    | none => none
  | _ + 1, _, _ => none

mutual
def isGPureFor (rs : List String) : GExpr → Bool
  | .lit _ => true
  | .var x => !rs.contains x
  | .prim p args => isSilentPrim p && isGPureForL rs args
  | _ => false
def isGPureForL (rs : List String) : List GExpr → Bool
  | [] => true
  | e :: es => isGPureFor rs e && isGPureForL rs es
end

mutual
inductive VRel : SVal → GVal → Prop where
  | fo (v : FO) : VRel (.fo v) (.fo v)
  | clo {ps : List String} {b : Body} {env : Env} {genv : GEnv} :
      wfB b = true → ERel env genv → VRel (.clo ps b env) (.clo ps (lowerB b) genv)
  | pap {f : String} {arity : Nat} {vs : List SVal} {ges : List GExpr} {gvs : List GVal} {genv : GEnv} :
      {k : Nat} → vs.length < arity → optList (gpureEvalN k genv) ges = some gvs → VRels vs gvs →
      isGPureForL (restNames (arity - vs.length)) ges = true →
      VRel (.pap f arity vs)
        (.clo (restNames (arity - vs.length))
          (.mk [] (.ret (.callFn f (ges ++ (restNames (arity - vs.length)).map GExpr.var)))) genv)
inductive VRels : List SVal → List GVal → Prop where
  | nil : VRels [] []
  | cons {v : SVal} {gv : GVal} {vs : List SVal} {gvs : List GVal} : VRel v gv → VRels vs gvs → VRels (v :: vs) (gv :: gvs)
inductive ERel : Env → GEnv → Prop where
  | nil : ERel [] []
  | cons {x : String} {v : SVal} {gv : GVal} {env : Env} {genv : GEnv} : VRel v gv → ERel env genv → ERel ((x, v) :: env) ((x, gv) :: genv)
end

theorem VRel.toFO {v : SVal} {gv : GVal} (h : VRel v gv) : v.toFO = gv.toFO := by
  cases h <;> rfl

theorem VRel.fo_left {x : FO} {gv : GVal} (h : VRel (.fo x) gv) : gv = .fo x := by
  cases h; rfl

theorem VRels.length {vs : List SVal} {gvs : List GVal} (h : VRels vs gvs) : vs.length = gvs.length := by
  induction vs generalizing gvs with
  | nil => cases h; rfl
  | cons v vs ih => cases h with | cons _ ht => simp [ih ht]

theorem VRels.toFOs {vs : List SVal} {gvs : List GVal} (h : VRels vs gvs) : toFOs vs = gtoFOs gvs := by
  induction vs generalizing gvs with
  | nil => cases h; rfl
  | cons v vs ih =>
    cases h with
    | cons hv ht =>
      rename_i gv gvs
      simp only [Folang.Sem.toFOs, gtoFOs, hv.toFO, ih ht]
      cases gv.toFO <;> cases gtoFOs gvs <;> rfl

theorem VRels.append {as : List SVal} {gas : List GVal} {bs : List SVal} {gbs : List GVal}
    (h1 : VRels as gas) (h2 : VRels bs gbs) : VRels (as ++ bs) (gas ++ gbs) := by
  induction as generalizing gas with
  | nil => cases h1; exact h2
  | cons a as ih => cases h1 with | cons hv ht => exact .cons hv (ih ht)

theorem ERel.lookup {env : Env} {genv : GEnv} (h : ERel env genv) {x : String} {v : SVal}
    (hl : lookup env x = some v) : ∃ gv, lookup genv x = some gv ∧ VRel v gv := by
  induction env generalizing genv with
  | nil => simp [Folang.Sem.lookup] at hl
  | cons p env ih =>
    cases h with
    | cons hv he =>
      rename_i y v' gv' genv'
      simp only [Folang.Sem.lookup, List.find?_cons] at hl ⊢
      by_cases hxy : (y == x) = true
      · simp only [hxy] at hl ⊢
        simp only [Option.map_some, Option.some.injEq] at hl
        exact ⟨gv', rfl, hl ▸ hv⟩
      · simp only [hxy] at hl ⊢
        exact ih he hl

theorem ERel.append {e1 : Env} {g1 : GEnv} {e2 : Env} {g2 : GEnv} (h1 : ERel e1 g1) (h2 : ERel e2 g2) :
    ERel (e1 ++ e2) (g1 ++ g2) := by
  induction e1 generalizing g1 with
  | nil => cases h1; exact h2
  | cons p e1 ih => cases h1 with | cons hv he => exact .cons hv (ih he)

theorem ERel.reverse {e : Env} {g : GEnv} (h : ERel e g) : ERel e.reverse g.reverse := by
  induction e generalizing g with
  | nil => cases h; exact .nil
  | cons p e ih =>
    cases h with
    | cons hv he =>
      simp only [List.reverse_cons]
      exact ERel.append (ih he) (.cons hv .nil)

theorem ERel.zip {ps : List String} {vs : List SVal} {gvs : List GVal} (h : VRels vs gvs) :
    ERel (ps.zip vs) (ps.zip gvs) := by
  induction ps generalizing vs gvs with
  | nil => simp; exact .nil
  | cons p ps ih =>
    cases h with
    | nil => simp; exact .nil
    | cons hv ht => simp only [List.zip_cons_cons]; exact .cons hv (ih ht)

/-- the environment of a call: parameters bound to related arguments, over related closure environments -/
theorem ERel.call {ps : List String} {vs : List SVal} {gvs : List GVal} {env : Env} {genv : GEnv}
    (h : VRels vs gvs) (he : ERel env genv) : ERel ((ps.zip vs).reverse ++ env) ((ps.zip gvs).reverse ++ genv) :=
  ERel.append (ERel.reverse (ERel.zip h)) he

theorem VRels.fo (xs : List FO) : VRels (xs.map SVal.fo) (xs.map GVal.fo) := by
  induction xs with
  | nil => exact .nil
  | cons x xs ih => exact .cons (.fo x) ih

end Folang.Sem
