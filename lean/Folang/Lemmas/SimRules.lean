import Folang.Lemmas.SimRel
/-
Big-step rules of Go-core derived from `gevalN` (premises at fuel m, conclusion at a fixed larger
fuel), one per shape the lowering produces.
-/
namespace Folang.Sem
variable (GP : GProg)

theorem g_lift_expr {m m' : Nat} {genv : GEnv} {e : GExpr} {r : Trace × GVal} (hle : m ≤ m')
    (h : (gevalN GP m).expr genv e = some r) : (gevalN GP m').expr genv e = some r :=
  (gevalN_mono GP hle).expr genv e r h

theorem g_lift_body {m m' : Nat} {genv : GEnv} {b : GBody} {r : Trace × GVal} (hle : m ≤ m')
    (h : (gevalN GP m).body genv b = some r) : (gevalN GP m').body genv b = some r :=
  (gevalN_mono GP hle).body genv b r h

theorem g_lift_app {m m' : Nat} {f : GVal} {a : List GVal} {r : Trace × GVal} (hle : m ≤ m')
    (h : (gevalN GP m).app f a = some r) : (gevalN GP m').app f a = some r :=
  (gevalN_mono GP hle).app f a r h

theorem g_lift_list {m m' : Nat} {genv : GEnv} {es : List GExpr} {r : Trace × List GVal} (hle : m ≤ m')
    (h : evalList (gevalN GP m).expr genv es = some r) : evalList (gevalN GP m').expr genv es = some r :=
  evalList_le (gevalN_mono GP hle).expr genv es r h

theorem gexpr_succ (n : Nat) : (gevalN GP (n + 1)).expr = gstepExpr (gevalN GP n) GP := rfl
theorem gbody_succ (n : Nat) : (gevalN GP (n + 1)).body = gstepBody (gevalN GP n) := rfl
theorem gapp_succ (n : Nat) : (gevalN GP (n + 1)).app = gstepApp (gevalN GP n) := rfl

theorem g_lit (m : Nat) (genv : GEnv) (l : Lit) : (gevalN GP (m + 1)).expr genv (.lit l) = some ([], .fo (.lit l)) := rfl

theorem g_var {m : Nat} {genv : GEnv} {x : String} {gv : GVal} (h : lookup genv x = some gv) :
    (gevalN GP (m + 1)).expr genv (.var x) = some ([], gv) := by
  rw [gexpr_succ]
  simp [gstepExpr, ofOpt, h]

theorem g_funcLit (m : Nat) (genv : GEnv) (ps : List String) (b : GBody) :
    (gevalN GP (m + 1)).expr genv (.funcLit ps b) = some ([], .clo ps b genv) := rfl

theorem g_prim {m : Nat} {genv : GEnv} {p : Prim} {ges : List GExpr} {t1 t2 : Trace} {gvs : List GVal} {fos : List FO} {v : FO}
    (h1 : evalList (gevalN GP m).expr genv ges = some (t1, gvs)) (h2 : gtoFOs gvs = some fos)
    (h3 : primFO p fos = some (t2, v)) :
    (gevalN GP (m + 1)).expr genv (.prim p ges) = some (t1 ++ t2, .fo v) := by
  rw [gexpr_succ]
  simp [gstepExpr, h1, h2, h3, Res.bind, Res.pure]

theorem g_and_false {m : Nat} {genv : GEnv} {a b : GExpr} {t1 : Trace}
    (h1 : (gevalN GP m).expr genv a = some (t1, .fo (.lit (.bool false)))) :
    (gevalN GP (m + 1)).expr genv (.and a b) = some (t1, .fo (.lit (.bool false))) := by
  rw [gexpr_succ]
  simp [gstepExpr, h1, Res.bind, Res.pure]

theorem g_and_true {m : Nat} {genv : GEnv} {a b : GExpr} {t1 t2 : Trace} {v : GVal}
    (h1 : (gevalN GP m).expr genv a = some (t1, .fo (.lit (.bool true))))
    (h2 : (gevalN GP m).expr genv b = some (t2, v)) :
    (gevalN GP (m + 1)).expr genv (.and a b) = some (t1 ++ t2, v) := by
  rw [gexpr_succ]
  simp [gstepExpr, h1, h2, Res.bind]

theorem g_or_true {m : Nat} {genv : GEnv} {a b : GExpr} {t1 : Trace}
    (h1 : (gevalN GP m).expr genv a = some (t1, .fo (.lit (.bool true)))) :
    (gevalN GP (m + 1)).expr genv (.or a b) = some (t1, .fo (.lit (.bool true))) := by
  rw [gexpr_succ]
  simp [gstepExpr, h1, Res.bind, Res.pure]

theorem g_or_false {m : Nat} {genv : GEnv} {a b : GExpr} {t1 t2 : Trace} {v : GVal}
    (h1 : (gevalN GP m).expr genv a = some (t1, .fo (.lit (.bool false))))
    (h2 : (gevalN GP m).expr genv b = some (t2, v)) :
    (gevalN GP (m + 1)).expr genv (.or a b) = some (t1 ++ t2, v) := by
  rw [gexpr_succ]
  simp [gstepExpr, h1, h2, Res.bind]

/-- calling a parameterless func literal's closure runs its body in the captured environment -/
theorem g_thunk {m : Nat} {genv : GEnv} {b : GBody} {r : Trace × GVal}
    (h : (gevalN GP m).body genv b = some r) : (gevalN GP (m + 1)).app (.clo [] b genv) [] = some r := by
  rw [gapp_succ]
  simp [gstepApp, h]

theorem g_ifElse_true {m : Nat} {genv : GEnv} {c : GExpr} {tb fb : GBody} {t1 t2 : Trace} {v : GVal}
    (h1 : (gevalN GP m).expr genv c = some (t1, .fo (.lit (.bool true))))
    (h2 : (gevalN GP m).body genv tb = some (t2, v)) :
    (gevalN GP (m + 2)).expr genv (.ifElse c (.funcLit [] tb) (.funcLit [] fb)) = some (t1 ++ t2, v) := by
  rw [show m + 2 = (m + 1) + 1 from rfl, gexpr_succ]
  have h1' := g_lift_expr GP (Nat.le_succ m) h1
  simp [gstepExpr, h1', g_funcLit, g_thunk GP h2, Res.bind]

theorem g_ifElse_false {m : Nat} {genv : GEnv} {c : GExpr} {tb fb : GBody} {t1 t2 : Trace} {v : GVal}
    (h1 : (gevalN GP m).expr genv c = some (t1, .fo (.lit (.bool false))))
    (h2 : (gevalN GP m).body genv fb = some (t2, v)) :
    (gevalN GP (m + 2)).expr genv (.ifElse c (.funcLit [] tb) (.funcLit [] fb)) = some (t1 ++ t2, v) := by
  rw [show m + 2 = (m + 1) + 1 from rfl, gexpr_succ]
  have h1' := g_lift_expr GP (Nat.le_succ m) h1
  simp [gstepExpr, h1', g_funcLit, g_thunk GP h2, Res.bind]

theorem g_ifOnly_true {m : Nat} {genv : GEnv} {c : GExpr} {tb : GBody} {t1 t2 : Trace} {v : GVal}
    (h1 : (gevalN GP m).expr genv c = some (t1, .fo (.lit (.bool true))))
    (h2 : (gevalN GP m).body genv tb = some (t2, v)) :
    (gevalN GP (m + 2)).expr genv (.ifOnly c (.funcLit [] tb)) = some (t1 ++ t2, .fo (.lit .unit)) := by
  rw [show m + 2 = (m + 1) + 1 from rfl, gexpr_succ]
  have h1' := g_lift_expr GP (Nat.le_succ m) h1
  simp [gstepExpr, h1', g_funcLit, g_thunk GP h2, Res.bind, Res.pure]

theorem g_ifOnly_false {m : Nat} {genv : GEnv} {c : GExpr} {tb : GBody} {t1 : Trace}
    (h1 : (gevalN GP m).expr genv c = some (t1, .fo (.lit (.bool false)))) :
    (gevalN GP (m + 2)).expr genv (.ifOnly c (.funcLit [] tb)) = some (t1, .fo (.lit .unit)) := by
  rw [show m + 2 = (m + 1) + 1 from rfl, gexpr_succ]
  have h1' := g_lift_expr GP (Nat.le_succ m) h1
  simp [gstepExpr, h1', g_funcLit, Res.bind, Res.pure]

theorem g_callFn {m : Nat} {genv : GEnv} {f : String} {ges : List GExpr} {t1 t2 : Trace} {gvs : List GVal} {d : GFunDef} {v : GVal}
    (h1 : evalList (gevalN GP m).expr genv ges = some (t1, gvs)) (hf : GP.find f = some d)
    (hlen : d.params.length = gvs.length)
    (h2 : (gevalN GP m).body (d.params.zip gvs).reverse d.body = some (t2, v)) :
    (gevalN GP (m + 1)).expr genv (.callFn f ges) = some (t1 ++ t2, v) := by
  rw [gexpr_succ]
  simp [gstepExpr, h1, hf, hlen, h2, Res.bind]

theorem g_callVal {m : Nat} {genv : GEnv} {f : GExpr} {ges : List GExpr} {t1 t2 t3 : Trace} {fv : GVal} {gvs : List GVal} {v : GVal}
    (h1 : (gevalN GP m).expr genv f = some (t1, fv))
    (h2 : evalList (gevalN GP m).expr genv ges = some (t2, gvs))
    (h3 : (gevalN GP m).app fv gvs = some (t3, v)) :
    (gevalN GP (m + 1)).expr genv (.callVal f ges) = some (t1 ++ (t2 ++ t3), v) := by
  rw [gexpr_succ]
  simp [gstepExpr, h1, h2, h3, Res.bind]

theorem g_pipe {m : Nat} {genv : GEnv} {a f : GExpr} {t1 t2 t3 : Trace} {va vf v : GVal}
    (h1 : (gevalN GP m).expr genv a = some (t1, va))
    (h2 : (gevalN GP m).expr genv f = some (t2, vf))
    (h3 : (gevalN GP m).app vf [va] = some (t3, v)) :
    (gevalN GP (m + 1)).expr genv (.pipe a f) = some (t1 ++ (t2 ++ t3), v) := by
  rw [gexpr_succ]
  simp [gstepExpr, h1, h2, h3, Res.bind]

theorem g_app_clo {m : Nat} {ps : List String} {b : GBody} {cenv : GEnv} {args : List GVal} {r : Trace × GVal}
    (hlen : ps.length = args.length)
    (h : (gevalN GP m).body ((ps.zip args).reverse ++ cenv) b = some r) :
    (gevalN GP (m + 1)).app (.clo ps b cenv) args = some r := by
  rw [gapp_succ]
  simp [gstepApp, hlen, h]

/-- an immediately invoked parameterless func literal -/
theorem g_iife {m : Nat} {genv : GEnv} {b : GBody} {r : Trace × GVal}
    (h : (gevalN GP m).body genv b = some r) :
    (gevalN GP (m + 2)).expr genv (.callVal (.funcLit [] b) []) = some r := by
  rw [show m + 2 = (m + 1) + 1 from rfl, gexpr_succ]
  obtain ⟨t, v⟩ := r
  simp [gstepExpr, g_funcLit, evalList, g_thunk GP h, Res.bind, Res.pure]

theorem g_body_ret {m : Nat} {genv genv' : GEnv} {ss : List GStmt} {e : GExpr} {t1 t2 : Trace} {v : GVal}
    (h1 : grunStmts (gevalN GP m) genv ss = some (t1, genv'))
    (h2 : (gevalN GP m).expr genv' e = some (t2, v)) :
    (gevalN GP (m + 1)).body genv (.mk ss (.ret e)) = some (t1 ++ t2, v) := by
  rw [gbody_succ]
  simp [gstepBody, h1, h2, Res.bind]

theorem g_body_switch {m : Nat} {genv genv' : GEnv} {ss : List GStmt} {t : GExpr} {cases : List GCase} {t1 t2 : Trace} {v : GVal}
    (h1 : grunStmts (gevalN GP m) genv ss = some (t1, genv'))
    (h2 : gevalSwitch (gevalN GP m) genv' t cases = some (t2, v)) :
    (gevalN GP (m + 1)).body genv (.mk ss (.switch t cases)) = some (t1 ++ t2, v) := by
  rw [gbody_succ]
  simp [gstepBody, h1, h2, Res.bind]

theorem g_body_switchS {m : Nat} {genv genv' : GEnv} {ss : List GStmt} {t : GExpr} {cases : List GSCase} {t1 t2 : Trace} {v : GVal}
    (h1 : grunStmts (gevalN GP m) genv ss = some (t1, genv'))
    (h2 : gevalSwitchS (gevalN GP m) genv' t cases = some (t2, v)) :
    (gevalN GP (m + 1)).body genv (.mk ss (.switchS t cases)) = some (t1 ++ t2, v) := by
  rw [gbody_succ]
  simp [gstepBody, h1, h2, Res.bind]

end Folang.Sem
