import Folang.Lemmas.SimAux
/-
Weakening: the closure of a partial application may mention function literals (lambdas, partial
applications of inert arguments).  They are evaluated when the closure is CALLED, in an environment
that has the closure's own parameters `_r…` in front of the captured one.  The values differ (they
capture a longer environment) but stay related to the source values.
-/
namespace Folang.Sem
variable {md : Bool}

/-- bindings of `_r…` names only -/
def RExtras (X : GEnv) : Prop := ∀ q ∈ X, isRName q.1 = true

theorem isReserved_of_isRName {x : String} (h : isRName x = true) : isReserved x = true := by
  unfold isRName at h
  unfold isReserved
  split at h
  · rename_i heq; simp [heq]
  · cases h

theorem isRName_of_not_reserved {x : String} (h : isReserved x = false) : isRName x = false := by
  cases hr : isRName x with
  | false => rfl
  | true => rw [isReserved_of_isRName hr] at h; cases h

theorem ERel.rextras {env : Env} {genv : GEnv} (he : ERel md env genv) : ∀ (X : GEnv), RExtras X → ERel md env (X ++ genv) := by
  intro X
  induction X with
  | nil => intro _; simpa using he
  | cons q X ih =>
    intro hX
    obtain ⟨y, gv⟩ := q
    exact .extra (isReserved_of_isRName (hX (y, gv) List.mem_cons_self))
      (ih (fun q' hq' => hX q' (List.mem_cons_of_mem _ hq')))

theorem lookup_rextras {X genv : GEnv} (hX : RExtras X) {x : String} (hx : isRName x = false) :
    lookup (X ++ genv) x = lookup genv x := by
  apply lookup_append_left_none
  intro q hq heq
  have := hX q hq
  rw [heq, hx] at this
  cases this

/-- a pure first-order atom does not see the extra `_r…` bindings -/
theorem gpure_rextras {X genv : GEnv} (hX : RExtras X) (rs : List String) :
    ∀ (k : Nat) (e : GExpr), isGPureFor rs e = true → gpureEvalN k (X ++ genv) e = gpureEvalN k genv e := by
  intro k
  induction k with
  | zero => intro e _; rfl
  | succ k ih =>
    have hlist : ∀ (es : List GExpr), isGPureForL rs es = true →
        optList (gpureEvalN k (X ++ genv)) es = optList (gpureEvalN k genv) es := by
      intro es
      induction es with
      | nil => intro _; rfl
      | cons e es ihl =>
        intro hp
        simp only [isGPureForL, Bool.and_eq_true] at hp
        simp only [optList, ih e hp.1, ihl hp.2]
    intro e hp
    cases e with
    | lit l => rfl
    | var x =>
      simp only [isGPureFor, Bool.and_eq_true, Bool.not_eq_true'] at hp
      simp only [gpureEvalN]
      exact lookup_rextras hX hp.2
    | prim p args =>
      simp only [isGPureFor, Bool.and_eq_true] at hp
      simp only [gpureEvalN, hlist args hp.2]
    | _ => simp [isGPureFor] at hp

/-- the same closure over an environment extended by `_r…` bindings -/
def weakV (X : GEnv) : GVal → GVal
  | .clo ps b genv => .clo ps b (X ++ genv)
  | v => v

/-- the value of an atom in the extended environment -/
def atomWeak (X : GEnv) (e : GExpr) (gv : GVal) : GVal :=
  match e with
  | .funcLit _ _ => weakV X gv
  | _ => gv

def atomsWeak (X : GEnv) : List GExpr → List GVal → List GVal
  | e :: es, gv :: gvs => atomWeak X e gv :: atomsWeak X es gvs
  | _, _ => []

mutual
theorem VRel.weakR {X : GEnv} (hX : RExtras X) : ∀ {v : SVal} {gv : GVal}, VRel md v gv → VRel md v (weakV X gv)
  | _, _, .fo x => .fo x
  | _, _, .clo hw he => .clo hw (he.rextras X hX)
  | _, _, .pap (ges := ges) (k := k) hlt hga hvs hall =>
    have h := VRels.atomsWeakR hX k ges hvs hga hall
    .pap (k := k) hlt h.1 h.2 hall
theorem VRels.atomsWeakR {X : GEnv} (hX : RExtras X) (k : Nat) {rs : List String} {genv : GEnv} :
    ∀ (ges : List GExpr) {vs : List SVal} {gvs : List GVal}, VRels md vs gvs →
      optList (gpureEvalN k genv) ges = some gvs → isGAtomL rs ges = true →
      optList (gpureEvalN k (X ++ genv)) ges = some (atomsWeak X ges gvs) ∧ VRels md vs (atomsWeak X ges gvs)
  | [], _, _, .nil, _, _ => ⟨rfl, .nil⟩
  | [], _, _, .cons _ _, h, _ => by simp [optList] at h
  | e :: es, _, _, .nil, h, _ => by
    simp only [optList] at h
    split at h <;> simp at h
  | e :: es, _, _, .cons (gv := gv) (gvs := gvs) hv hvs, h, hall => by
    simp only [isGAtomL, Bool.and_eq_true] at hall
    simp only [optList] at h
    cases he : gpureEvalN k genv e with
    | none => simp [he] at h
    | some gv0 =>
      cases hes : optList (gpureEvalN k genv) es with
      | none => simp [he, hes] at h
      | some gvs0 =>
        simp only [he, hes, Option.some.injEq, List.cons.injEq] at h
        obtain ⟨rfl, rfl⟩ := h
        have ih := VRels.atomsWeakR hX k es hvs hes hall.2
        cases e with
        | funcLit ps b =>
          cases k with
          | zero => simp [gpureEvalN] at he
          | succ k' =>
            simp only [gpureEvalN, Option.some.injEq] at he
            subst he
            refine ⟨?_, .cons (VRel.weakR hX hv) ih.2⟩
            simp only [optList, gpureEvalN, ih.1, atomsWeak, atomWeak, weakV]
        | lit l =>
          have hp : isGPureFor rs (.lit l) = true := by simpa [isGAtom] using hall.1
          refine ⟨?_, .cons hv ih.2⟩
          simp only [optList, gpure_rextras hX rs k _ hp, he, ih.1, atomsWeak, atomWeak]
        | var x =>
          have hp : isGPureFor rs (.var x) = true := by simpa [isGAtom] using hall.1
          refine ⟨?_, .cons hv ih.2⟩
          simp only [optList, gpure_rextras hX rs k _ hp, he, ih.1, atomsWeak, atomWeak]
        | prim p args =>
          have hp : isGPureFor rs (.prim p args) = true := by simpa [isGAtom] using hall.1
          refine ⟨?_, .cons hv ih.2⟩
          simp only [optList, gpure_rextras hX rs k _ hp, he, ih.1, atomsWeak, atomWeak]
        | _ => simp [isGAtom, isGPureFor] at hall
end

end Folang.Sem

namespace Folang.Sem
variable {md : Bool}

theorem isRName_restName (i : Nat) : isRName ("_r" ++ toString i) = true := by
  simp [isRName, String.toList_append]

theorem rextras_call (n : Nat) (gargs : List GVal) : RExtras (((restNames n).zip gargs).reverse) := by
  intro q hq
  have hmem : q.1 ∈ restNames n := zip_keys (List.mem_reverse.mp hq)
  simp only [restNames, List.mem_map, List.mem_range] at hmem
  obtain ⟨i, _, hi⟩ := hmem
  rw [← hi]
  exact isRName_restName i

/-- the atoms of a partial application's closure, evaluated when the closure is called: no output,
values related to the given arguments' values -/
theorem geval_atoms (GP : GProg) (n : Nat) (gargs : List GVal) (genv : GEnv) (k : Nat) :
    ∀ (ges : List GExpr) {vs : List SVal} {gvs : List GVal}, VRels md vs gvs →
      optList (gpureEvalN k genv) ges = some gvs → isGAtomL (restNames n) ges = true →
      ∃ gvs', evalList (gevalN GP (k + 1)).expr (((restNames n).zip gargs).reverse ++ genv) ges = some ([], gvs') ∧
        VRels md vs gvs' := by
  intro ges
  induction ges with
  | nil =>
    intro vs gvs hv h _
    simp [optList] at h
    subst h
    cases hv
    exact ⟨[], rfl, .nil⟩
  | cons e es ihl =>
    intro vs gvs hv h hall
    simp only [isGAtomL, Bool.and_eq_true] at hall
    simp only [optList] at h
    cases he : gpureEvalN k genv e with
    | none => simp [he] at h
    | some gv =>
      cases hes : optList (gpureEvalN k genv) es with
      | none => simp [he, hes] at h
      | some gvs0 =>
        simp only [he, hes, Option.some.injEq] at h
        subst h
        cases hv with
        | cons hv1 hvs =>
          rename_i v1 vs1
          obtain ⟨gvs', hev, hrel⟩ := ihl hvs hes hall.2
          have hpureCase : isGPureFor (restNames n) e = true →
              ∃ gvs'', evalList (gevalN GP (k + 1)).expr (((restNames n).zip gargs).reverse ++ genv) (e :: es) = some ([], gvs'') ∧
                VRels md (v1 :: vs1) gvs'' := by
            intro hp
            have h1 := g_lift_expr GP (show k ≤ k + 1 by omega) (geval_pure GP (restNames n) gargs genv k e gv he hp)
            refine ⟨gv :: gvs', ?_, .cons hv1 hrel⟩
            simp only [evalList]
            exact Res.bind_eq_some.mpr ⟨[], gv, [], h1, Res.bind_eq_some.mpr ⟨[], gvs', [], hev, rfl, rfl⟩, rfl⟩
          cases e with
          | funcLit ps b =>
            cases k with
            | zero => simp [gpureEvalN] at he
            | succ k' =>
              simp only [gpureEvalN, Option.some.injEq] at he
              subst he
              refine ⟨.clo ps b (((restNames n).zip gargs).reverse ++ genv) :: gvs', ?_,
                .cons (VRel.weakR (rextras_call n gargs) hv1) hrel⟩
              simp only [evalList]
              exact Res.bind_eq_some.mpr ⟨[], _, [], g_funcLit GP (k' + 1) _ ps b,
                Res.bind_eq_some.mpr ⟨[], gvs', [], hev, rfl, rfl⟩, rfl⟩
          | lit l => exact hpureCase (by simpa [isGAtom] using hall.1)
          | var x => exact hpureCase (by simpa [isGAtom] using hall.1)
          | prim p args => exact hpureCase (by simpa [isGAtom] using hall.1)
          | _ => simp [isGAtom, isGPureFor] at hall

theorem isGAtomL_of_pure {rs : List String} : ∀ {es : List GExpr}, isGPureForL rs es = true → isGAtomL rs es = true
  | [], _ => rfl
  | e :: es, h => by
    simp only [isGPureForL, Bool.and_eq_true] at h
    simp only [isGAtomL, Bool.and_eq_true]
    refine ⟨?_, isGAtomL_of_pure h.2⟩
    cases e <;> simp_all [isGAtom, isGPureFor]

end Folang.Sem
