import Folang.Lemmas.GoSlice
/-
Per-function lemmas for the model of pkg/slice: each function, on valid arguments in its
domain, returns `.ok (r, h')` with `Ext h h'` (no existing array changed), `Valid h' r`, and
`read h' r = <list specification>`; outside its domain it panics as the Go code does.
-/
namespace Folang.GoSlice
variable {α : Type}

/-- result-building loops: invariant "everything below `h.length` is untouched, the accumulator
is fresh, valid, and holds `acc`" -/
def BInv (h : Heap α) (acc : List α) (st : St α) : Prop :=
  AgreeBelow h.length h st.2 ∧ Fresh h.length st.1 ∧ Valid st.2 st.1 ∧ read st.2 st.1 = acc

/-- post-condition shape shared by all slice-returning functions -/
def Post (h : Heap α) (res : Except Panic (St α)) (spec : List α) : Prop :=
  ∃ r h', res = .ok (r, h') ∧ Ext h h' ∧ Valid h' r ∧ read h' r = spec

theorem BInv.init (h : Heap α) : BInv h [] (.nil, h) :=
  ⟨AgreeBelow.refl _ _, trivial, trivial, rfl⟩

theorem BInv.append [Inhabited α] (g : Growth) {h : Heap α} {acc : List α} {st : St α} (xs : List α)
    (inv : BInv h acc st) : BInv h (acc ++ xs) (appendN g st.2 st.1 xs) := by
  obtain ⟨ag, fr, v, rd⟩ := inv
  have f := appendN_frame g h.length st.2 st.1 xs ag.1 fr
  have r := appendN_read g st.2 st.1 xs v
  exact ⟨ag.trans f.1, f.2, r.1, by rw [r.2, rd]⟩

theorem BInv.post {h : Heap α} {acc : List α} {r : Slice} {h' : Heap α} (inv : BInv h acc (r, h')) :
    Ext h h' ∧ Valid h' r ∧ read h' r = acc := ⟨inv.1, inv.2.2.1, inv.2.2.2⟩

theorem BInv.toPost {h : Heap α} {acc : List α} {st : St α} (inv : BInv h acc st) :
    Post h (.ok st) acc := ⟨st.1, st.2, rfl, inv.1, inv.2.2.1, inv.2.2.2⟩

theorem Post.congr_spec {h : Heap α} {res : Except Panic (St α)} {a b : List α} (p : Post h res a) (e : a = b) :
    Post h res b := e ▸ p

theorem BInv.getAt {h : Heap α} {acc : List α} {st : St α} (inv : BInv h acc st) {s : Slice}
    (v : Valid h s) (i : Nat) : getAt st.2 s i = getAt h s i := by
  simp only [GoSlice.getAt, read_ext inv.1 v]

theorem take_succ_of_getElem? {l : List α} {i : Nat} {e : α} (h : l[i]? = some e) :
    l.take (i + 1) = l.take i ++ [e] := by
  rw [List.take_add_one, h]; rfl

/-- generic builder loop over a whole slice: the result is the concatenation of `F i e` -/
theorem builder_range (h : Heap α) (s : Slice) (v : Valid h s)
    (body : Nat → α → St α → Except Panic (St α)) (spec : Nat → List α)
    (hspec0 : spec 0 = [])
    (hbody : ∀ i e st, BInv h (spec i) st → (read h s)[i]? = some e →
      ∃ st', body i e st = .ok st' ∧ BInv h (spec (i + 1)) st') :
    Post h (rangeLoop (·.2) s body (.nil, h)) (spec s.len) := by
  have := idxLoop_ok (·.2) s body h v (fun i st => BInv h (spec i) st)
    (fun i st inv => inv.getAt v i) hbody s.len 0 (.nil, h) (by rw [hspec0]; exact BInv.init h) (by omega)
  obtain ⟨st', hl, inv⟩ := this
  refine ⟨st'.1, st'.2, hl, ?_⟩
  have := BInv.post (r := st'.1) (h' := st'.2) inv
  simpa using this

variable [Inhabited α] (g : Growth)

theorem Map_post (f : α → α) (h : Heap α) (s : Slice) (v : Valid h s) :
    Post h (Map g f h s) ((read h s).map f) := by
  have := builder_range h s v (fun _ e st => .ok (appendN g st.2 st.1 [f e]))
    (fun i => ((read h s).take i).map f) (by simp)
    (fun i e st inv he => ⟨_, rfl, by
      rw [take_succ_of_getElem? he, List.map_append]; exact inv.append g _⟩)
  rw [← read_length v, List.take_length] at this
  exact this

/-- `List.mapIdx` with the index as an `Int`, as `Mapi`'s callback receives it -/
def mapiSpec (f : Int → α → α) (l : List α) : List α := l.mapIdx (fun i e => f i e)

omit [Inhabited α] in
theorem mapIdx_take_succ (f : Nat → α → α) {l : List α} {i : Nat} {e : α} (he : l[i]? = some e) :
    (l.take (i + 1)).mapIdx f = (l.take i).mapIdx f ++ [f i e] := by
  rw [take_succ_of_getElem? he, List.mapIdx_append]
  have hi : i < l.length := by
    rcases Nat.lt_or_ge i l.length with h | h
    · exact h
    · rw [List.getElem?_eq_none h] at he; cases he
  simp [List.length_take, Nat.min_eq_left (Nat.le_of_lt hi)]

theorem Mapi_post (f : Int → α → α) (h : Heap α) (s : Slice) (v : Valid h s) :
    Post h (Mapi g f h s) (mapiSpec f (read h s)) := by
  have := builder_range h s v (fun i e st => .ok (appendN g st.2 st.1 [f i e]))
    (fun i => ((read h s).take i).mapIdx (fun i e => f i e)) (by simp)
    (fun i e st inv he => ⟨_, rfl, by
      rw [mapIdx_take_succ _ he]; exact inv.append g _⟩)
  rw [← read_length v, List.take_length] at this
  exact this

theorem Filter_post (p : α → Bool) (h : Heap α) (s : Slice) (v : Valid h s) :
    Post h (Filter g p h s) ((read h s).filter p) := by
  have := builder_range h s v (fun _ e st => if p e then .ok (appendN g st.2 st.1 [e]) else .ok st)
    (fun i => ((read h s).take i).filter p) (by simp)
    (fun i e st inv he => by
      rw [take_succ_of_getElem? he, List.filter_append]
      by_cases hp : p e
      · simp only [hp, if_true]; exact ⟨_, rfl, by simpa [List.filter, hp] using inv.append g [e]⟩
      · simp only [hp]; exact ⟨st, by simp, by simpa [List.filter, hp] using inv⟩)
  rw [← read_length v, List.take_length] at this
  exact this

theorem Collect_post (f : α → Slice) (h : Heap α) (ss : Slice) (v : Valid h ss)
    (vf : ∀ e, Valid h (f e)) :
    Post h (Collect g f h ss) ((read h ss).flatMap (fun e => read h (f e))) := by
  have := builder_range h ss v (fun _ e st => .ok (appendN g st.2 st.1 (read st.2 (f e))))
    (fun i => ((read h ss).take i).flatMap (fun e => read h (f e))) (by simp)
    (fun i e st inv he => ⟨_, rfl, by
      rw [take_succ_of_getElem? he, List.flatMap_append]
      simp only [List.flatMap_cons, List.flatMap_nil, List.append_nil]
      rw [← read_ext inv.1 (vf e)]; exact inv.append g _⟩)
  rw [← read_length v, List.take_length] at this
  exact this

theorem Zip_post (mk : α → α → α) (h : Heap α) (s1 s2 : Slice) (v1 : Valid h s1) (v2 : Valid h s2)
    (hlen : s1.len = s2.len) :
    Post h (Zip g mk h s1 s2) (List.zipWith mk (read h s1) (read h s2)) := by
  simp only [Zip, hlen, ne_eq, not_true_eq_false, if_false]
  have := builder_range h s1 v1 (fun i e1 st =>
      match getAt st.2 s2 i with
      | none => .error .index
      | some e2 => .ok (appendN g st.2 st.1 [mk e1 e2]))
    (fun i => List.zipWith mk ((read h s1).take i) ((read h s2).take i)) (by simp)
    (fun i e st inv he => by
      have hi : i < s1.len := by
        rw [← read_length v1]
        rcases Nat.lt_or_ge i (read h s1).length with h' | h'
        · exact h'
        · rw [List.getElem?_eq_none h'] at he; cases he
      obtain ⟨e2, h2, h2'⟩ := getAt_some_of_lt v2 (i := i) (by omega)
      refine ⟨appendN g st.2 st.1 [mk e e2], by simp only [inv.getAt v2 i, h2], ?_⟩
      rw [take_succ_of_getElem? he, take_succ_of_getElem? h2', List.zipWith_append (by
        simp [List.length_take, read_length v1, read_length v2, hlen])]
      exact inv.append g _)
  rw [show List.zipWith mk (List.take s1.len (read h s1)) (List.take s1.len (read h s2)) =
      List.zipWith mk (read h s1) (read h s2) by
    rw [List.take_of_length_le (by rw [read_length v1]; omega),
        List.take_of_length_le (by rw [read_length v2]; omega)]] at this
  exact this

theorem Zip_panics (mk : α → α → α) (h : Heap α) (s1 s2 : Slice) (hlen : s1.len ≠ s2.len) :
    Zip g mk h s1 s2 = .error (.msg "zip with different length slices.") := by
  simp [Zip, hlen]

/-- `Take n` for `0 ≤ n ≤ len` -/
theorem Take_post (h : Heap α) (num : Int) (s : Slice) (v : Valid h s) (hn : num.toNat ≤ s.len) :
    Post h (Take g h num s) ((read h s).take num.toNat) := by
  have := idxLoop_ok (·.2) s (fun _ e st => .ok (appendN g st.2 st.1 [e])) h v
    (fun i st => BInv h ((read h s).take i) st)
    (fun i st inv => inv.getAt v i)
    (fun i e st inv he => ⟨_, rfl, by rw [take_succ_of_getElem? he]; exact inv.append g _⟩)
    num.toNat 0 (.nil, h) (by simpa using BInv.init h) (by omega)
  obtain ⟨st', hl, inv⟩ := this
  refine ⟨st'.1, st'.2, hl, ?_⟩
  have := BInv.post (r := st'.1) (h' := st'.2) inv
  simpa using this

/-- `Take n` with `n > len` is an index-out-of-range panic (not a shortened result) -/
theorem Take_panics (h : Heap α) (num : Int) (s : Slice) (v : Valid h s) (hn : s.len < num.toNat) :
    Take g h num s = .error .index := by
  exact idxLoop_overrun (·.2) s (fun _ e st => .ok (appendN g st.2 st.1 [e])) h v
    (fun i st => BInv h ((read h s).take i) st)
    (fun i st inv => inv.getAt v i)
    (fun i e st inv he => ⟨_, rfl, by rw [take_succ_of_getElem? he]; exact inv.append g _⟩)
    num.toNat 0 (.nil, h) (by simpa using BInv.init h) (by omega) (by omega)

omit [Inhabited α] in
theorem drop_take_succ {l : List α} {c i : Nat} {e : α} (he : l[c + i]? = some e) :
    (l.drop c).take (i + 1) = (l.drop c).take i ++ [e] := by
  apply take_succ_of_getElem?
  rw [List.getElem?_drop]; exact he

/-- `Skip n` for `0 ≤ n` (any `n ≥ len` gives the empty result) -/
theorem Skip_post (h : Heap α) (count : Int) (s : Slice) (v : Valid h s) (hc : 0 ≤ count) :
    Post h (Skip g h count s) ((read h s).drop count.toNat) := by
  simp only [Skip, show ¬ count < 0 by omega, if_false]
  by_cases hge : s.len ≤ count.toNat
  · rw [show s.len - count.toNat = 0 by omega]
    refine ⟨.nil, h, rfl, Ext.refl h, trivial, ?_⟩
    rw [List.drop_of_length_le (by rw [read_length v]; exact hge)]; rfl
  · have := idxLoop_ok (·.2) s (fun _ e st => .ok (appendN g st.2 st.1 [e])) h v
      (fun i st => count.toNat ≤ i ∧ BInv h (((read h s).drop count.toNat).take (i - count.toNat)) st)
      (fun i st inv => inv.2.getAt v i)
      (fun i e st inv he => ⟨_, rfl, by omega, by
        have he' : (read h s)[count.toNat + (i - count.toNat)]? = some e := by
          rw [show count.toNat + (i - count.toNat) = i by omega]; exact he
        rw [show i + 1 - count.toNat = (i - count.toNat) + 1 by omega, drop_take_succ he']
        exact inv.2.append g _⟩)
      (s.len - count.toNat) count.toNat (.nil, h) ⟨Nat.le_refl _, by simpa using BInv.init h⟩ (by omega)
    obtain ⟨st', hl, _, inv⟩ := this
    refine ⟨st'.1, st'.2, hl, ?_⟩
    have := BInv.post (r := st'.1) (h' := st'.2) inv
    rw [show count.toNat + (s.len - count.toNat) - count.toNat = ((read h s).drop count.toNat).length by
      rw [List.length_drop, read_length v]; omega, List.take_length] at this
    exact this

/-- `Skip n` with `n < 0` is an index panic (`s[n]` is read before anything else) -/
theorem Skip_neg (h : Heap α) (count : Int) (s : Slice) (hc : count < 0) :
    Skip g h count s = .error .index := by
  simp [Skip, hc]

theorem New_post (h : Heap α) : Post h (.ok (New h)) [] := by
  have := allocWith_spec h ([] : List α) 0
  exact ⟨_, _, rfl, this.1, this.2.1, this.2.2.1⟩

omit [Inhabited α] in
theorem Tail_ok (h : Heap α) (s : Slice) (v : Valid h s) (hne : s.len ≠ 0) :
    ∃ r, Tail s = .ok r ∧ Valid h r ∧ read h r = (read h s).drop 1 := by
  cases s with
  | nil => simp [Slice.len] at hne
  | mk a o l c =>
    simp only [Slice.len] at hne
    have := v.2.1; have := v.2.2
    refine ⟨.mk a (o + 1) (l - 1) (c - 1), ?_, ⟨v.1, by omega, by omega⟩, ?_⟩
    · have h1 : (1 ≤ l ∧ l ≤ c) := ⟨by omega, by omega⟩
      simp [Tail, Slice.len, hne, subslice, h1]
    · simp only [read, List.drop_take, List.drop_drop]

omit [Inhabited α] in
theorem Tail_panics (s : Slice) (he : s.len = 0) : Tail s = .error (.msg "call Tail to empty list") := by
  simp [Tail, he]

omit [Inhabited α] in
theorem PopLast_ok (h : Heap α) (s : Slice) (v : Valid h s) (hne : s.len ≠ 0) :
    ∃ r, PopLast s = .ok r ∧ Valid h r ∧ read h r = (read h s).dropLast := by
  cases s with
  | nil => simp [Slice.len] at hne
  | mk a o l c =>
    simp only [Slice.len] at hne
    have := v.2.1; have := v.2.2
    refine ⟨.mk a o (l - 1) c, ?_, ⟨v.1, by omega, by omega⟩, ?_⟩
    · have h1 : l - 1 ≤ c := by omega
      simp [PopLast, Slice.len, hne, subslice, h1]
    · simp only [read]
      rw [List.dropLast_eq_take, List.take_take]
      simp only [List.length_take, List.length_drop]
      congr 1; omega

omit [Inhabited α] in
theorem PopLast_panics (s : Slice) (he : s.len = 0) : PopLast s = .error .index := by
  simp [PopLast, he]

theorem PushLast_post (h : Heap α) (e : α) (s : Slice) (v : Valid h s) :
    Post h (PushLast g h e s) (read h s ++ [e]) := by
  cases s with
  | nil =>
    have inv := (BInv.init h).append g [e]
    simpa [PushLast, Slice.len, slice3, read] using inv.toPost
  | mk a o l c =>
    have := v.2.1
    have sp := allocWith_spec h (read h (.mk a o l l) ++ [e]) (g l (l + 1))
    have hs3 : slice3 (.mk a o l c) l l = .ok (.mk a o l l) := by simp [slice3, this]
    have happ : appendN g h (.mk a o l l) [e] = allocWith h (read h (.mk a o l l) ++ [e]) (g l (l + 1)) := by
      simp [appendN]; omega
    unfold PushLast
    simp only [Slice.len]
    rw [hs3]
    simp only []
    rw [happ]
    exact ⟨_, _, rfl, sp.1, sp.2.1, sp.2.2.1⟩

theorem PushHead_post (h : Heap α) (e : α) (s : Slice) (v : Valid h s) :
    Post h (PushHead g h e s) (e :: read h s) := by
  have sp := allocWith_spec h [e] 1
  have inv0 : BInv h [e] (allocWith h [e] 1) := ⟨sp.1, sp.2.2.2.1, sp.2.1, sp.2.2.1⟩
  have inv := inv0.append g (read (allocWith h [e] 1).2 s)
  exact inv.toPost.congr_spec (by rw [read_ext sp.1 v]; rfl)

theorem Concat_inv (h : Heap α) (ss : List Slice) (vs : ∀ s ∈ ss, Valid h s) :
    ∀ (acc : List α) (st : St α), BInv h acc st →
      BInv h (acc ++ ss.flatMap (read h)) (ss.foldl (fun st s => appendN g st.2 st.1 (read st.2 s)) st) := by
  induction ss with
  | nil => intro acc st inv; simpa using inv
  | cons s rest ih =>
    intro acc st inv
    simp only [List.foldl_cons, List.flatMap_cons]
    rw [← List.append_assoc]
    apply ih (fun x hx => vs x (List.mem_cons_of_mem _ hx))
    rw [← read_ext inv.1 (vs s List.mem_cons_self)]
    exact inv.append g _

theorem Concat_post (h : Heap α) (ss : List Slice) (vs : ∀ s ∈ ss, Valid h s) :
    Post h (.ok (Concat g h ss)) (ss.flatMap (read h)) := by
  have inv := Concat_inv g h ss vs [] (.nil, h) (BInv.init h)
  exact inv.toPost.congr_spec (by simp)

theorem Append_post (h : Heap α) (s1 s2 : Slice) (_v1 : Valid h s1) (v2 : Valid h s2) :
    Post h (.ok (Append g h s1 s2)) (read h s1 ++ read h s2) := by
  have inv1 := (BInv.init h).append g (read h s1)
  have inv2 := inv1.append g (read (appendN g h .nil (read h s1)).2 s2)
  exact inv2.toPost.congr_spec (by rw [read_ext inv1.1 v2]; simp)

/-! ### Distinct -/

/-- the loop's own recursion: keep `x` unless already in `seen` -/
def distinctAux [DecidableEq α] (seen : List α) : List α → List α
  | [] => []
  | x :: xs => if x ∈ seen then distinctAux seen xs else x :: distinctAux (x :: seen) xs

theorem Distinct_post [DecidableEq α] (h : Heap α) (s : Slice) (v : Valid h s) :
    Post h (Distinct g h s) (distinctAux [] (read h s)) := by
  have sp := allocWith_spec h ([] : List α) 0
  have inv0 : BInv h [] (allocWith h ([] : List α) 0) := ⟨sp.1, sp.2.2.2.1, sp.2.1, sp.2.2.1⟩
  have := idxLoop_ok (τ := St α × List α) (·.1.2) s
    (fun _ e st => if e ∈ st.2 then .ok st else .ok (appendN g st.1.2 st.1.1 [e], e :: st.2)) h v
    (fun i st => ∃ acc, BInv h acc st.1 ∧
      acc ++ distinctAux st.2 ((read h s).drop i) = distinctAux [] (read h s))
    (fun i st inv => by obtain ⟨acc, inv, _⟩ := inv; exact inv.getAt v i)
    (fun i e st inv he => by
      obtain ⟨acc, inv, heq⟩ := inv
      have hdrop : (read h s).drop i = e :: (read h s).drop (i + 1) := by
        have hi : i < (read h s).length := by
          rcases Nat.lt_or_ge i (read h s).length with h' | h'
          · exact h'
          · rw [List.getElem?_eq_none h'] at he; cases he
        rw [List.drop_eq_getElem_cons hi]
        congr 1
        rw [List.getElem?_eq_getElem hi] at he; exact Option.some.inj he
      rw [hdrop] at heq
      by_cases hm : e ∈ st.2
      · refine ⟨st, by simp [hm], acc, inv, ?_⟩
        simpa [distinctAux, hm] using heq
      · refine ⟨(appendN g st.1.2 st.1.1 [e], e :: st.2), by simp [hm], acc ++ [e], inv.append g _, ?_⟩
        simpa [distinctAux, hm] using heq)
    s.len 0 (allocWith h [] 0, []) ⟨[], inv0, by simp⟩ (by omega)
  obtain ⟨st', hl, acc, inv, heq⟩ := this
  refine ⟨st'.1.1, st'.1.2, ?_, ?_⟩
  · simp only [Distinct, rangeLoop, hl]
  · have hd : (read h s).drop (0 + s.len) = [] := by
      rw [List.drop_of_length_le (by rw [read_length v]; omega)]
    rw [hd] at heq
    simp only [distinctAux, List.append_nil] at heq
    rw [← heq]
    exact BInv.post (r := st'.1.1) (h' := st'.1.2) inv

/-! ### Sort / SortBy -/

omit [Inhabited α] in
/-- overwriting the cells of a fresh slice (what `slices.SortFunc` does to the copy) -/
theorem overwrite_post (h h1 : Heap α) (a o l c : Nat) (ys : List α) (hlen : ys.length = l)
    (fr : h.length ≤ a) (ag : Ext h h1) (v : Valid h1 (.mk a o l c)) :
    Ext h (writeCells h1 a o ys) ∧ Valid (writeCells h1 a o ys) (.mk a o l c) ∧
    read (writeCells h1 a o ys) (.mk a o l c) = ys := by
  have h1' := v.2.1; have h2' := v.2.2
  refine ⟨AgreeBelow.trans ag (writeCells_agree h.length h1 a o ys (fun _ => fr)), ?_, ?_⟩
  · refine ⟨by rw [writeCells_length]; exact v.1, v.2.1, ?_⟩
    rw [writeCells_arrOf _ _ _ _ v.1, writeAt_length _ _ _ (by omega)]; exact v.2.2
  · simp only [read]
    rw [writeCells_arrOf _ _ _ _ v.1]
    have := writeAt_drop_take (arrOf h1 a) o 0 ys (by omega)
    simp only [Nat.add_zero, Nat.zero_add, List.take_zero, List.nil_append] at this
    rw [← hlen]; exact this

/-- what the model stores back: the sorter's output forced to the copy's length
(equal to the sorter's output whenever the sorter preserves length) -/
def padded (ys xs : List α) : List α := ys.take xs.length ++ xs.drop (ys.take xs.length).length

omit [Inhabited α] in
theorem padded_length (ys xs : List α) : (padded ys xs).length = xs.length := by
  simp [padded]; omega

omit [Inhabited α] in
theorem padded_eq (ys xs : List α) (h : ys.length = xs.length) : padded ys xs = ys := by
  simp [padded, h]
  exact List.take_of_length_le (by rw [h]; exact Nat.le_refl _)

/-- frame + contents for Sort/SortBy with an arbitrary in-place "sorter" -/
theorem SortWith_post' (srt : List α → List α) (h : Heap α) (s : Slice) (v : Valid h s) :
    Post h (SortWith g srt h s) (padded (srt (read h s)) (read h s)) := by
  cases s with
  | nil =>
    refine ⟨.nil, h, ?_, Ext.refl h, trivial, ?_⟩
    · simp [SortWith, slice3, read, appendN]
    · simp [read, padded]
  | mk a o l c =>
    have hl := read_length v
    simp only [Slice.len] at hl
    have hc := v.2.1; have harr := v.2.2
    by_cases hz : l = 0
    · subst hz
      have hr : read h (.mk a o 0 c) = [] := List.eq_nil_of_length_eq_zero hl
      refine ⟨.mk a o 0 0, h, ?_, Ext.refl h, ⟨v.1, Nat.le_refl _, by omega⟩, ?_⟩
      · simp [SortWith, slice3, appendN, writeCells, read]
      · rw [hr]; simp [read, padded]
    · have hs3 : slice3 (.mk a o l c) 0 0 = .ok (.mk a o 0 0) := by simp [slice3]
      have hr0 : read h (.mk a o 0 0) = [] := by simp [read]
      have happ : appendN g h (.mk a o 0 0) (read h (.mk a o l c)) =
          allocWith h (read h (.mk a o l c)) (g 0 (0 + (read h (.mk a o l c)).length)) := by
        simp only [appendN, hr0, List.nil_append]
        rw [if_neg (by omega)]
      have sp := allocWith_spec h (read h (.mk a o l c)) (g 0 (0 + (read h (.mk a o l c)).length))
      unfold SortWith
      rw [hs3]
      simp only []
      rw [happ]
      generalize hxs : read h (.mk a o l c) = xs at *
      simp only [allocWith] at sp ⊢
      have ow := overwrite_post h _ h.length 0 xs.length (max (g 0 (0 + xs.length)) xs.length)
        (padded (srt xs) xs) (padded_length _ _) (Nat.le_refl _) sp.1 sp.2.1
      rw [sp.2.2.1]
      exact ⟨_, _, rfl, ow.1, ow.2.1, ow.2.2⟩

theorem SortWith_post (srt : List α → List α) (hsrt : ∀ l, (srt l).length = l.length)
    (h : Heap α) (s : Slice) (v : Valid h s) :
    Post h (SortWith g srt h s) (srt (read h s)) :=
  (SortWith_post' g srt h s v).congr_spec (padded_eq _ _ (hsrt _))

/-! ### read-only loops -/

omit [Inhabited α] in
theorem scanLoop_eq {ρ : Type} (h : Heap α) (s : Slice) (v : Valid h s) (f : α → Option ρ) :
    ∀ (fuel i : Nat), i + fuel = s.len →
      scanLoop h s f fuel i = .ok (((read h s).drop i).findSome? f) := by
  intro fuel
  induction fuel with
  | zero =>
    intro i hi
    rw [List.drop_of_length_le (by rw [read_length v]; omega)]; rfl
  | succ k ih =>
    intro i hi
    obtain ⟨e, he, he'⟩ := getAt_some_of_lt v (i := i) (by omega)
    have hlt : i < (read h s).length := by rw [read_length v]; omega
    have hdrop : (read h s).drop i = e :: (read h s).drop (i + 1) := by
      rw [List.drop_eq_getElem_cons hlt]
      congr 1
      rw [List.getElem?_eq_getElem hlt] at he'; exact Option.some.inj he'
    simp only [scanLoop, he, hdrop, List.findSome?_cons]
    cases hf : f e with
    | some r => rfl
    | none => simp only; exact ih (i + 1) (by omega)

omit [Inhabited α] in
theorem foldLoop_eq {σ : Type} (h : Heap α) (s : Slice) (v : Valid h s) (folder : σ → α → σ) :
    ∀ (fuel i : Nat) (st : σ), i + fuel = s.len →
      foldLoop h s folder fuel i st = .ok (((read h s).drop i).foldl folder st) := by
  intro fuel
  induction fuel with
  | zero =>
    intro i st hi
    rw [List.drop_of_length_le (by rw [read_length v]; omega)]; rfl
  | succ k ih =>
    intro i st hi
    obtain ⟨e, he, he'⟩ := getAt_some_of_lt v (i := i) (by omega)
    have hlt : i < (read h s).length := by rw [read_length v]; omega
    have hdrop : (read h s).drop i = e :: (read h s).drop (i + 1) := by
      rw [List.drop_eq_getElem_cons hlt]
      congr 1
      rw [List.getElem?_eq_getElem hlt] at he'; exact Option.some.inj he'
    simp only [foldLoop, he, hdrop, List.foldl_cons]
    exact ih (i + 1) _ (by omega)

end Folang.GoSlice
