import Folang.Lemmas.TokProgress
/-
Blanks in front of anything merge into the SPACE token: `k` more blanks make the SPACE token exactly
`k` bytes longer and change nothing else.  (C06: indenting a line by a different amount shifts the
column of its first token by exactly that amount and leaves the token stream alone.)
-/
namespace Folang.Tokenizer
open Folang.Literal

def blanks (k : Nat) : Bytes := List.replicate k SP

theorem runOf_blanks (k : Nat) (s : Bytes) : runOf SP (blanks k ++ s) = k + runOf SP s := by
  induction k with
  | zero => simp [blanks]
  | succ k ih =>
    simp only [blanks, List.replicate_succ, List.cons_append, runOf, if_true] at ih ⊢
    rw [ih]; omega

theorem drop_blanks (k n : Nat) (s : Bytes) : (blanks k ++ s).drop (k + n) = s.drop n := by
  induction k with
  | zero => simp [blanks]
  | succ k ih =>
    simp only [blanks, List.replicate_succ, List.cons_append] at ih ⊢
    rw [show k + 1 + n = (k + n) + 1 by omega, List.drop_succ_cons]
    exact ih

theorem lineComment_add (k n : Nat) (s3 : Bytes) :
    lineComment (k + n) s3 = (k + (lineComment n s3).1, (lineComment n s3).2) := by
  simp [lineComment]; omega

/-- one round on k blanks followed by `s` = one round on `s`, k bytes longer -/
theorem spaceRound_blanks (k : Nat) (s : Bytes) :
    spaceRound (blanks k ++ s) = (spaceRound s).map (fun r => (k + r.1, r.2)) := by
  simp only [spaceRound, runOf_blanks, drop_blanks]
  split
  · split
    · rfl
    · rename_i j _
      simp only [Option.map_some]
      rw [show k + runOf SP s + runOf TAB (List.drop (runOf SP s) s) + (j + 4) =
          k + (runOf SP s + runOf TAB (List.drop (runOf SP s) s) + (j + 4)) by omega, lineComment_add]
  · simp only [Option.map_some]
    rw [show k + runOf SP s + runOf TAB (List.drop (runOf SP s) s) =
        k + (runOf SP s + runOf TAB (List.drop (runOf SP s) s)) by omega, lineComment_add]

theorem spaceLike_blanks (k : Nat) (s : Bytes) (hk : 0 < k) : spaceLike (blanks k ++ s) = true := by
  cases k with
  | zero => omega
  | succ k => simp [blanks, List.replicate_succ, spaceLike]

/-- what is not space-like: a round consumes nothing -/
theorem spaceRound_notLike {s : Bytes} (h : spaceLike s = false) : spaceRound s = some (0, s) := by
  cases s with
  | nil => simp [spaceRound, runOf, startsWith2, lineComment]
  | cons b rest =>
    simp only [spaceLike, Bool.or_eq_false_iff, beq_eq_false_iff_ne, ne_eq, Bool.and_eq_false_iff] at h
    obtain ⟨⟨hsp, htab⟩, hcm⟩ := h
    have h1 : runOf SP (b :: rest) = 0 := by simp [runOf, hsp]
    have h2 : runOf TAB (b :: rest) = 0 := by simp [runOf, htab]
    have hst : startsWith2 SL Tokenizer.ST (b :: rest) = false := by
      cases rest with
      | nil => simp [startsWith2]
      | cons c r =>
        simp only [startsWith2, Bool.and_eq_false_iff, beq_eq_false_iff_ne, ne_eq]
        rcases hcm with hb | hc
        · exact Or.inl hb
        · simp only [Bool.or_eq_false_iff, beq_eq_false_iff_ne, ne_eq] at hc
          exact Or.inr hc.1
    have hsl : startsWith2 SL SL (b :: rest) = false := by
      cases rest with
      | nil => simp [startsWith2]
      | cons c r =>
        simp only [startsWith2, Bool.and_eq_false_iff, beq_eq_false_iff_ne, ne_eq]
        rcases hcm with hb | hc
        · exact Or.inl hb
        · simp only [Bool.or_eq_false_iff, beq_eq_false_iff_ne, ne_eq] at hc
          exact Or.inr hc.2
    simp [spaceRound, h1, h2, hst, lineComment, hsl]

theorem spaceLen_notLike (f : Nat) {s : Bytes} (h : spaceLike s = false) : spaceLen f s = some 0 := by
  cases f with
  | zero => rfl
  | succ f => simp [spaceLen, h]

/-- **k blanks in front make the SPACE token exactly k bytes longer** (same fuel on both sides) -/
theorem spaceLen_blanks (f k : Nat) (s : Bytes) (hk : 0 < k) :
    spaceLen (f + 1) (blanks k ++ s) = (spaceLen (f + 1) s).map (· + k) := by
  simp only [spaceLen, spaceLike_blanks k s hk, Bool.not_true, Bool.false_eq_true, if_false, spaceRound_blanks]
  cases hl : spaceLike s with
  | false =>
    simp only [Bool.not_false, if_true, Option.map_some, spaceRound_notLike hl, Nat.add_zero, Nat.zero_add]
    rw [if_neg (by omega), spaceLen_notLike f hl]
    simp
  | true =>
    simp only [Bool.not_true, Bool.false_eq_true, if_false]
    cases hr : spaceRound s with
    | none => simp
    | some r =>
      obtain ⟨st, s4⟩ := r
      have hp := spaceRound_pos hl hr
      simp only [Option.map_some]
      rw [if_neg (by omega), if_neg (by omega)]
      cases spaceLen f s4 with
      | none => simp
      | some m => simp; omega

/-- the SPACE scanner does not depend on its fuel once the fuel exceeds the length of the input -/
theorem spaceLen_fuel : ∀ (f f' : Nat) (s : Bytes), s.length < f → s.length < f' → spaceLen f s = spaceLen f' s := by
  intro f
  induction f with
  | zero => intro f' s h; omega
  | succ f ih =>
    intro f' s h1 h2
    cases f' with
    | zero => omega
    | succ f' =>
      simp only [spaceLen]
      split
      · rfl
      · cases hr : spaceRound s with
        | none => rfl
        | some r =>
          obtain ⟨st, s4⟩ := r
          simp only
          split
          · rfl
          · rename_i hst
            obtain ⟨hle, rfl⟩ := spaceRound_le hr
            have hl : (s.drop st).length < s.length := by simp only [List.length_drop]; omega
            rw [ih f' (s.drop st) (by omega) (by omega)]

/-- what begins space-like is scanned as a SPACE token (or panics on an unterminated comment) -/
theorem scan_spaceLike {s : Bytes} (h : spaceLike s = true) :
    scanTokenAt s = match spaceLen (s.length + 1) s with
      | some n => .tok { kind := "SPACE", len := n }
      | none => .panic := by
  cases s with
  | nil => simp [spaceLike] at h
  | cons b rest =>
    unfold scanTokenAt
    simp only
    by_cases h1 : b = SP ∨ b = TAB
    · rw [if_pos h1]
      cases spaceLen ((b :: rest).length + 1) (b :: rest) <;> rfl
    · rw [if_neg h1]
      simp only [spaceLike, Bool.or_eq_true, beq_iff_eq, Bool.and_eq_true] at h
      have hb : b = SL := by
        rcases h with (h | h) | h
        · exact absurd (Or.inl h) h1
        · exact absurd (Or.inr h) h1
        · exact h.1
      have hc := (h.resolve_left (by intro hh; exact h1 hh)).2
      rw [if_pos hb]
      cases rest with
      | nil => simp at hc
      | cons c r =>
        simp only [beq_iff_eq, Bool.or_eq_true] at hc
        simp only
        rw [if_pos hc]
        cases spaceLen ((b :: c :: r).length + 1) (b :: c :: r) <;> rfl

/-- **blanks in front of a position**: `k > 0` blanks followed by `s` are scanned as ONE SPACE token
that is exactly `k` bytes longer than the SPACE token at `s` (0 if `s` does not begin with space) -/
theorem scan_blanks (k : Nat) (s : Bytes) (hk : 0 < k) :
    scanTokenAt (blanks k ++ s) = match spaceLen (s.length + 1) s with
      | some n => .tok { kind := "SPACE", len := n + k }
      | none => .panic := by
  rw [scan_spaceLike (spaceLike_blanks k s hk)]
  have hlen : (blanks k ++ s).length + 1 = (k + s.length) + 1 := by simp [blanks]
  rw [hlen, spaceLen_blanks (k + s.length) k s hk, spaceLen_fuel (k + s.length + 1) (s.length + 1) s (by omega) (by omega)]
  cases spaceLen (s.length + 1) s <;> rfl

/-- punctuation tokens are never SPACE tokens -/
theorem scanPunct_kind (b : UInt8) (rest : Bytes) (t : Tok) (h : scanPunct b rest = .tok t) : t.kind ≠ "SPACE" := by
  unfold scanPunct at h
  by_cases h0 : b = 61
  · rw [if_pos h0] at h
    simp only [one, Res.tok.injEq] at h; subst h; decide
  rw [if_neg h0] at h
  by_cases h1 : b = NL
  · rw [if_pos h1] at h
    simp only [one, Res.tok.injEq] at h; subst h; decide
  rw [if_neg h1] at h
  by_cases h2 : b = 40
  · rw [if_pos h2] at h
    simp only [one, Res.tok.injEq] at h; subst h; decide
  rw [if_neg h2] at h
  by_cases h3 : b = 41
  · rw [if_pos h3] at h
    simp only [one, Res.tok.injEq] at h; subst h; decide
  rw [if_neg h3] at h
  by_cases h4 : b = 123
  · rw [if_pos h4] at h
    simp only [one, Res.tok.injEq] at h; subst h; decide
  rw [if_neg h4] at h
  by_cases h5 : b = 125
  · rw [if_pos h5] at h
    simp only [one, Res.tok.injEq] at h; subst h; decide
  rw [if_neg h5] at h
  by_cases h6 : b = 91
  · rw [if_pos h6] at h
    simp only [one, Res.tok.injEq] at h; subst h; decide
  rw [if_neg h6] at h
  by_cases h7 : b = 93
  · rw [if_pos h7] at h
    simp only [one, Res.tok.injEq] at h; subst h; decide
  rw [if_neg h7] at h
  by_cases h8 : b = 58
  · rw [if_pos h8] at h
    simp only [one, Res.tok.injEq] at h; subst h; decide
  rw [if_neg h8] at h
  by_cases h9 : b = 44
  · rw [if_pos h9] at h
    simp only [one, Res.tok.injEq] at h; subst h; decide
  rw [if_neg h9] at h
  by_cases h10 : b = 46
  · rw [if_pos h10] at h
    simp only [one, Res.tok.injEq] at h; subst h; decide
  rw [if_neg h10] at h
  by_cases h11 : b = 59
  · rw [if_pos h11] at h
    simp only [one, Res.tok.injEq] at h; subst h; decide
  rw [if_neg h11] at h
  by_cases h12 : b = 124
  · rw [if_pos h12] at h
    split at h <;> (simp only [one, two, Res.tok.injEq] at h; subst h; decide)
  rw [if_neg h12] at h
  by_cases h13 : b = 60
  · rw [if_pos h13] at h
    split at h <;> (simp only [one, two, Res.tok.injEq] at h; subst h; decide)
  rw [if_neg h13] at h
  by_cases h14 : b = 62
  · rw [if_pos h14] at h
    split at h <;> (simp only [one, two, Res.tok.injEq] at h; subst h; decide)
  rw [if_neg h14] at h
  by_cases h15 : b = 43
  · rw [if_pos h15] at h
    simp only [one, Res.tok.injEq] at h; subst h; decide
  rw [if_neg h15] at h
  by_cases h16 : b = 38
  · rw [if_pos h16] at h
    split at h <;> (simp only [one, two, Res.tok.injEq] at h; subst h; decide)
  rw [if_neg h16] at h
  by_cases h17 : b = 42
  · rw [if_pos h17] at h
    simp only [one, Res.tok.injEq] at h; subst h; decide
  rw [if_neg h17] at h
  by_cases h18 : b = 45
  · rw [if_pos h18] at h
    split at h <;> (simp only [one, two, Res.tok.injEq] at h; subst h; decide)
  rw [if_neg h18] at h
  cases h

/-- `nextToken` does not depend on its fuel once it exceeds the length of the input by two -/
theorem nextNonSpace_fuel : ∀ (F F' : Nat) (s : Bytes) (off : Nat), s.length + 2 ≤ F → s.length + 2 ≤ F' →
    nextNonSpace F off s = nextNonSpace F' off s := by
  intro F
  induction F with
  | zero => intro F' s off h; omega
  | succ F ih =>
    intro F' s off h1 h2
    cases F' with
    | zero => omega
    | succ F' =>
      simp only [nextNonSpace]
      cases hs : scanTokenAt s with
      | panic => rfl
      | tok t =>
        simp only
        split
        · rename_i hk
          cases s with
          | nil =>
            simp [scanTokenAt] at hs
            subst hs
            simp at hk
          | cons b rest =>
            have hp := scanTokenAt_progress (b :: rest) t hs (by simp)
            have hl : ((b :: rest).drop t.extent).length + 2 ≤ F := by
              simp only [List.length_drop]; simp at h1 hp ⊢; omega
            have hl' : ((b :: rest).drop t.extent).length + 2 ≤ F' := by
              simp only [List.length_drop]; simp at h2 hp ⊢; omega
            exact ih F' _ _ hl hl'
        · rfl

/-- what does not begin space-like is not scanned as a SPACE token -/
theorem scan_notLike_kind {s : Bytes} (h : spaceLike s = false) {t : Tok} (hs : scanTokenAt s = .tok t) :
    t.kind ≠ "SPACE" := by
  cases s with
  | nil => simp [scanTokenAt] at hs; subst hs; decide
  | cons b rest =>
    simp only [spaceLike, Bool.or_eq_false_iff, beq_eq_false_iff_ne, ne_eq, Bool.and_eq_false_iff] at h
    obtain ⟨⟨hsp, htab⟩, hcm⟩ := h
    unfold scanTokenAt at hs
    simp only at hs
    rw [if_neg (by intro hh; rcases hh with hh | hh <;> contradiction)] at hs
    by_cases hb : b = SL
    · rw [if_pos hb] at hs
      cases rest with
      | nil => simp [one] at hs; subst hs; decide
      | cons c r =>
        simp only at hs
        have hc : ¬ (c = Tokenizer.ST ∨ c = SL) := by
          rcases hcm with hcm | hcm
          · exact absurd hb hcm
          · simp only [Bool.or_eq_false_iff, beq_eq_false_iff_ne, ne_eq] at hcm
            intro hh; rcases hh with hh | hh
            · exact hcm.1 hh
            · exact hcm.2 hh
        rw [if_neg hc] at hs
        simp [one] at hs; subst hs; decide
    · rw [if_neg hb] at hs
      split at hs
      · simp only [Res.tok.injEq] at hs
        subst hs
        simp only
        -- an identifier or a keyword
        intro hk
        have : ∀ (n : Bytes), ((keywords.find? (·.1 == bytesToString n)).map (·.2)).getD "IDENTIFIER" ≠ "SPACE" := by
          intro n
          cases hf : keywords.find? (·.1 == bytesToString n) with
          | none => simp
          | some kv =>
            have hm := List.mem_of_find?_eq_some hf
            simp only [Option.map_some, Option.getD_some]
            revert hm
            simp only [keywords, List.mem_cons, List.not_mem_nil, or_false]
            rintro (rfl | rfl | rfl | rfl | rfl | rfl | rfl | rfl | rfl | rfl | rfl | rfl | rfl | rfl | rfl | rfl | rfl | rfl) <;> decide
        exact this _ hk
      · split at hs
        · split at hs
          · simp only [Res.tok.injEq] at hs; subst hs; simp
          · cases hs
        · split at hs
          · obtain ⟨v, r', _, _⟩ := strTok_progress hs
            unfold strTok at hs; split at hs
            · simp only [Res.tok.injEq] at hs; subst hs; simp
            · cases hs
          · split at hs
            · unfold strTok at hs; split at hs
              · simp only [Res.tok.injEq] at hs; subst hs; simp
              · cases hs
            · split at hs
              · cases rest with
                | nil => cases hs
                | cons c rest' =>
                  simp only at hs
                  split at hs
                  · unfold strTok at hs; split at hs
                    · simp only [Res.tok.injEq] at hs; subst hs; simp
                    · cases hs
                  · split at hs
                    · unfold strTok at hs; split at hs
                      · simp only [Res.tok.injEq] at hs; subst hs; simp
                      · cases hs
                    · cases hs
              · exact scanPunct_kind b rest t hs

/-- **the next token is the same, k bytes further**: k blanks in front of `s` leave the next non-space
token unchanged and move its begin by exactly k -/
theorem nextNonSpace_blanks (k : Nat) (s : Bytes) (off F F' : Nat)
    (hF : (blanks k ++ s).length + 2 ≤ F) (hF' : s.length + 2 ≤ F') :
    nextNonSpace F off (blanks k ++ s) = nextNonSpace F' (off + k) s := by
  by_cases hk : k = 0
  · subst hk
    simp only [blanks, List.replicate_zero, List.nil_append, Nat.add_zero] at hF ⊢
    exact nextNonSpace_fuel F F' s off hF hF'
  · have hkpos : 0 < k := Nat.pos_of_ne_zero hk
    have hlen : (blanks k ++ s).length = k + s.length := by simp [blanks]
    cases F with
    | zero => omega
    | succ F =>
      simp only [nextNonSpace, scan_blanks k s hkpos]
      cases hsl : spaceLen (s.length + 1) s with
      | none =>
        -- an unterminated comment: both sides panic
        simp only
        have hlike : spaceLike s = true := by
          cases hl : spaceLike s with
          | true => rfl
          | false => rw [spaceLen_notLike _ hl] at hsl; cases hsl
        cases F' with
        | zero => omega
        | succ F' => simp [nextNonSpace, scan_spaceLike hlike, hsl]
      | some n =>
        simp only [Tok.extent, Nat.zero_add, if_true]
        rw [show n + k = k + n by omega, drop_blanks]
        cases hl : spaceLike s with
        | false =>
          -- `s` begins with a real token: the SPACE token was just the blanks
          rw [spaceLen_notLike _ hl] at hsl
          simp only [Option.some.injEq] at hsl
          subst hsl
          simp only [List.drop_zero, Nat.add_zero]
          exact nextNonSpace_fuel F F' s (off + k) (by omega) hF'
        | true =>
          -- `s` begins with space itself: one SPACE token covers both
          cases F' with
          | zero => omega
          | succ F' =>
            simp only [nextNonSpace, scan_spaceLike hl, hsl, Tok.extent, Nat.zero_add, if_true]
            have hn := spaceLen_pos _ s hl hsl
            have hle := spaceLen_le _ s hsl
            rw [show off + (k + n) = off + k + n by omega]
            exact nextNonSpace_fuel F F' (s.drop n) (off + k + n)
              (by simp only [List.length_drop]; omega) (by simp only [List.length_drop]; omega)

/-- the offset argument of `nextToken` is only added to the result -/
theorem nextNonSpace_off : ∀ (F : Nat) (s : Bytes) (off k : Nat),
    nextNonSpace F (off + k) s = (nextNonSpace F off s).map (fun r => (r.1 + k, r.2)) := by
  intro F
  induction F with
  | zero => intro s off k; rfl
  | succ F ih =>
    intro s off k
    simp only [nextNonSpace]
    cases scanTokenAt s with
    | panic => rfl
    | tok t =>
      simp only
      split
      · rw [show off + k + t.extent = off + t.extent + k by omega]
        exact ih _ _ _
      · simp; omega

end Folang.Tokenizer
