import Folang.Model.Tokenizer
import Folang.Lemmas.Literal
/-
Progress and bounds of the scanner model: every token consumes at least one byte and stays inside
the buffer.  Used by Props/C16 (`scan_progress`, `nextNonSpace_fuel`).
-/
namespace Folang.Tokenizer
open Folang.Literal

theorem pre_ok {x : Bytes} {r : Except Err (Bytes × Bytes)} {v r' : Bytes} (h : pre x r = .ok (v, r')) :
    ∃ v0, r = .ok (v0, r') := by
  unfold pre at h
  split at h
  · rename_i v0 t
    simp only [Except.ok.injEq, Prod.mk.injEq] at h
    exact ⟨v0, by rw [h.2]⟩
  · cases h

theorem scanStr_rest_lt_aux : ∀ (n : Nat) (r : Bytes), r.length ≤ n → ∀ {v r' : Bytes}, scanStr r = .ok (v, r') → r'.length < r.length := by
  intro n
  induction n with
  | zero =>
    intro r hr v r' h
    cases r with
    | nil => simp [scanStr] at h
    | cons _ _ => simp at hr
  | succ n ih =>
    intro r hr v r' h
    cases r with
    | nil => simp [scanStr] at h
    | cons c rest =>
      simp only [List.length_cons] at hr
      by_cases hc : c = DQ
      · subst hc
        rw [scanStr_dq] at h
        simp only [Except.ok.injEq, Prod.mk.injEq] at h
        rw [← h.2]; simp
      · by_cases hb : c = BS
        · subst hb
          cases rest with
          | nil => simp [scanStr, hc] at h
          | cons c2 rest' =>
            rw [scanStr_bs] at h
            obtain ⟨v0, h0⟩ := pre_ok h
            have := ih rest' (by simp at hr; omega) h0
            simp; omega
        · by_cases hn : c = NL
          · subst hn
            rw [scanStr_nl] at h
            obtain ⟨v0, h0⟩ := pre_ok h
            have := ih rest (by omega) h0
            simp; omega
          · rw [scanStr_other c rest hc hb hn] at h
            obtain ⟨v0, h0⟩ := pre_ok h
            have := ih rest (by omega) h0
            simp; omega

theorem scanStr_rest_lt (r : Bytes) {v r' : Bytes} (h : scanStr r = .ok (v, r')) : r'.length < r.length :=
  scanStr_rest_lt_aux r.length r (Nat.le_refl _) h

theorem scanRaw_rest_lt : ∀ (r : Bytes) {v r' : Bytes}, scanRaw r = .ok (v, r') → r'.length < r.length := by
  intro r
  induction r with
  | nil => intro v r' h; simp [scanRaw] at h
  | cons c rest ih =>
    intro v r' h
    simp only [scanRaw] at h
    split at h
    · simp only [Except.ok.injEq, Prod.mk.injEq] at h
      rw [← h.2]; simp
    · split at h
      · cases h
      · rename_i v0 r0 h0
        have := ih h0
        have hr : r' = r0 := by
          split at h
          · simp only [Except.ok.injEq, Prod.mk.injEq] at h; exact h.2.symm
          · split at h
            · simp only [Except.ok.injEq, Prod.mk.injEq] at h; exact h.2.symm
            · split at h
              · simp only [Except.ok.injEq, Prod.mk.injEq] at h; exact h.2.symm
              · simp only [Except.ok.injEq, Prod.mk.injEq] at h; exact h.2.symm
        rw [hr]; simp; omega

theorem runOf_le (c : UInt8) (s : Bytes) : runOf c s ≤ s.length := by
  induction s with
  | nil => simp [runOf]
  | cons b rest ih => simp only [runOf]; split <;> simp <;> omega

theorem runOf_pos (c : UInt8) (rest : Bytes) : 0 < runOf c (c :: rest) := by simp [runOf]

theorem toEOL_le (s : Bytes) : toEOL s ≤ s.length := by
  induction s with
  | nil => simp [toEOL]
  | cons b rest ih => simp only [toEOL]; split <;> simp <;> omega

theorem identLen_le (s : Bytes) : identLen s ≤ s.length := by
  induction s with
  | nil => simp [identLen]
  | cons b rest ih => simp only [identLen]; split <;> simp <;> omega

theorem findClose_bound_aux : ∀ (n : Nat) (s : Bytes), s.length ≤ n → ∀ {k : Nat}, findClose s = some k → k + 2 ≤ s.length := by
  intro n
  induction n with
  | zero =>
    intro s hs k h
    cases s with
    | nil => simp [findClose] at h
    | cons _ _ => simp at hs
  | succ n ih =>
    intro s hs k h
    match s, hs, h with
    | [], _, h => simp [findClose] at h
    | [_], _, h => simp [findClose] at h
    | a :: b :: rest, hs, h =>
      simp only [findClose] at h
      by_cases hab : a = ST ∧ b = SL
      · simp only [hab, and_self, if_true, Option.some.injEq] at h
        subst h; simp
      · simp only [hab, if_false] at h
        cases hf : findClose (b :: rest) with
        | none => simp [hf] at h
        | some k' =>
          simp [hf] at h
          have := ih (b :: rest) (by simp at hs ⊢; omega) hf
          simp at this ⊢
          omega

theorem findClose_bound (s : Bytes) {k : Nat} (h : findClose s = some k) : k + 2 ≤ s.length :=
  findClose_bound_aux s.length s (Nat.le_refl _) h

theorem intScan_bound : ∀ (s : Bytes) (n v : Nat) {n' v' : Nat}, intScan s n v = some (n', v') → n ≤ n' ∧ n' ≤ n + s.length := by
  intro s
  induction s with
  | nil => intro n v n' v' h; simp [intScan] at h
  | cons b rest ih =>
    intro n v n' v' h
    simp only [intScan] at h
    split at h
    · have := ih _ _ h
      simp; omega
    · simp only [Option.some.injEq, Prod.mk.injEq] at h
      simp; omega

theorem lineComment_spec (n : Nat) (s3 : Bytes) :
    ∃ n4, n4 ≤ s3.length ∧ lineComment n s3 = (n + n4, s3.drop n4) ∧ (startsWith2 SL SL s3 = true → 0 < n4) := by
  unfold lineComment
  by_cases h : startsWith2 SL SL s3 = true
  · refine ⟨toEOL s3, toEOL_le _, by simp [h], fun _ => ?_⟩
    match s3, h with
    | x :: y :: r, h =>
      simp only [startsWith2, Bool.and_eq_true, beq_iff_eq] at h
      obtain ⟨rfl, rfl⟩ := h
      simp only [toEOL]
      rw [if_neg (by decide)]
      omega
  · exact ⟨0, by omega, by simp [h], fun hh => absurd hh h⟩

/-- one round consumes a prefix of the buffer -/
theorem spaceRound_le {s : Bytes} {step : Nat} {s4 : Bytes} (h : spaceRound s = some (step, s4)) :
    step ≤ s.length ∧ s4 = s.drop step := by
  simp only [spaceRound] at h
  have h1 := runOf_le SP s
  have h2 := runOf_le TAB (s.drop (runOf SP s))
  simp only [List.length_drop] at h2
  split at h
  · split at h
    · cases h
    · rename_i k hk
      have hb := findClose_bound _ hk
      simp only [List.length_drop] at hb
      obtain ⟨n4, hn4, hlc, _⟩ := lineComment_spec (runOf SP s + runOf TAB (s.drop (runOf SP s)) + (k + 4))
        (((s.drop (runOf SP s)).drop (runOf TAB (s.drop (runOf SP s)))).drop (k + 4))
      simp only [List.length_drop] at hn4
      rw [hlc] at h
      simp only [Option.some.injEq, Prod.mk.injEq] at h
      refine ⟨by omega, ?_⟩
      rw [← h.1, ← h.2]
      simp only [List.drop_drop]
  · obtain ⟨n4, hn4, hlc, _⟩ := lineComment_spec (runOf SP s + runOf TAB (s.drop (runOf SP s)))
      ((s.drop (runOf SP s)).drop (runOf TAB (s.drop (runOf SP s))))
    simp only [List.length_drop] at hn4
    rw [hlc] at h
    simp only [Option.some.injEq, Prod.mk.injEq] at h
    refine ⟨by omega, ?_⟩
    rw [← h.1, ← h.2]
    simp only [List.drop_drop]

/-- on input that starts like space (blank, tab, comment start) a round consumes at least one byte -/
theorem spaceRound_pos {s : Bytes} (hs : spaceLike s = true) {step : Nat} {s4 : Bytes}
    (h : spaceRound s = some (step, s4)) : 0 < step := by
  cases s with
  | nil => simp [spaceLike] at hs
  | cons b rest =>
    simp only [spaceRound] at h
    by_cases hb : b = SP
    · -- at least one blank
      have : 0 < runOf SP (b :: rest) := by subst hb; exact runOf_pos _ _
      split at h
      · split at h
        · cases h
        · simp only [lineComment, Option.some.injEq, Prod.mk.injEq] at h; omega
      · simp only [lineComment, Option.some.injEq, Prod.mk.injEq] at h; omega
    · have h1 : runOf SP (b :: rest) = 0 := by simp [runOf, hb]
      simp only [h1, List.drop_zero, Nat.zero_add] at h
      by_cases ht : b = TAB
      · have : 0 < runOf TAB (b :: rest) := by subst ht; exact runOf_pos _ _
        split at h
        · split at h
          · cases h
          · simp only [lineComment, Option.some.injEq, Prod.mk.injEq] at h; omega
        · simp only [lineComment, Option.some.injEq, Prod.mk.injEq] at h; omega
      · have h2 : runOf TAB (b :: rest) = 0 := by simp [runOf, ht]
        simp only [h2, List.drop_zero, Nat.zero_add] at h
        split at h
        · split at h
          · cases h
          · simp only [lineComment, Option.some.injEq, Prod.mk.injEq] at h; omega
        · rename_i hnst
          -- not a block comment: it is a line comment
          have hsl : startsWith2 SL SL (b :: rest) = true := by
            simp only [spaceLike, beq_iff_eq, hb, ht, false_or, Bool.or_eq_true, Bool.and_eq_true, Bool.false_or] at hs
            obtain ⟨rfl, hnext⟩ := hs
            cases rest with
            | nil => simp at hnext
            | cons c rest' =>
              simp only [beq_iff_eq, Bool.or_eq_true] at hnext
              rcases hnext with rfl | rfl
              · simp [startsWith2] at hnst
              · simp [startsWith2]
          obtain ⟨n4, _, hlc, hpos⟩ := lineComment_spec 0 (b :: rest)
          rw [hlc] at h
          simp only [Option.some.injEq, Prod.mk.injEq] at h
          have := hpos hsl
          omega

/-- the SPACE scanner stays inside the buffer -/
theorem spaceLen_le : ∀ (fuel : Nat) (s : Bytes) {n : Nat}, spaceLen fuel s = some n → n ≤ s.length := by
  intro fuel
  induction fuel with
  | zero => intro s n h; simp [spaceLen] at h; omega
  | succ f ih =>
    intro s n h
    simp only [spaceLen] at h
    split at h
    · simp at h; omega
    · split at h
      · cases h
      · rename_i step s4 hr
        obtain ⟨hle, rfl⟩ := spaceRound_le hr
        split at h
        · simp at h; omega
        · simp only [Option.map_eq_some_iff] at h
          obtain ⟨m, hm, rfl⟩ := h
          have := ih _ hm
          simp only [List.length_drop] at this
          omega

/-- on input that starts like space the SPACE token is not empty -/
theorem spaceLen_pos (fuel : Nat) (s : Bytes) (hs : spaceLike s = true) {n : Nat}
    (h : spaceLen (fuel + 1) s = some n) : 0 < n := by
  simp only [spaceLen, hs, Bool.not_true, Bool.false_eq_true, if_false] at h
  split at h
  · cases h
  · rename_i step s4 hr
    have hp := spaceRound_pos hs hr
    split at h
    · omega
    · simp only [Option.map_eq_some_iff] at h
      obtain ⟨m, _, rfl⟩ := h
      omega

/-- punctuation tokens are one or two bytes long and the second byte was there -/
theorem scanPunct_progress (b : UInt8) (rest : Bytes) (t : Tok) (h : scanPunct b rest = .tok t) :
    0 < t.extent ∧ t.extent ≤ rest.length + 1 := by
  unfold scanPunct at h
  by_cases h0 : b = 61
  · rw [if_pos h0] at h
    simp only [one, Res.tok.injEq] at h; subst h; simp [Tok.extent]
  rw [if_neg h0] at h
  by_cases h1 : b = NL
  · rw [if_pos h1] at h
    simp only [one, Res.tok.injEq] at h; subst h; simp [Tok.extent]
  rw [if_neg h1] at h
  by_cases h2 : b = 40
  · rw [if_pos h2] at h
    simp only [one, Res.tok.injEq] at h; subst h; simp [Tok.extent]
  rw [if_neg h2] at h
  by_cases h3 : b = 41
  · rw [if_pos h3] at h
    simp only [one, Res.tok.injEq] at h; subst h; simp [Tok.extent]
  rw [if_neg h3] at h
  by_cases h4 : b = 123
  · rw [if_pos h4] at h
    simp only [one, Res.tok.injEq] at h; subst h; simp [Tok.extent]
  rw [if_neg h4] at h
  by_cases h5 : b = 125
  · rw [if_pos h5] at h
    simp only [one, Res.tok.injEq] at h; subst h; simp [Tok.extent]
  rw [if_neg h5] at h
  by_cases h6 : b = 91
  · rw [if_pos h6] at h
    simp only [one, Res.tok.injEq] at h; subst h; simp [Tok.extent]
  rw [if_neg h6] at h
  by_cases h7 : b = 93
  · rw [if_pos h7] at h
    simp only [one, Res.tok.injEq] at h; subst h; simp [Tok.extent]
  rw [if_neg h7] at h
  by_cases h8 : b = 58
  · rw [if_pos h8] at h
    simp only [one, Res.tok.injEq] at h; subst h; simp [Tok.extent]
  rw [if_neg h8] at h
  by_cases h9 : b = 44
  · rw [if_pos h9] at h
    simp only [one, Res.tok.injEq] at h; subst h; simp [Tok.extent]
  rw [if_neg h9] at h
  by_cases h10 : b = 46
  · rw [if_pos h10] at h
    simp only [one, Res.tok.injEq] at h; subst h; simp [Tok.extent]
  rw [if_neg h10] at h
  by_cases h11 : b = 59
  · rw [if_pos h11] at h
    simp only [one, Res.tok.injEq] at h; subst h; simp [Tok.extent]
  rw [if_neg h11] at h
  by_cases h12 : b = 124
  · rw [if_pos h12] at h
    split at h <;> (simp only [one, two, Res.tok.injEq] at h; subst h; simp [Tok.extent])
  rw [if_neg h12] at h
  by_cases h13 : b = 60
  · rw [if_pos h13] at h
    split at h <;> (simp only [one, two, Res.tok.injEq] at h; subst h; simp [Tok.extent])
  rw [if_neg h13] at h
  by_cases h14 : b = 62
  · rw [if_pos h14] at h
    split at h <;> (simp only [one, two, Res.tok.injEq] at h; subst h; simp [Tok.extent])
  rw [if_neg h14] at h
  by_cases h15 : b = 43
  · rw [if_pos h15] at h
    simp only [one, Res.tok.injEq] at h; subst h; simp [Tok.extent]
  rw [if_neg h15] at h
  by_cases h16 : b = 38
  · rw [if_pos h16] at h
    split at h <;> (simp only [one, two, Res.tok.injEq] at h; subst h; simp [Tok.extent])
  rw [if_neg h16] at h
  by_cases h17 : b = 42
  · rw [if_pos h17] at h
    simp only [one, Res.tok.injEq] at h; subst h; simp [Tok.extent]
  rw [if_neg h17] at h
  by_cases h18 : b = 45
  · rw [if_pos h18] at h
    split at h <;> (simp only [one, two, Res.tok.injEq] at h; subst h; simp [Tok.extent])
  rw [if_neg h18] at h
  cases h

theorem strTok_progress {kind : String} {off total : Nat} {r : Except Err (Bytes × Bytes)} {t : Tok}
    (h : strTok kind off total r = .tok t) :
    ∃ v r', r = .ok (v, r') ∧ t.extent = off + (total - r'.length) := by
  unfold strTok at h
  split at h
  · rename_i v r'
    simp only [Res.tok.injEq] at h
    subst h
    exact ⟨v, r', rfl, rfl⟩
  · cases h

/-- on a non-empty rest of the buffer every token the scanner returns consumes at least one byte and
ends inside the buffer -/
theorem scanTokenAt_progress (s : Bytes) (t : Tok) (h : scanTokenAt s = .tok t) (hne : s ≠ []) :
    0 < t.extent ∧ t.extent ≤ s.length := by
  cases s with
  | nil => exact absurd rfl hne
  | cons b rest =>
    unfold scanTokenAt at h
    simp only at h
    by_cases h1 : b = SP ∨ b = TAB
    · -- SPACE starting with a blank or a tab
      rw [if_pos h1] at h
      have hsl : spaceLike (b :: rest) = true := by
        rcases h1 with rfl | rfl <;> simp [spaceLike]
      split at h
      · rename_i n hn
        simp only [Res.tok.injEq] at h
        subst h
        exact ⟨by simpa [Tok.extent] using spaceLen_pos _ _ hsl hn, by simpa [Tok.extent] using spaceLen_le _ _ hn⟩
      · cases h
    · rw [if_neg h1] at h
      by_cases h2 : b = SL
      · rw [if_pos h2] at h
        cases rest with
        | nil => simp [one] at h; subst h; simp [Tok.extent]
        | cons c rest' =>
          simp only at h
          by_cases h3 : c = Tokenizer.ST ∨ c = SL
          · rw [if_pos h3] at h
            have hsl : spaceLike (b :: c :: rest') = true := by
              subst h2
              rcases h3 with rfl | rfl <;> simp [spaceLike]
            split at h
            · rename_i n hn
              simp only [Res.tok.injEq] at h
              subst h
              subst h2
              exact ⟨by simpa [Tok.extent] using spaceLen_pos _ _ hsl hn, by simpa [Tok.extent] using spaceLen_le _ _ hn⟩
            · cases h
          · rw [if_neg h3] at h
            simp [one] at h; subst h; simp [Tok.extent]
      · rw [if_neg h2] at h
        split at h
        · -- identifier / keyword
          simp only [Res.tok.injEq] at h
          subst h
          have := identLen_le rest
          simp [Tok.extent]; omega
        · split at h
          · -- integer
            split at h
            · rename_i n v hn
              simp only [Res.tok.injEq] at h
              subst h
              have hb := intScan_bound (b :: rest) 0 0 hn
              rename_i hnum _
              have hpos : 0 < n := by
                simp only [intScan, hnum, if_true] at hn
                have := intScan_bound rest 1 _ hn
                omega
              simp [Tok.extent] at hb ⊢; omega
            · cases h
          · -- strings, interpolated strings, punctuation
            split at h
            · obtain ⟨v, r', hscan, hext⟩ := strTok_progress h
              have := scanStr_rest_lt _ hscan
              simp at hext ⊢; omega
            · split at h
              · obtain ⟨v, r', hscan, hext⟩ := strTok_progress h
                have := scanRaw_rest_lt _ hscan
                simp at hext ⊢; omega
              · split at h
                · cases rest with
                  | nil => cases h
                  | cons c rest' =>
                    simp only at h
                    split at h
                    · obtain ⟨v, r', hscan, hext⟩ := strTok_progress h
                      have := scanStr_rest_lt _ hscan
                      simp at hext ⊢; omega
                    · split at h
                      · obtain ⟨v, r', hscan, hext⟩ := strTok_progress h
                        have := scanRaw_rest_lt _ hscan
                        simp at hext ⊢; omega
                      · cases h
                · have := scanPunct_progress b rest t h
                  simpa using this

end Folang.Tokenizer
