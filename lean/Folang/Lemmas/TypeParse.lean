import Folang.Model.TypeSyntax
/-
One-step behaviour of the type-expression parser model, given the results of its sub-parsers.
-/
namespace Folang.TypeExpr
variable (env : TEnv)

def notHead (t : TTok) (ts : List TTok) : Prop := ts.head? ≠ some t

theorem pType_one {f : Nat} {ts r : List TTok} {t : FT} (h : parseTypeArrows env f ts = some ([t], r)) :
    parseType env (f + 1) ts = some (t, r) := by
  simp [parseType, h]

theorem pType_many {f : Nat} {ts r : List TTok} {a b : FT} {cs : List FT}
    (h : parseTypeArrows env f ts = some (a :: b :: cs, r)) :
    parseType env (f + 1) ts = some (.func (a :: b :: cs), r) := by
  simp [parseType, h]

theorem pArrows_last {f : Nat} {ts r : List TTok} {one : FT} (h : parseElemType env f ts = some (one, r))
    (hr : notHead .arrow r) : parseTypeArrows env (f + 1) ts = some ([one], r) := by
  cases r with
  | nil => simp [parseTypeArrows, h]
  | cons x r' =>
    have : x ≠ .arrow := by intro hx; subst hx; exact hr rfl
    cases x <;> simp_all [parseTypeArrows]

theorem pArrows_more {f : Nat} {ts r r' : List TTok} {one : FT} {rest : List FT}
    (h : parseElemType env f ts = some (one, .arrow :: r)) (h2 : parseTypeArrows env f r = some (rest, r')) :
    parseTypeArrows env (f + 1) ts = some (one :: rest, r') := by
  simp [parseTypeArrows, h, h2]

theorem pElem_one {f : Nat} {ts r : List TTok} {t : FT} (h : parseTermList env f ts = some ([t], r)) :
    parseElemType env (f + 1) ts = some (t, r) := by
  simp [parseElemType, h]

theorem pElem_many {f : Nat} {ts r : List TTok} {a b : FT} {cs : List FT}
    (h : parseTermList env f ts = some (a :: b :: cs, r)) :
    parseElemType env (f + 1) ts = some (.tuple (a :: b :: cs), r) := by
  simp [parseElemType, h]

theorem pTerms_last {f : Nat} {ts r : List TTok} {one : FT} (h : parseTermType env f ts = some (one, r))
    (hr : notHead .star r) : parseTermList env (f + 1) ts = some ([one], r) := by
  cases r with
  | nil => simp [parseTermList, h]
  | cons x r' =>
    have : x ≠ .star := by intro hx; subst hx; exact hr rfl
    cases x <;> simp_all [parseTermList]

theorem pTerms_more {f : Nat} {ts r r' : List TTok} {one : FT} {rest : List FT}
    (h : parseTermType env f ts = some (one, .star :: r)) (h2 : parseTermList env f r = some (rest, r')) :
    parseTermList env (f + 1) ts = some (one :: rest, r') := by
  simp [parseTermList, h, h2]

theorem pTerm_slice {f : Nat} {r r' : List TTok} {e : FT} (h : parseTermType env f r = some (e, r')) :
    parseTermType env (f + 1) (.lb :: .rb :: r) = some (.slice e, r') := by
  simp [parseTermType, h]

theorem pTerm_atom {f : Nat} {ts : List TTok} (hlb : notHead .lb ts) :
    parseTermType env (f + 1) ts = parseAtomType env f ts := by
  cases ts with
  | nil => simp [parseTermType]
  | cons x r =>
    have : x ≠ .lb := by intro hx; subst hx; exact hlb rfl
    cases x <;> simp_all [parseTermType]

theorem pAtom_unit {f : Nat} {r : List TTok} : parseAtomType env (f + 1) (.lp :: .rp :: r) = some (.unit, r) := by
  simp [parseAtomType]

theorem pAtom_paren {f : Nat} {x : TTok} {r0 r : List TTok} {t : FT} (hx : x ≠ .rp)
    (h : parseType env f (x :: r0) = some (t, .rp :: r)) :
    parseAtomType env (f + 1) (.lp :: x :: r0) = some (t, r) := by
  cases x <;> simp_all [parseAtomType]

theorem pTys_last {f : Nat} {ts r : List TTok} {one : FT} (h : parseType env f ts = some (one, r))
    (hr : notHead .comma r) : parseTypeList env (f + 1) ts = some ([one], r) := by
  cases r with
  | nil => simp [parseTypeList, h]
  | cons x r' =>
    have : x ≠ .comma := by intro hx; subst hx; exact hr rfl
    cases x <;> simp_all [parseTypeList]

theorem pTys_more {f : Nat} {ts r r' : List TTok} {one : FT} {rest : List FT}
    (h : parseType env f ts = some (one, .comma :: r)) (h2 : parseTypeList env f r = some (rest, r')) :
    parseTypeList env (f + 1) ts = some (one :: rest, r') := by
  simp [parseTypeList, h, h2]

theorem pathToks_head (p1 : String) (ps : List String) : ∃ tl, pathToks p1 ps = .id p1 :: tl := by
  cases ps with
  | nil => exact ⟨[], rfl⟩
  | cons p ps => exact ⟨.dot :: pathToks p ps, rfl⟩

theorem parseFullName_path : ∀ (ps : List String) (p1 : String) (fuel : Nat) (rest : List TTok),
    ps.length + 1 ≤ fuel → notHead .dot rest →
      parseFullName fuel (pathToks p1 ps ++ rest) = some (pathName p1 ps, rest) := by
  intro ps
  induction ps with
  | nil =>
    intro p1 fuel rest hf hd
    cases fuel with
    | zero => simp at hf
    | succ f =>
      simp only [pathToks, pathName, List.cons_append, List.nil_append]
      cases rest with
      | nil => simp [parseFullName]
      | cons x r =>
        have : x ≠ .dot := by intro hx; subst hx; exact hd rfl
        cases x <;> simp_all [parseFullName]
  | cons p ps ih =>
    intro p1 fuel rest hf hd
    cases fuel with
    | zero => simp at hf
    | succ f =>
      simp only [pathToks, pathName, List.cons_append]
      have := ih p f rest (by simp at hf; omega) hd
      simp [parseFullName, this]

theorem notBase {p1 : String} (h : isBaseName p1 = false) :
    p1 ≠ "string" ∧ p1 ≠ "int" ∧ p1 ≠ "bool" ∧ p1 ≠ "float" ∧ p1 ≠ "any" := by
  simp only [isBaseName, Bool.or_eq_false_iff, beq_eq_false_iff_ne, ne_eq] at h
  exact ⟨h.1.1.1.1, h.1.1.1.2, h.1.1.2, h.1.2, h.2⟩

theorem pAtom_named0 {f : Nat} {p1 : String} {ps : List String} {rest : List TTok} {kind goName : String}
    (hb : isBaseName p1 = false) (hf : ps.length + 1 ≤ f + 1) (hd : notHead .dot rest) (hl : notHead .lt rest)
    (hlook : env.lookup (pathName p1 ps) = some (kind, goName, 0)) :
    parseAtomType env (f + 1) (pathToks p1 ps ++ rest) = some (.named kind goName [], rest) := by
  obtain ⟨tl, htl⟩ := pathToks_head p1 ps
  have hfull := parseFullName_path ps p1 (f + 1) rest hf hd
  rw [htl] at hfull ⊢
  obtain ⟨h1, h2, h3, h4, h5⟩ := notBase hb
  simp only [List.cons_append] at hfull ⊢
  simp only [parseAtomType, h1, h2, h3, h4, h5, if_false, hfull, hlook]
  cases rest with
  | nil => simp
  | cons x r =>
    have : x ≠ .lt := by intro hx; subst hx; exact hl rfl
    cases x <;> simp_all

theorem pAtom_namedN {f : Nat} {p1 : String} {ps : List String} {r5 r6 : List TTok} {kind goName : String}
    {targs : List FT} {arity : Nat}
    (hb : isBaseName p1 = false) (hf : ps.length + 1 ≤ f + 1)
    (hlook : env.lookup (pathName p1 ps) = some (kind, goName, arity))
    (hargs : parseTypeList env f r5 = some (targs, .gt :: r6)) (hlen : targs.length = arity) :
    parseAtomType env (f + 1) (pathToks p1 ps ++ .lt :: r5) = some (.named kind goName targs, r6) := by
  obtain ⟨tl, htl⟩ := pathToks_head p1 ps
  have hfull := parseFullName_path ps p1 (f + 1) (.lt :: r5) hf (by simp [notHead])
  rw [htl] at hfull ⊢
  obtain ⟨h1, h2, h3, h4, h5⟩ := notBase hb
  simp only [List.cons_append] at hfull ⊢
  simp [parseAtomType, h1, h2, h3, h4, h5, hfull, hlook, hargs, hlen]

theorem pAtom_base {f : Nat} (b : Base) (rest : List TTok) :
    parseAtomType env (f + 1) (.id b.name :: rest) = some (b.ft, rest) := by
  cases b <;> simp [parseAtomType, Base.name, Base.ft]

end Folang.TypeExpr
