import Folang.Lemmas.TypeParse
/-
Round trip of the type-expression parser model on every rendering of every concrete syntax tree.
-/
namespace Folang.TypeExpr
variable (env : TEnv)

def StopM (rest : List TTok) : Prop := notHead .dot rest ∧ notHead .lt rest
def StopE (rest : List TTok) : Prop := StopM rest ∧ notHead .star rest
def StopT (rest : List TTok) : Prop := StopE rest ∧ notHead .arrow rest

def OpenTok (x : TTok) : Prop := x = .lb ∨ x = .lp ∨ ∃ s, x = .id s

theorem headAtom (a : SAtom) : ∃ x tl, renderAtom a = x :: tl ∧ (x = .lp ∨ ∃ s, x = .id s) := by
  cases a with
  | base b => exact ⟨_, _, rfl, Or.inr ⟨_, rfl⟩⟩
  | unit => exact ⟨_, _, rfl, Or.inl rfl⟩
  | paren t => exact ⟨_, _, rfl, Or.inl rfl⟩
  | named p1 ps targs =>
    obtain ⟨tl, htl⟩ := pathToks_head p1 ps
    cases targs with
    | nil => exact ⟨.id p1, tl, by simp [renderAtom, htl], Or.inr ⟨_, rfl⟩⟩
    | cons t ts => exact ⟨.id p1, _, by simp only [renderAtom, htl, List.cons_append]; rfl, Or.inr ⟨_, rfl⟩⟩

theorem headTerm (m : STerm) : ∃ x tl, renderTerm m = x :: tl ∧ OpenTok x := by
  cases m with
  | slice e => exact ⟨.lb, .rb :: renderTerm e, by simp [renderTerm], Or.inl rfl⟩
  | atom a =>
    obtain ⟨x, tl, h, hx⟩ := headAtom a
    exact ⟨x, tl, by simp [renderTerm, h], Or.inr hx⟩

theorem headElem (e : SElem) : ∃ x tl, renderElem e = x :: tl ∧ OpenTok x := by
  cases e with
  | stars f rest =>
    obtain ⟨x, tl, h, hx⟩ := headTerm f
    exact ⟨x, tl ++ renderTerms rest, by simp [renderElem, h], hx⟩

theorem headTy (t : STy) : ∃ x tl, renderTy t = x :: tl ∧ OpenTok x := by
  cases t with
  | arrows f rest =>
    obtain ⟨x, tl, h, hx⟩ := headElem f
    exact ⟨x, tl ++ renderElems rest, by simp [renderTy, h], hx⟩

theorem OpenTok.ne_rp {x : TTok} (h : OpenTok x) : x ≠ .rp := by
  rcases h with rfl | rfl | ⟨s, rfl⟩ <;> simp

structure RT (n : Nat) : Prop where
  ty : ∀ t, sizeTy t ≤ n → wfTy env t = true → ∀ fuel, sizeTy t ≤ fuel → ∀ rest, StopT rest →
    parseType env fuel (renderTy t ++ rest) = some (denoteTy env t, rest)
  elem : ∀ e, sizeElem e ≤ n → wfElem env e = true → ∀ fuel, sizeElem e ≤ fuel → ∀ rest, StopE rest →
    parseElemType env fuel (renderElem e ++ rest) = some (denoteElem env e, rest)
  term : ∀ m, sizeTerm m ≤ n → wfTerm env m = true → ∀ fuel, sizeTerm m ≤ fuel → ∀ rest, StopM rest →
    parseTermType env fuel (renderTerm m ++ rest) = some (denoteTerm env m, rest)
  atom : ∀ a, sizeAtom a ≤ n → wfAtom env a = true → ∀ fuel, sizeAtom a ≤ fuel → ∀ rest, StopM rest →
    parseAtomType env fuel (renderAtom a ++ rest) = some (denoteAtom env a, rest)

variable {env}

/-- TERM ('*' TERM)* -/
theorem rt_terms {n : Nat} (ih : RT env n) : ∀ (ts : List STerm) (f : STerm),
    sizeTerm f ≤ n → sizeTerms ts ≤ n → wfTerm env f = true → wfTerms env ts = true →
    ∀ fuel, 1 + sizeTerm f + sizeTerms ts ≤ fuel → ∀ rest, StopE rest →
      parseTermList env fuel (renderTerm f ++ renderTerms ts ++ rest) =
        some (denoteTerm env f :: denoteTerms env ts, rest) := by
  intro ts
  induction ts with
  | nil =>
    intro f hf _ hwf _ fuel hfuel rest hstop
    cases fuel with
    | zero => omega
    | succ k =>
      simp only [renderTerms, List.append_nil, denoteTerms]
      exact pTerms_last env (ih.term f hf hwf k (by simp [sizeTerms] at hfuel; omega) rest hstop.1) hstop.2
  | cons t ts iht =>
    intro f hf hts hwf hwts fuel hfuel rest hstop
    simp only [sizeTerms] at hts hfuel
    simp only [wfTerms, Bool.and_eq_true] at hwts
    cases fuel with
    | zero => omega
    | succ k =>
      simp only [renderTerms, denoteTerms, List.append_assoc, List.cons_append]
      have h1 := ih.term f hf hwf k (by omega) (.star :: (renderTerm t ++ (renderTerms ts ++ rest)))
        ⟨by simp [notHead], by simp [notHead]⟩
      have h2 := iht t (by omega) (by omega) hwts.1 hwts.2 k (by omega) rest hstop
      simp only [List.append_assoc] at h2
      exact pTerms_more env h1 h2

/-- ELEM ('->' ELEM)* -/
theorem rt_elems {n : Nat} (ih : RT env n) : ∀ (es : List SElem) (f : SElem),
    sizeElem f ≤ n → sizeElems es ≤ n → wfElem env f = true → wfElems env es = true →
    ∀ fuel, 1 + sizeElem f + sizeElems es ≤ fuel → ∀ rest, StopT rest →
      parseTypeArrows env fuel (renderElem f ++ renderElems es ++ rest) =
        some (denoteElem env f :: denoteElems env es, rest) := by
  intro es
  induction es with
  | nil =>
    intro f hf _ hwf _ fuel hfuel rest hstop
    cases fuel with
    | zero => omega
    | succ k =>
      simp only [renderElems, List.append_nil, denoteElems]
      exact pArrows_last env (ih.elem f hf hwf k (by simp [sizeElems] at hfuel; omega) rest hstop.1) hstop.2
  | cons e es ihe =>
    intro f hf hes hwf hwes fuel hfuel rest hstop
    simp only [sizeElems] at hes hfuel
    simp only [wfElems, Bool.and_eq_true] at hwes
    cases fuel with
    | zero => omega
    | succ k =>
      simp only [renderElems, denoteElems, List.append_assoc, List.cons_append]
      have h1 := ih.elem f hf hwf k (by omega) (.arrow :: (renderElem e ++ (renderElems es ++ rest)))
        ⟨⟨by simp [notHead], by simp [notHead]⟩, by simp [notHead]⟩
      have h2 := ihe e (by omega) (by omega) hwes.1 hwes.2 k (by omega) rest hstop
      simp only [List.append_assoc] at h2
      exact pArrows_more env h1 h2

/-- TYPE (',' TYPE)* '>' -/
theorem rt_tys {n : Nat} (ih : RT env n) : ∀ (ts : List STy) (t : STy),
    sizeTy t ≤ n → sizeTys ts ≤ n → wfTy env t = true → wfTys env ts = true →
    ∀ fuel, 1 + sizeTy t + sizeTys ts ≤ fuel → ∀ rest,
      parseTypeList env fuel (renderTy t ++ renderTys ts ++ .gt :: rest) =
        some (denoteTy env t :: denoteTys env ts, .gt :: rest) := by
  intro ts
  induction ts with
  | nil =>
    intro t ht _ hwf _ fuel hfuel rest
    cases fuel with
    | zero => omega
    | succ k =>
      simp only [renderTys, List.append_nil, denoteTys]
      exact pTys_last env (ih.ty t ht hwf k (by simp [sizeTys] at hfuel; omega) (.gt :: rest)
        ⟨⟨⟨by simp [notHead], by simp [notHead]⟩, by simp [notHead]⟩, by simp [notHead]⟩) (by simp [notHead])
  | cons t2 ts iht =>
    intro t ht hts hwf hwts fuel hfuel rest
    simp only [sizeTys] at hts hfuel
    simp only [wfTys, Bool.and_eq_true] at hwts
    cases fuel with
    | zero => omega
    | succ k =>
      simp only [renderTys, denoteTys, List.append_assoc, List.cons_append]
      have h1 := ih.ty t ht hwf k (by omega) (.comma :: (renderTy t2 ++ (renderTys ts ++ .gt :: rest)))
        ⟨⟨⟨by simp [notHead], by simp [notHead]⟩, by simp [notHead]⟩, by simp [notHead]⟩
      have h2 := iht t2 (by omega) (by omega) hwts.1 hwts.2 k (by omega) rest
      simp only [List.append_assoc] at h2
      exact pTys_more env h1 h2

theorem rt_zero : RT env 0 := by
  refine ⟨?_, ?_, ?_, ?_⟩
  · intro t h; cases t; simp [sizeTy] at h
  · intro e h; cases e; simp [sizeElem] at h
  · intro m h; cases m <;> simp [sizeTerm] at h
  · intro a h; cases a <;> simp [sizeAtom] at h

theorem rt_step {n : Nat} (ih : RT env n) : RT env (n + 1) := by
  refine ⟨?_, ?_, ?_, ?_⟩
  · -- TYPE
    intro t hsz hwf fuel hfuel rest hstop
    cases t with
    | arrows f es =>
      simp only [sizeTy] at hsz hfuel
      simp only [wfTy, Bool.and_eq_true] at hwf
      cases fuel with
      | zero => omega
      | succ k =>
        have h := rt_elems ih es f (by omega) (by omega) hwf.1 hwf.2 k (by omega) rest hstop
        simp only [renderTy]
        cases es with
        | nil => simpa [denoteTy, denoteElems] using pType_one env (by simpa [denoteElems] using h)
        | cons e es' =>
          simp only [denoteElems] at h
          simpa [denoteTy, denoteElems] using pType_many env h
  · -- ELEM
    intro e hsz hwf fuel hfuel rest hstop
    cases e with
    | stars f ts =>
      simp only [sizeElem] at hsz hfuel
      simp only [wfElem, Bool.and_eq_true] at hwf
      cases fuel with
      | zero => omega
      | succ k =>
        have h := rt_terms ih ts f (by omega) (by omega) hwf.1 hwf.2 k (by omega) rest hstop
        simp only [renderElem]
        cases ts with
        | nil => simpa [denoteElem, denoteTerms] using pElem_one env (by simpa [denoteTerms] using h)
        | cons t ts' =>
          simp only [denoteTerms] at h
          simpa [denoteElem, denoteTerms] using pElem_many env h
  · -- TERM
    intro m hsz hwf fuel hfuel rest hstop
    cases m with
    | slice e =>
      simp only [sizeTerm] at hsz hfuel
      simp only [wfTerm] at hwf
      cases fuel with
      | zero => omega
      | succ k =>
        simp only [renderTerm, denoteTerm, List.cons_append]
        exact pTerm_slice env (ih.term e (by omega) hwf k (by omega) rest hstop)
    | atom a =>
      simp only [sizeTerm] at hsz hfuel
      simp only [wfTerm] at hwf
      cases fuel with
      | zero => omega
      | succ k =>
        simp only [renderTerm, denoteTerm]
        obtain ⟨x, tl, hx, hopen⟩ := headAtom a
        rw [pTerm_atom env (by rw [hx]; rcases hopen with rfl | ⟨s, rfl⟩ <;> simp [notHead])]
        exact ih.atom a (by omega) hwf k (by omega) rest hstop
  · -- ATOM
    intro a hsz hwf fuel hfuel rest hstop
    cases fuel with
    | zero => cases a <;> simp [sizeAtom] at hfuel
    | succ k =>
      cases a with
      | base b => simpa [renderAtom, denoteAtom] using pAtom_base env b rest
      | unit => simpa [renderAtom, denoteAtom] using pAtom_unit env (f := k) (r := rest)
      | paren t =>
        simp only [sizeAtom] at hsz hfuel
        simp only [wfAtom] at hwf
        obtain ⟨x, tl, hx, hopen⟩ := headTy t
        have h := ih.ty t (by omega) hwf k (by omega) (.rp :: rest)
          ⟨⟨⟨by simp [notHead], by simp [notHead]⟩, by simp [notHead]⟩, by simp [notHead]⟩
        simp only [renderAtom, denoteAtom, List.cons_append, List.append_assoc, List.singleton_append]
        rw [hx] at h ⊢
        exact pAtom_paren env hopen.ne_rp h
      | named p1 ps targs =>
        simp only [sizeAtom] at hsz hfuel
        simp only [wfAtom, Bool.and_eq_true, Bool.not_eq_true'] at hwf
        obtain ⟨⟨hb, hwts⟩, hlook⟩ := hwf
        cases hl : env.lookup (pathName p1 ps) with
        | none => simp [hl] at hlook
        | some r =>
          obtain ⟨kind, goName, arity⟩ := r
          simp only [hl, beq_iff_eq] at hlook
          cases targs with
          | nil =>
            simp only [List.length_nil] at hlook
            subst hlook
            simp only [renderAtom, denoteAtom, hl, denoteTys]
            exact pAtom_named0 env hb (by omega) hstop.1 hstop.2 hl
          | cons t ts =>
            simp only [sizeTys] at hsz hfuel
            simp only [wfTys, Bool.and_eq_true] at hwts
            simp only [renderAtom, denoteAtom, hl, List.append_assoc, List.cons_append, List.singleton_append]
            have hargs := rt_tys ih ts t (by omega) (by omega) hwts.1 hwts.2 k (by omega) rest
            simp only [List.append_assoc] at hargs
            refine pAtom_namedN env hb (by omega) hl hargs ?_
            rw [hlook]
            -- the number of parsed arguments is the number of written arguments
            have hlen : ∀ (l : List STy), (denoteTys env l).length = l.length := by
              intro l; induction l with
              | nil => rfl
              | cons a l ihl => simp [denoteTys, ihl]
            simp [hlen]

theorem rt_all (env : TEnv) : ∀ n, RT env n := by
  intro n
  induction n with
  | zero => exact rt_zero
  | succ n ih => exact rt_step ih

end Folang.TypeExpr
