import Folang.Model.TypeExpr
/-
C03: structural model of what fc emits for declarations and calls
(fc/stmt_to_go.fo: rdfToGo, udfToGo, udUnionDef, udCSDef, csConstruct, csIsVar, csConstructorName,
 rfdToGo, rootVarDefToGo; fc/parse_state.fo: csRegisterCtor, piFullName; fc/expr_to_go.fo: fcToGo,
 fcFullApplyGo, fcPartialApplyGo, varRefToGo).  Go declarations are values of `GoDecl`, not text.
-/
namespace Folang.Decl
open Folang.TypeExpr

inductive GoDecl where
  | struct (name : String) (tparams : List String) (fields : List (String × String))   -- (field, Go type)
  | iface (name : String) (tparams : List String) (method : String)
  | func (name : String) (tparams : List String) (params : List (String × String)) (result : String)
  | var (name : String) (type : String)
deriving Repr, DecidableEq

structure RecordDef where
  name : String
  tparams : List String
  fields : List (String × FT)

structure UnionDef where
  name : String
  tparams : List String
  cases : List (String × FT)        -- payload `FT.unit` = no payload

def isUnit : FT → Bool
  | .unit => true
  | _ => false

/-- rdfToGo -/
def rdfToGo (rd : RecordDef) : GoDecl :=
  .struct rd.name rd.tparams (rd.fields.map (fun f => (f.1, toGo f.2)))

def unionCSName (u c : String) : String := u ++ "_" ++ c
def csConstructorName (u c : String) : String := "New_" ++ unionCSName u c

/-- csIsVar: no payload and not generic -/
def csIsVar (tparams : List String) (payload : FT) : Bool := isUnit payload && tparams.isEmpty

def tparamStr (tparams : List String) : String := namedText "" tparams   -- "" or "[T0, T1]"

/-- udUnionDef, udCSDef, csConstruct for one union -/
def udfToGo (ud : UnionDef) : List GoDecl :=
  .iface ud.name ud.tparams (ud.name ++ "_Union") ::
  ud.cases.flatMap (fun c =>
    [ .struct (unionCSName ud.name c.1) ud.tparams (if isUnit c.2 then [] else [("Value", toGo c.2)]),
      if csIsVar ud.tparams c.2 then .var (csConstructorName ud.name c.1) ud.name
      else .func (csConstructorName ud.name c.1) ud.tparams (if isUnit c.2 then [] else [("v", toGo c.2)])
             (ud.name ++ tparamStr ud.tparams) ])

/-- what a reference to the constructor is registered as (csRegisterCtor) -/
inductive CtorRef where
  | var (goName : String)                       -- a package variable of the union type
  | func (goName : String) (paramTypes : List FT)   -- a function: Targets = [payload; union]
deriving Repr

def csRegisterCtor (ud : UnionDef) (c : String × FT) : CtorRef :=
  if csIsVar ud.tparams c.2 then .var (csConstructorName ud.name c.1)
  else .func (csConstructorName ud.name c.1) [c.2]

/-- piFullName -/
def piFullName (pkg name : String) : String := if pkg = "_" then name else pkg ++ "." ++ name

/-- varRefToGo: the Go spelling of the called function — its (qualified) name followed by the explicit
type arguments of the call site, if any -/
def varRefToGo (name : String) (targs : List FT) : String :=
  if targs.isEmpty then name else name ++ "[" ++ ", ".intercalate (targs.map toGo) ++ "]"

/-- a call as the emitter sees it: the function's Go name, the explicit type arguments given at the
call site, the declared parameter and result types, the given argument expressions (already
rendered) -/
structure FunCall where
  name : String
  targs : List FT := []
  paramTypes : List FT
  result : FT
  args : List String
  unitArgOnly : Bool := false         -- the single given argument is `()`
  inert : List Bool := []             -- per given argument: isInertArg (a missing entry counts as inert)

/-- the callee as emitted, in BOTH call forms (direct call and closure body) -/
def FunCall.callee (fc : FunCall) : String := varRefToGo fc.name fc.targs

inductive GoExpr where
  | call (callee : String) (args : List String)
  | closure (params : List (String × String)) (result : String) (hasReturn : Bool) (callee : String) (args : List String)
  /-- `(func () <closure type> { name := expr; …; return <closure> })()`: given arguments of a partial
  application that are not inert are evaluated first, once (fix of D9) -/
  | bound (binds : List (String × String)) (clo : GoExpr)
deriving Repr, DecidableEq

/-- partialArgGo over the given arguments from position `i`: what the closure mentions for each, and
the bindings evaluated beforehand -/
def paArgs : Nat → List String → List Bool → List String × List (String × String)
  | _, [], _ => ([], [])
  | i, a :: as, inert =>
    let r := paArgs (i + 1) as inert.tail
    if inert.headD true then (a :: r.1, r.2) else (("_p" ++ toString i) :: r.1, ("_p" ++ toString i, a) :: r.2)

def restNames (n : Nat) : List String := (List.range n).map (fun i => "_r" ++ toString i)

/-- fcToGo: full application = direct call (a lone unit argument is dropped); fewer arguments =
closure over the missing parameters -/
def fcToGo (fc : FunCall) : Option GoExpr :=
  let al := fc.args.length
  let tal := fc.paramTypes.length
  if al > tal then none                                -- panic("Too many argument")
  else if al < tal then
    let rest := fc.paramTypes.drop al
    let names := restNames rest.length
    let pa := paArgs 0 fc.args fc.inert
    let clo := GoExpr.closure (names.zip (rest.map toGo)) (toGo fc.result) (!isUnit fc.result) fc.callee (pa.1 ++ names)
    some (if pa.2.isEmpty then clo else .bound pa.2 clo)
  else
    some (.call fc.callee (if fc.unitArgOnly then [] else fc.args))

/-- rfdToGo signature part: parameters in order, a unit parameter is no parameter, unit result is no
result -/
def rfdSignature (name : String) (tparams : List String) (params : List (String × FT)) (result : FT) : GoDecl :=
  .func name tparams ((params.filter (fun p => !isUnit p.2)).map (fun p => (p.1, toGo p.2))) (toGo result)

end Folang.Decl
