import Folang.Model.Lib
import Folang.Model.Exhaust
/-
C05: models of the seven places where fc consumes a dictionary enumeration (dict.Keys / Values / KVs
return Go's map iteration order: an arbitrary permutation π of the entries).
-/
namespace Folang.Determinism
open Folang.Lib

variable {κ ν : Type} [DecidableEq κ]

/-- `xs |> slice.Iter (fun (k, v) -> dict.Add d k v)` -/
def addAll (d : GoMap κ ν) (kvs : List (κ × ν)) : GoMap κ ν := kvs.foldl (fun d e => dictAdd d e.1 e.2) d

/-- eqsUnion: `e3 = New; Keys es1 |> Iter (Add e3 · true); Keys es2 |> Iter (Add e3 · true)` -/
def eqsUnion (π1 π2 : List (κ × Bool) → List (κ × Bool)) (es1 es2 : GoMap κ Bool) : GoMap κ Bool :=
  addAll (addAll dictNew ((dictKeys π1 es1).map (fun k => (k, true)))) ((dictKeys π2 es2).map (fun k => (k, true)))

/-- rsRegisterNewEI: `eqsItems ei.eset |> Iter (fun key -> Add res.eid key ei)` -/
def rsRegisterNewEI {ι : Type} (π : List (κ × Bool) → List (κ × Bool)) (res : GoMap κ ι) (eset : GoMap κ Bool) (ei : ι) :
    GoMap κ ι :=
  addAll res ((dictKeys π eset).map (fun k => (k, ei)))

/-- piRegAll (each of its two loops): `KVs info |> Iter (fun (n, f) -> Add scope (fullName n) (gen f))` -/
def piRegAll {ν' : Type} (π : List (κ × ν) → List (κ × ν)) (full : κ → κ) (gen : ν → ν')
    (scope : GoMap κ ν') (info : GoMap κ ν) : GoMap κ ν' :=
  addAll scope ((dictKVs π info).map (fun e => (full e.1, gen e.2)))

/-- scLookupRecFacCur after fix 5aa1ab1:
`Values recFacMap |> Filter (recFacMatch fieldNames) |> SortBy _.Name |> Head` (with ok flag);
`srt` is slices.SortFunc by name -/
def lookupRecFac {ρ : Type} (π : List (κ × ρ) → List (κ × ρ)) (srt : List ρ → List ρ) (isMatch : ρ → Bool)
    (recFacMap : GoMap κ ρ) : Option ρ :=
  (srt ((dictValues π recFacMap).filter isMatch)).head?

/-- the same before the fix: `Values recFacMap |> TryFind (recFacMatch fieldNames)` -/
def lookupRecFacUnfixed {ρ : Type} (π : List (κ × ρ) → List (κ × ρ)) (isMatch : ρ → Bool)
    (recFacMap : GoMap κ ρ) : Option ρ :=
  (dictValues π recFacMap).find? isMatch

end Folang.Determinism
