/-
C16: model of fc's command driver (fc/main.fo: main, transpileFiles, transpileOne; fc/wrapper.go:
OnParseError; pkg/sys), after fix e5a41f0.  The per-file translation and the file system are
abstract: each argument comes with what would happen to it.
-/
namespace Folang.Driver

structure FileArg where
  name : String
  isFo : Bool          -- has suffix ".fo" (a .foi argument yields no file)
  readable : Bool      -- sys.ReadFile succeeds
  translates : Bool    -- ParseAll + RootStmtsToGo finish without panic
  writable : Bool      -- sys.WriteFile of gen_<base>.go succeeds
deriving Repr, DecidableEq

structure Outcome where
  exitOk : Bool                 -- exit status 0
  written : List String         -- arguments whose gen file was completely written
  diag : Option String          -- the argument the diagnostic names
deriving Repr, DecidableEq

/-- `transpileOne`: `none` = the process goes on; `some name` = a panic (diagnostic naming the file,
non-zero exit).  The output is written only after the whole file was translated. -/
def transpileOne (f : FileArg) : Option String × List String :=
  if !f.readable then (some f.name, [])                 -- Panicf1 "Can't open file"
  else if !f.translates then (some f.name, [])          -- OnParseError: "<file>: <msg>", exit 1
  else if !f.isFo then (none, [])                        -- .foi: declarations only
  else if !f.writable then (some f.name, [])            -- "Can't write file", exit 1 (fix e5a41f0)
  else (none, [f.name])

/-- `slice.Fold transpileOne parser files`, stopping at the first panic (the process exits) -/
def transpileFiles : List FileArg → Outcome
  | [] => { exitOk := true, written := [], diag := none }
  | f :: rest =>
    match transpileOne f with
    | (some d, w) => { exitOk := false, written := w, diag := some d }
    | (none, w) =>
      let o := transpileFiles rest
      { o with written := w ++ o.written }

/-- `main`: no argument prints the usage and exits 0 -/
def main (args : List FileArg) : Outcome := transpileFiles args

end Folang.Driver
