/-
C10: model of `frt.OpEqual` = `cmp.Equal(e1, e2, opts...)` (github.com/google/go-cmp v0.6.0) on the
Go values that represent first-order Folang values, and of that representation.

GoVal: ints, strings, bools, structs (type name + named fields), interface values (nil or a
dynamic value), slices (nil flag + elements).
cmp.Equal rules modelled: values of different dynamic type are unequal; struct fields are compared
pairwise and ALL of them are visited (no short circuit), reaching an unexported field panics unless
an Exporter allows it; a nil slice differs from an empty non-nil slice unless EquateEmpty is given;
slices are equal iff same length and pairwise equal.
-/
namespace Folang.Equal

mutual
inductive GoVal where
  | int (i : Int)
  | str (s : String)
  | bool (b : Bool)
  | struct (name : List String) (fs : GoFields)   -- type identity: [Rec] or [Union, Case]
  | iface (dyn : GoVals)                    -- [] = nil interface, [v] = holds v
  | nilSlice                               -- the nil slice
  | slice (es : GoVals)                    -- a non-nil slice
inductive GoVals where
  | nil
  | cons (h : GoVal) (t : GoVals)
inductive GoFields where
  | nil
  | cons (n : String) (v : GoVal) (t : GoFields)
end

mutual
/-- first-order Folang values; tuples are records named `frt.Tuple2` / `frt.Tuple3` -/
inductive FVal where
  | int (i : Int)
  | str (s : String)
  | bool (b : Bool)
  | record (name : String) (fs : FFields)
  | union (uname cname : String) (payload : FVals)   -- [] = case without payload, [v] = payload
  | slice (es : FVals)
inductive FVals where
  | nil
  | cons (h : FVal) (t : FVals)
inductive FFields where
  | nil
  | cons (n : String) (v : FVal) (t : FFields)
end

def GoVals.isEmpty : GoVals → Bool
  | .nil => true
  | .cons _ _ => false

/-- Go: an identifier is exported iff it starts with an upper-case letter -/
def exported (n : String) : Bool :=
  match n.toList with
  | c :: _ => c.isUpper
  | [] => false

/-- result of cmp.Equal: `.error ()` = panic -/
abbrev R := Except Unit Bool

def both (a b : R) : R :=
  match a, b with
  | .ok x, .ok y => .ok (x && y)
  | _, _ => .error ()

mutual
/-- `cmp.Equal(x, y)` with `exporter` = cmp.Exporter(all) given, `equateEmpty` = cmpopts.EquateEmpty given -/
def cmpEq (exporter equateEmpty : Bool) : GoVal → GoVal → R
  | .int a, .int b => .ok (decide (a = b))
  | .str a, .str b => .ok (decide (a = b))
  | .bool a, .bool b => .ok (decide (a = b))
  | .struct n1 f1, .struct n2 f2 =>
    if n1 ≠ n2 then .ok false else cmpFields exporter equateEmpty f1 f2
  | .iface d1, .iface d2 => cmpVals exporter equateEmpty d1 d2
  | .nilSlice, .nilSlice => .ok true
  | .nilSlice, .slice e => .ok (equateEmpty && e.isEmpty)
  | .slice e, .nilSlice => .ok (equateEmpty && e.isEmpty)
  | .slice e1, .slice e2 => cmpVals exporter equateEmpty e1 e2
  | _, _ => .ok false
/-- element lists: equal iff same length and pairwise equal (every pair is visited) -/
def cmpVals (exporter equateEmpty : Bool) : GoVals → GoVals → R
  | .nil, .nil => .ok true
  | .cons h1 t1, .cons h2 t2 => both (cmpEq exporter equateEmpty h1 h2) (cmpVals exporter equateEmpty t1 t2)
  | _, _ => .ok false
def cmpFields (exporter equateEmpty : Bool) : GoFields → GoFields → R
  | .nil, .nil => .ok true
  | .cons n1 v1 t1, .cons n2 v2 t2 =>
    if n1 ≠ n2 then .ok false
    else if !exported n1 && !exporter then .error ()
    else both (cmpEq exporter equateEmpty v1 v2) (cmpFields exporter equateEmpty t1 t2)
  | _, _ => .ok false
end

/-- frt.OpEqual after the fix: Exporter(all) + EquateEmpty -/
def OpEqual (a b : GoVal) : R := cmpEq true true a b
/-- frt.OpEqual before the fix: plain cmp.Equal -/
def OpEqualUnfixed (a b : GoVal) : R := cmpEq false false a b
def OpNotEqual (a b : GoVal) : R := (OpEqual a b).map not

mutual
/-- canonical Go representation of a Folang value (empty slices as non-nil empty) -/
def lower : FVal → GoVal
  | .int i => .int i
  | .str s => .str s
  | .bool b => .bool b
  | .record name fs => .struct [name] (lowerFields fs)
  | .union u c ps => .iface (.cons (.struct [u, c] (lowerPayload ps)) .nil)
  | .slice es => .slice (lowerVals es)
def lowerVals : FVals → GoVals
  | .nil => .nil
  | .cons h t => .cons (lower h) (lowerVals t)
/-- the payload of a union case is the field `Value` of struct `U_C` (no field when there is none) -/
def lowerPayload : FVals → GoFields
  | .nil => .nil
  | .cons h t => .cons "Value" (lower h) (lowerPayload t)
def lowerFields : FFields → GoFields
  | .nil => .nil
  | .cons n v t => .cons n (lower v) (lowerFields t)
end

mutual
/-- forget whether an empty slice is nil -/
def norm : GoVal → GoVal
  | .int i => .int i
  | .str s => .str s
  | .bool b => .bool b
  | .struct n fs => .struct n (normFields fs)
  | .iface d => .iface (normVals d)
  | .nilSlice => .slice .nil
  | .slice es => .slice (normVals es)
def normVals : GoVals → GoVals
  | .nil => .nil
  | .cons h t => .cons (norm h) (normVals t)
def normFields : GoFields → GoFields
  | .nil => .nil
  | .cons n v t => .cons n (norm v) (normFields t)
end

/-- `g` represents the Folang value `a`: it is the canonical representation up to nil-ness of
empty slices (a Go nil slice always has no elements) -/
def Repr (a : FVal) (g : GoVal) : Prop := norm g = lower a

end Folang.Equal
