import Folang.Model.Lib
/-
C09: model of the accept/reject decision for a `match` on a union value
(fc/parser.fo: parseMatchRules, parseURules, parseUnionMatchRules, exaustiveCheck).

cases : the case names of the matched union (from lookupUniInfo)
arms  : the case names of the non-default arms, in source order
dflt  : whether a default arm `| _ ->` follows them
π     : the order in which dict.KVs enumerates the coverage dictionary
-/
namespace Folang.Exhaust
open Folang.Lib

inductive Verdict where
  | accept
  | reject (msg : String)      -- diagnostic
deriving Repr, DecidableEq

/-- `exaustiveCheck`: cmap = ToDict [(c,false) | c ∈ cases]; every arm does `dict.Add cmap arm true`;
notFounds = KVs cmap |> Filter (not ∘ snd); non-empty ⇒ panic naming `Head notFounds` -/
def exaustiveCheck (π : List (String × Bool) → List (String × Bool)) (cases arms : List String) : Verdict :=
  let cmap : GoMap String Bool := dictToDict (cases.map (fun c => (c, false)))
  let marked := arms.foldl (fun d a => dictAdd d a true) cmap
  let notFounds := (dictKVs π marked).filter (fun p => !p.2)
  match notFounds with
  | [] => .accept
  | (name, _) :: _ => .reject ("match does not cover all cases. Can't find case: " ++ name ++ ".")

/-- the decision skeleton: a default-only match is rejected; at least one arm is parsed; a default arm
skips the check -/
def decide (π : List (String × Bool) → List (String × Bool)) (cases arms : List String) (dflt : Bool) : Verdict :=
  match arms with
  | [] => .reject "Only default case, illegal."
  | _ :: _ => if dflt then .accept else exaustiveCheck π cases arms

def accepts (π : List (String × Bool) → List (String × Bool)) (cases arms : List String) (dflt : Bool) : Bool :=
  decide π cases arms dflt == .accept

/-- the emitted type switch: index of the first arm whose case is the value's constructor -/
def dispatch (arms : List String) (tag : String) : Option Nat := arms.findIdx? (· == tag)

end Folang.Exhaust
