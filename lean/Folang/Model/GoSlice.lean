/-
Model of Go slices over a heap of arrays, and of every exported function of
`/repo/pkg/slice/slice.go`, written statement by statement after the Go bodies.

* `Heap α`  = list of arrays (array id = index; allocation appends an array).
* `Slice`   = `nil | mk arr off len cap` (a Go slice header).
* `appendN` = Go's `append(s, xs...)`: writes in place when `len+k ≤ cap`, otherwise
  allocates a fresh array whose capacity is given by an arbitrary growth oracle `g`
  (`max` with the needed size, so every oracle is admissible).
* `for _, e := range s` / `for i := a; i < b; i++ { … s[i] … }` are index loops that read
  the element from the *current* heap at every iteration (`rangeLoop`, `idxLoop`).
* `slices.SortFunc` is a parameter `srt : List α → List α` applied in place to the copy.

Core Lean only (the oracle executable links this file).
-/
namespace Folang.GoSlice

inductive Slice where
  | nil : Slice
  | mk (arr off len cap : Nat) : Slice
deriving Repr, DecidableEq, Inhabited

abbrev Heap (α : Type) := List (List α)

inductive Panic where
  | index : Panic                 -- Go runtime "index out of range" / "slice bounds out of range"
  | msg (s : String) : Panic      -- explicit panic("…") in slice.go
deriving Repr, DecidableEq, Inhabited

abbrev Growth := Nat → Nat → Nat   -- old capacity → needed length → new capacity (max'ed with needed)

variable {α β : Type}

def Slice.len : Slice → Nat
  | .nil => 0
  | .mk _ _ l _ => l

def Slice.cap : Slice → Nat
  | .nil => 0
  | .mk _ _ _ c => c

def arrOf (h : Heap α) (a : Nat) : List α := h.getD a []

/-- contents of a slice value -/
def read (h : Heap α) : Slice → List α
  | .nil => []
  | .mk a o l _ => ((arrOf h a).drop o).take l

/-- `s[i]`; `none` is Go's index-out-of-range panic -/
def getAt (h : Heap α) (s : Slice) (i : Nat) : Option α := (read h s)[i]?

def writeAt (arr : List α) (pos : Nat) (xs : List α) : List α :=
  arr.take pos ++ xs ++ arr.drop (pos + xs.length)

/-- store `xs` into array `a` from cell `pos`; storing nothing touches nothing -/
def writeCells (h : Heap α) (a pos : Nat) (xs : List α) : Heap α :=
  if xs.isEmpty then h else h.set a (writeAt (arrOf h a) pos xs)

/-- a fresh array holding `xs`, capacity `max cap xs.length` -/
def allocWith [Inhabited α] (h : Heap α) (xs : List α) (cap : Nat) : Slice × Heap α :=
  (.mk h.length 0 xs.length (max cap xs.length),
   h ++ [xs ++ List.replicate (max cap xs.length - xs.length) default])

/-- Go `append(s, xs...)` -/
def appendN [Inhabited α] (g : Growth) (h : Heap α) (s : Slice) (xs : List α) : Slice × Heap α :=
  match s with
  | .nil => if xs.isEmpty then (.nil, h) else allocWith h xs (g 0 xs.length)
  | .mk a o l c =>
    if l + xs.length ≤ c then
      (.mk a o (l + xs.length) c, writeCells h a (o + l) xs)
    else allocWith h (read h s ++ xs) (g c (l + xs.length))

/-- Go `s[i:j]` for `i ≤ j ≤ cap` (the only forms used: `s[1:]`, `s[0:len-1]`) -/
def subslice (s : Slice) (i j : Nat) : Except Panic Slice :=
  match s with
  | .nil => if i = 0 ∧ j = 0 then .ok .nil else .error .index
  | .mk a o _ c => if i ≤ j ∧ j ≤ c then .ok (.mk a (o + i) (j - i) (c - i)) else .error .index

/-- Go `s[:j:k]` (the forms used: `s[:0:0]`, `s[:len(s):len(s)]`) -/
def slice3 (s : Slice) (j k : Nat) : Except Panic Slice :=
  match s with
  | .nil => if j = 0 ∧ k = 0 then .ok .nil else .error .index
  | .mk a o _ c => if j ≤ k ∧ k ≤ c then .ok (.mk a o j k) else .error .index

abbrev St (α : Type) := Slice × Heap α

/-- `for i := lo; i < lo+fuel; i++ { e := s[i]; body i e }`, reading `s[i]` from the current heap
(`hp` projects the heap out of the loop state) -/
def idxLoop {τ : Type} (hp : τ → Heap α) (s : Slice) (body : Nat → α → τ → Except Panic τ) :
    (fuel i : Nat) → τ → Except Panic τ
  | 0, _, st => .ok st
  | fuel + 1, i, st =>
    match getAt (hp st) s i with
    | none => .error .index
    | some e =>
      match body i e st with
      | .error p => .error p
      | .ok st' => idxLoop hp s body fuel (i + 1) st'

/-- `for i, e := range s { body i e }` -/
def rangeLoop {τ : Type} (hp : τ → Heap α) (s : Slice) (body : Nat → α → τ → Except Panic τ)
    (st : τ) : Except Panic τ :=
  idxLoop hp s body s.len 0 st

section funcs
variable [Inhabited α] (g : Growth)

def Length (s : Slice) : Int := s.len
def Len (s : Slice) : Int := s.len
def IsEmpty (s : Slice) : Bool := s.len == 0
def IsNotEmpty (s : Slice) : Bool := s.len != 0

/-- `return []T{}` : a non-nil slice over a fresh zero-length array -/
def New (h : Heap α) : St α := allocWith h [] 0

def Item (h : Heap α) (index : Int) (s : Slice) : Except Panic α :=
  if index < 0 then .error .index else
  match getAt h s index.toNat with
  | none => .error .index
  | some e => .ok e

def Last (h : Heap α) (s : Slice) : Except Panic α :=
  if s.len = 0 then .error .index else
  match getAt h s (s.len - 1) with
  | none => .error .index
  | some e => .ok e

def Head (h : Heap α) (s : Slice) : Except Panic α :=
  if s.len = 0 then .error (.msg "call Head to empty list") else
  match getAt h s 0 with
  | none => .error .index
  | some e => .ok e

def Tail (s : Slice) : Except Panic Slice :=
  if s.len = 0 then .error (.msg "call Tail to empty list") else subslice s 1 s.len

def PopLast (s : Slice) : Except Panic Slice :=
  if s.len = 0 then .error .index else subslice s 0 (s.len - 1)

/-- `var res []T; for i := 0; i < num; i++ { res = append(res, s[i]) }` -/
def Take (h : Heap α) (num : Int) (s : Slice) : Except Panic (St α) :=
  idxLoop (·.2) s (fun _ e st => .ok (appendN g st.2 st.1 [e])) num.toNat 0 (.nil, h)

/-- `var res []T; for i := count; i < len(s); i++ { res = append(res, s[i]) }` -/
def Skip (h : Heap α) (count : Int) (s : Slice) : Except Panic (St α) :=
  if count < 0 then .error .index    -- first iteration reads `s[count]` (`count < 0 ≤ len(s)` always enters the loop)
  else
    idxLoop (·.2) s (fun _ e st => .ok (appendN g st.2 st.1 [e])) (s.len - count.toNat) count.toNat (.nil, h)

def Map (f : α → α) (h : Heap α) (s : Slice) : Except Panic (St α) :=
  rangeLoop (·.2) s (fun _ e st => .ok (appendN g st.2 st.1 [f e])) (.nil, h)

def Mapi (f : Int → α → α) (h : Heap α) (s : Slice) : Except Panic (St α) :=
  rangeLoop (·.2) s (fun i e st => .ok (appendN g st.2 st.1 [f i e])) (.nil, h)

def Filter (p : α → Bool) (h : Heap α) (s : Slice) : Except Panic (St α) :=
  rangeLoop (·.2) s (fun _ e st => if p e then .ok (appendN g st.2 st.1 [e]) else .ok st) (.nil, h)

/-- `res := append(s[:0:0], s...); slices.SortFunc(res, …)`; `srt` is the in-place sort -/
def SortWith (srt : List α → List α) (h : Heap α) (s : Slice) : Except Panic (St α) :=
  match slice3 s 0 0 with
  | .error p => .error p
  | .ok z =>
    let (res, h1) := appendN g h z (read h s)
    match res with
    | .nil => .ok (res, h1)
    | .mk a o l _ =>
      -- sort the `l` cells of the copy in place (same length guaranteed by `take l`)
      let sorted := (srt (read h1 res)).take l
      .ok (res, writeCells h1 a o (sorted ++ (read h1 res).drop sorted.length))

/-- `Zip`: `mk` builds the tuple -/
def Zip (mk : α → α → α) (h : Heap α) (s1 s2 : Slice) : Except Panic (St α) :=
  if s1.len ≠ s2.len then .error (.msg "zip with different length slices.") else
  rangeLoop (·.2) s1 (fun i e1 st =>
    match getAt st.2 s2 i with
    | none => .error .index
    | some e2 => .ok (appendN g st.2 st.1 [mk e1 e2])) (.nil, h)

/-- `for _, e := range s { if r, stop := f(e); stop { return r } }` — read-only scan with early return -/
def scanLoop {ρ : Type} (h : Heap α) (s : Slice) (f : α → Option ρ) : (fuel i : Nat) → Except Panic (Option ρ)
  | 0, _ => .ok none
  | fuel + 1, i =>
    match getAt h s i with
    | none => .error .index
    | some e =>
      match f e with
      | some r => .ok (some r)
      | none => scanLoop h s f fuel (i + 1)

/-- `for _, e := range s { if !pred(e) { return false } }; return true` -/
def Forall (p : α → Bool) (h : Heap α) (s : Slice) : Except Panic Bool :=
  match scanLoop h s (fun e => if !p e then some false else none) s.len 0 with
  | .error e => .error e
  | .ok (some b) => .ok b
  | .ok none => .ok true

/-- `for _, e := range s { if pred(e) { return true } }; return false` -/
def Forany (p : α → Bool) (h : Heap α) (s : Slice) : Except Panic Bool :=
  match scanLoop h s (fun e => if p e then some true else none) s.len 0 with
  | .error e => .error e
  | .ok (some b) => .ok b
  | .ok none => .ok false

/-- fixed form: `return append(s[:len(s):len(s)], elem)` -/
def PushLast (h : Heap α) (elem : α) (s : Slice) : Except Panic (St α) :=
  match slice3 s s.len s.len with
  | .error p => .error p
  | .ok s' => .ok (appendN g h s' [elem])

/-- the form before the fix, kept for the witness theorem: `return append(s, elem)` -/
def PushLastUnfixed (h : Heap α) (elem : α) (s : Slice) : Except Panic (St α) :=
  .ok (appendN g h s [elem])

/-- `ret := []T{elem}; return append(ret, s...)` -/
def PushHead (h : Heap α) (elem : α) (s : Slice) : Except Panic (St α) :=
  let (ret, h1) := allocWith h [elem] 1
  .ok (appendN g h1 ret (read h1 s))

/-- `f` returns an existing slice value (the most adversarial case for aliasing) -/
def Collect (f : α → Slice) (h : Heap α) (ss : Slice) : Except Panic (St α) :=
  rangeLoop (·.2) ss (fun _ e st => .ok (appendN g st.2 st.1 (read st.2 (f e)))) (.nil, h)

/-- `ss` is given as the list of the outer slice's elements (slice headers) -/
def Concat (h : Heap α) (ss : List Slice) : St α :=
  ss.foldl (fun st s => appendN g st.2 st.1 (read st.2 s)) (.nil, h)

def Append (h : Heap α) (s1 s2 : Slice) : St α :=
  let (r1, h1) := appendN g h .nil (read h s1)
  appendN g h1 r1 (read h1 s2)

/-- `set := make(map[T]bool); res := []T{}; for … { if _, ok := set[e]; !ok { res = append(res, e); set[e] = true } }`;
the loop state carries `set` as the list of keys inserted so far -/
def Distinct [DecidableEq α] (h : Heap α) (ss : Slice) : Except Panic (St α) :=
  match rangeLoop (τ := St α × List α) (·.1.2) ss
      (fun _ e st => if e ∈ st.2 then .ok st else .ok (appendN g st.1.2 st.1.1 [e], e :: st.2))
      (allocWith h [] 0, []) with
  | .error p => .error p
  | .ok st => .ok st.1

/-- `(value, true)` for the first match, `(zero value, false)` otherwise -/
def TryFind (p : α → Bool) (h : Heap α) (ss : Slice) : Except Panic (α × Bool) :=
  match scanLoop h ss (fun e => if p e then some (e, true) else none) ss.len 0 with
  | .error e => .error e
  | .ok (some r) => .ok r
  | .ok none => .ok (default, false)

/-- `stat := iniS; for _, e := range ss { stat = folder(stat, e) }` (read-only loop with a state) -/
def foldLoop {σ : Type} (h : Heap α) (s : Slice) (folder : σ → α → σ) : (fuel i : Nat) → σ → Except Panic σ
  | 0, _, st => .ok st
  | fuel + 1, i, st =>
    match getAt h s i with
    | none => .error .index
    | some e => foldLoop h s folder fuel (i + 1) (folder st e)

def Fold {σ : Type} (folder : σ → α → σ) (ini : σ) (h : Heap α) (ss : Slice) : Except Panic σ :=
  foldLoop h ss folder ss.len 0 ini

/-- `Iter`: the callback's effects in order, as a trace -/
def Iter {ε : Type} (action : α → ε) (h : Heap α) (s : Slice) : Except Panic (List ε) :=
  foldLoop h s (fun tr e => tr ++ [action e]) s.len 0 []

end funcs
end Folang.GoSlice
