/-
C02: model of fc's structural unification (fc/infer.fo: compositeTp / compositeTpList / unifyType),
of the hoisting of leftover type variables (collectTVarLfd, slice.Distinct, hoistTVar, newTName) and
of the type-variable allocator (fc/wrapper.go: typeVarAllocator).

Types are first-order terms: a type variable or a constructor applied to types
(int = con "int" [], []T = con "[]" [T], A->B->C = con "->" [A,B,C], T*U = con "*" [T,U],
 Name<T,U> = con "Name" [T,U]).  Field-access types and record/union info are not modelled.
-/
namespace Folang.Infer

inductive ITy where
  | var (name : String)
  | con (head : String) (args : List ITy)
deriving Repr, Inhabited

/-- one unification relation `{SrcV; Dest}` -/
abbrev Rel := String × ITy

mutual
/-- `compositeTp lhs rhs` = (the more concrete type, relations).  Variable–variable: the
lexicographically larger NAME becomes the source.  Two constructors with the same head and arity are
unified pairwise; any other pair of non-variable types silently yields the left type and no relation
(fc has no type-error detection here). -/
def compositeTp : ITy → ITy → ITy × List Rel
  | .var a, .var b =>
    if a = b then (.var a, [])
    else if a > b then (.var b, [(a, .var b)])
    else (.var a, [(b, .var a)])
  | .var a, r => (r, [(a, r)])
  | l, .var b => (l, [(b, l)])
  | .con h1 as1, .con h2 as2 =>
    if h1 = h2 ∧ as1.length = as2.length then
      let r := compositeTpList as1 as2
      (.con h1 r.1, r.2)
    else (.con h1 as1, [])
/-- `compositeTpList`: pairwise, relations concatenated in order -/
def compositeTpList : List ITy → List ITy → List ITy × List Rel
  | l :: ls, r :: rs =>
    let one := compositeTp l r
    let rest := compositeTpList ls rs
    (one.1 :: rest.1, one.2 ++ rest.2)
  | _, _ => ([], [])
end

def unifyType (l r : ITy) : List Rel := (compositeTp l r).2

/-! ### substitutions -/

abbrev Subst := String → ITy

mutual
def ITy.subst (σ : Subst) : ITy → ITy
  | .var a => σ a
  | .con h as => .con h (substList σ as)
def substList (σ : Subst) : List ITy → List ITy
  | [] => []
  | t :: ts => t.subst σ :: substList σ ts
end

/-- σ satisfies a relation when it identifies the source variable with the destination -/
def Satisfies (σ : Subst) (rels : List Rel) : Prop := ∀ r ∈ rels, σ r.1 = r.2.subst σ

/-! ### hoisting of leftover variables -/

/-- first occurrences, in order (`slice.Distinct`) -/
def distinct : List String → List String
  | [] => []
  | x :: xs => x :: (distinct xs).filter (· ≠ x)

/-- `hoistTVar`: the k-th distinct leftover variable is renamed `T{k}` -/
def hoistNames (occ : List String) : List (String × String) :=
  (distinct occ).zipIdx.map (fun p => (p.1, "T" ++ toString p.2))

/-! ### the allocator -/

structure Alloc where
  seqId : Nat
  allocated : List Nat         -- the sequence numbers handed out since the last reset

/-- `Allocate`: name = prefix ++ seqId (the name is modelled by its number), then seqId++ ;
more than 100 allocations panic ("Too many type var alloc.") -/
def Alloc.allocate (a : Alloc) : Option (Nat × Alloc) :=
  if a.seqId + 1 > 100 then none
  else some (a.seqId, { seqId := a.seqId + 1, allocated := a.allocated ++ [a.seqId] })

def Alloc.reset : Alloc := { seqId := 0, allocated := [] }

end Folang.Infer
