/-
Models of pkg/dict, pkg/strings, pkg/buf and the helpers of pkg/frt (C14), written after the Go
bodies.  Core Lean only.

* a Go `map[K]V` is an association list without duplicate keys (`GoMap`); enumeration order is an
  arbitrary permutation parameter `π`.
* Go's `strings.Split/SplitN/HasPrefix/HasSuffix/TrimSuffix` are modelled from the standard
  library's source (`genSplit`, `explode`, `Index`) over lists of bytes; `explode` (empty
  separator) is modelled for single-byte characters only.
* `bytes.Buffer` is the list of bytes written so far.
* thunk-taking conditionals run in a trace monad so that "which thunk ran" is observable.
-/
namespace Folang.Lib

/-! ## dict -/
section dict
variable {κ ν : Type} [DecidableEq κ]

/-- Go map: association list; `WF` = no duplicate keys -/
abbrev GoMap (κ ν : Type) := List (κ × ν)

def GoMap.WF (m : GoMap κ ν) : Prop := (m.map (·.1)).Nodup

/-- `m[key] = v` -/
def GoMap.set (m : GoMap κ ν) (k : κ) (v : ν) : GoMap κ ν := m.filter (fun e => decide (e.1 ≠ k)) ++ [(k, v)]

/-- `e, ok := m[key]` -/
def GoMap.get? (m : GoMap κ ν) (k : κ) : Option ν := (m.find? (fun e => decide (e.1 = k))).map (·.2)

/-- dict.New -/
def dictNew : GoMap κ ν := []
/-- dict.Add: `d.Fdict[key] = v` -/
def dictAdd (d : GoMap κ ν) (k : κ) (v : ν) : GoMap κ ν := d.set k v
/-- dict.ContainsKey: `_, ok := d.Fdict[key]; return ok` -/
def dictContainsKey (d : GoMap κ ν) (k : κ) : Bool := (d.get? k).isSome
/-- dict.TryFind: `e, ok := d.Fdict[key]; return (e, ok)` (zero value when missing) -/
def dictTryFind [Inhabited ν] (d : GoMap κ ν) (k : κ) : ν × Bool :=
  match d.get? k with
  | some v => (v, true)
  | none => (default, false)
/-- dict.Item: `e := d.Fdict[key]` (zero value when missing) -/
def dictItem [Inhabited ν] (d : GoMap κ ν) (k : κ) : ν := (d.get? k).getD default
/-- dict.KVs / Keys / Values: `for k, v := range d.Fdict` in the order `π` gives -/
def dictKVs (π : List (κ × ν) → List (κ × ν)) (d : GoMap κ ν) : List (κ × ν) := π d
def dictKeys (π : List (κ × ν) → List (κ × ν)) (d : GoMap κ ν) : List κ := (π d).map (·.1)
def dictValues (π : List (κ × ν) → List (κ × ν)) (d : GoMap κ ν) : List ν := (π d).map (·.2)
/-- dict.ToDict: `for _, tp := range ss { Add(dic, k, v) }` -/
def dictToDict (ss : List (κ × ν)) : GoMap κ ν := ss.foldl (fun d e => dictAdd d e.1 e.2) dictNew

end dict

/-! ## strings (over lists of bytes) -/
section strings
variable {α : Type} [DecidableEq α]

/-- Go `strings.HasPrefix(s, prefix)` -/
def goHasPrefix (s pre : List α) : Bool := pre.isPrefixOf s
/-- Go `strings.HasSuffix(s, suffix)` -/
def goHasSuffix (s suf : List α) : Bool := suf.isSuffixOf s
/-- Go `strings.TrimSuffix(s, suffix)` -/
def goTrimSuffix (s suf : List α) : List α := if suf.isSuffixOf s then s.take (s.length - suf.length) else s
/-- Go `strings.Index(s, sep)`: first position where `sep` occurs -/
def goIndex (sep : List α) : List α → Option Nat
  | [] => if sep = [] then some 0 else none
  | x :: xs => if sep.isPrefixOf (x :: xs) then some 0 else (goIndex sep xs).map (· + 1)

/-- `explode(s, n)` for single-byte characters; `n < 0` means no limit -/
def goExplode (s : List α) (n : Int) : List (List α) :=
  let l := s.length
  let n := if n < 0 ∨ n > l then l else n.toNat
  if n = 0 then [] else (s.take (n - 1)).map (fun c => [c]) ++ [s.drop (n - 1)]

/-- the loop of `genSplit` (sepSave = 0): at most `k` cuts; `fuel` bounds the recursion -/
def goSplitLoop (sep : List α) : (fuel k : Nat) → List α → List (List α)
  | 0, _, s => [s]
  | _ + 1, 0, s => [s]
  | fuel + 1, k + 1, s =>
    match goIndex sep s with
    | none => [s]
    | some m => s.take m :: goSplitLoop sep fuel k (s.drop (m + sep.length))

/-- Go `strings.SplitN(s, sep, n)` (`genSplit(s, sep, 0, n)`) -/
def goSplitN (s sep : List α) (n : Int) : List (List α) :=
  if n = 0 then []
  else if sep = [] then goExplode s n
  else
    -- n < 0: n = Count(s, sep) + 1, i.e. cut until Index fails; n > len(s)+1 is clipped
    let cuts := if n < 0 then s.length + 1 else min n.toNat (s.length + 1) - 1
    goSplitLoop sep (s.length + 1) cuts s

/-- Go `strings.Split(s, sep)` = `genSplit(s, sep, 0, -1)` -/
def goSplit (s sep : List α) : List (List α) := goSplitN s sep (-1)

/-! the wrappers of pkg/strings (pipeline-friendly argument order) -/

/-- `Concat sep strs`: `for i, s := range strs { if i != 0 { buf.WriteString(sep) }; buf.WriteString(s) }` -/
def Concat (sep : List α) : List (List α) → List α
  | [] => []
  | s :: rest => rest.foldl (fun acc x => acc ++ sep ++ x) s
def Length (s : List α) : Int := s.length
def AppendTail (tail s : List α) : List α := s ++ tail
def AppendHead (head s : List α) : List α := head ++ s
def HasSuffix (suffix s : List α) : Bool := goHasSuffix s suffix
def TrimSuffix (suffix s : List α) : List α := goTrimSuffix s suffix
def HasPrefix (pre s : List α) : Bool := goHasPrefix s pre
def EncloseWith (beg end_ center : List α) : List α := beg ++ center ++ end_
def Split (sep cont : List α) : List (List α) := goSplit cont sep
def SplitN (count : Int) (sep cont : List α) : List (List α) := goSplitN cont sep count
def IsEmpty (s : List α) : Bool := s.isEmpty
def IsNotEmpty (s : List α) : Bool := !s.isEmpty

end strings

/-! ## buf -/
section buf
variable {α : Type}
/-- `bytes.Buffer`: the bytes written so far -/
abbrev Buffer (α : Type) := List α
def bufNew : Buffer α := []
def bufWrite (b : Buffer α) (s : List α) : Buffer α := b ++ s
def bufString (b : Buffer α) : List α := b
end buf

/-! ## frt -/
section frt
variable {α β γ : Type}

def Pipe (elem : α) (f : α → β) : β := f elem

/-- computations that log which thunks ran -/
abbrev Tr (α : Type) := List String × α
def Tr.bind (x : Tr α) (f : α → Tr β) : Tr β := let y := f x.2; (x.1 ++ y.1, y.2)

def IfElse (cond : Bool) (tbody fbody : Unit → Tr α) : Tr α := if cond then tbody () else fbody ()
def IfElseUnit (cond : Bool) (tbody fbody : Unit → Tr Unit) : Tr Unit := if cond then tbody () else fbody ()
def IfOnly (cond : Bool) (tbody : Unit → Tr Unit) : Tr Unit := if cond then tbody () else ([], ())

structure Tuple2 (α β : Type) where
  E0 : α
  E1 : β
deriving DecidableEq, Repr
structure Tuple3 (α β γ : Type) where
  E0 : α
  E1 : β
  E2 : γ
deriving DecidableEq, Repr

def NewTuple2 (a : α) (b : β) : Tuple2 α β := ⟨a, b⟩
def NewTuple3 (a : α) (b : β) (c : γ) : Tuple3 α β γ := ⟨a, b, c⟩
def Fst (t : Tuple2 α β) : α := t.E0
def Snd (t : Tuple2 α β) : β := t.E1
def Destr2 (t : Tuple2 α β) : α × β := (t.E0, t.E1)
def Destr3 (t : Tuple3 α β γ) : α × β × γ := (t.E0, t.E1, t.E2)

/-! `toS`: which `reflect.Value` accessor each kind is sent to, and reflect's contract for them -/
inductive KindClass where
  | int | uint | float | string | other
deriving DecidableEq, Repr

/-- the class of each `reflect.Kind` (by name) -/
def kindClass : String → KindClass
  | "Int" | "Int8" | "Int16" | "Int32" | "Int64" => .int
  | "Uint" | "Uint8" | "Uint16" | "Uint32" | "Uint64" | "Uintptr" => .uint
  | "Float32" | "Float64" => .float
  | "String" => .string
  | _ => .other

/-- reflect's contract: `Value.Int/Uint/Float` panic unless the kind is in their class;
`Value.String` and `%v` formatting never panic -/
def accessorOK (accessor : String) (k : KindClass) : Bool :=
  match accessor with
  | "Int" => k == .int
  | "Uint" => k == .uint
  | "Float" => k == .float
  | "String" => true
  | "%v" => true
  | _ => false

/-- all kinds of Go's reflect package -/
def allKinds : List String :=
  ["Invalid", "Bool", "Int", "Int8", "Int16", "Int32", "Int64", "Uint", "Uint8", "Uint16", "Uint32", "Uint64",
   "Uintptr", "Float32", "Float64", "Complex64", "Complex128", "Array", "Chan", "Func", "Interface", "Map",
   "Pointer", "Slice", "String", "Struct", "UnsafePointer"]

/-- which accessor `toS` uses for a kind, given the switch arms `(kinds, accessor)` and the default -/
def armOf (arms : List (List String × String)) (dflt : String) (kind : String) : String :=
  match arms.find? (fun a => a.1.contains kind) with
  | some a => a.2
  | none => dflt

end frt
end Folang.Lib
