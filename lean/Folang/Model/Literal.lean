/-
C11: byte-level model of how string literals travel through fc and Go.

fc side (fc/wrapper.go, fc/expr_to_go.fo), after fix 20818f3:
  scanStr    = scanStringLiteralToken     (bytes after the opening `"`)
  scanRaw    = scanRawStringLiteralToken  (bytes after the opening backtick)
  parseInterp= ParseSInterP               (token text → Sprintf format + hole names)
  emitStr / emitInterp = "\"%s\"" and sinterpToGo
Go side (assumed semantics, differentially tested against strconv.Unquote and fmt.Sprintf):
  goUnquote  = value of an interpreted string literal body, for the escapes \n \t \\ \" ;
               any other escape is a compile error (`none`)
  sprintf    = fmt.Sprintf restricted to the verbs %s and %% over string arguments
               (frt.SInterP converts every argument to its display string first)
-/
namespace Folang.Literal

abbrev Bytes := List UInt8

def BS : UInt8 := 92   -- backslash
def DQ : UInt8 := 34   -- "
def BT : UInt8 := 96   -- backtick
def LBR : UInt8 := 123 -- {
def RBR : UInt8 := 125 -- }
def PC : UInt8 := 37   -- %
def NL : UInt8 := 10
def TAB : UInt8 := 9
def Ln : UInt8 := 110  -- n
def Lt : UInt8 := 116  -- t
def Ls : UInt8 := 115  -- s

inductive Err where
  | unclosed | escapeAtEnd | openBrace | index
deriving Repr, DecidableEq

/-- scanStringLiteralToken: returns (stringVal, rest after the closing quote) -/
def scanStr : Bytes → Except Err (Bytes × Bytes)
  | [] => .error .unclosed
  | c :: rest =>
    if c = DQ then .ok ([], rest)
    else if c = BS then
      match rest with
      | [] => .error .escapeAtEnd
      | c2 :: rest' =>
        match scanStr rest' with
        | .ok (v, r) => .ok (BS :: c2 :: v, r)
        | .error e => .error e
    else if c = NL then
      match scanStr rest with
      | .ok (v, r) => .ok (BS :: Ln :: v, r)
      | .error e => .error e
    else
      match scanStr rest with
      | .ok (v, r) => .ok (c :: v, r)
      | .error e => .error e

/-- scanRawStringLiteralToken -/
def scanRaw : Bytes → Except Err (Bytes × Bytes)
  | [] => .error .unclosed
  | c :: rest =>
    if c = BT then .ok ([], rest)
    else
      match scanRaw rest with
      | .error e => .error e
      | .ok (v, r) =>
        if c = BS then .ok (BS :: BS :: v, r)
        else if c = DQ then .ok (BS :: DQ :: v, r)
        else if c = NL then .ok (BS :: Ln :: v, r)
        else .ok (c :: v, r)

/-- the inner loop of ParseSInterP after `{`: the name up to `}`; running off the end panics -/
def takeName : Bytes → Except Err (Bytes × Bytes)
  | [] => .error .index                                           -- `buf[i]` with i = len(buf)
  | [c] => if c = RBR then .ok ([], []) else .error .openBrace    -- i++ reaches the end
  | c :: c2 :: rest =>
    if c = RBR then .ok ([], c2 :: rest)
    else match takeName (c2 :: rest) with
      | .ok (n, r) => .ok (c :: n, r)
      | .error e => .error e

/-- ParseSInterP: (format, hole names) -/
def parseInterp : (fuel : Nat) → Bytes → Except Err (Bytes × List Bytes)
  | 0, _ => .error .index
  | _ + 1, [] => .ok ([], [])
  | fuel + 1, c :: rest =>
    if c = BS then
      match rest with
      | [] => .error .escapeAtEnd
      | c2 :: rest' =>
        match parseInterp fuel rest' with
        | .error e => .error e
        | .ok (f, vs) => if c2 = LBR ∨ c2 = RBR then .ok (c2 :: f, vs) else .ok (BS :: c2 :: f, vs)
    else if c = PC then
      match parseInterp fuel rest with
      | .error e => .error e
      | .ok (f, vs) => .ok (PC :: PC :: f, vs)
    else if c = LBR then
      match takeName rest with
      | .error e => .error e
      | .ok (name, rest') =>
        match parseInterp fuel rest' with
        | .error e => .error e
        | .ok (f, vs) => .ok (PC :: Ls :: f, name :: vs)
    else
      match parseInterp fuel rest with
      | .error e => .error e
      | .ok (f, vs) => .ok (c :: f, vs)

/-- Go: value of the interpreted string literal with this body (`none` = does not compile) -/
def goUnquote : Bytes → Option Bytes
  | [] => some []
  | c :: rest =>
    if c = BS then
      match rest with
      | [] => none
      | c2 :: rest' =>
        let dec : Option UInt8 :=
          if c2 = Ln then some NL else if c2 = Lt then some TAB else if c2 = BS then some BS
          else if c2 = DQ then some DQ else none
        match dec, goUnquote rest' with
        | some d, some v => some (d :: v)
        | _, _ => none
    else if c = DQ ∨ c = NL then none
    else (goUnquote rest).map (c :: ·)

/-- fmt.Sprintf over %s / %% with string arguments (`none` = anything else, e.g. a stray %) -/
def sprintf : Bytes → List Bytes → Option Bytes
  | [], [] => some []
  | [], _ :: _ => none                     -- EXTRA arguments
  | c :: rest, args =>
    if c = PC then
      match rest with
      | [] => none
      | c2 :: rest' =>
        if c2 = PC then (sprintf rest' args).map (PC :: ·)
        else if c2 = Ls then
          match args with
          | [] => none
          | a :: args' => (sprintf rest' args').map (a ++ ·)
        else none
    else (sprintf rest args).map (c :: ·)

/-! ### specification: what a literal denotes -/

/-- one syntactic piece of a literal body -/
inductive Seg where
  | lit (c : UInt8)        -- an ordinary byte
  | esc (c : UInt8)        -- `\n` `\t` `\\` `\"` in a "..." body: c ∈ {n, t, \, "}
  | brace (c : UInt8)      -- `\{` or `\}` in a $"..." body: c ∈ { {, } }
  | hole (name : Bytes)    -- `{name}` in an interpolated body
deriving Repr, DecidableEq

def escValue (c : UInt8) : UInt8 :=
  if c = Ln then NL else if c = Lt then TAB else c

/-- the source bytes of a piece -/
def Seg.src : Seg → Bytes
  | .lit c => [c]
  | .esc c => [BS, c]
  | .brace c => [BS, c]
  | .hole n => LBR :: n ++ [RBR]

/-- the text a piece denotes, given the display string of every hole -/
def Seg.denote (env : Bytes → Bytes) : Seg → Bytes
  | .lit c => [c]
  | .esc c => [escValue c]
  | .brace c => [c]
  | .hole n => env n

def src (segs : List Seg) : Bytes := segs.flatMap Seg.src
def denote (env : Bytes → Bytes) (segs : List Seg) : Bytes := segs.flatMap (Seg.denote env)
def holes : List Seg → List Bytes
  | [] => []
  | .hole n :: rest => n :: holes rest
  | _ :: rest => holes rest

end Folang.Literal
