/-
C06: the offside scheme of fc's parser (fc/parser.fo: parseBlockAfterPushScope, parseStmtList /
ParseList2, isEndOfBlock, psStmtOneForList; fc/parse_state.fo: psPushOffside, psPopOffside,
psCurOffside, psCurCol, psSkipEOL) as a recursive-descent parser over tokens that carry only what
the offside logic looks at: a kind and the column the tokenizer computed (C06 `col_invariant`).

Abstraction.  Every construct that opens a block does it the same way in the real parser:
`<opener token> |> psSkipEOL |> parseBlock` (`=` of a function definition, `->` of a lambda or a
match rule, `then`, `else`).  Here all of them are one token kind `opener`; every other token of a
statement is a `word`.  A statement is `word* [opener BLOCK]`; the continuation of a compound
statement (`else`, the next `| pat ->`) is a sibling statement whose first token sits at the block's
column, which is where the layout grammar of the property puts it.  The offside stack is the
recursion: `top` is `psCurOffside` (the last element of `offsideCol`), pushing is the call of
`pList` with the new column, popping is its return.

What is not here: the expression grammar inside a statement (C08), the end of a block at a right
parenthesis, inline (same line, no push) blocks of one-line `if`.
-/
namespace Folang.Offside

inductive K
  | word (n : Nat)
  | opener
  | eol
  | eof
deriving DecidableEq, Repr

structure Tok where
  k : K
  col : Nat
deriving DecidableEq, Repr

/-- block structure: a statement is a line of words, or words followed by an opener and a block -/
inductive T
  | line (ws : List Nat)
  | opn (ws : List Nat) (body : List T)
deriving Repr

/-- `psSkipEOL` -/
def skipEOL : List Tok → List Tok
  | ⟨.eol, _⟩ :: r => skipEOL r
  | ts => ts

/-- the words at the front of a statement -/
def takeWords : List Tok → List Nat × List Tok
  | ⟨.word n, _⟩ :: r => ((takeWords r).1.cons n, (takeWords r).2)
  | ts => ([], ts)

/-- `psCurCol` -/
def curCol : List Tok → Nat
  | [] => 0
  | t :: _ => t.col

def isEOF : List Tok → Bool
  | [] => true
  | ⟨.eof, _⟩ :: _ => true
  | _ => false

/-- `isEndOfBlock`: the current token is left of the block's column, or the input ends -/
def isEndOfBlock (top : Nat) (ts : List Tok) : Bool := curCol ts < top || isEOF ts

/-- result of a parser: a value and the remaining tokens, a rejection (the real parser panics with a
diagnostic), or the model's fuel ran out (Props/C16Block.lean: it never does when the fuel is at
least `3 * tokens + 3`) -/
inductive R (α : Type) where
  | ok (a : α) (rest : List Tok)
  | reject
  | fuel
deriving Repr

mutual
/-- `parseStmt`: words, then possibly an opener, `psSkipEOL` and a block -/
def pStmt : Nat → Nat → List Tok → R T
  | 0, _, _ => .fuel
  | f + 1, top, ts =>
    match (takeWords ts).2 with
    | ⟨.opener, _⟩ :: r' =>
      match pBlock f top (skipEOL r') with
      | .ok body r'' => .ok (.opn (takeWords ts).1 body) r''
      | .reject => .reject
      | .fuel => .fuel
    | r => if (takeWords ts).1.isEmpty then .reject else .ok (.line (takeWords ts).1) r
/-- `parseBlock`: `psPushOffside` ("Overrun offside rule" unless the block starts right of the
enclosing one), the statement list, `psPopOffside` -/
def pBlock : Nat → Nat → List Tok → R (List T)
  | 0, _, _ => .fuel
  | f + 1, top, ts =>
    if top ≥ curCol ts then .reject
    else pList f (curCol ts) ts
/-- `parseStmtList` = `ParseList2 (parseStmt |> psSkipEOL) isEndOfBlock` -/
def pList : Nat → Nat → List Tok → R (List T)
  | 0, _, _ => .fuel
  | f + 1, top, ts =>
    match pStmt f top ts with
    | .reject => .reject
    | .fuel => .fuel
    | .ok s r =>
      if isEndOfBlock top (skipEOL r) then .ok [s] (skipEOL r)
      else match pList f top (skipEOL r) with
        | .ok ss r'' => .ok (s :: ss) r''
        | .reject => .reject
        | .fuel => .fuel
end

/-! ### layouts -/

def AllEol (l : List Tok) : Prop := ∀ t ∈ l, t.k = .eol

/-- `more` is a run of word tokens spelling `ws`, at any columns -/
def Words : List Nat → List Tok → Prop
  | [], [] => True
  | w :: ws, t :: ts => t.k = .word w ∧ Words ws ts
  | _, _ => False

/-- the tokens of a statement head `ws opener`, the first of them at column `c` -/
def Head (c : Nat) (ws : List Nat) (toks : List Tok) : Prop :=
  ∃ ws' oc, Words ws ws' ∧ toks = ws' ++ [⟨.opener, oc⟩] ∧ curCol toks = c

mutual
/-- `LStmt c t toks`: `toks` is a layout of statement `t` starting at column `c`.
* a line: its first word at column `c`, the other words anywhere, then at least one end of line
  (blank lines and comments are folded into end-of-line tokens by the tokenizer);
* an opening statement: the first token at column `c`, the opener, any number of ends of line (none:
  the block starts on the same line), then the block at ANY column right of `c`. -/
def LStmt : Nat → T → List Tok → Prop
  | c, .line ws, toks => ∃ ws' es, ws ≠ [] ∧ Words ws ws' ∧ curCol ws' = c ∧ AllEol es ∧ es ≠ [] ∧ toks = ws' ++ es
  | c, .opn ws body, toks => ∃ hd es c' bt, Head c ws hd ∧ AllEol es ∧ c < c' ∧ LBlock c' body bt ∧
      toks = hd ++ es ++ bt
/-- a block: one or more statements, each starting at the block's column -/
def LBlock : Nat → List T → List Tok → Prop
  | _, [], _ => False
  | c, [t], toks => LStmt c t toks
  | c, t :: t2 :: ts, toks => ∃ a b, LStmt c t a ∧ LBlock c (t2 :: ts) b ∧ toks = a ++ b
end

/-- what may follow a block at column `c`: the end of input, or a token left of `c`
("a line indented less than its block ends that block") -/
def Ends (c : Nat) (rest : List Tok) : Prop :=
  ∃ t r, rest = t :: r ∧ t.k ≠ .eol ∧ (t.k = .eof ∨ t.col < c)

end Folang.Offside
