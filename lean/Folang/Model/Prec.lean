/-
C08: model of the binary-operator part of fc's expression parser
(`parseExprWithPrec` / `parseBinAfter` in fc/parser.fo, table `binOpMap` in fc/wrapper.go).

Two levels:
* chain level: `climb` = precedence climbing over a chain  a₀ (op₁ a₁) … (opₙ aₙ)  with opaque
  operands, exactly the recursion scheme of the code (minPrec, `Precedence+1` for the right operand,
  loop on the result);
* token level: `exprP` / `binAfter` over token lists, generic in the operand ("term") parser, with the
  `psSkipEOL` calls and the pre-skip/post-skip states the code returns.
-/
namespace Folang.Prec

/-- grouping trees over opaque operands `α`; operators are named by their index in the table -/
inductive G (α : Type) where
  | atom (a : α) : G α
  | bin (op : Nat) (l r : G α) : G α
deriving Repr, DecidableEq

variable {α : Type}

/-! ### specification: insertion into the right spine

`insert prec t op b` adds `op b` to the right end of the expression `t`: the new operator goes down
the right spine as long as the operators it meets are strictly looser than itself, and becomes
the parent of what it finds there (so equal ranks associate to the left). -/
def insert (prec : Nat → Nat) : G α → Nat → α → G α
  | .atom a, op, b => .bin op (.atom a) (.atom b)
  | .bin op' l r, op, b =>
    if prec op' < prec op then .bin op' l (insert prec r op b) else .bin op (.bin op' l r) (.atom b)

/-- reference grouping of a whole chain -/
def group (prec : Nat → Nat) (t : G α) (chain : List (Nat × α)) : G α :=
  chain.foldl (fun t e => insert prec t e.1 e.2) t

/-! ### the algorithm of the code, on chains -/

/-- `parseBinAfter minPrec lhs` on the rest of the chain; `fuel` bounds the recursion depth -/
def climb (prec : Nat → Nat) : (fuel minPrec : Nat) → G α → List (Nat × α) → G α × List (Nat × α)
  | 0, _, lhs, rest => (lhs, rest)
  | _ + 1, _, lhs, [] => (lhs, [])
  | fuel + 1, m, lhs, (op, a) :: rest =>
    if prec op < m then (lhs, (op, a) :: rest)
    else
      let (rhs, rest') := climb prec fuel (prec op + 1) (.atom a) rest
      climb prec fuel m (.bin op lhs rhs) rest'

/-! ### token level -/

inductive Tok where
  | op (k : Nat)        -- binary operator, index into the table
  | eol
  | other (s : String)  -- any token that is neither an operator nor an end of line
deriving Repr, DecidableEq

def skipEOL : List Tok → List Tok
  | .eol :: r => skipEOL r
  | ts => ts

/-- `parseExprWithPrec` and `parseBinAfter`, generic in the term parser -/
def exprP (pTerm : List Tok → Option (α × List Tok)) (prec : Nat → Nat) :
    (fuel minPrec : Nat) → List Tok → Option (G α × List Tok)
  | 0, _, _ => none
  | fuel + 1, m, ps =>
    match pTerm ps with
    | none => none
    | some (a, ps2) =>
      match skipEOL ps2 with
      | .op _ :: _ => binAfter fuel m (skipEOL ps2) (.atom a)   -- parseBinAfter … minPrec ps3 expr
      | _ => some (.atom a, ps2)                                -- the state BEFORE skipping EOLs
where
  binAfter : (fuel minPrec : Nat) → List Tok → G α → Option (G α × List Tok)
    | 0, _, _, _ => none
    | fuel + 1, m, ps, cur =>
      match skipEOL ps with
      | .op k :: r =>
        if prec k < m then some (cur, ps)
        else
          match exprP pTerm prec fuel (prec k + 1) r with
          | none => none
          | some (rhs, ps3) => binAfter fuel m ps3 (.bin k cur rhs)
      | _ => some (cur, ps)

end Folang.Prec
