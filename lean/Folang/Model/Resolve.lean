import Folang.Model.Infer
/-
C16 / C02: model of the resolution of a type variable against the resolver (fc/infer.fo:
resolveOneTypeVarIn / resolveOneTypeVar / resolveType with transTVFType, rsLookupEI), AFTER fix
1e8a7fd (the `visiting` list).  The resolver maps a type-variable name to the resolved type of its
equivalence class; an absent name resolves to itself (rsLookupEI returns eiInit).
-/
namespace Folang.Resolve
open Folang.Infer

inductive Err where
  | cyclic (v : String)      -- "Recursive type found while resolving type variable"  (a diagnostic)
  | outOfFuel                -- the model's stand-in for "does not terminate"
deriving Repr, DecidableEq

abbrev Resolver := List (String × ITy)

def Resolver.res (r : Resolver) (v : String) : ITy := ((r.find? (·.1 == v)).map (·.2)).getD (.var v)

def Resolver.keys (r : Resolver) : List String := r.map (·.1)

mutual
/-- transTVFType: replace every type variable by what `f` gives for it -/
def transTV (f : String → Except Err ITy) : ITy → Except Err ITy
  | .var a => f a
  | .con h as =>
    match transTVList f as with
    | .ok as' => .ok (.con h as')
    | .error e => .error e
def transTVList (f : String → Except Err ITy) : List ITy → Except Err (List ITy)
  | [] => .ok []
  | t :: ts =>
    match transTV f t with
    | .error e => .error e
    | .ok t' =>
      match transTVList f ts with
      | .ok ts' => .ok (t' :: ts')
      | .error e => .error e
end

/-- resolveOneTypeVarIn visiting rsv tv -/
def resolveIn (rsv : Resolver) : (fuel : Nat) → (visiting : List String) → String → Except Err ITy
  | 0, _, _ => .error .outOfFuel
  | fuel + 1, visiting, tv =>
    if tv ∈ visiting then .error (.cyclic tv)
    else
      match rsv.res tv with
      | .var tv2 =>
        if tv2 = tv then .ok (.var tv2)                                -- same type var, no need to drill down
        else transTV (resolveIn rsv fuel (visiting ++ [tv])) (.var tv2)
      | rcand => transTV (resolveIn rsv fuel (visiting ++ [tv])) rcand

/-- resolveType: every variable of a type resolved from an empty visiting list -/
def resolveType (rsv : Resolver) (fuel : Nat) (t : ITy) : Except Err ITy :=
  transTV (resolveIn rsv fuel []) t

end Folang.Resolve
