import Folang.Model.Lib
/-
C18: model of cmd/build_sample_md (convOne, processListFile) over the library models of C13/C14.
The file system is a function from the listed name to the file's bytes (`none` = cannot be read);
filepath.Join/Dir are not modelled (the generated directories use plain names).
-/
namespace Folang.SampleMd
open Folang.Lib

abbrev Bytes := List UInt8
abbrev FS := Bytes → Option Bytes

/-! the string constants of build_sample_md.fo, as bytes -/
def cSpace : Bytes := [32]  -- ' '
def cNL : Bytes := [10]  -- '\n'
def cH3 : Bytes := [35, 35, 35, 32]  -- '### '
def cNLNL : Bytes := [10, 10]  -- '\n\n'
def cFence : Bytes := [96, 96, 96, 10]  -- '```\n'
def cFenceEnd : Bytes := [10, 96, 96, 96, 10, 10]  -- '\n```\n\n'
def cDotFo : Bytes := [46, 102, 111]  -- '.fo'
def cGen : Bytes := [103, 101, 110, 95]  -- 'gen_'
def cDotGo : Bytes := [46, 103, 111]  -- '.go'
def cGenerated : Bytes := [103, 101, 110, 101, 114, 97, 116, 101, 100, 32, 103, 111, 58, 32, 91]  -- 'generated go: ['
def cRB : Bytes := [93]  -- ']'
def cLP : Bytes := [40, 46, 47]  -- '(./'
def cRP : Bytes := [41]  -- ')'
def cHeader : Bytes := [35, 35, 32, 70, 111, 108, 97, 110, 103, 32, 83, 97, 109, 112, 108, 101, 32, 10, 10, 10]  -- '## Folang Sample \n\n\n'
def cCantOpen : Bytes := [67, 97, 110, 39, 116, 32, 111, 112, 101, 110, 32, 102, 105, 108, 101, 32]  -- "Can't open file "

inductive Result where
  | write (content : Bytes)      -- README.md written with this content
  | fail (msg : Bytes)           -- panic before anything is written
deriving Repr, DecidableEq

/-- `convOne dir oneline` -/
def convOne (fs : FS) (oneline : Bytes) : Except Bytes Bytes :=
  let cols := SplitN 2 (cSpace) oneline
  let foFname := cols.head?.getD []          -- slice.Head cols (cols is never empty for n = 2)
  let title := cols.getLast?.getD []          -- slice.Last cols
  match fs foFname with
  | none => .error (cCantOpen ++ foFname)
  | some content =>
    let b := bufNew
    let b := bufWrite b (cH3 ++ title ++ cNLNL)       -- Sprintf1 "### %s\n\n" title
    let b := bufWrite b (cFence)
    let b := bufWrite b content
    let b := bufWrite b (cFenceEnd)
    let base := TrimSuffix (cDotFo) foFname
    let genName := cGen ++ base ++ cDotGo
    let b := bufWrite b (cGenerated ++ genName ++ cRB)
    let b := bufWrite b (cLP ++ genName ++ cRP)
    let b := bufWrite b (cNLNL)
    .ok (bufString b)

/-- `slice.Map (convOne dir)`: strict, left to right; the first unreadable file panics -/
def mapConv (fs : FS) : List Bytes → Except Bytes (List Bytes)
  | [] => .ok []
  | l :: rest =>
    match convOne fs l with
    | .error e => .error e
    | .ok s =>
      match mapConv fs rest with
      | .error e => .error e
      | .ok ss => .ok (s :: ss)

def header : Bytes := cHeader

/-- `processListFile "README.md" listPath` given the list file's content -/
def processListFile (fs : FS) (listContent : Bytes) : Result :=
  let lines := (Split (cNL) listContent).filter (fun l => IsNotEmpty l)
  match mapConv fs lines with
  | .error e => .fail e
  | .ok sections => .write (AppendHead header (Concat (cNL) sections))

end Folang.SampleMd
