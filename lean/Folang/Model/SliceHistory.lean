import Folang.Model.GoSlice
/-
Straight-line histories of slice-package calls over a growing pool of slice values (C12).
Every op names its slice arguments by pool index; a call that panics leaves the state unchanged
(the Folang program would have stopped there); a successful call appends its result to the pool.
-/
namespace Folang.GoSlice
variable {α : Type}

inductive Op (α : Type) where
  | new
  | tail (i : Nat)
  | popLast (i : Nat)
  | take (n : Int) (i : Nat)
  | skip (n : Int) (i : Nat)
  | map (f : α → α) (i : Nat)
  | mapi (f : Int → α → α) (i : Nat)
  | filter (p : α → Bool) (i : Nat)
  | sortWith (srt : List α → List α) (i : Nat)   -- Sort and SortBy
  | zip (mk : α → α → α) (i j : Nat)
  | pushLast (e : α) (i : Nat)
  | pushHead (e : α) (i : Nat)
  | collect (f : α → Nat) (i : Nat)              -- the callback returns pool value `f e`
  | concat (is : List Nat)
  | append (i j : Nat)
  | distinct (i : Nat)

structure HState (α : Type) where
  pool : List Slice
  heap : Heap α

def HState.get (s : HState α) (i : Nat) : Slice := s.pool.getD i .nil

def HState.push (s : HState α) (r : Except Panic (St α)) : HState α :=
  match r with
  | .error _ => s
  | .ok (v, h) => { pool := s.pool ++ [v], heap := h }

def HState.pushPure (s : HState α) (r : Except Panic Slice) : HState α :=
  match r with
  | .error _ => s
  | .ok v => { s with pool := s.pool ++ [v] }

def step [Inhabited α] [DecidableEq α] (s : HState α) (gop : Growth × Op α) : HState α :=
  let g := gop.1
  match gop.2 with
  | .new => s.push (.ok (New s.heap))
  | .tail i => s.pushPure (Tail (s.get i))
  | .popLast i => s.pushPure (PopLast (s.get i))
  | .take n i => s.push (Take g s.heap n (s.get i))
  | .skip n i => s.push (Skip g s.heap n (s.get i))
  | .map f i => s.push (Map g f s.heap (s.get i))
  | .mapi f i => s.push (Mapi g f s.heap (s.get i))
  | .filter p i => s.push (Filter g p s.heap (s.get i))
  | .sortWith srt i => s.push (SortWith g srt s.heap (s.get i))
  | .zip mk i j => s.push (Zip g mk s.heap (s.get i) (s.get j))
  | .pushLast e i => s.push (PushLast g s.heap e (s.get i))
  | .pushHead e i => s.push (PushHead g s.heap e (s.get i))
  | .collect f i => s.push (Collect g (fun e => s.get (f e)) s.heap (s.get i))
  | .concat is => s.push (.ok (Concat g s.heap (is.map s.get)))
  | .append i j => s.push (.ok (Append g s.heap (s.get i) (s.get j)))
  | .distinct i => s.push (Distinct g s.heap (s.get i))

def run [Inhabited α] [DecidableEq α] (s : HState α) (ops : List (Growth × Op α)) : HState α :=
  ops.foldl step s

def HState.init : HState α := { pool := [], heap := [] }

end Folang.GoSlice
