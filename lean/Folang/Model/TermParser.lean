import Folang.Model.Prec
/-
C08: the concrete term parser for the fragment of the c08.chain stream (mirror of parseTerm /
parseAtomList / parseAtom of fc/parser.fo restricted to names, applications, `not` and parenthesised
expressions), total by fuel.  Used by the oracle and by Props/C08Term.lean.
-/
namespace Folang.Prec

/-- operand trees -/
inductive OT where
  | name (s : String)
  | not (t : OT)
  | app (ts : List OT)
  | paren (e : G OT)

def isEndOfTerm : List Tok → Bool
  | [] => true
  | .eol :: _ => true
  | .op _ :: _ => true
  | .other ")" :: _ => true
  | _ => false

mutual
def pAtom (prec : Nat → Nat) : Nat → List Tok → Option (OT × List Tok)
  | 0, _ => none
  | f + 1, .other s :: r =>
    if s = "(" then
      match exprP (pTerm prec f) prec f 1 r with
      | some (e, .other ")" :: r') => some (.paren e, r')
      | _ => none
    else if s = ")" then none
    else some (.name s, r)
  | _ + 1, _ => none
def pAtomList (prec : Nat → Nat) : Nat → List Tok → Option (List OT × List Tok)
  | 0, _ => none
  | f + 1, ts =>
    match pAtom prec f ts with
    | none => none
    | some (a, r) =>
      if isEndOfTerm r then some ([a], r)
      else match pAtomList prec f r with
        | none => none
        | some (as, r') => some (a :: as, r')
def pTerm (prec : Nat → Nat) : Nat → List Tok → Option (OT × List Tok)
  | 0, _ => none
  | f + 1, ts =>
    match ts with
    | .other "not" :: r =>
      match pTerm prec f r with
      | none => none
      | some (t, r') => some (.not t, r')
    | _ =>
      match pAtomList prec f ts with
      | none => none
      | some ([a], r) => some (a, r)
      | some (as, r) => some (.app as, r)
end

end Folang.Prec
