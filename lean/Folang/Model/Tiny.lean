import Folang.Model.Prec
/-
C17: model of tinyfo's binary-operator parser (tinyfo/parser.go `parseExprWithPrecedence`, table
`binOpMap`).  The Go code is a LOOP:

    expr := term
    for nextIsBinOp {
        if prec(op) < minPrec { return expr }
        consume op;  rhs := parseExprWithPrecedence(prec(op) + 1);  expr = bin(op, expr, rhs)
    }
    return expr

`tinyLoop` is that loop over an operator chain with opaque operands (fuel bounds the recursion depth
of the right operands).
-/
namespace Folang.Tiny
open Folang.Prec
variable {α : Type}

/-- tinyfo's operator table; the id of an operator is its index in `Folang.Spec.publishedTable`
(fc's table), so that both parsers can be compared on the same chains.  `*` and `/` (ids 11, 12) are
not operators of tinyfo. -/
def tinyTable : List (String × Nat × String) := [
  ("PIPE", 1, "frt.Pipe"), ("AMPAMP", 2, "&&"), ("BARBAR", 2, "||"), ("GT", 2, ">"), ("LT", 2, "<"),
  ("GE", 2, ">="), ("LE", 2, "<="), ("EQ", 3, "frt.OpEqual"), ("BRACKET", 3, "frt.OpNotEqual"),
  ("PLUS", 4, "+"), ("MINUS", 4, "-")]

def tinyPrec (k : Nat) : Nat := (tinyTable[k]?.map (·.2.1)).getD 0

/-- the `for` loop with accumulator `expr`; the recursive call for the right operand is
`parseExprWithPrecedence(prec op + 1)`, i.e. this loop started from the operand's first term -/
def tinyLoop (prec : Nat → Nat) : (fuel minPrec : Nat) → G α → List (Nat × α) → G α × List (Nat × α)
  | 0, _, expr, rest => (expr, rest)
  | _ + 1, _, expr, [] => (expr, [])
  | fuel + 1, m, expr, (op, a) :: rest =>
    if prec op < m then (expr, (op, a) :: rest)
    else
      let r := tinyLoop prec fuel (prec op + 1) (.atom a) rest
      tinyLoop prec fuel m (.bin op expr r.1) r.2

/-- parseExprWithPrecedence(minPrec) whose first term is `a0` -/
def tinyExpr (prec : Nat → Nat) (fuel minPrec : Nat) (a0 : α) (rest : List (Nat × α)) : G α × List (Nat × α) :=
  tinyLoop prec fuel minPrec (.atom a0) rest

/-- parseExpr = parseExprWithPrecedence(1) -/
def tinyParseExpr (a0 : α) (chain : List (Nat × α)) : G α × List (Nat × α) :=
  tinyExpr tinyPrec (chain.length + 1) 1 a0 chain

end Folang.Tiny
