import Folang.Model.Literal
/-
Model of fc's tokenizer (fc/wrapper.go: scanTokenAt and the scanners it dispatches to, nextToken;
fc/tokenizer.fo: newTkz, tkzNext), byte level, over the SUFFIX of the buffer that starts at `pos`.
After fixes 20818f3 (string literals) and b8a3c7e (line comment at end of file).
-/
namespace Folang.Tokenizer
open Folang.Literal

/-- result of `scanTokenAt(buf, pos)`: token type name, length in bytes, and (for STRING / SINTERP /
IDENTIFIER / INT_IMM) its value; `begin` is `pos` except for SINTERP where it is `pos + 1` -/
structure Tok where
  kind : String
  beginOff : Nat := 0       -- token.begin - pos
  len : Nat
  sval : Bytes := []
  ival : Nat := 0
deriving Repr, DecidableEq

inductive Res where
  | tok (t : Tok)
  | panic
deriving Repr, DecidableEq

def isAlpha (b : UInt8) : Bool := (97 ≤ b && b ≤ 122) || (65 ≤ b && b ≤ 90)
def isNumber (b : UInt8) : Bool := 48 ≤ b && b ≤ 57
def isAlnum (b : UInt8) : Bool := isAlpha b || isNumber b

def SP : UInt8 := 32
def SL : UInt8 := 47    -- '/'
def ST : UInt8 := 42    -- '*'

/-- number of leading bytes equal to `c` -/
def runOf (c : UInt8) : Bytes → Nat
  | [] => 0
  | b :: rest => if b = c then runOf c rest + 1 else 0

/-- `searchForward(buf, start, "*/")` relative to the suffix: index of the first `*/` -/
def findClose : Bytes → Option Nat
  | [] => none
  | [_] => none
  | a :: b :: rest => if a = ST ∧ b = SL then some 0 else (findClose (b :: rest)).map (· + 1)

/-- number of bytes before the first newline (or the end) -/
def toEOL : Bytes → Nat
  | [] => 0
  | b :: rest => if b = NL then 0 else toEOL rest + 1

def startsWith2 (a b : UInt8) : Bytes → Bool
  | x :: y :: _ => x == a && y == b
  | _ => false

/-- does the outer loop of scanSpaceToken continue here? -/
def spaceLike : Bytes → Bool
  | [] => false
  | b :: rest => b == SP || b == TAB || (b == SL && (match rest with | c :: _ => c == ST || c == SL | [] => false))

/-- the optional line comment at the end of one round: (bytes consumed so far + its length, rest) -/
def lineComment (n : Nat) (s3 : Bytes) : Nat × Bytes :=
  let n4 := if startsWith2 SL SL s3 then toEOL s3 else 0
  (n + n4, s3.drop n4)

/-- one iteration of the loop of scanSpaceToken: blanks, tabs, one block comment, one line comment;
`none` = panic ("No comment end found."); result = (bytes consumed, rest) -/
def spaceRound (s : Bytes) : Option (Nat × Bytes) :=
  let n1 := runOf SP s
  let s1 := s.drop n1
  let n2 := runOf TAB s1
  let s2 := s1.drop n2
  if startsWith2 SL ST s2 then
    match findClose (s2.drop 2) with
    | none => none
    | some k => some (lineComment (n1 + n2 + (k + 4)) (s2.drop (k + 4)))
  else some (lineComment (n1 + n2) s2)

/-- the loop of scanSpaceToken: length of the SPACE token starting at `s`; `none` = panic -/
def spaceLen : (fuel : Nat) → Bytes → Option Nat
  | 0, _ => some 0
  | fuel + 1, s =>
    if !spaceLike s then some 0
    else
      match spaceRound s with
      | none => none
      | some (step, s4) =>
        if step = 0 then some 0      -- cannot happen when spaceLike s (proved: `spaceRound_pos`)
        else (spaceLen fuel s4).map (· + step)

/-- scanIdentifierToken: 1 + the run of [A-Za-z0-9_] after the first byte -/
def identLen : Bytes → Nat
  | [] => 0
  | b :: rest => if isAlnum b || b == 95 then identLen rest + 1 else 0

def keywords : List (String × String) := [
  ("let", "LET"), ("package", "PACKAGE"), ("import", "IMPORT"), ("type", "TYPE"), ("of", "OF"),
  ("_", "UNDER_SCORE"), ("match", "MATCH"), ("with", "WITH"), ("true", "TRUE"), ("false", "FALSE"),
  ("package_info", "PACKAGE_INFO"), ("and", "AND"), ("if", "IF"), ("then", "THEN"), ("else", "ELSE"),
  ("elif", "ELIF"), ("not", "NOT"), ("fun", "FUN")]

def bytesToString (b : Bytes) : String := String.ofList (b.map (fun x => Char.ofNat x.toNat))

/-- scanIntImmToken: digits; reading the byte after the last digit past the end of the buffer is an
index panic -/
def intScan : Bytes → Nat → Nat → Option (Nat × Nat)     -- (len, value); none = panic
  | [], _, _ => none
  | b :: rest, n, v => if isNumber b then intScan rest (n + 1) (10 * v + (b.toNat - 48)) else some (n, v)

def one (kind : String) : Res := .tok { kind := kind, len := 1 }
def two (kind : String) : Res := .tok { kind := kind, len := 2 }

def strTok (kind : String) (off total : Nat) (r : Except Err (Bytes × Bytes)) : Res :=
  match r with
  | .ok (v, rest) => .tok { kind := kind, beginOff := off, len := total - rest.length, sval := v }
  | .error _ => .panic

/-- the punctuation and operator tokens (the rest of the `switch` of scanTokenAt) -/
def scanPunct (b : UInt8) (rest : Bytes) : Res :=
    if b = 61 then one "EQ"
    else if b = NL then one "EOL"
    else if b = 40 then one "LPAREN"
    else if b = 41 then one "RPAREN"
    else if b = 123 then one "LBRACE"
    else if b = 125 then one "RBRACE"
    else if b = 91 then one "LSBRACKET"
    else if b = 93 then one "RSBRACKET"
    else if b = 58 then one "COLON"
    else if b = 44 then one "COMMA"
    else if b = 46 then one "DOT"
    else if b = 59 then one "SEMICOLON"
    else if b = 124 then
      match rest with
      | 62 :: _ => two "PIPE"
      | 124 :: _ => two "BARBAR"
      | _ => one "BAR"
    else if b = 60 then
      match rest with
      | 62 :: _ => two "BRACKET"
      | 61 :: _ => two "LE"
      | _ => one "LT"
    else if b = 62 then
      match rest with
      | 61 :: _ => two "GE"
      | _ => one "GT"
    else if b = 43 then one "PLUS"
    else if b = 38 then
      match rest with
      | 38 :: _ => two "AMPAMP"
      | _ => one "AMP"
    else if b = 42 then one "ASTER"
    else if b = 45 then
      match rest with
      | 62 :: _ => two "RARROW"
      | _ => one "MINUS"
    else .panic

/-- `scanTokenAt(buf, pos)` on the suffix `s = buf[pos:]` -/
def scanTokenAt (s : Bytes) : Res :=
  match s with
  | [] => .tok { kind := "EOF", len := 0 }
  | b :: rest =>
    if b = SP ∨ b = TAB then
      match spaceLen (s.length + 1) s with
      | some n => .tok { kind := "SPACE", len := n }
      | none => .panic
    else if b = SL then
      match rest with
      | c :: _ =>
        if c = ST ∨ c = SL then
          match spaceLen (s.length + 1) s with
          | some n => .tok { kind := "SPACE", len := n }
          | none => .panic
        else one "SLASH"
      | [] => one "SLASH"
    else if isAlpha b || b == 95 then
      let n := identLen rest + 1
      let name := s.take n
      let kind := ((keywords.find? (·.1 == bytesToString name)).map (·.2)).getD "IDENTIFIER"
      .tok { kind := kind, len := n, sval := name }
    else if isNumber b then
      match intScan s 0 0 with
      | some (n, v) => .tok { kind := "INT_IMM", len := n, ival := v }
      | none => .panic
    else if b = DQ then strTok "STRING" 0 s.length (scanStr rest)
    else if b = BT then strTok "STRING" 0 s.length (scanRaw rest)
    else if b = 36 then
      match rest with
      | c :: rest' =>
        if c = DQ then strTok "SINTERP" 1 (s.length - 1) (scanStr rest')
        else if c = BT then strTok "SINTERP" 1 (s.length - 1) (scanRaw rest')
        else .panic
      | [] => .panic
    else scanPunct b rest

/-- total extent of a token from `pos`: beginOff + len -/
def Tok.extent (t : Tok) : Nat := t.beginOff + t.len

/-- `nextToken`: from a suffix, the next non-SPACE token and the offset it begins at
(relative to the suffix); `none` = panic; fuel bounds the number of SPACE tokens skipped -/
def nextNonSpace : (fuel : Nat) → (off : Nat) → Bytes → Option (Nat × Tok)
  | 0, _, _ => none
  | fuel + 1, off, s =>
    match scanTokenAt s with
    | .panic => none
    | .tok t =>
      if t.kind = "SPACE" then nextNonSpace fuel (off + t.extent) (s.drop t.extent)
      else some (off + t.beginOff, t)

/-- tokenizer state: what `Tokenizer{buf, current, col}` holds, with positions absolute -/
structure Tkz where
  buf : Bytes
  cur : Tok
  bpos : Nat        -- current.begin
  col : Int
deriving Repr

/-- `newTkz buf`: first non-space token; col = its begin -/
def newTkz (buf : Bytes) : Option Tkz :=
  match nextNonSpace (buf.length + 2) 0 buf with
  | none => none
  | some (b, t) => some { buf := buf, cur := t, bpos := b, col := b }

/-- `tkzNext`: EOF is absorbing; after EOL col = next.begin − (EOL.begin+1); else col += Δbegin -/
def tkzNext (z : Tkz) : Option Tkz :=
  if z.cur.kind = "EOF" then some z
  else
    let endPos := z.bpos + z.cur.len
    let newCol (b : Nat) : Int :=
      if z.cur.kind = "EOL" then (b : Int) - (endPos : Int) else z.col + ((b : Int) - (z.bpos : Int))
    if z.buf.length ≤ endPos then
      let eof : Tok := { kind := "EOF", len := 0 }
      some (Tkz.mk z.buf eof z.buf.length (newCol z.buf.length))
    else
      match nextNonSpace (z.buf.length + 2) endPos (z.buf.drop endPos) with
      | none => none
      | some (b, t) => some (Tkz.mk z.buf t b (newCol b))

end Folang.Tokenizer
