/-
C15: model of fc's type-expression parser (fc/parser.fo: parseType > parseTypeArrows > parseElemType >
parseTermType > parseAtomType, mightParseSpecifiedTypeList, parseTypeList, parseFullName) and of the
Go rendering FTypeToGo (fc/ftype.fo) with funcTypeToGo, fTupleToGo, fSliceToGo, tArgsToGo, fpToGo.
-/
namespace Folang.TypeExpr

inductive TTok where
  | id (s : String)
  | lp | rp | lb | rb | star | arrow | lt | gt | comma | dot
  | other (s : String)
deriving Repr, DecidableEq, Inhabited

/-- FType (the constructors a type expression can produce) -/
inductive FT where
  | int | string | bool | float | any | unit
  | func (targets : List FT)
  | slice (elem : FT)
  | tuple (elems : List FT)
  | named (kind : String) (goName : String) (targs : List FT)   -- kind: record | union | ext
deriving Repr, Inhabited

/-- registered type names: source name (possibly dotted) ↦ (kind, Go name, number of type parameters) -/
abbrev TEnv := List (String × String × String × Nat)

def TEnv.lookup (env : TEnv) (name : String) : Option (String × String × Nat) :=
  (env.find? (·.1 == name)).map (·.2)

/-- `parseFullName`: IDENT ('.' IDENT)* joined by dots -/
def parseFullName : (fuel : Nat) → List TTok → Option (String × List TTok)
  | 0, _ => none
  | fuel + 1, .id s :: .dot :: r =>
    match parseFullName fuel r with
    | some (rest, r') => some (s ++ "." ++ rest, r')
    | none => none
  | _ + 1, .id s :: r => some (s, r)
  | _ + 1, _ => none

mutual
/-- TYPE = ELEM_TYPE ('->' ELEM_TYPE)*; one element ⇒ that type, more ⇒ function type -/
def parseType (env : TEnv) : (fuel : Nat) → List TTok → Option (FT × List TTok)
  | 0, _ => none
  | fuel + 1, ts =>
    match parseTypeArrows env fuel ts with
    | some ([t], r) => some (t, r)
    | some (tps, r) => some (.func tps, r)
    | none => none
def parseTypeArrows (env : TEnv) : (fuel : Nat) → List TTok → Option (List FT × List TTok)
  | 0, _ => none
  | fuel + 1, ts =>
    match parseElemType env fuel ts with
    | none => none
    | some (one, .arrow :: r) =>
      match parseTypeArrows env fuel r with
      | some (rest, r') => some (one :: rest, r')
      | none => none
    | some (one, r) => some ([one], r)
/-- ELEM_TYPE = TERM_TYPE ('*' TERM_TYPE)*  (ParseSepList pTerm ASTER) -/
def parseElemType (env : TEnv) : (fuel : Nat) → List TTok → Option (FT × List TTok)
  | 0, _ => none
  | fuel + 1, ts =>
    match parseTermList env fuel ts with
    | some ([t], r) => some (t, r)
    | some (ts', r) => some (.tuple ts', r)
    | none => none
def parseTermList (env : TEnv) : (fuel : Nat) → List TTok → Option (List FT × List TTok)
  | 0, _ => none
  | fuel + 1, ts =>
    match parseTermType env fuel ts with
    | none => none
    | some (one, .star :: r) =>
      match parseTermList env fuel r with
      | some (rest, r') => some (one :: rest, r')
      | none => none
    | some (one, r) => some ([one], r)
/-- TERM_TYPE = ATOM_TYPE | '[' ']' TERM_TYPE -/
def parseTermType (env : TEnv) : (fuel : Nat) → List TTok → Option (FT × List TTok)
  | 0, _ => none
  | fuel + 1, .lb :: .rb :: r =>
    match parseTermType env fuel r with
    | some (e, r') => some (.slice e, r')
    | none => none
  | _ + 1, .lb :: _ => none
  | fuel + 1, ts => parseAtomType env fuel ts
/-- ATOM_TYPE = base | '(' ')' | '(' TYPE ')' | REGISTERED ('<' TYPE_LIST '>')? -/
def parseAtomType (env : TEnv) : (fuel : Nat) → List TTok → Option (FT × List TTok)
  | 0, _ => none
  | _ + 1, .lp :: .rp :: r => some (.unit, r)
  | fuel + 1, .lp :: r =>
    match parseType env fuel r with
    | some (t, .rp :: r') => some (t, r')
    | _ => none
  | fuel + 1, .id s :: r =>
    if s = "string" then some (.string, r)
    else if s = "int" then some (.int, r)
    else if s = "bool" then some (.bool, r)
    else if s = "float" then some (.float, r)
    else if s = "any" then some (.any, r)
    else
      match parseFullName (fuel + 1) (.id s :: r) with
      | none => none
      | some (fullName, r4) =>
        match env.lookup fullName with
        | none => none                                  -- "type not found"
        | some (kind, goName, arity) =>
          match r4 with
          | .lt :: r5 =>
            match parseTypeList env fuel r5 with
            | some (targs, .gt :: r6) =>
              if targs.length ≠ arity then none   -- GenType/GenRecordType/GenUnionType: "wrong type param num"
              else some (.named kind goName targs, r6)
            | _ => none
          | _ =>
            if arity ≠ 0 then none
            else some (.named kind goName [], r4)
  | _ + 1, _ => none
/-- TYPE_LIST = TYPE (',' TYPE)* -/
def parseTypeList (env : TEnv) : (fuel : Nat) → List TTok → Option (List FT × List TTok)
  | 0, _ => none
  | fuel + 1, ts =>
    match parseType env fuel ts with
    | none => none
    | some (one, .comma :: r) =>
      match parseTypeList env fuel r with
      | some (rest, r') => some (one :: rest, r')
      | none => none
    | some (one, r) => some ([one], r)
end

/-! ### FTypeToGo -/

def joinWith (sep : String) : List String → String
  | [] => ""
  | [s] => s
  | s :: rest => s ++ sep ++ joinWith sep rest

def lastIsUnit : List FT → Bool
  | [] => true
  | [.unit] => true
  | [_] => false
  | _ :: rest => lastIsUnit rest

/-- funcTypeToGo on rendered targets: "func (" args joined by "," ")" then " " result unless the
result is unit (a unit *argument* renders as the empty string, as the code does) -/
def funcText (rendered : List String) (retIsUnit : Bool) : String :=
  "func (" ++ joinWith "," rendered.dropLast ++ ")" ++
    (if retIsUnit then "" else " " ++ rendered.getLastD "")

/-- tArgsToGo / fpToGo: Name or Name[T, U] -/
def namedText (goName : String) (rendered : List String) : String :=
  match rendered with
  | [] => goName
  | _ => goName ++ "[" ++ joinWith ", " rendered ++ "]"

mutual
def toGo : FT → String
  | .int => "int"
  | .bool => "bool"
  | .float => "float64"
  | .any => "any"
  | .string => "string"
  | .unit => ""
  | .func ts => funcText (toGoList ts) (lastIsUnit ts)
  | .slice e => "[]" ++ toGo e
  | .tuple es => "frt.Tuple" ++ toString es.length ++ "[" ++ joinWith ", " (toGoList es) ++ "]"
  | .named _ goName targs => namedText goName (toGoList targs)
def toGoList : List FT → List String
  | [] => []
  | t :: rest => toGo t :: toGoList rest
end

end Folang.TypeExpr
