import Folang.Model.TypeExpr
/-
C15: the concrete syntax of type expressions (a tree per grammar level, so that every rendering —
with the parentheses the levels require AND any redundant ones — is a value of `STy`), its rendering
to tokens and the FType it denotes.
   TYPE = ELEM ('->' ELEM)*     ELEM = TERM ('*' TERM)*     TERM = '[' ']' TERM | ATOM
   ATOM = base | '(' ')' | '(' TYPE ')' | Name('.'Name)* ('<' TYPE (',' TYPE)* '>')?
-/
namespace Folang.TypeExpr

inductive Base where
  | string | int | bool | float | any
deriving Repr, DecidableEq

def Base.name : Base → String
  | .string => "string" | .int => "int" | .bool => "bool" | .float => "float" | .any => "any"

def Base.ft : Base → FT
  | .string => .string | .int => .int | .bool => .bool | .float => .float | .any => .any

mutual
inductive STy where
  | arrows (first : SElem) (rest : List SElem)
inductive SElem where
  | stars (first : STerm) (rest : List STerm)
inductive STerm where
  | slice (e : STerm)
  | atom (a : SAtom)
inductive SAtom where
  | base (b : Base)
  | unit
  | paren (t : STy)
  | named (p1 : String) (ps : List String) (targs : List STy)
end

/-- Name ('.' Name)* as tokens / as the dotted string parseFullName builds -/
def pathToks : String → List String → List TTok
  | p1, [] => [.id p1]
  | p1, p :: ps => .id p1 :: .dot :: pathToks p ps

def pathName : String → List String → String
  | p1, [] => p1
  | p1, p :: ps => p1 ++ "." ++ pathName p ps

mutual
def renderTy : STy → List TTok
  | .arrows f rest => renderElem f ++ renderElems rest
def renderElems : List SElem → List TTok          -- ('->' ELEM)*
  | [] => []
  | e :: es => .arrow :: (renderElem e ++ renderElems es)
def renderElem : SElem → List TTok
  | .stars f rest => renderTerm f ++ renderTerms rest
def renderTerms : List STerm → List TTok          -- ('*' TERM)*
  | [] => []
  | t :: ts => .star :: (renderTerm t ++ renderTerms ts)
def renderTerm : STerm → List TTok
  | .slice e => .lb :: .rb :: renderTerm e
  | .atom a => renderAtom a
def renderAtom : SAtom → List TTok
  | .base b => [.id b.name]
  | .unit => [.lp, .rp]
  | .paren t => .lp :: (renderTy t ++ [.rp])
  | .named p1 ps [] => pathToks p1 ps
  | .named p1 ps (t :: ts) => pathToks p1 ps ++ (.lt :: (renderTy t ++ renderTys ts ++ [.gt]))
def renderTys : List STy → List TTok              -- (',' TYPE)*
  | [] => []
  | t :: ts => .comma :: (renderTy t ++ renderTys ts)
end

mutual
def denoteTy (env : TEnv) : STy → FT
  | .arrows f [] => denoteElem env f
  | .arrows f (e :: es) => .func (denoteElem env f :: denoteElems env (e :: es))
def denoteElems (env : TEnv) : List SElem → List FT
  | [] => []
  | e :: es => denoteElem env e :: denoteElems env es
def denoteElem (env : TEnv) : SElem → FT
  | .stars f [] => denoteTerm env f
  | .stars f (t :: ts) => .tuple (denoteTerm env f :: denoteTerms env (t :: ts))
def denoteTerms (env : TEnv) : List STerm → List FT
  | [] => []
  | t :: ts => denoteTerm env t :: denoteTerms env ts
def denoteTerm (env : TEnv) : STerm → FT
  | .slice e => .slice (denoteTerm env e)
  | .atom a => denoteAtom env a
def denoteAtom (env : TEnv) : SAtom → FT
  | .base b => b.ft
  | .unit => .unit
  | .paren t => denoteTy env t
  | .named p1 ps targs =>
    match env.lookup (pathName p1 ps) with
    | some (kind, goName, _) => .named kind goName (denoteTys env targs)
    | none => .unit
def denoteTys (env : TEnv) : List STy → List FT
  | [] => []
  | t :: ts => denoteTy env t :: denoteTys env ts
end

def isBaseName (s : String) : Bool :=
  s == "string" || s == "int" || s == "bool" || s == "float" || s == "any"

/- names resolve: every named type is registered under its dotted name with as many type parameters
as it is given arguments, and its first component is not a base type name -/
mutual
def wfTy (env : TEnv) : STy → Bool
  | .arrows f rest => wfElem env f && wfElems env rest
def wfElems (env : TEnv) : List SElem → Bool
  | [] => true
  | e :: es => wfElem env e && wfElems env es
def wfElem (env : TEnv) : SElem → Bool
  | .stars f rest => wfTerm env f && wfTerms env rest
def wfTerms (env : TEnv) : List STerm → Bool
  | [] => true
  | t :: ts => wfTerm env t && wfTerms env ts
def wfTerm (env : TEnv) : STerm → Bool
  | .slice e => wfTerm env e
  | .atom a => wfAtom env a
def wfAtom (env : TEnv) : SAtom → Bool
  | .base _ => true
  | .unit => true
  | .paren t => wfTy env t
  | .named p1 ps targs =>
    !isBaseName p1 && wfTys env targs &&
      (match env.lookup (pathName p1 ps) with
       | some (_, _, arity) => arity == targs.length
       | none => false)
def wfTys (env : TEnv) : List STy → Bool
  | [] => true
  | t :: ts => wfTy env t && wfTys env ts
end

/- fuel that suffices to parse the rendering -/
mutual
def sizeTy : STy → Nat
  | .arrows f rest => 3 + sizeElem f + sizeElems rest
def sizeElems : List SElem → Nat
  | [] => 0
  | e :: es => 1 + sizeElem e + sizeElems es
def sizeElem : SElem → Nat
  | .stars f rest => 3 + sizeTerm f + sizeTerms rest
def sizeTerms : List STerm → Nat
  | [] => 0
  | t :: ts => 1 + sizeTerm t + sizeTerms ts
def sizeTerm : STerm → Nat
  | .slice e => 1 + sizeTerm e
  | .atom a => 1 + sizeAtom a
def sizeAtom : SAtom → Nat
  | .base _ => 1
  | .unit => 1
  | .paren t => 1 + sizeTy t
  | .named _ ps targs => 2 + ps.length + sizeTys targs
def sizeTys : List STy → Nat
  | [] => 0
  | t :: ts => 1 + sizeTy t + sizeTys ts
end

end Folang.TypeExpr
