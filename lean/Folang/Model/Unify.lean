import Folang.Model.Infer
/-
C02: a REFERENCE unifier on the first-order type terms of Model/Infer.lean (Robinson's algorithm
with a work list and variable elimination), used as the independent inference the property asks
for: the harness turns a generated function body into type equations; the most general unifier
computed here gives the principal types of the parameters and of the result, which are compared
with the Go signature the real compiler emits.

This is NOT a model of fc's resolver (fc/infer.fo: updateResolver / resolveType collect relations
per equivalence class and resolve them lazily); it is the specification the resolver is measured
against.  Props/C02Unify.lean proves that the result is a unifier (certified: `unifyC` re-checks it)
and that it is most general.
-/
namespace Folang.Unify
open Folang.Infer

mutual
def beqTy : ITy → ITy → Bool
  | .var a, .var b => a == b
  | .con h as, .con g bs => h == g && beqTys as bs
  | _, _ => false
def beqTys : List ITy → List ITy → Bool
  | [], [] => true
  | a :: as, b :: bs => beqTy a b && beqTys as bs
  | _, _ => false
end

mutual
def occurs (a : String) : ITy → Bool
  | .var b => a == b
  | .con _ as => occursL a as
def occursL (a : String) : List ITy → Bool
  | [] => false
  | t :: ts => occurs a t || occursL a ts
end

/-- the substitution `[a := t]` -/
def sub1 (a : String) (t : ITy) : Subst := fun b => if b = a then t else .var b

abbrev Eqn := ITy × ITy
abbrev Bindings := List (String × ITy)

def substEqs (a : String) (t : ITy) (eqs : List Eqn) : List Eqn :=
  eqs.map (fun e => (e.1.subst (sub1 a t), e.2.subst (sub1 a t)))

inductive Res where
  | ok (acc : Bindings)
  | clash
  | fuel
deriving Repr

/-- work-list unification; `acc` collects the eliminated variables, newest first (triangular form) -/
def unify : Nat → List Eqn → Bindings → Res
  | 0, _, _ => .fuel
  | _ + 1, [], acc => .ok acc
  | f + 1, (.var a, .var b) :: rest, acc =>
    if a = b then unify f rest acc
    else unify f (substEqs a (.var b) rest) ((a, .var b) :: acc)
  | f + 1, (.var a, .con g bs) :: rest, acc =>
    if occursL a bs then .clash
    else unify f (substEqs a (.con g bs) rest) ((a, .con g bs) :: acc)
  | f + 1, (.con h as, .var b) :: rest, acc =>
    if occursL b as then .clash
    else unify f (substEqs b (.con h as) rest) ((b, .con h as) :: acc)
  | f + 1, (.con h as, .con g bs) :: rest, acc =>
    if h = g ∧ as.length = bs.length then unify f (as.zip bs ++ rest) acc
    else .clash

/-- apply the triangular bindings: the oldest first -/
def apply (acc : Bindings) (ty : ITy) : ITy :=
  acc.foldr (fun b t => t.subst (sub1 b.1 b.2)) ty

/-- certified unification: the result is re-checked to unify every equation -/
def unifyC (fuel : Nat) (eqs : List Eqn) : Res :=
  match unify fuel eqs [] with
  | .ok acc => if eqs.all (fun e => beqTy (apply acc e.1) (apply acc e.2)) then .ok acc else .fuel
  | r => r

/-! principal signature: the parameter / result types under the unifier, leftover variables numbered
by first occurrence -/

mutual
def tyVars : ITy → List String
  | .var a => [a]
  | .con _ as => tyVarsL as
def tyVarsL : List ITy → List String
  | [] => []
  | t :: ts => tyVars t ++ tyVarsL ts
end

def indexOf (xs : List String) (a : String) : Nat :=
  match xs with
  | [] => 0
  | x :: rest => if x = a then 0 else indexOf rest a + 1

/-- `(number of type parameters, types with variables renamed to their index)` -/
def principal (acc : Bindings) (tys : List ITy) : Nat × List ITy :=
  let ts := tys.map (apply acc)
  let order := distinct (tyVarsL ts)
  (order.length, ts.map (fun t => t.subst (fun a => .var (toString (indexOf order a)))))

end Folang.Unify
