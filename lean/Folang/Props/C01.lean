import Folang.Props.C08
import Folang.Props.C09
import Folang.Props.C11
import Folang.Props.C14
/-
C01 — transpiled programs behave exactly as their Folang source specifies.  (PARTIAL)

`C01_full` is the full statement (a verified-compiler theorem for the whole pipeline); it is NOT
proved.  What is machine-checked here:
  * the mechanisms the property's anchors name, each for all inputs, re-exported from the files that
    prove them: operator grouping (C08 climb_eq_group), lazily evaluated branches (C14 ifElse_*,
    ifOnly_*), pipe = application (C14 pipe_spec), match dispatch to the constructing case
    (C09 dispatch_total), literals and interpolation (C11_*);
  * the partial-application lowering (fcPartialApplyGo puts the given argument EXPRESSIONS inside the
    closure): `papp_agrees_when_pure` — for effect-free given arguments the lowered program has the
    reference trace and values, for any number of later calls; `papp_effects_late` — the witness that
    with an effectful argument it does not (known finding D9).
The reference semantics itself is executable Lean (Oracle/FSem.lean) and is compared with the compiled
output of the real pipeline on generated programs on every run (stream c01.prog).
-/
namespace Folang.Props.C01

/-- the full statement, over abstract functions: `fc` the transpiler, `goRun` compiling and running
Go, `evalFolang` the strict left-to-right lexically scoped reference semantics -/
def C01_full {Prog GoSrc : Type} (Documented WellTyped : Prog → Prop) (fc : Prog → Option GoSrc)
    (goRun : GoSrc → Option String) (evalFolang : Prog → Option String) : Prop :=
  ∀ p, Documented p → WellTyped p → ∃ g, fc p = some g ∧ goRun g = evalFolang p ∧ (evalFolang p).isSome

/-! ### partial application -/

/-- effectful integer expressions: literals, sums, and `tr tag e` which prints `tag` after `e` -/
inductive E where
  | lit (n : Int)
  | add (a b : E)
  | tr (tag : String) (e : E)

/-- strict left-to-right evaluation: (trace, value) -/
def ev : E → List String × Int
  | .lit n => ([], n)
  | .add a b => ((ev a).1 ++ (ev b).1, (ev a).2 + (ev b).2)
  | .tr tag e => ((ev e).1 ++ [tag], (ev e).2)

/-- REFERENCE: `let f = g e1` evaluates `e1` once, at the binding; each later call `f aᵢ` evaluates
`aᵢ` and then runs the body (trace `body v1 vᵢ`) -/
def refRun (body : Int → Int → List String × Int) (e1 : E) (calls : List E) : List String × List Int :=
  let r1 := ev e1
  calls.foldl (fun acc a =>
    let ra := ev a
    let rb := body r1.2 ra.2
    (acc.1 ++ ra.1 ++ rb.1, acc.2 ++ [rb.2])) (r1.1, [])

/-- LOWERED (fcPartialApplyGo): `f := func(_r0) { return g(e1, _r0) }`; each call evaluates the
argument `aᵢ` (Go evaluates call arguments first), then, inside the closure, `e1` AGAIN, then the body -/
def lowRun (body : Int → Int → List String × Int) (e1 : E) (calls : List E) : List String × List Int :=
  calls.foldl (fun acc a =>
    let ra := ev a
    let r1 := ev e1
    let rb := body r1.2 ra.2
    (acc.1 ++ ra.1 ++ r1.1 ++ rb.1, acc.2 ++ [rb.2])) ([], [])

/-- for an effect-free given argument the lowering preserves trace and values, for every body, every
sequence of later calls with arbitrary (effectful) arguments -/
theorem papp_agrees_when_pure (body : Int → Int → List String × Int) (e1 : E) (calls : List E)
    (pure : (ev e1).1 = []) : lowRun body e1 calls = refRun body e1 calls := by
  unfold lowRun refRun
  simp only [pure]
  have : ∀ (acc : List String × List Int),
      calls.foldl (fun acc a => (acc.1 ++ (ev a).1 ++ [] ++ (body (ev e1).2 (ev a).2).1, acc.2 ++ [(body (ev e1).2 (ev a).2).2])) acc =
      calls.foldl (fun acc a => (acc.1 ++ (ev a).1 ++ (body (ev e1).2 (ev a).2).1, acc.2 ++ [(body (ev e1).2 (ev a).2).2])) acc := by
    induction calls with
    | nil => intro acc; rfl
    | cons c rest ih => intro acc; simp only [List.foldl_cons, List.append_nil]
  exact this _

/-- witness (known finding D9): `let f = add (trI "arg" 1)`, then `f 2`, `f 3` with a silent body:
the reference prints "arg" once, before the calls; the lowered program prints it at every call -/
theorem papp_effects_late :
    let body : Int → Int → List String × Int := fun a b => ([], a + b)
    refRun body (.tr "arg" (.lit 1)) [.lit 2, .lit 3] = (["arg"], [3, 4]) ∧
    lowRun body (.tr "arg" (.lit 1)) [.lit 2, .lit 3] = (["arg", "arg"], [3, 4]) := by
  decide

end Folang.Props.C01
