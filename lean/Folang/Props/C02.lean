import Folang.Model.Infer
/-
C02 — inferred Go signatures are the principal Folang types.  (PARTIAL)

Proved, for all types (first-order terms of any depth) and all substitutions:
  `compositeTp_complete` every unifier of lhs and rhs satisfies the relations compositeTp returns
                         (the relations never over-constrain: most-generality of each step);
  `compositeTp_sound`    for shape-compatible lhs / rhs every substitution satisfying the returned
                         relations unifies them, and the returned type is their common instance;
  `hoist_*`              leftover variables are renamed T0, T1, … injectively, in order of first
                         occurrence, nothing else is renamed;
  `alloc_fresh`          every allocated type variable is distinct from all allocated since the last
                         reset (so every reference to a generic function is instantiated independently).
NOT proved: the resolver fixpoint (EquivSet / updateResolver) computes a most general unifier of all
collected relations; constraint collection over the AST; field-access types.  Tied by the C02 stream
(annotation-erasure metamorphic runs through the real compiler, expected signatures, go build).
-/
namespace Folang.Props.C02
open Folang.Infer

theorem satisfies_append (σ : Subst) (a b : List Rel) : Satisfies σ (a ++ b) ↔ Satisfies σ a ∧ Satisfies σ b := by
  simp only [Satisfies, List.mem_append]
  constructor
  · intro h; exact ⟨fun r hr => h r (.inl hr), fun r hr => h r (.inr hr)⟩
  · rintro ⟨h1, h2⟩ r (hr | hr)
    · exact h1 r hr
    · exact h2 r hr

theorem satisfies_nil (σ : Subst) : Satisfies σ [] := by intro r hr; cases hr

theorem satisfies_one (σ : Subst) (a : String) (t : ITy) : Satisfies σ [(a, t)] ↔ σ a = t.subst σ := by
  simp [Satisfies]

mutual
/-- completeness: a unifier satisfies every relation produced -/
theorem compositeTp_complete (σ : Subst) : ∀ (l r : ITy), l.subst σ = r.subst σ → Satisfies σ (compositeTp l r).2
  | .var a, .var b, h => by
    simp only [ITy.subst] at h
    unfold compositeTp
    split
    · exact satisfies_nil σ
    · split
      · exact (satisfies_one σ a (.var b)).mpr (by simpa [ITy.subst] using h)
      · exact (satisfies_one σ b (.var a)).mpr (by simpa [ITy.subst] using h.symm)
  | .var a, .con h2 as2, h => by
    simp only [compositeTp]
    exact (satisfies_one σ a _).mpr (by simpa [ITy.subst] using h)
  | .con h1 as1, .var b, h => by
    simp only [compositeTp]
    exact (satisfies_one σ b _).mpr (by simpa [ITy.subst] using h.symm)
  | .con h1 as1, .con h2 as2, h => by
    simp only [compositeTp]
    split
    · simp only [ITy.subst, ITy.con.injEq] at h
      exact compositeTpList_complete σ as1 as2 h.2
    · exact satisfies_nil σ
theorem compositeTpList_complete (σ : Subst) : ∀ (ls rs : List ITy), substList σ ls = substList σ rs →
    Satisfies σ (compositeTpList ls rs).2
  | [], _, _ => by simp [compositeTpList, satisfies_nil]
  | _ :: _, [], _ => by simp [compositeTpList, satisfies_nil]
  | l :: ls, r :: rs, h => by
    simp only [substList, List.cons.injEq] at h
    simp only [compositeTpList]
    exact (satisfies_append σ _ _).mpr ⟨compositeTp_complete σ l r h.1, compositeTpList_complete σ ls rs h.2⟩
end

mutual
/-- same shape wherever both sides are constructors -/
def Compatible : ITy → ITy → Prop
  | .var _, _ => True
  | .con _ _, .var _ => True
  | .con h1 as1, .con h2 as2 => h1 = h2 ∧ as1.length = as2.length ∧ CompatibleList as1 as2
def CompatibleList : List ITy → List ITy → Prop
  | l :: ls, r :: rs => Compatible l r ∧ CompatibleList ls rs
  | _, _ => True
end

mutual
/-- soundness: on compatible types the relations suffice, and the result is the common instance -/
theorem compositeTp_sound (σ : Subst) : ∀ (l r : ITy), Compatible l r → Satisfies σ (compositeTp l r).2 →
    l.subst σ = r.subst σ ∧ (compositeTp l r).1.subst σ = l.subst σ
  | .var a, .var b, _, hs => by
    by_cases hab : a = b
    · subst hab; simp [compositeTp]
    · by_cases hgt : a > b
      · simp only [compositeTp, hab, hgt, if_true, if_false] at hs ⊢
        have := (satisfies_one σ a (.var b)).mp hs
        simp only [ITy.subst] at this ⊢
        exact ⟨this, this.symm⟩
      · simp only [compositeTp, hab, hgt, if_false] at hs ⊢
        have := (satisfies_one σ b (.var a)).mp hs
        simp only [ITy.subst] at this ⊢
        exact ⟨this.symm, trivial⟩
  | .var a, .con h2 as2, _, hs => by
    simp only [compositeTp] at hs ⊢
    have := (satisfies_one σ a _).mp hs
    exact ⟨by simpa [ITy.subst] using this, by simp [ITy.subst] at this ⊢; exact this.symm⟩
  | .con h1 as1, .var b, _, hs => by
    simp only [compositeTp] at hs ⊢
    have := (satisfies_one σ b _).mp hs
    exact ⟨by simpa [ITy.subst] using this.symm, trivial⟩
  | .con h1 as1, .con h2 as2, hc, hs => by
    obtain ⟨hh, hl, hcl⟩ := hc
    simp only [compositeTp, hh, hl, and_self, if_true] at hs ⊢
    have := compositeTpList_sound σ as1 as2 hl hcl hs
    subst hh
    simp only [ITy.subst, this.1, this.2, and_self]
theorem compositeTpList_sound (σ : Subst) : ∀ (ls rs : List ITy), ls.length = rs.length → CompatibleList ls rs →
    Satisfies σ (compositeTpList ls rs).2 →
    substList σ ls = substList σ rs ∧ substList σ (compositeTpList ls rs).1 = substList σ ls
  | [], [], _, _, _ => by simp [compositeTpList, substList]
  | [], _ :: _, hl, _, _ => by simp at hl
  | _ :: _, [], hl, _, _ => by simp at hl
  | l :: ls, r :: rs, hl, hc, hs => by
    simp only [compositeTpList] at hs ⊢
    obtain ⟨h1, h2⟩ := (satisfies_append σ _ _).mp hs
    have a := compositeTp_sound σ l r hc.1 h1
    have b := compositeTpList_sound σ ls rs (by simpa using hl) hc.2 h2
    simp only [substList, a.1, a.2, b.1, b.2, and_self]
end

/-! ### hoisting -/

theorem distinct_nodup (occ : List String) : (distinct occ).Nodup := by
  induction occ with
  | nil => simp [distinct]
  | cons x xs ih =>
    simp only [distinct, List.nodup_cons]
    exact ⟨by simp, ih.filter _⟩

theorem mem_distinct (occ : List String) (a : String) : a ∈ distinct occ ↔ a ∈ occ := by
  induction occ with
  | nil => simp [distinct]
  | cons x xs ih =>
    simp only [distinct, List.mem_cons, List.mem_filter, ih]
    by_cases ha : a = x <;> simp [ha]

/-- exactly the leftover variables are renamed, each once -/
theorem hoist_domain (occ : List String) : (hoistNames occ).map (·.1) = distinct occ := by
  simp [hoistNames, List.map_map, Function.comp_def]

/-- the k-th variable in first-occurrence order becomes T{k} -/
theorem hoist_first_occurrence (occ : List String) (k : Nat) (v : String) (h : (distinct occ)[k]? = some v) :
    (hoistNames occ)[k]? = some (v, "T" ++ toString k) := by
  simp only [hoistNames, List.getElem?_map, List.getElem?_zipIdx, h, Option.map_some]
  simp

/-- the new names are T0 … T(n-1) in order -/
theorem hoist_names (occ : List String) :
    (hoistNames occ).map (·.2) = (List.range (distinct occ).length).map (fun k => "T" ++ toString k) := by
  simp only [hoistNames, List.map_map]
  apply List.ext_getElem?
  intro k
  simp only [List.getElem?_map, List.getElem?_zipIdx, List.getElem?_range, Function.comp]
  by_cases hk : k < (distinct occ).length
  · simp [hk, List.getElem?_eq_getElem hk]
  · simp [hk, List.getElem?_eq_none (Nat.le_of_not_lt hk)]

/-! ### allocator -/

/-- invariant: everything allocated is below seqId, without repetition -/
def AllocInv (a : Alloc) : Prop := a.allocated.Nodup ∧ ∀ n ∈ a.allocated, n < a.seqId

theorem alloc_inv_reset : AllocInv Alloc.reset := by simp [AllocInv, Alloc.reset]

theorem alloc_inv_step (a a' : Alloc) (n : Nat) (inv : AllocInv a) (h : a.allocate = some (n, a')) :
    AllocInv a' ∧ n ∉ a.allocated ∧ a'.allocated = a.allocated ++ [n] := by
  unfold Alloc.allocate at h
  split at h
  · cases h
  · simp only [Option.some.injEq, Prod.mk.injEq] at h
    obtain ⟨hn, ha⟩ := h
    subst hn; subst ha
    refine ⟨⟨?_, ?_⟩, ?_, rfl⟩
    · rw [List.nodup_append]
      refine ⟨inv.1, by simp, ?_⟩
      intro x hx y hy
      simp at hy; subst hy
      exact Nat.ne_of_lt (inv.2 x hx)
    · intro m hm
      simp only [List.mem_append, List.mem_singleton] at hm
      rcases hm with hm | hm
      · exact Nat.lt_succ_of_lt (inv.2 m hm)
      · subst hm; exact Nat.lt_succ_self _
    · intro hin; exact Nat.lt_irrefl _ (inv.2 _ hin)

/-- k allocations in a row -/
def allocMany : Nat → Alloc → Option Alloc
  | 0, a => some a
  | k + 1, a => (allocMany k a).bind (fun x => x.allocate.map (·.2))

/-- **alloc_fresh**: whatever number of allocations follows a reset, the allocated variables are
pairwise distinct: every reference to a generic function gets variables different from all others -/
theorem alloc_fresh (k : Nat) (a' : Alloc) (h : allocMany k Alloc.reset = some a') : a'.allocated.Nodup := by
  have gen : ∀ k a', allocMany k Alloc.reset = some a' → AllocInv a' := by
    intro k
    induction k with
    | zero => intro a' h; simp only [allocMany, Option.some.injEq] at h; subst h; exact alloc_inv_reset
    | succ n ih =>
      intro a' h
      simp only [allocMany] at h
      cases hprev : allocMany n Alloc.reset with
      | none => rw [hprev] at h; simp at h
      | some b =>
        rw [hprev] at h
        simp only [Option.bind_some] at h
        cases hal : b.allocate with
        | none => rw [hal] at h; simp at h
        | some pr =>
          rw [hal] at h
          simp only [Option.map_some, Option.some.injEq] at h
          subst h
          exact (alloc_inv_step b pr.2 pr.1 (ih b hprev) hal).1
  exact (gen k a' h).1

/-- non-vacuity: int->T1->[]string against int->int->[]T2 (the example in the source comment) -/
example :
    compositeTp (.con "->" [.con "int" [], .var "T1", .con "[]" [.con "string" []]])
                (.con "->" [.con "int" [], .con "int" [], .con "[]" [.var "T2"]]) =
    (.con "->" [.con "int" [], .con "int" [], .con "[]" [.con "string" []]],
     [("T1", .con "int" []), ("T2", .con "string" [])]) := by
  simp [compositeTp, compositeTpList]

end Folang.Props.C02
