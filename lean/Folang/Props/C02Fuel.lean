import Folang.Model.Unify

/-!
# C02 — the answer of the reference unifier does not depend on the fuel

`unify` takes a step bound.  Once it has answered (`ok` or `clash`) with some bound it gives the same
answer with every larger bound: the bound never changes WHAT is answered, only whether an answer is
reached.  (The stream `c02.graph` answers an exhausted bound as outside-fragment: counted, not compared.)
-/

namespace Folang.Unify

theorem unify_fuel_mono : ∀ (f : Nat) (eqs : List Eqn) (acc : Bindings) (r : Res),
    unify f eqs acc = r → r ≠ .fuel → unify (f + 1) eqs acc = r := by
  intro f
  induction f with
  | zero => intro eqs acc r h hr; simp [unify] at h; exact absurd h.symm hr
  | succ f ih =>
    intro eqs acc r h hr
    match eqs, h with
    | [], h => simpa [unify] using h
    | (.var a, .var b) :: rest, h =>
      unfold unify at h ⊢
      split at h
      · rename_i e; simp only [e, if_true]; exact ih _ _ _ h hr
      · rename_i e; simp only [e, if_false]; exact ih _ _ _ h hr
    | (.var a, .con g bs) :: rest, h =>
      unfold unify at h ⊢
      split at h
      · rename_i e; simp only [e, if_true]; exact h
      · rename_i e; simp only [e]; exact ih _ _ _ h hr
    | (.con g as, .var b) :: rest, h =>
      unfold unify at h ⊢
      split at h
      · rename_i e; simp only [e, if_true]; exact h
      · rename_i e; simp only [e]; exact ih _ _ _ h hr
    | (.con g as, .con g' bs) :: rest, h =>
      unfold unify at h ⊢
      split at h
      · rename_i e; simp only [e]; exact ih _ _ _ h hr
      · rename_i e; simp only [e, if_false]; exact h

/-- … hence with every larger bound -/
theorem unify_fuel_indep (f k : Nat) (eqs : List Eqn) (acc : Bindings) (r : Res)
    (h : unify f eqs acc = r) (hr : r ≠ .fuel) : unify (f + k) eqs acc = r := by
  induction k with
  | zero => exact h
  | succ k ih => exact unify_fuel_mono (f + k) eqs acc r ih hr

/-- two bounds that both reach an answer reach the same answer -/
theorem unify_answer_unique (f g : Nat) (eqs : List Eqn) (acc : Bindings)
    (hf : unify f eqs acc ≠ .fuel) (hg : unify g eqs acc ≠ .fuel) : unify f eqs acc = unify g eqs acc := by
  rcases Nat.le_total f g with h | h
  · obtain ⟨k, rfl⟩ := Nat.exists_eq_add_of_le h
    exact (unify_fuel_indep f k eqs acc _ rfl hf).symm
  · obtain ⟨k, rfl⟩ := Nat.exists_eq_add_of_le h
    exact unify_fuel_indep g k eqs acc _ rfl hg

end Folang.Unify
