import Folang.Props.C02Term

/-!
# C02 — the reference unifier is sound WITHOUT its certificate

`unifyC` re-checks its answer (Props/C02Unify.lean proves `unifyC_sound` from that check).  Here the
work-list algorithm itself is shown sound: whenever `unify` answers `ok acc`, the bindings solve every
equation it was given.  Hence the re-check of `unifyC` never fails (`unifyC_eq_unify`) and `unifyC`
inherits termination: for every system some step bound makes `unifyC` answer `ok` or `clash`, and every
larger bound gives the same answer (`unifyC_total`).
-/

namespace Folang.Unify
open Folang.Infer Folang.Props.C02Unify

mutual
theorem subst_comp (σ θ : Subst) : ∀ (u : ITy), (u.subst σ).subst θ = u.subst (fun v => (σ v).subst θ)
  | .var _ => by simp [ITy.subst]
  | .con g as => by simp only [ITy.subst, substList_comp σ θ as]
theorem substList_comp (σ θ : Subst) : ∀ (us : List ITy),
    substList θ (substList σ us) = substList (fun v => (σ v).subst θ) us
  | [] => rfl
  | u :: us => by simp only [substList, subst_comp σ θ u, substList_comp σ θ us]
end

mutual
theorem subst_agree (θ1 θ2 : Subst) : ∀ (u : ITy), (∀ v, occurs v u = true → θ1 v = θ2 v) → u.subst θ1 = u.subst θ2
  | .var b, h => by simpa [ITy.subst] using h b (by simp [occurs])
  | .con g as, h => by
    simp only [ITy.subst]
    rw [substList_agree θ1 θ2 as (fun v hv => h v (by simpa [occurs] using hv))]
theorem substList_agree (θ1 θ2 : Subst) : ∀ (us : List ITy), (∀ v, occursL v us = true → θ1 v = θ2 v) →
    substList θ1 us = substList θ2 us
  | [], _ => rfl
  | u :: us, h => by
    simp only [substList]
    rw [subst_agree θ1 θ2 u (fun v hv => h v (by simp [occursL, hv])),
        substList_agree θ1 θ2 us (fun v hv => h v (by simp [occursL, hv]))]
end

mutual
theorem subst_var : ∀ (u : ITy), u.subst ITy.var = u
  | .var _ => rfl
  | .con g as => by simp only [ITy.subst, substList_var as]
theorem substList_var : ∀ (us : List ITy), substList ITy.var us = us
  | [] => rfl
  | u :: us => by simp only [substList, subst_var u, substList_var us]
end

mutual
theorem beqTy_refl : ∀ (t : ITy), beqTy t t = true
  | .var _ => by simp [beqTy]
  | .con g as => by simp [beqTy, beqTys_refl as]
theorem beqTys_refl : ∀ (ts : List ITy), beqTys ts ts = true
  | [] => by simp [beqTys]
  | t :: ts => by simp [beqTys, beqTy_refl t, beqTys_refl ts]
end

theorem zip_substList (θ : Subst) : ∀ (as bs : List ITy), as.length = bs.length →
    (∀ e ∈ as.zip bs, e.1.subst θ = e.2.subst θ) → substList θ as = substList θ bs
  | [], [], _, _ => rfl
  | [], _ :: _, hl, _ => by simp at hl
  | _ :: _, [], hl, _ => by simp at hl
  | a :: as, b :: bs, hl, h => by
    simp only [substList]
    rw [h (a, b) (by simp), zip_substList θ as bs (by simpa using hl)
      (fun e he => h e (by simp only [List.zip_cons_cons, List.mem_cons]; exact Or.inr he))]

theorem apply_cons (b : String × ITy) (acc : Bindings) (ty : ITy) :
    apply (b :: acc) ty = (apply acc ty).subst (sub1 b.1 b.2) := rfl

/-- what the remaining equations still owe to the original ones -/
def Owes (eqs0 eqs : List Eqn) (acc : Bindings) : Prop :=
  ∀ θ, Unifies θ eqs → ∀ e ∈ eqs0, (apply acc e.1).subst θ = (apply acc e.2).subst θ

/-- one elimination step keeps the debt -/
theorem owes_elim (eqs0 rest : List Eqn) (acc : Bindings) (a : String) (t : ITy) (lhsFirst : Bool)
    (hocc : occurs a t = false)
    (h : Owes eqs0 ((if lhsFirst then (.var a, t) else (t, .var a)) :: rest) acc) :
    Owes eqs0 (substEqs a t rest) ((a, t) :: acc) := by
  intro θ hu e he
  rw [apply_cons, apply_cons, subst_comp, subst_comp]
  apply h _ _ e he
  -- θ' = θ after [a := t] unifies the equation that was eliminated and the rest
  have ha : (sub1 a t a).subst θ = t.subst θ := by simp [sub1]
  have ht : t.subst (fun v => (sub1 a t v).subst θ) = t.subst θ := by
    apply subst_agree
    intro v hv
    have : v ≠ a := fun e' => by rw [e', hocc] at hv; exact absurd hv (by simp)
    simp [sub1, this, ITy.subst]
  intro e' he'
  simp only [List.mem_cons] at he'
  rcases he' with rfl | he'
  · cases lhsFirst with
    | true => simp only [↓reduceIte, ITy.subst]; rw [ha, ht]
    | false => simp only [Bool.false_eq_true, ↓reduceIte, ITy.subst]; rw [ha, ht]
  · rw [← subst_comp, ← subst_comp]
    exact hu (e'.1.subst (sub1 a t), e'.2.subst (sub1 a t)) (by
      simp only [substEqs, List.mem_map]; exact ⟨e', he', rfl⟩)

theorem unify_owes (eqs0 : List Eqn) : ∀ (f : Nat) (eqs : List Eqn) (acc acc' : Bindings),
    unify f eqs acc = .ok acc' → Owes eqs0 eqs acc → Owes eqs0 [] acc' := by
  intro f
  induction f with
  | zero => intro eqs acc acc' h; simp [unify] at h
  | succ f ih =>
    intro eqs acc acc' h hI
    match eqs, h, hI with
    | [], h, hI =>
      simp only [unify, Res.ok.injEq] at h
      subst h; exact hI
    | (.var a, .var b) :: rest, h, hI =>
      unfold unify at h
      split at h
      · rename_i e
        refine ih rest acc acc' h ?_
        intro θ hu e0 he0
        refine hI θ ?_ e0 he0
        intro e' he'
        simp only [List.mem_cons] at he'
        rcases he' with rfl | he'
        · simp [e]
        · exact hu e' he'
      · rename_i e
        have hocc : occurs a (.var b) = false := by simpa [occurs] using e
        exact ih _ _ acc' h (owes_elim eqs0 rest acc a (.var b) true hocc hI)
    | (.var a, .con g bs) :: rest, h, hI =>
      unfold unify at h
      split at h
      · cases h
      · rename_i e
        have hocc : occurs a (.con g bs) = false := by simpa [occurs] using e
        exact ih _ _ acc' h (owes_elim eqs0 rest acc a (.con g bs) true hocc hI)
    | (.con g as, .var b) :: rest, h, hI =>
      unfold unify at h
      split at h
      · cases h
      · rename_i e
        have hocc : occurs b (.con g as) = false := by simpa [occurs] using e
        exact ih _ _ acc' h (owes_elim eqs0 rest acc b (.con g as) false hocc hI)
    | (.con g as, .con g' bs) :: rest, h, hI =>
      unfold unify at h
      split at h
      · rename_i e
        refine ih _ acc acc' h ?_
        intro θ hu e0 he0
        refine hI θ ?_ e0 he0
        intro e' he'
        simp only [List.mem_cons] at he'
        rcases he' with rfl | he'
        · simp only [ITy.subst, e.1]
          rw [zip_substList θ as bs e.2 (fun x hx => hu x (List.mem_append_left _ hx))]
        · exact hu e' (List.mem_append_right _ he')
      · cases h

/-- **soundness of the work-list unifier itself**: its bindings solve every equation -/
theorem unify_sound (f : Nat) (eqs : List Eqn) (acc : Bindings) (h : unify f eqs [] = .ok acc) :
    ∀ e ∈ eqs, apply acc e.1 = apply acc e.2 := by
  intro e he
  have := unify_owes eqs f eqs [] acc h (fun θ hu e0 he0 => by simpa [apply] using hu e0 he0)
    ITy.var (fun _ h' => by cases h') e he
  simpa [subst_var] using this

/-- the certificate never fails: `unifyC` is `unify` -/
theorem unifyC_eq_unify (f : Nat) (eqs : List Eqn) : unifyC f eqs = unify f eqs [] := by
  unfold unifyC
  cases hu : unify f eqs [] with
  | ok acc =>
    have : eqs.all (fun e => beqTy (apply acc e.1) (apply acc e.2)) = true := by
      rw [List.all_eq_true]
      intro e he
      rw [unify_sound f eqs acc hu e he]
      exact beqTy_refl _
    simp [this]
  | clash => rfl
  | fuel => rfl

/-- the certified reference terminates too: some bound yields `ok` or `clash`, every larger bound the same -/
theorem unifyC_total (eqs : List Eqn) : ∃ f r, r ≠ .fuel ∧ ∀ k, unifyC (f + k) eqs = r := by
  obtain ⟨f, r, hr, h⟩ := unify_total eqs []
  exact ⟨f, r, hr, fun k => by rw [unifyC_eq_unify]; exact h k⟩

end Folang.Unify
