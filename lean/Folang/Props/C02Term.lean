import Folang.Props.C02Unify
import Folang.Props.C02Fuel

/-!
# C02 — the reference unifier terminates

For every system of equations there is a step bound with which `unify` answers (`ok` or `clash`), and
by `unify_fuel_indep` every larger bound gives that same answer.  The measure is the classical one:
(number of variables that can still occur, total size of the equations), lexicographically — an
elimination step removes its variable from all remaining equations (the occurs check guarantees that
the substituted type does not bring it back), a decomposition step shrinks the equations.
-/

namespace Folang.Unify
open Folang.Infer Folang.Props.C02Unify

def occEqs (v : String) : List Eqn → Bool
  | [] => false
  | e :: es => occurs v e.1 || occurs v e.2 || occEqs v es

def sizeEqs : List Eqn → Nat
  | [] => 0
  | e :: es => tySize e.1 + tySize e.2 + sizeEqs es

theorem tySize_pos : ∀ (t : ITy), 1 ≤ tySize t
  | .var _ => by simp [tySize]
  | .con _ _ => by simp [tySize]

theorem occEqs_append (v : String) : ∀ (xs ys : List Eqn), occEqs v (xs ++ ys) = (occEqs v xs || occEqs v ys)
  | [], ys => by simp [occEqs]
  | x :: xs, ys => by simp [occEqs, occEqs_append v xs ys, Bool.or_assoc]

theorem sizeEqs_append : ∀ (xs ys : List Eqn), sizeEqs (xs ++ ys) = sizeEqs xs + sizeEqs ys
  | [], ys => by simp [sizeEqs]
  | x :: xs, ys => by simp [sizeEqs, sizeEqs_append xs ys]; omega

theorem occEqs_zip (v : String) : ∀ (as bs : List ITy), occEqs v (as.zip bs) = true →
    occursL v as = true ∨ occursL v bs = true
  | [], _, h => by simp [occEqs] at h
  | _ :: _, [], h => by simp [occEqs] at h
  | a :: as, b :: bs, h => by
    simp only [List.zip_cons_cons, occEqs, Bool.or_eq_true] at h
    simp only [occursL, Bool.or_eq_true]
    rcases h with (h | h) | h
    · exact Or.inl (Or.inl h)
    · exact Or.inr (Or.inl h)
    · rcases occEqs_zip v as bs h with h' | h'
      · exact Or.inl (Or.inr h')
      · exact Or.inr (Or.inr h')

theorem sizeEqs_zip : ∀ (as bs : List ITy), sizeEqs (as.zip bs) ≤ tysSize as + tysSize bs
  | [], _ => by simp [sizeEqs]
  | _ :: _, [] => by simp [sizeEqs]
  | a :: as, b :: bs => by
    have := sizeEqs_zip as bs
    simp only [List.zip_cons_cons, sizeEqs, tysSize]
    omega

mutual
theorem occurs_subst (v a : String) (t : ITy) : ∀ (u : ITy), occurs v (u.subst (sub1 a t)) = true →
    (occurs v u = true ∧ v ≠ a) ∨ occurs v t = true
  | .var b, h => by
    simp only [ITy.subst, sub1] at h
    by_cases e : b = a
    · simp only [e, if_true] at h; exact Or.inr h
    · simp only [e, if_false] at h
      have hv : v = b := by simpa [occurs] using h
      exact Or.inl ⟨h, by rw [hv]; exact e⟩
  | .con g as, h => by
    simp only [ITy.subst, occurs] at h
    rcases occursL_subst v a t as h with h' | h'
    · exact Or.inl ⟨by simpa [occurs] using h'.1, h'.2⟩
    · exact Or.inr h'
theorem occursL_subst (v a : String) (t : ITy) : ∀ (us : List ITy), occursL v (substList (sub1 a t) us) = true →
    (occursL v us = true ∧ v ≠ a) ∨ occurs v t = true
  | [], h => by simp [substList, occursL] at h
  | u :: us, h => by
    simp only [substList, occursL, Bool.or_eq_true] at h
    rcases h with h | h
    · rcases occurs_subst v a t u h with h' | h'
      · exact Or.inl ⟨by simp [occursL, h'.1], h'.2⟩
      · exact Or.inr h'
    · rcases occursL_subst v a t us h with h' | h'
      · exact Or.inl ⟨by simp [occursL, h'.1], h'.2⟩
      · exact Or.inr h'
end

theorem occEqs_substEqs (v a : String) (t : ITy) : ∀ (es : List Eqn), occEqs v (substEqs a t es) = true →
    (occEqs v es = true ∧ v ≠ a) ∨ occurs v t = true
  | [], h => by simp [substEqs, occEqs] at h
  | e :: es, h => by
    have hs : substEqs a t (e :: es) = (e.1.subst (sub1 a t), e.2.subst (sub1 a t)) :: substEqs a t es := by
      simp [substEqs]
    rw [hs] at h
    simp only [occEqs, Bool.or_eq_true] at h
    rcases h with (h | h) | h
    · rcases occurs_subst v a t e.1 h with h' | h'
      · exact Or.inl ⟨by simp [occEqs, h'.1], h'.2⟩
      · exact Or.inr h'
    · rcases occurs_subst v a t e.2 h with h' | h'
      · exact Or.inl ⟨by simp [occEqs, h'.1], h'.2⟩
      · exact Or.inr h'
    · rcases occEqs_substEqs v a t es h with h' | h'
      · exact Or.inl ⟨by simp [occEqs, h'.1], h'.2⟩
      · exact Or.inr h'

/-- the elimination step: every variable left is one of `vs` other than `a` -/
theorem elim_vars (vs : List String) (a : String) (t : ITy) (rest : List Eqn)
    (hv : ∀ v, occEqs v ((.var a, t) :: rest) = true → v ∈ vs) (hocc : occurs a t = false) :
    ∀ v, occEqs v (substEqs a t rest) = true → v ∈ vs.filter (fun x => x != a) := by
  intro v h
  rw [List.mem_filter]
  rcases occEqs_substEqs v a t rest h with ⟨h1, h2⟩ | h1
  · exact ⟨hv v (by simp [occEqs, h1]), by simpa using h2⟩
  · refine ⟨hv v (by simp [occEqs, h1]), ?_⟩
    have : v ≠ a := fun e => by rw [e, hocc] at h1; exact absurd h1 (by simp)
    simpa using this

theorem elim_shorter (vs : List String) (a : String) (h : a ∈ vs) :
    (vs.filter (fun x => x != a)).length < vs.length :=
  List.length_filter_lt_length_iff_exists.mpr ⟨a, h, by simp⟩

theorem inner (vs : List String)
    (H : ∀ vs' : List String, vs'.length < vs.length → ∀ (eqs : List Eqn) (acc : Bindings),
      (∀ v, occEqs v eqs = true → v ∈ vs') → ∃ f, unify f eqs acc ≠ .fuel) :
    ∀ (m : Nat) (eqs : List Eqn), sizeEqs eqs ≤ m → (∀ v, occEqs v eqs = true → v ∈ vs) →
      ∀ acc, ∃ f, unify f eqs acc ≠ .fuel := by
  intro m
  induction m with
  | zero =>
    intro eqs hs _ acc
    match eqs, hs with
    | [], _ => exact ⟨1, by simp [unify]⟩
    | e :: es, hs =>
      have := tySize_pos e.1
      simp only [sizeEqs] at hs
      omega
  | succ m ih =>
    intro eqs hs hv acc
    match eqs, hs, hv with
    | [], _, _ => exact ⟨1, by simp [unify]⟩
    | (.var a, .var b) :: rest, hs, hv =>
      by_cases e : a = b
      · simp only [sizeEqs, tySize] at hs
        obtain ⟨f, hf⟩ := ih rest (by omega) (fun v h => hv v (by simp [occEqs, h])) acc
        exact ⟨f + 1, by simpa [unify, e] using hf⟩
      · have ha : a ∈ vs := hv a (by simp [occEqs, occurs])
        have hocc : occurs a (.var b) = false := by simpa [occurs] using e
        obtain ⟨f, hf⟩ := H _ (elim_shorter vs a ha) (substEqs a (.var b) rest) ((a, .var b) :: acc)
          (elim_vars vs a (.var b) rest hv hocc)
        exact ⟨f + 1, by simpa [unify, e] using hf⟩
    | (.var a, .con g bs) :: rest, hs, hv =>
      by_cases e : occursL a bs = true
      · exact ⟨1, by simp [unify, e]⟩
      · have ha : a ∈ vs := hv a (by simp [occEqs, occurs])
        have hocc : occurs a (.con g bs) = false := by simpa [occurs] using e
        obtain ⟨f, hf⟩ := H _ (elim_shorter vs a ha) (substEqs a (.con g bs) rest) ((a, .con g bs) :: acc)
          (elim_vars vs a (.con g bs) rest hv hocc)
        exact ⟨f + 1, by simpa [unify, e] using hf⟩
    | (.con g as, .var b) :: rest, hs, hv =>
      by_cases e : occursL b as = true
      · exact ⟨1, by simp [unify, e]⟩
      · have hb : b ∈ vs := hv b (by simp [occEqs, occurs])
        have hocc : occurs b (.con g as) = false := by simpa [occurs] using e
        have hv' : ∀ v, occEqs v ((.var b, .con g as) :: rest) = true → v ∈ vs := by
          intro v h
          apply hv v
          simp only [occEqs, Bool.or_eq_true] at h ⊢
          rcases h with (h | h) | h
          · exact Or.inl (Or.inr h)
          · exact Or.inl (Or.inl h)
          · exact Or.inr h
        obtain ⟨f, hf⟩ := H _ (elim_shorter vs b hb) (substEqs b (.con g as) rest) ((b, .con g as) :: acc)
          (elim_vars vs b (.con g as) rest hv' hocc)
        exact ⟨f + 1, by simpa [unify, e] using hf⟩
    | (.con h as, .con g bs) :: rest, hs, hv =>
      by_cases e : h = g ∧ as.length = bs.length
      · have hz := sizeEqs_zip as bs
        simp only [sizeEqs, tySize] at hs
        obtain ⟨f, hf⟩ := ih (as.zip bs ++ rest) (by rw [sizeEqs_append]; omega)
          (by
            intro v hvv
            rw [occEqs_append, Bool.or_eq_true] at hvv
            apply hv v
            rcases hvv with hvv | hvv
            · rcases occEqs_zip v as bs hvv with h' | h'
              · simp [occEqs, occurs, h']
              · simp [occEqs, occurs, h']
            · simp [occEqs, hvv]) acc
        exact ⟨f + 1, by simpa [unify, e] using hf⟩
      · exact ⟨1, by simp [unify, e]⟩

theorem term_aux : ∀ (n : Nat) (vs : List String), vs.length = n → ∀ (eqs : List Eqn) (acc : Bindings),
    (∀ v, occEqs v eqs = true → v ∈ vs) → ∃ f, unify f eqs acc ≠ .fuel := by
  intro n
  induction n using Nat.strongRecOn with
  | _ n ih =>
    intro vs hl eqs acc hv
    exact inner vs (fun vs' hlt eqs' acc' hv' => ih vs'.length (hl ▸ hlt) vs' rfl eqs' acc' hv')
      (sizeEqs eqs) eqs (Nat.le_refl _) hv acc

mutual
theorem occurs_mem_tyVars (v : String) : ∀ (t : ITy), occurs v t = true → v ∈ tyVars t
  | .var b, h => by simpa [occurs, tyVars] using h
  | .con _ as, h => by simp only [occurs] at h; simpa [tyVars] using occursL_mem_tyVarsL v as h
theorem occursL_mem_tyVarsL (v : String) : ∀ (ts : List ITy), occursL v ts = true → v ∈ tyVarsL ts
  | [], h => by simp [occursL] at h
  | t :: ts, h => by
    simp only [occursL, Bool.or_eq_true] at h
    simp only [tyVarsL, List.mem_append]
    rcases h with h | h
    · exact Or.inl (occurs_mem_tyVars v t h)
    · exact Or.inr (occursL_mem_tyVarsL v ts h)
end

def varsEqs : List Eqn → List String
  | [] => []
  | e :: es => tyVars e.1 ++ tyVars e.2 ++ varsEqs es

theorem occEqs_mem_varsEqs (v : String) : ∀ (es : List Eqn), occEqs v es = true → v ∈ varsEqs es
  | [], h => by simp [occEqs] at h
  | e :: es, h => by
    simp only [occEqs, Bool.or_eq_true] at h
    simp only [varsEqs, List.mem_append]
    rcases h with (h | h) | h
    · exact Or.inl (Or.inl (occurs_mem_tyVars v _ h))
    · exact Or.inl (Or.inr (occurs_mem_tyVars v _ h))
    · exact Or.inr (occEqs_mem_varsEqs v es h)

/-- **the reference unifier terminates**: for every system (and every accumulator) some step bound
yields an answer … -/
theorem unify_terminates (eqs : List Eqn) (acc : Bindings) : ∃ f, unify f eqs acc ≠ .fuel :=
  term_aux _ (varsEqs eqs) rfl eqs acc (occEqs_mem_varsEqs · eqs)

/-- … and every larger bound yields the same one -/
theorem unify_total (eqs : List Eqn) (acc : Bindings) :
    ∃ f r, r ≠ .fuel ∧ ∀ k, unify (f + k) eqs acc = r := by
  obtain ⟨f, hf⟩ := unify_terminates eqs acc
  exact ⟨f, unify f eqs acc, hf, fun k => unify_fuel_indep f k eqs acc _ rfl hf⟩

end Folang.Unify
