import Folang.Model.Unify
import Folang.Props.C02
/-
C02 — the reference unifier computes most general unifiers (principal types).
-/
namespace Folang.Props.C02Unify
open Folang.Infer Folang.Unify

/-- θ solves the equations -/
def Unifies (θ : Subst) (eqs : List Eqn) : Prop := ∀ e ∈ eqs, e.1.subst θ = e.2.subst θ
/-- θ agrees with the bindings -/
def Respects (θ : Subst) (acc : Bindings) : Prop := ∀ b ∈ acc, θ b.1 = b.2.subst θ

mutual
theorem beqTy_eq : ∀ (s t : ITy), beqTy s t = true → s = t
  | .var a, .var b, h => by simp [beqTy] at h; rw [h]
  | .con h as, .con g bs, hh => by
    simp only [beqTy, Bool.and_eq_true, beq_iff_eq] at hh
    rw [hh.1, beqTys_eq as bs hh.2]
  | .var _, .con _ _, h => by simp [beqTy] at h
  | .con _ _, .var _, h => by simp [beqTy] at h
theorem beqTys_eq : ∀ (s t : List ITy), beqTys s t = true → s = t
  | [], [], _ => rfl
  | a :: as, b :: bs, h => by
    simp only [beqTys, Bool.and_eq_true] at h
    rw [beqTy_eq a b h.1, beqTys_eq as bs h.2]
  | [], _ :: _, h => by simp [beqTys] at h
  | _ :: _, [], h => by simp [beqTys] at h
end

/-! substituting `[a := t]` first changes nothing for a θ that already sends `a` to `t` -/
mutual
theorem subst_sub1 (θ : Subst) (a : String) (t : ITy) (h : θ a = t.subst θ) :
    ∀ (ty : ITy), (ty.subst (sub1 a t)).subst θ = ty.subst θ
  | .var b => by
    by_cases hb : b = a
    · subst hb; simp [ITy.subst, sub1, h]
    · simp [ITy.subst, sub1, hb]
  | .con g as => by simp only [ITy.subst, substList_sub1 θ a t h as]
theorem substList_sub1 (θ : Subst) (a : String) (t : ITy) (h : θ a = t.subst θ) :
    ∀ (tys : List ITy), substList θ (substList (sub1 a t) tys) = substList θ tys
  | [] => rfl
  | ty :: tys => by simp only [substList, subst_sub1 θ a t h ty, substList_sub1 θ a t h tys]
end

theorem unifies_substEqs (θ : Subst) (a : String) (t : ITy) (h : θ a = t.subst θ) (eqs : List Eqn)
    (hu : Unifies θ eqs) : Unifies θ (substEqs a t eqs) := by
  intro e he
  simp only [substEqs, List.mem_map] at he
  obtain ⟨e0, he0, rfl⟩ := he
  simp only [subst_sub1 θ a t h]
  exact hu e0 he0

theorem substList_zip (θ : Subst) : ∀ (as bs : List ITy), substList θ as = substList θ bs →
    ∀ e ∈ as.zip bs, e.1.subst θ = e.2.subst θ
  | [], _, _, e, he => by simp at he
  | _ :: _, [], _, e, he => by simp at he
  | a :: as, b :: bs, h, e, he => by
    simp only [substList, List.cons.injEq] at h
    simp only [List.zip_cons_cons, List.mem_cons] at he
    rcases he with rfl | he
    · exact h.1
    · exact substList_zip θ as bs h.2 e he

/-- the invariant of the work list: every solution of the remaining equations that agrees with the
bindings made so far agrees with the bindings at the end -/
theorem unify_general : ∀ (f : Nat) (eqs : List Eqn) (acc acc' : Bindings), unify f eqs acc = .ok acc' →
    ∀ θ : Subst, Unifies θ eqs → Respects θ acc → Respects θ acc'
  | 0, _, _, _, h => by simp [unify] at h
  | _ + 1, [], acc, acc', h => by
    simp only [unify, Res.ok.injEq] at h
    subst h
    intro θ _ hr; exact hr
  | f + 1, (.var a, .var b) :: rest, acc, acc', h => by
    intro θ hu hr
    have h0 : θ a = θ b := by simpa [ITy.subst] using hu _ (List.mem_cons_self ..)
    have hrest : Unifies θ rest := fun e he => hu e (List.mem_cons_of_mem _ he)
    simp only [unify] at h
    by_cases hab : a = b
    · rw [if_pos hab] at h
      exact unify_general f rest acc acc' h θ hrest hr
    · rw [if_neg hab] at h
      refine unify_general f _ _ acc' h θ (unifies_substEqs θ a (.var b) (by simpa [ITy.subst] using h0) rest hrest) ?_
      intro x hx
      rcases List.mem_cons.mp hx with rfl | hx
      · simpa [ITy.subst] using h0
      · exact hr x hx
  | f + 1, (.var a, .con g bs) :: rest, acc, acc', h => by
    intro θ hu hr
    have h0 : θ a = (ITy.con g bs).subst θ := by simpa [ITy.subst] using hu _ (List.mem_cons_self ..)
    have hrest : Unifies θ rest := fun e he => hu e (List.mem_cons_of_mem _ he)
    simp only [unify] at h
    by_cases ho : occursL a bs = true
    · rw [if_pos ho] at h; cases h
    · rw [if_neg ho] at h
      refine unify_general f _ _ acc' h θ (unifies_substEqs θ a _ h0 rest hrest) ?_
      intro x hx
      rcases List.mem_cons.mp hx with rfl | hx
      · exact h0
      · exact hr x hx
  | f + 1, (.con g as, .var b) :: rest, acc, acc', h => by
    intro θ hu hr
    have h0 : θ b = (ITy.con g as).subst θ := by
      have := hu _ (List.mem_cons_self ..)
      simpa [ITy.subst] using this.symm
    have hrest : Unifies θ rest := fun e he => hu e (List.mem_cons_of_mem _ he)
    simp only [unify] at h
    by_cases ho : occursL b as = true
    · rw [if_pos ho] at h; cases h
    · rw [if_neg ho] at h
      refine unify_general f _ _ acc' h θ (unifies_substEqs θ b _ h0 rest hrest) ?_
      intro x hx
      rcases List.mem_cons.mp hx with rfl | hx
      · exact h0
      · exact hr x hx
  | f + 1, (.con g as, .con g' bs) :: rest, acc, acc', h => by
    intro θ hu hr
    have h0 : (ITy.con g as).subst θ = (ITy.con g' bs).subst θ := hu _ (List.mem_cons_self ..)
    have hrest : Unifies θ rest := fun e he => hu e (List.mem_cons_of_mem _ he)
    simp only [unify] at h
    by_cases hc : g = g' ∧ as.length = bs.length
    · rw [if_pos hc] at h
      refine unify_general f _ acc acc' h θ ?_ hr
      intro e he
      rcases List.mem_append.mp he with he | he
      · simp only [ITy.subst, ITy.con.injEq] at h0
        exact substList_zip θ as bs h0.2 e he
      · exact hrest e he
    · rw [if_neg hc] at h; cases h

theorem apply_respects (θ : Subst) : ∀ (acc : Bindings), Respects θ acc → ∀ ty, (apply acc ty).subst θ = ty.subst θ
  | [], _, _ => rfl
  | b :: acc, hr, ty => by
    have ih := apply_respects θ acc (fun x hx => hr x (List.mem_cons_of_mem _ hx)) ty
    have hb := hr b (List.mem_cons_self ..)
    show ((apply acc ty).subst (sub1 b.1 b.2)).subst θ = ty.subst θ
    rw [subst_sub1 θ b.1 b.2 hb, ih]

/-- the computed unifier is MOST GENERAL: every solution θ of the equations factors through it -/
theorem unify_most_general (f : Nat) (eqs : List Eqn) (acc : Bindings) (h : unify f eqs [] = .ok acc)
    (θ : Subst) (hu : Unifies θ eqs) : ∀ ty, (apply acc ty).subst θ = ty.subst θ :=
  apply_respects θ acc (unify_general f eqs [] acc h θ hu (fun _ hb => by cases hb))

theorem unifyC_ok {f : Nat} {eqs : List Eqn} {acc : Bindings} (h : unifyC f eqs = .ok acc) :
    unify f eqs [] = .ok acc ∧ eqs.all (fun e => beqTy (apply acc e.1) (apply acc e.2)) = true := by
  unfold unifyC at h
  cases hu : unify f eqs [] with
  | ok acc0 =>
    rw [hu] at h
    simp only at h
    by_cases hc : eqs.all (fun e => beqTy (apply acc0 e.1) (apply acc0 e.2)) = true
    · rw [if_pos hc] at h
      cases h
      exact ⟨rfl, hc⟩
    · rw [if_neg hc] at h; cases h
  | clash => rw [hu] at h; cases h
  | fuel => rw [hu] at h; cases h

/-- the certified unifier's answer solves every equation … -/
theorem unifyC_sound (f : Nat) (eqs : List Eqn) (acc : Bindings) (h : unifyC f eqs = .ok acc) :
    ∀ e ∈ eqs, apply acc e.1 = apply acc e.2 := by
  intro e he
  have := (unifyC_ok h).2
  rw [List.all_eq_true] at this
  exact beqTy_eq _ _ (this e he)

/-- … and is most general: any typing θ of the variables that solves the equations is an INSTANCE of
it (θ applied after the computed substitution is θ).  For a function whose body yields `eqs`, the
types `apply acc P₀, …` of the parameters and the result are therefore its principal types -/
theorem unifyC_principal (f : Nat) (eqs : List Eqn) (acc : Bindings) (h : unifyC f eqs = .ok acc)
    (θ : Subst) (hu : Unifies θ eqs) : ∀ ty, (apply acc ty).subst θ = ty.subst θ :=
  unify_most_general f eqs acc (unifyC_ok h).1 θ hu

/-- a constructor clash at the head of the work list has no solution (the arity / head test never
rejects a solvable system) -/
theorem clash_head_unsolvable (g g' : String) (as bs : List ITy) (rest : List Eqn)
    (hc : ¬ (g = g' ∧ as.length = bs.length)) : ¬ ∃ θ, Unifies θ ((.con g as, .con g' bs) :: rest) := by
  rintro ⟨θ, hu⟩
  have h0 : (ITy.con g as).subst θ = (ITy.con g' bs).subst θ := hu _ (List.mem_cons_self ..)
  simp only [ITy.subst, ITy.con.injEq] at h0
  apply hc
  refine ⟨h0.1, ?_⟩
  have hl : ∀ (l : List ITy), (substList θ l).length = l.length := by
    intro l; induction l with
    | nil => rfl
    | cons _ _ ih => simp [substList, ih]
  rw [← hl as, ← hl bs, h0.2]

/-! ### completeness: `clash` is only answered for unsolvable systems -/

mutual
def tySize : ITy → Nat
  | .var _ => 1
  | .con _ as => 1 + tysSize as
def tysSize : List ITy → Nat
  | [] => 0
  | t :: ts => tySize t + tysSize ts
end

mutual
theorem occurs_size (θ : Subst) (a : String) : ∀ (t : ITy), occurs a t = true → tySize (θ a) ≤ tySize (t.subst θ)
  | .var b, h => by
    simp only [occurs, beq_iff_eq] at h
    subst h
    exact Nat.le_refl _
  | .con g as, h => by
    simp only [occurs] at h
    have := occursL_size θ a as h
    simp only [ITy.subst, tySize]
    omega
theorem occursL_size (θ : Subst) (a : String) : ∀ (ts : List ITy), occursL a ts = true →
    tySize (θ a) ≤ tysSize (substList θ ts)
  | [], h => by simp [occursL] at h
  | t :: ts, h => by
    simp only [occursL, Bool.or_eq_true] at h
    simp only [substList, tysSize]
    rcases h with h | h
    · have := occurs_size θ a t h; omega
    · have := occursL_size θ a ts h; omega
end

/-- the occurs check never rejects a solvable equation -/
theorem occurs_unsolvable (θ : Subst) (a g : String) (bs : List ITy) (ho : occursL a bs = true) :
    θ a ≠ (ITy.con g bs).subst θ := by
  intro h
  have h1 := occursL_size θ a bs ho
  have h2 : tySize (θ a) = 1 + tysSize (substList θ bs) := by rw [h]; simp [ITy.subst, tySize]
  omega

theorem unify_complete : ∀ (f : Nat) (eqs : List Eqn) (acc : Bindings), unify f eqs acc = .clash →
    ∀ θ : Subst, ¬ Unifies θ eqs
  | 0, _, _, h => by simp [unify] at h
  | _ + 1, [], _, h => by simp [unify] at h
  | f + 1, (.var a, .var b) :: rest, acc, h => by
    intro θ hu
    have h0 : θ a = θ b := by simpa [ITy.subst] using hu _ (List.mem_cons_self ..)
    have hrest : Unifies θ rest := fun e he => hu e (List.mem_cons_of_mem _ he)
    simp only [unify] at h
    by_cases hab : a = b
    · rw [if_pos hab] at h
      exact unify_complete f rest acc h θ hrest
    · rw [if_neg hab] at h
      exact unify_complete f _ _ h θ (unifies_substEqs θ a (.var b) (by simpa [ITy.subst] using h0) rest hrest)
  | f + 1, (.var a, .con g bs) :: rest, acc, h => by
    intro θ hu
    have h0 : θ a = (ITy.con g bs).subst θ := by simpa [ITy.subst] using hu _ (List.mem_cons_self ..)
    have hrest : Unifies θ rest := fun e he => hu e (List.mem_cons_of_mem _ he)
    simp only [unify] at h
    by_cases ho : occursL a bs = true
    · exact occurs_unsolvable θ a g bs ho h0
    · rw [if_neg ho] at h
      exact unify_complete f _ _ h θ (unifies_substEqs θ a _ h0 rest hrest)
  | f + 1, (.con g as, .var b) :: rest, acc, h => by
    intro θ hu
    have h0 : θ b = (ITy.con g as).subst θ := by
      have := hu _ (List.mem_cons_self ..)
      simpa [ITy.subst] using this.symm
    have hrest : Unifies θ rest := fun e he => hu e (List.mem_cons_of_mem _ he)
    simp only [unify] at h
    by_cases ho : occursL b as = true
    · exact occurs_unsolvable θ b g as ho h0
    · rw [if_neg ho] at h
      exact unify_complete f _ _ h θ (unifies_substEqs θ b _ h0 rest hrest)
  | f + 1, (.con g as, .con g' bs) :: rest, acc, h => by
    intro θ hu
    have h0 : (ITy.con g as).subst θ = (ITy.con g' bs).subst θ := hu _ (List.mem_cons_self ..)
    have hrest : Unifies θ rest := fun e he => hu e (List.mem_cons_of_mem _ he)
    simp only [unify] at h
    by_cases hc : g = g' ∧ as.length = bs.length
    · rw [if_pos hc] at h
      refine unify_complete f _ acc h θ ?_
      intro e he
      rcases List.mem_append.mp he with he | he
      · simp only [ITy.subst, ITy.con.injEq] at h0
        exact substList_zip θ as bs h0.2 e he
      · exact hrest e he
    · exact clash_head_unsolvable g g' as bs rest hc ⟨θ, hu⟩

/-- `unifyC` answers `clash` only when the equations have no solution at all -/
theorem unifyC_complete (f : Nat) (eqs : List Eqn) (h : unifyC f eqs = .clash) : ¬ ∃ θ, Unifies θ eqs := by
  rintro ⟨θ, hu⟩
  unfold unifyC at h
  cases hr : unify f eqs [] with
  | ok acc0 =>
    rw [hr] at h
    simp only at h
    by_cases hc : eqs.all (fun e => beqTy (apply acc0 e.1) (apply acc0 e.2)) = true
    · rw [if_pos hc] at h; cases h
    · rw [if_neg hc] at h; cases h
  | clash => exact unify_complete f eqs [] hr θ hu
  | fuel => rw [hr] at h; cases h

/-! ### the numbering of leftover variables is the hoisting rule of the compiler model -/

theorem indexOf_of_getElem? : ∀ (l : List String), l.Nodup → ∀ (k : Nat) (v : String), l[k]? = some v → indexOf l v = k
  | [], _, k, v, h => by simp at h
  | x :: xs, hnd, 0, v, h => by
    simp only [List.getElem?_cons_zero, Option.some.injEq] at h
    simp [indexOf, h]
  | x :: xs, hnd, k + 1, v, h => by
    simp only [List.getElem?_cons_succ] at h
    have hnd' := List.nodup_cons.mp hnd
    have hv : v ∈ xs := List.mem_of_getElem? h
    have hne : x ≠ v := fun e => hnd'.1 (e ▸ hv)
    simp only [indexOf, hne, if_false]
    rw [indexOf_of_getElem? xs hnd'.2 k v h]

/-- the oracle numbers a leftover variable by its position among the first occurrences — exactly the
`T{k}` the hoisting model of the compiler gives it (`hoist_first_occurrence`, Props/C02.lean) -/
theorem principal_numbering_is_hoist (occ : List String) (k : Nat) (v : String)
    (h : (distinct occ)[k]? = some v) :
    indexOf (distinct occ) v = k ∧ (hoistNames occ)[k]? = some (v, "T" ++ toString k) :=
  ⟨indexOf_of_getElem? _ (Folang.Props.C02.distinct_nodup occ) k v h, Folang.Props.C02.hoist_first_occurrence occ k v h⟩


/-! non-vacuity: `[P0] ~ P1`, `(P1, 1) ~ (P2, P3)` -/
def exEqs : List Eqn :=
  [(.con "[]" [.var "P0"], .var "P1"), (.con "*" [.var "P1", .con "int" []], .con "*" [.var "P2", .var "P3"])]

example : (match unifyC 20 exEqs with
    | .ok acc => (principal acc [.var "P0", .var "P1", .var "P2", .var "P3"]).1
    | _ => 99) = 1 := by decide

end Folang.Props.C02Unify
