import Folang.Model.Decl
/-
C03 — declarations and foreign calls follow the documented Go representation.

All theorems are about the structural model of the emitters (Model/Decl.lean), for ALL names, type
parameters, field and payload types and arities.
-/
namespace Folang.Props.C03
open Folang.Decl Folang.TypeExpr

/-- a record is a struct with the same field names and mapped field types, in order -/
theorem record_shape (rd : RecordDef) :
    rdfToGo rd = .struct rd.name rd.tparams (rd.fields.map (fun f => (f.1, toGo f.2))) ∧
    (match rdfToGo rd with | .struct _ _ fs => fs.map (·.1) = rd.fields.map (·.1) | _ => False) := by
  refine ⟨rfl, ?_⟩
  simp [rdfToGo, List.map_map, Function.comp_def]

/-- union U: interface U first -/
theorem union_interface (ud : UnionDef) : (udfToGo ud).head? = some (.iface ud.name ud.tparams (ud.name ++ "_Union")) := rfl

/-- case C of U: struct U_C whose payload is field `Value` (no field without payload) -/
theorem union_case_struct (ud : UnionDef) (c : String × FT) (hc : c ∈ ud.cases) :
    GoDecl.struct (ud.name ++ "_" ++ c.1) ud.tparams (if isUnit c.2 then [] else [("Value", toGo c.2)]) ∈ udfToGo ud := by
  simp only [udfToGo, List.mem_cons, List.mem_flatMap]
  exact .inr ⟨c, hc, by simp [unionCSName]⟩

/-- New_U_C is a function when the case has a payload or U is generic … -/
theorem ctor_is_func (ud : UnionDef) (c : String × FT) (hc : c ∈ ud.cases)
    (h : isUnit c.2 = false ∨ ud.tparams ≠ []) :
    GoDecl.func ("New_" ++ (ud.name ++ "_" ++ c.1)) ud.tparams (if isUnit c.2 then [] else [("v", toGo c.2)])
      (ud.name ++ tparamStr ud.tparams) ∈ udfToGo ud := by
  have hv : csIsVar ud.tparams c.2 = false := by
    rcases h with h | h
    · simp [csIsVar, h]
    · cases ht : ud.tparams with
      | nil => exact absurd ht h
      | cons a b => simp [csIsVar]
  simp only [udfToGo, List.mem_cons, List.mem_flatMap]
  exact .inr ⟨c, hc, by simp [hv, csConstructorName, unionCSName]⟩

/-- … and a package variable of type U otherwise -/
theorem ctor_is_var (ud : UnionDef) (c : String × FT) (hc : c ∈ ud.cases)
    (h1 : isUnit c.2 = true) (h2 : ud.tparams = []) :
    GoDecl.var ("New_" ++ (ud.name ++ "_" ++ c.1)) ud.name ∈ udfToGo ud := by
  have hv : csIsVar ud.tparams c.2 = true := by simp [csIsVar, h1, h2]
  simp only [udfToGo, List.mem_cons, List.mem_flatMap]
  exact .inr ⟨c, hc, by simp [hv, csConstructorName, unionCSName]⟩

/-- what a constructor reference resolves to (csRegisterCtor) agrees with what is declared
(csConstruct): variable ↔ variable, function ↔ function of the same name whose parameter list is the
payload (a unit payload = no Go parameter) -/
theorem ctor_ref_matches_decl (ud : UnionDef) (c : String × FT) (hc : c ∈ ud.cases) :
    match csRegisterCtor ud c with
    | .var n => GoDecl.var n ud.name ∈ udfToGo ud
    | .func n ps => ps = [c.2] ∧
        GoDecl.func n ud.tparams (if isUnit c.2 then [] else [("v", toGo c.2)]) (ud.name ++ tparamStr ud.tparams) ∈ udfToGo ud := by
  unfold csRegisterCtor
  cases hv : csIsVar ud.tparams c.2 with
  | true =>
    simp only [if_true]
    simp only [csIsVar, Bool.and_eq_true, List.isEmpty_iff] at hv
    exact ctor_is_var ud c hc hv.1 hv.2
  | false =>
    simp only [Bool.false_eq_true, if_false, true_and]
    apply ctor_is_func ud c hc
    simp only [csIsVar, Bool.and_eq_false_iff, List.isEmpty_eq_false_iff] at hv
    rcases hv with h | h
    · exact .inl h
    · exact .inr h

/-- a function declared in package_info is called by its declared name, package-qualified unless
the package is `_` -/
theorem qualified_name (pkg name : String) :
    piFullName pkg name = if pkg = "_" then name else pkg ++ "." ++ name := rfl

/-- full application: a direct call with all arguments in source order -/
theorem call_full (fc : FunCall) (h : fc.args.length = fc.paramTypes.length) (hu : fc.unitArgOnly = false) :
    fcToGo fc = some (.call fc.callee fc.args) := by
  simp [fcToGo, h, hu]

/-- the closure inside the emitted expression (a partial application whose given arguments are not all
inert is wrapped in the bindings that evaluate them first) -/
def cloOf : GoExpr → GoExpr
  | .bound _ c => c
  | e => e

theorem paArgs_inert : ∀ (i : Nat) (args : List String) (inert : List Bool), (∀ b ∈ inert, b = true) →
    paArgs i args inert = (args, []) := by
  intro i args
  induction args generalizing i with
  | nil => intro inert _; rfl
  | cons a as ih =>
    intro inert h
    have hh : inert.headD true = true := by
      cases inert with
      | nil => rfl
      | cons b bs => exact h b List.mem_cons_self
    have ht : ∀ b ∈ inert.tail, b = true := fun b hb => h b (List.mem_of_mem_tail hb)
    simp only [paArgs, hh, if_true, ih (i + 1) inert.tail ht]

theorem paArgs_length : ∀ (i : Nat) (args : List String) (inert : List Bool), (paArgs i args inert).1.length = args.length := by
  intro i args
  induction args generalizing i with
  | nil => intro inert; rfl
  | cons a as ih =>
    intro inert
    simp only [paArgs]
    split <;> simp [ih]

/-- under-application with inert given arguments (literals, variables, …): a closure whose parameters
are exactly the missing parameter types, in order, named _r0, _r1, …; its body calls the callee with
the given arguments in source order followed by the closure parameters; the result type is the
declared result (no `return` when it is unit) -/
theorem call_partial (fc : FunCall) (h : fc.args.length < fc.paramTypes.length) (hin : ∀ b ∈ fc.inert, b = true) :
    fcToGo fc = some (.closure
      ((restNames (fc.paramTypes.length - fc.args.length)).zip ((fc.paramTypes.drop fc.args.length).map toGo))
      (toGo fc.result) (!isUnit fc.result) fc.callee
      (fc.args ++ restNames (fc.paramTypes.length - fc.args.length))) := by
  simp [fcToGo, h, Nat.not_lt_of_gt h, List.length_drop, paArgs_inert 0 fc.args fc.inert hin]

/-- under-application in general: the same closure over what `paArgs` leaves for each given argument
(itself, or the name `_p i` it was bound to), wrapped in the bindings — in argument order — when there
are any (the given arguments are evaluated once, where the partial application stands) -/
theorem call_partial_bound (fc : FunCall) (h : fc.args.length < fc.paramTypes.length) :
    ∃ e, fcToGo fc = some e ∧
      cloOf e = .closure
        ((restNames (fc.paramTypes.length - fc.args.length)).zip ((fc.paramTypes.drop fc.args.length).map toGo))
        (toGo fc.result) (!isUnit fc.result) fc.callee
        ((paArgs 0 fc.args fc.inert).1 ++ restNames (fc.paramTypes.length - fc.args.length)) ∧
      (e = cloOf e ∨ e = .bound (paArgs 0 fc.args fc.inert).2 (cloOf e)) := by
  simp only [fcToGo, h, Nat.not_lt_of_gt h, if_true, if_false, List.length_drop]
  cases hemp : (paArgs 0 fc.args fc.inert).2.isEmpty with
  | true => exact ⟨_, rfl, rfl, Or.inl rfl⟩
  | false => exact ⟨_, rfl, rfl, Or.inr rfl⟩

/-- explicit type arguments given at the call site are carried by the emitted callee in every call
form: `f[T1, T2](…)` directly, and inside the closure of an under-application / pipe -/
theorem call_carries_type_args (fc : FunCall) (t : FT) (ts : List FT) (h : fc.targs = t :: ts)
    (hle : fc.args.length ≤ fc.paramTypes.length) :
    ∃ e, fcToGo fc = some e ∧
      (match cloOf e with
       | .call c _ => c | .closure _ _ _ c _ => c | .bound _ _ => "") = fc.name ++ "[" ++ ", ".intercalate ((t :: ts).map toGo) ++ "]" := by
  have hc : fc.callee = fc.name ++ "[" ++ ", ".intercalate ((t :: ts).map toGo) ++ "]" := by
    simp [FunCall.callee, varRefToGo, h]
  by_cases hlt : fc.args.length < fc.paramTypes.length
  · obtain ⟨e, he, hclo, _⟩ := call_partial_bound fc hlt
    exact ⟨e, he, by rw [hclo]; exact hc⟩
  · have heq : fc.args.length = fc.paramTypes.length := by omega
    refine ⟨.call fc.callee (if fc.unitArgOnly then [] else fc.args), ?_, hc⟩
    simp [fcToGo, heq]

/-- without explicit type arguments the callee is the bare (qualified) name -/
theorem call_no_type_args (fc : FunCall) (h : fc.targs = []) : fc.callee = fc.name := by
  simp [FunCall.callee, varRefToGo, h]

theorem restNames_length (n : Nat) : (restNames n).length = n := by simp [restNames]

/-- the closure takes exactly the missing parameters -/
theorem call_partial_arity (fc : FunCall) (h : fc.args.length < fc.paramTypes.length) :
    ∃ e ps r hr c as, fcToGo fc = some e ∧ cloOf e = .closure ps r hr c as ∧
      ps.length = fc.paramTypes.length - fc.args.length ∧ as.length = fc.paramTypes.length := by
  obtain ⟨e, he, hclo, _⟩ := call_partial_bound fc h
  refine ⟨e, _, _, _, _, _, he, hclo, ?_, ?_⟩
  · simp [restNames_length, List.length_drop]
  · simp [restNames_length, paArgs_length]; omega

/-- too many arguments is rejected -/
theorem call_too_many (fc : FunCall) (h : fc.paramTypes.length < fc.args.length) : fcToGo fc = none := by
  simp [fcToGo, h]

/-- a top-level let with parameters is a package func: parameters in order, a unit parameter is no
parameter, a unit result is no result -/
theorem root_func_shape (name : String) (tps : List String) (params : List (String × FT)) (result : FT) :
    rfdSignature name tps params result =
      .func name tps ((params.filter (fun p => !isUnit p.2)).map (fun p => (p.1, toGo p.2))) (toGo result) := rfl

theorem unit_result_is_no_result (name : String) (tps : List String) (params : List (String × FT)) :
    (match rfdSignature name tps params .unit with | .func _ _ _ r => r = "" | _ => False) := by
  simp [rfdSignature, toGo]

/-- non-vacuity: a generic union with a payload-less case gets a FUNCTION constructor for it, a
non-generic one a VARIABLE -/
example : csIsVar ["T"] .unit = false ∧ csIsVar [] .unit = true ∧ csIsVar [] .int = false := by decide

end Folang.Props.C03
