import Folang.Model.Driver
import Folang.Generated.RecipeFacts
/-
C04 — the checked-in generated Go is a fixed point of the self-hosted compiler.

What a theorem can carry here, and what it cannot.  The property is the equality of specific files
with what the real toolchain produces from specific files; the compiler itself is NOT modelled
(that would be the whole language).  The toolchain enters as two uninterpreted deterministic
functions:

  `build : Gen → Compiler`   the Go toolchain applied to fc/gen_*.go + wrapper.go
  `run   : Compiler → Src → Gen`   a compiler applied to a source list (then gofmt)

and the theorems are about the STRUCTURE of the property:

* `fixed_point_all_generations`: if generation 1 reproduces the checked-in files then every later
  generation does (the property's "second-generation compiler … byte-identical again", for every n);
* `other_outputs_stable`: every other output (samples, the tool, README.md) of a generation-n
  compiler equals that of the compiler built from the checked-in files;
* `recipe_writes`: the driver model (C16) applied to a recipe whose arguments are all readable,
  translatable and writable writes exactly one gen file per .fo argument, in order, and none for .foi;
* the inventory facts, regenerated from the tree on every run: the recipe of fc/fc_all.sh names
  every .fo of fc/, and the gen files it writes are exactly the checked-in fc/gen_*.go (no orphan
  generated file, no source that is never regenerated); likewise for samples/filelist.txt and the tool.

The hypothesis `run (build g₀) s = g₀` itself — 34 concrete file equalities — is established by the
check by EXECUTING the real toolchain on the working tree (generation 1 and, redundantly, generation
2): that part is a finite evaluation of the real code, not a theorem.  Determinism of `run` is C05.
-/
namespace Folang.Props.C04
open Folang.Driver Folang.Generated

section Lifting
variable {Gen Src Compiler : Type} (build : Gen → Compiler) (run : Compiler → Src → Gen)

/-- generation n of the generated files: generation 0 is what is checked in -/
def gen (s : Src) (g₀ : Gen) : Nat → Gen
  | 0 => g₀
  | n + 1 => run (build (gen s g₀ n)) s

theorem fixed_point_all_generations (s : Src) (g₀ : Gen) (h : run (build g₀) s = g₀) :
    ∀ n, gen build run s g₀ n = g₀ := by
  intro n
  induction n with
  | zero => rfl
  | succ n ih => simp only [gen, ih, h]

/-- samples, tool and README: any other source gives the same output under every generation -/
theorem other_outputs_stable (s : Src) (g₀ : Gen) (h : run (build g₀) s = g₀) (s' : Src) (n : Nat) :
    run (build (gen build run s g₀ n)) s' = run (build g₀) s' := by
  rw [fixed_point_all_generations build run s g₀ h n]

/-- the converse the check relies on when it reports: a generation that differs from the checked-in
files refutes the generation-1 equality -/
theorem differs_refutes (s : Src) (g₀ : Gen) (n : Nat) (hd : gen build run s g₀ n ≠ g₀) :
    run (build g₀) s ≠ g₀ :=
  fun h => hd (fixed_point_all_generations build run s g₀ h n)
end Lifting

/-! the driver on a recipe; an argument is (base, extension) -/

abbrev Arg := String × String

def isFoArg (a : Arg) : Bool := a.2 == "fo"

def okArg (a : Arg) : FileArg :=
  { name := a.1, isFo := isFoArg a, readable := true, translates := true, writable := true }

theorem transpileFiles_all_ok (args : List FileArg)
    (h : ∀ f ∈ args, f.readable = true ∧ f.translates = true ∧ f.writable = true) :
    transpileFiles args = { exitOk := true, written := (args.filter (·.isFo)).map (·.name), diag := none } := by
  induction args with
  | nil => rfl
  | cons a rest ih =>
    have ha := h a (List.mem_cons_self ..)
    have hr := ih (fun f hf => h f (List.mem_cons_of_mem _ hf))
    cases hi : a.isFo <;>
      simp [transpileFiles, transpileOne, ha.1, ha.2.1, ha.2.2, hi, hr]

/-- a recipe whose arguments can all be read, translated and written: exit 0, exactly one generated
file per `.fo` argument (named by its base), in argument order, none for a `.foi` argument -/
theorem recipe_writes (args : List Arg) :
    transpileFiles (args.map okArg) =
      { exitOk := true, written := (args.filter isFoArg).map (·.1), diag := none } := by
  rw [transpileFiles_all_ok]
  · congr 1
    induction args with
    | nil => rfl
    | cons a rest ih =>
      by_cases h : isFoArg a <;> simp_all [okArg]
  · intro f hf
    obtain ⟨n, _, rfl⟩ := List.mem_map.mp hf
    exact ⟨rfl, rfl, rfl⟩

/-! inventory (regenerated facts): the generated file of `<base>.fo` is `gen_<base>.go`; the facts
list bases -/

def sameSet (a b : List String) : Bool := a.all (b.contains ·) && b.all (a.contains ·)

def written (args : List Arg) : List String := (args.filter isFoArg).map (·.1)

/-- fc/fc_all.sh regenerates exactly the checked-in fc/gen_*.go … -/
theorem fact_fcRecipe_outputs : sameSet (written fcRecipe) fcGenBases = true := by decide

/-- … and names every Folang source of fc/ (no source is left out of the fixed point) -/
theorem fact_fcRecipe_complete : sameSet (written fcRecipe) fcFoBases = true := by decide

/-- the first argument of every recipe is the package-info file, which yields no output; the sample
and tool recipes translate one file per invocation -/
theorem fact_recipes_foi :
    fcRecipe.head? = some ("../pkg/pkg_all", "foi") ∧ sampleRecipe = [("../pkg/pkg_all", "foi"), ("$1", "")] ∧
    toolRecipe = [("../../pkg/pkg_all", "foi"), ("$1", "")] := by decide

/-- every listed sample is a `.fo` file that exists and has its checked-in generated file -/
theorem fact_samples_have_gen :
    sampleList.all isFoArg = true ∧
    (written sampleList).all (sampleGenBases.contains ·) = true ∧
    (written sampleList).all (sampleFoBases.contains ·) = true := by decide

theorem fact_tool :
    toolFoBases = ["build_sample_md"] ∧ toolGenBases = ["build_sample_md"] := by decide

/-- what the driver writes for the compiler's own recipe -/
theorem fcRecipe_written :
    (transpileFiles (fcRecipe.map okArg)).written = written fcRecipe := by
  rw [recipe_writes]; rfl

end Folang.Props.C04
