import Folang.Model.Determinism
import Folang.Props.C09
/-
C05 — transpilation is deterministic.

For each of the seven consumers of a dictionary enumeration in fc the result, as the rest of the
compiler observes it (the dictionary as a finite map; the accept/reject decision; the chosen record),
is proved independent of the enumeration order: `∀ π π'` permutations.  The inventory of enumeration
sites is regenerated from the source on every run (C05Facts.lean); a new site has no lemma here.
Composition (order-independent consumers ⇒ byte-identical files) is argued in DESIGN.md and tied by
running the compiler against a dictionary package that returns adversarial permutations.
-/
set_option linter.unusedSectionVars false
namespace Folang.Props.C05
open Folang.Determinism Folang.Lib Folang.Props.C14

variable {κ ν : Type} [DecidableEq κ]

/-- what a sequence of Add leaves in the dictionary -/
theorem addAll_get (d : GoMap κ ν) (kvs : List (κ × ν)) (k : κ) :
    (addAll d kvs).get? k = ((kvs.reverse.find? (fun e => decide (e.1 = k))).map (·.2)).or (d.get? k) := by
  unfold addAll
  induction kvs generalizing d with
  | nil => simp
  | cons e rest ih =>
    simp only [List.foldl_cons, ih, add_refines, List.reverse_cons, List.find?_append, List.find?_cons, List.find?_nil]
    by_cases he : e.1 = k
    · simp [he]
    · have : ¬ k = e.1 := fun h => he h.symm
      simp [he, this]

/-- adding the same value under a set of keys: only membership matters -/
theorem addAll_const_get (d : GoMap κ ν) (ks : List κ) (c : ν) (k : κ) :
    (addAll d (ks.map (fun x => (x, c)))).get? k = if k ∈ ks then some c else d.get? k := by
  unfold addAll
  induction ks generalizing d with
  | nil => simp
  | cons a rest ih =>
    simp only [List.map_cons, List.foldl_cons, ih, add_refines, List.mem_cons]
    by_cases h1 : k ∈ rest
    · simp [h1]
    · by_cases h2 : k = a <;> simp [h1, h2]

theorem keys_mem_perm (π π' : List (κ × ν) → List (κ × ν)) (hπ : ∀ l, (π l).Perm l) (hπ' : ∀ l, (π' l).Perm l)
    (d : GoMap κ ν) (k : κ) : k ∈ dictKeys π d ↔ k ∈ dictKeys π' d := by
  have p : (dictKeys π d).Perm (dictKeys π' d) := ((hπ d).map _).trans ((hπ' d).map _).symm
  exact p.mem_iff

/-- **eqsUnion** is order independent (as a finite map) -/
theorem eqsUnion_order_indep (π1 π2 π1' π2' : List (κ × Bool) → List (κ × Bool))
    (h1 : ∀ l, (π1 l).Perm l) (h2 : ∀ l, (π2 l).Perm l) (h1' : ∀ l, (π1' l).Perm l) (h2' : ∀ l, (π2' l).Perm l)
    (es1 es2 : GoMap κ Bool) (k : κ) :
    (eqsUnion π1 π2 es1 es2).get? k = (eqsUnion π1' π2' es1 es2).get? k := by
  simp only [eqsUnion, addAll_const_get, keys_mem_perm π1 π1' h1 h1' es1 k, keys_mem_perm π2 π2' h2 h2' es2 k]

/-- **rsRegisterNewEI** is order independent -/
theorem rsRegisterNewEI_order_indep {ι : Type} (π π' : List (κ × Bool) → List (κ × Bool))
    (h : ∀ l, (π l).Perm l) (h' : ∀ l, (π' l).Perm l) (res : GoMap κ ι) (eset : GoMap κ Bool) (ei : ι) (k : κ) :
    (rsRegisterNewEI π res eset ei).get? k = (rsRegisterNewEI π' res eset ei).get? k := by
  simp only [rsRegisterNewEI, addAll_const_get, keys_mem_perm π π' h h' eset k]

/-- lookup in a list without duplicate keys does not depend on the order of the list -/
theorem find_perm_nodup (l l' : List (κ × ν)) (p : l.Perm l') (nd : (l.map (·.1)).Nodup) (k : κ) :
    (l.find? (fun e => decide (e.1 = k))).map (·.2) = (l'.find? (fun e => decide (e.1 = k))).map (·.2) := by
  have nd' : (l'.map (·.1)).Nodup := (p.map _).nodup_iff.mp nd
  have e1 := fun v => get?_eq_some_iff (l : GoMap κ ν) nd k v
  have e2 := fun v => get?_eq_some_iff (l' : GoMap κ ν) nd' k v
  simp only [GoMap.get?] at e1 e2
  cases h : (l.find? (fun e => decide (e.1 = k))).map (·.2) with
  | some v => exact ((e2 v).mpr (p.mem_iff.mp ((e1 v).mp h))).symm
  | none =>
    cases h' : (l'.find? (fun e => decide (e.1 = k))).map (·.2) with
    | none => rfl
    | some v => rw [(e1 v).mpr (p.mem_iff.mpr ((e2 v).mp h'))] at h; cases h

/-- **piRegAll** is order independent when the qualified names are distinct (`full` injective on the
entries of a dictionary, whose keys are distinct) -/
theorem piRegAll_order_indep {ν' : Type} (π π' : List (κ × ν) → List (κ × ν))
    (h : ∀ l, (π l).Perm l) (h' : ∀ l, (π' l).Perm l) (full : κ → κ) (hfull : Function.Injective full)
    (gen : ν → ν') (scope : GoMap κ ν') (info : GoMap κ ν) (wf : info.WF) (k : κ) :
    (piRegAll π full gen scope info).get? k = (piRegAll π' full gen scope info).get? k := by
  simp only [piRegAll, addAll_get]
  congr 1
  have p : ((dictKVs π info).map (fun e => (full e.1, gen e.2))).reverse.Perm
      ((dictKVs π' info).map (fun e => (full e.1, gen e.2))).reverse :=
    (List.reverse_perm _).trans ((((h info).trans (h' info).symm).map _).trans (List.reverse_perm _).symm)
  apply find_perm_nodup _ _ p
  rw [List.map_reverse]
  refine (List.reverse_perm _).nodup_iff.mpr ?_
  rw [List.map_map]
  have : ((dictKVs π info).map ((fun e : κ × ν' => e.1) ∘ fun e => (full e.1, gen e.2))) =
      ((dictKVs π info).map (·.1)).map full := by simp [List.map_map, Function.comp_def]
  rw [this]
  exact List.Pairwise.map full (fun a b hab hfab => hab (hfull hfab)) (((h info).map _).nodup_iff.mpr wf)

/-- **exaustiveCheck**: the accept/reject decision is order independent (the named case need not be) -/
theorem exhaustive_decision_order_indep (π π' : List (String × Bool) → List (String × Bool))
    (h : ∀ l, (π l).Perm l) (h' : ∀ l, (π' l).Perm l) (cases arms : List String) (dflt : Bool) :
    Folang.Exhaust.accepts π cases arms dflt = Folang.Exhaust.accepts π' cases arms dflt := by
  have a := Folang.Props.C09.accept_iff π h cases arms dflt
  have b := Folang.Props.C09.accept_iff π' h' cases arms dflt
  cases h1 : Folang.Exhaust.accepts π cases arms dflt <;> cases h2 : Folang.Exhaust.accepts π' cases arms dflt
  · rfl
  · exact absurd (a.mpr (b.mp h2)) (by rw [h1]; decide)
  · exact absurd (b.mpr (a.mp h1)) (by rw [h2]; decide)
  · rfl

/-- **scLookupRecFacCur** (after fix 5aa1ab1): with a sorter that returns THE ascending arrangement by
name — unique because record names (the dictionary keys) are distinct — the chosen record does not
depend on the enumeration order -/
theorem lookupRecFac_order_indep {ρ : Type} (π π' : List (κ × ρ) → List (κ × ρ))
    (h : ∀ l, (π l).Perm l) (h' : ∀ l, (π' l).Perm l)
    (srt : List ρ → List ρ) (hsrt : ∀ l l' : List ρ, l.Perm l' → srt l = srt l')
    (isMatch : ρ → Bool) (m : GoMap κ ρ) :
    lookupRecFac π srt isMatch m = lookupRecFac π' srt isMatch m := by
  unfold lookupRecFac dictValues
  rw [hsrt _ _ ((((h m).trans (h' m).symm).map _).filter _)]

/-- the hypothesis `hsrt` holds for every sorter that returns a strictly ascending permutation:
two strictly ascending permutations of each other are equal -/
theorem strict_sorted_perm_unique {ρ : Type} (lt : ρ → ρ → Prop) (hasym : ∀ a b, lt a b → lt b a → False)
    (l l' : List ρ) (p : l.Perm l') (s : l.Pairwise lt) (s' : l'.Pairwise lt) : l = l' :=
  List.Perm.eq_of_pairwise (fun a b _ _ hab hba => (hasym a b hab hba).elim) s s' p

/-- witness: before the fix the chosen record depended on the enumeration order
(two records A, B with the same field names; π = identity vs reverse) -/
theorem lookup_unfixed_order_dependent :
    let m : GoMap String String := [("A", "A"), ("B", "B")]
    lookupRecFacUnfixed id (fun _ => true) m = some "A" ∧ lookupRecFacUnfixed List.reverse (fun _ => true) m = some "B" := by
  decide

end Folang.Props.C05
