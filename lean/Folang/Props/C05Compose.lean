/-
C05 — composition.  The per-consumer theorems of Props/C05.lean say that each place where fc looks
at a dictionary enumeration computes the same thing for every enumeration order.  This file is the
step from there to "the whole run does": a run is a sequence of stages over the compiler state;
a stage may consult an enumeration order (its own, at every step a different one); if every stage
is order independent, so is the run — whatever the orders are, also when they differ from stage to
stage and from run to run (Go randomises every `range` over a map separately).

That the real compiler is such a sequence in which ONLY the inventoried sites consult an enumeration
is `fact_enumSites` (regenerated); that each inventoried consumer is order independent are the
theorems of Props/C05.lean, on models.  Output files are a function of the final state.
-/
namespace Folang.Props.C05Compose

/-- a stage: the next state from the current state and the enumeration order(s) it is shown -/
abbrev Stage (σ ω : Type) := σ → ω → σ

def OrderIndep {σ ω : Type} (s : Stage σ ω) : Prop := ∀ st o o', s st o = s st o'

/-- run the stages in sequence; stage number `k` is shown the order `os k` -/
def runFrom {σ ω : Type} : List (Stage σ ω) → Nat → σ → (Nat → ω) → σ
  | [], _, st, _ => st
  | s :: rest, k, st, os => runFrom rest (k + 1) (s st (os k)) os

theorem runFrom_order_indep {σ ω : Type} : ∀ (stages : List (Stage σ ω)), (∀ s ∈ stages, OrderIndep s) →
    ∀ (k : Nat) (st : σ) (os os' : Nat → ω), runFrom stages k st os = runFrom stages k st os'
  | [], _, _, _, _, _ => rfl
  | s :: rest, h, k, st, os, os' => by
    simp only [runFrom]
    rw [h s List.mem_cons_self st (os k) (os' k)]
    exact runFrom_order_indep rest (fun s' hs' => h s' (List.mem_cons_of_mem _ hs')) (k + 1) _ os os'

/-- **two runs of the compiler on the same input produce the same output**, whatever enumeration
orders the runtime picks at each site, provided every stage is order independent -/
theorem run_deterministic {σ ω β : Type} (stages : List (Stage σ ω)) (h : ∀ s ∈ stages, OrderIndep s)
    (output : σ → β) (init : σ) (os os' : Nat → ω) :
    output (runFrom stages 0 init os) = output (runFrom stages 0 init os') := by
  rw [runFrom_order_indep stages h 0 init os os']

/-- conversely one order-dependent stage whose difference reaches the output is enough to break it
(the shape of every seeded change of this property) -/
theorem one_dependent_stage_breaks {σ ω β : Type} (s : Stage σ ω) (output : σ → β) (st : σ) (o o' : ω)
    (hd : output (s st o) ≠ output (s st o')) :
    ∃ os os' : Nat → ω, output (runFrom [s] 0 st os) ≠ output (runFrom [s] 0 st os') :=
  ⟨fun _ => o, fun _ => o', by simpa [runFrom] using hd⟩

/-- a stage that ignores the order is order independent (every stage outside the inventory) -/
theorem orderIndep_of_ignores {σ ω : Type} (f : σ → σ) : OrderIndep (fun st (_ : ω) => f st) :=
  fun _ _ _ => rfl

end Folang.Props.C05Compose
