import Folang.Generated.EnumFacts
/-
Obligation over the regenerated inventory of enumeration / non-determinism sites (C05): exactly the
seven consumers that have an order-independence theorem in Props/C05.lean, the three loops inside
pkg/dict that implement Keys/Values/KVs, and range loops over slices/strings (ordered, harmless).
No goroutine, select, time, rand, os.Environ or %p anywhere in fc, pkg or cmd.
-/
namespace Folang.Props.C05

def expectedSites : List (String × String × String) := [
  ("fc/gen_infer.go", "eqsItems", "dict.Keys"),                     -- consumer: rsRegisterNewEI_order_indep
  ("fc/gen_infer.go", "eqsUnion", "dict.Keys"),                     -- eqsUnion_order_indep
  ("fc/gen_infer.go", "eqsUnion", "dict.Keys"),
  ("fc/gen_parse_state.go", "scLookupRecFacCur", "dict.Values"),    -- lookupRecFac_order_indep
  ("fc/gen_parse_state.go", "piRegAll", "dict.KVs"),                -- piRegAll_order_indep
  ("fc/gen_parse_state.go", "piRegAll", "dict.KVs"),
  ("fc/gen_parser.go", "exaustiveCheck", "dict.KVs"),               -- exhaustive_decision_order_indep
  ("fc/wrapper.go", "isStringAt", "range s"),
  ("pkg/dict/dict.go", "KVs", "range d.Fdict"),
  ("pkg/dict/dict.go", "Keys", "range d.Fdict"),
  ("pkg/dict/dict.go", "Values", "range d.Fdict"),
  ("pkg/dict/dict.go", "ToDict", "range ss"),
  ("pkg/frt/frt.go", "SInterP", "range args"),
  ("pkg/slice/slice.go", "Map", "range s"),
  ("pkg/slice/slice.go", "Mapi", "range s"),
  ("pkg/slice/slice.go", "Iter", "range s"),
  ("pkg/slice/slice.go", "Filter", "range s"),
  ("pkg/slice/slice.go", "Zip", "range s1"),
  ("pkg/slice/slice.go", "Forall", "range s"),
  ("pkg/slice/slice.go", "Forany", "range s"),
  ("pkg/slice/slice.go", "Collect", "range ss"),
  ("pkg/slice/slice.go", "Concat", "range ss"),
  ("pkg/slice/slice.go", "Distinct", "range ss"),
  ("pkg/slice/slice.go", "TryFind", "range ss"),
  ("pkg/slice/slice.go", "Fold", "range ss"),
  ("pkg/strings/strings.go", "Concat", "range strs")]

theorem fact_enumSites : Folang.Generated.enumSites = expectedSites := by decide

/-- one level up: the functions of fc that enumerate a dictionary are used only by the consumers the
order-independence theorems are about (`eqsItems` only by `rsRegisterNewEI`, `eqsUnion` only by
`eiUnion`, …): a new user of an enumerating function — an enumeration handed on through a wrapper —
changes this list -/
theorem fact_enumCallers : Folang.Generated.enumCallers =
    [("fc/gen_infer.go", "eiUnion", "eqsUnion"),
     ("fc/gen_infer.go", "rsRegisterNewEI", "eqsItems"),
     ("fc/gen_parse_state.go", "scLookupRecFac", "scLookupRecFacCur"),
     ("fc/gen_parser.go", "parseURules", "exaustiveCheck"),
     ("fc/gen_parser.go", "parsePackageInfo", "piRegAll")] := by decide

/-- the shape `lookupRecFac` models: Values, Filter, SortBy, IsEmpty, then Head (fix 5aa1ab1) -/
theorem fact_lookupRecFacCalls : Folang.Generated.lookupRecFacCalls =
    ["frt.Pipe", "frt.Pipe", "dict.Values", "slice.Filter", "slice.SortBy", "frt.IfElse", "slice.IsEmpty",
     "frt.NewTuple2", "frt.NewTuple2", "slice.Head"] := by decide

end Folang.Props.C05
