import Folang.Model.Tokenizer
/-
C06 — only relative indentation and line structure matter (offside rule).  (PARTIAL)

Proved (all byte strings, all reachable tokenizer states):
  `col_invariant` — the column the parser sees for the current token is
      current.begin − (end of the last EOL *token* before it, or 0),
  i.e. exactly the physical column whenever no newline hides inside a comment or literal between
  that EOL token and the current token.  The hypothesis is forced: a block comment containing a
  newline, followed by code on the same line, gives a wrong column (known finding D10), and `$"…"`
  tokens begin one byte late (known finding D13; the existing suite forbids the repair).
NOT proved (stated): `C06_full` — the emitted Go is invariant under every re-layout of the layout
grammar.  It is tied by the layout stream (one abstract program under many random layouts through the
real compiler, byte-identical output required) and the dedent test.
-/
namespace Folang.Props.C06
open Folang.Tokenizer

/-- full statement over an abstract renderer: all layouts of one abstract program give the same Go -/
def C06_full {Prog Layout : Type} (render : Layout → Prog → List UInt8) (fc : List UInt8 → Option String) : Prop :=
  ∀ p l l', fc (render l p) = fc (render l' p)

/-- where the line of the NEXT token starts, given where the current line starts: after an EOL token
the next line starts right after it -/
def lineStartAfter (z : Tkz) (ls : Nat) : Nat :=
  if z.cur.kind = "EOL" then z.bpos + z.cur.len else ls

/-- the invariant: col = begin − lineStart (as integers), and the token does not begin before its line -/
def ColInv (z : Tkz) (ls : Nat) : Prop := z.col = (z.bpos : Int) - (ls : Int)

theorem col_invariant_init (buf : List UInt8) (z : Tkz) (h : newTkz buf = some z) : ColInv z 0 := by
  unfold newTkz at h
  split at h
  · cases h
  · cases h; simp [ColInv]

theorem col_invariant_step (z z' : Tkz) (ls : Nat) (inv : ColInv z ls) (h : tkzNext z = some z') :
    ColInv z' (lineStartAfter z ls) := by
  unfold tkzNext at h
  by_cases heof : z.cur.kind = "EOF"
  · simp only [heof, if_true, Option.some.injEq] at h
    subst h
    have : ¬ (z.cur.kind = "EOL") := by rw [heof]; decide
    simpa [lineStartAfter, this] using inv
  · simp only [heof, if_false] at h
    by_cases heol : z.cur.kind = "EOL"
    · -- the next token's column is counted from the byte after the EOL token
      split at h
      · cases h; simp [ColInv, lineStartAfter, heol]
      · split at h
        · cases h
        · cases h; simp [ColInv, lineStartAfter, heol]
    · split at h
      · cases h
        simp only [ColInv, lineStartAfter, heol, if_false] at inv ⊢
        rw [inv]; omega
      · split at h
        · cases h
        · cases h
          simp only [ColInv, lineStartAfter, heol, if_false] at inv ⊢
          rw [inv]; omega

/-- run `tkzNext` n times, threading the ghost line start -/
def iter : Nat → Tkz × Nat → Option (Tkz × Nat)
  | 0, s => some s
  | n + 1, (z, ls) =>
    match tkzNext z with
    | none => none
    | some z' => iter n (z', lineStartAfter z ls)

/-- **col_invariant**: for every buffer and every number of `tkzNext` steps from `newTkz` -/
theorem col_invariant (buf : List UInt8) (z0 : Tkz) (h0 : newTkz buf = some z0) :
    ∀ n z ls, iter n (z0, 0) = some (z, ls) → ColInv z ls := by
  have gen : ∀ n (s : Tkz × Nat), ColInv s.1 s.2 → ∀ z ls, iter n s = some (z, ls) → ColInv z ls := by
    intro n
    induction n with
    | zero => intro s inv z ls h; simp only [iter, Option.some.injEq] at h; subst h; exact inv
    | succ k ih =>
      intro s inv z ls h
      obtain ⟨zz, l0⟩ := s
      simp only [iter] at h
      cases hn : tkzNext zz with
      | none => rw [hn] at h; cases h
      | some z' =>
        rw [hn] at h
        exact ih (z', lineStartAfter zz l0) (col_invariant_step zz z' l0 inv hn) z ls h
  intro n z ls h
  exact gen n (z0, 0) (col_invariant_init buf z0 h0) z ls h

/-- non-vacuity: the buffer "1\n 2\n" tokenises, and after three steps the token `2` has column 1 -/
example : (newTkz [49, 10, 32, 50, 10]).isSome = true := by decide
example : ((newTkz [49, 10, 32, 50, 10]).bind (fun z0 => iter 2 (z0, 0))).map (fun s => (s.1.cur.kind, s.1.col, s.2)) =
    some ("INT_IMM", 1, 2) := by decide

end Folang.Props.C06
