import Folang.Model.Tokenizer
import Folang.Lemmas.TokBlanks
/-
C06 — only relative indentation and line structure matter (offside rule).  (PARTIAL)

Proved (all byte strings, all reachable tokenizer states):
  `col_invariant` — the column the parser sees for the current token is
      current.begin − (end of the last EOL *token* before it, or 0),
  i.e. exactly the physical column whenever no newline hides inside a comment or literal between
  that EOL token and the current token.  The hypothesis is forced: a block comment containing a
  newline, followed by code on the same line, gives a wrong column (known finding D10), and `$"…"`
  tokens begin one byte late (known finding D13; the existing suite forbids the repair).
  `indent_shift` — indenting a line by k more blanks changes NOTHING about its first token except
      its position: after an EOL token, the tokenizer on  pre ++ (k blanks) ++ s  returns the same
      token as on  pre ++ s , with `col` and `begin` larger by exactly k (all byte strings `pre`, `s`,
      all k; comments and tabs in `s` included; an unterminated comment panics in both);
  `scan_blanks`, `nextNonSpace_blanks` (Lemmas/TokBlanks.lean) — blanks in front of any position
      merge into one SPACE token that is exactly k bytes longer, the next token is unchanged.
NOT proved (stated): `C06_full` — the emitted Go is invariant under every re-layout of the layout
grammar.  It is tied by the layout stream (one abstract program under many random layouts through the
real compiler, byte-identical output required) and the dedent test.
-/
namespace Folang.Props.C06
open Folang.Tokenizer

/-- full statement over an abstract renderer: all layouts of one abstract program give the same Go -/
def C06_full {Prog Layout : Type} (render : Layout → Prog → List UInt8) (fc : List UInt8 → Option String) : Prop :=
  ∀ p l l', fc (render l p) = fc (render l' p)

/-- where the line of the NEXT token starts, given where the current line starts: after an EOL token
the next line starts right after it -/
def lineStartAfter (z : Tkz) (ls : Nat) : Nat :=
  if z.cur.kind = "EOL" then z.bpos + z.cur.len else ls

/-- the invariant: col = begin − lineStart (as integers), and the token does not begin before its line -/
def ColInv (z : Tkz) (ls : Nat) : Prop := z.col = (z.bpos : Int) - (ls : Int)

theorem col_invariant_init (buf : List UInt8) (z : Tkz) (h : newTkz buf = some z) : ColInv z 0 := by
  unfold newTkz at h
  split at h
  · cases h
  · cases h; simp [ColInv]

theorem col_invariant_step (z z' : Tkz) (ls : Nat) (inv : ColInv z ls) (h : tkzNext z = some z') :
    ColInv z' (lineStartAfter z ls) := by
  unfold tkzNext at h
  by_cases heof : z.cur.kind = "EOF"
  · simp only [heof, if_true, Option.some.injEq] at h
    subst h
    have : ¬ (z.cur.kind = "EOL") := by rw [heof]; decide
    simpa [lineStartAfter, this] using inv
  · simp only [heof, if_false] at h
    by_cases heol : z.cur.kind = "EOL"
    · -- the next token's column is counted from the byte after the EOL token
      split at h
      · cases h; simp [ColInv, lineStartAfter, heol]
      · split at h
        · cases h
        · cases h; simp [ColInv, lineStartAfter, heol]
    · split at h
      · cases h
        simp only [ColInv, lineStartAfter, heol, if_false] at inv ⊢
        rw [inv]; omega
      · split at h
        · cases h
        · cases h
          simp only [ColInv, lineStartAfter, heol, if_false] at inv ⊢
          rw [inv]; omega

/-- run `tkzNext` n times, threading the ghost line start -/
def iter : Nat → Tkz × Nat → Option (Tkz × Nat)
  | 0, s => some s
  | n + 1, (z, ls) =>
    match tkzNext z with
    | none => none
    | some z' => iter n (z', lineStartAfter z ls)

/-- **col_invariant**: for every buffer and every number of `tkzNext` steps from `newTkz` -/
theorem col_invariant (buf : List UInt8) (z0 : Tkz) (h0 : newTkz buf = some z0) :
    ∀ n z ls, iter n (z0, 0) = some (z, ls) → ColInv z ls := by
  have gen : ∀ n (s : Tkz × Nat), ColInv s.1 s.2 → ∀ z ls, iter n s = some (z, ls) → ColInv z ls := by
    intro n
    induction n with
    | zero => intro s inv z ls h; simp only [iter, Option.some.injEq] at h; subst h; exact inv
    | succ k ih =>
      intro s inv z ls h
      obtain ⟨zz, l0⟩ := s
      simp only [iter] at h
      cases hn : tkzNext zz with
      | none => rw [hn] at h; cases h
      | some z' =>
        rw [hn] at h
        exact ih (z', lineStartAfter zz l0) (col_invariant_step zz z' l0 inv hn) z ls h
  intro n z ls h
  exact gen n (z0, 0) (col_invariant_init buf z0 h0) z ls h

/-- non-vacuity: the buffer "1\n 2\n" tokenises, and after three steps the token `2` has column 1 -/
example : (newTkz [49, 10, 32, 50, 10]).isSome = true := by decide
example : ((newTkz [49, 10, 32, 50, 10]).bind (fun z0 => iter 2 (z0, 0))).map (fun s => (s.1.cur.kind, s.1.col, s.2)) =
    some ("INT_IMM", 1, 2) := by decide

/-! ### indentation only shifts columns -/

open Folang.Literal in
/-- two tokenizer states at the same EOL token, over buffers that differ only by `k` blanks inserted
right after it -/
structure IndentPair (pre s : Bytes) (k : Nat) (z z0 : Tkz) : Prop where
  buf : z.buf = pre ++ (blanks k ++ s)
  buf0 : z0.buf = pre ++ s
  eol : z.cur.kind = "EOL"
  cur : z0.cur = z.cur
  pos : z0.bpos = z.bpos
  ends : z.bpos + z.cur.len = pre.length

open Folang.Literal in
/-- **indent_shift**: the first token of the next line is the same token; its column and its begin
are larger by exactly the number of blanks added in front of the line -/
theorem indent_shift (pre s : Bytes) (k : Nat) (z z0 : Tkz) (h : IndentPair pre s k z z0) :
    (tkzNext z).map (fun z' => (z'.cur, z'.col, z'.bpos)) =
      (tkzNext z0).map (fun z1 => (z1.cur, z1.col + (k : Int), z1.bpos + k)) := by
  obtain ⟨hb, hb0, heol, hcur, hpos, hends⟩ := h
  have hne : z.cur.kind ≠ "EOF" := by rw [heol]; decide
  have hne0 : z0.cur.kind ≠ "EOF" := by rw [hcur]; exact hne
  have heol0 : z0.cur.kind = "EOL" := by rw [hcur]; exact heol
  have hends0 : z0.bpos + z0.cur.len = pre.length := by rw [hcur, hpos]; exact hends
  have hlen : z.buf.length = pre.length + (k + s.length) := by rw [hb]; simp [blanks]
  have hlen0 : z0.buf.length = pre.length + s.length := by rw [hb0]; simp
  have hdrop : z.buf.drop pre.length = blanks k ++ s := by rw [hb]; simp
  have hdrop0 : z0.buf.drop pre.length = s := by rw [hb0]; simp
  unfold tkzNext
  simp only [hne, hne0, if_false, heol, heol0, if_true, hends, hends0]
  by_cases hempty : k + s.length = 0
  · -- nothing follows: EOF in both
    have hk : k = 0 := by omega
    have hs : s.length = 0 := by omega
    simp [hlen, hlen0, hk, hs]
  · have hgt : ¬ z.buf.length ≤ pre.length := by omega
    simp only [hgt, if_false, hdrop]
    have hmain := nextNonSpace_blanks k s pre.length (z.buf.length + 2) (s.length + 2)
      (by rw [hlen]; simp [blanks]) (Nat.le_refl _)
    rw [hmain, nextNonSpace_off]
    by_cases hs0 : s.length = 0
    · -- only blanks follow: EOF at the end of the buffer in both
      have hsnil : s = [] := List.eq_nil_of_length_eq_zero hs0
      subst hsnil
      simp [hlen0, hlen, nextNonSpace, scanTokenAt]
      omega
    · have hgt0 : ¬ z0.buf.length ≤ pre.length := by omega
      simp only [hgt0, if_false, hdrop0]
      rw [nextNonSpace_fuel (z0.buf.length + 2) (s.length + 2) s pre.length (by omega) (Nat.le_refl _)]
      cases nextNonSpace (s.length + 2) pre.length s with
      | none => rfl
      | some r =>
        obtain ⟨b, t⟩ := r
        simp
        omega

/-- non-vacuity: after the EOL of "a\n", the line "b" indented by three blanks vs. not indented -/
def zInd : Tkz := { buf := [97, 10, 32, 32, 32, 98], cur := { kind := "EOL", len := 1 }, bpos := 1, col := 1 }
def zFlat : Tkz := { buf := [97, 10, 98], cur := { kind := "EOL", len := 1 }, bpos := 1, col := 1 }

example : IndentPair [97, 10] [98] 3 zInd zFlat :=
  ⟨by decide, by decide, rfl, rfl, rfl, by decide⟩

example : (tkzNext zInd).map (fun z => (z.col, z.bpos)) = some (3, 5) ∧
    (tkzNext zFlat).map (fun z => (z.col, z.bpos)) = some (0, 2) := by
  constructor <;> decide

end Folang.Props.C06
