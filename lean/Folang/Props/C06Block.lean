import Folang.Lemmas.OffsideLays
import Folang.Generated.OffsideFacts
/-
C06 — the offside scheme reads back every layout of a block structure (model: Model/Offside.lean).

`LBlock c ts toks` says that the token sequence `toks` lays out the block structure `ts` with the
block's statements starting at column `c`: inside it every nested block may sit at ANY column right
of the statement that opens it (a different amount for every block), on the same line as the opener
or after any number of ends of line (blank lines, comment lines — the tokenizer folds them into
end-of-line tokens), with any number (≥ 1) of ends of line after a statement and the tokens of a
statement after its first at any columns (trailing spaces, alignment).
-/
namespace Folang.Props.C06Block
open Folang.Offside

/-- every layout of a block structure is read back as exactly that structure, and the parser stops
exactly at the first token that is left of the block (or the end of input) -/
theorem block_roundtrip (top c : Nat) (ts : List T) (toks rest : List Tok)
    (hl : LBlock c ts toks) (htop : top < c) (he : Ends c rest) :
    ∃ N, ∀ f, N ≤ f → pBlock f top (toks ++ rest) = .ok ts rest := by
  obtain ⟨N, hN⟩ := pList_lays ts c toks rest hl he
  refine ⟨N + 1, fun f hf => ?_⟩
  obtain ⟨f, rfl⟩ : ∃ g, f = g + 1 := ⟨f - 1, by omega⟩
  have hst := (lblock_starts ts hl).append rest
  have hnot : ¬ (top ≥ c) := by omega
  simp only [pBlock, hst.curCol, hnot, if_false, hN f (by omega)]

/-- only relative indentation and line structure matter: two layouts of one block structure — at
different columns, with different indentation of every nested block, different numbers of blank
lines, different spacing inside the lines, under different enclosing blocks and followed by different
text — are read as the same structure -/
theorem layout_invariance (ts : List T) (top₁ c₁ top₂ c₂ : Nat) (toks₁ rest₁ toks₂ rest₂ : List Tok)
    (h₁ : LBlock c₁ ts toks₁) (h₂ : LBlock c₂ ts toks₂) (ht₁ : top₁ < c₁) (ht₂ : top₂ < c₂)
    (he₁ : Ends c₁ rest₁) (he₂ : Ends c₂ rest₂) :
    ∃ N, ∀ f, N ≤ f → pBlock f top₁ (toks₁ ++ rest₁) = .ok ts rest₁ ∧ pBlock f top₂ (toks₂ ++ rest₂) = .ok ts rest₂ := by
  obtain ⟨N₁, hN₁⟩ := block_roundtrip top₁ c₁ ts toks₁ rest₁ h₁ ht₁ he₁
  obtain ⟨N₂, hN₂⟩ := block_roundtrip top₂ c₂ ts toks₂ rest₂ h₂ ht₂ he₂
  exact ⟨N₁ + N₂, fun f hf => ⟨hN₁ f (by omega), hN₂ f (by omega)⟩⟩

/-- "conversely a line indented less than its block ends that block": whatever follows the block,
if its first token is left of the block's column the block is exactly the statements before it and
that line is left for the enclosing block -/
theorem dedent_ends_block (top c : Nat) (ts : List T) (toks : List Tok) (n col : Nat) (r : List Tok)
    (hl : LBlock c ts toks) (htop : top < c) (hcol : col < c) :
    ∃ N, ∀ f, N ≤ f → pBlock f top (toks ++ ⟨.word n, col⟩ :: r) = .ok ts (⟨.word n, col⟩ :: r) :=
  block_roundtrip top c ts toks _ hl htop ⟨_, r, rfl, ⟨fun h => (by cases h), Or.inr hcol⟩⟩

/-- a block must start right of the enclosing block ("Overrun offside rule") -/
theorem overrun_rejected (f top : Nat) (toks : List Tok) (h : curCol toks ≤ top) : pBlock (f + 1) top toks = .reject := by
  cases f with
  | zero => simp [pBlock, h]
  | succ f => simp [pBlock, h]

/-- the result does not depend on the fuel once it suffices -/
theorem block_result_unique (top c : Nat) (ts : List T) (toks rest : List Tok)
    (hl : LBlock c ts toks) (htop : top < c) (he : Ends c rest) :
    ∃ N, ∀ f g, N ≤ f → N ≤ g → pBlock f top (toks ++ rest) = pBlock g top (toks ++ rest) := by
  obtain ⟨N, hN⟩ := block_roundtrip top c ts toks rest hl htop he
  exact ⟨N, fun f g hf hg => by rw [hN f hf, hN g hg]⟩

/-! non-vacuity: one structure, two layouts

    f =            |  f =   a
      a            |
      g =          |        g =
          b        |         b
      c            |        c
-/
def exT : List T := [.opn [1] [.line [10], .opn [2] [.line [11]], .line [12]]]

def w (n c : Nat) : Tok := ⟨.word n, c⟩
def op (c : Nat) : Tok := ⟨.opener, c⟩
def nl : Tok := ⟨.eol, 0⟩

def lay₁ : List Tok :=
  [w 1 0, op 2, nl, w 10 2, nl, w 2 2, op 4, nl, w 11 6, nl, w 12 2, nl]
def lay₂ : List Tok :=
  [w 1 0, op 2, w 10 6, nl, nl, w 2 6, op 8, nl, nl, nl, w 11 7, nl, w 12 6, nl, nl]

theorem lay₁_lays : LBlock 0 exT lay₁ := by
  refine ⟨[w 1 0, op 2], [nl], 2, [w 10 2, nl, w 2 2, op 4, nl, w 11 6, nl, w 12 2, nl], ?_, ?_, by decide, ?_, rfl⟩
  · exact ⟨[w 1 0], 2, ⟨rfl, trivial⟩, rfl, rfl⟩
  · intro t ht; simp at ht; subst ht; rfl
  · refine ⟨[w 10 2, nl], [w 2 2, op 4, nl, w 11 6, nl, w 12 2, nl], ?_, ?_, rfl⟩
    · exact ⟨[w 10 2], [nl], by decide, ⟨rfl, trivial⟩, rfl, by intro t ht; simp at ht; subst ht; rfl, by decide, rfl⟩
    · refine ⟨[w 2 2, op 4, nl, w 11 6, nl], [w 12 2, nl], ?_, ?_, rfl⟩
      · refine ⟨[w 2 2, op 4], [nl], 6, [w 11 6, nl], ⟨[w 2 2], 4, ⟨rfl, trivial⟩, rfl, rfl⟩, ?_, by decide, ?_, rfl⟩
        · intro t ht; simp at ht; subst ht; rfl
        · exact ⟨[w 11 6], [nl], by decide, ⟨rfl, trivial⟩, rfl, by intro t ht; simp at ht; subst ht; rfl, by decide, rfl⟩
      · exact ⟨[w 12 2], [nl], by decide, ⟨rfl, trivial⟩, rfl, by intro t ht; simp at ht; subst ht; rfl, by decide, rfl⟩

theorem lay₂_lays : LBlock 0 exT lay₂ := by
  refine ⟨[w 1 0, op 2], [], 6, [w 10 6, nl, nl, w 2 6, op 8, nl, nl, nl, w 11 7, nl, w 12 6, nl, nl], ?_, ?_, by decide, ?_, rfl⟩
  · exact ⟨[w 1 0], 2, ⟨rfl, trivial⟩, rfl, rfl⟩
  · intro t ht; cases ht
  · refine ⟨[w 10 6, nl, nl], [w 2 6, op 8, nl, nl, nl, w 11 7, nl, w 12 6, nl, nl], ?_, ?_, rfl⟩
    · exact ⟨[w 10 6], [nl, nl], by decide, ⟨rfl, trivial⟩, rfl, by intro t ht; simp at ht; subst ht; rfl, by decide, rfl⟩
    · refine ⟨[w 2 6, op 8, nl, nl, nl, w 11 7, nl], [w 12 6, nl, nl], ?_, ?_, rfl⟩
      · refine ⟨[w 2 6, op 8], [nl, nl, nl], 7, [w 11 7, nl], ⟨[w 2 6], 8, ⟨rfl, trivial⟩, rfl, rfl⟩, ?_, by decide, ?_, rfl⟩
        · intro t ht; simp at ht; subst ht; rfl
        · exact ⟨[w 11 7], [nl], by decide, ⟨rfl, trivial⟩, rfl, by intro t ht; simp at ht; subst ht; rfl, by decide, rfl⟩
      · exact ⟨[w 12 6], [nl, nl], by decide, ⟨rfl, trivial⟩, rfl, by intro t ht; simp at ht; subst ht; rfl, by decide, rfl⟩

/-- both layouts are read as the same structure by the executable parser (top-level blocks start at
column 0; the initial offside stack of the real parser is [0], the model's root is one level up) -/
example : pList 20 0 (lay₁ ++ [⟨.eof, 0⟩]) = .ok exT [⟨.eof, 0⟩] := by rfl
example : pList 20 0 (lay₂ ++ [⟨.eof, 0⟩]) = .ok exT [⟨.eof, 0⟩] := by rfl

/-! ### what the real parser looks at (regenerated from fc/*.go on every run)

The column the tokenizer computes (`Tokenizer.col`, written by `newTkz` / `tkzNext`) is read only by
`psCurCol`; `psCurCol` and the top of the offside stack only by `psPushOffside` (compare, push),
`insideOffside` (≥) and `isEndOfBlock` (<); the stack is pushed and popped only around the statement
list of a block (`parseBlockAfterPushScope`) and the declarations of a `package_info`; `isEndOfBlock`
is consulted only by `parseStmtList` (and `parseExtDefs`), `insideOffside` only by the match rule
lists.  These are the three comparisons the model has; a new reader of a column changes this list and
the theorem stops checking. -/
theorem fact_columnUses : Folang.Generated.columnUses =
    ["insideOffside:psCurCol", "insideOffside:psCurOffside", "isEndOfBlock:psCurCol", "isEndOfBlock:psCurOffside",
     "newParse:offsideCol=", "newTkz:col=", "parseBlockAfterPushScope:psPopOffside",
     "parseBlockAfterPushScope:psPushOffside", "parseExtDefs:isEndOfBlock", "parsePackageInfo:psPopOffside",
     "parsePackageInfo:psPushOffside", "parseSRules:insideOffside", "parseStmtList:isEndOfBlock",
     "parseURules:insideOffside", "parseUnionMatchRules:insideOffside", "psCurCol:.col",
     "psCurOffside:.offsideCol", "psPopOffside:.offsideCol", "psPushOffside:.offsideCol",
     "psPushOffside:psCurCol", "psPushOffside:psCurOffside", "psWithScope:.offsideCol",
     "psWithTDCtx:.offsideCol", "psWithTVCtx:.offsideCol", "psWithTkz:.offsideCol", "tkzNext:.col",
     "tkzNext:col="] := by decide

end Folang.Props.C06Block
