/-
C06, known finding D21 (dangling else) as a theorem about a refinement of the offside model that
treats `else` the way fc's `parseIfAfterIfExpr` does: after the block of a `then`, skip the ends of
line and, if the next token is `else`, take it — WITHOUT looking at its column.

The witnesses are the token sequences of

      if A then            |        if A then
        if B then          |          if B then
          x                |            x
      else                 |        else
        y                  |              y

(left: corpus/C06/d21_dangling_else.fo; the `else` stands at the column of the OUTER if, left of the
block that contains the inner one).  Left: the inner `if` takes the `else`, its block `y` would have to
start right of the enclosing block: rejected ("Overrun offside rule").  Right: the else body is
indented deeper and the program is silently read as `if A then (if B then x else y)`.
-/
namespace Folang.Props.C06Else

inductive K
  | word (n : Nat)
  | opener
  | els
  | eol
  | eof
deriving DecidableEq, Repr

structure Tok where
  k : K
  col : Nat
deriving DecidableEq, Repr

inductive T
  | line (ws : List Nat)
  | opn (ws : List Nat) (body : List T)
  | ite (ws : List Nat) (tbody ebody : List T)
deriving Repr

inductive R (α : Type) where
  | ok (a : α) (rest : List Tok)
  | reject
  | fuel
deriving Repr

def skipEOL : List Tok → List Tok
  | ⟨.eol, _⟩ :: r => skipEOL r
  | ts => ts

def takeWords : List Tok → List Nat × List Tok
  | ⟨.word n, _⟩ :: r => ((takeWords r).1.cons n, (takeWords r).2)
  | ts => ([], ts)

def curCol : List Tok → Nat
  | [] => 0
  | t :: _ => t.col

def isEOF : List Tok → Bool
  | [] => true
  | ⟨.eof, _⟩ :: _ => true
  | _ => false

def isEndOfBlock (top : Nat) (ts : List Tok) : Bool := curCol ts < top || isEOF ts

mutual
def pStmt : Nat → Nat → List Tok → R T
  | 0, _, _ => .fuel
  | f + 1, top, ts =>
    match (takeWords ts).2 with
    | ⟨.opener, _⟩ :: r' =>
      match pBlock f top (skipEOL r') with
      | .ok body r'' =>
        -- parseIfAfterIfExpr: `let ps4 = psSkipEOL ps3; if psCurIs ELSE ps4 then …` — no column test
        match skipEOL r'' with
        | ⟨.els, _⟩ :: r3 =>
          match pBlock f top (skipEOL r3) with
          | .ok ebody r4 => .ok (.ite (takeWords ts).1 body ebody) r4
          | .reject => .reject
          | .fuel => .fuel
        | _ => .ok (.opn (takeWords ts).1 body) r''
      | .reject => .reject
      | .fuel => .fuel
    | r => if (takeWords ts).1.isEmpty then .reject else .ok (.line (takeWords ts).1) r
def pBlock : Nat → Nat → List Tok → R (List T)
  | 0, _, _ => .fuel
  | f + 1, top, ts =>
    if top ≥ curCol ts then .reject
    else pList f (curCol ts) ts
def pList : Nat → Nat → List Tok → R (List T)
  | 0, _, _ => .fuel
  | f + 1, top, ts =>
    match pStmt f top ts with
    | .reject => .reject
    | .fuel => .fuel
    | .ok s r =>
      if isEndOfBlock top (skipEOL r) then .ok [s] (skipEOL r)
      else match pList f top (skipEOL r) with
        | .ok ss r'' => .ok (s :: ss) r''
        | .reject => .reject
        | .fuel => .fuel
end

def w (n c : Nat) : Tok := ⟨.word n, c⟩
def op (c : Nat) : Tok := ⟨.opener, c⟩
def el (c : Nat) : Tok := ⟨.els, c⟩
def nl : Tok := ⟨.eol, 0⟩

/-- `if A then / if B then / x / else / y` with the else at the outer if's column (2) and its body
at column 4 -/
def d21 : List Tok :=
  [w 1 2, op 7, nl, w 2 4, op 9, nl, w 10 6, nl, el 2, nl, w 11 4, nl, ⟨.eof, 0⟩]

/-- the same with the else body indented deeper than the inner if -/
def d21deep : List Tok :=
  [w 1 2, op 7, nl, w 2 4, op 9, nl, w 10 6, nl, el 2, nl, w 11 8, nl, ⟨.eof, 0⟩]

def isReject {α : Type} : R α → Bool
  | .reject => true
  | _ => false

/-- the inner `if` takes the `else`; its body is not right of the enclosing block: rejected -/
theorem d21_rejected : isReject (pBlock 30 0 d21) = true := by decide

def shape : R (List T) → Option (List T)
  | .ok ts _ => some ts
  | _ => none

/-- indented deeper, the else is SILENTLY attached to the inner `if` -/
theorem d21_misread :
    (match pBlock 30 0 d21deep with
     | .ok [.opn [1] [.ite [2] [.line [10]] [.line [11]]]] _ => true
     | _ => false) = true := by decide

/-- with the else and its body where the layout grammar puts them for the INNER if, the same parser
gives the same tree: the two layouts of `d21deep` and this one are indistinguishable although they mean
different programs to the reader -/
def innerElse : List Tok :=
  [w 1 2, op 7, nl, w 2 4, op 9, nl, w 10 6, nl, el 4, nl, w 11 6, nl, ⟨.eof, 0⟩]

theorem inner_else_same_tree :
    (match pBlock 30 0 innerElse with
     | .ok [.opn [1] [.ite [2] [.line [10]] [.line [11]]]] _ => true
     | _ => false) = true := by decide

end Folang.Props.C06Else
