import Folang.Props.C05
import Folang.Generated.GlobalFacts
/-
C07 — a definition's translation depends only on itself and what it references.  (PARTIAL)

The long-lived state a definition can read is (regenerated fact `fact_fcGlobals`) the scope
dictionaries of the single ParseState and the two process-global type-info dictionaries keyed by
`encodedKey`.  Modelled as finite maps (dict model of C14); proved for all states and definitions:
  `lookup_frame`        registering an unrelated name does not change what any other name resolves to
  `register_swap/perm`  registering definitions with distinct names in any order gives the same scope
  `split_files`         folding the registrations file by file = folding them over the whole sequence
  `typeinfo_frame`      the same for the global type-info dictionaries (after fix c59ed89 of D14:
                        `encodedKey_inj`; `unfixed_key_collision` is the witness for the old key,
                        under which A<B_C> and A_B<C> shared "A_B_C")
NOT modelled: the per-definition translation itself (that it reads the state only through these
lookups is tied by metamorphic runs of the real compiler: permute, drop, insert, split into files).
-/
set_option linter.unusedSectionVars false
namespace Folang.Props.C07
open Folang.Lib Folang.Determinism Folang.Props.C14 Folang.Props.C05

variable {κ ν : Type} [DecidableEq κ]

/-- registering `k'` leaves every other name's binding alone -/
theorem lookup_frame (m : GoMap κ ν) (k k' : κ) (v : ν) (h : k ≠ k') : (dictAdd m k' v).get? k = m.get? k := by
  rw [add_refines]; simp [h]

/-- two registrations under distinct names commute -/
theorem register_swap (m : GoMap κ ν) (k1 k2 : κ) (v1 v2 : ν) (h : k1 ≠ k2) (k : κ) :
    (dictAdd (dictAdd m k1 v1) k2 v2).get? k = (dictAdd (dictAdd m k2 v2) k1 v1).get? k := by
  simp only [add_refines]
  by_cases h1 : k = k1 <;> by_cases h2 : k = k2 <;> simp_all

/-- any reordering of definitions with distinct names yields the same scope -/
theorem register_perm (m : GoMap κ ν) (defs defs' : List (κ × ν)) (p : defs.Perm defs')
    (nd : (defs.map (·.1)).Nodup) (k : κ) : (addAll m defs).get? k = (addAll m defs').get? k := by
  simp only [addAll_get]
  congr 1
  apply find_perm_nodup _ _ ((List.reverse_perm _).trans (p.trans (List.reverse_perm _).symm))
  rw [List.map_reverse]
  exact (List.reverse_perm _).nodup_iff.mpr nd

/-- dropping definitions nobody looks up does not change any other lookup -/
theorem drop_unreferenced (m : GoMap κ ν) (defs : List (κ × ν)) (k : κ) (h : ∀ e ∈ defs, e.1 ≠ k) :
    (addAll m defs).get? k = m.get? k := by
  induction defs generalizing m with
  | nil => rfl
  | cons e rest ih =>
    simp only [addAll, List.foldl_cons] at ih ⊢
    rw [ih _ (fun x hx => h x (List.mem_cons_of_mem _ hx)), add_refines]
    have : ¬ k = e.1 := fun hk => h e List.mem_cons_self hk.symm
    simp [this]

/-- one ParseState folded over the files = over the concatenated sequence of definitions -/
theorem split_files (m : GoMap κ ν) (files : List (List (κ × ν))) :
    files.foldl (fun st f => addAll st f) m = addAll m files.flatten := by
  induction files generalizing m with
  | nil => rfl
  | cons f rest ih => simp only [List.foldl_cons, List.flatten_cons, ih]; simp [addAll, List.foldl_append]

/-! ### the process-global type-info dictionaries

Keys are texts; they are modelled as lists of characters.  Before fix c59ed89 the key was
`name ++ "_" ++ join "_" args` (not injective: `unfixed_key_collision`, defect D14); now it is
`name ++ "<" ++ join "," args ++ ">"`. -/

abbrev Txt := List Char

def joinWith (sep : Char) : List Txt → Txt
  | [] => []
  | [s] => s
  | s :: t :: rest => s ++ sep :: joinWith sep (t :: rest)

/-- the key before the fix -/
def encodedKeyOld (name : Txt) (targs : List Txt) : Txt := name ++ '_' :: joinWith '_' targs

/-- `encodedKey name targs = $"{name}<{join "," (map FTypeToGo targs)}>"` -/
def encodedKey (name : Txt) (targs : List Txt) : Txt := name ++ '<' :: (joinWith ',' targs ++ ['>'])

/-- witness (defect D14, repaired): two different generic instances shared one key -/
theorem unfixed_key_collision :
    encodedKeyOld "A".toList ["B_C".toList] = encodedKeyOld "A_B".toList ["C".toList] ∧
    ("A".toList, ["B_C".toList]) ≠ ("A_B".toList, ["C".toList]) := by decide

/-- … and no longer do -/
theorem fixed_no_collision : encodedKey "A".toList ["B_C".toList] ≠ encodedKey "A_B".toList ["C".toList] := by decide

theorem split_unique (c : Char) : ∀ (l1 l2 r1 r2 : Txt), c ∉ l1 → c ∉ l2 → l1 ++ c :: r1 = l2 ++ c :: r2 → l1 = l2 ∧ r1 = r2
  | [], [], _, _, _, _, h => by simpa using h
  | [], y :: l2, _, _, _, h2, h => by
    simp only [List.nil_append, List.cons_append, List.cons.injEq] at h
    exact absurd (h.1 ▸ List.mem_cons_self) h2
  | x :: l1, [], _, _, h1, _, h => by
    simp only [List.nil_append, List.cons_append, List.cons.injEq] at h
    exact absurd (h.1 ▸ List.mem_cons_self) h1
  | x :: l1, y :: l2, r1, r2, h1, h2, h => by
    simp only [List.cons_append, List.cons.injEq] at h
    have := split_unique c l1 l2 r1 r2 (fun hm => h1 (List.mem_cons_of_mem _ hm)) (fun hm => h2 (List.mem_cons_of_mem _ hm)) h.2
    exact ⟨by rw [h.1, this.1], this.2⟩

/-- texts that are not empty and do not contain the separator -/
def Plain (sep : Char) (as : List Txt) : Prop := ∀ a ∈ as, sep ∉ a ∧ a ≠ []

theorem joinWith_cons2 (sep : Char) (s t : Txt) (rest : List Txt) :
    joinWith sep (s :: t :: rest) = s ++ sep :: joinWith sep (t :: rest) := rfl

theorem joinWith_ne_nil (sep : Char) : ∀ (a : Txt) (as : List Txt), a ≠ [] → joinWith sep (a :: as) ≠ []
  | a, [], h => h
  | a, t :: rest, _ => by rw [joinWith_cons2]; simp

theorem joinWith_inj (sep : Char) : ∀ (as bs : List Txt), Plain sep as → Plain sep bs →
    joinWith sep as = joinWith sep bs → as = bs
  | [], [], _, _, _ => rfl
  | [], b :: bs, _, hb, h => absurd h.symm (joinWith_ne_nil sep b bs (hb b List.mem_cons_self).2)
  | a :: as, [], ha, _, h => absurd h (joinWith_ne_nil sep a as (ha a List.mem_cons_self).2)
  | [a], [b], _, _, h => by simpa [joinWith] using h
  | [a], b :: b2 :: rest, ha, _, h => by
    rw [joinWith_cons2] at h
    have : sep ∈ a := by
      have e : a = b ++ sep :: joinWith sep (b2 :: rest) := by simpa [joinWith] using h
      rw [e]; simp
    exact absurd this (ha a List.mem_cons_self).1
  | a :: a2 :: rest, [b], _, hb, h => by
    rw [joinWith_cons2] at h
    have : sep ∈ b := by
      have e : b = a ++ sep :: joinWith sep (a2 :: rest) := by simpa [joinWith] using h.symm
      rw [e]; simp
    exact absurd this (hb b List.mem_cons_self).1
  | a :: a2 :: rest, b :: b2 :: rest', ha, hb, h => by
    rw [joinWith_cons2, joinWith_cons2] at h
    obtain ⟨e1, e2⟩ := split_unique sep a b _ _ (ha a List.mem_cons_self).1 (hb b List.mem_cons_self).1 h
    have := joinWith_inj sep (a2 :: rest) (b2 :: rest') (fun x hx => ha x (List.mem_cons_of_mem _ hx))
      (fun x hx => hb x (List.mem_cons_of_mem _ hx)) e2
    rw [e1, this]

/-- **the key is injective** on instances whose name contains no `<` and whose argument texts are
non-empty and contain no comma (names, basic types, slices, nested generic instances with one
argument; an argument text WITH a comma — `frt.Tuple2[int, string]`, a function type — relies on
balanced brackets, which is not proved) -/
theorem encodedKey_inj (n n' : Txt) (as as' : List Txt) (hn : '<' ∉ n) (hn' : '<' ∉ n')
    (ha : Plain ',' as) (ha' : Plain ',' as') (h : encodedKey n as = encodedKey n' as') : n = n' ∧ as = as' := by
  unfold encodedKey at h
  obtain ⟨e1, e2⟩ := split_unique '<' n n' _ _ hn hn' h
  refine ⟨e1, joinWith_inj ',' as as' ha ha' ?_⟩
  exact List.append_cancel_right e2

/-- updating one instance's info leaves every other instance's info alone (after the fix: no
injectivity hypothesis is left for plain argument texts) -/
theorem typeinfo_frame {ι : Type} (g : GoMap Txt ι) (n n' : Txt) (as as' : List Txt) (info : ι)
    (hn : '<' ∉ n) (hn' : '<' ∉ n') (ha : Plain ',' as) (ha' : Plain ',' as') (h : (n, as) ≠ (n', as')) :
    (dictAdd g (encodedKey n' as') info).get? (encodedKey n as) = g.get? (encodedKey n as) := by
  apply lookup_frame
  intro heq
  obtain ⟨e1, e2⟩ := encodedKey_inj n n' as as' hn hn' ha ha' heq
  exact h (by rw [e1, e2])

/-- the general form, under injectivity on the instances in use (kept for argument texts with commas) -/
theorem typeinfo_frame_partial {ι : Type} (g : GoMap Txt ι) (inst inst' : Txt × List Txt) (info : ι)
    (inj : encodedKey inst.1 inst.2 = encodedKey inst'.1 inst'.2 → inst = inst') (h : inst ≠ inst') :
    (dictAdd g (encodedKey inst'.1 inst'.2) info).get? (encodedKey inst.1 inst.2) = g.get? (encodedKey inst.1 inst.2) := by
  apply lookup_frame
  intro heq; exact h (inj heq)

/-- no hidden state: the package-level variables of fc are exactly the known ones -/
theorem fact_fcGlobals : Folang.Generated.fcGlobals =
    ["gen_ftype.go:g_recInfoDic", "gen_ftype.go:g_uniInfoDic", "wrapper.go:uniqueId", "wrapper.go:keywordMap",
     "wrapper.go:binOpMap", "wrapper.go:binOpMapWrapper", "wrapper.go:lastTkz"] := by decide

end Folang.Props.C07
