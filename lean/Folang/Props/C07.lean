import Folang.Props.C05
import Folang.Generated.GlobalFacts
/-
C07 — a definition's translation depends only on itself and what it references.  (PARTIAL)

The long-lived state a definition can read is (regenerated fact `fact_fcGlobals`) the scope
dictionaries of the single ParseState and the two process-global type-info dictionaries keyed by
`encodedKey`.  Modelled as finite maps (dict model of C14); proved for all states and definitions:
  `lookup_frame`        registering an unrelated name does not change what any other name resolves to
  `register_swap/perm`  registering definitions with distinct names in any order gives the same scope
  `split_files`         folding the registrations file by file = folding them over the whole sequence
  `typeinfo_frame_partial` the same for the global type-info dictionaries UNDER injectivity of
                        encodedKey on the type instances in use — the hypothesis is forced:
  `encodedKey_collision` A<B_C> and A_B<C> share the key "A_B_C" (known finding D14).
NOT modelled: the per-definition translation itself (that it reads the state only through these
lookups is tied by metamorphic runs of the real compiler: permute, drop, insert, split into files).
-/
set_option linter.unusedSectionVars false
namespace Folang.Props.C07
open Folang.Lib Folang.Determinism Folang.Props.C14 Folang.Props.C05

variable {κ ν : Type} [DecidableEq κ]

/-- registering `k'` leaves every other name's binding alone -/
theorem lookup_frame (m : GoMap κ ν) (k k' : κ) (v : ν) (h : k ≠ k') : (dictAdd m k' v).get? k = m.get? k := by
  rw [add_refines]; simp [h]

/-- two registrations under distinct names commute -/
theorem register_swap (m : GoMap κ ν) (k1 k2 : κ) (v1 v2 : ν) (h : k1 ≠ k2) (k : κ) :
    (dictAdd (dictAdd m k1 v1) k2 v2).get? k = (dictAdd (dictAdd m k2 v2) k1 v1).get? k := by
  simp only [add_refines]
  by_cases h1 : k = k1 <;> by_cases h2 : k = k2 <;> simp_all

/-- any reordering of definitions with distinct names yields the same scope -/
theorem register_perm (m : GoMap κ ν) (defs defs' : List (κ × ν)) (p : defs.Perm defs')
    (nd : (defs.map (·.1)).Nodup) (k : κ) : (addAll m defs).get? k = (addAll m defs').get? k := by
  simp only [addAll_get]
  congr 1
  apply find_perm_nodup _ _ ((List.reverse_perm _).trans (p.trans (List.reverse_perm _).symm))
  rw [List.map_reverse]
  exact (List.reverse_perm _).nodup_iff.mpr nd

/-- dropping definitions nobody looks up does not change any other lookup -/
theorem drop_unreferenced (m : GoMap κ ν) (defs : List (κ × ν)) (k : κ) (h : ∀ e ∈ defs, e.1 ≠ k) :
    (addAll m defs).get? k = m.get? k := by
  induction defs generalizing m with
  | nil => rfl
  | cons e rest ih =>
    simp only [addAll, List.foldl_cons] at ih ⊢
    rw [ih _ (fun x hx => h x (List.mem_cons_of_mem _ hx)), add_refines]
    have : ¬ k = e.1 := fun hk => h e List.mem_cons_self hk.symm
    simp [this]

/-- one ParseState folded over the files = over the concatenated sequence of definitions -/
theorem split_files (m : GoMap κ ν) (files : List (List (κ × ν))) :
    files.foldl (fun st f => addAll st f) m = addAll m files.flatten := by
  induction files generalizing m with
  | nil => rfl
  | cons f rest ih => simp only [List.foldl_cons, List.flatten_cons, ih]; simp [addAll, List.foldl_append]

/-! ### the process-global type-info dictionaries -/

def joinU : List String → String
  | [] => ""
  | [s] => s
  | s :: rest => s ++ "_" ++ joinU rest

/-- `encodedKey name targs = name ++ "_" ++ join "_" (map FTypeToGo targs)` -/
def encodedKey (name : String) (targs : List String) : String := name ++ "_" ++ joinU targs

/-- witness (known finding D14): two different generic instances share one key -/
theorem encodedKey_collision : encodedKey "A" ["B_C"] = encodedKey "A_B" ["C"] ∧ ("A", ["B_C"]) ≠ ("A_B", ["C"]) := by
  decide

/-- under injectivity of the key on the instances in use, updating one instance's info leaves every
other instance's info alone -/
theorem typeinfo_frame_partial {ι : Type} (g : GoMap String ι) (inst inst' : String × List String) (info : ι)
    (inj : encodedKey inst.1 inst.2 = encodedKey inst'.1 inst'.2 → inst = inst') (h : inst ≠ inst') :
    (dictAdd g (encodedKey inst'.1 inst'.2) info).get? (encodedKey inst.1 inst.2) = g.get? (encodedKey inst.1 inst.2) := by
  apply lookup_frame
  intro heq; exact h (inj heq)

/-- no hidden state: the package-level variables of fc are exactly the known ones -/
theorem fact_fcGlobals : Folang.Generated.fcGlobals =
    ["gen_ftype.go:g_recInfoDic", "gen_ftype.go:g_uniInfoDic", "wrapper.go:uniqueId", "wrapper.go:keywordMap",
     "wrapper.go:binOpMap", "wrapper.go:binOpMapWrapper", "wrapper.go:lastTkz"] := by decide

end Folang.Props.C07
