import Folang.Props.C07

/-!
# C07 — the type-info key is injective for argument texts WITH commas

`encodedKey_inj` (Props/C07.lean) needs argument texts without a comma.  The Go texts of tuples
(`frt.Tuple2[int, string]`), function types (`func (int, string) bool`) and generic instances with
several arguments (`Pair[int, string]`) do contain commas — always inside brackets.  This file proves
injectivity for exactly that class: `item 0 a` says that scanning `a` never closes a bracket that is not
open, meets a comma only inside brackets and ends with every bracket closed.  That the real
`FTypeToGo` only produces such texts is checked by the correspondence stream `c07.key`.
-/

namespace Folang.Props.C07
open Folang.Lib Folang.Determinism Folang.Props.C14 Folang.Props.C05

def isOpen (c : Char) : Bool := c == '[' || c == '(' || c == '{'
def isClose (c : Char) : Bool := c == ']' || c == ')' || c == '}'

/-- scanning from bracket depth `d` -/
def item : Nat → Txt → Bool
  | d, [] => d == 0
  | d, c :: cs =>
    if isOpen c then item (d + 1) cs
    else if isClose c then (match d with | 0 => false | d' + 1 => item d' cs)
    else if c == ',' then (d != 0 && item d cs)
    else item d cs

theorem comma_not_bracket : isOpen ',' = false ∧ isClose ',' = false := by decide

theorem item_nil_comma (cs : Txt) : item 0 (',' :: cs) = false := by
  simp [item, comma_not_bracket.1, comma_not_bracket.2]

/-- an item is never a proper prefix-up-to-a-top-level-comma of another item -/
theorem item_split : ∀ (a a' : Txt) (d : Nat) (r r' : Txt), item d a = true → item d a' = true →
    a ++ ',' :: r = a' ++ ',' :: r' → a = a' ∧ r = r'
  | [], [], _, _, _, _, _, h => by simpa using h
  | [], c :: cs, d, _, _, h1, h2, h => by
    simp only [List.nil_append, List.cons_append, List.cons.injEq] at h
    have hd : d = 0 := by simpa [item] using h1
    subst hd
    rw [← h.1, item_nil_comma] at h2
    exact absurd h2 (by simp)
  | c :: cs, [], d, _, _, h1, h2, h => by
    simp only [List.nil_append, List.cons_append, List.cons.injEq] at h
    have hd : d = 0 := by simpa [item] using h2
    subst hd
    rw [h.1, item_nil_comma] at h1
    exact absurd h1 (by simp)
  | c :: cs, c' :: cs', d, r, r', h1, h2, h => by
    simp only [List.cons_append, List.cons.injEq] at h
    obtain ⟨hc, ht⟩ := h
    subst hc
    unfold item at h1 h2
    by_cases ho : isOpen c = true
    · simp only [ho, ↓reduceIte] at h1 h2
      have := item_split cs cs' (d + 1) r r' h1 h2 ht
      exact ⟨by rw [this.1], this.2⟩
    · have ho' : isOpen c = false := by simpa using ho
      simp only [ho', Bool.false_eq_true, ↓reduceIte] at h1 h2
      by_cases hcl : isClose c = true
      · simp only [hcl, ↓reduceIte] at h1 h2
        cases d with
        | zero => exact absurd h1 (by simp)
        | succ d' =>
          have := item_split cs cs' d' r r' h1 h2 ht
          exact ⟨by rw [this.1], this.2⟩
      · have hcl' : isClose c = false := by simpa using hcl
        simp only [hcl', Bool.false_eq_true, ↓reduceIte] at h1 h2
        by_cases hcm : c = ','
        · simp only [hcm, beq_self_eq_true, ↓reduceIte, Bool.and_eq_true] at h1 h2
          have := item_split cs cs' d r r' h1.2 h2.2 ht
          exact ⟨by rw [this.1], this.2⟩
        · have hb : (c == ',') = false := by simpa using hcm
          simp only [hb, Bool.false_eq_true, ↓reduceIte] at h1 h2
          have := item_split cs cs' d r r' h1 h2 ht
          exact ⟨by rw [this.1], this.2⟩

/-- after an item a top-level comma ends it: the longer text is not an item -/
theorem item_append_comma : ∀ (a : Txt) (d : Nat) (r : Txt), item d a = true → item d (a ++ ',' :: r) = false
  | [], d, r, h => by
    have hd : d = 0 := by simpa [item] using h
    subst hd
    exact item_nil_comma r
  | c :: cs, d, r, h => by
    unfold item at h
    rw [List.cons_append]
    unfold item
    by_cases ho : isOpen c = true
    · simp only [ho, ↓reduceIte] at h ⊢
      exact item_append_comma cs (d + 1) r h
    · have ho' : isOpen c = false := by simpa using ho
      simp only [ho', Bool.false_eq_true, ↓reduceIte] at h ⊢
      by_cases hcl : isClose c = true
      · simp only [hcl, ↓reduceIte] at h ⊢
        cases d with
        | zero => rfl
        | succ d' => exact item_append_comma cs d' r h
      · have hcl' : isClose c = false := by simpa using hcl
        simp only [hcl', Bool.false_eq_true, ↓reduceIte] at h ⊢
        by_cases hcm : c = ','
        · simp only [hcm, beq_self_eq_true, ↓reduceIte, Bool.and_eq_true] at h ⊢
          rw [item_append_comma cs d r h.2]; simp
        · have hb : (c == ',') = false := by simpa using hcm
          simp only [hb, Bool.false_eq_true, ↓reduceIte] at h ⊢
          exact item_append_comma cs d r h

def Items (as : List Txt) : Prop := ∀ a ∈ as, item 0 a = true

/-- lists of items of equal length with the same joined text are equal (empty items — the Go text of
`unit` is empty — are allowed: the arity settles how many there are) -/
theorem joinWith_inj_items : ∀ (as bs : List Txt), as.length = bs.length → Items as → Items bs →
    joinWith ',' as = joinWith ',' bs → as = bs
  | [], [], _, _, _, _ => rfl
  | [], _ :: _, hl, _, _, _ => by simp at hl
  | _ :: _, [], hl, _, _, _ => by simp at hl
  | [a], [b], _, _, _, h => by simpa [joinWith] using h
  | [a], b :: b2 :: rest, hl, _, _, _ => by simp at hl
  | a :: a2 :: rest, [b], hl, _, _, _ => by simp at hl
  | a :: a2 :: rest, b :: b2 :: rest', hl, ha, hb, h => by
    rw [joinWith_cons2, joinWith_cons2] at h
    obtain ⟨e1, e2⟩ := item_split a b 0 _ _ (ha a List.mem_cons_self) (hb b List.mem_cons_self) h
    have := joinWith_inj_items (a2 :: rest) (b2 :: rest') (by simpa using hl)
      (fun x hx => ha x (List.mem_cons_of_mem _ hx)) (fun x hx => hb x (List.mem_cons_of_mem _ hx)) e2
    rw [e1, this]

/-- the same without the arity, for non-empty items -/
theorem joinWith_inj_items_nonempty : ∀ (as bs : List Txt), Items as → Items bs →
    (∀ a ∈ as, a ≠ []) → (∀ b ∈ bs, b ≠ []) → joinWith ',' as = joinWith ',' bs → as = bs
  | [], [], _, _, _, _, _ => rfl
  | [], b :: bs, _, _, _, hb, h => absurd h.symm (joinWith_ne_nil ',' b bs (hb b List.mem_cons_self))
  | a :: as, [], _, _, ha, _, h => absurd h (joinWith_ne_nil ',' a as (ha a List.mem_cons_self))
  | [a], [b], _, _, _, _, h => by simpa [joinWith] using h
  | [a], b :: b2 :: rest, ia, ib, _, _, h => by
    rw [joinWith_cons2] at h
    have e : a = b ++ ',' :: joinWith ',' (b2 :: rest) := by simpa [joinWith] using h
    have := item_append_comma b 0 (joinWith ',' (b2 :: rest)) (ib b List.mem_cons_self)
    rw [← e, ia a List.mem_cons_self] at this
    exact absurd this (by simp)
  | a :: a2 :: rest, [b], ia, ib, _, _, h => by
    rw [joinWith_cons2] at h
    have e : b = a ++ ',' :: joinWith ',' (a2 :: rest) := by simpa [joinWith] using h.symm
    have := item_append_comma a 0 (joinWith ',' (a2 :: rest)) (ia a List.mem_cons_self)
    rw [← e, ib b List.mem_cons_self] at this
    exact absurd this (by simp)
  | a :: a2 :: rest, b :: b2 :: rest', ia, ib, na, nb, h => by
    rw [joinWith_cons2, joinWith_cons2] at h
    obtain ⟨e1, e2⟩ := item_split a b 0 _ _ (ia a List.mem_cons_self) (ib b List.mem_cons_self) h
    have := joinWith_inj_items_nonempty (a2 :: rest) (b2 :: rest')
      (fun x hx => ia x (List.mem_cons_of_mem _ hx)) (fun x hx => ib x (List.mem_cons_of_mem _ hx))
      (fun x hx => na x (List.mem_cons_of_mem _ hx)) (fun x hx => nb x (List.mem_cons_of_mem _ hx)) e2
    rw [e1, this]

/-- **the key is injective for every bracket-balanced argument text**: two instances with the same key
have the same name and the same argument texts, given that a type name has ONE arity (the number of
arguments is fixed by its declaration) -/
theorem encodedKey_inj_balanced (n n' : Txt) (as as' : List Txt) (hn : '<' ∉ n) (hn' : '<' ∉ n')
    (harity : n = n' → as.length = as'.length) (ha : Items as) (ha' : Items as')
    (h : encodedKey n as = encodedKey n' as') : n = n' ∧ as = as' := by
  unfold encodedKey at h
  obtain ⟨e1, e2⟩ := split_unique '<' n n' _ _ hn hn' h
  exact ⟨e1, joinWith_inj_items as as' (harity e1) ha ha' (List.append_cancel_right e2)⟩

/-- … and without the arity when no argument text is empty (no `unit` argument) -/
theorem encodedKey_inj_balanced_nonempty (n n' : Txt) (as as' : List Txt) (hn : '<' ∉ n) (hn' : '<' ∉ n')
    (ha : Items as) (ha' : Items as') (na : ∀ a ∈ as, a ≠ []) (na' : ∀ a ∈ as', a ≠ [])
    (h : encodedKey n as = encodedKey n' as') : n = n' ∧ as = as' := by
  unfold encodedKey at h
  obtain ⟨e1, e2⟩ := split_unique '<' n n' _ _ hn hn' h
  exact ⟨e1, joinWith_inj_items_nonempty as as' ha ha' na na' (List.append_cancel_right e2)⟩

/-- updating one instance's info leaves every other instance's info alone — for every balanced
argument text (tuples, function types, generic instances with several arguments included) -/
theorem typeinfo_frame_balanced {ι : Type} (g : GoMap Txt ι) (n n' : Txt) (as as' : List Txt) (info : ι)
    (hn : '<' ∉ n) (hn' : '<' ∉ n') (harity : n = n' → as.length = as'.length)
    (ha : Items as) (ha' : Items as') (h : (n, as) ≠ (n', as')) :
    (dictAdd g (encodedKey n' as') info).get? (encodedKey n as) = g.get? (encodedKey n as) := by
  apply lookup_frame
  intro e
  obtain ⟨e1, e2⟩ := encodedKey_inj_balanced n n' as as' hn hn' harity ha ha' e
  exact h (by rw [e1, e2])

/-! non-vacuity: the texts the brief's examples name are items; an unbalanced or top-level-comma text is not -/
example : item 0 "frt.Tuple2[int, string]".toList = true ∧ item 0 "func (int, string) Pair[int, []string]".toList = true ∧
    item 0 "".toList = true ∧ item 0 "a,b".toList = false ∧ item 0 "a]".toList = false ∧ item 0 "f(".toList = false := by decide

end Folang.Props.C07
