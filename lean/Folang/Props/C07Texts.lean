import Folang.Props.C07Balanced
import Folang.Model.TypeExpr

/-!
# C07 — every Go type text of the `FTypeToGo` model is in the class of `encodedKey_inj_balanced`

`toGo` (Model/TypeExpr.lean, tied to the real `FTypeToGo` by the streams `c15.type` and `c07.key`)
renders a type as Go text.  For every type whose type NAMES contain no bracket and no comma the text is
an `item`: brackets balanced, commas only inside brackets.  So the hypothesis `Items` of
`encodedKey_inj_balanced` is a theorem about the modelled `FTypeToGo`, not an assumption.
-/

namespace Folang.Props.C07
open Folang.TypeExpr

def plainC (c : Char) : Bool := !isOpen c && !isClose c && !(c == ',')

/-- the bracket depth after scanning, `none` when a bracket closes that is not open or a comma stands
outside brackets -/
def scan : Nat → Txt → Option Nat
  | d, [] => some d
  | d, c :: cs =>
    if isOpen c then scan (d + 1) cs
    else if isClose c then (match d with | 0 => none | d' + 1 => scan d' cs)
    else if c == ',' then (if d = 0 then none else scan d cs)
    else scan d cs

theorem scan_cons (d : Nat) (c : Char) (cs : Txt) : scan d (c :: cs) =
    (if isOpen c then scan (d + 1) cs
     else if isClose c then (match d with | 0 => none | d' + 1 => scan d' cs)
     else if c == ',' then (if d = 0 then none else scan d cs)
     else scan d cs) := rfl

theorem item_eq_scan : ∀ (t : Txt) (d : Nat), item d t = (scan d t == some 0)
  | [], d => by cases d <;> simp [item, scan]
  | c :: cs, d => by
    unfold item scan
    by_cases ho : isOpen c = true
    · simp only [ho, ↓reduceIte]; exact item_eq_scan cs (d + 1)
    · have ho' : isOpen c = false := by simpa using ho
      simp only [ho', Bool.false_eq_true, ↓reduceIte]
      by_cases hc : isClose c = true
      · simp only [hc, ↓reduceIte]
        cases d with
        | zero => simp
        | succ d' => exact item_eq_scan cs d'
      · have hc' : isClose c = false := by simpa using hc
        simp only [hc', Bool.false_eq_true, ↓reduceIte]
        by_cases hm : (c == ',') = true
        · simp only [hm, ↓reduceIte]
          cases d with
          | zero => simp
          | succ d' => simp [item_eq_scan cs (d' + 1)]
        · have hm' : (c == ',') = false := by simpa using hm
          simp only [hm', Bool.false_eq_true, ↓reduceIte]
          exact item_eq_scan cs d

theorem scan_append : ∀ (a b : Txt) (d : Nat), scan d (a ++ b) = (scan d a).bind (fun d' => scan d' b)
  | [], b, d => by simp [scan]
  | c :: cs, b, d => by
    rw [List.cons_append, scan_cons d c (cs ++ b), scan_cons d c cs]
    by_cases ho : isOpen c = true
    · simp only [ho, ↓reduceIte]; exact scan_append cs b (d + 1)
    · have ho' : isOpen c = false := by simpa using ho
      simp only [ho', Bool.false_eq_true, ↓reduceIte]
      by_cases hc : isClose c = true
      · simp only [hc, ↓reduceIte]
        cases d with
        | zero => simp
        | succ d' => exact scan_append cs b d'
      · have hc' : isClose c = false := by simpa using hc
        simp only [hc', Bool.false_eq_true, ↓reduceIte]
        by_cases hm : (c == ',') = true
        · simp only [hm, ↓reduceIte]
          cases d with
          | zero => simp
          | succ d' => simp [scan_append cs b (d' + 1)]
        · have hm' : (c == ',') = false := by simpa using hm
          simp only [hm', Bool.false_eq_true, ↓reduceIte]
          exact scan_append cs b d

theorem scan_mono : ∀ (a : Txt) (d d' k : Nat), scan d a = some d' → scan (d + k) a = some (d' + k)
  | [], d, d', k, h => by simp only [scan, Option.some.injEq] at h ⊢; omega
  | c :: cs, d, d', k, h => by
    unfold scan at h ⊢
    by_cases ho : isOpen c = true
    · simp only [ho, ↓reduceIte] at h ⊢
      have := scan_mono cs (d + 1) d' k h
      rw [show d + k + 1 = d + 1 + k by omega]; exact this
    · have ho' : isOpen c = false := by simpa using ho
      simp only [ho', Bool.false_eq_true, ↓reduceIte] at h ⊢
      by_cases hc : isClose c = true
      · simp only [hc, ↓reduceIte] at h ⊢
        cases d with
        | zero => simp at h
        | succ d0 =>
          have := scan_mono cs d0 d' k h
          rw [show d0 + 1 + k = (d0 + k) + 1 by omega]; exact this
      · have hc' : isClose c = false := by simpa using hc
        simp only [hc', Bool.false_eq_true, ↓reduceIte] at h ⊢
        by_cases hm : (c == ',') = true
        · simp only [hm, ↓reduceIte] at h ⊢
          cases d with
          | zero => simp at h
          | succ d0 =>
            simp only [Nat.add_one_ne_zero, ↓reduceIte] at h
            have := scan_mono cs (d0 + 1) d' k h
            have hne : ¬ (d0 + 1 + k = 0) := by omega
            simp only [hne, ↓reduceIte]; exact this
        · have hm' : (c == ',') = false := by simpa using hm
          simp only [hm', Bool.false_eq_true, ↓reduceIte] at h ⊢
          exact scan_mono cs d d' k h

theorem scan_plain : ∀ (a : Txt) (d : Nat), (∀ c ∈ a, plainC c = true) → scan d a = some d
  | [], d, _ => rfl
  | c :: cs, d, h => by
    have hc := h c List.mem_cons_self
    simp only [plainC, Bool.and_eq_true, Bool.not_eq_true'] at hc
    unfold scan
    simp only [hc.1.1, hc.1.2, hc.2, Bool.false_eq_true, ↓reduceIte]
    exact scan_plain cs d (fun x hx => h x (List.mem_cons_of_mem _ hx))

/-- balanced, commas only inside brackets (= `item 0`) -/
def Bal (a : Txt) : Prop := scan 0 a = some 0
/-- balanced when read inside a bracket (commas allowed) -/
def In (a : Txt) : Prop := scan 1 a = some 1

instance (a : Txt) : Decidable (Bal a) := inferInstanceAs (Decidable (scan 0 a = some 0))
instance (a : Txt) : Decidable (In a) := inferInstanceAs (Decidable (scan 1 a = some 1))

theorem Bal.item {a : Txt} (h : Bal a) : item 0 a = true := by rw [item_eq_scan, h]; rfl
theorem Bal.toIn {a : Txt} (h : Bal a) : In a := scan_mono a 0 0 1 h
theorem Bal.append {a b : Txt} (ha : Bal a) (hb : Bal b) : Bal (a ++ b) := by
  unfold Bal; rw [scan_append, ha]; exact hb
theorem In.append {a b : Txt} (ha : In a) (hb : In b) : In (a ++ b) := by
  unfold In; rw [scan_append, ha]; exact hb
theorem Bal.plain {a : Txt} (h : ∀ c ∈ a, plainC c = true) : Bal a := scan_plain a 0 h
theorem In.bracket {a : Txt} (o c : Char) (ho : isOpen o = true) (hc0 : isOpen c = false) (hc : isClose c = true)
    (h : In a) : Bal (o :: a ++ [c]) := by
  unfold Bal
  rw [List.cons_append]
  unfold scan
  simp only [ho, ↓reduceIte]
  rw [scan_append, h]
  simp [scan, hc0, hc]

theorem digit_plain (c : Char) (h : c.isDigit = true) : plainC c = true := by
  simp only [plainC, isOpen, isClose, Bool.and_eq_true, Bool.not_eq_true', Bool.or_eq_false_iff, beq_eq_false_iff_ne]
  refine ⟨⟨⟨⟨?_, ?_⟩, ?_⟩, ⟨⟨?_, ?_⟩, ?_⟩⟩, ?_⟩ <;> (intro e; rw [e] at h; exact absurd h (by decide))

theorem joinWith_In (sep : String) (hsep : In sep.toList) : ∀ (ss : List String),
    (∀ s ∈ ss, Bal s.toList) → In (Folang.TypeExpr.joinWith sep ss).toList
  | [], _ => by simp [Folang.TypeExpr.joinWith, In, scan]
  | [s], h => by simpa [Folang.TypeExpr.joinWith] using (h s List.mem_cons_self).toIn
  | s :: t :: rest, h => by
    have ih := joinWith_In sep hsep (t :: rest) (fun x hx => h x (List.mem_cons_of_mem _ hx))
    have : Folang.TypeExpr.joinWith sep (s :: t :: rest) = s ++ sep ++ Folang.TypeExpr.joinWith sep (t :: rest) := rfl
    rw [this, String.toList_append, String.toList_append]
    exact ((h s List.mem_cons_self).toIn.append hsep).append ih

/-- type names without brackets and commas (identifiers, possibly package-qualified) -/
def plainName (s : String) : Bool := s.toList.all plainC

mutual
def wfFT : FT → Bool
  | .func ts => wfFTs ts
  | .slice e => wfFT e
  | .tuple es => wfFTs es
  | .named _ goName targs => plainName goName && wfFTs targs
  | _ => true
def wfFTs : List FT → Bool
  | [] => true
  | t :: ts => wfFT t && wfFTs ts
end

theorem bal_lit (s : String) (h : s.toList.all plainC = true) : Bal s.toList :=
  Bal.plain (fun c hc => List.all_eq_true.mp h c hc)

theorem bal_bracketed (pre : String) (o c : Char) (body : String) (hpre : pre.toList.all plainC = true)
    (ho : isOpen o = true) (hc0 : isOpen c = false) (hc : isClose c = true) (hb : In body.toList) :
    Bal (pre.toList ++ (o :: body.toList ++ [c])) :=
  (bal_lit pre hpre).append (In.bracket o c ho hc0 hc hb)

theorem funcText_bal (rendered : List String) (u : Bool) (h : ∀ s ∈ rendered, Bal s.toList) :
    Bal (funcText rendered u).toList := by
  unfold funcText
  have hargs : In (Folang.TypeExpr.joinWith "," rendered.dropLast).toList :=
    joinWith_In "," (by decide) _ (fun s hs => h s (List.Sublist.mem hs (List.dropLast_sublist _)))
  have hlast : Bal (rendered.getLastD "").toList := by
    cases hr : rendered.getLast? with
    | none =>
      have : rendered = [] := List.getLast?_eq_none_iff.mp hr
      subst this; exact (by decide : Bal "".toList)
    | some x =>
      have hx : x ∈ rendered := List.mem_of_getLast? hr
      have : rendered.getLastD "" = x := by
        rw [List.getLastD_eq_getLast?, hr]; rfl
      rw [this]; exact h x hx
  have e : ("func (" ++ Folang.TypeExpr.joinWith "," rendered.dropLast ++ ")" ++
      (if u = true then "" else " " ++ rendered.getLastD "")).toList =
      "func ".toList ++ ('(' :: (Folang.TypeExpr.joinWith "," rendered.dropLast).toList ++ [')']) ++
      (if u = true then "" else " " ++ rendered.getLastD "").toList := by
    simp only [String.toList_append]
    have : "func (".toList = "func ".toList ++ ['('] := by decide
    have h2 : ")".toList = [')'] := by decide
    rw [this, h2]; simp
  rw [e]
  refine (bal_bracketed "func " '(' ')' _ (by decide) (by decide) (by decide) (by decide) hargs).append ?_
  cases u with
  | true => simp only [↓reduceIte]; exact (by decide : Bal "".toList)
  | false =>
    simp only [Bool.false_eq_true, ↓reduceIte, String.toList_append]
    exact (bal_lit " " (by decide)).append hlast

theorem namedText_bal (goName : String) (rendered : List String) (hn : plainName goName = true)
    (h : ∀ s ∈ rendered, Bal s.toList) : Bal (namedText goName rendered).toList := by
  unfold namedText
  cases rendered with
  | nil => exact bal_lit goName hn
  | cons r rs =>
    have hj := joinWith_In ", " (by decide) (r :: rs) h
    have e : (goName ++ "[" ++ Folang.TypeExpr.joinWith ", " (r :: rs) ++ "]").toList =
        goName.toList ++ ('[' :: (Folang.TypeExpr.joinWith ", " (r :: rs)).toList ++ [']']) := by
      simp only [String.toList_append]
      have h1 : "[".toList = ['['] := by decide
      have h2 : "]".toList = [']'] := by decide
      rw [h1, h2]; simp
    rw [e]
    exact bal_bracketed goName '[' ']' _ hn (by decide) (by decide) (by decide) hj

mutual
theorem toGo_bal : ∀ (t : FT), wfFT t = true → Bal (toGo t).toList
  | .int, _ => by show Bal "int".toList; decide
  | .bool, _ => by show Bal "bool".toList; decide
  | .float, _ => by show Bal "float64".toList; decide
  | .any, _ => by show Bal "any".toList; decide
  | .string, _ => by show Bal "string".toList; decide
  | .unit, _ => by show Bal "".toList; decide
  | .func ts, h => by
    simp only [wfFT] at h
    simp only [toGo]
    exact funcText_bal _ _ (toGoList_bal ts h)
  | .slice e, h => by
    simp only [wfFT] at h
    simp only [toGo, String.toList_append]
    exact (by decide : Bal "[]".toList).append (toGo_bal e h)
  | .tuple es, h => by
    simp only [wfFT] at h
    have hj := joinWith_In ", " (by decide) (toGoList es) (toGoList_bal es h)
    have hd : ∀ c ∈ (toString es.length).toList, plainC c = true := by
      intro c hc
      have : (toString es.length).toList = Nat.toDigits 10 es.length := by
        show (Nat.repr es.length).toList = _
        simp [Nat.repr, String.toList_ofList]
      rw [this] at hc
      exact digit_plain c (Nat.isDigit_of_mem_toDigits (by decide) (by decide) hc)
    have e : (toGo (.tuple es)).toList = ("frt.Tuple".toList ++ (toString es.length).toList) ++
        ('[' :: (Folang.TypeExpr.joinWith ", " (toGoList es)).toList ++ [']']) := by
      simp only [toGo, String.toList_append]
      have h1 : "[".toList = ['['] := by decide
      have h2 : "]".toList = [']'] := by decide
      rw [h1, h2]; simp
    rw [e]
    exact ((bal_lit "frt.Tuple" (by decide)).append (Bal.plain hd)).append (In.bracket '[' ']' (by decide) (by decide) (by decide) hj)
  | .named _ goName targs, h => by
    simp only [wfFT, Bool.and_eq_true] at h
    simp only [toGo]
    exact namedText_bal goName _ h.1 (toGoList_bal targs h.2)
theorem toGoList_bal : ∀ (ts : List FT), wfFTs ts = true → ∀ s ∈ toGoList ts, Bal s.toList
  | [], _ => by simp [toGoList]
  | t :: ts, h => by
    simp only [wfFTs, Bool.and_eq_true] at h
    intro s hs
    simp only [toGoList, List.mem_cons] at hs
    rcases hs with rfl | hs
    · exact toGo_bal t h.1
    · exact toGoList_bal ts h.2 s hs
end

/-- **the argument texts of every generic instance are in the proved class**: the Go texts the model of
`FTypeToGo` gives to well-named types are `Items` -/
theorem toGo_items (targs : List FT) (h : wfFTs targs = true) :
    Items ((toGoList targs).map String.toList) := by
  intro a ha
  obtain ⟨s, hs, rfl⟩ := List.mem_map.mp ha
  exact (toGoList_bal targs h s hs).item

/-- the key of the modelled types is injective: same key, same name and same argument texts -/
theorem encodedKey_inj_types (n n' : Txt) (as as' : List FT) (hn : '<' ∉ n) (hn' : '<' ∉ n')
    (harity : n = n' → as.length = as'.length) (hw : wfFTs as = true) (hw' : wfFTs as' = true)
    (h : encodedKey n ((toGoList as).map String.toList) = encodedKey n' ((toGoList as').map String.toList)) :
    n = n' ∧ (toGoList as).map String.toList = (toGoList as').map String.toList := by
  have hl : ∀ ts : List FT, (toGoList ts).length = ts.length := by
    intro ts; induction ts with
    | nil => rfl
    | cons t ts ih => simp [toGoList, ih]
  exact encodedKey_inj_balanced n n' _ _ hn hn' (fun e => by simp [hl, harity e]) (toGo_items as hw) (toGo_items as' hw') h

example : wfFT (.named "ext" "dict.Dict" [.tuple [.int, .string], .func [.int, .slice .bool, .unit]]) = true := by decide

end Folang.Props.C07
