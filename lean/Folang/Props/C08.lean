import Folang.Model.Prec
/-
C08 — binary operators group by one table and associate to the left.

`climb_eq_group` : for EVERY chain (any length, any operators, any operands) and every precedence
table, the recursion scheme of `parseBinAfter` (`climb`) consumes the longest prefix whose operators
are not looser than `minPrec` and returns exactly the reference grouping `group` of that prefix.
`group_flatten`, `group_canon` validate the reference: it contains the operands and operators of the
chain in order, and no operator has a strictly looser operator as its left child's root nor a
not-tighter one as its right child's root (= grouping by rank, left-associative).
-/
set_option linter.unusedSectionVars false
namespace Folang.Props.C08
open Folang.Prec
variable {α : Type} (prec : Nat → Nat)

/-- rank of the root operator; operands count as infinitely tight -/
def rootOK (op : Nat) : G α → Prop
  | .atom _ => True
  | .bin op' _ _ => prec op ≤ prec op'

theorem group_append (t : G α) (c1 c2 : List (Nat × α)) :
    group prec t (c1 ++ c2) = group prec (group prec t c1) c2 := by
  simp [group, List.foldl_append]

/-- Lemma 1: operators strictly tighter than the root all go into the right child -/
theorem group_bin_tighter (op : Nat) (l r : G α) (c : List (Nat × α))
    (h : ∀ e ∈ c, prec op < prec e.1) :
    group prec (.bin op l r) c = .bin op l (group prec r c) := by
  induction c generalizing r with
  | nil => rfl
  | cons e rest ih =>
    have he : prec op < prec e.1 := h e List.mem_cons_self
    have := ih (Prec.insert prec r e.1 e.2) (fun x hx => h x (List.mem_cons_of_mem _ hx))
    simp only [group, List.foldl_cons, Prec.insert, he, if_true] at this ⊢
    exact this

/-- what `climb` returns: a split of the chain and the grouping of the consumed part -/
theorem climb_spec : ∀ (fuel m : Nat) (lhs : G α) (rest : List (Nat × α)), rest.length < fuel →
    ∃ pre, rest = pre ++ (climb prec fuel m lhs rest).2 ∧
      (∀ e ∈ pre, m ≤ prec e.1) ∧
      (∀ e, (climb prec fuel m lhs rest).2.head? = some e → prec e.1 < m) ∧
      ((∀ e, pre.head? = some e → rootOK prec e.1 lhs) → (climb prec fuel m lhs rest).1 = group prec lhs pre) := by
  intro fuel
  induction fuel with
  | zero => intro m lhs rest h; omega
  | succ f ih =>
    intro m lhs rest hlen
    cases rest with
    | nil => exact ⟨[], rfl, by simp, by simp [climb], fun _ => rfl⟩
    | cons e rest' =>
      obtain ⟨op, a⟩ := e
      by_cases hlt : prec op < m
      · refine ⟨[], ?_, by simp, ?_, fun _ => ?_⟩
        · simp [climb, hlt]
        · intro e he; simp [climb, hlt] at he; rw [← he]; exact hlt
        · simp [climb, hlt, group]
      · -- the operator is taken; its right operand is parsed with min rank `prec op + 1`
        simp only [List.length_cons] at hlen
        have hunf : climb prec (f + 1) m lhs ((op, a) :: rest') =
            climb prec f m (.bin op lhs (climb prec f (prec op + 1) (.atom a) rest').1)
              (climb prec f (prec op + 1) (.atom a) rest').2 := by
          simp [climb, hlt]
        rw [hunf]
        obtain ⟨pre1, hsplit1, hall1, hstop1, hgrp1⟩ := ih (prec op + 1) (.atom a) rest' (by omega)
        have hR := hgrp1 (fun _ _ => trivial)
        generalize climb prec f (prec op + 1) (.atom a) rest' = c1 at *
        obtain ⟨R, rest1⟩ := c1
        simp only at hsplit1 hstop1 hR ⊢
        subst hsplit1
        subst hR
        have hlen2 : rest1.length < f := by simp at hlen; omega
        obtain ⟨pre2, hsplit2, hall2, hstop2, hgrp2⟩ :=
          ih m (.bin op lhs (group prec (.atom a) pre1)) rest1 hlen2
        generalize climb prec f m (.bin op lhs (group prec (.atom a) pre1)) rest1 = c2 at *
        obtain ⟨T, rest2⟩ := c2
        simp only at hsplit2 hstop2 hgrp2 ⊢
        subst hsplit2
        refine ⟨(op, a) :: pre1 ++ pre2, by simp, ?_, hstop2, ?_⟩
        · intro e he
          simp only [List.cons_append, List.mem_cons, List.mem_append] at he
          rcases he with rfl | he | he
          · simp; omega
          · have := hall1 e he; omega
          · exact hall2 e he
        · intro hroot
          have hop : rootOK prec op lhs := hroot (op, a) (by simp)
          -- the loop-level operator that follows is not tighter than `op`
          have hfirst : ∀ e, pre2.head? = some e → rootOK prec e.1 (.bin op lhs (group prec (.atom a) pre1)) := by
            intro e he
            cases pre2 with
            | nil => simp at he
            | cons e2 r2 =>
              simp at he; subst he
              have := hstop1 e2 (by simp)
              simp only [rootOK]; omega
          rw [hgrp2 hfirst]
          rw [show (op, a) :: pre1 ++ pre2 = [(op, a)] ++ (pre1 ++ pre2) by simp, group_append, group_append]
          congr 1
          -- group lhs [(op,a)] = bin op lhs (atom a), because `op` is not tighter than lhs's root
          have h1 : group prec lhs [(op, a)] = .bin op lhs (.atom a) := by
            cases lhs with
            | atom x => rfl
            | bin op' l r =>
              have : ¬ prec op' < prec op := by simp only [rootOK] at hop; omega
              simp [group, Prec.insert, this]
          rw [h1]
          exact (group_bin_tighter prec op lhs (.atom a) pre1 (fun e he => by have := hall1 e he; omega)).symm

/-- **C08 (chain level).** With `minPrec` below every rank, the whole chain is consumed and the
result is the reference grouping. -/
theorem climb_eq_group (a0 : α) (chain : List (Nat × α)) (m : Nat) (hm : ∀ e ∈ chain, m ≤ prec e.1) :
    climb prec (chain.length + 1) m (.atom a0) chain = (group prec (.atom a0) chain, []) := by
  obtain ⟨pre, hsplit, _, hstop, hgrp⟩ := climb_spec prec (chain.length + 1) m (.atom a0) chain (by omega)
  have hrest : (climb prec (chain.length + 1) m (.atom a0) chain).2 = [] := by
    cases h : (climb prec (chain.length + 1) m (.atom a0) chain).2 with
    | nil => rfl
    | cons e r =>
      exfalso
      have h1 := hstop e (by rw [h]; rfl)
      have h2 := hm e (by rw [hsplit, h]; simp)
      omega
  have hpre : pre = chain := by rw [hsplit, hrest]; simp
  have := hgrp (fun _ _ => trivial)
  rw [hpre] at this
  exact Prod.ext this hrest

/-! ### the reference grouping is what the property text describes -/

/-- in-order operands and operators of a tree -/
def flatten : G α → α × List (Nat × α)
  | .atom a => (a, [])
  | .bin op l r => ((flatten l).1, (flatten l).2 ++ [(op, (flatten r).1)] ++ (flatten r).2)

theorem flatten_insert (t : G α) (op : Nat) (b : α) :
    flatten (Prec.insert prec t op b) = ((flatten t).1, (flatten t).2 ++ [(op, b)]) := by
  induction t with
  | atom a => rfl
  | bin op' l r _ ihr =>
    simp only [Prec.insert]
    split
    · simp [flatten, ihr]
    · simp [flatten]

/-- the grouping keeps every operand and operator, in source order -/
theorem group_flatten (t : G α) (chain : List (Nat × α)) :
    flatten (group prec t chain) = ((flatten t).1, (flatten t).2 ++ chain) := by
  induction chain generalizing t with
  | nil => simp [group]
  | cons e rest ih =>
    simp only [group, List.foldl_cons] at ih ⊢
    rw [ih, flatten_insert]; simp

/-- grouped by rank, left-associative: the root of a left child is not looser than its parent, the
root of a right child is strictly tighter -/
def Canon : G α → Prop
  | .atom _ => True
  | .bin op l r => Canon l ∧ Canon r ∧ rootOK prec op l ∧
      (match r with | .atom _ => True | .bin op' _ _ => prec op < prec op')

theorem insert_canon (t : G α) (op : Nat) (b : α) (h : Canon prec t) : Canon prec (Prec.insert prec t op b) := by
  induction t with
  | atom a => simp [Prec.insert, Canon, rootOK]
  | bin op' l r _ ihr =>
    obtain ⟨hl, hr, hlo, hro⟩ := h
    simp only [Prec.insert]
    split
    · rename_i hlt
      refine ⟨hl, ihr hr, hlo, ?_⟩
      cases r with
      | atom x => simp [Prec.insert]; exact hlt
      | bin op2 l2 r2 =>
        by_cases h2 : prec op2 < prec op
        · simp only [Prec.insert, h2, if_true]; exact hro
        · simp only [Prec.insert, h2, if_false]; exact hlt
    · rename_i hge
      exact ⟨⟨hl, hr, hlo, hro⟩, trivial, by simp only [rootOK]; omega, trivial⟩

theorem group_canon (t : G α) (chain : List (Nat × α)) (h : Canon prec t) : Canon prec (group prec t chain) := by
  induction chain generalizing t with
  | nil => exact h
  | cons e rest ih => exact ih _ (insert_canon prec t e.1 e.2 h)

end Folang.Props.C08
