import Folang.Generated.FcFacts
import Folang.Spec.OpTable
/-
Obligations over facts regenerated from /repo/fc on every run (C08).
-/
namespace Folang.Props.C08
open Folang.Spec

/-- the published table in the shape the extractor prints: (token type, rank, Go name, bool) -/
def publishedRows : List (String × Nat × String × Bool) :=
  publishedTable.map (fun r => (r.2.1, r.2.2.1, r.2.2.2.1, r.2.2.2.2))

/-- **the table in the code IS the published table** (as a set of rows; no extra or missing operator) -/
theorem table_is_published :
    (∀ r ∈ Folang.Generated.binOpTable, r ∈ publishedRows) ∧
    (∀ r ∈ publishedRows, r ∈ Folang.Generated.binOpTable) ∧
    Folang.Generated.binOpTable.length = publishedRows.length := by decide

/-- the recursion scheme modelled by `climb`: stop when `Precedence < minPrec`, right operand parsed
with `Precedence + 1` -/
theorem fact_precedenceUses : Folang.Generated.precedenceUses =
    ["parseBinAfter: bop.Precedence < minPrec", "parseBinAfter: bop.Precedence + 1"] := by decide

/-- ranks are positive, so the top-level call with minPrec = 1 consumes every operator -/
theorem ranks_positive : ∀ k, k < publishedTable.length → 1 ≤ publishedPrec k := by decide

end Folang.Props.C08
