import Folang.Props.C08Tok
/-
C08, token level, relativised: the term parser only has to read the operands of a given class `Sop`
when they are followed by tokens of a class `EndT` that contains everything that can follow an operand
inside a chain (an end of line, an operator) — which is what a concrete term parser satisfies
(Props/C08Term.lean uses it for names, applications, `not` and parenthesised expressions).
-/
set_option linter.unusedSectionVars false
namespace Folang.Props.C08R
open Folang.Prec Folang.Props.C08
variable {α : Type} (prec : Nat → Nat)
variable (pTerm : List Tok → Option (α × List Tok)) (T : α → List Tok)
variable (Sop : α → Prop) (EndT : List Tok → Prop)

def AllOps (c : List (Nat × Nat × α)) : Prop := ∀ e ∈ c, Sop e.2.2

structure TermOK : Prop where
  reads : ∀ a, Sop a → ∀ r, EndT r → pTerm (T a ++ r) = some (a, r)
  eol : ∀ r, EndT (.eol :: r)
  op : ∀ k r, EndT (.op k :: r)

theorem endT_chain (h : TermOK pTerm T Sop EndT) (c : List (Nat × Nat × α)) (rest : List Tok) (hr : EndT rest) :
    EndT (chainToks T c ++ rest) := by
  cases c with
  | nil => simpa [chainToks] using hr
  | cons e c' =>
    obtain ⟨eols, k, a⟩ := e
    cases eols with
    | zero => simp only [chainToks, List.replicate_zero, List.nil_append, List.cons_append]; exact h.op _ _
    | succ n => simp only [chainToks, List.replicate_succ, List.cons_append]; exact h.eol _

theorem allOps_zeroLead (c : List (Nat × Nat × α)) (h : AllOps Sop c) : AllOps Sop (zeroLead c) := by
  cases c with
  | nil => exact h
  | cons e r =>
    obtain ⟨e0, k, a⟩ := e
    intro x hx
    simp only [zeroLead, List.mem_cons] at hx
    rcases hx with rfl | hx
    · exact h (e0, k, a) List.mem_cons_self
    · exact h x (List.mem_cons_of_mem _ hx)

structure TokSimR (n : Nat) : Prop where
  bin : ∀ (c : List (Nat × Nat × α)), c.length ≤ n → ZL c → AllOps Sop c → ∀ (F m : Nat) (cur : G α) (rest : List Tok),
    2 * c.length + 1 ≤ F → Ends rest → EndT rest →
    ∃ c2, ZL c2 ∧ AllOps Sop c2 ∧ strip c2 = (climb prec (c.length + 1) m cur (strip c)).2 ∧
      exprP.binAfter pTerm prec F m (chainToks T c ++ rest) cur =
        some ((climb prec (c.length + 1) m cur (strip c)).1, chainToks T c2 ++ rest)
  expr : ∀ (c : List (Nat × Nat × α)), c.length ≤ n → AllOps Sop c → ∀ (F m : Nat) (a0 : α) (rest : List Tok),
    Sop a0 → 2 * c.length + 2 ≤ F → Ends rest → EndT rest →
    ∃ c2, ZL c2 ∧ AllOps Sop c2 ∧ strip c2 = (climb prec (c.length + 1) m (.atom a0) (strip c)).2 ∧
      exprP pTerm prec F m (T a0 ++ (chainToks T c ++ rest)) =
        some ((climb prec (c.length + 1) m (.atom a0) (strip c)).1, chainToks T c2 ++ rest)

theorem expr_of_binR (h : TermOK pTerm T Sop EndT) {n : Nat}
    (hb : ∀ (c : List (Nat × Nat × α)), c.length ≤ n → ZL c → AllOps Sop c → ∀ (F m : Nat) (cur : G α) (rest : List Tok),
      2 * c.length + 1 ≤ F → Ends rest → EndT rest →
      ∃ c2, ZL c2 ∧ AllOps Sop c2 ∧ strip c2 = (climb prec (c.length + 1) m cur (strip c)).2 ∧
        exprP.binAfter pTerm prec F m (chainToks T c ++ rest) cur =
          some ((climb prec (c.length + 1) m cur (strip c)).1, chainToks T c2 ++ rest)) :
    ∀ (c : List (Nat × Nat × α)), c.length ≤ n → AllOps Sop c → ∀ (F m : Nat) (a0 : α) (rest : List Tok),
      Sop a0 → 2 * c.length + 2 ≤ F → Ends rest → EndT rest →
      ∃ c2, ZL c2 ∧ AllOps Sop c2 ∧ strip c2 = (climb prec (c.length + 1) m (.atom a0) (strip c)).2 ∧
        exprP pTerm prec F m (T a0 ++ (chainToks T c ++ rest)) =
          some ((climb prec (c.length + 1) m (.atom a0) (strip c)).1, chainToks T c2 ++ rest) := by
  intro c hc hall F m a0 rest ha0 hF hends hendT
  have hread := h.reads a0 ha0 (chainToks T c ++ rest) (endT_chain pTerm T Sop EndT h c rest hendT)
  cases F with
  | zero => omega
  | succ F =>
    cases c with
    | nil =>
      refine ⟨[], trivial, (fun e he => by cases he), by simp [strip, climb], ?_⟩
      simp only [chainToks, List.nil_append] at hread
      simp only [exprP, hread, chainToks, List.nil_append, strip, List.map_nil, climb]
      cases hs : skipEOL rest with
      | nil => rfl
      | cons x r =>
        cases x with
        | op k => exact absurd hs (hends k r)
        | eol => rfl
        | other s => rfl
    | cons e c' =>
      have hne : (e :: c') ≠ [] := by simp
      obtain ⟨c2, hz, hall2, hs2, hbin⟩ := hb (zeroLead (e :: c')) (by rw [length_zeroLead]; exact hc) (zeroLead_ZL _)
        (allOps_zeroLead Sop _ hall) F m (.atom a0) rest
        (by rw [length_zeroLead]; simp at hF ⊢; omega) hends hendT
      rw [strip_zeroLead, length_zeroLead] at hs2 hbin
      refine ⟨c2, hz, hall2, hs2, ?_⟩
      simp only [exprP, hread]
      rw [skipEOL_chain T (e :: c') rest hne]
      obtain ⟨eols, k, a⟩ := e
      simp only [zeroLead, chainToks, List.replicate_zero, List.nil_append, List.cons_append] at hbin ⊢
      exact hbin

theorem tokSimR (h : TermOK pTerm T Sop EndT) : ∀ n, TokSimR prec pTerm T Sop EndT n := by
  intro n
  induction n with
  | zero =>
    have hb : ∀ (c : List (Nat × Nat × α)), c.length ≤ 0 → ZL c → AllOps Sop c → ∀ (F m : Nat) (cur : G α) (rest : List Tok),
        2 * c.length + 1 ≤ F → Ends rest → EndT rest →
        ∃ c2, ZL c2 ∧ AllOps Sop c2 ∧ strip c2 = (climb prec (c.length + 1) m cur (strip c)).2 ∧
          exprP.binAfter pTerm prec F m (chainToks T c ++ rest) cur =
            some ((climb prec (c.length + 1) m cur (strip c)).1, chainToks T c2 ++ rest) := by
      intro c hc _ _ F m cur rest hF hends _
      have : c = [] := by cases c <;> simp_all
      subst this
      exact ⟨[], trivial, (fun e he => by cases he), by simp [strip, climb],
        by simpa [chainToks, strip, climb] using bin_nil prec pTerm F m cur rest (by simpa using hF) hends⟩
    exact ⟨hb, expr_of_binR prec pTerm T Sop EndT h hb⟩
  | succ n ih =>
    have hb : ∀ (c : List (Nat × Nat × α)), c.length ≤ n + 1 → ZL c → AllOps Sop c → ∀ (F m : Nat) (cur : G α) (rest : List Tok),
        2 * c.length + 1 ≤ F → Ends rest → EndT rest →
        ∃ c2, ZL c2 ∧ AllOps Sop c2 ∧ strip c2 = (climb prec (c.length + 1) m cur (strip c)).2 ∧
          exprP.binAfter pTerm prec F m (chainToks T c ++ rest) cur =
            some ((climb prec (c.length + 1) m cur (strip c)).1, chainToks T c2 ++ rest) := by
      intro c hc hz hall F m cur rest hF hends hendT
      cases c with
      | nil => exact ih.bin [] (by simp) trivial (fun e he => by cases he) F m cur rest hF hends hendT
      | cons e c' =>
        obtain ⟨eols, k, a⟩ := e
        have he : eols = 0 := hz
        subst he
        have ha : Sop a := hall _ List.mem_cons_self
        have hall' : AllOps Sop c' := fun x hx => hall x (List.mem_cons_of_mem _ hx)
        simp only [List.length_cons] at hc hF
        cases F with
        | zero => omega
        | succ F =>
          have hskip : skipEOL (chainToks T ((0, k, a) :: c') ++ rest) = .op k :: (T a ++ (chainToks T c' ++ rest)) := by
            simp only [chainToks, List.replicate_zero, List.nil_append, List.cons_append, List.append_assoc]
            rw [skipEOL_op]
          by_cases hlt : prec k < m
          · refine ⟨(0, k, a) :: c', rfl, hall, by simp [strip, climb, hlt], ?_⟩
            simp only [exprP.binAfter, hskip, hlt, if_true, strip, List.map_cons, climb]
          · obtain ⟨cr, hzr, hallr, hcr, hexpr⟩ := ih.expr c' (by omega) hall' F (prec k + 1) a rest ha (by omega) hends hendT
            have hlen : cr.length ≤ c'.length := by
              obtain ⟨pre, hsplit, _, _, _⟩ := climb_spec prec (c'.length + 1) (prec k + 1) (.atom a) (strip c') (by simp [strip])
              have h1 := congrArg List.length hsplit
              have h2 := congrArg List.length hcr
              simp [strip] at h1 h2; omega
            obtain ⟨c2, hz2, hall2, hc2, hloop⟩ := ih.bin cr (by omega) hzr hallr F m
              (.bin k cur (climb prec (c'.length + 1) (prec k + 1) (.atom a) (strip c')).1) rest (by omega) hends hendT
            have hclimb : climb prec (c'.length + 1 + 1) m cur ((k, a) :: strip c') =
                climb prec (c'.length + 1) m (.bin k cur (climb prec (c'.length + 1) (prec k + 1) (.atom a) (strip c')).1)
                  (climb prec (c'.length + 1) (prec k + 1) (.atom a) (strip c')).2 := by
              simp [climb, hlt]
            have hfuel : climb prec (c'.length + 1) m (.bin k cur (climb prec (c'.length + 1) (prec k + 1) (.atom a) (strip c')).1) (strip cr) =
                climb prec (cr.length + 1) m (.bin k cur (climb prec (c'.length + 1) (prec k + 1) (.atom a) (strip c')).1) (strip cr) :=
              climb_fuel prec _ _ m _ _ (by simp [strip]; omega) (by simp [strip])
            have hstrip : strip ((0, k, a) :: c') = (k, a) :: strip c' := rfl
            refine ⟨c2, hz2, hall2, ?_, ?_⟩
            · rw [hstrip, List.length_cons, hclimb, ← hcr, hfuel]; exact hc2
            · simp only [exprP.binAfter, hskip, hlt, if_false, hexpr]
              rw [hstrip, List.length_cons, hclimb, ← hcr, hfuel]
              exact hloop
    exact ⟨hb, expr_of_binR prec pTerm T Sop EndT h hb⟩

/-- relativised `exprP_eq_group` -/
theorem exprP_eq_groupR (h : TermOK pTerm T Sop EndT) (a0 : α) (c : List (Nat × Nat × α))
    (ha0 : Sop a0) (hall : AllOps Sop c) (rest : List Tok) (hends : Ends rest) (hendT : EndT rest)
    (m : Nat) (hm : ∀ e ∈ strip c, m ≤ prec e.1) (F : Nat) (hF : 2 * c.length + 2 ≤ F) :
    exprP pTerm prec F m (T a0 ++ (chainToks T c ++ rest)) = some (group prec (.atom a0) (strip c), rest) := by
  obtain ⟨c2, _, _, hs2, hx⟩ := (tokSimR prec pTerm T Sop EndT h c.length).expr c (Nat.le_refl _) hall F m a0 rest ha0 hF hends hendT
  have hg := climb_eq_group prec a0 (strip c) m hm
  have hl : (strip c).length = c.length := by simp [strip]
  rw [hl] at hg
  rw [hg] at hs2 hx
  have : c2 = [] := by cases c2 <;> simp_all [strip]
  subst this
  simpa [chainToks] using hx

end Folang.Props.C08R
