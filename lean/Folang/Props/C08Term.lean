import Folang.Model.TermParser
import Folang.Props.C08R
import Folang.Lemmas.CanonUnique
/-
C08: the concrete term parser (names, applications, `not`, parenthesised expressions) reads back
every well-formed operand, and therefore the whole expression parser — operators with ends of line
before them at the top level, arbitrarily nested parentheses — returns the reference grouping of what
the tokens spell.  No bound on nesting depth, chain length or number of arguments.
-/
set_option linter.unusedSectionVars false
namespace Folang.Props.C08T
open Folang.Prec Folang.Props.C08 Folang.Props.C08R
variable (prec : Nat → Nat)

mutual
def renderOT : OT → List Tok
  | .name s => [.other s]
  | .not t => .other "not" :: renderOT t
  | .app ts => renderOTs ts
  | .paren e => .other "(" :: (renderG e ++ [.other ")"])
def renderOTs : List OT → List Tok
  | [] => []
  | t :: ts => renderOT t ++ renderOTs ts
def renderG : G OT → List Tok
  | .atom a => renderOT a
  | .bin k l r => renderG l ++ (.op k :: renderG r)
end

def isAtomLevel : OT → Bool
  | .name _ => true
  | .paren _ => true
  | _ => false

def goodName (s : String) : Prop := s ≠ "(" ∧ s ≠ ")" ∧ s ≠ "not"

mutual
def WFOT : OT → Prop
  | .name s => goodName s
  | .not t => WFOT t
  | .app ts => 2 ≤ ts.length ∧ WFArgs ts
  | .paren e => WFG e ∧ Canon prec e ∧ ∀ k ∈ opsOfG e, 1 ≤ prec k
def WFArgs : List OT → Prop
  | [] => True
  | t :: ts => isAtomLevel t = true ∧ WFOT t ∧ WFArgs ts
def WFG : G OT → Prop
  | .atom a => WFOT a
  | .bin _ l r => WFG l ∧ WFG r
end

mutual
def need : OT → Nat
  | .name _ => 4
  | .not t => 1 + need t
  | .app ts => 3 + needArgs ts
  | .paren e => 4 + needG e
def needArgs : List OT → Nat
  | [] => 0
  | t :: ts => 1 + need t + needArgs ts
def needG : G OT → Nat
  | .atom a => need a + 2
  | .bin _ l r => needG l + needG r + 2
end

/-- the decorated chain of a tree rendered without ends of line -/
def dec (c : List (Nat × OT)) : List (Nat × Nat × OT) := c.map (fun e => (0, e.1, e.2))

theorem strip_dec (c : List (Nat × OT)) : strip (dec c) = c := by
  simp [strip, dec, List.map_map, Function.comp_def]

theorem chainToks_append (T : OT → List Tok) (c1 c2 : List (Nat × Nat × OT)) :
    chainToks T (c1 ++ c2) = chainToks T c1 ++ chainToks T c2 := by
  induction c1 with
  | nil => rfl
  | cons e c1 ih => obtain ⟨eols, k, a⟩ := e; simp [chainToks, ih]

theorem renderG_flatten : ∀ (e : G OT), renderG e = renderOT (flatten e).1 ++ chainToks renderOT (dec (flatten e).2) := by
  intro e
  induction e with
  | atom a => simp [renderG, flatten, dec, chainToks]
  | bin k l r ihl ihr =>
    simp only [renderG, flatten, ihl, ihr, dec, List.map_append, List.map_cons, List.map_nil, chainToks_append,
      chainToks, List.replicate_zero, List.nil_append, List.append_assoc, List.cons_append, List.append_nil]

theorem need_of_mem_flatten : ∀ (e : G OT), need (flatten e).1 + 2 ≤ needG e ∧ ∀ x ∈ (flatten e).2, need x.2 + 2 ≤ needG e := by
  intro e
  induction e with
  | atom a => simp [flatten, needG]
  | bin k l r ihl ihr =>
    refine ⟨by simp only [flatten, needG]; omega, ?_⟩
    intro x hx
    simp only [flatten, List.mem_append, List.mem_cons, List.not_mem_nil, or_false] at hx
    simp only [needG]
    rcases hx with (hx | rfl) | hx
    · have := ihl.2 x hx; omega
    · have := ihr.1; simp only; omega
    · have := ihr.2 x hx; omega

theorem wf_of_mem_flatten : ∀ (e : G OT), WFG prec e → WFOT prec (flatten e).1 ∧ ∀ x ∈ (flatten e).2, WFOT prec x.2 := by
  intro e
  induction e with
  | atom a => intro h; exact ⟨by simpa [WFG, flatten] using h, by simp [flatten]⟩
  | bin k l r ihl ihr =>
    intro h
    simp only [WFG] at h
    refine ⟨(ihl h.1).1, ?_⟩
    intro x hx
    simp only [flatten, List.mem_append, List.mem_cons, List.not_mem_nil, or_false] at hx
    rcases hx with (hx | rfl) | hx
    · exact (ihl h.1).2 x hx
    · exact (ihr h.2).1
    · exact (ihr h.2).2 x hx

theorem flatten_length_le : ∀ (e : G OT), 2 * (flatten e).2.length + 2 ≤ needG e := by
  intro e
  induction e with
  | atom a => simp [flatten, needG]
  | bin k l r ihl ihr => simp only [flatten, needG, List.length_append, List.length_cons, List.length_nil]; omega

theorem ends_rparen (r : List Tok) : Ends (.other ")" :: r) := by
  intro k r' h; simp [skipEOL] at h

/-- the three parsers read back what was rendered, at every size -/
structure Reads (n : Nat) : Prop where
  term : ∀ t, need t ≤ n → WFOT prec t → ∀ F, need t ≤ F → ∀ r, isEndOfTerm r = true →
    pTerm prec F (renderOT t ++ r) = some (t, r)
  atom : ∀ t, need t ≤ n → isAtomLevel t = true → WFOT prec t → ∀ F, need t ≤ F + 2 → ∀ r,
    pAtom prec F (renderOT t ++ r) = some (t, r)

theorem notEnd_of_atomLevel (t : OT) (hl : isAtomLevel t = true) (hw : WFOT prec t) (r : List Tok) :
    ∃ s tl, renderOT t ++ r = .other s :: tl ∧ s ≠ ")" ∧ s ≠ "not" := by
  cases t with
  | name s => exact ⟨s, r, by simp [renderOT], hw.2.1, hw.2.2⟩
  | paren e => exact ⟨"(", _, by simp only [renderOT, List.cons_append]; rfl, by decide, by decide⟩
  | not t => simp [isAtomLevel] at hl
  | app ts => simp [isAtomLevel] at hl

/-- argument lists -/
theorem reads_args {n : Nat} (ih : Reads prec n) : ∀ (ts : List OT), ts ≠ [] → needArgs ts ≤ n → WFArgs prec ts →
    ∀ F, needArgs ts ≤ F → ∀ r, isEndOfTerm r = true → pAtomList prec F (renderOTs ts ++ r) = some (ts, r) := by
  intro ts
  induction ts with
  | nil => intro h; exact absurd rfl h
  | cons t ts iht =>
    intro _ hn hw F hF r hr
    simp only [needArgs] at hn hF
    simp only [WFArgs] at hw
    obtain ⟨hl, hwt, hwts⟩ := hw
    cases F with
    | zero => omega
    | succ f =>
      simp only [renderOTs, List.append_assoc, pAtomList]
      rw [ih.atom t (by omega) hl hwt f (by omega) (renderOTs ts ++ r)]
      cases ts with
      | nil =>
        simp only [renderOTs, List.nil_append, hr, if_true]
      | cons t2 ts2 =>
        simp only [WFArgs] at hwts
        obtain ⟨s, tl, hs, hs1, _⟩ := notEnd_of_atomLevel prec t2 hwts.1 hwts.2.1 (renderOTs ts2 ++ r)
        have hne : isEndOfTerm (renderOTs (t2 :: ts2) ++ r) = false := by
          simp only [renderOTs, List.append_assoc]
          rw [hs]
          unfold isEndOfTerm
          split <;> simp_all
        simp only [hne, Bool.false_eq_true, if_false]
        rw [iht (by simp) (by omega) ⟨hwts.1, hwts.2.1, hwts.2.2⟩ f (by omega) r hr]

theorem reads_zero : Reads prec 0 := by
  refine ⟨?_, ?_⟩
  · intro t h; cases t <;> simp [need] at h
  · intro t h; cases t <;> simp [need] at h

theorem reads_step {n : Nat} (ih : Reads prec n) : Reads prec (n + 1) := by
  have hatom : ∀ t, need t ≤ n + 1 → isAtomLevel t = true → WFOT prec t → ∀ F, need t ≤ F + 2 → ∀ r,
      pAtom prec F (renderOT t ++ r) = some (t, r) := by
    intro t hn hl hw F hF r
    cases t with
    | not t => simp [isAtomLevel] at hl
    | app ts => simp [isAtomLevel] at hl
    | name s =>
      simp only [need] at hF
      cases F with
      | zero => omega
      | succ f =>
        obtain ⟨h1, h2, _⟩ := hw
        simp [renderOT, pAtom, h1, h2]
    | paren e =>
      simp only [need] at hn hF
      simp only [WFOT] at hw
      obtain ⟨hwg, hcan, hranks⟩ := hw
      cases F with
      | zero => omega
      | succ f =>
        -- the expression inside the parentheses, parsed with the term parser at fuel f
        have hneed := need_of_mem_flatten e
        have hwf := wf_of_mem_flatten prec e hwg
        have hok : TermOK (pTerm prec f) renderOT (fun a => WFOT prec a ∧ need a ≤ n ∧ need a ≤ f)
            (fun r => isEndOfTerm r = true) := by
          refine ⟨?_, fun r => rfl, fun k r => rfl⟩
          intro a ha r hr
          exact ih.term a ha.2.1 ha.1 f ha.2.2 r hr
        have hexpr := exprP_eq_groupR prec (pTerm prec f) renderOT _ _ hok (flatten e).1 (dec (flatten e).2)
          ⟨hwf.1, by omega, by omega⟩
          (by
            intro x hx
            simp only [dec, List.mem_map] at hx
            obtain ⟨y, hy, rfl⟩ := hx
            exact ⟨hwf.2 y hy, by have := hneed.2 y hy; simp only; omega, by have := hneed.2 y hy; simp only; omega⟩)
          (.other ")" :: r) (ends_rparen r) rfl 1
          (by
            intro x hx
            rw [strip_dec] at hx
            exact hranks x.1 (mem_flatten_ops e x hx))
          f (by
            have := flatten_length_le e
            simp only [dec, List.length_map]; omega)
        rw [strip_dec, group_of_canon prec e hcan] at hexpr
        have hrender : renderOT (.paren e) ++ r =
            .other "(" :: (renderOT (flatten e).1 ++ (chainToks renderOT (dec (flatten e).2) ++ .other ")" :: r)) := by
          simp only [renderOT, renderG_flatten e, List.cons_append, List.append_assoc, List.singleton_append, List.nil_append]
        rw [hrender]
        simp [pAtom, hexpr]
  refine ⟨?_, hatom⟩
  intro t hn hw F hF r hr
  cases F with
  | zero => cases t <;> simp [need] at hF
  | succ f =>
    cases t with
    | not t =>
      simp only [need] at hn hF
      simp only [WFOT] at hw
      simp only [renderOT, List.cons_append, pTerm]
      rw [ih.term t (by omega) hw f (by omega) r hr]
    | name s =>
      simp only [need] at hF
      have hnot : s ≠ "not" := hw.2.2
      have hat := hatom (.name s) hn rfl hw (f - 1) (by simp only [need]; omega) r
      cases f with
      | zero => omega
      | succ f' =>
        simp only [Nat.add_sub_cancel] at hat
        simp only [renderOT, List.cons_append, List.nil_append] at hat ⊢
        simp only [pTerm]
        split
        · rename_i r' heq
          simp only [List.cons.injEq, Tok.other.injEq] at heq
          exact absurd heq.1 hnot
        · simp [pAtomList, hat, hr]
    | paren e =>
      have hat := hatom (.paren e) hn rfl hw (f - 1) (by simp only [need] at hF ⊢; omega) r
      cases f with
      | zero => simp only [need] at hF; omega
      | succ f' =>
        simp only [Nat.add_sub_cancel] at hat
        have hhead : ∃ tl, renderOT (.paren e) ++ r = .other "(" :: tl := ⟨_, by simp only [renderOT, List.cons_append]; rfl⟩
        obtain ⟨tl, htl⟩ := hhead
        simp only [pTerm]
        rw [htl] at hat ⊢
        split
        · rename_i r' heq
          simp only [List.cons.injEq, Tok.other.injEq] at heq
          exact absurd heq.1 (by decide)
        · simp [pAtomList, hat, hr]
    | app ts =>
      simp only [need] at hn hF
      simp only [WFOT] at hw
      obtain ⟨hlen, hwargs⟩ := hw
      have hne : ts ≠ [] := by intro h; subst h; simp at hlen
      have hargs := reads_args prec ih ts hne (by omega) hwargs f (by omega) r hr
      simp only [renderOT, pTerm]
      -- the first token is not `not`
      cases ts with
      | nil => exact absurd rfl hne
      | cons t1 ts1 =>
        simp only [WFArgs] at hwargs
        obtain ⟨s, tl, hs, _, hs2⟩ := notEnd_of_atomLevel prec t1 hwargs.1 hwargs.2.1 (renderOTs ts1 ++ r)
        have hrend : renderOTs (t1 :: ts1) ++ r = .other s :: tl := by
          simp only [renderOTs, List.append_assoc]; exact hs
        rw [hrend] at hargs ⊢
        split
        · rename_i r' heq
          simp only [List.cons.injEq, Tok.other.injEq] at heq
          exact absurd heq.1 hs2
        · rw [hargs]
          cases ts1 with
          | nil => simp at hlen
          | cons t2 ts2 => rfl

theorem reads_all : ∀ n, Reads prec n := by
  intro n
  induction n with
  | zero => exact reads_zero prec
  | succ n ih => exact reads_step prec ih

/-- **the concrete term parser reads back every well-formed operand** -/
theorem pTerm_reads (t : OT) (hw : WFOT prec t) (F : Nat) (hF : need t ≤ F) (r : List Tok) (hr : isEndOfTerm r = true) :
    pTerm prec F (renderOT t ++ r) = some (t, r) :=
  (reads_all prec (need t)).term t (Nat.le_refl _) hw F hF r hr

/-- **C08 for the whole expression parser of the fragment**: an operand followed by a chain of
operators (any number of ends of line before each) over well-formed operands — names, applications,
`not`, parenthesised canonical expressions nested to any depth — is parsed to the reference grouping,
and everything up to `rest` is consumed. -/
theorem expr_roundtrip (a0 : OT) (c : List (Nat × Nat × OT)) (f : Nat)
    (ha0 : WFOT prec a0 ∧ need a0 ≤ f) (hall : ∀ e ∈ c, WFOT prec e.2.2 ∧ need e.2.2 ≤ f)
    (rest : List Tok) (hends : Ends rest) (hend : isEndOfTerm rest = true)
    (m : Nat) (hm : ∀ e ∈ strip c, m ≤ prec e.1) (F : Nat) (hF : 2 * c.length + 2 ≤ F) :
    exprP (pTerm prec f) prec F m (renderOT a0 ++ (chainToks renderOT c ++ rest)) =
      some (group prec (.atom a0) (strip c), rest) := by
  have hok : TermOK (pTerm prec f) renderOT (fun a => WFOT prec a ∧ need a ≤ f) (fun r => isEndOfTerm r = true) :=
    ⟨fun a ha r hr => pTerm_reads prec a ha.1 f ha.2 r hr, fun r => rfl, fun k r => rfl⟩
  exact exprP_eq_groupR prec (pTerm prec f) renderOT _ _ hok a0 c ha0 hall rest hends hend m hm F hF

/-! ### non-vacuity -/

def prec45 : Nat → Nat := fun k => if k = 0 then 4 else 5

/-- `f x (a * b)` is a well-formed operand for ranks +:4 (id 0), *:5 (id 1) -/
def sampleOT : OT := .app [.name "f", .name "x", .paren (.bin 1 (.atom (.name "a")) (.atom (.name "b")))]

theorem sampleOT_wf : WFOT prec45 sampleOT := by
  simp [sampleOT, WFOT, WFArgs, WFG, isAtomLevel, goodName, Canon, rootOK, opsOfG, prec45]

/-- `not g  <EOL> + f x (a * b) )` : by the theorem the parser returns  (not g) + (f x (a * b))  and leaves `)` -/
example : exprP (pTerm prec45 40) prec45 8 1
    (renderOT (.not (.name "g")) ++ (chainToks renderOT [(1, 0, sampleOT)] ++ [.other ")"])) =
    some (.bin 0 (.atom (.not (.name "g"))) (.atom sampleOT), [.other ")"]) := by
  have h := expr_roundtrip prec45 (.not (.name "g")) [(1, 0, sampleOT)] 40
    ⟨by simp [WFOT, goodName], by simp [need]⟩
    (by intro e he; simp at he; subst he; exact ⟨sampleOT_wf, by simp [sampleOT, need, needArgs, needG]⟩)
    [.other ")"] (ends_rparen []) rfl 1
    (by intro e he; simp [strip] at he; subst he; decide) 8 (by simp)
  simpa [strip, group, Folang.Prec.insert] using h

end Folang.Props.C08T
