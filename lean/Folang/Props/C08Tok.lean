import Folang.Props.C08
/-
C08, token level: `parseExprWithPrec` / `parseBinAfter` with their `psSkipEOL` calls (model
`exprP` / `binAfter`, generic in the term parser) compute exactly the chain-level function `climb`
on the operator chain the tokens spell, whatever ends of line stand before the operators, and return
the state BEFORE the ends of line that precede the first operator they do not consume.
-/
set_option linter.unusedSectionVars false
namespace Folang.Props.C08
open Folang.Prec
variable {α : Type} (prec : Nat → Nat)

/-- `climb` does not depend on its fuel once the fuel exceeds the length of the chain -/
theorem climb_fuel : ∀ (f1 f2 m : Nat) (lhs : G α) (rest : List (Nat × α)), rest.length < f1 → rest.length < f2 →
    climb prec f1 m lhs rest = climb prec f2 m lhs rest := by
  intro f1
  induction f1 with
  | zero => intro f2 m lhs rest h; omega
  | succ f1 ih =>
    intro f2 m lhs rest h1 h2
    cases f2 with
    | zero => omega
    | succ f2 =>
      cases rest with
      | nil => simp [climb]
      | cons e rest' =>
        obtain ⟨op, a⟩ := e
        by_cases hlt : prec op < m
        · simp [climb, hlt]
        · simp only [List.length_cons] at h1 h2
          simp only [climb, hlt, if_false]
          have hr := ih f2 (prec op + 1) (.atom a) rest' (by omega) (by omega)
          rw [hr]
          -- the loop continues on a suffix of the chain
          obtain ⟨pre, hsplit, _, _, _⟩ := climb_spec prec f2 (prec op + 1) (.atom a) rest' (by omega)
          have hlen : (climb prec f2 (prec op + 1) (.atom a) rest').2.length ≤ rest'.length := by
            have := congrArg List.length hsplit
            simp at this; omega
          exact ih f2 m _ _ (by omega) (by omega)

/-- the tokens of an operator chain: before each operator any number of ends of line, then the
operator, then the tokens of its right operand -/
def chainToks (T : α → List Tok) : List (Nat × Nat × α) → List Tok
  | [] => []
  | (eols, k, a) :: rest => List.replicate eols .eol ++ (.op k :: (T a ++ chainToks T rest))

def strip (c : List (Nat × Nat × α)) : List (Nat × α) := c.map (·.2)

theorem skipEOL_replicate (n : Nat) (ts : List Tok) : skipEOL (List.replicate n .eol ++ ts) = skipEOL ts := by
  induction n with
  | zero => rfl
  | succ n ih => simp [List.replicate_succ, skipEOL, ih]

/-- what follows the chain does not continue it: after its ends of line there is no operator -/
def Ends (rest : List Tok) : Prop := ∀ k r, skipEOL rest ≠ .op k :: r

theorem skipEOL_op (k : Nat) (r : List Tok) : skipEOL (.op k :: r) = .op k :: r := by simp [skipEOL]

variable (pTerm : List Tok → Option (α × List Tok)) (T : α → List Tok)

/-- a decorated chain whose first operator has no ends of line before it (or the empty chain) -/
def ZL : List (Nat × Nat × α) → Prop
  | [] => True
  | (e, _, _) :: _ => e = 0

def zeroLead : List (Nat × Nat × α) → List (Nat × Nat × α)
  | [] => []
  | (_, k, a) :: r => (0, k, a) :: r

theorem zeroLead_ZL (c : List (Nat × Nat × α)) : ZL (zeroLead c) := by
  cases c with
  | nil => trivial
  | cons e r => obtain ⟨_, _, _⟩ := e; rfl

theorem strip_zeroLead (c : List (Nat × Nat × α)) : strip (zeroLead c) = strip c := by
  cases c with
  | nil => rfl
  | cons e r => obtain ⟨_, _, _⟩ := e; rfl

theorem length_zeroLead (c : List (Nat × Nat × α)) : (zeroLead c).length = c.length := by
  cases c with
  | nil => rfl
  | cons e r => obtain ⟨_, _, _⟩ := e; rfl

theorem skipEOL_chain (c : List (Nat × Nat × α)) (rest : List Tok) (hne : c ≠ []) :
    skipEOL (chainToks T c ++ rest) = chainToks T (zeroLead c) ++ rest := by
  cases c with
  | nil => exact absurd rfl hne
  | cons e r =>
    obtain ⟨eols, k, a⟩ := e
    simp only [chainToks, zeroLead, List.append_assoc, List.cons_append, List.replicate_zero, List.nil_append]
    rw [skipEOL_replicate, skipEOL_op]

/-- the two statements proved together: `binAfter` on a chain without leading ends of line, and
`exprP` on an operand followed by any decorated chain.  Both return the tree `climb` builds on the
plain chain and the tokens of the part of the chain `climb` leaves (the ends of line before the
operator they stop at are consumed: the code passes the state AFTER psSkipEOL to parseBinAfter). -/
structure TokSim (n : Nat) : Prop where
  bin : ∀ (c : List (Nat × Nat × α)), c.length ≤ n → ZL c → ∀ (F m : Nat) (cur : G α) (rest : List Tok),
    2 * c.length + 1 ≤ F → Ends rest →
    ∃ c2, ZL c2 ∧ strip c2 = (climb prec (c.length + 1) m cur (strip c)).2 ∧
      exprP.binAfter pTerm prec F m (chainToks T c ++ rest) cur =
        some ((climb prec (c.length + 1) m cur (strip c)).1, chainToks T c2 ++ rest)
  expr : ∀ (c : List (Nat × Nat × α)), c.length ≤ n → ∀ (F m : Nat) (a0 : α) (rest : List Tok),
    2 * c.length + 2 ≤ F → Ends rest →
    ∃ c2, ZL c2 ∧ strip c2 = (climb prec (c.length + 1) m (.atom a0) (strip c)).2 ∧
      exprP pTerm prec F m (T a0 ++ (chainToks T c ++ rest)) =
        some ((climb prec (c.length + 1) m (.atom a0) (strip c)).1, chainToks T c2 ++ rest)

theorem bin_nil (F m : Nat) (cur : G α) (rest : List Tok) (hF : 1 ≤ F) (hends : Ends rest) :
    exprP.binAfter pTerm prec F m rest cur = some (cur, rest) := by
  cases F with
  | zero => omega
  | succ F =>
    simp only [exprP.binAfter]
    cases hs : skipEOL rest with
    | nil => rfl
    | cons x r =>
      cases x with
      | op k => exact absurd hs (hends k r)
      | eol => rfl
      | other s => rfl

/-- `exprP` from `binAfter` at the same length -/
theorem expr_of_bin (hT : ∀ a r, pTerm (T a ++ r) = some (a, r)) {n : Nat}
    (hb : ∀ (c : List (Nat × Nat × α)), c.length ≤ n → ZL c → ∀ (F m : Nat) (cur : G α) (rest : List Tok),
      2 * c.length + 1 ≤ F → Ends rest →
      ∃ c2, ZL c2 ∧ strip c2 = (climb prec (c.length + 1) m cur (strip c)).2 ∧
        exprP.binAfter pTerm prec F m (chainToks T c ++ rest) cur =
          some ((climb prec (c.length + 1) m cur (strip c)).1, chainToks T c2 ++ rest)) :
    ∀ (c : List (Nat × Nat × α)), c.length ≤ n → ∀ (F m : Nat) (a0 : α) (rest : List Tok),
      2 * c.length + 2 ≤ F → Ends rest →
      ∃ c2, ZL c2 ∧ strip c2 = (climb prec (c.length + 1) m (.atom a0) (strip c)).2 ∧
        exprP pTerm prec F m (T a0 ++ (chainToks T c ++ rest)) =
          some ((climb prec (c.length + 1) m (.atom a0) (strip c)).1, chainToks T c2 ++ rest) := by
  intro c hc F m a0 rest hF hends
  cases F with
  | zero => omega
  | succ F =>
    cases c with
    | nil =>
      refine ⟨[], trivial, by simp [strip, climb], ?_⟩
      simp only [exprP, hT, chainToks, List.nil_append, strip, List.map_nil, climb]
      cases hs : skipEOL rest with
      | nil => rfl
      | cons x r =>
        cases x with
        | op k => exact absurd hs (hends k r)
        | eol => rfl
        | other s => rfl
    | cons e c' =>
      have hne : (e :: c') ≠ [] := by simp
      obtain ⟨c2, hz, hs2, hbin⟩ := hb (zeroLead (e :: c')) (by rw [length_zeroLead]; exact hc) (zeroLead_ZL _) F m (.atom a0) rest
        (by rw [length_zeroLead]; simp at hF ⊢; omega) hends
      rw [strip_zeroLead, length_zeroLead] at hs2 hbin
      refine ⟨c2, hz, hs2, ?_⟩
      simp only [exprP, hT]
      rw [skipEOL_chain T (e :: c') rest hne]
      obtain ⟨eols, k, a⟩ := e
      simp only [zeroLead, chainToks, List.replicate_zero, List.nil_append, List.cons_append] at hbin ⊢
      exact hbin

theorem tokSim (hT : ∀ a r, pTerm (T a ++ r) = some (a, r)) : ∀ n, TokSim prec pTerm T n := by
  intro n
  induction n with
  | zero =>
    have hb : ∀ (c : List (Nat × Nat × α)), c.length ≤ 0 → ZL c → ∀ (F m : Nat) (cur : G α) (rest : List Tok),
        2 * c.length + 1 ≤ F → Ends rest →
        ∃ c2, ZL c2 ∧ strip c2 = (climb prec (c.length + 1) m cur (strip c)).2 ∧
          exprP.binAfter pTerm prec F m (chainToks T c ++ rest) cur =
            some ((climb prec (c.length + 1) m cur (strip c)).1, chainToks T c2 ++ rest) := by
      intro c hc _ F m cur rest hF hends
      have : c = [] := by cases c <;> simp_all
      subst this
      exact ⟨[], trivial, by simp [strip, climb], by simpa [chainToks, strip, climb] using bin_nil prec pTerm F m cur rest (by simpa using hF) hends⟩
    exact ⟨hb, expr_of_bin prec pTerm T hT hb⟩
  | succ n ih =>
    have hb : ∀ (c : List (Nat × Nat × α)), c.length ≤ n + 1 → ZL c → ∀ (F m : Nat) (cur : G α) (rest : List Tok),
        2 * c.length + 1 ≤ F → Ends rest →
        ∃ c2, ZL c2 ∧ strip c2 = (climb prec (c.length + 1) m cur (strip c)).2 ∧
          exprP.binAfter pTerm prec F m (chainToks T c ++ rest) cur =
            some ((climb prec (c.length + 1) m cur (strip c)).1, chainToks T c2 ++ rest) := by
      intro c hc hz F m cur rest hF hends
      cases c with
      | nil => exact ih.bin [] (by simp) trivial F m cur rest hF hends
      | cons e c' =>
        obtain ⟨eols, k, a⟩ := e
        have he : eols = 0 := hz
        subst he
        simp only [List.length_cons] at hc hF
        cases F with
        | zero => omega
        | succ F =>
          have hskip : skipEOL (chainToks T ((0, k, a) :: c') ++ rest) = .op k :: (T a ++ (chainToks T c' ++ rest)) := by
            simp only [chainToks, List.replicate_zero, List.nil_append, List.cons_append, List.append_assoc]
            rw [skipEOL_op]
          by_cases hlt : prec k < m
          · refine ⟨(0, k, a) :: c', rfl, by simp [strip, climb, hlt], ?_⟩
            simp only [exprP.binAfter, hskip, hlt, if_true, strip, List.map_cons, climb]
          · -- the operator is taken: right operand at rank prec k + 1, then the loop
            obtain ⟨cr, hzr, hcr, hexpr⟩ := ih.expr c' (by omega) F (prec k + 1) a rest (by omega) hends
            have hlen : cr.length ≤ c'.length := by
              obtain ⟨pre, hsplit, _, _, _⟩ := climb_spec prec (c'.length + 1) (prec k + 1) (.atom a) (strip c') (by simp [strip])
              have h1 := congrArg List.length hsplit
              have h2 := congrArg List.length hcr
              simp [strip] at h1 h2; omega
            obtain ⟨c2, hz2, hc2, hloop⟩ := ih.bin cr (by omega) hzr F m
              (.bin k cur (climb prec (c'.length + 1) (prec k + 1) (.atom a) (strip c')).1) rest (by omega) hends
            have hclimb : climb prec (c'.length + 1 + 1) m cur ((k, a) :: strip c') =
                climb prec (c'.length + 1) m (.bin k cur (climb prec (c'.length + 1) (prec k + 1) (.atom a) (strip c')).1)
                  (climb prec (c'.length + 1) (prec k + 1) (.atom a) (strip c')).2 := by
              simp [climb, hlt]
            have hfuel : climb prec (c'.length + 1) m (.bin k cur (climb prec (c'.length + 1) (prec k + 1) (.atom a) (strip c')).1) (strip cr) =
                climb prec (cr.length + 1) m (.bin k cur (climb prec (c'.length + 1) (prec k + 1) (.atom a) (strip c')).1) (strip cr) :=
              climb_fuel prec _ _ m _ _ (by simp [strip]; omega) (by simp [strip])
            have hstrip : strip ((0, k, a) :: c') = (k, a) :: strip c' := rfl
            refine ⟨c2, hz2, ?_, ?_⟩
            · rw [hstrip, List.length_cons, hclimb, ← hcr, hfuel]; exact hc2
            · simp only [exprP.binAfter, hskip, hlt, if_false, hexpr]
              rw [hstrip, List.length_cons, hclimb, ← hcr, hfuel]
              exact hloop
    exact ⟨hb, expr_of_bin prec pTerm T hT hb⟩

/-- **C08, token level.**  `parseExprWithPrec minPrec` on an operand followed by an operator chain
with any ends of line before the operators returns the tree `climb` builds on the plain chain.  With
`minPrec` not above any rank, that is the reference grouping of the whole chain (`climb_eq_group`) and
everything up to `rest` is consumed. -/
theorem exprP_eq_group (hT : ∀ a r, pTerm (T a ++ r) = some (a, r)) (a0 : α) (c : List (Nat × Nat × α))
    (rest : List Tok) (hends : Ends rest) (m : Nat) (hm : ∀ e ∈ strip c, m ≤ prec e.1) (F : Nat) (hF : 2 * c.length + 2 ≤ F) :
    exprP pTerm prec F m (T a0 ++ (chainToks T c ++ rest)) = some (group prec (.atom a0) (strip c), rest) := by
  obtain ⟨c2, _, hs2, h⟩ := (tokSim prec pTerm T hT c.length).expr c (Nat.le_refl _) F m a0 rest hF hends
  have hg := climb_eq_group prec a0 (strip c) m hm
  have hl : (strip c).length = c.length := by simp [strip]
  rw [hl] at hg
  rw [hg] at hs2 h
  have : c2 = [] := by cases c2 <;> simp_all [strip]
  subst this
  simpa [chainToks] using h

/-! ### non-vacuity: a concrete term parser and a chain with ends of line -/

def termP : List Tok → Option (String × List Tok)
  | .other s :: r => some (s, r)
  | _ => none

def termT (a : String) : List Tok := [.other a]

theorem termP_reads : ∀ a r, termP (termT a ++ r) = some (a, r) := by intro a r; rfl

/-- `a  <EOL> + b <EOL><EOL> * c )` with ranks +:4, *:5 : the hypotheses of `exprP_eq_group` hold and
the result is a + (b * c), with `)` left -/
example : exprP termP (fun k => if k = 0 then 4 else 5) 8 1
    (termT "a" ++ (chainToks termT [(1, 0, "b"), (2, 1, "c")] ++ [.other ")"])) =
    some (.bin 0 (.atom "a") (.bin 1 (.atom "b") (.atom "c")), [.other ")"]) := by
  have h := exprP_eq_group (fun k => if k = 0 then 4 else 5) termP termT termP_reads "a"
    [(1, 0, "b"), (2, 1, "c")] [.other ")"] (by intro k r h; simp [skipEOL] at h) 1
    (by intro e he; simp [strip] at he; rcases he with rfl | rfl <;> simp) 8 (by simp)
  simpa [strip, group, Folang.Prec.insert] using h

end Folang.Props.C08
