import Folang.Model.Exhaust
import Folang.Props.C14
/-
C09 — a union match without default is accepted exactly when it covers every case.
All theorems hold for every union (any number of cases), every list of arms in any order (with
repetitions), and EVERY enumeration order π of the coverage dictionary.
-/
namespace Folang.Props.C09
open Folang.Exhaust Folang.Lib Folang.Props.C14


/-- abstract content of the coverage dictionary after marking -/
theorem marked_get (cases arms : List String) (k : String) :
    (arms.foldl (fun d a => dictAdd d a true) (dictToDict (cases.map (fun c => (c, false))) : GoMap String Bool)).get? k =
      if k ∈ arms then some true else if k ∈ cases then some false else none := by
  have hbase : ∀ k, (dictToDict (cases.map (fun c => (c, false))) : GoMap String Bool).get? k =
      if k ∈ cases then some false else none := by
    intro k
    rw [toDict_last]
    induction cases with
    | nil => simp
    | cons c rest ih =>
      simp only [List.map_cons, List.reverse_cons, List.find?_append, List.mem_cons]
      by_cases hk : k ∈ rest
      · simp only [hk, or_true, if_true] at ih ⊢
        cases hf : List.find? (fun e => decide (e.1 = k)) (List.map (fun c => (c, false)) rest).reverse with
        | none => rw [hf] at ih; simp at ih
        | some e => rw [hf] at ih; simpa using ih
      · simp only [hk, if_false, or_false] at ih ⊢
        cases hf : List.find? (fun e => decide (e.1 = k)) (List.map (fun c => (c, false)) rest).reverse with
        | some e => rw [hf] at ih; simp at ih
        | none =>
          by_cases hc : c = k
          · simp [hc]
          · have : ¬ k = c := fun h => hc h.symm
            simp [hc, this]
  have : ∀ (d : GoMap String Bool), (arms.foldl (fun d a => dictAdd d a true) d).get? k =
      if k ∈ arms then some true else d.get? k := by
    induction arms with
    | nil => intro d; simp
    | cons a rest ih =>
      intro d
      simp only [List.foldl_cons, ih, add_refines, List.mem_cons]
      by_cases h1 : k ∈ rest
      · simp [h1]
      · by_cases h2 : k = a
        · simp [h2]
        · simp [h1, h2]
  rw [this, hbase]

theorem marked_wf (cases arms : List String) :
    GoMap.WF (arms.foldl (fun d a => dictAdd d a true) (dictToDict (cases.map (fun c => (c, false))) : GoMap String Bool)) := by
  have : ∀ (d : GoMap String Bool), d.WF → (arms.foldl (fun d a => dictAdd d a true) d).WF := by
    induction arms with
    | nil => intro d h; exact h
    | cons a rest ih => intro d h; exact ih _ (add_wf d a true h)
  exact this _ (reachable_wf _)

variable (π : List (String × Bool) → List (String × Bool)) (hπ : ∀ l, (π l).Perm l)
include hπ

/-- the check passes iff every case of the union is named by an arm -/
theorem exaustiveCheck_accept_iff (cases arms : List String) :
    exaustiveCheck π cases arms = .accept ↔ ∀ c ∈ cases, c ∈ arms := by
  unfold exaustiveCheck
  simp only
  have key : ∀ (k : String) (b : Bool), (k, b) ∈ dictKVs π _ ↔ _ := fun k b =>
    kvs_enumerates π hπ _ (marked_wf cases arms) k b
  constructor
  · intro h c hc
    cases hnf : List.filter (fun p => !p.2) (dictKVs π (arms.foldl (fun d a => dictAdd d a true)
        (dictToDict (cases.map (fun c => (c, false))) : GoMap String Bool))) with
    | cons e rest => rw [hnf] at h; simp at h
    | nil =>
      by_cases hm : c ∈ arms
      · exact hm
      · exfalso
        have hin : (c, false) ∈ dictKVs π (arms.foldl (fun d a => dictAdd d a true)
            (dictToDict (cases.map (fun c => (c, false))) : GoMap String Bool)) := by
          rw [key, marked_get]; simp [hm, hc]
        have : (c, false) ∈ List.filter (fun p => !p.2) (dictKVs π (arms.foldl (fun d a => dictAdd d a true)
            (dictToDict (cases.map (fun c => (c, false))) : GoMap String Bool))) := by
          simp [List.mem_filter, hin]
        rw [hnf] at this; simp at this
  · intro h
    cases hnf : List.filter (fun p => !p.2) (dictKVs π (arms.foldl (fun d a => dictAdd d a true)
        (dictToDict (cases.map (fun c => (c, false))) : GoMap String Bool))) with
    | nil => rfl
    | cons e rest =>
      exfalso
      have hmem : e ∈ List.filter (fun p => !p.2) (dictKVs π (arms.foldl (fun d a => dictAdd d a true)
          (dictToDict (cases.map (fun c => (c, false))) : GoMap String Bool))) := by rw [hnf]; simp
      obtain ⟨k, b⟩ := e
      rw [List.mem_filter] at hmem
      obtain ⟨hin, hb⟩ := hmem
      simp at hb; subst hb
      rw [key, marked_get] at hin
      by_cases hm : k ∈ arms
      · simp [hm] at hin
      · by_cases hc : k ∈ cases
        · exact hm (h k hc)
        · simp [hm, hc] at hin

/-- **C09.** accepted iff there is at least one arm and (a default arm follows or every case is named) -/
theorem accept_iff (cases arms : List String) (dflt : Bool) :
    accepts π cases arms dflt = true ↔ arms ≠ [] ∧ (dflt = true ∨ ∀ c ∈ cases, c ∈ arms) := by
  unfold accepts Exhaust.decide
  cases arms with
  | nil => simp
  | cons a rest =>
    cases dflt with
    | true => simp
    | false =>
      simp only [Bool.false_eq_true, if_false, beq_iff_eq, ne_eq, reduceCtorEq, not_false_eq_true, true_and, false_or]
      exact exaustiveCheck_accept_iff π hπ cases (a :: rest)

/-- the diagnostic of a non-exhaustive match names a case of the union that no arm covers,
whatever order the dictionary is enumerated in -/
theorem diag_names_uncovered (cases arms : List String) (msg : String)
    (h : exaustiveCheck π cases arms = .reject msg) :
    ∃ c ∈ cases, c ∉ arms ∧ msg = "match does not cover all cases. Can't find case: " ++ c ++ "." := by
  unfold exaustiveCheck at h
  simp only at h
  cases hnf : List.filter (fun p => !p.2) (dictKVs π (arms.foldl (fun d a => dictAdd d a true)
      (dictToDict (cases.map (fun c => (c, false))) : GoMap String Bool))) with
  | nil => rw [hnf] at h; cases h
  | cons e rest =>
    rw [hnf] at h
    obtain ⟨k, b⟩ := e
    simp only [Verdict.reject.injEq] at h
    have hmem : (k, b) ∈ List.filter (fun p => !p.2) (dictKVs π (arms.foldl (fun d a => dictAdd d a true)
        (dictToDict (cases.map (fun c => (c, false))) : GoMap String Bool))) := by rw [hnf]; simp
    rw [List.mem_filter] at hmem
    obtain ⟨hin, hb⟩ := hmem
    simp at hb; subst hb
    rw [kvs_enumerates π hπ _ (marked_wf cases arms), marked_get] at hin
    by_cases hm : k ∈ arms
    · simp [hm] at hin
    · by_cases hc : k ∈ cases
      · exact ⟨k, hc, hm, h.symm⟩
      · simp [hm, hc] at hin

/-- in an accepted match without default every constructor-built value is dispatched to an arm of
its own case: the emitted "never reached" panic is unreachable -/
theorem dispatch_total (cases arms : List String) (h : accepts π cases arms false = true)
    (tag : String) (ht : tag ∈ cases) :
    ∃ i, dispatch arms tag = some i ∧ arms[i]? = some tag := by
  have hcov := ((accept_iff π hπ cases arms false).mp h).2
  have hmem : tag ∈ arms := by
    rcases hcov with h' | h'
    · cases h'
    · exact h' tag ht
  unfold dispatch
  have hs : (arms.findIdx? (· == tag)).isSome := by
    rw [List.findIdx?_isSome]; simp; exact hmem
  obtain ⟨i, hi⟩ := Option.isSome_iff_exists.mp hs
  refine ⟨i, hi, ?_⟩
  have := List.findIdx?_eq_some_iff_getElem.mp hi
  obtain ⟨hlt, hp, _⟩ := this
  rw [List.getElem?_eq_getElem hlt]
  simp at hp; rw [hp]

omit hπ in
/-- non-vacuity -/
example : accepts id ["A", "B", "C"] ["C", "A", "B"] false = true ∧
    accepts id ["A", "B", "C"] ["C", "A"] false = false ∧
    accepts id ["A", "B", "C"] ["C"] true = true ∧ accepts id ["A"] [] true = false := by decide

end Folang.Props.C09
