import Folang.Model.Equal
/-
C10 — `=` / `<>` are total structural equality on first-order values.

`opEqual_iff`: for ALL Folang values a, b (any nesting of ints, strings, bools, tuples, records with
any capitalisation of field names, unions, slices) and ALL Go values ga, gb representing them
(each empty slice independently nil or non-nil), `OpEqual ga gb` does not panic and returns
`decide (a = b)`.  Hence reflexive, symmetric, transitive; `<>` is the negation.
`unfixed_*`: the witnesses that plain `cmp.Equal` (the code before the fix) violates the statement.
-/
namespace Folang.Props.C10
open Folang.Equal

deriving instance DecidableEq for FVal, FVals, FFields

theorem both_ok (x y : Bool) : both (.ok x) (.ok y) = .ok (x && y) := rfl

mutual
theorem cmp_lower : ∀ (a b : FVal), cmpEq true true (lower a) (lower b) = .ok (decide (a = b))
  | .int i, b => by cases b <;> simp [lower, cmpEq]
  | .str s, b => by cases b <;> simp [lower, cmpEq]
  | .bool x, b => by cases b <;> simp [lower, cmpEq]
  | .record n fs, b => by
    cases b with
    | record n' fs' =>
      simp only [lower, cmpEq]
      by_cases hn : n = n'
      · subst hn
        simp only [ne_eq, not_true_eq_false, if_false, cmp_lowerFields fs fs']
        congr 1; simp
      · simp [hn]
    | _ => simp [lower, cmpEq]
  | .union u c ps, b => by
    cases b with
    | union u' c' ps' =>
      simp only [lower, cmpEq, cmpVals]
      by_cases hn : [u, c] = [u', c']
      · have h1 : u = u' := by simp at hn; exact hn.1
        have h2 : c = c' := by simp at hn; exact hn.2
        subst h1; subst h2
        simp only [ne_eq, not_true_eq_false, if_false, cmp_lowerPayload ps ps', both_ok, Bool.and_true]
        congr 1; simp
      · have : ¬ (FVal.union u c ps = FVal.union u' c' ps') := by
          intro h; injection h with h1 h2 h3; exact hn (by rw [h1, h2])
        simp [hn, this, both]
    | _ => simp [lower, cmpEq]
  | .slice es, b => by
    cases b with
    | slice es' =>
      simp only [lower, cmpEq, cmp_lowerVals es es']
      congr 1; simp
    | _ => simp [lower, cmpEq]
theorem cmp_lowerVals : ∀ (as bs : FVals), cmpVals true true (lowerVals as) (lowerVals bs) = .ok (decide (as = bs))
  | .nil, bs => by cases bs <;> simp [lowerVals, cmpVals]
  | .cons h t, bs => by
    cases bs with
    | nil => simp [lowerVals, cmpVals]
    | cons h' t' =>
      simp only [lowerVals, cmpVals, cmp_lower h h', cmp_lowerVals t t', both_ok]
      congr 1; simp
theorem cmp_lowerFields : ∀ (fs gs : FFields), cmpFields true true (lowerFields fs) (lowerFields gs) = .ok (decide (fs = gs))
  | .nil, gs => by cases gs <;> simp [lowerFields, cmpFields]
  | .cons n v t, gs => by
    cases gs with
    | nil => simp [lowerFields, cmpFields]
    | cons n' v' t' =>
      simp only [lowerFields, cmpFields]
      by_cases hn : n = n'
      · subst hn
        simp only [ne_eq, not_true_eq_false, if_false, Bool.not_true, Bool.and_false, Bool.false_eq_true,
          cmp_lower v v', cmp_lowerFields t t', both_ok]
        congr 1; simp
      · simp [hn]
theorem cmp_lowerPayload : ∀ (ps qs : FVals), cmpFields true true (lowerPayload ps) (lowerPayload qs) = .ok (decide (ps = qs))
  | .nil, qs => by cases qs <;> simp [lowerPayload, cmpFields]
  | .cons h t, qs => by
    cases qs with
    | nil => simp [lowerPayload, cmpFields]
    | cons h' t' =>
      simp only [lowerPayload, cmpFields, ne_eq, not_true_eq_false, if_false, Bool.not_true, Bool.and_false,
        Bool.false_eq_true, cmp_lower h h', cmp_lowerPayload t t', both_ok]
      congr 1; simp
end

mutual
/-- with EquateEmpty, cmp.Equal cannot see whether an empty slice is nil -/
theorem cmp_norm : ∀ (g1 g2 : GoVal), cmpEq true true g1 g2 = cmpEq true true (norm g1) (norm g2)
  | .int _, g2 => by cases g2 <;> simp [norm, cmpEq]
  | .str _, g2 => by cases g2 <;> simp [norm, cmpEq]
  | .bool _, g2 => by cases g2 <;> simp [norm, cmpEq]
  | .struct n fs, g2 => by
    cases g2 with
    | struct n' fs' => simp only [norm, cmpEq, cmp_normFields fs fs']
    | _ => simp [norm, cmpEq]
  | .iface d, g2 => by
    cases g2 with
    | iface d' => simp only [norm, cmpEq, cmp_normVals d d']
    | _ => simp [norm, cmpEq]
  | .nilSlice, g2 => by
    cases g2 with
    | nilSlice => simp [norm, cmpEq, cmpVals]
    | slice e => cases e <;> simp [norm, cmpEq, cmpVals, normVals, GoVals.isEmpty]
    | _ => simp [norm, cmpEq]
  | .slice e1, g2 => by
    cases g2 with
    | nilSlice => cases e1 <;> simp [norm, cmpEq, cmpVals, normVals, GoVals.isEmpty]
    | slice e2 => simp only [norm, cmpEq, cmp_normVals e1 e2]
    | _ => simp [norm, cmpEq]
theorem cmp_normVals : ∀ (a b : GoVals), cmpVals true true a b = cmpVals true true (normVals a) (normVals b)
  | .nil, b => by cases b <;> simp [normVals, cmpVals]
  | .cons h t, b => by
    cases b with
    | nil => simp [normVals, cmpVals]
    | cons h' t' => simp only [normVals, cmpVals, cmp_norm h h', cmp_normVals t t']
theorem cmp_normFields : ∀ (a b : GoFields), cmpFields true true a b = cmpFields true true (normFields a) (normFields b)
  | .nil, b => by cases b <;> simp [normFields, cmpFields]
  | .cons n v t, b => by
    cases b with
    | nil => simp [normFields, cmpFields]
    | cons n' v' t' => simp only [normFields, cmpFields, cmp_norm v v', cmp_normFields t t']
end

/-- **C10.** `OpEqual` is total and decides structural equality of the represented values -/
theorem opEqual_iff (a b : FVal) (ga gb : GoVal) (ra : Repr a ga) (rb : Repr b gb) :
    OpEqual ga gb = .ok (decide (a = b)) := by
  unfold OpEqual
  rw [cmp_norm, ra, rb]
  exact cmp_lower a b

theorem opEqual_never_panics (a b : FVal) (ga gb : GoVal) (ra : Repr a ga) (rb : Repr b gb) :
    OpEqual ga gb ≠ .error () := by
  rw [opEqual_iff a b ga gb ra rb]; intro h; cases h

theorem opEqual_refl (a : FVal) (ga ga' : GoVal) (r : Repr a ga) (r' : Repr a ga') :
    OpEqual ga ga' = .ok true := by
  rw [opEqual_iff a a ga ga' r r']; simp

theorem opEqual_symm (a b : FVal) (ga gb : GoVal) (ra : Repr a ga) (rb : Repr b gb) :
    OpEqual ga gb = OpEqual gb ga := by
  rw [opEqual_iff a b ga gb ra rb, opEqual_iff b a gb ga rb ra]
  congr 1; exact decide_eq_decide.mpr ⟨Eq.symm, Eq.symm⟩

theorem opEqual_trans (a b c : FVal) (ga gb gc : GoVal) (ra : Repr a ga) (rb : Repr b gb) (rc : Repr c gc)
    (h1 : OpEqual ga gb = .ok true) (h2 : OpEqual gb gc = .ok true) : OpEqual ga gc = .ok true := by
  rw [opEqual_iff a b ga gb ra rb] at h1
  rw [opEqual_iff b c gb gc rb rc] at h2
  rw [opEqual_iff a c ga gc ra rc]
  have e1 : a = b := of_decide_eq_true (by injection h1)
  have e2 : b = c := of_decide_eq_true (by injection h2)
  simp [e1, e2]

theorem opNotEqual_neg (a b : FVal) (ga gb : GoVal) (ra : Repr a ga) (rb : Repr b gb) :
    OpNotEqual ga gb = .ok (!decide (a = b)) := by
  unfold OpNotEqual; rw [opEqual_iff a b ga gb ra rb]; rfl

/-! ### witnesses against the code before the fix (plain `cmp.Equal`) -/

/-- `slice.New<int> ()` (empty, non-nil) vs a Filter result with no element (nil): equal values,
but plain cmp.Equal says false -/
theorem unfixed_nil_vs_empty :
    Repr (.slice .nil) (.slice .nil) ∧ Repr (.slice .nil) .nilSlice ∧
    OpEqualUnfixed (.slice .nil) .nilSlice = .ok false := by
  refine ⟨rfl, rfl, rfl⟩

/-- a record with a lower-case field: plain cmp.Equal panics -/
theorem unfixed_lowercase_field_panics :
    OpEqualUnfixed (lower (.record "point" (.cons "x" (.int 1) .nil))) (lower (.record "point" (.cons "x" (.int 1) .nil)))
      = .error () := by
  simp [OpEqualUnfixed, lower, lowerFields, cmpEq, cmpFields, exported]

/-- non-vacuity: a nested value with a nil slice inside a record inside a union is a representation -/
example : Repr (.union "Shape" "Poly" (.cons (.record "poly" (.cons "pts" (.slice .nil) .nil)) .nil))
    (.iface (.cons (.struct ["Shape", "Poly"] (.cons "Value" (.struct ["poly"] (.cons "pts" .nilSlice .nil)) .nil)) .nil)) := rfl

end Folang.Props.C10
