import Folang.Lemmas.Literal
/-
C11 — string, raw-string and interpolated literals denote exactly their text.

A literal body is a list of pieces (`Seg`): ordinary bytes (any byte value, so multi-byte UTF-8 is
just several bytes), the escapes \n \t \\ \" , the brace escapes \{ \} , holes {name}.
For EVERY body made of well-formed pieces, every tail after the closing quote and every display
function `env` for the holes, the four theorems follow the literal through the whole pipeline
(fc scanner → ParseSInterP → emitted Go string literal → Go's unquoting → fmt.Sprintf) and show the
result is `denote env body`:
  C11_plain, C11_raw, C11_interp, C11_interp_raw.
`unfixed_*` are the witnesses for the code before fix 20818f3.
-/
namespace Folang.Props.C11
open Folang.Literal

theorem src_cons (s : Seg) (segs : List Seg) : src (s :: segs) = s.src ++ src segs := by simp [src]
theorem denote_cons (env : Bytes → Bytes) (s : Seg) (segs : List Seg) :
    denote env (s :: segs) = s.denote env ++ denote env segs := by simp [denote]

/-- stage 1 over a whole body -/
theorem scanStr_body (interp : Bool) (segs : List Seg) (wf : ∀ s ∈ segs, WFdq interp s) (rest : Bytes) :
    scanStr (src segs ++ DQ :: rest) = .ok (segs.flatMap i1dq, rest) := by
  induction segs with
  | nil => simp [src, scanStr_dq]
  | cons s segs ih =>
    rw [src_cons, List.append_assoc, L1dq interp s (wf s List.mem_cons_self), ih (fun x hx => wf x (List.mem_cons_of_mem _ hx))]
    simp [pre]

theorem scanRaw_body (interp : Bool) (segs : List Seg) (wf : ∀ s ∈ segs, WFraw interp s) (rest : Bytes) :
    scanRaw (src segs ++ BT :: rest) = .ok (segs.flatMap i1raw, rest) := by
  induction segs with
  | nil => simp [src, scanRaw_bt]
  | cons s segs ih =>
    rw [src_cons, List.append_assoc, L1raw interp s (wf s List.mem_cons_self), ih (fun x hx => wf x (List.mem_cons_of_mem _ hx))]
    simp [pre]

/-- **"..."**: the emitted Go literal `"<token text>"` evaluates to the denoted text -/
theorem C11_plain (env : Bytes → Bytes) (segs : List Seg) (wf : ∀ s ∈ segs, WFdq false s) (rest : Bytes) :
    ∃ v, scanStr (src segs ++ DQ :: rest) = .ok (v, rest) ∧ goUnquote v = some (denote env segs) := by
  refine ⟨_, scanStr_body false segs wf rest, ?_⟩
  induction segs with
  | nil => rfl
  | cons s segs ih =>
    have h1 := L3plain_dq env s (wf s List.mem_cons_self) (segs.flatMap i1dq)
    rw [List.flatMap_cons, h1, ih (fun x hx => wf x (List.mem_cons_of_mem _ hx)), denote_cons]; rfl

/-- **`...`**: exactly the bytes between the backticks -/
theorem C11_raw (env : Bytes → Bytes) (segs : List Seg) (wf : ∀ s ∈ segs, WFraw false s) (rest : Bytes) :
    ∃ v, scanRaw (src segs ++ BT :: rest) = .ok (v, rest) ∧ goUnquote v = some (denote env segs) := by
  refine ⟨_, scanRaw_body false segs wf rest, ?_⟩
  induction segs with
  | nil => rfl
  | cons s segs ih =>
    have h1 := L3plain_raw env s (wf s List.mem_cons_self) (segs.flatMap i1raw)
    rw [List.flatMap_cons, h1, ih (fun x hx => wf x (List.mem_cons_of_mem _ hx)), denote_cons]; rfl

/-- a raw body made of plain bytes denotes itself -/
theorem raw_denotes_itself (env : Bytes → Bytes) (body : Bytes) : denote env (body.map Seg.lit) = body := by
  induction body with
  | nil => rfl
  | cons b rest ih => rw [List.map_cons, denote_cons, ih]; rfl

theorem holes_eq (segs : List Seg) : holes segs = segs.flatMap holesOf := by
  induction segs with
  | nil => rfl
  | cons s segs ih => cases s <;> simp [holes, holesOf, ih]

/-- stages 2–4 over a whole body, given the stage-1 image and the per-piece lemmas -/
theorem interp_tail (env : Bytes → Bytes) (i1 i2 : Seg → Bytes) (segs : List Seg)
    (wfOr : ∀ s ∈ segs, WFdq true s ∨ WFraw true s)
    (h2 : ∀ s ∈ segs, ∀ f tail, parseInterp (f + 1) (i1 s ++ tail) = pre2 (i2 s) (holesOf s) (parseInterp f tail))
    (h3 : ∀ s ∈ segs, ∀ tail, goUnquote (i2 s ++ tail) = (goUnquote tail).map (i3 s ++ ·)) :
    parseInterp (segs.length + 1) (segs.flatMap i1) = .ok (segs.flatMap i2, holes segs) ∧
    goUnquote (segs.flatMap i2) = some (segs.flatMap i3) ∧
    sprintf (segs.flatMap i3) ((holes segs).map env) = some (denote env segs) := by
  induction segs with
  | nil => exact ⟨rfl, rfl, rfl⟩
  | cons s segs ih =>
    obtain ⟨ih2, ih3, ih4⟩ := ih (fun x hx => wfOr x (List.mem_cons_of_mem _ hx))
      (fun x hx => h2 x (List.mem_cons_of_mem _ hx)) (fun x hx => h3 x (List.mem_cons_of_mem _ hx))
    refine ⟨?_, ?_, ?_⟩
    · rw [List.flatMap_cons, List.length_cons, h2 s List.mem_cons_self, ih2, holes_eq]
      simp [pre2, holes_eq]
    · rw [List.flatMap_cons, h3 s List.mem_cons_self, ih3]; rfl
    · have := L4 env s (wfOr s List.mem_cons_self) (segs.flatMap i3) ((holes segs).map env)
      rw [List.flatMap_cons, holes_eq, List.flatMap_cons, List.map_append, ← holes_eq, this, ih4, denote_cons]; rfl

/-- **$"..."**: token text → (format, hole names) → Go literal → Sprintf gives the denoted text, with
the holes filled, in order, by the display strings of the named values -/
theorem C11_interp (env : Bytes → Bytes) (segs : List Seg) (wf : ∀ s ∈ segs, WFdq true s) (rest : Bytes) :
    ∃ v fmt f2, scanStr (src segs ++ DQ :: rest) = .ok (v, rest) ∧
      parseInterp (segs.length + 1) v = .ok (fmt, holes segs) ∧
      goUnquote fmt = some f2 ∧ sprintf f2 ((holes segs).map env) = some (denote env segs) := by
  obtain ⟨h2, h3, h4⟩ := interp_tail env i1dq i2dq segs (fun s hs => .inl (wf s hs))
    (fun s hs f tail => L2dq s (wf s hs) f tail) (fun s hs tail => L3dq s (wf s hs) tail)
  exact ⟨_, _, _, scanStr_body true segs wf rest, h2, h3, h4⟩

/-- **$`...`** -/
theorem C11_interp_raw (env : Bytes → Bytes) (segs : List Seg) (wf : ∀ s ∈ segs, WFraw true s) (rest : Bytes) :
    ∃ v fmt f2, scanRaw (src segs ++ BT :: rest) = .ok (v, rest) ∧
      parseInterp (segs.length + 1) v = .ok (fmt, holes segs) ∧
      goUnquote fmt = some f2 ∧ sprintf f2 ((holes segs).map env) = some (denote env segs) := by
  obtain ⟨h2, h3, h4⟩ := interp_tail env i1raw i2raw segs (fun s hs => .inr (wf s hs))
    (fun s hs f tail => L2raw s (wf s hs) f tail) (fun s hs tail => L3raw s (wf s hs) tail)
  exact ⟨_, _, _, scanRaw_body true segs wf rest, h2, h3, h4⟩

/-! ### witnesses: the code before fix 20818f3 -/

/-- ParseSInterP as it was: `%` and `\{` `\}` passed through -/
def parseInterpUnfixed : (fuel : Nat) → Bytes → Except Err (Bytes × List Bytes)
  | 0, _ => .error .index
  | _ + 1, [] => .ok ([], [])
  | fuel + 1, c :: rest =>
    if c = BS then
      match rest with
      | [] => .error .escapeAtEnd
      | c2 :: rest' => pre2 [BS, c2] [] (parseInterpUnfixed fuel rest')
    else if c = LBR then
      match takeName rest with
      | .error e => .error e
      | .ok (name, rest') => pre2 [PC, Ls] [name] (parseInterpUnfixed fuel rest')
    else pre2 [c] [] (parseInterpUnfixed fuel rest)

/-- `$"100% {n}"` with n displayed as "5": the old format "100% %s" is not a %s/%% format -/
theorem unfixed_percent :
    let body : Bytes := [49, 48, 48, 37, 32, 123, 110, 125]
    ∃ fmt vs, parseInterpUnfixed 20 body = .ok (fmt, vs) ∧ sprintf fmt [[53]] = none := by
  refine ⟨[49, 48, 48, 37, 32, 37, 115], [[110]], by rfl, by decide⟩

/-- `$"\{x\}"`: the old format contains `\{`, which Go rejects -/
theorem unfixed_brace_escape :
    let body : Bytes := [92, 123, 120, 92, 125]
    ∃ fmt vs, parseInterpUnfixed 20 body = .ok (fmt, vs) ∧ goUnquote fmt = none := by
  refine ⟨[92, 123, 120, 92, 125], [], by rfl, by decide⟩

/-- non-vacuity: `$"a%\{{n}\}\n"` is a well-formed body with every kind of piece -/
example : ∀ s ∈ [Seg.lit 97, .lit PC, .brace LBR, .hole [110], .brace RBR, .esc Ln], WFdq true s := by
  intro s hs
  simp only [List.mem_cons, List.mem_nil_iff, or_false] at hs
  rcases hs with h | h | h | h | h | h <;> subst h <;> simp [WFdq, LBR, RBR, PC, DQ, BS, Ln, identByte]

end Folang.Props.C11
