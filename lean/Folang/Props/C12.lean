import Folang.Lemmas.SliceFuncs
import Folang.Model.SliceHistory
/-
C12 — no slice-package call changes an existing slice value.

`step_frame`  : one call, any op, any growth policy: every pool value stays valid and keeps its
                contents; the pool only grows at the end.
`history_frame`: for every history `pre ++ post` (any length, any interleaving of calls on sources,
                results and siblings, a different growth policy at every call), every value that is in
                the pool after `pre` is still there after `post` with exactly the contents it had.
`pushLast_unfixed_violates`: the witness that the statement is FALSE for the code before the fix
                (`append(s, elem)`), on the concrete history from DESIGN.md §C12.
-/
set_option linter.unusedSectionVars false
namespace Folang.Props.C12
open Folang.GoSlice
variable {α : Type} [Inhabited α] [DecidableEq α]

/-- every pool value is a valid slice header of the heap -/
def Inv (s : HState α) : Prop := ∀ v ∈ s.pool, Valid s.heap v

/-- `s'` is a later state of `s`: the pool is extended at the end, every old value is still valid
and reads the same -/
def Later (s s' : HState α) : Prop :=
  (∃ rest, s'.pool = s.pool ++ rest) ∧ Ext s.heap s'.heap

theorem Later.refl (s : HState α) : Later s s := ⟨⟨[], by simp⟩, Ext.refl _⟩

theorem Later.trans {a b c : HState α} (x : Later a b) (y : Later b c) : Later a c := by
  obtain ⟨⟨r1, e1⟩, x2⟩ := x
  obtain ⟨⟨r2, e2⟩, y2⟩ := y
  exact ⟨⟨r1 ++ r2, by rw [e2, e1, List.append_assoc]⟩, x2.trans y2⟩

theorem Inv.get {s : HState α} (inv : Inv s) (i : Nat) : Valid s.heap (s.get i) := by
  unfold HState.get
  rcases Nat.lt_or_ge i s.pool.length with hi | hi
  · simp only [List.getD, List.getElem?_eq_getElem hi, Option.getD_some]; exact inv _ (List.getElem_mem hi)
  · simp only [List.getD, List.getElem?_eq_none hi, Option.getD_none]; trivial

theorem push_frame {s : HState α} (inv : Inv s) (r : Except Panic (St α)) (spec : List α)
    (p : Post s.heap r spec) : Inv (s.push r) ∧ Later s (s.push r) := by
  obtain ⟨v, h', e, ex, vv, _⟩ := p
  subst e
  refine ⟨?_, ⟨[v], rfl⟩, ex⟩
  intro x hx
  simp only [HState.push, List.mem_append, List.mem_singleton] at hx
  rcases hx with hx | hx
  · exact valid_ext ex (inv x hx)
  · subst hx; exact vv

theorem push_error {s : HState α} (inv : Inv s) (p : Panic) :
    Inv (s.push (.error p)) ∧ Later s (s.push (.error p)) := ⟨inv, Later.refl s⟩

theorem push_frame_or_panic {s : HState α} (inv : Inv s) (r : Except Panic (St α))
    (p : (∃ e, r = .error e) ∨ ∃ spec, Post s.heap r spec) : Inv (s.push r) ∧ Later s (s.push r) := by
  rcases p with ⟨e, rfl⟩ | ⟨spec, p⟩
  · exact push_error inv e
  · exact push_frame inv r spec p

theorem pushPure_frame {s : HState α} (inv : Inv s) (r : Except Panic Slice)
    (p : ∀ v, r = .ok v → Valid s.heap v) : Inv (s.pushPure r) ∧ Later s (s.pushPure r) := by
  cases r with
  | error e => exact ⟨inv, Later.refl s⟩
  | ok v =>
    refine ⟨?_, ⟨[v], rfl⟩, Ext.refl _⟩
    intro x hx
    simp only [HState.pushPure, List.mem_append, List.mem_singleton] at hx
    rcases hx with hx | hx
    · exact inv x hx
    · subst hx; exact p _ rfl

/-- one call of any slice function, under any growth policy -/
theorem step_frame (s : HState α) (gop : Growth × Op α) (inv : Inv s) :
    Inv (step s gop) ∧ Later s (step s gop) := by
  obtain ⟨g, op⟩ := gop
  cases op with
  | new => exact push_frame inv _ _ (New_post s.heap)
  | tail i =>
    apply pushPure_frame inv
    intro v hv
    by_cases h0 : (s.get i).len = 0
    · rw [Tail_panics _ h0] at hv; cases hv
    · obtain ⟨r, e, vr, _⟩ := Tail_ok s.heap _ (inv.get i) h0
      rw [e] at hv; cases hv; exact vr
  | popLast i =>
    apply pushPure_frame inv
    intro v hv
    by_cases h0 : (s.get i).len = 0
    · rw [PopLast_panics _ h0] at hv; cases hv
    · obtain ⟨r, e, vr, _⟩ := PopLast_ok s.heap _ (inv.get i) h0
      rw [e] at hv; cases hv; exact vr
  | take n i =>
    apply push_frame_or_panic inv
    rcases Nat.lt_or_ge (s.get i).len n.toNat with hlt | hge
    · exact .inl ⟨_, Take_panics g s.heap n _ (inv.get i) hlt⟩
    · exact .inr ⟨_, Take_post g s.heap n _ (inv.get i) hge⟩
  | skip n i =>
    by_cases hn : n < 0
    · simp only [step, Skip_neg g s.heap n _ hn]
      exact push_error inv _
    · exact push_frame inv _ _ (Skip_post g s.heap n _ (inv.get i) (by omega))
  | map f i => exact push_frame inv _ _ (Map_post g f s.heap _ (inv.get i))
  | mapi f i => exact push_frame inv _ _ (Mapi_post g f s.heap _ (inv.get i))
  | filter p i => exact push_frame inv _ _ (Filter_post g p s.heap _ (inv.get i))
  | sortWith srt i => exact push_frame inv _ _ (SortWith_post' g srt s.heap _ (inv.get i))
  | zip mk i j =>
    apply push_frame_or_panic inv
    by_cases hl : (s.get i).len = (s.get j).len
    · exact .inr ⟨_, Zip_post g mk s.heap _ _ (inv.get i) (inv.get j) hl⟩
    · exact .inl ⟨_, Zip_panics g mk s.heap _ _ hl⟩
  | pushLast e i => exact push_frame inv _ _ (PushLast_post g s.heap e _ (inv.get i))
  | pushHead e i => exact push_frame inv _ _ (PushHead_post g s.heap e _ (inv.get i))
  | collect f i =>
    exact push_frame inv _ _ (Collect_post g _ s.heap _ (inv.get i) (fun e => inv.get (f e)))
  | concat is =>
    refine push_frame inv _ _ (Concat_post g s.heap _ ?_)
    intro x hx
    obtain ⟨k, _, rfl⟩ := List.mem_map.mp hx
    exact inv.get k
  | append i j => exact push_frame inv _ _ (Append_post g s.heap _ _ (inv.get i) (inv.get j))
  | distinct i => exact push_frame inv _ _ (Distinct_post g s.heap _ (inv.get i))

theorem run_frame (ops : List (Growth × Op α)) :
    ∀ s : HState α, Inv s → Inv (run s ops) ∧ Later s (run s ops) := by
  induction ops with
  | nil => intro s inv; exact ⟨inv, Later.refl s⟩
  | cons op rest ih =>
    intro s inv
    obtain ⟨i1, l1⟩ := step_frame s op inv
    obtain ⟨i2, l2⟩ := ih (step s op) i1
    exact ⟨i2, l1.trans l2⟩

theorem init_inv : Inv (HState.init : HState α) := by
  intro v hv; simp [HState.init] at hv

/-- **C12.** Every slice value a program holds keeps the contents it had when it was produced:
after any history `pre`, run any further history `post`; the `k`-th pool value is the same header
and reads exactly the same contents. -/
theorem history_frame (pre post : List (Growth × Op α)) (k : Nat)
    (hk : k < (run (HState.init : HState α) pre).pool.length) :
    let s1 := run (HState.init : HState α) pre
    let s2 := run s1 post
    s2.pool[k]? = s1.pool[k]? ∧ read s2.heap (s1.get k) = read s1.heap (s1.get k) := by
  intro s1 s2
  obtain ⟨inv1, _⟩ := run_frame pre (HState.init : HState α) init_inv
  obtain ⟨_, ⟨rest, hp⟩, ex⟩ := run_frame post s1 inv1
  refine ⟨?_, read_ext ex (inv1.get k)⟩
  show (run s1 post).pool[k]? = s1.pool[k]?
  rw [hp, List.getElem?_append_left hk]

/-- the same with the history given as one list and a cut point -/
theorem history_frame_cut (ops : List (Growth × Op α)) (n k : Nat)
    (hk : k < (run (HState.init : HState α) (ops.take n)).pool.length) :
    let s1 := run (HState.init : HState α) (ops.take n)
    let s2 := run (HState.init : HState α) ops
    read s2.heap (s1.get k) = read s1.heap (s1.get k) := by
  intro s1 s2
  have := (history_frame (ops.take n) (ops.drop n) k hk).2
  simp only [run, ← List.foldl_append, List.take_append_drop] at this
  exact this

/-! ### The witness: before the fix (`PushLast = append(s, elem)`) the property is false -/

/-- `s = [1 2 3 4 5]` in an array with one spare cell; `a = PushLast 10 s`; `b = PushLast 20 s`:
the second call overwrites the cell `a` owns, so `a` now reads `[1 2 3 4 5 20]`. -/
theorem pushLast_unfixed_violates :
    let g : Growth := fun _ n => n
    let h0 : Heap Nat := [[1, 2, 3, 4, 5, 0]]
    let s : Slice := .mk 0 0 5 6
    ∃ a h1 b h2, PushLastUnfixed g h0 10 s = .ok (a, h1) ∧ PushLastUnfixed g h1 20 s = .ok (b, h2) ∧
      read h1 a = [1, 2, 3, 4, 5, 10] ∧ read h2 a = [1, 2, 3, 4, 5, 20] := by
  refine ⟨.mk 0 0 6 6, [[1, 2, 3, 4, 5, 10]], .mk 0 0 6 6, [[1, 2, 3, 4, 5, 20]], ?_, ?_, ?_, ?_⟩ <;> rfl

/-- the fixed `PushLast` on the same history keeps `a` intact (instance of `history_frame`) -/
example :
    let g : Growth := fun _ n => n
    let h0 : Heap Nat := [[1, 2, 3, 4, 5, 0]]
    let s : Slice := .mk 0 0 5 6
    ∃ a h1 b h2, PushLast g h0 10 s = .ok (a, h1) ∧ PushLast g h1 20 s = .ok (b, h2) ∧
      read h1 a = [1, 2, 3, 4, 5, 10] ∧ read h2 a = [1, 2, 3, 4, 5, 10] := by
  refine ⟨.mk 1 0 6 6, [[1, 2, 3, 4, 5, 0], [1, 2, 3, 4, 5, 10]], .mk 2 0 6 6,
    [[1, 2, 3, 4, 5, 0], [1, 2, 3, 4, 5, 10], [1, 2, 3, 4, 5, 20]], ?_, ?_, ?_, ?_⟩ <;> rfl

/-- non-vacuity: a history whose pool really contains aliasing values (a Tail of a Map result) -/
example :
    let g : Growth := fun c n => 2 * c + n
    let ops : List (Growth × Op Nat) :=
      [(g, .new), (g, .pushLast 1 0), (g, .pushLast 2 1), (g, .map (· + 1) 2), (g, .tail 3), (g, .pushLast 9 4)]
    (run HState.init ops).pool.length = 6 ∧ read (run HState.init ops).heap ((run HState.init ops).get 5) = [3, 9] := by
  decide

end Folang.Props.C12
