import Folang.Generated.SliceFacts
/-
Obligations over facts regenerated from /repo/pkg/slice/slice.go on every run:
* the inventory of exported functions (with arities) is exactly the set that is modelled in
  Model/GoSlice.lean — a new or re-shaped function has no frame/spec theorem and fails here;
* the aliasing-relevant statements of every function (append targets, stores, in-place mutators,
  re-slicing returns, with parameters/locals canonically renamed) are exactly the ones the model
  transcribes — e.g. `append(s, elem)` instead of `append(s[:len(s):len(s)], elem)` fails here.
-/
namespace Folang.Props.C12

def modelledFuncs : List (String × Nat × Nat × Nat) := [
  ("Append", 1, 2, 1), ("Collect", 2, 2, 1), ("Concat", 1, 1, 1), ("Distinct", 1, 1, 1),
  ("Filter", 1, 2, 1), ("Fold", 2, 3, 1), ("Forall", 1, 2, 1), ("Forany", 1, 2, 1),
  ("Head", 1, 1, 1), ("IsEmpty", 1, 1, 1), ("IsNotEmpty", 1, 1, 1), ("Item", 1, 2, 1),
  ("Iter", 1, 2, 0), ("Last", 1, 1, 1), ("Len", 1, 1, 1), ("Length", 1, 1, 1),
  ("Map", 2, 2, 1), ("Mapi", 2, 2, 1), ("New", 1, 0, 1), ("PopLast", 1, 1, 1),
  ("PushHead", 1, 2, 1), ("PushLast", 1, 2, 1), ("Skip", 1, 2, 1), ("Sort", 1, 1, 1),
  ("SortBy", 2, 2, 1), ("Tail", 1, 1, 1), ("Take", 1, 2, 1), ("TryFind", 1, 2, 1), ("Zip", 2, 2, 1)]

def modelledShapes : List (String × List String) := [
  ("Append", ["nil:v0", "append:v0", "append:v0"]),
  ("Collect", ["nil:v0", "range:p1", "init:v2:p0(v1)", "append:v0"]),
  ("Concat", ["nil:v0", "range:p0", "append:v0"]),
  ("Distinct", ["init:v0:make(map[T]bool)", "init:v1:[]T{}", "range:p0", "append:v1", "store:v0"]),
  ("Filter", ["nil:v0", "range:p1", "append:v0"]),
  ("Fold", ["range:p2"]),
  ("Forall", ["range:p1"]),
  ("Forany", ["range:p1"]),
  ("Head", []), ("IsEmpty", []), ("IsNotEmpty", []), ("Item", []),
  ("Iter", ["range:p1"]),
  ("Last", []), ("Len", []), ("Length", []),
  ("Map", ["nil:v0", "range:p1", "append:v0"]),
  ("Mapi", ["nil:v0", "range:p1", "append:v0"]),
  ("New", []),
  ("PopLast", ["return:p0[0:(len(p0) - 1)]"]),
  ("PushHead", ["init:v0:[]T{p0}", "append:v0"]),
  ("PushLast", ["append:p1[:len(p1):len(p1)]"]),
  ("Skip", ["nil:v0", "append:v0"]),
  ("Sort", ["init:v0:append(p0[:0:0], p0...)", "append:p0[:0:0]", "mutate:slices.SortFunc:v0"]),
  ("SortBy", ["init:v0:append(p1[:0:0], p1...)", "append:p1[:0:0]", "mutate:slices.SortFunc:v0"]),
  ("Tail", ["return:p0[1:]"]),
  ("Take", ["nil:v0", "append:v0"]),
  ("TryFind", ["range:p1"]),
  ("Zip", ["nil:v0", "range:p0", "append:v0"])]

theorem fact_sliceFuncs : Folang.Generated.sliceFuncs = modelledFuncs := by decide

theorem fact_sliceShapes : Folang.Generated.sliceShapes = modelledShapes := by decide

end Folang.Props.C12
