import Folang.Lemmas.SliceFuncs
import Folang.Spec.SliceSpec
/-
C13 — slice library functions compute their F#-List-style specification.

Every theorem is about the statement-by-statement model of pkg/slice (Model/GoSlice.lean) on a
Go-style heap, for ALL heaps, ALL valid slice values (any offset / length / capacity), ALL element
types, ALL callbacks and ALL growth policies of `append`.  `Post h res spec` says: the call returns
normally, changes no existing array (`Ext`), and the returned slice value is valid and holds
exactly `spec`.  Domain guards are the ones the Go code has; outside them the panic is proved.
-/
set_option linter.unusedSectionVars false
namespace Folang.Props.C13
open Folang.GoSlice Folang.Spec
variable {α : Type} [Inhabited α] (g : Growth) (h : Heap α)

/-! Map / Mapi / Filter / Collect / Concat / Append preserve order -/
theorem map_spec (f : α → α) (s : Slice) (v : Valid h s) :
    Post h (Map g f h s) ((read h s).map f) := Map_post g f h s v
theorem mapi_spec (f : Int → α → α) (s : Slice) (v : Valid h s) :
    Post h (Mapi g f h s) ((read h s).mapIdx (fun i e => f i e)) := Mapi_post g f h s v
theorem filter_spec (p : α → Bool) (s : Slice) (v : Valid h s) :
    Post h (Filter g p h s) ((read h s).filter p) := Filter_post g p h s v
theorem collect_spec (f : α → Slice) (s : Slice) (v : Valid h s) (vf : ∀ e, Valid h (f e)) :
    Post h (Collect g f h s) ((read h s).flatMap (fun e => read h (f e))) := Collect_post g f h s v vf
theorem concat_spec (ss : List Slice) (vs : ∀ s ∈ ss, Valid h s) :
    Post h (.ok (Concat g h ss)) (ss.map (read h)).flatten := by
  have := Concat_post g h ss vs
  rwa [List.flatMap_def] at this
theorem append_spec (s1 s2 : Slice) (v1 : Valid h s1) (v2 : Valid h s2) :
    Post h (.ok (Append g h s1 s2)) (read h s1 ++ read h s2) := Append_post g h s1 s2 v1 v2

/-! Take n / Skip n split a slice at n -/
theorem take_spec (n : Int) (s : Slice) (v : Valid h s) (hn : n.toNat ≤ s.len) :
    Post h (Take g h n s) ((read h s).take n.toNat) := Take_post g h n s v hn
theorem take_panics (n : Int) (s : Slice) (v : Valid h s) (hn : s.len < n.toNat) :
    Take g h n s = .error .index := Take_panics g h n s v hn
theorem skip_spec (n : Int) (s : Slice) (v : Valid h s) (hn : 0 ≤ n) :
    Post h (Skip g h n s) ((read h s).drop n.toNat) := Skip_post g h n s v hn
theorem skip_negative (n : Int) (s : Slice) (hn : n < 0) :
    Skip g h n s = .error .index := Skip_neg g h n s hn

/-- Take n ++ Skip n = the slice, for `0 ≤ n ≤ len` -/
theorem take_append_skip (n : Int) (s : Slice) (v : Valid h s) (h0 : 0 ≤ n) (hn : n.toNat ≤ s.len) :
    ∃ r1 h1 r2 h2, Take g h n s = .ok (r1, h1) ∧ Skip g h n s = .ok (r2, h2) ∧
      read h1 r1 ++ read h2 r2 = read h s := by
  obtain ⟨r1, h1, e1, _, _, rd1⟩ := take_spec g h n s v hn
  obtain ⟨r2, h2, e2, _, _, rd2⟩ := skip_spec g h n s v h0
  exact ⟨r1, h1, r2, h2, e1, e2, by rw [rd1, rd2, List.take_append_drop]⟩

/-! Head / Tail / Last / PopLast / PushHead / PushLast / Item address the ends and indices -/
theorem head_spec (s : Slice) (v : Valid h s) (hne : s.len ≠ 0) :
    ∃ e, Head h s = .ok e ∧ (read h s).head? = some e := by
  obtain ⟨e, he, he'⟩ := getAt_some_of_lt v (i := 0) (by omega)
  refine ⟨e, by simp [Head, hne, he], ?_⟩
  rw [List.head?_eq_getElem?]; exact he'
theorem head_panics (s : Slice) (he : s.len = 0) :
    Head h s = .error (.msg "call Head to empty list") := by simp [Head, he]
theorem last_spec (s : Slice) (v : Valid h s) (hne : s.len ≠ 0) :
    ∃ e, Last h s = .ok e ∧ (read h s).getLast? = some e := by
  obtain ⟨e, he, he'⟩ := getAt_some_of_lt v (i := s.len - 1) (by omega)
  refine ⟨e, by simp [Last, hne, he], ?_⟩
  rw [List.getLast?_eq_getElem?, read_length v]; exact he'
theorem last_panics (s : Slice) (he : s.len = 0) : Last h s = .error .index := by simp [Last, he]
theorem item_spec (i : Int) (s : Slice) (v : Valid h s) (h0 : 0 ≤ i) (hi : i.toNat < s.len) :
    ∃ e, Item h i s = .ok e ∧ (read h s)[i.toNat]? = some e := by
  obtain ⟨e, he, he'⟩ := getAt_some_of_lt v hi
  exact ⟨e, by simp [Item, show ¬ i < 0 by omega, he], he'⟩
theorem item_panics (i : Int) (s : Slice) (v : Valid h s) (hi : i < 0 ∨ s.len ≤ i.toNat) :
    Item h i s = .error .index := by
  by_cases hneg : i < 0
  · simp [Item, hneg]
  · have : s.len ≤ i.toNat := by omega
    simp [Item, hneg, getAt_none_of_ge v this]
theorem tail_spec (s : Slice) (v : Valid h s) (hne : s.len ≠ 0) :
    ∃ r, Tail s = .ok r ∧ Valid h r ∧ read h r = (read h s).tail := by
  obtain ⟨r, e, vr, rd⟩ := Tail_ok h s v hne
  exact ⟨r, e, vr, by rw [rd, List.drop_one]⟩
theorem tail_panics (s : Slice) (he : s.len = 0) :
    Tail s = .error (.msg "call Tail to empty list") := Tail_panics s he
theorem popLast_spec (s : Slice) (v : Valid h s) (hne : s.len ≠ 0) :
    ∃ r, PopLast s = .ok r ∧ Valid h r ∧ read h r = (read h s).dropLast := PopLast_ok h s v hne
theorem popLast_panics (s : Slice) (he : s.len = 0) : PopLast s = .error .index := PopLast_panics s he
theorem pushLast_spec (e : α) (s : Slice) (v : Valid h s) :
    Post h (PushLast g h e s) (read h s ++ [e]) := PushLast_post g h e s v
theorem pushHead_spec (e : α) (s : Slice) (v : Valid h s) :
    Post h (PushHead g h e s) (e :: read h s) := PushHead_post g h e s v
theorem new_spec : Post h (.ok (New h)) ([] : List α) := New_post h

/-! Zip pairs positionally -/
theorem zip_spec (mk : α → α → α) (s1 s2 : Slice) (v1 : Valid h s1) (v2 : Valid h s2)
    (hl : s1.len = s2.len) :
    Post h (Zip g mk h s1 s2) (List.zipWith mk (read h s1) (read h s2)) := Zip_post g mk h s1 s2 v1 v2 hl
theorem zip_panics (mk : α → α → α) (s1 s2 : Slice) (hl : s1.len ≠ s2.len) :
    Zip g mk h s1 s2 = .error (.msg "zip with different length slices.") := Zip_panics g mk h s1 s2 hl

/-! Fold is a left fold; Forall / Forany / TryFind scan left to right -/
theorem fold_spec {σ : Type} (folder : σ → α → σ) (ini : σ) (s : Slice) (v : Valid h s) :
    Fold folder ini h s = .ok ((read h s).foldl folder ini) := by
  have := foldLoop_eq h s v folder s.len 0 ini (by omega)
  simpa [Fold] using this
theorem iter_spec {ε : Type} (action : α → ε) (s : Slice) (v : Valid h s) :
    Iter action h s = .ok ((read h s).map action) := by
  have := foldLoop_eq h s v (fun tr e => tr ++ [action e]) s.len 0 [] (by omega)
  simp only [Iter, this, List.drop_zero]
  congr 1
  generalize read h s = l
  have : ∀ acc : List ε, l.foldl (fun tr e => tr ++ [action e]) acc = acc ++ l.map action := by
    induction l with
    | nil => intro acc; simp
    | cons x xs ih => intro acc; simp [ih]
  simpa using this []
theorem forall_spec (p : α → Bool) (s : Slice) (v : Valid h s) :
    Forall p h s = .ok ((read h s).all p) := by
  have := scanLoop_eq h s v (fun e => if !p e then some false else none) s.len 0 (by omega)
  simp only [Forall, this, List.drop_zero]
  generalize read h s = l
  induction l with
  | nil => rfl
  | cons x xs ih =>
    simp only [List.findSome?_cons, List.all_cons]
    cases hp : p x <;> simp_all
theorem forany_spec (p : α → Bool) (s : Slice) (v : Valid h s) :
    Forany p h s = .ok ((read h s).any p) := by
  have := scanLoop_eq h s v (fun e => if p e then some true else none) s.len 0 (by omega)
  simp only [Forany, this, List.drop_zero]
  generalize read h s = l
  induction l with
  | nil => rfl
  | cons x xs ih =>
    simp only [List.findSome?_cons, List.any_cons]
    cases hp : p x <;> simp_all
theorem tryFind_spec (p : α → Bool) (s : Slice) (v : Valid h s) :
    TryFind p h s = .ok (match (read h s).find? p with | some e => (e, true) | none => (default, false)) := by
  have := scanLoop_eq h s v (fun e => if p e then some (e, true) else none) s.len 0 (by omega)
  simp only [TryFind, this, List.drop_zero]
  generalize read h s = l
  induction l with
  | nil => rfl
  | cons x xs ih =>
    simp only [List.findSome?_cons, List.find?_cons]
    cases hp : p x <;> simp_all

/-! Sort and SortBy return an ascending permutation of the input (given the contract of
`slices.SortFunc`, which is a parameter of the model) -/
theorem sort_sorted_perm {κ : Type} (le : κ → κ → Prop) (key : α → κ) (srt : List α → List α)
    (hs : IsSorter le key srt) (s : Slice) (v : Valid h s) :
    ∃ r h', SortWith g srt h s = .ok (r, h') ∧ Ext h h' ∧ Valid h' r ∧
      (read h' r).Perm (read h s) ∧ (read h' r).Pairwise (fun a b => le (key a) (key b)) := by
  obtain ⟨r, h', e, ex, vr, rd⟩ := SortWith_post g srt (hs.length) h s v
  exact ⟨r, h', e, ex, vr, by rw [rd]; exact hs.perm _, by rw [rd]; exact hs.sorted _⟩

/-! Distinct keeps first occurrences in order -/
theorem distinctAux_eq [DecidableEq α] (l : List α) :
    ∀ seen : List α, distinctAux seen l = (firstOcc l).filter (fun y => decide (y ∉ seen)) := by
  induction l with
  | nil => intro seen; rfl
  | cons x xs ih =>
    intro seen
    simp only [distinctAux, firstOcc]
    by_cases hm : x ∈ seen
    · simp only [hm, if_true, ih, List.filter_cons, not_true_eq_false, decide_false, Bool.false_eq_true,
        if_false, List.filter_filter]
      congr 1; funext y
      by_cases hy : y = x
      · subst hy; simp [hm]
      · simp [hy]
    · simp only [hm, if_false, ih, List.filter_cons, not_false_eq_true, decide_true, if_true,
        List.filter_filter]
      congr 2; funext y
      by_cases hy : y = x
      · subst hy; simp
      · simp [hy]

theorem distinct_spec [DecidableEq α] (s : Slice) (v : Valid h s) :
    Post h (Distinct g h s) (firstOcc (read h s)) := by
  refine (Distinct_post g h s v).congr_spec ?_
  rw [distinctAux_eq]; simp

theorem firstOcc_nodup [DecidableEq α] (l : List α) : (firstOcc l).Nodup := by
  induction l with
  | nil => simp [firstOcc]
  | cons x xs ih =>
    simp only [firstOcc, List.nodup_cons]
    exact ⟨by simp, ih.filter _⟩

theorem mem_firstOcc [DecidableEq α] (l : List α) (a : α) : a ∈ firstOcc l ↔ a ∈ l := by
  induction l with
  | nil => simp [firstOcc]
  | cons x xs ih =>
    simp only [firstOcc, List.mem_cons, List.mem_filter, ih]
    by_cases ha : a = x <;> simp [ha]

theorem firstOcc_sublist [DecidableEq α] (l : List α) : (firstOcc l).Sublist l := by
  induction l with
  | nil => simp [firstOcc]
  | cons x xs ih =>
    simp only [firstOcc]
    exact ((List.filter_sublist).trans ih).cons_cons x

/-! Length / IsEmpty / IsNotEmpty agree with the element count -/
theorem length_spec (s : Slice) (v : Valid h s) : Length s = ((read h s).length : Int) := by
  simp [Length, read_length v]
theorem len_spec (s : Slice) (v : Valid h s) : Len s = ((read h s).length : Int) := by
  simp [Len, read_length v]
theorem isEmpty_spec (s : Slice) (v : Valid h s) : IsEmpty s = (read h s).isEmpty := by
  have := read_length v
  cases hr : read h s with
  | nil => simp [IsEmpty, hr] at *; omega
  | cons x xs => simp [IsEmpty, hr] at *; omega
theorem isNotEmpty_spec (s : Slice) (v : Valid h s) : IsNotEmpty s = !(read h s).isEmpty := by
  have := isEmpty_spec h s v
  simp only [IsEmpty] at this
  simp only [IsNotEmpty, bne, this]

/-! non-vacuity: a concrete heap with a sub-slice in the middle of an array with spare capacity -/
example : Valid ([[10, 20, 30, 40, 50, 0, 0]] : Heap Nat) (.mk 0 1 3 5) ∧
    read ([[10, 20, 30, 40, 50, 0, 0]] : Heap Nat) (.mk 0 1 3 5) = [20, 30, 40] := by
  refine ⟨⟨by decide, by decide, by decide⟩, by decide⟩

end Folang.Props.C13
