import Folang.Model.Lib
/-
C14 — dict, strings, buf and frt helpers behave as their signatures promise.
All theorems are about Model/Lib.lean, for all keys/values/strings/operation sequences.
-/
set_option linter.unusedSectionVars false
namespace Folang.Props.C14
open Folang.Lib

/-! ## dict: refinement to a finite map `κ → Option ν` (abstraction = `GoMap.get?`) -/
section dict
variable {κ ν : Type} [DecidableEq κ]

theorem find_filter_ne (m : GoMap κ ν) (k k' : κ) (h : ¬ k' = k) :
    List.find? (fun e => decide (e.1 = k')) (List.filter (fun e => decide (e.1 ≠ k)) m) =
    List.find? (fun e => decide (e.1 = k')) m := by
  induction m with
  | nil => rfl
  | cons e rest ih =>
    by_cases he : e.1 = k
    · have hne : ¬ e.1 = k' := by rw [he]; exact fun h' => h h'.symm
      have h1 : decide (e.1 ≠ k) = false := by simp [he]
      have h2 : decide (e.1 = k') = false := by simp [hne]
      rw [List.filter_cons, h1, List.find?_cons, h2]; exact ih
    · have h1 : decide (e.1 ≠ k) = true := by simp [he]
      rw [List.filter_cons, h1]
      by_cases hk : e.1 = k'
      · have h2 : decide (e.1 = k') = true := by simp [hk]
        simp only [if_true, List.find?_cons, h2]
      · have h2 : decide (e.1 = k') = false := by simp [hk]
        simp only [if_true, List.find?_cons, h2]; exact ih

theorem find_filter_self (m : GoMap κ ν) (k : κ) :
    List.find? (fun e => decide (e.1 = k)) (List.filter (fun e => decide (e.1 ≠ k)) m) = none := by
  rw [List.find?_eq_none]
  intro x hx
  have := (List.mem_filter.mp hx).2
  simpa using this

theorem get?_set (m : GoMap κ ν) (k k' : κ) (v : ν) :
    (m.set k v).get? k' = if k' = k then some v else m.get? k' := by
  simp only [GoMap.set, GoMap.get?, List.find?_append]
  by_cases h : k' = k
  · subst h
    rw [find_filter_self]
    simp [List.find?_cons]
  · rw [find_filter_ne m k k' h]
    have : List.find? (fun e => decide (e.1 = k')) [(k, v)] = none := by
      have : decide (k = k') = false := decide_eq_false (fun h' : k = k' => h h'.symm)
      simp only [List.find?_cons, this, List.find?_nil]
    rw [this, Option.or_none]
    simp only [h, if_false]

/-- Add overwrites; other keys are untouched -/
theorem add_refines (d : GoMap κ ν) (k k' : κ) (v : ν) :
    (dictAdd d k v).get? k' = if k' = k then some v else d.get? k' := get?_set d k k' v

theorem new_refines (k : κ) : (dictNew : GoMap κ ν).get? k = none := rfl

/-- the no-duplicate-keys invariant is kept by Add, hence holds in every reachable state -/
theorem add_wf (d : GoMap κ ν) (k : κ) (v : ν) (wf : d.WF) : (dictAdd d k v).WF := by
  simp only [dictAdd, GoMap.set, GoMap.WF, List.map_append, List.map_cons, List.map_nil]
  rw [List.nodup_append]
  refine ⟨?_, by simp, ?_⟩
  · exact (List.Nodup.sublist (List.Sublist.map _ List.filter_sublist) wf)
  · intro a ha b hb
    simp at hb; subst hb
    simp only [List.mem_map, List.mem_filter] at ha
    obtain ⟨e, ⟨_, he⟩, rfl⟩ := ha
    simpa using he

theorem reachable_wf (adds : List (κ × ν)) : (dictToDict adds).WF := by
  unfold dictToDict
  have : ∀ (d : GoMap κ ν), d.WF → (adds.foldl (fun d e => dictAdd d e.1 e.2) d).WF := by
    induction adds with
    | nil => intro d h; exact h
    | cons e rest ih => intro d h; exact ih _ (add_wf d e.1 e.2 h)
  exact this _ (by simp [dictNew, GoMap.WF])

/-- ContainsKey / TryFind / Item reflect exactly the abstract map -/
theorem containsKey_refines (d : GoMap κ ν) (k : κ) : dictContainsKey d k = (d.get? k).isSome := rfl
theorem tryFind_refines [Inhabited ν] (d : GoMap κ ν) (k : κ) :
    dictTryFind d k = match d.get? k with | some v => (v, true) | none => (default, false) := rfl
/-- `Item` on a missing key is the zero value (not a failure) -/
theorem item_refines [Inhabited ν] (d : GoMap κ ν) (k : κ) : dictItem d k = (d.get? k).getD default := rfl

theorem get?_eq_some_iff (d : GoMap κ ν) (wf : d.WF) (k : κ) (v : ν) : d.get? k = some v ↔ (k, v) ∈ d := by
  induction d with
  | nil => simp [GoMap.get?]
  | cons e rest ih =>
    simp only [GoMap.WF, List.map_cons, List.nodup_cons] at wf
    simp only [GoMap.get?, List.find?_cons]
    by_cases he : e.1 = k
    · simp only [he, decide_true, Option.map_some, Option.some.injEq, List.mem_cons]
      constructor
      · intro h; left; rw [← h, ← he]
      · intro h
        rcases h with h | h
        · rw [← h]
        · exfalso; apply wf.1; rw [he]; exact List.mem_map.mpr ⟨(k, v), h, rfl⟩
    · simp only [he, decide_false, List.mem_cons]
      have := ih wf.2
      simp only [GoMap.get?] at this
      rw [this]
      constructor
      · intro h; right; exact h
      · intro h
        rcases h with h | h
        · exfalso; apply he; rw [← h]
        · exact h

/-- KVs / Keys / Values enumerate each entry exactly once, whatever order the Go map yields -/
theorem kvs_enumerates (π : List (κ × ν) → List (κ × ν)) (hπ : ∀ l, (π l).Perm l) (d : GoMap κ ν) (wf : d.WF)
    (k : κ) (v : ν) : (k, v) ∈ dictKVs π d ↔ d.get? k = some v := by
  rw [get?_eq_some_iff d wf]; exact (hπ d).mem_iff

theorem keys_nodup (π : List (κ × ν) → List (κ × ν)) (hπ : ∀ l, (π l).Perm l) (d : GoMap κ ν) (wf : d.WF) :
    (dictKeys π d).Nodup := ((hπ d).map _).nodup_iff.mpr wf

theorem keys_enumerates (π : List (κ × ν) → List (κ × ν)) (hπ : ∀ l, (π l).Perm l) (d : GoMap κ ν) (wf : d.WF)
    (k : κ) : k ∈ dictKeys π d ↔ (d.get? k).isSome := by
  simp only [dictKeys, List.mem_map]
  constructor
  · rintro ⟨⟨k', v⟩, hm, rfl⟩
    have := (get?_eq_some_iff d wf k' v).mpr ((hπ d).mem_iff.mp hm)
    simp [this]
  · intro h
    obtain ⟨v, hv⟩ := Option.isSome_iff_exists.mp h
    exact ⟨(k, v), (hπ d).mem_iff.mpr ((get?_eq_some_iff d wf k v).mp hv), rfl⟩

theorem values_perm (π : List (κ × ν) → List (κ × ν)) (hπ : ∀ l, (π l).Perm l) (d : GoMap κ ν) :
    (dictValues π d).Perm (d.map (·.2)) := (hπ d).map _

theorem kvs_length (π : List (κ × ν) → List (κ × ν)) (hπ : ∀ l, (π l).Perm l) (d : GoMap κ ν) :
    (dictKVs π d).length = d.length := (hπ d).length_eq

/-- ToDict keeps the last value per key -/
theorem toDict_last (ss : List (κ × ν)) (k : κ) :
    (dictToDict ss).get? k = (ss.reverse.find? (fun e => decide (e.1 = k))).map (·.2) := by
  unfold dictToDict
  have : ∀ (d : GoMap κ ν), (ss.foldl (fun d e => dictAdd d e.1 e.2) d).get? k =
      ((ss.reverse.find? (fun e => decide (e.1 = k))).map (·.2)).or (d.get? k) := by
    induction ss with
    | nil => intro d; simp
    | cons e rest ih =>
      intro d
      simp only [List.foldl_cons, ih, add_refines, List.reverse_cons, List.find?_append, List.find?_cons,
        List.find?_nil]
      by_cases he : e.1 = k
      · simp [he]
      · have : ¬ k = e.1 := fun h => he h.symm
        simp [he, this]
  rw [this]; simp [new_refines]

end dict

/-! ## strings -/
section strings
variable {α : Type} [DecidableEq α]

theorem concat_cons_foldl (sep : List α) (s : List α) (rest : List (List α)) :
    rest.foldl (fun acc x => acc ++ sep ++ x) s = s ++ (rest.map (fun x => sep ++ x)).flatten := by
  induction rest generalizing s with
  | nil => simp
  | cons r rs ih => simp [ih, List.append_assoc]

/-- the characterisation of `Index`: a hit at `m` splits `s` around `sep` -/
theorem goIndex_some (sep : List α) : ∀ (s : List α) (m : Nat), goIndex sep s = some m →
    s = s.take m ++ sep ++ s.drop (m + sep.length) := by
  intro s
  induction s with
  | nil =>
    intro m h
    simp only [goIndex] at h
    split at h
    · rename_i hs; subst hs; cases h; simp
    · cases h
  | cons x xs ih =>
    intro m h
    simp only [goIndex] at h
    split at h
    · rename_i hp
      cases h
      obtain ⟨t, ht⟩ := List.isPrefixOf_iff_prefix.mp hp
      rw [← ht]; simp
    · cases hi : goIndex sep xs with
      | none => rw [hi] at h; cases h
      | some j =>
        rw [hi] at h; simp at h; subst h
        have := ih j hi
        simp only [List.take_succ_cons, List.cons_append, Nat.add_right_comm j 1, List.drop_succ_cons]
        congr 1

theorem goSplitLoop_join (sep : List α) : ∀ (fuel k : Nat) (s : List α),
    Concat sep (goSplitLoop sep fuel k s) = s := by
  intro fuel
  induction fuel with
  | zero => intro k s; simp [goSplitLoop, Concat]
  | succ f ih =>
    intro k s
    cases k with
    | zero => simp [goSplitLoop, Concat]
    | succ k =>
      simp only [goSplitLoop]
      cases hi : goIndex sep s with
      | none => simp [Concat]
      | some m =>
        simp only []
        have hrec := ih k (s.drop (m + sep.length))
        have hs := goIndex_some sep s m hi
        -- Concat of (piece :: rest) = piece ++ sep ++ Concat rest, when rest ≠ []
        have hne : goSplitLoop sep f k (s.drop (m + sep.length)) ≠ [] := by
          cases f <;> cases k <;> simp [goSplitLoop] <;> split <;> simp
        obtain ⟨r0, rs, hr⟩ := List.exists_cons_of_ne_nil hne
        rw [hr] at hrec ⊢
        simp only [Concat, List.foldl_cons] at hrec ⊢
        rw [concat_cons_foldl] at hrec ⊢
        rw [List.append_assoc _ r0, hrec]; exact hs.symm

/-- `Concat sep (Split sep s) = s` for every non-empty separator -/
theorem concat_split (sep s : List α) (hsep : sep ≠ []) : Concat sep (Split sep s) = s := by
  simp only [Split, goSplit, goSplitN, hsep, if_false]
  simp only [show ((-1 : Int) = 0) = False by simp, if_false]
  exact goSplitLoop_join sep _ _ s

/-- the same for `SplitN` with any non-zero count -/
theorem concat_splitN (sep s : List α) (n : Int) (hsep : sep ≠ []) (hn : n ≠ 0) :
    Concat sep (SplitN n sep s) = s := by
  simp only [SplitN, goSplitN, hsep, hn, if_false]
  exact goSplitLoop_join sep _ _ s

/-- empty separator: the string is exploded into its characters, and joining gives it back -/
theorem concat_split_empty (s : List α) : Concat [] (Split [] s) = s := by
  simp only [Split, goSplit, goSplitN, show ((-1 : Int) = 0) = False by simp, if_false, if_true, goExplode]
  simp only [show ((-1 : Int) < 0 ∨ (-1 : Int) > (s.length : Int)) = True by simp, if_true]
  cases s with
  | nil => simp [Concat]
  | cons x xs =>
    simp only [List.length_cons, Nat.add_one_ne_zero, if_false, Nat.add_sub_cancel]
    have : ∀ (l : List α) (t : List α), Concat [] (l.map (fun c => [c]) ++ [t]) = l ++ t := by
      intro l
      induction l with
      | nil => intro t; simp [Concat]
      | cons y ys ih =>
        intro t
        have h2 := ih t
        cases hys : ys.map (fun c => [c]) ++ [t] with
        | nil => simp at hys
        | cons r rs =>
          rw [hys] at h2
          simp only [List.map_cons, List.cons_append, hys, Concat, List.foldl_cons] at h2 ⊢
          rw [concat_cons_foldl] at h2 ⊢
          simp only [List.nil_append, List.append_nil] at h2 ⊢
          simp only [List.cons_append]; rw [h2]
    rw [this]; exact List.take_append_drop _ _

/-- `SplitN 2 sep s`: cut at the first occurrence only (the form build_sample_md relies on) -/
theorem splitN2 (sep s : List α) (hsep : sep ≠ []) :
    SplitN 2 sep s = match goIndex sep s with
      | none => [s]
      | some m => [s.take m, s.drop (m + sep.length)] := by
  simp only [SplitN, goSplitN, hsep, if_false, show ((2 : Int) = 0) = False by simp,
    show ¬ ((2 : Int) < 0) by omega]
  cases s with
  | nil =>
    have : min (Int.toNat 2) 1 - 1 = 0 := by simp
    simp only [List.length_nil, Nat.zero_add, this, goSplitLoop, goIndex, hsep, if_false]
  | cons x xs =>
    have : min (Int.toNat 2) ((x :: xs).length + 1) - 1 = 1 := by simp
    rw [this]
    simp only [List.length_cons, goSplitLoop]
    cases goIndex sep (x :: xs) with
    | none => rfl
    | some m => cases xs <;> simp [goSplitLoop]


theorem hasPrefix_iff (p s : List α) : HasPrefix p s = true ↔ ∃ t, s = p ++ t := by
  simp only [HasPrefix, goHasPrefix, List.isPrefixOf_iff_prefix]
  constructor
  · rintro ⟨t, h⟩; exact ⟨t, h.symm⟩
  · rintro ⟨t, h⟩; exact ⟨t, h.symm⟩

theorem hasSuffix_iff (suf s : List α) : HasSuffix suf s = true ↔ ∃ t, s = t ++ suf := by
  simp only [HasSuffix, goHasSuffix, List.isSuffixOf_iff_suffix]
  constructor
  · rintro ⟨t, h⟩; exact ⟨t, h.symm⟩
  · rintro ⟨t, h⟩; exact ⟨t, h.symm⟩

theorem trimSuffix_append (suf t : List α) : TrimSuffix suf (t ++ suf) = t := by
  have : suf.isSuffixOf (t ++ suf) = true := List.isSuffixOf_iff_suffix.mpr ⟨t, rfl⟩
  simp [TrimSuffix, goTrimSuffix, this]

theorem trimSuffix_no_suffix (suf s : List α) (h : HasSuffix suf s = false) : TrimSuffix suf s = s := by
  simp only [HasSuffix, goHasSuffix] at h
  simp [TrimSuffix, goTrimSuffix, h]

/-- argument order: the thing being decorated comes last -/
theorem encloseWith_spec (b e c : List α) : EncloseWith b e c = b ++ c ++ e := rfl
theorem appendHead_spec (hd s : List α) : AppendHead hd s = hd ++ s := rfl
theorem appendTail_spec (tl s : List α) : AppendTail tl s = s ++ tl := rfl
theorem length_spec (s : List α) : Length s = (s.length : Int) := rfl
theorem isEmpty_spec (s : List α) : IsEmpty s = true ↔ s = [] := by simp [IsEmpty]
theorem isNotEmpty_spec (s : List α) : IsNotEmpty s = !IsEmpty s := rfl
theorem concat_spec (sep : List α) (ss : List (List α)) : Concat sep ss = List.intercalate sep ss := by
  cases ss with
  | nil => rfl
  | cons s rest =>
    simp only [Concat, concat_cons_foldl]
    induction rest generalizing s with
    | nil => simp [List.intercalate]
    | cons r rs ih =>
      have := ih r
      simp only [List.intercalate, List.intersperse, List.flatten_cons, List.map_cons] at this ⊢
      rw [← this]; simp

end strings

/-! ## buf: writes accumulate in order -/
theorem buf_accumulates {α : Type} (ws : List (List α)) :
    bufString (ws.foldl bufWrite bufNew) = ws.flatten := by
  have : ∀ b : Buffer α, ws.foldl bufWrite b = b ++ ws.flatten := by
    induction ws with
    | nil => intro b; simp
    | cons w rest ih => intro b; simp [ih, bufWrite, List.append_assoc]
  simp [bufString, this, bufNew]

/-! ## frt -/
section frt
variable {α β γ : Type}
theorem pipe_spec (x : α) (f : α → β) : Pipe x f = f x := rfl
/-- exactly the taken thunk runs (the trace and the value are the thunk's) -/
theorem ifElse_true (t f : Unit → Tr α) : IfElse true t f = t () := rfl
theorem ifElse_false (t f : Unit → Tr α) : IfElse false t f = f () := rfl
theorem ifElseUnit_true (t f : Unit → Tr Unit) : IfElseUnit true t f = t () := rfl
theorem ifElseUnit_false (t f : Unit → Tr Unit) : IfElseUnit false t f = f () := rfl
theorem ifOnly_true (t : Unit → Tr Unit) : IfOnly true t = t () := rfl
/-- no branch runs: empty trace -/
theorem ifOnly_false (t : Unit → Tr Unit) : IfOnly false t = ([], ()) := rfl
theorem fst_new (a : α) (b : β) : Fst (NewTuple2 a b) = a := rfl
theorem snd_new (a : α) (b : β) : Snd (NewTuple2 a b) = b := rfl
theorem new_fst_snd (t : Tuple2 α β) : NewTuple2 (Fst t) (Snd t) = t := rfl
theorem destr2_new (a : α) (b : β) : Destr2 (NewTuple2 a b) = (a, b) := rfl
theorem destr3_new (a : α) (b : β) (c : γ) : Destr3 (NewTuple3 a b c) = (a, b, c) := rfl
theorem new_destr3 (t : Tuple3 α β γ) : NewTuple3 (Destr3 t).1 (Destr3 t).2.1 (Destr3 t).2.2 = t := rfl
end frt

/-- the kind switch as it was before fix a41e038: unsigned kinds were sent to `Value.Int` -/
def unfixedArms : List (List String × String) := [
  (["Int", "Int8", "Int16", "Int32", "Int64", "Uint", "Uint8", "Uint16", "Uint32", "Uint64", "Uintptr"], "Int"),
  (["Float32", "Float64"], "Float"), (["String"], "String")]

/-- witness: with the unfixed switch `toS` panics on `uint` -/
theorem toS_unfixed_panics : accessorOK (armOf unfixedArms "%v" "Uint") (kindClass "Uint") = false := by decide

/-- non-vacuity: a reachable dictionary with an overwritten key -/
example : (dictToDict [(1, "a"), (2, "b"), (1, "c")]).get? 1 = some "c" ∧
    (dictToDict [(1, "a"), (2, "b"), (1, "c")] : GoMap Nat String).length = 2 := by decide

example : Split [','] ['a', ',', ',', 'b'] = [['a'], [], ['b']] := by decide

end Folang.Props.C14
