import Folang.Model.Lib
import Folang.Generated.LibFacts
/-
Obligations over facts regenerated from /repo/pkg/{dict,strings,buf,frt} on every run.
-/
namespace Folang.Props.C14
open Folang.Lib

/-- **toS never panics**: for every reflect kind, the accessor the (regenerated) switch arm calls
is one reflect allows on that kind.  False before fix a41e038 (`toS_unfixed_panics`). -/
theorem toS_total : ∀ k ∈ allKinds,
    accessorOK (armOf Folang.Generated.toSArms Folang.Generated.toSDefault k) (kindClass k) = true := by decide

/-- integer kinds (signed and unsigned) are rendered through an integer accessor, floats through
Float, strings through String: what "decimal for integers, the string itself for strings" needs -/
theorem toS_classes : ∀ k ∈ allKinds,
    (kindClass k = .int → armOf Folang.Generated.toSArms Folang.Generated.toSDefault k = "Int") ∧
    (kindClass k = .uint → armOf Folang.Generated.toSArms Folang.Generated.toSDefault k = "Uint") ∧
    (kindClass k = .string → armOf Folang.Generated.toSArms Folang.Generated.toSDefault k = "String") ∧
    (kindClass k = .other → armOf Folang.Generated.toSArms Folang.Generated.toSDefault k = "%v") := by decide

def modelledDict : List (String × Nat × Nat × Nat) := [
  ("Add", 2, 3, 0), ("ContainsKey", 2, 2, 1), ("Item", 2, 2, 1), ("KVs", 2, 1, 1), ("Keys", 2, 1, 1),
  ("New", 2, 0, 1), ("ToDict", 2, 1, 1), ("TryFind", 2, 2, 1), ("Values", 2, 1, 1)]
def modelledStrings : List (String × Nat × Nat × Nat) := [
  ("AppendHead", 0, 2, 1), ("AppendTail", 0, 2, 1), ("Concat", 0, 2, 1), ("EncloseWith", 0, 3, 1),
  ("HasPrefix", 0, 2, 1), ("HasSuffix", 0, 2, 1), ("IsEmpty", 0, 1, 1), ("IsNotEmpty", 0, 1, 1),
  ("Length", 0, 1, 1), ("Split", 0, 2, 1), ("SplitN", 0, 3, 1), ("TrimSuffix", 0, 2, 1)]
def modelledBuf : List (String × Nat × Nat × Nat) := [("New", 0, 0, 1), ("String", 0, 1, 1), ("Write", 0, 2, 0)]

theorem fact_dictFuncs : Folang.Generated.dictFuncs = modelledDict := by decide
theorem fact_stringsFuncs : Folang.Generated.stringsFuncs = modelledStrings := by decide
theorem fact_bufFuncs : Folang.Generated.bufFuncs = modelledBuf := by decide

end Folang.Props.C14
