import Folang.Model.TypeExpr
import Folang.Lemmas.TypeRoundtrip
/-
C15 — type expressions map to Go types by the documented grammar.

Proved here, for sub-types of ANY depth: the model of FTypeToGo renders each type constructor as the
documentation says (`toGo_*`: int/string/bool/any as themselves, float ↦ float64, () ↦ no result,
[]T, frt.Tuple2/3[...], func (A,B) C with a unit result omitted and a unit argument list empty,
Name / Name[T, U]).
`roundtrip`: for EVERY concrete syntax tree of the grammar (Model/TypeSyntax.lean: a tree per level
TYPE > ELEM > TERM > ATOM, so it covers the parentheses the levels require and any redundant ones, any
nesting depth, any number of arrows / stars / type arguments, dotted names) whose names resolve, the
parser model applied to its rendering — followed by any token that cannot continue a type — returns
exactly the FType the tree denotes and leaves the rest, for every sufficient fuel.  Hence `->` is
flat and nests only through parentheses, `*` binds tighter than `->`, `[]` tighter than `*`,
parentheses only group, `()` is unit, generic arguments are checked against the declared arity.
The parser model is executable and tied to the real parser by exhaustive enumeration up to depth 2/3
and random deeper expressions (DESIGN.md §C15).
-/
namespace Folang.Props.C15
open Folang.TypeExpr

theorem toGo_int : toGo .int = "int" := by simp [toGo]
theorem toGo_string : toGo .string = "string" := by simp [toGo]
theorem toGo_bool : toGo .bool = "bool" := by simp [toGo]
theorem toGo_any : toGo .any = "any" := by simp [toGo]
/-- float is Go's float64 -/
theorem toGo_float : toGo .float = "float64" := by simp [toGo]
/-- () is "no result" -/
theorem toGo_unit : toGo .unit = "" := by simp [toGo]
theorem toGo_slice (t : FT) : toGo (.slice t) = "[]" ++ toGo t := by simp [toGo]
theorem toGo_tuple2 (a b : FT) : toGo (.tuple [a, b]) = "frt.Tuple2[" ++ toGo a ++ ", " ++ toGo b ++ "]" := by
  simp [toGo, toGoList, joinWith, String.append_assoc]; rfl
theorem toGo_tuple3 (a b c : FT) :
    toGo (.tuple [a, b, c]) = "frt.Tuple3[" ++ toGo a ++ ", " ++ toGo b ++ ", " ++ toGo c ++ "]" := by
  simp [toGo, toGoList, joinWith, String.append_assoc]; rfl

/-- A->B is func (A) B when B is not unit -/
theorem toGo_func1 (a r : FT) (hr : lastIsUnit [a, r] = false) :
    toGo (.func [a, r]) = "func (" ++ toGo a ++ ")" ++ " " ++ toGo r := by
  simp [toGo, toGoList, funcText, hr, joinWith, String.append_assoc]
  rw [← String.append_assoc]; rfl
/-- A->B->C is func (A,B) C: arrows are flat, parameters in order -/
theorem toGo_func2 (a b r : FT) (hr : lastIsUnit [a, b, r] = false) :
    toGo (.func [a, b, r]) = "func (" ++ toGo a ++ "," ++ toGo b ++ ")" ++ " " ++ toGo r := by
  simp [toGo, toGoList, funcText, hr, joinWith, String.append_assoc]
  rw [← String.append_assoc]; rfl
/-- a unit result is no result -/
theorem toGo_func_unit_result (a : FT) : toGo (.func [a, .unit]) = "func (" ++ toGo a ++ ")" := by
  simp [toGo, toGoList, funcText, lastIsUnit, joinWith]
/-- a unit parameter is no parameter -/
theorem toGo_func_unit_arg (r : FT) (hr : lastIsUnit [.unit, r] = false) :
    toGo (.func [.unit, r]) = "func ()" ++ " " ++ toGo r := by
  simp [toGo, toGoList, funcText, hr, joinWith, String.append_assoc]
  rw [← String.append_assoc]; rfl
/-- a function-typed result stays nested: A->(B->C) is func (A) followed by the Go type of B->C -/
theorem toGo_func_nested (a b c : FT) :
    toGo (.func [a, .func [b, c]]) = "func (" ++ toGo a ++ ")" ++ " " ++ toGo (.func [b, c]) :=
  toGo_func1 a (.func [b, c]) (by simp [lastIsUnit])
theorem toGo_named0 (k n : String) : toGo (.named k n []) = n := by simp [toGo, toGoList, namedText]
/-- Name<T> is Name[T] -/
theorem toGo_named1 (k n : String) (a : FT) : toGo (.named k n [a]) = n ++ "[" ++ toGo a ++ "]" := by
  simp [toGo, toGoList, namedText, joinWith, String.append_assoc]
/-- Name<T,U> is Name[T, U] -/
theorem toGo_named2 (k n : String) (a b : FT) :
    toGo (.named k n [a, b]) = n ++ "[" ++ toGo a ++ ", " ++ toGo b ++ "]" := by
  simp [toGo, toGoList, namedText, joinWith, String.append_assoc]

/-! ### the parser: full statement (not proved) and evaluated instances -/

/-- precedence level of the outermost constructor: 0 function, 1 tuple, 2 slice, 3 atom -/
def level : FT → Nat
  | .func _ => 0
  | .tuple _ => 1
  | .slice _ => 2
  | _ => 3

/-- **round trip**: the parser model returns the denoted type on the rendering of every concrete
syntax tree whose names resolve, whatever follows (as long as it cannot continue a type) -/
theorem roundtrip (env : TEnv) (t : STy) (hwf : wfTy env t = true) (rest : List TTok) (hstop : StopT rest)
    (fuel : Nat) (hfuel : sizeTy t ≤ fuel) :
    parseType env fuel (renderTy t ++ rest) = some (denoteTy env t, rest) :=
  (rt_all env (sizeTy t)).ty t (Nat.le_refl _) hwf fuel hfuel rest hstop

/-- … in particular on the whole input -/
theorem roundtrip_whole (env : TEnv) (t : STy) (hwf : wfTy env t = true) :
    parseType env (sizeTy t) (renderTy t) = some (denoteTy env t, []) := by
  have := roundtrip env t hwf [] ⟨⟨⟨by simp [notHead], by simp [notHead]⟩, by simp [notHead]⟩, by simp [notHead]⟩
    (sizeTy t) (Nat.le_refl _)
  simpa using this

/-- the Go type of a type expression is the documented rendering of the type its tree denotes -/
theorem goType_of_rendering (env : TEnv) (t : STy) (hwf : wfTy env t = true) :
    (parseType env (sizeTy t) (renderTy t)).map (fun r => toGo r.1) = some (toGo (denoteTy env t)) := by
  rw [roundtrip_whole env t hwf]; rfl

/-- what the tree levels mean: arrows are flat and a parenthesised arrow nests -/
theorem denote_arrows_flat (env : TEnv) (a b c : SElem) :
    denoteTy env (.arrows a [b, c]) = .func [denoteElem env a, denoteElem env b, denoteElem env c] := by
  simp [denoteTy, denoteElems]

theorem denote_paren (env : TEnv) (t : STy) : denoteAtom env (.paren t) = denoteTy env t := by
  simp [denoteAtom]

def env0 : TEnv := [("dict.Dict", "ext", "dict.Dict", 2), ("Rec", "record", "Rec", 0)]
def goText (ts : List TTok) : Option String := (parseType env0 64 ts).map (fun r => toGo r.1)

/-- `[]` binds tighter than `*`:  []int*string  is  ([]int)*string -/
example : goText [.lb, .rb, .id "int", .star, .id "string"] = some "frt.Tuple2[[]int, string]" := by decide
/-- `*` binds tighter than `->` -/
example : goText [.id "int", .star, .id "string", .arrow, .id "bool"] = some "func (frt.Tuple2[int, string]) bool" := by
  decide
/-- `->` nests to the right only through parentheses -/
example : goText [.id "int", .arrow, .lp, .id "int", .arrow, .id "bool", .rp] = some "func (int) func (int) bool" := by
  decide
example : goText [.id "int", .arrow, .id "int", .arrow, .id "bool"] = some "func (int,int) bool" := by decide
/-- parentheses only group -/
example : goText [.lp, .lp, .id "int", .rp, .rp] = some "int" := by decide
/-- unit argument and unit result -/
example : goText [.lp, .rp, .arrow, .id "int"] = some "func () int" := by decide
example : goText [.id "int", .arrow, .lp, .rp] = some "func (int)" := by decide
/-- external generic types keep their package qualifier -/
example : goText [.id "dict", .dot, .id "Dict", .lt, .id "string", .comma, .lb, .rb, .id "Rec", .gt] =
    some "dict.Dict[string, []Rec]" := by decide

/-- non-vacuity: `(int -> [](dict.Dict<string, Rec*int>)) * string -> bool` is a tree whose names resolve -/
def sample : STy :=
  .arrows
    (.stars (.atom (.paren (.arrows (.stars (.atom (.base .int)) [])
        [.stars (.slice (.atom (.paren (.arrows (.stars (.atom (.named "dict" ["Dict"]
          [.arrows (.stars (.atom (.base .string)) []) [],
           .arrows (.stars (.atom (.named "Rec" [] [])) [.atom (.base .int)]) []])) []) [])))) []])))
      [.atom (.base .string)])
    [.stars (.atom (.base .bool)) []]

example : wfTy env0 sample = true := by decide
example : (parseType env0 (sizeTy sample) (renderTy sample)).map (fun r => toGo r.1) =
    some "func (frt.Tuple2[func (int) []dict.Dict[string, frt.Tuple2[Rec, int]], string]) bool" := by decide

end Folang.Props.C15
