import Folang.Model.Driver
import Folang.Model.Tokenizer
import Folang.Lemmas.TokProgress
/-
C16 — fc always terminates with either complete output or a diagnostic.  (PARTIAL)

Full statement (kept visible; not provable in any model: it speaks of the Go runtime):
  `C16_full`: for every argument list and file content the process terminates; exit 0 only if every
  requested gen_*.go was completely written; otherwise non-zero exit after a diagnostic, nothing
  written for the offending file, no hang, no runtime fatal error.
Proved parts:
  * `driver_exit0_complete`, `driver_failure_discipline` — the driver (all argument lists);
  * `scan_progress` — every token returned by the scanner model consumes at least one byte and stays
    inside the buffer (all byte strings, every scanner); `nextNonSpace_none_is_panic` — the token
    loop never runs out of fuel: it fails only where a scanner panics (= diagnostic);
    `tkzNext_advances` — positions strictly increase until EOF.
Missing: termination of the parser, of inference (the occurs check of fix 1e8a7fd is tied by the
mutant stream, not modelled) and of emission; Go stack / memory exhaustion on huge inputs.
-/
namespace Folang.Props.C16
open Folang.Driver

/-- the full statement, over an abstract "run the real process" function -/
def C16_full (run : List (String × List UInt8) → Option (Nat × List String × Option String)) : Prop :=
  ∀ args, ∃ code written diag, run args = some (code, written, diag) ∧
    (code = 0 → ∀ a ∈ args, a.1.endsWith ".fo" → a.1 ∈ written) ∧
    (code ≠ 0 → ∃ d, diag = some d ∧ d ∉ written)

/-- exit 0 ⇒ every requested gen file has been completely written -/
theorem driver_exit0_complete (args : List FileArg) (h : (transpileFiles args).exitOk = true) :
    ∀ f ∈ args, f.isFo = true → f.name ∈ (transpileFiles args).written := by
  induction args with
  | nil => intro f hf; cases hf
  | cons a rest ih =>
    intro f hf hfo
    simp only [transpileFiles] at h ⊢
    cases hr : a.readable <;> cases ht : a.translates <;> cases hi : a.isFo <;> cases hw : a.writable <;>
      simp [transpileOne, hr, ht, hi, hw] at h ⊢
    all_goals
      rcases List.mem_cons.mp hf with rfl | hf'
      · simp_all
      · first
          | exact ih h f hf' hfo
          | exact Or.inr (ih h f hf' hfo)

/-- failure ⇒ a diagnostic names the offending argument, nothing is written for it nor for any later
argument, and every earlier .fo argument has its file -/
theorem driver_failure_discipline (args : List FileArg) (h : (transpileFiles args).exitOk = false) :
    ∃ pre f post, args = pre ++ f :: post ∧ (transpileFiles args).diag = some f.name ∧
      (transpileOne f).1 = some f.name ∧
      (transpileFiles args).written = (pre.filter (·.isFo)).map (·.name) ∧
      (∀ p ∈ pre, (transpileOne p).1 = none) := by
  induction args with
  | nil => simp [transpileFiles] at h
  | cons a rest ih =>
    cases ho : transpileOne a with
    | mk d w =>
      cases d with
      | some name =>
        have hn : name = a.name ∧ w = [] := by
          unfold transpileOne at ho
          split at ho
          · cases ho; exact ⟨rfl, rfl⟩
          · split at ho
            · cases ho; exact ⟨rfl, rfl⟩
            · split at ho
              · cases ho
              · split at ho
                · cases ho; exact ⟨rfl, rfl⟩
                · cases ho
        refine ⟨[], a, rest, rfl, ?_, ?_, ?_, by simp⟩
        · simp [transpileFiles, ho, hn.1]
        · rw [ho, hn.1]
        · simp [transpileFiles, ho, hn.2]
      | none =>
        have hrest : (transpileFiles rest).exitOk = false := by
          simpa [transpileFiles, ho] using h
        obtain ⟨pre, f, post, hsplit, hdiag, hone, hwr, hpre⟩ := ih hrest
        have hw : w = if a.isFo then [a.name] else [] := by
          unfold transpileOne at ho
          split at ho
          · cases ho
          · split at ho
            · cases ho
            · split at ho
              · rename_i hfo; cases ho; simp at hfo; simp [hfo]
              · split at ho
                · cases ho
                · rename_i hfo _; cases ho; simp at hfo; simp [hfo]
        refine ⟨a :: pre, f, post, by rw [hsplit]; rfl, ?_, hone, ?_, ?_⟩
        · simpa [transpileFiles, ho] using hdiag
        · simp only [transpileFiles, ho, hwr, hw, List.filter_cons]
          cases a.isFo <;> simp
        · intro p hp
          rcases List.mem_cons.mp hp with rfl | hp'
          · rw [ho]
          · exact hpre p hp'

/-- non-vacuity: a .foi, a good .fo, then a .fo that does not translate, then one never reached -/
example :
    transpileFiles [⟨"p.foi", false, true, true, true⟩, ⟨"a.fo", true, true, true, true⟩,
      ⟨"b.fo", true, true, false, true⟩, ⟨"c.fo", true, true, true, true⟩] =
    { exitOk := false, written := ["a.fo"], diag := some "b.fo" } := by decide

/-! ### the scanner makes progress -/

open Folang.Tokenizer Folang.Literal in
/-- **scan_progress**: on a non-empty rest of the buffer every token the scanner returns consumes at
least one byte and ends inside the buffer (all byte strings, every scanner) -/
theorem scan_progress (s : Bytes) (t : Tok) (h : scanTokenAt s = .tok t) (hne : s ≠ []) :
    0 < t.extent ∧ t.extent ≤ s.length := scanTokenAt_progress s t h hne

open Folang.Tokenizer Folang.Literal in
/-- **the token loop never runs out of fuel**: with the fuel the tokenizer uses (buffer length + 2),
`nextToken` fails only where one of the scanners panics (= a diagnostic), never for lack of fuel —
the model's counterpart of "the scanner loop cannot spin" (it could before fix b8a3c7e) -/
theorem nextNonSpace_none_is_panic : ∀ (fuel : Nat) (s : Bytes) (off : Nat), s.length + 2 ≤ fuel →
    nextNonSpace fuel off s = none → ∃ k, scanTokenAt (s.drop k) = .panic := by
  intro fuel
  induction fuel with
  | zero => intro s off h; omega
  | succ f ih =>
    intro s off hf h
    simp only [nextNonSpace] at h
    cases hs : scanTokenAt s with
    | panic => exact ⟨0, by simpa using hs⟩
    | tok t =>
      simp only [hs] at h
      split at h
      · rename_i hk
        cases s with
        | nil =>
          simp [scanTokenAt] at hs
          subst hs
          simp at hk
        | cons b rest =>
          have hp := scan_progress (b :: rest) t hs (by simp)
          have hlen : ((b :: rest).drop t.extent).length + 2 ≤ f := by
            simp only [List.length_drop]
            simp at hf hp ⊢; omega
          obtain ⟨k, hk'⟩ := ih _ _ hlen h
          exact ⟨t.extent + k, by rw [← List.drop_drop]; exact hk'⟩
      · cases h

open Folang.Tokenizer Folang.Literal in
/-- the next non-space token begins at or after the current position and ends inside the buffer -/
theorem nextNonSpace_bounds : ∀ (fuel : Nat) (s : Bytes) (off : Nat) {b : Nat} {t : Tok},
    nextNonSpace fuel off s = some (b, t) → off ≤ b ∧ b + t.len ≤ off + s.length := by
  intro fuel
  induction fuel with
  | zero => intro s off b t h; simp [nextNonSpace] at h
  | succ f ih =>
    intro s off b t h
    simp only [nextNonSpace] at h
    cases hs : scanTokenAt s with
    | panic => simp [hs] at h
    | tok t0 =>
      simp only [hs] at h
      cases s with
      | nil =>
        simp [scanTokenAt] at hs
        subst hs
        simp at h
        obtain ⟨rfl, rfl⟩ := h
        simp
      | cons c rest =>
        have hp := scan_progress (c :: rest) t0 hs (by simp)
        split at h
        · have := ih _ _ h
          simp only [List.length_drop] at this
          omega
        · simp only [Option.some.injEq, Prod.mk.injEq] at h
          obtain ⟨rfl, rfl⟩ := h
          simp [Tok.extent] at hp ⊢
          omega

/-- the current token lies inside the buffer -/
def Inside (z : Folang.Tokenizer.Tkz) : Prop := z.bpos + z.cur.len ≤ z.buf.length

open Folang.Tokenizer Folang.Literal in
theorem newTkz_inside (buf : Bytes) (z : Tkz) (h : newTkz buf = some z) : Inside z ∧ z.buf = buf := by
  unfold newTkz at h
  split at h
  · cases h
  · rename_i b t hn
    simp only [Option.some.injEq] at h
    subst h
    have := nextNonSpace_bounds _ _ _ hn
    exact ⟨by simp [Inside]; omega, rfl⟩

open Folang.Tokenizer Folang.Literal in
/-- `tkzNext` moves forward and stays inside the buffer: the next token begins at or after the end of
the current one, so with `scan_progress` the positions strictly increase until EOF and a buffer of n
bytes yields at most n + 1 tokens -/
theorem tkzNext_advances (z z' : Tkz) (hin : Inside z) (h : tkzNext z = some z') (hk : z.cur.kind ≠ "EOF") :
    z.bpos + z.cur.len ≤ z'.bpos ∧ z'.buf = z.buf ∧ Inside z' := by
  unfold Inside at hin
  unfold tkzNext at h
  simp only [hk, if_false] at h
  split at h
  · simp only [Option.some.injEq] at h
    subst h
    simp [Inside]; omega
  · split at h
    · cases h
    · rename_i hlt b t hn
      simp only [Option.some.injEq] at h
      subst h
      have := nextNonSpace_bounds _ _ _ hn
      simp only [List.length_drop] at this
      refine ⟨this.1, rfl, ?_⟩
      simp [Inside]; omega

end Folang.Props.C16
