import Folang.Model.Driver
import Folang.Model.Tokenizer
/-
C16 — fc always terminates with either complete output or a diagnostic.  (PARTIAL)

Full statement (kept visible; not provable in any model: it speaks of the Go runtime):
  `C16_full`: for every argument list and file content the process terminates; exit 0 only if every
  requested gen_*.go was completely written; otherwise non-zero exit after a diagnostic, nothing
  written for the offending file, no hang, no runtime fatal error.
Proved parts:
  * `driver_exit0_complete`, `driver_failure_discipline` — the driver (all argument lists);
  * `scan_progress` — every token returned by the scanner model consumes at least one byte and stays
    inside the buffer (all byte strings), hence `tokenize_terminates`: the tokenizer never runs out
    of fuel, it only stops at EOF or at a panic (= diagnostic).
Missing: termination of the parser, of inference (the occurs check of fix 1e8a7fd is tied by the
mutant stream, not modelled) and of emission; Go stack / memory exhaustion on huge inputs.
-/
namespace Folang.Props.C16
open Folang.Driver

/-- the full statement, over an abstract "run the real process" function -/
def C16_full (run : List (String × List UInt8) → Option (Nat × List String × Option String)) : Prop :=
  ∀ args, ∃ code written diag, run args = some (code, written, diag) ∧
    (code = 0 → ∀ a ∈ args, a.1.endsWith ".fo" → a.1 ∈ written) ∧
    (code ≠ 0 → ∃ d, diag = some d ∧ d ∉ written)

/-- exit 0 ⇒ every requested gen file has been completely written -/
theorem driver_exit0_complete (args : List FileArg) (h : (transpileFiles args).exitOk = true) :
    ∀ f ∈ args, f.isFo = true → f.name ∈ (transpileFiles args).written := by
  induction args with
  | nil => intro f hf; cases hf
  | cons a rest ih =>
    intro f hf hfo
    simp only [transpileFiles] at h ⊢
    cases hr : a.readable <;> cases ht : a.translates <;> cases hi : a.isFo <;> cases hw : a.writable <;>
      simp [transpileOne, hr, ht, hi, hw] at h ⊢
    all_goals
      rcases List.mem_cons.mp hf with rfl | hf'
      · simp_all
      · first
          | exact ih h f hf' hfo
          | exact Or.inr (ih h f hf' hfo)

/-- failure ⇒ a diagnostic names the offending argument, nothing is written for it nor for any later
argument, and every earlier .fo argument has its file -/
theorem driver_failure_discipline (args : List FileArg) (h : (transpileFiles args).exitOk = false) :
    ∃ pre f post, args = pre ++ f :: post ∧ (transpileFiles args).diag = some f.name ∧
      (transpileOne f).1 = some f.name ∧
      (transpileFiles args).written = (pre.filter (·.isFo)).map (·.name) ∧
      (∀ p ∈ pre, (transpileOne p).1 = none) := by
  induction args with
  | nil => simp [transpileFiles] at h
  | cons a rest ih =>
    cases ho : transpileOne a with
    | mk d w =>
      cases d with
      | some name =>
        have hn : name = a.name ∧ w = [] := by
          unfold transpileOne at ho
          split at ho
          · cases ho; exact ⟨rfl, rfl⟩
          · split at ho
            · cases ho; exact ⟨rfl, rfl⟩
            · split at ho
              · cases ho
              · split at ho
                · cases ho; exact ⟨rfl, rfl⟩
                · cases ho
        refine ⟨[], a, rest, rfl, ?_, ?_, ?_, by simp⟩
        · simp [transpileFiles, ho, hn.1]
        · rw [ho, hn.1]
        · simp [transpileFiles, ho, hn.2]
      | none =>
        have hrest : (transpileFiles rest).exitOk = false := by
          simpa [transpileFiles, ho] using h
        obtain ⟨pre, f, post, hsplit, hdiag, hone, hwr, hpre⟩ := ih hrest
        have hw : w = if a.isFo then [a.name] else [] := by
          unfold transpileOne at ho
          split at ho
          · cases ho
          · split at ho
            · cases ho
            · split at ho
              · rename_i hfo; cases ho; simp at hfo; simp [hfo]
              · split at ho
                · cases ho
                · rename_i hfo _; cases ho; simp at hfo; simp [hfo]
        refine ⟨a :: pre, f, post, by rw [hsplit]; rfl, ?_, hone, ?_, ?_⟩
        · simpa [transpileFiles, ho] using hdiag
        · simp only [transpileFiles, ho, hwr, hw, List.filter_cons]
          cases a.isFo <;> simp
        · intro p hp
          rcases List.mem_cons.mp hp with rfl | hp'
          · rw [ho]
          · exact hpre p hp'

/-- non-vacuity: a .foi, a good .fo, then a .fo that does not translate, then one never reached -/
example :
    transpileFiles [⟨"p.foi", false, true, true, true⟩, ⟨"a.fo", true, true, true, true⟩,
      ⟨"b.fo", true, true, false, true⟩, ⟨"c.fo", true, true, true, true⟩] =
    { exitOk := false, written := ["a.fo"], diag := some "b.fo" } := by decide

end Folang.Props.C16
