import Folang.Model.Offside
/-
C16 (parser part) — the block parser scheme terminates on EVERY token sequence: with fuel
3 * tokens + 3 the model never runs out of fuel, whatever the tokens are (layouts or garbage), so
an answer `reject` is a real rejection and the recursion parseBlock → parseStmtList → parseStmt →
parseBlock always comes back.  The reason is the one that matters in the real code: every statement
consumes at least one token before the list loop goes round, and a nested block starts after its
opener.
-/
namespace Folang.Props.C16Block
open Folang.Offside

theorem skipEOL_length : ∀ (ts : List Tok), (skipEOL ts).length ≤ ts.length
  | [] => Nat.le_refl _
  | ⟨k, c⟩ :: r => by
    cases k <;> simp only [skipEOL, List.length_cons] <;> first
      | exact Nat.le_refl _
      | exact Nat.le_succ_of_le (skipEOL_length r)

theorem takeWords_length : ∀ (ts : List Tok), (takeWords ts).2.length + (takeWords ts).1.length = ts.length
  | [] => rfl
  | ⟨k, c⟩ :: r => by
    cases k with
    | word n =>
      have := takeWords_length r
      simp only [takeWords, List.length_cons]
      omega
    | opener => rfl
    | eol => rfl
    | eof => rfl

def StmtOK (f top : Nat) (ts : List Tok) : Prop :=
  pStmt f top ts ≠ .fuel ∧ ∀ t r, pStmt f top ts = .ok t r → r.length < ts.length
def ListOK (f top : Nat) (ts : List Tok) : Prop :=
  pList f top ts ≠ .fuel ∧ ∀ ss r, pList f top ts = .ok ss r → r.length ≤ ts.length
def BlockOK (f top : Nat) (ts : List Tok) : Prop :=
  pBlock f top ts ≠ .fuel ∧ ∀ ss r, pBlock f top ts = .ok ss r → r.length ≤ ts.length

theorem stmt_step (n : Nat) (hB : ∀ ts : List Tok, ts.length ≤ n → ∀ top f, 3 * n + 3 ≤ f → BlockOK f top ts)
    (ts : List Tok) (hl : ts.length ≤ n + 1) (top f : Nat) (hf : 3 * (n + 1) + 1 ≤ f) : StmtOK f top ts := by
  obtain ⟨g, rfl⟩ : ∃ g, f = g + 1 := ⟨f - 1, by omega⟩
  have htw := takeWords_length ts
  cases h : (takeWords ts).2 with
  | nil =>
    rw [h] at htw
    by_cases he : (takeWords ts).1.isEmpty = true
    · refine ⟨by simp [pStmt, h, he], fun t r hr => by simp [pStmt, h, he] at hr⟩
    · refine ⟨by simp [pStmt, h, he], fun t r hr => ?_⟩
      simp only [pStmt, h, he] at hr
      cases hr
      have : (takeWords ts).1.length ≠ 0 := by
        intro h0; exact he (by rw [List.isEmpty_iff]; exact List.length_eq_zero_iff.mp h0)
      simp only [List.length_nil] at htw ⊢
      omega
  | cons t r' =>
    rw [h] at htw
    obtain ⟨k, c⟩ := t
    have hother : ∀ (hk : k ≠ .opener), StmtOK (g + 1) top ts := by
      intro hk
      by_cases he : (takeWords ts).1.isEmpty = true
      · refine ⟨?_, fun t r hr => ?_⟩
        · cases k <;> simp_all [pStmt]
        · cases k <;> simp_all [pStmt]
      · have hne : (takeWords ts).1.length ≠ 0 := by
          intro h0; exact he (by rw [List.isEmpty_iff]; exact List.length_eq_zero_iff.mp h0)
        refine ⟨?_, fun t r hr => ?_⟩
        · cases k <;> simp_all [pStmt]
        · have : r = ⟨k, c⟩ :: r' := by
            cases k <;> simp_all [pStmt]
          subst this
          omega
    cases k with
    | opener =>
      have hlen : (skipEOL r').length ≤ n := by
        have := skipEOL_length r'
        simp only [List.length_cons] at htw
        omega
      obtain ⟨hnf, hok⟩ := hB (skipEOL r') hlen top g (by omega)
      refine ⟨?_, fun t r hr => ?_⟩
      · simp only [pStmt, h]
        cases hb : pBlock g top (skipEOL r') with
        | ok body r'' => simp
        | reject => simp
        | fuel => exact absurd hb hnf
      · simp only [pStmt, h] at hr
        cases hb : pBlock g top (skipEOL r') with
        | ok body r'' =>
          rw [hb] at hr
          simp only [R.ok.injEq] at hr
          have := hok body r'' hb
          have h2 := skipEOL_length r'
          simp only [List.length_cons] at htw
          rw [← hr.2]
          omega
        | reject => rw [hb] at hr; cases hr
        | fuel => rw [hb] at hr; cases hr
    | word m => exact hother (by intro hc; cases hc)
    | eol => exact hother (by intro hc; cases hc)
    | eof => exact hother (by intro hc; cases hc)

theorem list_step (n : Nat) (hS : ∀ ts : List Tok, ts.length ≤ n + 1 → ∀ top f, 3 * (n + 1) + 1 ≤ f → StmtOK f top ts)
    (hL : ∀ ts : List Tok, ts.length ≤ n → ∀ top f, 3 * n + 2 ≤ f → ListOK f top ts)
    (ts : List Tok) (hl : ts.length ≤ n + 1) (top f : Nat) (hf : 3 * (n + 1) + 2 ≤ f) : ListOK f top ts := by
  obtain ⟨g, rfl⟩ : ∃ g, f = g + 1 := ⟨f - 1, by omega⟩
  obtain ⟨hnf, hok⟩ := hS ts hl top g (by omega)
  cases hs : pStmt g top ts with
  | fuel => exact absurd hs hnf
  | reject => exact ⟨by simp [pList, hs], fun ss r hr => by simp [pList, hs] at hr⟩
  | ok s r =>
    have hr := hok s r hs
    have hsk := skipEOL_length r
    by_cases he : isEndOfBlock top (skipEOL r) = true
    · refine ⟨by simp [pList, hs, he], fun ss r2 h2 => ?_⟩
      simp only [pList, hs, he, if_true, R.ok.injEq] at h2
      rw [← h2.2]; omega
    · obtain ⟨hnf2, hok2⟩ := hL (skipEOL r) (by omega) top g (by omega)
      cases hl2 : pList g top (skipEOL r) with
      | fuel => exact absurd hl2 hnf2
      | reject => exact ⟨by simp [pList, hs, he, hl2], fun ss r2 h2 => by simp [pList, hs, he, hl2] at h2⟩
      | ok ss r3 =>
        refine ⟨by simp [pList, hs, he, hl2], fun ss2 r2 h2 => ?_⟩
        simp only [pList, hs, he, hl2] at h2
        have := hok2 ss r3 hl2
        simp only [Bool.false_eq_true, if_false, R.ok.injEq] at h2
        rw [← h2.2]; omega

theorem block_step (n : Nat) (hL : ∀ ts : List Tok, ts.length ≤ n → ∀ top f, 3 * n + 2 ≤ f → ListOK f top ts)
    (ts : List Tok) (hl : ts.length ≤ n) (top f : Nat) (hf : 3 * n + 3 ≤ f) : BlockOK f top ts := by
  obtain ⟨g, rfl⟩ : ∃ g, f = g + 1 := ⟨f - 1, by omega⟩
  by_cases hc : top ≥ curCol ts
  · exact ⟨by simp [pBlock, hc], fun ss r hr => by simp [pBlock, hc] at hr⟩
  · obtain ⟨hnf, hok⟩ := hL ts hl (curCol ts) g (by omega)
    refine ⟨by simpa [pBlock, hc] using hnf, fun ss r hr => ?_⟩
    simp only [pBlock, hc, if_false] at hr
    exact hok ss r hr

theorem all_ok : ∀ (n : Nat),
    (∀ ts : List Tok, ts.length ≤ n → ∀ top f, 3 * n + 1 ≤ f → StmtOK f top ts) ∧
    (∀ ts : List Tok, ts.length ≤ n → ∀ top f, 3 * n + 2 ≤ f → ListOK f top ts) ∧
    (∀ ts : List Tok, ts.length ≤ n → ∀ top f, 3 * n + 3 ≤ f → BlockOK f top ts)
  | 0 => by
    have hS : ∀ ts : List Tok, ts.length ≤ 0 → ∀ top f, 3 * 0 + 1 ≤ f → StmtOK f top ts := by
      intro ts hl top f hf
      have : ts = [] := List.length_eq_zero_iff.mp (Nat.le_zero.mp hl)
      subst this
      obtain ⟨g, rfl⟩ : ∃ g, f = g + 1 := ⟨f - 1, by omega⟩
      exact ⟨by simp [pStmt, takeWords], fun t r hr => by simp [pStmt, takeWords] at hr⟩
    have hL : ∀ ts : List Tok, ts.length ≤ 0 → ∀ top f, 3 * 0 + 2 ≤ f → ListOK f top ts := by
      intro ts hl top f hf
      have : ts = [] := List.length_eq_zero_iff.mp (Nat.le_zero.mp hl)
      subst this
      obtain ⟨g, rfl⟩ : ∃ g, f = g + 2 := ⟨f - 2, by omega⟩
      exact ⟨by simp [pList, pStmt, takeWords], fun t r hr => by simp [pList, pStmt, takeWords] at hr⟩
    exact ⟨hS, hL, block_step 0 hL⟩
  | n + 1 => by
    obtain ⟨_, hL, hB⟩ := all_ok n
    have hS' := stmt_step n hB
    have hL' := list_step n hS' hL
    exact ⟨hS', hL', block_step (n + 1) hL'⟩

/-- the block parser never runs out of fuel 3·|tokens| + 3, for ANY token sequence and enclosing
column: it returns a block and the remaining tokens (no longer than the input), or rejects -/
theorem block_terminates (top : Nat) (ts : List Tok) :
    pBlock (3 * ts.length + 3) top ts ≠ .fuel :=
  ((all_ok ts.length).2.2 ts (Nat.le_refl _) top _ (Nat.le_refl _)).1

/-- … and the whole file, read as the statement list of the root block -/
theorem list_terminates (top : Nat) (ts : List Tok) :
    pList (3 * ts.length + 2) top ts ≠ .fuel :=
  ((all_ok ts.length).2.1 ts (Nat.le_refl _) top _ (Nat.le_refl _)).1

/-- every statement consumes at least one token (the progress that makes the loop of
`parseStmtList` end) -/
theorem stmt_progress (top : Nat) (ts : List Tok) (t : T) (r : List Tok)
    (h : pStmt (3 * ts.length + 1) top ts = .ok t r) : r.length < ts.length :=
  ((all_ok ts.length).1 ts (Nat.le_refl _) top _ (Nat.le_refl _)).2 t r h

end Folang.Props.C16Block
