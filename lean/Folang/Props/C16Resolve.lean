import Folang.Model.Resolve
/-
C16 (with C02): the resolution of type variables terminates.

`resolve_terminates`: for EVERY resolver (any bindings, cyclic or not) and every type, with fuel
larger than the number of bound names, `resolveType` never runs out of fuel: it returns a type or the
diagnostic "Recursive type found" — the `visiting` list of fix 1e8a7fd bounds the depth by the number
of distinct bound type variables.  `resolve_unfixed_diverges` is the witness for the code before the
fix (no visiting check): on `a ↦ a -> a` every fuel is exhausted.
-/
namespace Folang.Props.C16
open Folang.Infer Folang.Resolve

mutual
theorem transTV_fuel (f : String → Except Err ITy) (hf : ∀ a, f a ≠ .error .outOfFuel) :
    ∀ (t : ITy), transTV f t ≠ .error .outOfFuel
  | .var a => by simpa [transTV] using hf a
  | .con h as => by
    have := transTVList_fuel f hf as
    simp only [transTV]
    cases hl : transTVList f as with
    | ok as' => simp
    | error e => simp; intro he; exact this (by rw [hl, he])
theorem transTVList_fuel (f : String → Except Err ITy) (hf : ∀ a, f a ≠ .error .outOfFuel) :
    ∀ (ts : List ITy), transTVList f ts ≠ .error .outOfFuel
  | [] => by simp [transTVList]
  | t :: ts => by
    have h1 := transTV_fuel f hf t
    have h2 := transTVList_fuel f hf ts
    simp only [transTVList]
    cases ht : transTV f t with
    | error e => simp; intro he; exact h1 (by rw [ht, he])
    | ok t' =>
      cases hl : transTVList f ts with
      | ok ts' => simp
      | error e => simp; intro he; exact h2 (by rw [hl, he])
end

/-- the depth of the resolution is bounded by the number of bound names not yet on the path -/
theorem resolveIn_fuel (rsv : Resolver) : ∀ (fuel : Nat) (visiting : List String) (tv : String),
    visiting.Nodup → (∀ v ∈ visiting, v ∈ rsv.keys) → rsv.keys.length < fuel + visiting.length →
    resolveIn rsv fuel visiting tv ≠ .error .outOfFuel := by
  intro fuel
  induction fuel with
  | zero =>
    intro visiting tv hnd hsub hlen
    have := hnd.length_le_of_subset (fun v hv => hsub v hv)
    omega
  | succ f ih =>
    intro visiting tv hnd hsub hlen
    simp only [resolveIn]
    by_cases hv : tv ∈ visiting
    · simp [hv]
    · simp only [hv, if_false]
      by_cases hk : tv ∈ rsv.keys
      · -- a bound name: one more name on the path
        have hrec : ∀ a, resolveIn rsv f (visiting ++ [tv]) a ≠ .error .outOfFuel := by
          intro a
          apply ih
          · exact List.nodup_append.mpr ⟨hnd, by simp, by intro x hx y hy; simp at hy; subst hy; intro hxy; subst hxy; exact hv hx⟩
          · intro v hv'
            simp only [List.mem_append, List.mem_singleton] at hv'
            rcases hv' with h | rfl
            · exact hsub v h
            · exact hk
          · simp; omega
        split
        · split
          · simp
          · exact transTV_fuel _ hrec _
        · exact transTV_fuel _ hrec _
      · -- an unbound name resolves to itself
        have hres : rsv.res tv = .var tv := by
          unfold Resolver.res
          have : rsv.find? (fun p => p.1 == tv) = none := by
            rw [List.find?_eq_none]
            intro p hp heq
            simp only [beq_iff_eq] at heq
            exact hk (by simp only [Resolver.keys, List.mem_map]; exact ⟨p, hp, heq⟩)
          simp [this]
        rw [hres]
        simp

/-- **termination of type resolution** (after fix 1e8a7fd): with fuel above the number of bound
names, resolving any type against any resolver ends with a type or with the recursive-type diagnostic -/
theorem resolve_terminates (rsv : Resolver) (t : ITy) (fuel : Nat) (h : rsv.keys.length < fuel) :
    resolveType rsv fuel t ≠ .error .outOfFuel := by
  unfold resolveType
  exact transTV_fuel _ (fun a => resolveIn_fuel rsv fuel [] a List.nodup_nil (by simp) (by simpa using h)) t

/-- the code before the fix: the same recursion without the visiting check -/
def resolveUnfixed (rsv : Resolver) : (fuel : Nat) → String → Except Err ITy
  | 0, _ => .error .outOfFuel
  | fuel + 1, tv =>
    match rsv.res tv with
    | .var tv2 => if tv2 = tv then .ok (.var tv2) else transTV (resolveUnfixed rsv fuel) (.var tv2)
    | rcand => transTV (resolveUnfixed rsv fuel) rcand

/-- witness: `let f x = x x` gives the binding a ↦ a -> b; resolving a exhausts every fuel
(the real compiler overflowed its stack: defect D2) -/
theorem resolve_unfixed_diverges : ∀ fuel, resolveUnfixed [("a", .con "->" [.var "a", .var "b"])] fuel "a" = .error .outOfFuel := by
  intro fuel
  induction fuel with
  | zero => rfl
  | succ f ih =>
    simp only [resolveUnfixed, Resolver.res, List.find?_cons, beq_self_eq_true, Option.map_some, Option.getD_some]
    simp [transTV, transTVList, ih]

/-- … while the fixed code reports it -/
example : resolveType [("a", .con "->" [.var "a", .var "b"])] 5 (.var "a") = .error (.cyclic "a") := by rfl

/-- non-vacuity: an acyclic resolver resolves through two levels -/
example : resolveType [("a", .con "[]" [.var "b"]), ("b", .con "int" [])] 5 (.con "*" [.var "a", .var "c"]) =
    .ok (.con "*" [.con "[]" [.con "int" []], .var "c"]) := by rfl

end Folang.Props.C16
