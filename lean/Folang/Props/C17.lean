import Folang.Model.Tiny
import Folang.Props.C08
import Folang.Spec.OpTable
import Folang.Generated.TinyFacts
/-
C17 — tinyfo (the bootstrap transpiler) preserves behaviour on the early-Folang subset.  (PARTIAL)

Machine-checked here, for all inputs:
  * `tiny_is_climb`   : tinyfo's parser loop computes exactly the precedence-climbing function `climb`
                        that models fc's parseBinAfter (C08), for every table, chain and fuel;
  * `tiny_eq_group`   : hence it returns the reference grouping (by rank, left-associative);
  * `tiny_agrees_with_fc` : on every chain of tinyfo's operators, tinyfo and fc build the SAME tree —
                        the two tables agree on the shared operators (`tables_agree`, by `decide` over
                        the whole finite table) and grouping depends on the table only through the
                        operators that occur (`group_congr`);
  * facts regenerated from tinyfo/parser.go on every run: the table, the two uses of `.precedence`,
    and the top-level `minPrec = 1`.
The behavioural statement itself is decided by execution against the Lean reference evaluator (stream
c01.prog) and against fc's translation of the same text; see lib/props/c17.py.
-/
set_option linter.unusedSectionVars false
namespace Folang.Props.C17
open Folang.Prec Folang.Tiny
variable {α : Type} (prec : Nat → Nat)

/-- tinyfo's loop IS `climb` (the loop's accumulator is climb's `lhs`; a right operand parsed by a
recursive call of parseExprWithPrecedence is climb started from an atom) -/
theorem tiny_is_climb : ∀ (fuel m : Nat) (expr : G α) (rest : List (Nat × α)),
    tinyLoop prec fuel m expr rest = climb prec fuel m expr rest := by
  intro fuel
  induction fuel with
  | zero => intro m expr rest; simp [tinyLoop, climb]
  | succ f ih =>
    intro m expr rest
    cases rest with
    | nil => simp [tinyLoop, climb]
    | cons e rest' =>
      obtain ⟨op, a⟩ := e
      by_cases hlt : prec op < m
      · simp [tinyLoop, climb, hlt]
      · simp [tinyLoop, climb, hlt, ih]

/-- tinyfo returns the reference grouping of the whole chain (for its own table or any other) -/
theorem tiny_eq_group (a0 : α) (chain : List (Nat × α)) (m : Nat) (hm : ∀ e ∈ chain, m ≤ prec e.1) :
    tinyExpr prec (chain.length + 1) m a0 chain = (group prec (.atom a0) chain, []) := by
  unfold tinyExpr
  rw [tiny_is_climb]
  exact Folang.Props.C08.climb_eq_group prec a0 chain m hm

/-- operators occurring in a tree -/
def opsOf : G α → List Nat
  | .atom _ => []
  | .bin op l r => op :: (opsOf l ++ opsOf r)

theorem insert_congr (p1 p2 : Nat → Nat) (t : G α) (op : Nat) (b : α)
    (ht : ∀ k ∈ opsOf t, p1 k = p2 k) (hop : p1 op = p2 op) :
    Prec.insert p1 t op b = Prec.insert p2 t op b := by
  induction t with
  | atom a => rfl
  | bin op' l r _ ihr =>
    have h' : p1 op' = p2 op' := ht op' (by simp [opsOf])
    have hr : ∀ k ∈ opsOf r, p1 k = p2 k := fun k hk => ht k (by simp [opsOf, hk])
    simp only [Prec.insert, h', hop, ihr hr]

theorem opsOf_insert (p : Nat → Nat) (t : G α) (op : Nat) (b : α) :
    ∀ k ∈ opsOf (Prec.insert p t op b), k = op ∨ k ∈ opsOf t := by
  induction t with
  | atom a => intro k hk; simp [Prec.insert, opsOf] at hk; exact Or.inl hk
  | bin op' l r _ ihr =>
    intro k hk
    simp only [Prec.insert] at hk
    split at hk
    · simp only [opsOf, List.mem_cons, List.mem_append] at hk ⊢
      rcases hk with h | h | h
      · exact Or.inr (Or.inl h)
      · exact Or.inr (Or.inr (Or.inl h))
      · rcases ihr k h with h | h
        · exact Or.inl h
        · exact Or.inr (Or.inr (Or.inr h))
    · simp only [opsOf, List.mem_cons, List.mem_append, List.not_mem_nil, or_false] at hk ⊢
      rcases hk with h | h | h | h
      · exact Or.inl h
      · exact Or.inr (Or.inl h)
      · exact Or.inr (Or.inr (Or.inl h))
      · exact Or.inr (Or.inr (Or.inr h))

/-- grouping depends on the table only through the operators that occur -/
theorem group_congr (p1 p2 : Nat → Nat) (t : G α) (chain : List (Nat × α))
    (ht : ∀ k ∈ opsOf t, p1 k = p2 k) (hc : ∀ e ∈ chain, p1 e.1 = p2 e.1) :
    group p1 t chain = group p2 t chain := by
  induction chain generalizing t with
  | nil => rfl
  | cons e rest ih =>
    have he : p1 e.1 = p2 e.1 := hc e List.mem_cons_self
    have h1 : Prec.insert p1 t e.1 e.2 = Prec.insert p2 t e.1 e.2 := insert_congr p1 p2 t e.1 e.2 ht he
    simp only [group, List.foldl_cons] at ih ⊢
    rw [h1]
    apply ih
    · intro k hk
      rcases opsOf_insert p2 t e.1 e.2 k hk with h | h
      · rw [h]; exact he
      · exact ht k h
    · exact fun x hx => hc x (List.mem_cons_of_mem _ hx)

/-- the two tables give every shared operator the same rank (the whole finite table, by evaluation) -/
theorem tables_agree : ∀ k, k < tinyTable.length → tinyPrec k = Folang.Spec.publishedPrec k := by decide

/-- tinyfo's table is fc's published table without `*` and `/`: same token, same Go operator, same order -/
theorem tiny_table_is_prefix :
    tinyTable = (Folang.Spec.publishedTable.take 11).map (fun r => (r.2.1, r.2.2.1, r.2.2.2.1)) := by decide

theorem tiny_ranks_positive : ∀ k, k < tinyTable.length → 1 ≤ tinyPrec k := by decide

/-- **tinyfo and fc group every chain of the shared operators identically**: parseExpr of tinyfo and
fc's parseExprWithPrec 1 (as `climb` over the published table) return the same tree and consume the
whole chain, for every chain length and every operand. -/
theorem tiny_agrees_with_fc (a0 : α) (chain : List (Nat × α)) (hops : ∀ e ∈ chain, e.1 < tinyTable.length) :
    tinyParseExpr a0 chain = climb Folang.Spec.publishedPrec (chain.length + 1) 1 (.atom a0) chain := by
  have h1 : ∀ e ∈ chain, 1 ≤ tinyPrec e.1 := fun e he => tiny_ranks_positive e.1 (hops e he)
  have h2 : ∀ e ∈ chain, 1 ≤ Folang.Spec.publishedPrec e.1 := fun e he => by
    rw [← tables_agree e.1 (hops e he)]; exact h1 e he
  unfold tinyParseExpr
  rw [tiny_eq_group tinyPrec a0 chain 1 h1, Folang.Props.C08.climb_eq_group _ a0 chain 1 h2]
  congr 1
  exact group_congr _ _ _ _ (by simp [opsOf]) (fun e he => tables_agree e.1 (hops e he))

/-- non-vacuity: `a - b + c < d && e` is a chain of tinyfo operators; both parsers give ((((a-b)+c)<d)&&e) -/
example : (tinyParseExpr "a" [(10, "b"), (9, "c"), (4, "d"), (1, "e")]).1 =
    .bin 1 (.bin 4 (.bin 9 (.bin 10 (.atom "a") (.atom "b")) (.atom "c")) (.atom "d")) (.atom "e") := by decide

/-! ### facts regenerated from tinyfo/parser.go -/

/-- the table in the code is the modelled table (as a set of rows) -/
theorem fact_tinyTable :
    (∀ r ∈ Folang.Generated.tinyBinOpTable, r ∈ tinyTable) ∧
    (∀ r ∈ tinyTable, r ∈ Folang.Generated.tinyBinOpTable) ∧
    Folang.Generated.tinyBinOpTable.length = tinyTable.length := by decide

/-- the loop stops on `precedence < minPrec` and parses the right operand with `precedence + 1` -/
theorem fact_tinyPrecedenceUses : Folang.Generated.tinyPrecedenceUses =
    ["parseExprWithPrecedence: binInfo.precedence < minPrec", "parseExprWithPrecedence: binInfo.precedence + 1"] := by decide

/-- parseExpr starts the loop with minPrec = 1 -/
theorem fact_tinyMinPrec : Folang.Generated.tinyParseExprMinPrec = ["1"] := by decide

end Folang.Props.C17
