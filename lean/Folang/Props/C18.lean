import Folang.Model.SampleMd
import Folang.Props.C14
/-
C18 — build_sample_md renders every listed sample verbatim, in order.
-/
namespace Folang.Props.C18
open Folang.SampleMd Folang.Lib Folang.Props.C14

/-- the title of a list line: the text after the first space, or the whole line if there is none;
the file name: the text before the first space -/
def nameOf (line : Bytes) : Bytes := match goIndex (cSpace) line with
  | none => line
  | some m => line.take m
def titleOf (line : Bytes) : Bytes := match goIndex (cSpace) line with
  | none => line
  | some m => line.drop (m + 1)

/-- the section the documentation describes for one list line -/
def sectionOf (line content : Bytes) : Bytes :=
  cH3 ++ titleOf line ++ cNLNL ++ cFence ++ content ++ cFenceEnd ++
  cGenerated ++ (cGen ++ TrimSuffix (cDotFo) (nameOf line) ++ cDotGo) ++ cRB ++
  cLP ++ (cGen ++ TrimSuffix (cDotFo) (nameOf line) ++ cDotGo) ++ cRP ++ cNLNL

theorem space_ne : cSpace ≠ [] := by decide

theorem cols_head_last (line : Bytes) :
    (SplitN 2 (cSpace) line).head?.getD [] = nameOf line ∧
    (SplitN 2 (cSpace) line).getLast?.getD [] = titleOf line := by
  rw [splitN2 (cSpace) line space_ne]
  unfold nameOf titleOf
  cases goIndex (cSpace) line with
  | none => simp
  | some m => simp [show cSpace.length = 1 by decide]

/-- one line: its section, with the file's content verbatim, or a failure naming the file -/
theorem convOne_spec (fs : FS) (line : Bytes) :
    convOne fs line = match fs (nameOf line) with
      | some content => .ok (sectionOf line content)
      | none => .error (cCantOpen ++ nameOf line) := by
  unfold convOne
  simp only [(cols_head_last line).1, (cols_head_last line).2]
  cases fs (nameOf line) with
  | none => rfl
  | some content => simp [sectionOf, bufWrite, bufNew, bufString, List.append_assoc]

/-- all files readable ⇒ one section per line, in list order -/
theorem mapConv_ok (fs : FS) (lines : List Bytes) (contents : List Bytes)
    (h : lines.map (fun l => fs (nameOf l)) = contents.map some) :
    mapConv fs lines = .ok (List.zipWith sectionOf lines contents) := by
  induction lines generalizing contents with
  | nil => cases contents <;> simp_all [mapConv]
  | cons l rest ih =>
    cases contents with
    | nil => simp at h
    | cons c cs =>
      simp only [List.map_cons, List.cons.injEq] at h
      simp only [mapConv, convOne_spec, h.1, ih cs h.2, List.zipWith_cons_cons]

/-- some file unreadable ⇒ failure, nothing written -/
theorem mapConv_fail (fs : FS) (lines : List Bytes) (h : ∃ l ∈ lines, fs (nameOf l) = none) :
    ∃ msg, mapConv fs lines = .error msg := by
  induction lines with
  | nil => obtain ⟨l, hl, _⟩ := h; cases hl
  | cons l rest ih =>
    simp only [mapConv, convOne_spec]
    cases hf : fs (nameOf l) with
    | none => exact ⟨_, rfl⟩
    | some c =>
      simp only
      obtain ⟨x, hx, hxn⟩ := h
      have : ∃ l ∈ rest, fs (nameOf l) = none := by
        rcases List.mem_cons.mp hx with rfl | hx'
        · rw [hf] at hxn; cases hxn
        · exact ⟨x, hx', hxn⟩
      obtain ⟨msg, hm⟩ := ih this
      exact ⟨msg, by rw [hm]⟩

/-- the non-empty lines of the list file -/
def listLines (listContent : Bytes) : List Bytes :=
  (Split (cNL) listContent).filter (fun l => !l.isEmpty)

/-- **C18 (success).** README.md = the fixed header followed by one section per non-empty line of the
list, in list order, joined by a newline; each section shows the line's title, the named file's
content verbatim, and the link to gen_<base>.go -/
theorem readme_shape (fs : FS) (listContent : Bytes) (contents : List Bytes)
    (h : (listLines listContent).map (fun l => fs (nameOf l)) = contents.map some) :
    processListFile fs listContent =
      .write (header ++ List.intercalate (cNL) (List.zipWith sectionOf (listLines listContent) contents)) := by
  unfold processListFile
  have hl : (Split (cNL) listContent).filter (fun l => IsNotEmpty l) = listLines listContent := by
    simp [listLines, IsNotEmpty]
  simp only [hl, mapConv_ok fs _ contents h, AppendHead, concat_spec]

/-- **C18 (failure).** if a listed file cannot be read, nothing is written -/
theorem missing_fails (fs : FS) (listContent : Bytes)
    (h : ∃ l ∈ listLines listContent, fs (nameOf l) = none) :
    ∃ msg, processListFile fs listContent = .fail msg := by
  unfold processListFile
  have hl : (Split (cNL) listContent).filter (fun l => IsNotEmpty l) = listLines listContent := by
    simp [listLines, IsNotEmpty]
  obtain ⟨msg, hm⟩ := mapConv_fail fs _ h
  exact ⟨msg, by simp only [hl, hm]⟩

/-- non-vacuity: "a.fo My sample\n\nb.fo\n": two entries, one with a title containing a space, one
without title; the blank line is dropped -/
example :
    let l1 : Bytes := [97, 46, 102, 111, 32, 77, 121, 32, 115, 97, 109, 112, 108, 101]
    let l2 : Bytes := [98, 46, 102, 111]
    listLines (l1 ++ [10, 10] ++ l2 ++ [10]) = [l1, l2] ∧
    titleOf l1 = [77, 121, 32, 115, 97, 109, 112, 108, 101] ∧ titleOf l2 = l2 ∧ nameOf l1 = [97, 46, 102, 111] := by
  decide

end Folang.Props.C18
