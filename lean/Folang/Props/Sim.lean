import Folang.Lemmas.SimCore
import Folang.Lemmas.SimPA
import Folang.Lemmas.SimMonoSrc
/-
C01 / C17 — forward simulation for the lowering of core Folang to Go-core.

`lower_correct`: for EVERY well-formed program of the core fragment, every fuel, if the reference
semantics (the evaluator the oracle runs: `runProg`) finishes with output `tr`, then the Go-core
semantics of the lowered program (`grunProg (lowerProg md P)`) finishes with the SAME output `tr` and a
related result.  No bound on program size, nesting, recursion depth, number of closures or calls.
The fragment: literals, variables, first-order primitives (operators, equality, tuples, records,
slices, constructors, printing, formatting, interpolation), `&&` `||`, if/else with block branches,
if-only statements, let / destructuring let / expression statements, full and PARTIAL application of
top-level functions, application of function values, lambdas (closures), pipes, slice.Map / Filter /
Fold with any function value, union match (binders, `_`, default) and string match in return and in
expression position, recursion.
Hypothesis `wfProg` (decidable, checked per program by the oracle): the given arguments of a partial
application are PURE: built from literals, variables not named like the closure parameters `_r0 …`,
and output-free primitives (constructors, operators, …) — with an effectful argument the lowering is
NOT faithful (known finding D9, Props/C01.papp_effects_late).
What the theorem is about: the models `lowerE md …` (Sem/Lower.lean) and `gevalN` (Sem/GoCore.lean);
both are tied to the real compiler and to real Go on every run (stream sem.prog; DESIGN §0).
-/
namespace Folang.Sem

theorem evalN_succ_expr (P : Prog) (n : Nat) : (evalN P (n + 1)).expr = stepExpr (evalN P n) P := rfl
theorem evalN_succ_body (P : Prog) (n : Nat) : (evalN P (n + 1)).body = stepBody (evalN P n) := rfl
theorem evalN_succ_app (P : Prog) (n : Nat) : (evalN P (n + 1)).app = stepApp (evalN P n) P := rfl

theorem grunStmts_nil (r : GRec) (genv : GEnv) : grunStmts r genv [] = some ([], genv) := rfl

variable {md : Bool} {P : Prog} {n : Nat}

/-- saturated call of a top-level function -/
theorem sim_applyFull (hP : wfProg md P) (ih : SimAt md P n) {f : String} {arity : Nat} {all : List SVal} {tr : Trace} {v : SVal}
    (h : applyFull (evalN P n) P f arity all = some (tr, v)) {gall : List GVal} (hr : VRels md all gall) :
    ∃ d, P.find f = some d ∧ d.params.length = gall.length ∧
      ∃ m gv, (gevalN (lowerProg md P) m).body (d.params.zip gall).reverse (lowerB md d.body) = some (tr, gv) ∧ VRel md v gv := by
  unfold applyFull at h
  split at h
  · rename_i hlen
    split at h
    · rename_i d hfind
      split at h
      · rename_i hpl
        have hwb : wfB md d.body = true := hP d (find_mem hfind)
        obtain ⟨m, gv, hg, hrv⟩ := ih.body h hwb (by simpa using ERel.call (ps := d.params) hr (ERel.nil (bind := md)))
        exact ⟨d, hfind, by rw [hpl, ← hlen, hr.length], m, gv, hg, hrv⟩
      · cases h
    · cases h
  · cases h

theorem sim_step (hP : wfProg md P) (ih : SimAt md P n) : SimAt md P (n + 1) := by
  refine ⟨?_, ?_, ?_⟩
  -- expressions
  · intro env e tr v h hwf genv he
    rw [evalN_succ_expr] at h
    cases e with
    | lit l =>
      simp [stepExpr, Res.pure] at h
      obtain ⟨rfl, rfl⟩ := h
      exact ⟨1, _, by simp only [lowerE]; exact g_lit _ 0 genv l, .fo _⟩
    | var x =>
      simp only [stepExpr, ofOpt] at h
      cases hl : lookup env x with
      | none => simp [hl] at h
      | some v' =>
        simp [hl] at h
        obtain ⟨rfl, rfl⟩ := h
        obtain ⟨gv, hgl, hrv⟩ := he.lookup (by simpa [wfE] using hwf) hl
        exact ⟨1, gv, by simp only [lowerE]; exact g_var _ hgl, hrv⟩
    | prim p args =>
      simp only [stepExpr] at h
      obtain ⟨t1, vs, t2, h1, h2, rfl⟩ := Res.bind_eq_some.mp h
      obtain ⟨m1, gvs, hg1, hr1⟩ := sim_list ih h1 (by simpa [wfE] using hwf) he
      split at h2
      · rename_i fos hfos
        obtain ⟨t3, v', t4, h3, h4, rfl⟩ := Res.bind_eq_some.mp h2
        obtain ⟨rfl, rfl⟩ := Res.pure_eq_some.mp h4
        refine ⟨m1 + 1, .fo v', ?_, .fo _⟩
        simp only [lowerE, List.append_nil]
        exact g_prim _ hg1 (hr1.toFOs ▸ hfos) h3
      · cases h2
    | and a b =>
      have hw : wfE md a = true ∧ wfE md b = true := by simpa [wfE] using hwf
      simp only [stepExpr] at h
      obtain ⟨t1, va, t2, h1, h2, rfl⟩ := Res.bind_eq_some.mp h
      obtain ⟨m1, gva, hg1, hr1⟩ := ih.expr h1 hw.1 he
      split at h2
      · obtain ⟨rfl, rfl⟩ := Res.pure_eq_some.mp h2
        have := hr1.fo_left; subst this
        exact ⟨m1 + 1, _, by simp only [lowerE, List.append_nil]; exact g_and_false _ hg1, .fo _⟩
      · have := hr1.fo_left; subst this
        obtain ⟨m2, gv, hg2, hr2⟩ := ih.expr h2 hw.2 he
        refine ⟨m1 + m2 + 1, gv, ?_, hr2⟩
        simp only [lowerE]
        exact g_and_true _ (g_lift_expr _ (by omega) hg1) (g_lift_expr _ (by omega) hg2)
      · cases h2
    | or a b =>
      have hw : wfE md a = true ∧ wfE md b = true := by simpa [wfE] using hwf
      simp only [stepExpr] at h
      obtain ⟨t1, va, t2, h1, h2, rfl⟩ := Res.bind_eq_some.mp h
      obtain ⟨m1, gva, hg1, hr1⟩ := ih.expr h1 hw.1 he
      split at h2
      · obtain ⟨rfl, rfl⟩ := Res.pure_eq_some.mp h2
        have := hr1.fo_left; subst this
        exact ⟨m1 + 1, _, by simp only [lowerE, List.append_nil]; exact g_or_true _ hg1, .fo _⟩
      · have := hr1.fo_left; subst this
        obtain ⟨m2, gv, hg2, hr2⟩ := ih.expr h2 hw.2 he
        refine ⟨m1 + m2 + 1, gv, ?_, hr2⟩
        simp only [lowerE]
        exact g_or_false _ (g_lift_expr _ (by omega) hg1) (g_lift_expr _ (by omega) hg2)
      · cases h2
    | ite c t f =>
      have hw : (wfE md c = true ∧ wfB md t = true) ∧ wfB md f = true := by simpa [wfE] using hwf
      simp only [stepExpr] at h
      obtain ⟨t1, vc, t2, h1, h2, rfl⟩ := Res.bind_eq_some.mp h
      obtain ⟨m1, gvc, hg1, hr1⟩ := ih.expr h1 hw.1.1 he
      split at h2
      · have := hr1.fo_left; subst this
        obtain ⟨m2, gv, hg2, hr2⟩ := ih.body h2 hw.1.2 he
        refine ⟨m1 + m2 + 2, gv, ?_, hr2⟩
        simp only [lowerE]
        exact g_ifElse_true _ (g_lift_expr _ (by omega) hg1) (g_lift_body _ (by omega) hg2)
      · have := hr1.fo_left; subst this
        obtain ⟨m2, gv, hg2, hr2⟩ := ih.body h2 hw.2 he
        refine ⟨m1 + m2 + 2, gv, ?_, hr2⟩
        simp only [lowerE]
        exact g_ifElse_false _ (g_lift_expr _ (by omega) hg1) (g_lift_body _ (by omega) hg2)
      · cases h2
    | call f arity args =>
      have hw : wfL md args = true ∧ (if args.length < arity then
          (if md = true then true
           else isPureForL (restNames (arity - args.length)) args) else true) = true := by
        simpa [wfE] using hwf
      simp only [stepExpr] at h
      obtain ⟨t1, vs, t2, h1, h2, rfl⟩ := Res.bind_eq_some.mp h
      have hlen : vs.length = args.length := evalList_length h1
      by_cases hlt : vs.length < arity
      · -- partial application: a closure over the missing parameters
        simp only [hlt, if_true] at h2
        obtain ⟨rfl, rfl⟩ := Res.pure_eq_some.mp h2
        have hlt' : args.length < arity := hlen ▸ hlt
        cases md with
        | false =>
          -- tinyfo: every given argument stays inside the closure (they are pure)
          have hat : isPureForL (restNames (arity - args.length)) args = true := by simpa [hlt'] using hw.2
          obtain ⟨rfl, gvs, hga, hrv, hall⟩ := sim_pures (restNames (arity - args.length)) n h1 hat hw.1 he
          refine ⟨1, .clo (restNames (arity - args.length))
            (.mk [] (.ret (.callFn f (lowerL false args ++ (restNames (arity - args.length)).map GExpr.var)))) genv, ?_, ?_⟩
          · simp only [lowerE, hlt', if_true, List.append_nil]
            exact g_funcLit _ 0 genv _ _
          · rw [← hlen] at hall ⊢
            exact VRel.pap hlt hga hrv (isGAtomL_of_pure hall)
        | true =>
          -- fc: the arguments that are not inert are evaluated first, into `_p…` bindings
          obtain ⟨m, X, gvs, _, hrun, hat, hrel, hgp⟩ := sim_paArgs ih (arity - args.length) args 0 h1 hw.1 he
          have heX := ERel.extras he X 0 ‹_›
          refine ⟨m + 4, .clo (restNames (arity - args.length))
            (.mk [] (.ret (.callFn f ((paArgs 0 args (lowerL true args)).1 ++ (restNames (arity - args.length)).map GExpr.var))))
            (X ++ genv), ?_, ?_⟩
          · simp only [lowerE, hlt', if_true]
            cases hemp : (paArgs 0 args (lowerL true args)).2.isEmpty with
            | true =>
              -- nothing to evaluate first: the closure itself
              have hnil : (paArgs 0 args (lowerL true args)).2 = [] := List.isEmpty_iff.mp hemp
              rw [hnil] at hrun
              simp only [grunStmts, Res.pure, Option.some.injEq, Prod.mk.injEq] at hrun
              obtain ⟨rfl, hX⟩ := hrun
              simp only [if_true, List.append_nil]
              rw [← hX]
              exact g_funcLit _ (m + 3) genv _ _
            | false =>
              simp only [Bool.false_eq_true, if_false]
              have hclo := g_funcLit (lowerProg true P) m (X ++ genv) (restNames (arity - args.length))
                (.mk [] (.ret (.callFn f ((paArgs 0 args (lowerL true args)).1 ++ (restNames (arity - args.length)).map GExpr.var))))
              have hb := g_body_ret (lowerProg true P)
                (grunStmts_le (gevalN_mono _ (Nat.le_succ m)) _ _ _ hrun) hclo
              have := g_iife (lowerProg true P) hb
              simpa using this
          · rw [← hlen]
            exact VRel.pap hlt hat hrel (by rw [hlen]; exact hgp)
      · simp only [hlt, if_false] at h2
        have hlt' : ¬ args.length < arity := hlen ▸ hlt
        obtain ⟨m1, gvs, hg1, hr1⟩ := sim_list ih h1 hw.1 he
        obtain ⟨d, hfind, hpl, m2, gv, hg2, hr2⟩ := sim_applyFull hP ih h2 hr1
        refine ⟨m1 + m2 + 1, gv, ?_, hr2⟩
        simp only [lowerE, hlt', if_false]
        exact g_callFn _ (g_lift_list _ (by omega) hg1) (find_lower hfind) hpl (g_lift_body _ (by omega) hg2)
    | callv f args =>
      have hw : wfE md f = true ∧ wfL md args = true := by simpa [wfE] using hwf
      simp only [stepExpr] at h
      obtain ⟨t1, fv, t2, h1, h2, rfl⟩ := Res.bind_eq_some.mp h
      obtain ⟨t3, vs, t4, h3, h4, rfl⟩ := Res.bind_eq_some.mp h2
      obtain ⟨m1, gfv, hg1, hr1⟩ := ih.expr h1 hw.1 he
      obtain ⟨m2, gvs, hg2, hr2⟩ := sim_list ih h3 hw.2 he
      obtain ⟨m3, gv, hg3, hr3⟩ := ih.app h4 hr1 hr2
      refine ⟨m1 + m2 + m3 + 1, gv, ?_, hr3⟩
      simp only [lowerE]
      exact g_callVal _ (g_lift_expr _ (by omega) hg1) (g_lift_list _ (by omega) hg2) (g_lift_app _ (by omega) hg3)
    | lam ps b =>
      simp [stepExpr, Res.pure] at h
      obtain ⟨rfl, rfl⟩ := h
      refine ⟨1, _, ?_, VRel.clo (by simpa [wfE] using hwf) he⟩
      simp only [lowerE]
      exact g_funcLit _ 0 genv _ _
    | pipe a f =>
      have hw : wfE md a = true ∧ wfE md f = true := by simpa [wfE] using hwf
      simp only [stepExpr] at h
      obtain ⟨t1, va, t2, h1, h2, rfl⟩ := Res.bind_eq_some.mp h
      obtain ⟨t3, vf, t4, h3, h4, rfl⟩ := Res.bind_eq_some.mp h2
      obtain ⟨m1, gva, hg1, hr1⟩ := ih.expr h1 hw.1 he
      obtain ⟨m2, gvf, hg2, hr2⟩ := ih.expr h3 hw.2 he
      obtain ⟨m3, gv, hg3, hr3⟩ := ih.app h4 hr2 (.cons hr1 .nil)
      refine ⟨m1 + m2 + m3 + 1, gv, ?_, hr3⟩
      simp only [lowerE]
      exact g_pipe _ (g_lift_expr _ (by omega) hg1) (g_lift_expr _ (by omega) hg2) (g_lift_app _ (by omega) hg3)
    | hof hn f args =>
      have hw : wfE md f = true ∧ wfL md args = true := by simpa [wfE] using hwf
      simp only [stepExpr] at h
      obtain ⟨t1, vf, t2, h1, h2, rfl⟩ := Res.bind_eq_some.mp h
      obtain ⟨t3, vs, t4, h3, h4, rfl⟩ := Res.bind_eq_some.mp h2
      obtain ⟨m1, gvf, hg1, hr1⟩ := ih.expr h1 hw.1 he
      obtain ⟨m2, gvs, hg2, hr2⟩ := sim_list ih h3 hw.2 he
      split at h4
      · -- map
        rename_i xs
        cases hr2 with | cons hx hnil =>
        cases hnil
        have := hx.fo_left; subst this
        obtain ⟨t5, ys, t6, h5, h6, rfl⟩ := Res.bind_eq_some.mp h4
        obtain ⟨m3, gys, hg3, hr3⟩ := sim_mapApp ih hr1 h5
        split at h6
        · rename_i fos hfos
          obtain ⟨rfl, rfl⟩ := Res.pure_eq_some.mp h6
          refine ⟨m1 + m2 + m3 + 1, .fo (.slice fos), ?_, .fo _⟩
          simp only [lowerE]
          rw [gexpr_succ]
          simp only [gstepExpr]
          refine Res.bind_eq_some.mpr ⟨t1, gvf, _, g_lift_expr _ (by omega) hg1, ?_, rfl⟩
          refine Res.bind_eq_some.mpr ⟨t3, _, _, g_lift_list _ (by omega) hg2, ?_, rfl⟩
          refine Res.bind_eq_some.mpr ⟨t5, gys, [], mapApp_le (gevalN_mono _ (by omega)).app _ _ _ _ hg3, ?_, rfl⟩
          rw [← hr3.toFOs, hfos]; rfl
        · cases h6
      · -- filter
        rename_i xs
        cases hr2 with | cons hx hnil =>
        cases hnil
        have := hx.fo_left; subst this
        obtain ⟨t5, ys, t6, h5, h6, rfl⟩ := Res.bind_eq_some.mp h4
        obtain ⟨rfl, rfl⟩ := Res.pure_eq_some.mp h6
        obtain ⟨m3, hg3⟩ := sim_filterApp ih hr1 h5
        refine ⟨m1 + m2 + m3 + 1, .fo (.slice ys), ?_, .fo _⟩
        simp only [lowerE]
        rw [gexpr_succ]
        simp only [gstepExpr]
        refine Res.bind_eq_some.mpr ⟨t1, gvf, _, g_lift_expr _ (by omega) hg1, ?_, rfl⟩
        refine Res.bind_eq_some.mpr ⟨t3, _, _, g_lift_list _ (by omega) hg2, ?_, rfl⟩
        exact Res.bind_eq_some.mpr ⟨t5, ys, [], filterApp_le (gevalN_mono _ (by omega)).app _ _ _ _ _ hg3, rfl, rfl⟩
      · -- fold
        rename_i v0 xs
        cases hr2 with | cons hv0 hrest =>
        cases hrest with | cons hx hnil =>
        cases hnil
        have := hx.fo_left; subst this
        obtain ⟨m3, gv, hg3, hr3⟩ := sim_foldApp ih hr1 h4 hv0
        refine ⟨m1 + m2 + m3 + 1, gv, ?_, hr3⟩
        simp only [lowerE]
        rw [gexpr_succ]
        simp only [gstepExpr]
        refine Res.bind_eq_some.mpr ⟨t1, gvf, _, g_lift_expr _ (by omega) hg1, ?_, rfl⟩
        refine Res.bind_eq_some.mpr ⟨t3, _, _, g_lift_list _ (by omega) hg2, ?_, rfl⟩
        exact foldApp_le (gevalN_mono _ (by omega)).app _ _ _ _ _ hg3
      · cases h4
    | matchE t arms =>
      have hw : wfE md t = true ∧ wfArms md arms = true := by simpa [wfE] using hwf
      simp only [stepExpr] at h
      obtain ⟨m, gv, hg, hr⟩ := sim_match ih h hw.1 hw.2 he
      refine ⟨m + 3, gv, ?_, hr⟩
      simp only [lowerE]
      have hb := g_body_switch (lowerProg md P) (grunStmts_nil _ genv) hg
      simp only [List.nil_append] at hb
      exact g_iife _ hb
    | matchSE t arms =>
      have hw : wfE md t = true ∧ wfSArms md arms = true := by simpa [wfE] using hwf
      simp only [stepExpr] at h
      obtain ⟨m, gv, hg, hr⟩ := sim_matchS ih h hw.1 hw.2 he
      refine ⟨m + 3, gv, ?_, hr⟩
      simp only [lowerE]
      have hb := g_body_switchS (lowerProg md P) (grunStmts_nil _ genv) hg
      simp only [List.nil_append] at hb
      exact g_iife _ hb
  -- bodies
  · intro env b tr v h hwf genv he
    rw [evalN_succ_body] at h
    obtain ⟨ss, tail⟩ := b
    have hw : wfSs md ss = true ∧ wfT md tail = true := by simpa [wfB] using hwf
    simp only [stepBody] at h
    obtain ⟨t1, env', t2, h1, h2, rfl⟩ := Res.bind_eq_some.mp h
    obtain ⟨m1, genv', hg1, he'⟩ := sim_stmts ih h1 hw.1 he
    cases tail with
    | ret e =>
      obtain ⟨m2, gv, hg2, hr2⟩ := ih.expr h2 (by simpa [wfT] using hw.2) he'
      refine ⟨m1 + m2 + 1, gv, ?_, hr2⟩
      simp only [lowerB, lowerT]
      exact g_body_ret _ (grunStmts_le (gevalN_mono _ (by omega)) _ _ _ hg1) (g_lift_expr _ (by omega) hg2)
    | matchT t arms =>
      have hw2 : wfE md t = true ∧ wfArms md arms = true := by simpa [wfT] using hw.2
      obtain ⟨m2, gv, hg2, hr2⟩ := sim_match ih h2 hw2.1 hw2.2 he'
      refine ⟨m1 + m2 + 1, gv, ?_, hr2⟩
      simp only [lowerB, lowerT]
      exact g_body_switch _ (grunStmts_le (gevalN_mono _ (by omega)) _ _ _ hg1)
        (gevalSwitch_le (gevalN_mono _ (by omega)) _ _ _ _ hg2)
    | matchST t arms =>
      have hw2 : wfE md t = true ∧ wfSArms md arms = true := by simpa [wfT] using hw.2
      obtain ⟨m2, gv, hg2, hr2⟩ := sim_matchS ih h2 hw2.1 hw2.2 he'
      refine ⟨m1 + m2 + 1, gv, ?_, hr2⟩
      simp only [lowerB, lowerT]
      exact g_body_switchS _ (grunStmts_le (gevalN_mono _ (by omega)) _ _ _ hg1)
        (gevalSwitchS_le (gevalN_mono _ (by omega)) _ _ _ _ hg2)
  -- applications of function values
  · intro f args tr v h gf gargs hf hargs
    rw [evalN_succ_app] at h
    cases hf with
    | fo x => simp [stepApp, stuck] at h
    | clo hwb hce =>
      rename_i ps b cenv gcenv
      simp only [stepApp] at h
      split at h
      · rename_i hlen
        obtain ⟨m, gv, hg, hr⟩ := ih.body h hwb (ERel.call (ps := ps) hargs hce)
        exact ⟨m + 1, gv, g_app_clo _ (by rw [hlen, hargs.length]) hg, hr⟩
      · cases h
    | pap hlt hga hvs hall =>
      rename_i fn arity vs ges gvs genv k
      simp only [stepApp] at h
      obtain ⟨gvs', hatoms, hvs'⟩ := geval_atoms (lowerProg md P) (arity - vs.length) gargs genv k ges hvs hga hall
      obtain ⟨d, hfind, hpl, m, gv, hg, hr⟩ := sim_applyFull hP ih h (VRels.append hvs' hargs)
      -- the number of actual arguments is the number of closure parameters
      have hargsLen : (restNames (arity - vs.length)).length = gargs.length := by
        unfold applyFull at h
        split at h
        · rename_i hl
          rw [restNames_length, ← hargs.length]
          simp at hl; omega
        · cases h
      refine ⟨m + k + 4, gv, ?_, hr⟩
      apply g_app_clo _ hargsLen
      have hargsEval := evalList_append
        (g_lift_list (lowerProg md P) (show k + 1 ≤ m + k + 1 by omega) hatoms)
        (evalList_rest_vars (lowerProg md P) (m + k) (restNames (arity - vs.length)) gargs genv (restNames_nodup _) hargsLen)
      have hcall := g_callFn (lowerProg md P) hargsEval (find_lower hfind) hpl (g_lift_body _ (show m ≤ m + k + 1 by omega) hg)
      have hb := g_body_ret (lowerProg md P) (grunStmts_nil _ _) hcall
      simpa using hb

theorem sim (hP : wfProg md P) : ∀ n, SimAt md P n := by
  intro n
  induction n with
  | zero =>
    exact ⟨fun h => by simp [evalN] at h, fun h => by simp [evalN] at h, fun h => by simp [evalN] at h⟩
  | succ n ih => exact sim_step hP ih

/-- **Forward simulation.**  If the reference semantics runs `entry ()` to completion with output `tr`,
so does the Go-core semantics of the lowered program, with the same output. -/
theorem lower_correct (P : Prog) (hP : wfProg md P) (entry : String) (n : Nat) (tr : Trace) (v : SVal)
    (h : runProg P entry n = some (tr, v)) :
    ∃ m gv, grunProg (lowerProg md P) entry m = some (tr, gv) ∧ VRel md v gv := by
  unfold runProg at h
  cases n with
  | zero => simp [evalN] at h
  | succ n =>
    rw [evalN_succ_app] at h
    simp only [stepApp, List.nil_append] at h
    obtain ⟨d, hfind, hpl, m, gv, hg, hr⟩ := sim_applyFull hP (sim hP n) h .nil
    refine ⟨m + 1, gv, ?_, hr⟩
    unfold grunProg
    have := g_callFn (lowerProg md P) (genv := []) (f := entry) (ges := []) (t1 := []) (gvs := []) rfl (find_lower hfind) hpl hg
    simpa using this


end Folang.Sem

namespace Folang.Sem

/-! ### the result does not depend on the fuel -/

/-- the reference semantics is a (partial) function of the program: two completed runs agree -/
theorem runProg_deterministic (P : Prog) (entry : String) (n m : Nat) (r r' : Trace × SVal)
    (h : runProg P entry n = some r) (h' : runProg P entry m = some r') : r = r' := by
  unfold runProg at h h'
  have h1 := (evalN_mono P (Nat.le_max_left n m)).app _ _ _ h
  have h2 := (evalN_mono P (Nat.le_max_right n m)).app _ _ _ h'
  rw [h1] at h2
  exact Option.some.inj h2

/-- so is the Go-core semantics -/
theorem grunProg_deterministic (GP : GProg) (entry : String) (n m : Nat) (r r' : Trace × GVal)
    (h : grunProg GP entry n = some r) (h' : grunProg GP entry m = some r') : r = r' := by
  unfold grunProg at h h'
  have h1 := (gevalN_mono GP (Nat.le_max_left n m)).expr _ _ _ h
  have h2 := (gevalN_mono GP (Nat.le_max_right n m)).expr _ _ _ h'
  rw [h1] at h2
  exact Option.some.inj h2

/-- **Forward simulation, in the form "the lowered program prints what the source prints".**
If the reference semantics finishes with output `tr`, then EVERY completed run of the Go-core
semantics on the lowered program — with whatever fuel — has exactly the output `tr` (and at least one
run completes). -/
theorem lower_correct_output (P : Prog) (hP : wfProg md P) (entry : String) (n : Nat) (tr : Trace) (v : SVal)
    (h : runProg P entry n = some (tr, v)) :
    (∃ m gv, grunProg (lowerProg md P) entry m = some (tr, gv)) ∧
    ∀ m tr' gv', grunProg (lowerProg md P) entry m = some (tr', gv') → tr' = tr := by
  obtain ⟨m0, gv, hg, _⟩ := lower_correct P hP entry n tr v h
  refine ⟨⟨m0, gv, hg⟩, ?_⟩
  intro m tr' gv' hg'
  have := grunProg_deterministic (lowerProg md P) entry m m0 _ _ hg' hg
  exact (Prod.mk.inj this).1

/-! ### non-vacuity: a concrete program meeting the hypotheses

    let add (a) (b) = a + b
    let main () =
      let f = add 1            -- partial application (atomic given argument)
      let g = fun (x) -> if x > 2 then (f x) else 0
      [3; 1] |> slice.Map g |> slice.Fold add 0      -- closures through library calls, pipes
-/
def exampleProg : Prog := [
  { name := "add", params := ["a", "b"], body := .mk [] (.ret (.prim (.arith "+") [.var "a", .var "b"])) },
  { name := "main", params := [], body := .mk
      [ .let1 "f" (.call "add" 2 [.lit (.int 1)]),
        .let1 "g" (.lam ["x"] (.mk [] (.ret (.ite (.prim (.arith ">") [.var "x", .lit (.int 2)])
            (.mk [] (.ret (.callv (.var "f") [.var "x"]))) (.mk [] (.ret (.lit (.int 0)))))))) ]
      (.ret (.pipe (.pipe (.prim .mkSlice [.lit (.int 3), .lit (.int 1)]) (.lam ["s"] (.mk [] (.ret (.hof "map" (.var "g") [.var "s"])))))
        (.lam ["s"] (.mk [] (.ret (.hof "fold" (.call "add" 2 []) [.lit (.int 0), .var "s"])))))) } ]

theorem exampleProg_wf : wfProg true exampleProg := by
  intro d hd
  simp only [exampleProg, List.mem_cons, List.not_mem_nil, or_false] at hd
  rcases hd with rfl | rfl <;> decide

def intResult (r : Option (Trace × SVal)) : Option (Trace × Int) :=
  match r with
  | some (t, .fo (.lit (.int k))) => some (t, k)
  | _ => none

/-- it runs to completion without output and returns 4 (kernel evaluation of the reference semantics) -/
theorem exampleProg_runs : intResult (runProg exampleProg "main" 30) = some ([], 4) := by decide

/-- hence, by the theorem, so does the Go-core semantics of its lowering -/
theorem exampleProg_lowered : ∃ m gv, grunProg (lowerProg true exampleProg) "main" m = some ([], gv) := by
  have h2 := exampleProg_runs
  cases h : runProg exampleProg "main" 30 with
  | none => simp [h, intResult] at h2
  | some r =>
    obtain ⟨tr, v⟩ := r
    have htr : tr = [] := by
      rw [h] at h2
      unfold intResult at h2
      split at h2
      · rename_i heq
        simp only [Option.some.injEq, Prod.mk.injEq] at heq h2
        rw [heq.1]; exact h2.1
      · cases h2
    obtain ⟨m, gv, hg, _⟩ := lower_correct exampleProg exampleProg_wf "main" 30 tr v h
    exact ⟨m, gv, htr ▸ hg⟩

/-! ### non-vacuity for the repaired lowering: an EFFECTFUL given argument

    let add (a) (b) = a + b
    let say (tag) (v) = println tag; v
    let main () =
      let f = add (say "arg" 1)      -- evaluated once, here
      (f 2) + (f 3)
-/
def exampleD9 : Prog := [
  { name := "add", params := ["a", "b"], body := .mk [] (.ret (.prim (.arith "+") [.var "a", .var "b"])) },
  { name := "say", params := ["tag", "v"], body := .mk [.exec (.prim .println [.var "tag"])] (.ret (.var "v")) },
  { name := "main", params := [], body := .mk
      [ .let1 "f" (.call "add" 2 [.call "say" 2 [.lit (.str "arg"), .lit (.int 1)]]) ]
      (.ret (.prim (.arith "+") [.callv (.var "f") [.lit (.int 2)], .callv (.var "f") [.lit (.int 3)]])) } ]

theorem exampleD9_wf : wfProg true exampleD9 := by
  intro d hd
  simp only [exampleD9, List.mem_cons, List.not_mem_nil, or_false] at hd
  rcases hd with rfl | rfl | rfl <;> decide

/-- the reference semantics prints "arg" ONCE and returns 7 -/
theorem exampleD9_runs : intResult (runProg exampleD9 "main" 20) = some (["arg\n"], 7) := by decide

/-- and so does every completed run of the lowered program (the lowering of fc after the fix), by the theorem -/
theorem exampleD9_lowered :
    ∀ m tr' gv', grunProg (lowerProg true exampleD9) "main" m = some (tr', gv') → tr' = ["arg\n"] := by
  have h2 := exampleD9_runs
  cases h : runProg exampleD9 "main" 20 with
  | none => simp [h, intResult] at h2
  | some r =>
    obtain ⟨tr, v⟩ := r
    have htr : tr = ["arg\n"] := by
      rw [h] at h2
      unfold intResult at h2
      split at h2
      · rename_i heq
        simp only [Option.some.injEq, Prod.mk.injEq] at heq h2
        rw [heq.1]; exact h2.1
      · cases h2
    intro m tr' gv' hg
    rw [(lower_correct_output exampleD9 exampleD9_wf "main" 20 tr v h).2 m tr' gv' hg, htr]

/-! nested partial applications and a lambda as given arguments (the inert rule of the emitter):

    let apply f x = f x
    let main () =
      let g = apply (add (say "arg" 1))     -- the inner partial application is NOT inert: bound once
      let h = apply (add 5)                 -- inert: stays inside the closure, rebuilt at every call
      let k = apply (fun y -> y + 1)        -- a lambda is inert
      (g 10) + (g 20) + (h 1) + (k 1)
-/
def exampleNested : Prog := [
  { name := "add", params := ["a", "b"], body := .mk [] (.ret (.prim (.arith "+") [.var "a", .var "b"])) },
  { name := "say", params := ["tag", "v"], body := .mk [.exec (.prim .println [.var "tag"])] (.ret (.var "v")) },
  { name := "apply", params := ["f", "x"], body := .mk [] (.ret (.callv (.var "f") [.var "x"])) },
  { name := "main", params := [], body := .mk
      [ .let1 "g" (.call "apply" 2 [.call "add" 2 [.call "say" 2 [.lit (.str "arg"), .lit (.int 1)]]]),
        .let1 "h" (.call "apply" 2 [.call "add" 2 [.lit (.int 5)]]),
        .let1 "k" (.call "apply" 2 [.lam ["y"] (.mk [] (.ret (.prim (.arith "+") [.var "y", .lit (.int 1)])))]) ]
      (.ret (.prim (.arith "+") [.prim (.arith "+") [.prim (.arith "+")
        [.callv (.var "g") [.lit (.int 10)], .callv (.var "g") [.lit (.int 20)]], .callv (.var "h") [.lit (.int 1)]],
        .callv (.var "k") [.lit (.int 1)]])) } ]

theorem exampleNested_wf : wfProg true exampleNested := by
  intro d hd
  simp only [exampleNested, List.mem_cons, List.not_mem_nil, or_false] at hd
  rcases hd with rfl | rfl | rfl | rfl <;> decide

/-- "arg" is printed once although g is called twice: 11 + 21 + 6 + 2 -/
theorem exampleNested_runs : intResult (runProg exampleNested "main" 30) = some (["arg\n"], 40) := by decide

/-- the lowering keeps the inert inner partial application and the lambda inside the closures and binds
the other one: what `fcPartialApplyGo` emits -/
theorem exampleNested_lowering :
    ((lowerProg true exampleNested).find? (fun d => d.name == "main")).map (fun d => d.body) =
    some (.mk
      [ .define "g" (.callVal (.funcLit [] (.mk
          [ .define "_p0" (.callVal (.funcLit [] (.mk
              [ .define "_p0" (.callFn "say" [.lit (.str "arg"), .lit (.int 1)]) ]
              (.ret (.funcLit ["_r0"] (.mk [] (.ret (.callFn "add" [.var "_p0", .var "_r0"]))))))) []) ]
          (.ret (.funcLit ["_r0"] (.mk [] (.ret (.callFn "apply" [.var "_p0", .var "_r0"]))))))) []),
        .define "h" (.funcLit ["_r0"] (.mk [] (.ret (.callFn "apply"
          [.funcLit ["_r0"] (.mk [] (.ret (.callFn "add" [.lit (.int 5), .var "_r0"]))), .var "_r0"])))),
        .define "k" (.funcLit ["_r0"] (.mk [] (.ret (.callFn "apply"
          [.funcLit ["y"] (.mk [] (.ret (.prim (.arith "+") [.var "y", .lit (.int 1)]))), .var "_r0"])))) ]
      (.ret (.prim (.arith "+") [.prim (.arith "+") [.prim (.arith "+")
        [.callVal (.var "g") [.lit (.int 10)], .callVal (.var "g") [.lit (.int 20)]], .callVal (.var "h") [.lit (.int 1)]],
        .callVal (.var "k") [.lit (.int 1)]]))) := by rfl


end Folang.Sem
