import Folang.Sem.Syntax
/-
Reference semantics of core Folang: strict, left to right, lexically scoped, big-step, with an output
trace.  `evalN P n` is the evaluator with recursion depth bounded by the fuel `n` (a definitional
device: every nested evaluation uses one unit); `none` = stuck or out of fuel.  The oracle runs this
very definition (stream sem.prog), so the theorems of Props/Sim.lean are about the semantics the
compiled programs are compared with on every run.
-/
namespace Folang.Sem

/-- result of an evaluation: the output it produced and its value -/
abbrev Res (α : Type) := Option (Trace × α)

def Res.bind {α β : Type} (x : Res α) (f : α → Res β) : Res β :=
  match x with
  | none => none
  | some (t1, a) =>
    match f a with
    | none => none
    | some (t2, b) => some (t1 ++ t2, b)

def Res.pure {α : Type} (a : α) : Res α := some ([], a)

instance : Monad Res where
  pure := Res.pure
  bind := Res.bind

def stuck {α : Type} : Res α := none

/-- lift an effect-free partial result -/
def ofOpt {α : Type} (o : Option α) : Res α := o.map (fun a => ([], a))

def SVal.toFO : SVal → Option FO
  | .fo v => some v
  | _ => none

def toFOs : List SVal → Option (List FO)
  | [] => some []
  | v :: vs => match v.toFO, toFOs vs with
    | some a, some as => some (a :: as)
    | _, _ => none

/-- evaluate a list of expressions left to right with `f` -/
def evalList {ε α β : Type} (f : ε → α → Res β) (env : ε) : List α → Res (List β)
  | [] => Res.pure []
  | e :: es => Res.bind (f env e) (fun v => Res.bind (evalList f env es) (fun vs => Res.pure (v :: vs)))

/-- first arm whose case is `c` or the default `_` -/
def pickArm : List Arm → String → Option (Option String × Body)
  | [], _ => none
  | .mk c' bind b :: rest, c => if c' == c || c' == "_" then some (if c' == "_" then none else bind, b) else pickArm rest c

/-- bind the payload of the matched case -/
def bindArm {α : Type} (inj : FO → α) (env : List (String × α)) : Option String → Option FO → Option (List (String × α))
  | none, _ => some env
  | some x, some v => some ((x, inj v) :: env)
  | some _, none => none

/-- the recursive knot: evaluators of the previous fuel level -/
structure Rec where
  expr : Env → Expr → Res SVal
  body : Env → Body → Res SVal
  app : SVal → List SVal → Res SVal

/-- higher-order library functions over an application function -/
def mapApp {V : Type} (app : V → List V → Res V) (inj : FO → V) (f : V) : List FO → Res (List V)
  | [] => Res.pure []
  | x :: xs => Res.bind (app f [inj x]) (fun y => Res.bind (mapApp app inj f xs) (fun ys => Res.pure (y :: ys)))

def filterApp {V : Type} (app : V → List V → Res V) (inj : FO → V) (prj : V → Option FO) (f : V) : List FO → Res (List FO)
  | [] => Res.pure []
  | x :: xs => Res.bind (app f [inj x]) (fun y =>
      match prj y with
      | some (.lit (.bool keep)) => Res.bind (filterApp app inj prj f xs) (fun ys => Res.pure (if keep then x :: ys else ys))
      | _ => stuck)

def foldApp {V : Type} (app : V → List V → Res V) (inj : FO → V) (f : V) : V → List FO → Res V
  | acc, [] => Res.pure acc
  | acc, x :: xs => Res.bind (app f [acc, inj x]) (fun acc' => foldApp app inj f acc' xs)

/-- saturated application of the top-level function `f` -/
def applyFull (r : Rec) (P : Prog) (f : String) (arity : Nat) (all : List SVal) : Res SVal :=
  if all.length = arity then
    match P.find f with
    | some d => if d.params.length = arity then r.body (d.params.zip all).reverse d.body else stuck
    | none => stuck
  else stuck

def evalMatch (r : Rec) (env : Env) (t : Expr) (arms : List Arm) : Res SVal :=
  Res.bind (r.expr env t) (fun vt =>
    match vt with
    | .fo (.uni c payload) =>
      match pickArm arms c with
      | some (bind, b) =>
        match bindArm SVal.fo env bind payload with
        | some env' => r.body env' b
        | none => stuck
      | none => stuck
    | _ => stuck)

def pickSArm : List SArm → String → Option Body
  | [], _ => none
  | .mk (some p) b :: rest, s => if p == s then some b else pickSArm rest s
  | .mk none b :: _, _ => some b

def evalMatchS (r : Rec) (env : Env) (t : Expr) (arms : List SArm) : Res SVal :=
  Res.bind (r.expr env t) (fun vt =>
    match vt with
    | .fo (.lit (.str s)) =>
      match pickSArm arms s with
      | some b => r.body env b
      | none => stuck
    | _ => stuck)

def stepExpr (r : Rec) (P : Prog) (env : Env) : Expr → Res SVal
  | .lit l => Res.pure (.fo (.lit l))
  | .var x => ofOpt (lookup env x)
  | .prim p args =>
    Res.bind (evalList r.expr env args) (fun vs =>
      match toFOs vs with
      | some fos => Res.bind (primFO p fos) (fun v => Res.pure (.fo v))
      | none => stuck)
  | .and a b =>
    Res.bind (r.expr env a) (fun va =>
      match va with
      | .fo (.lit (.bool false)) => Res.pure va
      | .fo (.lit (.bool true)) => r.expr env b
      | _ => stuck)
  | .or a b =>
    Res.bind (r.expr env a) (fun va =>
      match va with
      | .fo (.lit (.bool true)) => Res.pure va
      | .fo (.lit (.bool false)) => r.expr env b
      | _ => stuck)
  | .ite c t f =>
    Res.bind (r.expr env c) (fun vc =>
      match vc with
      | .fo (.lit (.bool true)) => r.body env t
      | .fo (.lit (.bool false)) => r.body env f
      | _ => stuck)
  | .call f arity args =>
    -- fewer arguments than parameters: a partial application value (the given arguments are evaluated now)
    Res.bind (evalList r.expr env args) (fun vs =>
      if vs.length < arity then Res.pure (.pap f arity vs) else applyFull r P f arity vs)
  | .callv f args =>
    Res.bind (r.expr env f) (fun fv => Res.bind (evalList r.expr env args) (fun vs => r.app fv vs))
  | .lam ps b => Res.pure (.clo ps b env)
  | .pipe a f => Res.bind (r.expr env a) (fun va => Res.bind (r.expr env f) (fun vf => r.app vf [va]))
  | .hof h f args =>
    Res.bind (r.expr env f) (fun vf => Res.bind (evalList r.expr env args) (fun vs =>
      match h, vs with
      | "map", [.fo (.slice xs)] =>
        Res.bind (mapApp r.app SVal.fo vf xs) (fun ys =>
          match toFOs ys with
          | some fos => Res.pure (.fo (.slice fos))
          | none => stuck)
      | "filter", [.fo (.slice xs)] => Res.bind (filterApp r.app SVal.fo SVal.toFO vf xs) (fun ys => Res.pure (.fo (.slice ys)))
      | "fold", [v0, .fo (.slice xs)] => foldApp r.app SVal.fo vf v0 xs
      | _, _ => stuck))
  | .matchE t arms => evalMatch r env t arms
  | .matchSE t arms => evalMatchS r env t arms

def runStmts (r : Rec) : Env → List Stmt → Res Env
  | env, [] => Res.pure env
  | env, .let1 x e :: ss => Res.bind (r.expr env e) (fun v => runStmts r ((x, v) :: env) ss)
  | env, .let2 x y e :: ss =>
    Res.bind (r.expr env e) (fun v =>
      match v with
      | .fo (.tup a b) => runStmts r ((y, .fo b) :: (x, .fo a) :: env) ss
      | _ => stuck)
  | env, .exec e :: ss => Res.bind (r.expr env e) (fun _ => runStmts r env ss)
  | env, .ifonly c b :: ss =>
    Res.bind (r.expr env c) (fun vc =>
      match vc with
      | .fo (.lit (.bool true)) => Res.bind (r.body env b) (fun _ => runStmts r env ss)
      | .fo (.lit (.bool false)) => runStmts r env ss
      | _ => stuck)

def stepBody (r : Rec) (env : Env) : Body → Res SVal
  | .mk ss tail =>
    Res.bind (runStmts r env ss) (fun env' =>
      match tail with
      | .ret e => r.expr env' e
      | .matchT t arms => evalMatch r env' t arms
      | .matchST t arms => evalMatchS r env' t arms)

def stepApp (r : Rec) (P : Prog) : SVal → List SVal → Res SVal
  | .clo ps b cenv, args => if ps.length = args.length then r.body ((ps.zip args).reverse ++ cenv) b else stuck
  -- a function value is applied to all its remaining arguments (under-application of a VALUE is
  -- outside the modelled fragment: stuck)
  | .pap f arity given, args => applyFull r P f arity (given ++ args)
  | .fo _, _ => stuck

def evalN (P : Prog) : Nat → Rec
  | 0 => { expr := fun _ _ => none, body := fun _ _ => none, app := fun _ _ => none }
  | n + 1 =>
    let r := evalN P n
    { expr := stepExpr r P, body := stepBody r, app := stepApp r P }

/-- run the entry function (no parameters): the program's output -/
def runProg (P : Prog) (entry : String) (fuel : Nat) : Option (Trace × SVal) :=
  (evalN P fuel).app (.pap entry 0 []) []

end Folang.Sem
