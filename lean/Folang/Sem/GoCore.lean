import Folang.Sem.Eval
/-
Semantics of Go-core: the part of Go that fc / tinyfo emit for core Folang.  What is assumed of Go
(trusted base): call-by-value; the operands of a call — the function value first, then the arguments —
are evaluated left to right before the call; `&&` / `||` evaluate the right operand only when needed;
a func literal captures the variables in scope (emitted code never reassigns a variable, so capture
by reference and by value coincide); `x := e` extends the scope of the rest of the block; a type
switch selects the case of the dynamic type; integers do not wrap in the model.
The runtime functions with control behaviour are modelled by their definitions in pkg/frt and
pkg/slice: IfElse(c, t, f) calls t() or f() after all three arguments were evaluated; IfOnly;
Pipe(a, f) = f(a); Map / Filter / Fold call f on the elements in order (their own correctness: C13/C14).
-/
namespace Folang.Sem

def GVal.toFO : GVal → Option FO
  | .fo v => some v
  | _ => none

def gtoFOs : List GVal → Option (List FO)
  | [] => some []
  | v :: vs => match v.toFO, gtoFOs vs with
    | some a, some as => some (a :: as)
    | _, _ => none

structure GRec where
  expr : GEnv → GExpr → Res GVal
  body : GEnv → GBody → Res GVal
  app : GVal → List GVal → Res GVal

def pickCase : List GCase → String → Option (Option String × GBody)
  | [], _ => none
  | .mk c' bind b :: rest, c => if c' == c || c' == "_" then some (if c' == "_" then none else bind, b) else pickCase rest c

def gevalSwitch (r : GRec) (env : GEnv) (t : GExpr) (cases : List GCase) : Res GVal :=
  Res.bind (r.expr env t) (fun vt =>
    match vt with
    | .fo (.uni c payload) =>
      match pickCase cases c with
      | some (bind, b) =>
        match bindArm GVal.fo env bind payload with
        | some env' => r.body env' b
        | none => stuck
      | none => stuck                      -- default: panic("Union pattern fail. Never reached here.")
    | _ => stuck)

def pickSCase : List GSCase → String → Option GBody
  | [], _ => none
  | .mk (some p) b :: rest, s => if p == s then some b else pickSCase rest s
  | .mk none b :: _, _ => some b

def gevalSwitchS (r : GRec) (env : GEnv) (t : GExpr) (cases : List GSCase) : Res GVal :=
  Res.bind (r.expr env t) (fun vt =>
    match vt with
    | .fo (.lit (.str s)) =>
      match pickSCase cases s with
      | some b => r.body env b
      | none => stuck
    | _ => stuck)

def gstepExpr (r : GRec) (P : GProg) (env : GEnv) : GExpr → Res GVal
  | .lit l => Res.pure (.fo (.lit l))
  | .var x => ofOpt (lookup env x)
  | .prim p args =>
    Res.bind (evalList r.expr env args) (fun vs =>
      match gtoFOs vs with
      | some fos => Res.bind (primFO p fos) (fun v => Res.pure (.fo v))
      | none => stuck)
  | .and a b =>
    Res.bind (r.expr env a) (fun va =>
      match va with
      | .fo (.lit (.bool false)) => Res.pure va
      | .fo (.lit (.bool true)) => r.expr env b
      | _ => stuck)
  | .or a b =>
    Res.bind (r.expr env a) (fun va =>
      match va with
      | .fo (.lit (.bool true)) => Res.pure va
      | .fo (.lit (.bool false)) => r.expr env b
      | _ => stuck)
  | .ifElse c t f =>
    -- all three arguments are evaluated, then frt.IfElse calls one of the thunks
    Res.bind (r.expr env c) (fun vc => Res.bind (r.expr env t) (fun vt => Res.bind (r.expr env f) (fun vf =>
      match vc with
      | .fo (.lit (.bool true)) => r.app vt []
      | .fo (.lit (.bool false)) => r.app vf []
      | _ => stuck)))
  | .ifOnly c t =>
    Res.bind (r.expr env c) (fun vc => Res.bind (r.expr env t) (fun vt =>
      match vc with
      | .fo (.lit (.bool true)) => Res.bind (r.app vt []) (fun _ => Res.pure (.fo (.lit .unit)))
      | .fo (.lit (.bool false)) => Res.pure (.fo (.lit .unit))
      | _ => stuck))
  | .callFn f args =>
    Res.bind (evalList r.expr env args) (fun vs =>
      match P.find f with
      | some d => if d.params.length = vs.length then r.body (d.params.zip vs).reverse d.body else stuck
      | none => stuck)
  | .callVal f args =>
    Res.bind (r.expr env f) (fun fv => Res.bind (evalList r.expr env args) (fun vs => r.app fv vs))
  | .funcLit ps b => Res.pure (.clo ps b env)
  | .pipe a f => Res.bind (r.expr env a) (fun va => Res.bind (r.expr env f) (fun vf => r.app vf [va]))
  | .hof h f args =>
    Res.bind (r.expr env f) (fun vf => Res.bind (evalList r.expr env args) (fun vs =>
      match h, vs with
      | "map", [.fo (.slice xs)] =>
        Res.bind (mapApp r.app GVal.fo vf xs) (fun ys =>
          match gtoFOs ys with
          | some fos => Res.pure (.fo (.slice fos))
          | none => stuck)
      | "filter", [.fo (.slice xs)] => Res.bind (filterApp r.app GVal.fo GVal.toFO vf xs) (fun ys => Res.pure (.fo (.slice ys)))
      | "fold", [v0, .fo (.slice xs)] => foldApp r.app GVal.fo vf v0 xs
      | _, _ => stuck))

def grunStmts (r : GRec) : GEnv → List GStmt → Res GEnv
  | env, [] => Res.pure env
  | env, .define x e :: ss => Res.bind (r.expr env e) (fun v => grunStmts r ((x, v) :: env) ss)
  | env, .define2 x y e :: ss =>
    Res.bind (r.expr env e) (fun v =>
      match v with
      | .fo (.tup a b) => grunStmts r ((y, .fo b) :: (x, .fo a) :: env) ss
      | _ => stuck)
  | env, .exec e :: ss => Res.bind (r.expr env e) (fun _ => grunStmts r env ss)

def gstepBody (r : GRec) (env : GEnv) : GBody → Res GVal
  | .mk ss tail =>
    Res.bind (grunStmts r env ss) (fun env' =>
      match tail with
      | .ret e => r.expr env' e
      | .switch t cases => gevalSwitch r env' t cases
      | .switchS t cases => gevalSwitchS r env' t cases)

def gstepApp (r : GRec) : GVal → List GVal → Res GVal
  | .clo ps b cenv, args => if ps.length = args.length then r.body ((ps.zip args).reverse ++ cenv) b else stuck
  | .fo _, _ => stuck

def gevalN (P : GProg) : Nat → GRec
  | 0 => { expr := fun _ _ => none, body := fun _ _ => none, app := fun _ _ => none }
  | n + 1 =>
    let r := gevalN P n
    { expr := gstepExpr r P, body := gstepBody r, app := gstepApp r }

/-- run `entry()` -/
def grunProg (P : GProg) (entry : String) (fuel : Nat) : Option (Trace × GVal) :=
  (gevalN P fuel).expr [] (.callFn entry [])

end Folang.Sem
