import Folang.Sem.GoCore
/-
The lowering of core Folang to Go-core, as fc's emitter does it (fc/expr_to_go.fo, fc/stmt_to_go.fo;
tinyfo/ast.go has the same scheme):
  if c then t else f        ↦  frt.IfElse(c, (func () T { t }), (func () T { f }))
  if c then b   (statement) ↦  frt.IfOnly(c, (func () { b }))
  f a   (f takes more)      ↦  (func (_r0 …) T { return f(a, _r0, …) })        -- fcPartialApplyGo
                               with `bind` (fc after the fix of D9): a given argument that is not inert
                               (a literal, a variable, a field of a variable) is evaluated first:
                               (func () func(_r0 …) T { _p0 := a; return func (_r0 …) T { return f(_p0, _r0 …) } })()
                               without `bind` (tinyfo): every given argument stays inside the closure
  a |> f                    ↦  frt.Pipe(a, f)
  match in return position  ↦  switch _v := (t).(type) { case U_C: x := _v.Value; … }
  match elsewhere           ↦  (func () T { switch … })()
  let x = e / let (x, y) = e ↦ x := e / x, y := frt.Destr2(e)
  fun ps -> b               ↦  func (ps) T { b }
everything else homomorphically.
-/
namespace Folang.Sem

def restNames (n : Nat) : List String := (List.range n).map (fun i => "_r" ++ toString i)

def pName (i : Nat) : String := "_p" ++ toString i

/-! argument forms whose evaluation runs no code of the program (isInertArg of fc/expr_to_go.fo,
restricted to the forms of the fragment): literals, variables (a union case without payload is one), fields of a variable, lambdas, and
partial applications of such arguments (they only build a closure) -/
mutual
def isInert : Expr → Bool
  | .lit _ => true
  | .var _ => true
  | .prim (.fld _) [.var _] => true
  | .prim (.ctor _ _) [] => true        -- a case without payload is a package variable
  | .lam _ _ => true
  | .call _ arity args => decide (args.length < arity) && isInertL args
  | _ => false
def isInertL : List Expr → Bool
  | [] => true
  | e :: es => isInert e && isInertL es
end

/-- the given arguments of a partial application from position `i` on: what the closure body
mentions for each, and the bindings that evaluate the others beforehand (partialArgGo) -/
def paArgs : Nat → List Expr → List GExpr → List GExpr × List GStmt
  | i, a :: as, g :: gs =>
    let r := paArgs (i + 1) as gs
    if isInert a then (g :: r.1, r.2) else (.var (pName i) :: r.1, .define (pName i) g :: r.2)
  | _, _, _ => ([], [])

mutual
def lowerE (bind : Bool) : Expr → GExpr
  | .lit l => .lit l
  | .var x => .var x
  | .prim p args => .prim p (lowerL bind args)
  | .and a b => .and (lowerE bind a) (lowerE bind b)
  | .or a b => .or (lowerE bind a) (lowerE bind b)
  | .ite c t f => .ifElse (lowerE bind c) (.funcLit [] (lowerB bind t)) (.funcLit [] (lowerB bind f))
  | .call f arity args =>
    if args.length < arity then
      let rs := restNames (arity - args.length)
      if bind then
        let pa := paArgs 0 args (lowerL bind args)
        let clo := GExpr.funcLit rs (.mk [] (.ret (.callFn f (pa.1 ++ rs.map GExpr.var))))
        if pa.2.isEmpty then clo else .callVal (.funcLit [] (.mk pa.2 (.ret clo))) []
      else .funcLit rs (.mk [] (.ret (.callFn f (lowerL bind args ++ rs.map GExpr.var))))
    else .callFn f (lowerL bind args)
  | .callv f args => .callVal (lowerE bind f) (lowerL bind args)
  | .lam ps b => .funcLit ps (lowerB bind b)
  | .pipe a f => .pipe (lowerE bind a) (lowerE bind f)
  | .hof h f args => .hof h (lowerE bind f) (lowerL bind args)
  | .matchE t arms => .callVal (.funcLit [] (.mk [] (.switch (lowerE bind t) (lowerArms bind arms)))) []
  | .matchSE t arms => .callVal (.funcLit [] (.mk [] (.switchS (lowerE bind t) (lowerSArms bind arms)))) []
def lowerL (bind : Bool) : List Expr → List GExpr
  | [] => []
  | e :: es => lowerE bind e :: lowerL bind es
def lowerB (bind : Bool) : Body → GBody
  | .mk ss tail => .mk (lowerSs bind ss) (lowerT bind tail)
def lowerT (bind : Bool) : Tail → GTail
  | .ret e => .ret (lowerE bind e)
  | .matchT t arms => .switch (lowerE bind t) (lowerArms bind arms)
  | .matchST t arms => .switchS (lowerE bind t) (lowerSArms bind arms)
def lowerSs (bind : Bool) : List Stmt → List GStmt
  | [] => []
  | s :: ss => lowerS bind s :: lowerSs bind ss
def lowerS (bind : Bool) : Stmt → GStmt
  | .let1 x e => .define x (lowerE bind e)
  | .let2 x y e => .define2 x y (lowerE bind e)
  | .exec e => .exec (lowerE bind e)
  | .ifonly c b => .exec (.ifOnly (lowerE bind c) (.funcLit [] (lowerB bind b)))
def lowerArms (bind : Bool) : List Arm → List GCase
  | [] => []
  | .mk c bd b :: rest => .mk c bd (lowerB bind b) :: lowerArms bind rest
def lowerSArms (bind : Bool) : List SArm → List GSCase
  | [] => []
  | .mk p b :: rest => .mk p (lowerB bind b) :: lowerSArms bind rest
end

def lowerFun (bind : Bool) (d : FunDef) : GFunDef := { name := d.name, params := d.params, body := lowerB bind d.body }

def lowerProg (bind : Bool) (P : Prog) : GProg := P.map (lowerFun bind)

end Folang.Sem
