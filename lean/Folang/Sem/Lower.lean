import Folang.Sem.GoCore
/-
The lowering of core Folang to Go-core, as fc's emitter does it (fc/expr_to_go.fo, fc/stmt_to_go.fo;
tinyfo/ast.go has the same scheme):
  if c then t else f        ↦  frt.IfElse(c, (func () T { t }), (func () T { f }))
  if c then b   (statement) ↦  frt.IfOnly(c, (func () { b }))
  f a   (f takes more)      ↦  (func (_r0 …) T { return f(a, _r0, …) })        -- fcPartialApplyGo
  a |> f                    ↦  frt.Pipe(a, f)
  match in return position  ↦  switch _v := (t).(type) { case U_C: x := _v.Value; … }
  match elsewhere           ↦  (func () T { switch … })()
  let x = e / let (x, y) = e ↦ x := e / x, y := frt.Destr2(e)
  fun ps -> b               ↦  func (ps) T { b }
everything else homomorphically.
-/
namespace Folang.Sem

def restNames (n : Nat) : List String := (List.range n).map (fun i => "_r" ++ toString i)

mutual
def lowerE : Expr → GExpr
  | .lit l => .lit l
  | .var x => .var x
  | .prim p args => .prim p (lowerL args)
  | .and a b => .and (lowerE a) (lowerE b)
  | .or a b => .or (lowerE a) (lowerE b)
  | .ite c t f => .ifElse (lowerE c) (.funcLit [] (lowerB t)) (.funcLit [] (lowerB f))
  | .call f arity args =>
    if args.length < arity then
      let rs := restNames (arity - args.length)
      .funcLit rs (.mk [] (.ret (.callFn f (lowerL args ++ rs.map GExpr.var))))
    else .callFn f (lowerL args)
  | .callv f args => .callVal (lowerE f) (lowerL args)
  | .lam ps b => .funcLit ps (lowerB b)
  | .pipe a f => .pipe (lowerE a) (lowerE f)
  | .hof h f args => .hof h (lowerE f) (lowerL args)
  | .matchE t arms => .callVal (.funcLit [] (.mk [] (.switch (lowerE t) (lowerArms arms)))) []
  | .matchSE t arms => .callVal (.funcLit [] (.mk [] (.switchS (lowerE t) (lowerSArms arms)))) []
def lowerL : List Expr → List GExpr
  | [] => []
  | e :: es => lowerE e :: lowerL es
def lowerB : Body → GBody
  | .mk ss tail => .mk (lowerSs ss) (lowerT tail)
def lowerT : Tail → GTail
  | .ret e => .ret (lowerE e)
  | .matchT t arms => .switch (lowerE t) (lowerArms arms)
  | .matchST t arms => .switchS (lowerE t) (lowerSArms arms)
def lowerSs : List Stmt → List GStmt
  | [] => []
  | s :: ss => lowerS s :: lowerSs ss
def lowerS : Stmt → GStmt
  | .let1 x e => .define x (lowerE e)
  | .let2 x y e => .define2 x y (lowerE e)
  | .exec e => .exec (lowerE e)
  | .ifonly c b => .exec (.ifOnly (lowerE c) (.funcLit [] (lowerB b)))
def lowerArms : List Arm → List GCase
  | [] => []
  | .mk c bind b :: rest => .mk c bind (lowerB b) :: lowerArms rest
def lowerSArms : List SArm → List GSCase
  | [] => []
  | .mk p b :: rest => .mk p (lowerB b) :: lowerSArms rest
end

def lowerFun (d : FunDef) : GFunDef := { name := d.name, params := d.params, body := lowerB d.body }

def lowerProg (P : Prog) : GProg := P.map lowerFun

end Folang.Sem
