/-
Core Folang (the abstract programs of the C01 / C17 generator) and Go-core (the shape of the Go that
fc and tinyfo emit for them), as data.  Semantics: Sem/Eval.lean (source, the reference semantics the
oracle runs) and Sem/GoCore.lean (target).  Lowering: Sem/Lower.lean.  Theorem: Props/Sim.lean.

First-order data (integers, strings, booleans, unit, pairs, slices, records, union values) is shared
by both languages; library functions and operators on such data are `Prim`s with ONE semantics
(`primFO`) used on both sides — their own correctness is C10 / C13 / C14.  What differs between the
languages, and what the simulation theorem is about, is control: branches, blocks, match, calls,
closures, partial application, pipes, higher-order library calls.
-/
namespace Folang.Sem

inductive Lit where
  | int (n : Int) | str (s : String) | bool (b : Bool) | unit
deriving BEq, Repr, DecidableEq, Inhabited

/-- first-order values -/
inductive FO where
  | lit (l : Lit)
  | tup (a b : FO)
  | slice (xs : List FO)
  | record (name : String) (fs : List (String × FO))
  | uni (case : String) (payload : Option FO)
deriving BEq, Repr, Inhabited

/-- strict first-order primitives: evaluated after their arguments (left to right) -/
inductive Prim where
  | arith (op : String)          -- + - * / on int, + on string, < > <= >= on int   (Go operators)
  | eq | ne                      -- frt.OpEqual / frt.OpNotEqual
  | not                          -- frt.OpNot
  | tup | fst | snd              -- frt.NewTuple2 / frt.Fst / frt.Snd
  | mkRec (name : String) (fields : List String)   -- Name{f1: …, f2: …}
  | fld (f : String)             -- e.f
  | mkSlice                      -- []T{…}
  | len | head                   -- slice.Length / slice.Head
  | ctor (union case : String)   -- New_U_C(…) / New_U_C
  | println | printf1 | sprintf1 -- frt.Println / frt.Printf1 fmt / frt.Sprintf1 fmt
  | concat                       -- strings.Concat
  | interp (parts : List (Option String))   -- frt.SInterP(format, holes…): `some text` / `none` = next hole
deriving BEq, Repr, DecidableEq, Inhabited

mutual
inductive Expr where
  | lit (l : Lit)
  | var (x : String)
  | prim (p : Prim) (args : List Expr)
  | and (a b : Expr)
  | or (a b : Expr)
  | ite (c : Expr) (t f : Body)                       -- if c then t else f   (value)
  | call (f : String) (arity : Nat) (args : List Expr) -- top-level function, full or partial application
  | callv (f : Expr) (args : List Expr)               -- application of a function value
  | lam (ps : List String) (b : Body)                 -- fun ps -> b
  | pipe (a f : Expr)                                 -- a |> f
  | hof (h : String) (f : Expr) (args : List Expr)    -- slice.Map / Filter / Fold  f  args
  | matchE (t : Expr) (arms : List Arm)               -- match in expression position
  | matchSE (t : Expr) (arms : List SArm)             -- match on a string, expression position
inductive Body where
  | mk (ss : List Stmt) (tail : Tail)
inductive Tail where
  | ret (e : Expr)
  | matchT (t : Expr) (arms : List Arm)               -- match in return position
  | matchST (t : Expr) (arms : List SArm)             -- match on a string in return position
inductive Stmt where
  | let1 (x : String) (e : Expr)
  | let2 (x y : String) (e : Expr)
  | exec (e : Expr)
  | ifonly (c : Expr) (b : Body)
inductive Arm where
  | mk (case : String) (bind : Option String) (b : Body)   -- case "_" is the default arm
inductive SArm where
  | mk (pat : Option String) (b : Body)                -- string literal arm; `none` = default
end

instance : Inhabited Expr := ⟨.lit .unit⟩
instance : Inhabited Body := ⟨.mk [] (.ret (.lit .unit))⟩

structure FunDef where
  name : String
  params : List String
  body : Body

abbrev Prog := List FunDef

def Prog.find (p : Prog) (f : String) : Option FunDef := List.find? (fun d => d.name == f) p

/-! ### Go-core -/

mutual
inductive GExpr where
  | lit (l : Lit)
  | var (x : String)
  | prim (p : Prim) (args : List GExpr)
  | and (a b : GExpr)                                  -- a && b
  | or (a b : GExpr)                                   -- a || b
  | ifElse (c t f : GExpr)                             -- frt.IfElse(c, t, f)
  | ifOnly (c t : GExpr)                               -- frt.IfOnly(c, t)
  | callFn (f : String) (args : List GExpr)            -- f(a, b, c)     (package-level function)
  | callVal (f : GExpr) (args : List GExpr)            -- f(a, b)        (function value, incl. (func…)())
  | funcLit (ps : List String) (b : GBody)             -- func (ps) T { b }
  | pipe (a f : GExpr)                                 -- frt.Pipe(a, f)
  | hof (h : String) (f : GExpr) (args : List GExpr)   -- slice.Map(f, xs) …
inductive GBody where
  | mk (ss : List GStmt) (tail : GTail)
inductive GTail where
  | ret (e : GExpr)                                    -- return e   (or a final expression statement)
  | switch (t : GExpr) (cases : List GCase)            -- switch _v := (t).(type) { … }
  | switchS (t : GExpr) (cases : List GSCase)          -- switch (t) { case "lit": … default: … }
inductive GStmt where
  | define (x : String) (e : GExpr)                    -- x := e
  | define2 (x y : String) (e : GExpr)                 -- x, y := frt.Destr2(e)
  | exec (e : GExpr)
inductive GCase where
  | mk (case : String) (bind : Option String) (b : GBody)  -- case U_C: bind := _v.Value; b   ("_" = default)
inductive GSCase where
  | mk (pat : Option String) (b : GBody)
end

instance : Inhabited GExpr := ⟨.lit .unit⟩
instance : Inhabited GBody := ⟨.mk [] (.ret (.lit .unit))⟩

structure GFunDef where
  name : String
  params : List String
  body : GBody

abbrev GProg := List GFunDef

def GProg.find (p : GProg) (f : String) : Option GFunDef := List.find? (fun d => d.name == f) p

/-! ### values -/

/-- source values -/
inductive SVal where
  | fo (v : FO)
  | clo (ps : List String) (b : Body) (env : List (String × SVal))
  | pap (f : String) (arity : Nat) (args : List SVal)

/-- Go-core values -/
inductive GVal where
  | fo (v : FO)
  | clo (ps : List String) (b : GBody) (env : List (String × GVal))

instance : Inhabited SVal := ⟨.fo (.lit .unit)⟩
instance : Inhabited GVal := ⟨.fo (.lit .unit)⟩

abbrev Env := List (String × SVal)
abbrev GEnv := List (String × GVal)
abbrev Trace := List String

def lookup {α : Type} (env : List (String × α)) (x : String) : Option α :=
  (env.find? (fun p => p.1 == x)).map (·.2)

/-! ### primitives on first-order data -/

def display : FO → String
  | .lit (.int i) => toString i
  | .lit (.str s) => s
  | .lit (.bool b) => if b then "true" else "false"
  | _ => "?"

/-- fmt.Sprintf with one argument, for the formats the generator uses (%d %v %s once) -/
def format1 (fmt : String) (v : FO) : String :=
  let rec go : List Char → List Char
    | '%' :: c :: rest => if c == 'd' || c == 'v' || c == 's' then (display v).toList ++ rest else '%' :: c :: go rest
    | c :: rest => c :: go rest
    | [] => []
  String.ofList (go fmt.toList)

def fieldOf (fs : List (String × FO)) (f : String) : Option FO := (fs.find? (fun p => p.1 == f)).map (·.2)

/-- interpolation: the text parts verbatim, each hole replaced by the display of the next argument -/
def interpFO : List (Option String) → List FO → Option String
  | [], [] => some ""
  | [], _ :: _ => none
  | some t :: rest, vs => (interpFO rest vs).map (t ++ ·)
  | none :: rest, v :: vs => (interpFO rest vs).map (display v ++ ·)
  | none :: _, [] => none

/-- the one semantics of primitives: `none` = stuck (ill-typed or run-time panic) -/
def primFO : Prim → List FO → Option (Trace × FO)
  | .arith "+", [.lit (.int x), .lit (.int y)] => some ([], .lit (.int (x + y)))
  | .arith "-", [.lit (.int x), .lit (.int y)] => some ([], .lit (.int (x - y)))
  | .arith "*", [.lit (.int x), .lit (.int y)] => some ([], .lit (.int (x * y)))
  | .arith "/", [.lit (.int x), .lit (.int y)] =>
    if y = 0 then none else some ([], .lit (.int (Int.tdiv x y)))   -- Go: truncated toward zero; / 0 panics
  | .arith "+", [.lit (.str x), .lit (.str y)] => some ([], .lit (.str (x ++ y)))
  | .arith "<", [.lit (.int x), .lit (.int y)] => some ([], .lit (.bool (x < y)))
  | .arith ">", [.lit (.int x), .lit (.int y)] => some ([], .lit (.bool (x > y)))
  | .arith "<=", [.lit (.int x), .lit (.int y)] => some ([], .lit (.bool (x ≤ y)))
  | .arith ">=", [.lit (.int x), .lit (.int y)] => some ([], .lit (.bool (x ≥ y)))
  | .eq, [a, b] => some ([], .lit (.bool (a == b)))
  | .ne, [a, b] => some ([], .lit (.bool (!(a == b))))
  | .not, [.lit (.bool b)] => some ([], .lit (.bool (!b)))
  | .tup, [a, b] => some ([], .tup a b)
  | .fst, [.tup a _] => some ([], a)
  | .snd, [.tup _ b] => some ([], b)
  | .mkRec name fields, vs => if fields.length = vs.length then some ([], .record name (fields.zip vs)) else none
  | .fld f, [.record _ fs] => (fieldOf fs f).map (fun v => ([], v))
  | .mkSlice, vs => some ([], .slice vs)
  | .len, [.slice xs] => some ([], .lit (.int xs.length))
  | .head, [.slice (x :: _)] => some ([], x)
  | .ctor _ c, [] => some ([], .uni c none)
  | .ctor _ c, [v] => some ([], .uni c (some v))
  | .println, [v] => some ([display v ++ "\n"], .lit .unit)
  | .printf1, [.lit (.str fmt), v] => some ([format1 fmt v], .lit .unit)
  | .sprintf1, [.lit (.str fmt), v] => some ([], .lit (.str (format1 fmt v)))
  | .concat, [.lit (.str sep), .slice xs] => some ([], .lit (.str (sep.intercalate (xs.map display))))
  | .interp parts, vs => (interpFO parts vs).map (fun s => ([], .lit (.str s)))
  | _, _ => none

end Folang.Sem
