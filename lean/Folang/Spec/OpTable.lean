/-
The published operator table (property C08's text): from loosest  |> ; then && || < > <= >= ;
then = <> ; then + - ; then * / .  Index in this list = operator id used by the models.
-/
namespace Folang.Spec

/-- (source text, fc token type, rank, Go operator / function, boolean result) -/
def publishedTable : List (String × String × Nat × String × Bool) := [
  ("|>", "PIPE", 1, "frt.Pipe", false),
  ("&&", "AMPAMP", 2, "&&", true),
  ("||", "BARBAR", 2, "||", true),
  (">", "GT", 2, ">", true),
  ("<", "LT", 2, "<", true),
  (">=", "GE", 2, ">=", true),
  ("<=", "LE", 2, "<=", true),
  ("=", "EQ", 3, "frt.OpEqual", true),
  ("<>", "BRACKET", 3, "frt.OpNotEqual", true),
  ("+", "PLUS", 4, "+", false),
  ("-", "MINUS", 4, "-", false),
  ("*", "ASTER", 5, "*", false),
  ("/", "SLASH", 5, "/", false)]

/-- rank of operator id `k` (0 for ids outside the table) -/
def publishedPrec (k : Nat) : Nat := (publishedTable[k]?.map (·.2.2.1)).getD 0

def opText (k : Nat) : String := (publishedTable[k]?.map (·.1)).getD "?"

def opId (text : String) : Option Nat := publishedTable.findIdx? (·.1 == text)

end Folang.Spec
