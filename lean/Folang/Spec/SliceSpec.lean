/-
Independent list-level specification of the slice package ("F#-List-style"): everything is a
core `List` function except first-occurrence de-duplication and the sorter contract.
-/
namespace Folang.Spec
variable {α : Type}

/-- keep the first occurrence of every element, in order -/
def firstOcc [DecidableEq α] : List α → List α
  | [] => []
  | x :: xs => x :: (firstOcc xs).filter (fun y => decide (y ≠ x))

/-- contract assumed of `slices.SortFunc(res, cmp.Compare ∘ key)`: an ascending permutation -/
structure IsSorter {κ : Type} (le : κ → κ → Prop) (key : α → κ) (srt : List α → List α) : Prop where
  perm : ∀ l, (srt l).Perm l
  sorted : ∀ l, (srt l).Pairwise (fun a b => le (key a) (key b))

theorem IsSorter.length {κ : Type} {le : κ → κ → Prop} {key : α → κ} {srt : List α → List α}
    (s : IsSorter le key srt) (l : List α) : (srt l).length = l.length := (s.perm l).length_eq

end Folang.Spec
