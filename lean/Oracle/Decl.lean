import Oracle.Sexp
import Folang.Model.Decl
/-
Oracle stream `c03.union`: name (tparams) ((case payload)…)  →  declarations the model emits, as
((iface N) (struct N (field type)…) (var N type) | (func N nparams result)…)
payload: `unit` | (ty x<hex of the Go type text>)  — the payload type is opaque here (C15 covers it)
-/
namespace Oracle.Decl
open Folang.Decl Folang.TypeExpr Oracle

def payloadOf : Sx → FT
  | .atom "unit" => .unit
  | .list [.atom "ty", .atom g] => .named "ext" ((Sx.decStr g).getD "?") []
  | _ => .unit

def declSx : GoDecl → Sx
  | .iface n _ _ => .list [.atom "iface", .atom n]
  | .struct n _ fs => .list (.atom "struct" :: .atom n :: fs.map (fun f => .list [.atom f.1, .atom (Sx.encStr f.2)]))
  | .var n t => .list [.atom "var", .atom n, .atom t]
  | .func n _ ps r => .list [.atom "func", .atom n, .atom (toString ps.length), .atom (Sx.encStr r)]

def handle (payload : List Sx) : Sx :=
  match payload with
  | [.atom name, .list tps, .list cases] =>
    let cs := cases.filterMap (fun c => match c with | .list [.atom cn, p] => some (cn, payloadOf p) | _ => none)
    let ud : UnionDef := UnionDef.mk name (tps.filterMap Sx.asAtom) cs
    .list ((udfToGo ud).map declSx)
  | _ => .atom "bad-line"

/-- stream c03.record: name (tparams) ((field (ty x<go type>))…) → (struct name ntparams (field x<type>)…) -/
def handleRecord (payload : List Sx) : Sx :=
  match payload with
  | [.atom name, .list tps, .list fields] =>
    let fs := fields.filterMap (fun f => match f with | .list [.atom fname, p] => some (fname, payloadOf p) | _ => none)
    match rdfToGo (RecordDef.mk name (tps.filterMap Sx.asAtom) fs) with
    | .struct n tparams gfs =>
      .list (.atom "struct" :: .atom n :: .atom (toString tparams.length) ::
        gfs.map (fun f => .list [.atom f.1, .atom (Sx.encStr f.2)]))
    | _ => .atom "bad-decl"
  | _ => .atom "bad-line"

end Oracle.Decl
