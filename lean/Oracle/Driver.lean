import Oracle.Sexp
import Folang.Model.Driver
/- Oracle stream `c16.driver`: ((name isFo readable translates writable)…) → (exitOk (written…) diag) -/
namespace Oracle.Driver
open Folang.Driver Oracle

def b (x : Sx) : Bool := x == .atom "true"

def handle (payload : List Sx) : Sx :=
  let args := payload.filterMap (fun e => match e with
    | .list [.atom n, a, c, d, e'] => some ({ name := n, isFo := b a, readable := b c, translates := b d, writable := b e' } : FileArg)
    | _ => none)
  let o := main args
  .list [.atom (if o.exitOk then "exit0" else "exit-nonzero"), .list (o.written.map .atom), .atom (o.diag.getD "-")]

end Oracle.Driver
