import Oracle.Sexp
import Folang.Model.Equal
/-
Oracle stream `eq.pair`: two Go values (as the harness observed them, nil-ness of slices included);
answer: the model of frt.OpEqual / OpNotEqual on them.
-/
namespace Oracle.Equal
open Folang.Equal Oracle

mutual
partial def goValOf : Sx → Option GoVal
  | .list [.atom "i", n] => (Sx.asInt n).map .int
  | .list [.atom "s", .atom s] => (Sx.decStr s).map .str
  | .list [.atom "b", .atom "true"] => some (.bool true)
  | .list [.atom "b", .atom "false"] => some (.bool false)
  | .list (.atom "st" :: .list name :: fs) => do
    let fs ← fieldsOf fs
    pure (.struct (name.filterMap Sx.asAtom) fs)
  | .list [.atom "if"] => some (.iface .nil)
  | .list [.atom "if", v] => do
    let x ← goValOf v
    pure (.iface (.cons x .nil))
  | .list [.atom "nsl"] => some .nilSlice
  | .list (.atom "sl" :: es) => do
    let xs ← valsOf es
    pure (.slice xs)
  | _ => none
partial def valsOf : List Sx → Option GoVals
  | [] => some .nil
  | x :: rest => do
    let v ← goValOf x
    let r ← valsOf rest
    pure (.cons v r)
partial def fieldsOf : List Sx → Option GoFields
  | [] => some .nil
  | .list [.atom n, v] :: rest => do
    let x ← goValOf v
    let r ← fieldsOf rest
    pure (.cons n x r)
  | _ => none
end

def rSx (r : R) : Sx := match r with
  | .ok true => .atom "true"
  | .ok false => .atom "false"
  | .error _ => .atom "panic"

def handle (payload : List Sx) : Sx :=
  match payload with
  | [a, b] =>
    match goValOf a, goValOf b with
    | some ga, some gb => .list [.list [.atom "eq", rSx (OpEqual ga gb)], .list [.atom "neq", rSx (OpNotEqual ga gb)]]
    | _, _ => .atom "bad-value"
  | _ => .atom "bad-line"

end Oracle.Equal
