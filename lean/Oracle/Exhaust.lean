import Oracle.Sexp
import Folang.Model.Exhaust
/-
Oracle stream `c09.match`: (cases) (arms) dflt named  →  the model's verdict; for a rejection the
harness passes the case the real diagnostic named and the oracle says whether it is an uncovered one.
-/
namespace Oracle.Exhaust
open Folang.Exhaust Oracle

def atoms (x : Sx) : List String := match x with
  | .list xs => xs.filterMap Sx.asAtom
  | _ => []

def handle (payload : List Sx) : Sx :=
  match payload with
  | [cs, as, .atom d, .atom named] =>
    let cases := atoms cs
    let arms := atoms as
    let dflt := d == "true"
    match Folang.Exhaust.decide id cases arms dflt with
    | .accept => .list [.atom "accept"]
    | .reject msg =>
      if arms.isEmpty then .list [.atom "reject", .atom "only-default"]
      else if cases.contains named && !arms.contains named then .list [.atom "reject", .atom "ok"]
      else .list [.atom "reject", .atom ("bad-name:" ++ msg.length.repr)]
  | _ => .atom "bad-line"

end Oracle.Exhaust
